import Gallia.Proofs.Lemmas.ScansFrame
namespace Gallia.Scans
open Gallia

variable {σ : Type}

/-- an answer that makes the service scan record the service -/
def Ans.meaningful : Ans → Bool
  | .pos _ => true
  | .neg c => !(serviceNotSupportedCodes.contains c) && c != IMLOIF
  | _ => false

/-- an answer that ends probing as "not supported" -/
def Ans.notSupported : Ans → Bool
  | .neg c => serviceNotSupportedCodes.contains c
  | _ => false

/-! ### the class of ECUs the static theorems are about -/

/-- a session-determined ECU: the answer to a request depends on the active session and the request only; the
    session changes only through positive DiagnosticSessionControl / ECUReset replies; sub-function 0 of
    both is reserved by ISO 14229-1 and never answered positively -/
structure SessEcu (e : Ecu σ) where
  sess : σ → Nat
  ans : Nat → Bytes → Ans
  step_ans : ∀ s p, (e.step s p).2 = ans (sess s) p
  sess_keep : ∀ s p, p.head? ≠ some 0x10 → p.head? ≠ some 0x11 → sess (e.step s p).1 = sess s
  sess_neg : ∀ s p, (ans (sess s) p).isPos = false → sess (e.step s p).1 = sess s
  dsc_pos : ∀ s x, x < 0x80 → (ans (sess s) (dscPdu x)).isPos = true → sess (e.step s (dscPdu x)).1 = x
  reserved0 : ∀ ss l, (ans ss (probePdu 0x10 l)).isPos = false ∧ (ans ss (probePdu 0x11 l)).isPos = false

/-- the ISO 14229-1 default rule for the service level, relative to a table `supp session sid` -/
structure IsoServiceRule (ans : Nat → Bytes → Ans) (supp : Nat → Nat → Bool) : Prop where
  unsupported : ∀ ss sid p, sid < 256 → supp ss sid = false → p.head? = some (b sid) → (ans ss p).notSupported = true
  supported : ∀ ss sid p, sid < 256 → supp ss sid = true → p.head? = some (b sid) → (ans ss p).notSupported = false

/-- session hooks that do not change the session themselves: no DiagnosticSessionControl / ECUReset requests -/
def HooksInert (h : Hooks) : Prop :=
  ∀ k p, (p ∈ h.pre k ∨ p ∈ h.post k) → p.head? ≠ some 0x10 ∧ p.head? ≠ some 0x11

theorem hooksInert_default : HooksInert {} := by
  intro k p h; simp at h

theorem b_inj {x y : Nat} (hx : x < 256) (hy : y < 256) (h : b x = b y) : x = y := by
  have := congrArg UInt8.toNat h
  simp [b] at this
  omega

theorem probePdu_head (sid l : Nat) : (probePdu sid l).head? = some (b sid) := by simp [probePdu]

theorem probe_keeps_session {e : Ecu σ} (E : SessEcu e) (s : σ) (sid l : Nat) (hs : sid < 256) :
    E.sess (e.step s (probePdu sid l)).1 = E.sess s := by
  by_cases h10 : sid = 0x10
  · subst h10; exact E.sess_neg s _ (E.reserved0 _ l).1
  · by_cases h11 : sid = 0x11
    · subst h11; exact E.sess_neg s _ (E.reserved0 _ l).2
    · apply E.sess_keep
      · rw [probePdu_head]; intro h; injection h with h
        exact h10 (b_inj hs (by decide) h)
      · rw [probePdu_head]; intro h; injection h with h
        exact h11 (b_inj hs (by decide) h)

/-- `set_session(k)` / the read-back / inert hooks leave a session-determined ECU that is in session `k` there -/
theorem maint_keeps {e : Ecu σ} (E : SessEcu e) (h : Hooks) (hin : HooksInert h) (k : Nat) (hk : k < 0x80)
    (s : σ) (p : Bytes) (hp : MaintReq h k p) (hs : E.sess s = k) : E.sess (e.step s p).1 = k := by
  rcases hp with rfl | rfl | hp | hp
  · rw [E.sess_keep s _ (by simp [readSessionPdu]) (by simp [readSessionPdu])]; exact hs
  · cases hpos : (E.ans (E.sess s) (dscPdu k)).isPos with
    | true => exact E.dsc_pos s k hk hpos
    | false => rw [E.sess_neg s _ hpos]; exact hs
  · obtain ⟨a, c⟩ := hin k p (Or.inl hp)
    rw [E.sess_keep s _ a c]; exact hs
  · obtain ⟨a, c⟩ := hin k p (Or.inr hp)
    rw [E.sess_keep s _ a c]; exact hs

/-! ### the probe loop for one service id -/

theorem probeLens_session {e : Ecu σ} (E : SessEcu e) (sid : Nat) (hs : sid < 256) (ls : List Nat) (s : σ) :
    E.sess (probeLens e sid ls s).1 = E.sess s :=
  probeLens_inv e (fun s' => E.sess s' = E.sess s) sid ls
    (fun s' l _ h => by rw [probe_keeps_session E s' sid l hs]; exact h) s rfl

/-- whatever the probe loop records is the ECU's answer, in the session the loop started in, to a probe
    of that service id, and it is a meaningful answer -/
theorem probeLens_some {e : Ecu σ} (E : SessEcu e) (sid : Nat) (hs : sid < 256) (ls : List Nat) (s : σ) (a : Ans)
    (c : Bool) (h : (probeLens e sid ls s).2 = .ok (some a, c)) :
    ∃ l ∈ ls, a = E.ans (E.sess s) (probePdu sid l) ∧ a.meaningful = true := by
  induction ls generalizing s c with
  | nil => simp [probeLens] at h
  | cons l ls ih =>
    have hk := probe_keeps_session E s sid l hs
    have hans := E.step_ans s (probePdu sid l)
    have hrec : ∀ c', (probeLens e sid ls (e.step s (probePdu sid l)).1).2 = .ok (some a, c') →
        ∃ l' ∈ l :: ls, a = E.ans (E.sess s) (probePdu sid l') ∧ a.meaningful = true := by
      intro c' h'
      obtain ⟨l', hl', h1, h2⟩ := ih _ c' h'
      exact ⟨l', by simp [hl'], by rw [h1, hk], h2⟩
    simp only [probeLens] at h
    cases hd : e.step s (probePdu sid l) with
    | mk s1 a1 =>
      rw [hd] at h hrec hans
      simp only [] at hans
      cases a1 with
      | timeout => exact hrec c h
      | stuck => simp at h
      | illegal =>
        simp only [] at h
        cases hp : probeLens e sid ls s1 with
        | mk s2 r2 =>
          rw [hp] at h hrec
          cases r2 with
          | raised w => simp at h
          | ok v =>
            obtain ⟨r, c2⟩ := v
            simp only [R.ok.injEq, Prod.mk.injEq] at h
            exact hrec c2 (by simp [h.1])
      | pos p =>
        simp only [R.ok.injEq, Prod.mk.injEq, Option.some.injEq] at h
        exact ⟨l, by simp, by rw [← h.1, hans], by rw [← h.1]; rfl⟩
      | neg code =>
        simp only [] at h
        split at h
        · simp at h
        · rename_i hns
          split at h
          · exact hrec c h
          · rename_i hne
            simp only [R.ok.injEq, Prod.mk.injEq, Option.some.injEq] at h
            refine ⟨l, by simp, by rw [← h.1, hans], ?_⟩
            have hns' : ¬ code ∈ serviceNotSupportedCodes := by simpa using hns
            rw [← h.1]; simp [Ans.meaningful, hns', hne]

/-- if no answer of the service says "not supported" and some probe length is answered meaningfully,
    the probe loop records the service -/
theorem probeLens_complete {e : Ecu σ} (E : SessEcu e) (sid : Nat) (hs : sid < 256) (ls : List Nat) (s : σ)
    (hsup : ∀ l ∈ ls, (E.ans (E.sess s) (probePdu sid l)).notSupported = false)
    (hm : ∃ l ∈ ls, (E.ans (E.sess s) (probePdu sid l)).meaningful = true)
    (r : Option Ans) (c : Bool) (h : (probeLens e sid ls s).2 = .ok (r, c)) : r.isSome = true := by
  induction ls generalizing s c with
  | nil => simp at hm
  | cons l ls ih =>
    have hk := probe_keeps_session E s sid l hs
    have hans := E.step_ans s (probePdu sid l)
    have hrest : ∀ (hnm : (E.ans (E.sess s) (probePdu sid l)).meaningful = false) c',
        (probeLens e sid ls (e.step s (probePdu sid l)).1).2 = .ok (r, c') → r.isSome = true := by
      intro hnm c' h'
      apply ih _ _ _ c' h'
      · intro l' hl'; rw [hk]; exact hsup l' (by simp [hl'])
      · obtain ⟨l', hl', hm'⟩ := hm
        simp only [List.mem_cons] at hl'
        rcases hl' with rfl | hl'
        · rw [hnm] at hm'; cases hm'
        · exact ⟨l', hl', by rw [hk]; exact hm'⟩
    simp only [probeLens] at h
    cases hd : e.step s (probePdu sid l) with
    | mk s1 a1 =>
      rw [hd] at h hrest hans
      simp only [] at hans
      cases a1 with
      | timeout => exact hrest (by rw [← hans]; rfl) c h
      | stuck => simp at h
      | illegal =>
        simp only [] at h
        cases hp : probeLens e sid ls s1 with
        | mk s2 r2 =>
          rw [hp] at h hrest
          cases r2 with
          | raised w => simp at h
          | ok v =>
            obtain ⟨r', c2⟩ := v
            simp only [R.ok.injEq, Prod.mk.injEq] at h
            exact hrest (by rw [← hans]; rfl) c2 (by simp [h.1])
      | pos p =>
        simp only [R.ok.injEq, Prod.mk.injEq] at h
        rw [← h.1]; rfl
      | neg code =>
        simp only [] at h
        have hns := hsup l (by simp)
        rw [← hans] at hns
        simp only [Ans.notSupported] at hns
        split at h
        · rename_i hc; rw [hc] at hns; cases hns
        · split at h
          · rename_i hc
            exact hrest (by rw [← hans]; simp [Ans.meaningful, hc]) c h
          · simp only [R.ok.injEq, Prod.mk.injEq] at h
            rw [← h.1]; rfl

/-- the probe loop only ends in an exception when a probe is answered with an endless ResponsePending sequence -/
theorem probeLens_ok (e : Ecu σ) (sid : Nat) (ls : List Nat) (s : σ)
    (hn : ∀ s l, (e.step s (probePdu sid l)).2 ≠ .stuck) :
    ∃ v, (probeLens e sid ls s).2 = .ok v := by
  induction ls generalizing s with
  | nil => exact ⟨_, rfl⟩
  | cons l ls ih =>
    have hns := hn s l
    simp only [probeLens]
    cases hd : e.step s (probePdu sid l) with
    | mk s1 a1 =>
      rw [hd] at hns
      cases a1 with
      | timeout => exact ih s1
      | stuck => exact absurd rfl hns
      | illegal =>
        simp only []
        obtain ⟨v, hv⟩ := ih s1
        cases hp : probeLens e sid ls s1 with
        | mk s2 r2 =>
          rw [hp] at hv
          simp only [] at hv
          subst hv
          exact ⟨_, rfl⟩
      | pos p => exact ⟨_, rfl⟩
      | neg code =>
        simp only []
        split
        · exact ⟨_, rfl⟩
        · split
          · exact ih s1
          · exact ⟨_, rfl⟩

end Gallia.Scans
