import Gallia.Model.VEcuRng

/-! helper lemmas for the handler layer of C16 (Model/VEcuRng.lean) -/

namespace Gallia.VEcuRng

/-- no handler looks at the ambient stream -/
theorem handler_ambient (c : Cfg) (r : String → DrawStream) (f a a' : DrawStream) (sess : Nat) (req : Request) :
    handler c ⟨r, f, a⟩ sess req = handler c ⟨r, f, a'⟩ sess req := by
  cases req <;> rfl

/-- only RequestSeed looks at the fresh stream -/
theorem handler_fresh (c : Cfg) (r : String → DrawStream) (f f' a a' : DrawStream) (sess : Nat) (req : Request)
    (h : depOf req = .sessionOnly) :
    handler c ⟨r, f, a⟩ sess req = handler c ⟨r, f', a'⟩ sess req := by
  cases req <;> first | rfl | (simp [depOf] at h)

/-- every request but SendKey goes through a handler that sees the session only and leaves the state alone -/
theorem rad_of_not_sendKey (c : Cfg) (w : World) (st : State) (req : Request) (h : depOf req ≠ .pendingSeed) :
    respondAfterDefault c w st req = ⟨(handler c w st.session req).1, st, (handler c w st.session req).2⟩ := by
  cases req <;> first | rfl | (simp [depOf] at h)

/-- SendKey looks at no stream at all -/
theorem rad_sendKey (c : Cfg) (w w' : World) (st : State) (t : Nat) (key : List Nat) :
    respondAfterDefault c w st (.sendKey t key) = respondAfterDefault c w' st (.sendKey t key) := rfl

/-- two states a request history can lead two processes to: the same session, the same *type* of pending
    security-access answer - the seed bytes themselves may differ (they are fresh) -/
def Rel (a b : State) : Prop := a.session = b.session ∧ a.lastSA.map (·.1) = b.lastSA.map (·.1)

theorem Rel.refl (a : State) : Rel a a := ⟨rfl, rfl⟩

/-- equal after masking: identical, or two RequestSeed answers of the same type -/
def MaskEq (r r' : Reply) : Prop := r = r' ∨ ∃ t a b, r = .saSeed t a ∧ r' = .saSeed t b

theorem MaskEq.mask {r r' : Reply} (h : MaskEq r r') : mask r = mask r' := by
  rcases h with h | ⟨t, a, b, h1, h2⟩
  · rw [h]
  · subst h1 h2; rfl

theorem updateState_rel {st st' : State} (h : Rel st st') {r r' : Reply} (hr : MaskEq r r') :
    Rel (updateState st r) (updateState st' r') := by
  obtain ⟨h1, h2⟩ := h
  rcases hr with hr | ⟨t, a, b, hr1, hr2⟩
  · subst hr
    cases r <;> simp [updateState, Rel, isSA, h1, h2]
  · subst hr1 hr2
    simp [updateState, Rel, isSA, h1]

theorem finalReply_handler_maskEq (c : Cfg) (r : String → DrawStream) (f f' a a' : DrawStream) (sess : Nat) (req : Request)
    (h : depOf req ≠ .pendingSeed) :
    MaskEq (finalReply req (handler c ⟨r, f, a⟩ sess req).1) (finalReply req (handler c ⟨r, f', a'⟩ sess req).1) := by
  by_cases hs : depOf req = .sessionOnly
  · rw [handler_fresh c r f f' a a' sess req hs]; exact Or.inl rfl
  · cases req <;> simp [depOf] at h hs
    exact Or.inr ⟨_, _, _, rfl, rfl⟩

/-- one request: related states, worlds with the same seeded oracle, any request but SendKey -/
theorem respond_rel (s : Server) (w w' : World) (hw : w.rngOf = w'.rngOf) {st st' : State} (h : Rel st st') (req : Request)
    (hk : depOf req ≠ .pendingSeed) :
    MaskEq (respond s w st req).1 (respond s w' st' req).1 ∧ Rel (respond s w st req).2.1 (respond s w' st' req).2.1 := by
  obtain ⟨r, f, a⟩ := w
  obtain ⟨r', f', a'⟩ := w'
  simp only at hw
  subst hw
  have hsess := h.1
  unfold respond
  rw [← hsess]
  cases hc : s.chain s.services st.session req with
  | some x => exact ⟨Or.inl rfl, updateState_rel h (Or.inl rfl)⟩
  | none =>
    simp only [rad_of_not_sendKey _ _ _ _ hk, ← hsess]
    have := finalReply_handler_maskEq s.cfg r f f' a a' st.session req hk
    exact ⟨this, updateState_rel h this⟩

theorem runFrom_rel (s : Server) (e e' : Env) (he : e.rngOf = e'.rngOf) (hist : List Request)
    (hk : ∀ r ∈ hist, depOf r ≠ .pendingSeed) :
    ∀ (i j : Nat) (st st' : State), Rel st st' →
      (runFrom s e i st hist).1 = (runFrom s e' j st' hist).1 ∧ Rel (runFrom s e i st hist).2 (runFrom s e' j st' hist).2 := by
  induction hist with
  | nil => intro i j st st' h; exact ⟨rfl, h⟩
  | cons req rest ih =>
    intro i j st st' h
    have h1 := respond_rel s (e.at i) (e'.at j) he h req (hk req (List.mem_cons_self ..))
    have h2 := ih (fun r hr => hk r (List.mem_cons_of_mem _ hr)) (i + 1) (j + 1) _ _ h1.2
    simp only [runFrom]
    exact ⟨by rw [h1.1.mask, h2.1], h2.2⟩

/-- the session after a history does not depend on the streams at all -/
theorem respond_session (s : Server) (w w' : World) {st st' : State} (h : st.session = st'.session) (req : Request)
    (hk : depOf req ≠ .pendingSeed) (hw : w.rngOf = w'.rngOf) :
    (respond s w st req).2.1.session = (respond s w' st' req).2.1.session := by
  have hr : Rel ⟨st.session, none⟩ ⟨st'.session, none⟩ := ⟨h, rfl⟩
  have key : ∀ (w : World) (st : State), (respond s w st req).2.1.session = (respond s w ⟨st.session, none⟩ req).2.1.session := by
    intro w st
    unfold respond
    cases hc : s.chain s.services st.session req with
    | some x => cases x <;> simp [updateState]
    | none =>
      simp only [rad_of_not_sendKey _ _ _ _ hk]
      generalize finalReply req _ = x
      cases x <;> simp [updateState]
  rw [key w st, key w' st']
  exact (respond_rel s w w' hw hr req hk).2.1

theorem rad_ambient (c : Cfg) (r : String → DrawStream) (f a a' : DrawStream) (st : State) (req : Request) :
    respondAfterDefault c ⟨r, f, a⟩ st req = respondAfterDefault c ⟨r, f, a'⟩ st req := by
  cases req <;> rfl

theorem respond_ambient (s : Server) (r : String → DrawStream) (f a a' : DrawStream) (st : State) (req : Request) :
    respond s ⟨r, f, a⟩ st req = respond s ⟨r, f, a'⟩ st req := by
  unfold respond
  rw [rad_ambient]

theorem runFrom_ambient (s : Server) (e e' : Env) (hr : e.rngOf = e'.rngOf) (hf : e.fresh = e'.fresh) (hist : List Request) :
    ∀ (i : Nat) (st : State), runFrom s e i st hist = runFrom s e' i st hist := by
  induction hist with
  | nil => intro i st; rfl
  | cons req rest ih =>
    intro i st
    simp only [runFrom, Env.at, hr, hf, respond_ambient s (e'.rngOf) (e'.fresh i) (e.ambient i) (e'.ambient i), ih]

/-- the answer to any request but SendKey sees the state through the session only -/
theorem respond_reply_of_session (s : Server) (w w' : World) (hw : w.rngOf = w'.rngOf) {st st' : State}
    (h : st.session = st'.session) (req : Request) (hk : depOf req ≠ .pendingSeed) :
    MaskEq (respond s w st req).1 (respond s w' st' req).1 := by
  obtain ⟨r, f, a⟩ := w
  obtain ⟨r', f', a'⟩ := w'
  simp only at hw
  subst hw
  unfold respond
  rw [← h]
  cases hc : s.chain s.services st.session req with
  | some x => exact Or.inl rfl
  | none =>
    simp only [rad_of_not_sendKey _ _ _ _ hk, ← h]
    exact finalReply_handler_maskEq s.cfg r f f' a a' st.session req hk

/-- ... and unmasked, with the same fresh stream, it is the same answer and the same draws -/
theorem respond_of_session (s : Server) (w : World) {st st' : State} (h : st.session = st'.session) (req : Request)
    (hk : depOf req ≠ .pendingSeed) :
    (respond s w st req).1 = (respond s w st' req).1 ∧ (respond s w st req).2.2 = (respond s w st' req).2.2 := by
  unfold respond
  rw [← h]
  cases hc : s.chain s.services st.session req with
  | some x => exact ⟨rfl, rfl⟩
  | none => simp only [rad_of_not_sendKey _ _ _ _ hk, ← h, and_self]

theorem respond_sendKey (s : Server) (w w' : World) (st : State) (t : Nat) (key : List Nat) :
    respond s w st (.sendKey t key) = respond s w' st (.sendKey t key) := by
  unfold respond
  rw [rad_sendKey s.cfg w w']

theorem draw_text (r : Rng) (c : Call) : (r.draw c).2.text = r.text := rfl

theorem drawMany_text (c : Call) (n : Nat) (r : Rng) : (drawMany c n r).2.text = r.text := by
  induction n generalizing r with
  | zero => rfl
  | succ n ih => simp only [drawMany]; rw [ih]; rfl

theorem randomPayload_text (r : Rng) (m : Nat) : (randomPayload r m).2.text = r.text := by
  simp only [randomPayload]; rw [drawMany_text]; rfl

theorem dtcLoop_text (mask n : Nat) (r : Rng) (d : List (Nat × Nat)) : (dtcLoop mask n r d).2.text = r.text := by
  induction n generalizing r d with
  | zero => rfl
  | succ n ih => simp only [dtcLoop]; rw [ih]; rfl

theorem handler_texts (c : Cfg) (w : World) (sess : Nat) (req : Request) :
    (handler c w sess req).2.map (·.1) <+: plannedTexts c sess req := by
  cases req with
  | ecuReset pdu rt =>
    simp only [handler, ecuReset, plannedTexts]
    split <;> simp [Rng.seg, Rng.draw, stateful, mkRng]
  | requestSeed t => simp [handler, requestSeed, plannedTexts, Rng.seg, randomPayload_text]
  | sendKey t k => simp [handler, plannedTexts]
  | routineControl pdu rid sf =>
    simp only [handler, routineControl, plannedTexts]
    split
    · simp [Rng.seg, Rng.draw, stateful, mkRng, List.IsPrefix]
    · split
      · simp [Rng.seg, Rng.draw, stateful, mkRng, List.IsPrefix]
      · split
        · simp [Rng.seg, Rng.draw, stateful, mkRng]
        · simp [Rng.seg, Rng.draw, stateful, mkRng, randomPayload_text]
  | readDataById pdu did =>
    simp only [handler, readDataById, plannedTexts]
    split <;> simp [Rng.seg, Rng.draw, stateful, mkRng, randomPayload_text]
  | writeDataById pdu did =>
    simp only [handler, writeDataById, idThenFormat, plannedTexts]
    split
    · simp [Rng.seg, Rng.draw, stateful, mkRng, List.IsPrefix]
    · split <;> simp [Rng.seg, Rng.draw, stateful, mkRng]
  | ioControl pdu did =>
    simp only [handler, ioControl, idThenFormat, plannedTexts]
    split
    · simp [Rng.seg, Rng.draw, stateful, mkRng, List.IsPrefix]
    · split <;> simp [Rng.seg, Rng.draw, stateful, mkRng, randomPayload_text]
  | clearDTC g =>
    simp only [handler, clearDTC, plannedTexts]
    split <;> simp [Rng.seg, Rng.draw, stateful, mkRng]
  | reportDTCByStatusMask m =>
    simp [handler, reportDTCByStatusMask, plannedTexts, Rng.seg, Rng.draw, stateful, mkRng, dtcLoop_text]
  | readDTCOther => simp [handler, plannedTexts]
  | other sid => simp [handler, plannedTexts]


/-- a handler call reads the seeded oracle at the planned texts only -/
theorem handler_reads_planned_only (c : Cfg) (r r' : String → DrawStream) (f a a' : DrawStream) (sess : Nat) (req : Request)
    (h : ∀ x, some x ∈ plannedTexts c sess req → r x = r' x) :
    handler c ⟨r, f, a⟩ sess req = handler c ⟨r', f, a'⟩ sess req := by
  cases req with
  | ecuReset pdu rt =>
    have h1 := h (seedText c.seed sess [pyBytesRepr pdu]) (by simp [plannedTexts])
    simp only [handler, ecuReset, stateful, mkRng, h1]
  | requestSeed t => rfl
  | sendKey t k => rfl
  | routineControl pdu rid sf =>
    have h1 := h (seedText c.seed sess [toString sidRoutineControl, toString rid]) (by simp [plannedTexts])
    have h2 := h (addSeed (seedText c.seed sess [toString sidRoutineControl, toString rid]) (toString sf)) (by simp [plannedTexts])
    have h3 := h (seedText c.seed sess [pyBytesRepr pdu]) (by simp [plannedTexts])
    simp only [handler, routineControl, stateful, mkRng, h1, h2, h3] <;> rfl
  | readDataById pdu did =>
    have h1 := h (seedText c.seed sess [pyBytesRepr pdu]) (by simp [plannedTexts])
    simp only [handler, readDataById, stateful, mkRng, h1] <;> rfl
  | writeDataById pdu did =>
    have h1 := h (seedText c.seed sess [toString sidWdbi, toString did]) (by simp [plannedTexts])
    have h2 := h (seedText c.seed sess [pyBytesRepr pdu]) (by simp [plannedTexts])
    simp only [handler, writeDataById, idThenFormat, stateful, mkRng, h1, h2] <;> rfl
  | ioControl pdu did =>
    have h1 := h (seedText c.seed sess [toString sidIoctl, toString did]) (by simp [plannedTexts])
    have h2 := h (seedText c.seed sess [pyBytesRepr pdu]) (by simp [plannedTexts])
    simp only [handler, ioControl, idThenFormat, stateful, mkRng, h1, h2] <;> rfl
  | clearDTC g =>
    have h1 := h (seedText c.seed sess [toString sidClearDTC, toString g]) (by simp [plannedTexts])
    simp only [handler, clearDTC, stateful, mkRng, h1] <;> rfl
  | reportDTCByStatusMask m =>
    have h1 := h (seedText c.seed sess []) (by simp [plannedTexts])
    have h2 := h (seedText c.seed sess [toString sidReadDTC, toString m]) (by simp [plannedTexts])
    simp only [handler, reportDTCByStatusMask, stateful, mkRng, h1, h2] <;> rfl
  | readDTCOther => rfl
  | other sid => rfl


end Gallia.VEcuRng
