import Gallia.Proofs.Lemmas.Lines
import Gallia.Model.LinesExec
/-
  Helper lemmas for the whole-execution theorems of C19 (client machine, server loop, exchange).
-/
set_option linter.unusedSimpArgs false
namespace Gallia.Lines
open Gallia Gallia.Framing

/-! ### specification vocabulary -/

/-- lines with their terminators, concatenated -/
def joinLines (ls : List Bytes) : Bytes := (ls.map (· ++ [NL])).flatten

/-- the complete lines of a byte stream, in order -/
def linesOf (s : Bytes) : List Bytes := (parseAll lineCutter s).1

/-- the bytes delivered to the reader by an operation sequence (`ended`: end-of-stream already seen) -/
def fedBytes (ended : Bool) : List Op → Bytes
  | [] => []
  | .feed ch :: ops => if ended then fedBytes ended ops else ch ++ fedBytes ended ops
  | .eof :: ops => fedBytes true ops
  | _ :: ops => fedBytes ended ops

/-- whether the stream has ended after an operation sequence -/
def eofSeen (ended : Bool) : List Op → Bool
  | [] => ended
  | .eof :: _ => true
  | _ :: ops => eofSeen ended ops

/-- the read results that handed out a line (a message or an undecodable line) -/
def lineOf : Obs → Option ReadRes
  | .res (.msg m) => some (.msg m)
  | .res .bad => some .bad
  | _ => none

def lineResults (obs : List Obs) : List ReadRes := obs.filterMap lineOf

/-- what a read must return when the stream delivered so far is `S`, `k` lines have been handed out and
    `ended` tells whether the peer closed -/
def specRead (S : Bytes) (k : Nat) (ended : Bool) : ReadRes :=
  match (linesOf S)[k]? with
  | some l => decodeLine l
  | none => if ended then .eos else .pending

/-! ### cutting lines -/

theorem cutLine_some_eq {buf l rest} (h : cutLine buf = some (l, rest)) : buf = l ++ NL :: rest ∧ NL ∉ l := by
  induction buf generalizing l rest with
  | nil => simp [cutLine] at h
  | cons b t ih =>
    simp only [cutLine] at h
    split at h
    · rename_i hb; injection h with h; injection h with h1 h2; subst h1 h2; simp [hb]
    · rename_i hb
      split at h
      · contradiction
      · rename_i l' r' hc
        injection h with h; injection h with h1 h2; subst h1 h2
        obtain ⟨e, hn⟩ := ih hc
        refine ⟨by rw [e]; simp, ?_⟩
        intro hm
        rcases List.mem_cons.mp hm with h | h
        · exact hb h.symm
        · exact hn h

theorem linesOf_nil_of_not_mem {s : Bytes} (h : NL ∉ s) : parseAll lineCutter s = ([], s) :=
  parseAll_none lineCutter (by simpa [lineCutter] using cutLine_none_iff.mpr h)

theorem parseAll_joinLines (done : List Bytes) (rest : Bytes) (hd : ∀ l ∈ done, NL ∉ l) :
    parseAll lineCutter (joinLines done ++ rest) =
      (done ++ (parseAll lineCutter rest).1, (parseAll lineCutter rest).2) := by
  induction done with
  | nil => simp [joinLines]
  | cons l ls ih =>
    have h1 : lineCutter.cut (l ++ NL :: (joinLines ls ++ rest)) = some (l, joinLines ls ++ rest) := by
      simpa [lineCutter] using cutLine_line l _ (hd l (by simp))
    have e : joinLines (l :: ls) ++ rest = l ++ NL :: (joinLines ls ++ rest) := by
      simp [joinLines, List.append_assoc]
    rw [e, parseAll_some lineCutter h1, ih (fun x hx => hd x (by simp [hx]))]
    simp

theorem joinLines_append (a b : List Bytes) : joinLines (a ++ b) = joinLines a ++ joinLines b := by
  simp [joinLines]

theorem joinLines_map_hexB (ms : List Bytes) : joinLines (ms.map hexB) = (ms.map enc).flatten := by
  simp only [joinLines, List.map_map, Function.comp_def]; rfl

/-! ### runs -/

theorem crun_append (c : Client) (a b : List Op) :
    crun c (a ++ b) = ((crun (crun c a).1 b).1, (crun c a).2 ++ (crun (crun c a).1 b).2) := by
  induction a generalizing c with
  | nil => simp [crun]
  | cons op ops ih => simp [crun, ih]

theorem crun_length (c : Client) (ops : List Op) : (crun c ops).2.length = ops.length := by
  induction ops generalizing c with
  | nil => simp [crun]
  | cons op ops ih => simp [crun, ih]

theorem fedBytes_cons (e : Bool) (op : Op) (ops : List Op) (c : Client) (hc : c.eof = e) :
    fedBytes e (op :: ops) = fedBytes e [op] ++ fedBytes (cstep c op).1.eof ops := by
  subst hc
  cases op <;> simp [fedBytes, cstep]
  · split <;> simp_all
  · split <;> simp

theorem eofSeen_true (ops : List Op) : eofSeen true ops = true := by
  induction ops with
  | nil => rfl
  | cons op ops ih => cases op <;> simp [eofSeen, ih]

theorem eofSeen_cons (op : Op) (ops : List Op) (c : Client) :
    eofSeen c.eof (op :: ops) = eofSeen (cstep c op).1.eof ops := by
  cases op <;> simp [eofSeen, cstep, eofSeen_true]
  · split <;> simp
  · split <;> simp

/-! ### the refinement relation between the client's buffer and the delivered stream -/

/-- `S` (everything delivered so far) = the lines already handed out ++ the reader buffer ++ an unterminated tail
    that was dropped at end-of-stream -/
structure Rel (c : Client) (S : Bytes) (done : List Bytes) : Prop where
  clean : ∀ l ∈ done, NL ∉ l
  split : ∃ tail, S = joinLines done ++ (c.buf ++ tail) ∧ NL ∉ tail ∧ (tail = [] ∨ (c.eof = true ∧ c.buf = []))

theorem rel_init : Rel {} [] [] := ⟨by simp, [], by simp [joinLines], by simp, Or.inl rfl⟩

theorem linesOf_nil : linesOf [] = [] := by
  simp [linesOf, parseAll_none lineCutter (buf := []) (by simp [lineCutter, cutLine])]

theorem rel_lines {c S done} (h : Rel c S done) : linesOf S = done ++ linesOf c.buf := by
  obtain ⟨tail, hS, ht, hcase⟩ := h.split
  rw [linesOf, hS, parseAll_joinLines _ _ h.clean]
  rcases hcase with rfl | ⟨_, hb⟩
  · simp [linesOf]
  · simp [hb, linesOf_nil, linesOf_nil_of_not_mem ht]

theorem lineOf_decodeLine (l : Bytes) : lineOf (.res (decodeLine l)) = some (decodeLine l) := by
  unfold decodeLine; split <;> rfl

theorem rel_read {c : Client} {S done} (hR : Rel c S done) :
    (readLine c.buf c.eof).1 = specRead S done.length c.eof ∧
    ∃ extra, Rel { c with buf := (readLine c.buf c.eof).2 } S (done ++ extra) ∧
      (lineOf (.res (readLine c.buf c.eof).1)).toList = extra.map decodeLine := by
  have hl := rel_lines hR
  obtain ⟨tail, hS, ht, hcase⟩ := hR.split
  cases hc : cutLine c.buf with
  | some p =>
    obtain ⟨l, rest⟩ := p
    obtain ⟨hb, hnl⟩ := cutLine_some_eq hc
    have hlb : linesOf c.buf = l :: linesOf rest := by
      simp [linesOf, parseAll_some lineCutter (buf := c.buf) (f := l) (rest := rest) (by simpa [lineCutter] using hc)]
    have htail : tail = [] := by
      rcases hcase with h | ⟨_, h⟩
      · exact h
      · rw [h] at hc; simp [cutLine] at hc
    subst htail
    refine ⟨?_, [l], ⟨?_, [], ?_, by simp, Or.inl rfl⟩, ?_⟩
    · simp [readLine, hc, specRead, hl, hlb]
    · intro x hx
      rcases List.mem_append.mp hx with h | h
      · exact hR.clean x h
      · simp at h; subst h; exact hnl
    · simp only [readLine, hc]
      rw [hS, hb, joinLines_append]
      simp [joinLines, List.append_assoc]
    · simp [readLine, hc, lineOf_decodeLine]
  | none =>
    have hnb : NL ∉ c.buf := cutLine_none_iff.mp hc
    have hlb : linesOf c.buf = [] := by simp [linesOf, linesOf_nil_of_not_mem hnb]
    cases he : c.eof with
    | false =>
      refine ⟨?_, [], ?_, ?_⟩
      · simp [readLine, hc, specRead, hl, hlb, he]
      · simp only [readLine, hc, he, List.append_nil]
        exact ⟨hR.clean, tail, hS, ht, by simpa [he] using hcase⟩
      · simp [readLine, hc, he, lineOf]
    | true =>
      refine ⟨?_, [], ?_, ?_⟩
      · simp [readLine, hc, specRead, hl, hlb, he]
      · simp only [readLine, hc, he, List.append_nil]
        refine ⟨hR.clean, c.buf ++ tail, by simpa using hS, ?_, Or.inr ⟨by simp [he], rfl⟩⟩
        intro hm; rcases List.mem_append.mp hm with h | h
        · exact hnb h
        · exact ht h
      · simp [readLine, hc, he, lineOf]

theorem rel_step {c : Client} {S done} (op : Op) (hR : Rel c S done) :
    ∃ extra, Rel (cstep c op).1 (S ++ fedBytes c.eof [op]) (done ++ extra) ∧
      (lineOf (cstep c op).2).toList = extra.map decodeLine := by
  obtain ⟨tail, hS, ht, hcase⟩ := hR.split
  cases op with
  | feed ch =>
    cases he : c.eof with
    | true => exact ⟨[], by simpa [cstep, he, fedBytes] using hR, by simp [cstep, lineOf]⟩
    | false =>
      have htail : tail = [] := by
        rcases hcase with h | ⟨h, _⟩
        · exact h
        · rw [he] at h; cases h
      subst htail
      refine ⟨[], ?_, by simp [cstep, lineOf]⟩
      simp only [cstep, he, fedBytes, List.append_nil]
      exact ⟨hR.clean, [], by simp [hS, List.append_assoc], by simp, Or.inl rfl⟩
  | eof =>
    refine ⟨[], ?_, by simp [cstep, lineOf]⟩
    simp only [cstep, fedBytes, List.append_nil]
    refine ⟨hR.clean, tail, hS, ht, ?_⟩
    rcases hcase with h | ⟨_, h⟩
    · exact Or.inl h
    · exact Or.inr ⟨rfl, h⟩
  | read =>
    obtain ⟨_, extra, h1, h2⟩ := rel_read hR
    exact ⟨extra, by simpa [cstep, fedBytes] using h1, by simpa [cstep] using h2⟩
  | write m =>
    refine ⟨[], ?_, by simp [cstep, lineOf]⟩
    simp only [cstep, fedBytes, List.append_nil]
    exact ⟨hR.clean, tail, hS, ht, hcase⟩
  | request m =>
    obtain ⟨_, extra, h1, h2⟩ := rel_read hR
    refine ⟨extra, ?_, by simpa [cstep] using h2⟩
    simp only [cstep, fedBytes, List.append_nil]
    exact ⟨h1.clean, h1.split⟩
  | close =>
    refine ⟨[], ?_, by simp only [cstep]; split <;> simp [lineOf]⟩
    simp only [cstep, fedBytes, List.append_nil]
    split
    · exact hR
    · exact ⟨hR.clean, tail, hS, ht, hcase⟩

theorem lineResults_cons (o : Obs) (os : List Obs) : lineResults (o :: os) = (lineOf o).toList ++ lineResults os := by
  unfold lineResults
  cases h : lineOf o <;> simp [List.filterMap_cons, h]

theorem rel_run {c : Client} {S done} (ops : List Op) (hR : Rel c S done) :
    ∃ extra, Rel (crun c ops).1 (S ++ fedBytes c.eof ops) (done ++ extra) ∧
      lineResults (crun c ops).2 = extra.map decodeLine ∧ (crun c ops).1.eof = eofSeen c.eof ops := by
  induction ops generalizing c S done with
  | nil => exact ⟨[], by simpa [crun, fedBytes] using hR, by simp [crun, lineResults], by simp [crun, eofSeen]⟩
  | cons op ops ih =>
    obtain ⟨e1, h1, h2⟩ := rel_step op hR
    obtain ⟨e2, h3, h4, h5⟩ := ih h1
    refine ⟨e1 ++ e2, ?_, ?_, ?_⟩
    · rw [fedBytes_cons c.eof op ops c rfl]
      simpa [crun, List.append_assoc] using h3
    · simp [crun, lineResults_cons, h2, h4]
    · simp only [crun]; rw [h5, eofSeen_cons]

theorem decodeLine_ne_pending (l : Bytes) : decodeLine l ≠ .pending ∧ decodeLine l ≠ .eos := by
  unfold decodeLine; split <;> simp

theorem cstep_read_pending {c : Client} (h : (cstep c .read).2 = .res .pending) : (cstep c .read).1 = c := by
  simp only [cstep, readLine] at h ⊢
  cases hc : cutLine c.buf with
  | some p => rw [hc] at h; simp at h; exact absurd h (decodeLine_ne_pending _).1
  | none =>
    rw [hc] at h
    obtain ⟨buf, eof, out, closed, closes⟩ := c
    cases eof <;> simp at h ⊢

theorem crun_feeds (c : Client) (he : c.eof = false) (chunks : List Bytes) :
    crun c (chunks.map .feed) = ({ c with buf := c.buf ++ chunks.flatten }, List.replicate chunks.length .ok) := by
  induction chunks generalizing c with
  | nil => simp [crun]
  | cons x xs ih =>
    obtain ⟨buf, eof, out, closed, closes⟩ := c
    simp only at he; subst he
    simp only [List.map_cons, crun, cstep]
    rw [ih _ rfl]
    simp [List.replicate_succ, List.append_assoc]

theorem crun_writes (c : Client) (ms : List Bytes) :
    crun c (ms.map .write) = ({ c with out := c.out ++ (ms.map enc).flatten }, ms.map (fun m => .wrote m.length)) := by
  induction ms generalizing c with
  | nil => simp [crun]
  | cons x xs ih =>
    simp only [List.map_cons, crun, cstep]
    rw [ih]
    simp [List.append_assoc]

theorem rel_fresh (c : Client) (hb : c.buf = []) : Rel c [] [] :=
  ⟨by simp, [], by simp [joinLines, hb], by simp, Or.inl rfl⟩

/-- `n` reads on a buffer holding the encodings of `rs` (stream still open): the first `n` of them, then timeouts -/
theorem crun_reads (c : Client) (he : c.eof = false) (rs : List Bytes) (hb : c.buf = (rs.map enc).flatten) (n : Nat) :
    (crun c (List.replicate n .read)).2 =
      (rs.take n).map (fun r => Obs.res (.msg r)) ++ List.replicate (n - rs.length) (.res .pending) := by
  induction n generalizing c rs with
  | zero => simp [crun]
  | succ n ih =>
    obtain ⟨buf, eof, out, closed, closes⟩ := c
    simp only at he hb; subst he hb
    cases rs with
    | nil =>
      have := ih { buf := [], eof := false, out := out, closed := closed, closes := closes } rfl [] rfl
      simp only [List.replicate_succ, crun, cstep, readLine, cutLine, List.map_nil, List.flatten_nil] at this ⊢
      simp [this, List.replicate_succ]
    | cons r rs =>
      have h1 : readLine ((List.map enc (r :: rs)).flatten) false = (.msg r, (rs.map enc).flatten) := by
        simp only [List.map_cons, List.flatten_cons, readLine, enc]
        rw [List.append_assoc, List.singleton_append, cutLine_line _ _ (nl_not_mem_hexB r)]
        simp [decodeLine, strip_hexB, unhexB_hexB_append]
      have := ih { buf := (rs.map enc).flatten, eof := false, out := out, closed := closed, closes := closes } rfl rs rfl
      simp only [List.replicate_succ, crun, cstep, h1]
      simp [this]

theorem cutBy_flatten (ks : List Nat) (b : Bytes) : (cutBy ks b).flatten = b := by
  induction ks generalizing b with
  | nil => simp [cutBy]
  | cons k ks ih =>
    simp only [cutBy]
    split
    · simp
    · simp [ih]

/-! ### tolerant decoding: either case, surrounding whitespace (CRLF, blanks) -/

/-- ASCII lower-casing of the hex letters -/
def lowerB (c : UInt8) : UInt8 := if 65 ≤ c.toNat ∧ c.toNat ≤ 70 then UInt8.ofNat (c.toNat + 32) else c

theorem unhexDigit_anycase_nat : ∀ k, k < 256 → ∀ n, n < 16 → lowerB (UInt8.ofNat k) = hexDigitB n →
    unhexDigitB (UInt8.ofNat k) = some n ∧ isWs (UInt8.ofNat k) = false := by decide +kernel

theorem unhexDigit_anycase (c : UInt8) (n : Nat) (hn : n < 16) (h : lowerB c = hexDigitB n) :
    unhexDigitB c = some n ∧ isWs c = false := by
  have := unhexDigit_anycase_nat c.toNat c.toNat_lt n hn
  simpa using this (by simpa using h)

theorem unhexB_anycase (m : Bytes) (ds : Bytes) (h : ds.map lowerB = hexB m) :
    unhexB ds = some m ∧ ∀ x ∈ ds, isWs x = false := by
  induction m generalizing ds with
  | nil =>
    simp only [hexB, List.map_eq_nil_iff] at h; subst h; simp [unhexB]
  | cons b t ih =>
    match ds, h with
    | [], h => simp [hexB] at h
    | [_], h => simp [hexB] at h
    | a :: c :: rest, h =>
      simp only [hexB, List.map_cons, List.cons.injEq] at h
      obtain ⟨h1, h2, h3⟩ := h
      have hb1 : b.toNat / 16 < 16 := by have := b.toNat_lt; omega
      have hb2 : b.toNat % 16 < 16 := by omega
      obtain ⟨e1, w1⟩ := unhexDigit_anycase a _ hb1 h1
      obtain ⟨e2, w2⟩ := unhexDigit_anycase c _ hb2 h2
      obtain ⟨e3, w3⟩ := ih rest h3
      refine ⟨by simp only [unhexB, e1, e2, e3, byte_split], ?_⟩
      intro x hx
      simp only [List.mem_cons] at hx
      rcases hx with rfl | rfl | hx
      · exact w1
      · exact w2
      · exact w3 x hx

theorem dropWhile_all {α} (p : α → Bool) (l : List α) (h : ∀ x ∈ l, p x = true) : l.dropWhile p = [] := by
  induction l with
  | nil => rfl
  | cons a t ih => simp [List.dropWhile, h a (by simp), ih (fun x hx => h x (by simp [hx]))]

theorem dropWhile_prefix {α} (p : α → Bool) (pre l : List α) (h : ∀ x ∈ pre, p x = true) :
    (pre ++ l).dropWhile p = l.dropWhile p := by
  induction pre with
  | nil => rfl
  | cons a t ih => simp [List.dropWhile, h a (by simp), ih (fun x hx => h x (by simp [hx]))]

theorem strip_padded (pre core post : Bytes) (hpre : ∀ x ∈ pre, isWs x = true) (hpost : ∀ x ∈ post, isWs x = true)
    (hcore : ∀ x ∈ core, isWs x = false) : strip (pre ++ core ++ post) = core := by
  unfold strip
  rw [List.append_assoc, dropWhile_prefix _ _ _ hpre]
  cases core with
  | nil => simp [dropWhile_all _ _ hpost]
  | cons c cs =>
    have hc : isWs c = false := hcore c (by simp)
    have h1 : ((c :: cs) ++ post).dropWhile isWs = (c :: cs) ++ post := by simp [List.dropWhile, hc]
    rw [h1, List.reverse_append, dropWhile_prefix _ _ _ (by intro x hx; exact hpost x (by simpa using hx)),
      dropWhile_id _ _ (by intro x hx; exact hcore x (by simp at hx; simp [hx.symm]))]
    simp

/-! ### server loop -/

variable {σ : Type}

theorem srvLoop_none (h : σ → Bytes → σ × HRes) (st : σ) {buf : Bytes} (eof : Bool) (hc : cutLine buf = none) :
    srvLoop h st buf eof =
      if eof then (st, [], if buf = [] then .eofClean else .eofTail, []) else (st, [], .waiting, buf) := by
  rw [srvLoop.eq_def]; split
  · rfl
  · rename_i h'; rw [hc] at h'; cases h'

theorem srvLoop_some (h : σ → Bytes → σ × HRes) (st : σ) {buf l rest : Bytes} (eof : Bool)
    (hc : cutLine buf = some (l, rest)) :
    srvLoop h st buf eof =
      match decodeLine l with
      | .msg m =>
        match (h st m).2 with
        | .raised => ((h st m).1, [], .handlerRaised, rest)
        | r => ((srvLoop h (h st m).1 rest eof).1, replyBytes r ++ (srvLoop h (h st m).1 rest eof).2.1,
                (srvLoop h (h st m).1 rest eof).2.2.1, (srvLoop h (h st m).1 rest eof).2.2.2)
      | _ => (st, [], .undecodable, rest) := by
  rw [srvLoop.eq_def]; split
  · rename_i h'; rw [hc] at h'; cases h'
  · rename_i l' rest' h'; rw [hc] at h'; cases h'; rfl

/-- a good line: decodes to `m`, the handler does not raise -/
theorem srvLoop_good (h : σ → Bytes → σ × HRes) (st : σ) (l rest : Bytes) (eof : Bool) (m : Bytes)
    (hl : NL ∉ l) (hd : decodeLine l = .msg m) (hr : (h st m).2 ≠ .raised) :
    srvLoop h st (l ++ NL :: rest) eof =
      ((srvLoop h (h st m).1 rest eof).1, replyBytes (h st m).2 ++ (srvLoop h (h st m).1 rest eof).2.1,
       (srvLoop h (h st m).1 rest eof).2.2.1, (srvLoop h (h st m).1 rest eof).2.2.2) := by
  rw [srvLoop_some h st eof (cutLine_line l rest hl), hd]
  cases hres : (h st m).2 <;> simp_all

theorem srvLoop_bad (h : σ → Bytes → σ × HRes) (st : σ) (l rest : Bytes) (eof : Bool)
    (hl : NL ∉ l) (hd : decodeLine l = .bad) :
    srvLoop h st (l ++ NL :: rest) eof = (st, [], .undecodable, rest) := by
  rw [srvLoop_some h st eof (cutLine_line l rest hl), hd]

theorem srvLoop_raise (h : σ → Bytes → σ × HRes) (st : σ) (l rest : Bytes) (eof : Bool) (m : Bytes)
    (hl : NL ∉ l) (hd : decodeLine l = .msg m) (hr : (h st m).2 = .raised) :
    srvLoop h st (l ++ NL :: rest) eof = ((h st m).1, [], .handlerRaised, rest) := by
  rw [srvLoop_some h st eof (cutLine_line l rest hl), hd]
  simp only [hr]

/-- the handler's results for a sequence of requests, threading its state -/
def answersX (h : σ → Bytes → σ × HRes) : σ → List Bytes → σ × List HRes
  | s, [] => (s, [])
  | s, m :: ms => ((answersX h (h s m).1 ms).1, (h s m).2 :: (answersX h (h s m).1 ms).2)

/-- the replies among them -/
def repliesOf (rs : List HRes) : List Bytes := rs.filterMap (fun | .reply r => some r | _ => none)

theorem flatten_replyBytes (rs : List HRes) : (rs.map replyBytes).flatten = ((repliesOf rs).map enc).flatten := by
  induction rs with
  | nil => rfl
  | cons r rs ih => cases r <;> simp_all [replyBytes, repliesOf]

/-- lines `ls` that decode to the requests `ms`, none of which makes the handler raise, followed by `rest`:
    the loop answers them in order and carries on with `rest` -/
theorem srvLoop_lines (h : σ → Bytes → σ × HRes) (st : σ) (ls ms : List Bytes) (rest : Bytes) (eof : Bool)
    (hl : ∀ l ∈ ls, NL ∉ l) (hd : ls.map decodeLine = ms.map ReadRes.msg)
    (hr : ∀ r ∈ (answersX h st ms).2, r ≠ .raised) :
    srvLoop h st (joinLines ls ++ rest) eof =
      ((srvLoop h (answersX h st ms).1 rest eof).1,
       ((answersX h st ms).2.map replyBytes).flatten ++ (srvLoop h (answersX h st ms).1 rest eof).2.1,
       (srvLoop h (answersX h st ms).1 rest eof).2.2.1, (srvLoop h (answersX h st ms).1 rest eof).2.2.2) := by
  induction ls generalizing st ms with
  | nil =>
    cases ms with
    | nil => simp [joinLines, answersX]
    | cons _ _ => simp at hd
  | cons l ls ih =>
    cases ms with
    | nil => simp at hd
    | cons m ms =>
      simp only [List.map_cons, List.cons.injEq] at hd
      have e : joinLines (l :: ls) ++ rest = l ++ NL :: (joinLines ls ++ rest) := by
        simp [joinLines, List.append_assoc]
      have hr0 : (h st m).2 ≠ .raised := hr _ (by simp [answersX])
      rw [e, srvLoop_good h st l _ eof m (hl l (by simp)) hd.1 hr0,
        ih (h st m).1 ms (fun x hx => hl x (by simp [hx])) hd.2 (fun r hx => hr r (by simp [answersX, hx]))]
      simp [answersX, List.append_assoc]

/-- feeding more bytes to a loop that has run on `a`: if it was blocked it carries on from where it was,
    if it had ended the bytes stay unread -/
theorem srvLoop_append (h : σ → Bytes → σ × HRes) (st : σ) (a b : Bytes) (eof : Bool) :
    srvLoop h st (a ++ b) eof =
      if (srvLoop h st a false).2.2.1 = .waiting then
        ((srvLoop h (srvLoop h st a false).1 ((srvLoop h st a false).2.2.2 ++ b) eof).1,
         (srvLoop h st a false).2.1 ++ (srvLoop h (srvLoop h st a false).1 ((srvLoop h st a false).2.2.2 ++ b) eof).2.1,
         (srvLoop h (srvLoop h st a false).1 ((srvLoop h st a false).2.2.2 ++ b) eof).2.2.1,
         (srvLoop h (srvLoop h st a false).1 ((srvLoop h st a false).2.2.2 ++ b) eof).2.2.2)
      else ((srvLoop h st a false).1, (srvLoop h st a false).2.1, (srvLoop h st a false).2.2.1,
            (srvLoop h st a false).2.2.2 ++ b) := by
  generalize hn : a.length = n
  induction n using Nat.strongRecOn generalizing a st with
  | _ n ih =>
    cases hc : cutLine a with
    | none => simp [srvLoop_none h st false hc]
    | some p =>
      obtain ⟨l, rest⟩ := p
      have hlt := cutLine_lt hc
      rw [srvLoop_some h st eof (cutLine_mono b hc), srvLoop_some h st false hc]
      cases hd : decodeLine l with
      | msg m =>
        simp only
        cases hres : (h st m).2 with
        | raised => simp
        | reply r =>
          simp only
          rw [ih _ (by omega) (h st m).1 rest rfl]
          split <;> simp_all [List.append_assoc]
        | silent =>
          simp only
          rw [ih _ (by omega) (h st m).1 rest rfl]
          split <;> simp_all [List.append_assoc]
      | eos => simp
      | pending => simp
      | bad => simp

/-- the state of the connection after the loop has run to `t` -/
def Srv.after (s : Srv σ) (t : σ × Bytes × SrvEnd × Bytes) : Srv σ :=
  { st := t.1, buf := t.2.2.2, out := s.out ++ t.2.1, fin := t.2.2.1 }

theorem srvLoop_waiting_left (h : σ → Bytes → σ × HRes) (st : σ) (buf : Bytes)
    (hw : (srvLoop h st buf false).2.2.1 = .waiting) : NL ∉ (srvLoop h st buf false).2.2.2 := by
  generalize hn : buf.length = n
  induction n using Nat.strongRecOn generalizing buf st with
  | _ n ih =>
    cases hc : cutLine buf with
    | none =>
      rw [srvLoop_none h st false hc]
      simpa using cutLine_none_iff.mp hc
    | some p =>
      obtain ⟨l, rest⟩ := p
      have hlt := cutLine_lt hc
      rw [srvLoop_some h st false hc] at hw ⊢
      cases hd : decodeLine l with
      | msg m =>
        rw [hd] at hw
        simp only at hw ⊢
        cases hres : (h st m).2 with
        | raised => rw [hres] at hw; simp at hw
        | reply r =>
          rw [hres] at hw; simp only at hw ⊢
          exact ih _ (by omega) (h st m).1 rest hw rfl
        | silent =>
          rw [hres] at hw; simp only at hw ⊢
          exact ih _ (by omega) (h st m).1 rest hw rfl
      | eos => rw [hd] at hw; simp at hw
      | pending => rw [hd] at hw; simp at hw
      | bad => rw [hd] at hw; simp at hw

theorem srvFeed_dead (h : σ → Bytes → σ × HRes) (s : Srv σ) (hs : s.fin ≠ .waiting) (chunks : List Bytes) :
    chunks.foldl (srvFeed h) s = { s with buf := s.buf ++ chunks.flatten } := by
  induction chunks generalizing s with
  | nil => simp
  | cons x xs ih =>
    have e : srvFeed h s x = { s with buf := s.buf ++ x } := by
      unfold srvFeed; split
      · rename_i hw; exact absurd hw hs
      · rfl
    rw [List.foldl_cons, e, ih _ (by simpa using hs)]
    simp [List.append_assoc]

theorem srvFeed_chunks (h : σ → Bytes → σ × HRes) (s : Srv σ) (hs : s.fin = .waiting) (hb : NL ∉ s.buf)
    (chunks : List Bytes) :
    chunks.foldl (srvFeed h) s = s.after (srvLoop h s.st (s.buf ++ chunks.flatten) false) := by
  induction chunks generalizing s with
  | nil =>
    obtain ⟨st, buf, out, fin⟩ := s
    simp only at hs hb; subst hs
    simp [Srv.after, srvLoop_none h st false (cutLine_none_iff.mpr hb)]
  | cons x xs ih =>
    have e : srvFeed h s x = s.after (srvLoop h s.st (s.buf ++ x) false) := by
      unfold srvFeed; rw [hs]; rfl
    rw [List.foldl_cons, e, List.flatten_cons, ← List.append_assoc, srvLoop_append h s.st (s.buf ++ x) xs.flatten false]
    by_cases hw : (srvLoop h s.st (s.buf ++ x) false).2.2.1 = .waiting
    · rw [ih _ hw (srvLoop_waiting_left h _ _ hw)]; simp [Srv.after, hw, List.append_assoc]
    · rw [srvFeed_dead h _ hw]; simp [Srv.after, hw]

end Gallia.Lines
