import Gallia.Proofs.Lemmas.Lines
import Gallia.Model.LinesExec
/-
  Helper lemmas for the whole-execution theorems of C19 (client machine, server loop, exchange).
-/
set_option linter.unusedSimpArgs false
namespace Gallia.Lines
open Gallia Gallia.Framing

/-! ### specification vocabulary -/

/-- lines with their terminators, concatenated -/
def joinLines (ls : List Bytes) : Bytes := (ls.map (· ++ [NL])).flatten

/-- the complete lines of a byte stream, in order -/
def linesOf (s : Bytes) : List Bytes := (parseAll lineCutter s).1

/-- the bytes delivered to the reader by an operation sequence (`ended`: end-of-stream already seen) -/
def fedBytes (ended : Bool) : List Op → Bytes
  | [] => []
  | .feed ch :: ops => if ended then fedBytes ended ops else ch ++ fedBytes ended ops
  | .eof :: ops => fedBytes true ops
  | _ :: ops => fedBytes ended ops

/-- whether the stream has ended after an operation sequence -/
def eofSeen (ended : Bool) : List Op → Bool
  | [] => ended
  | .eof :: _ => true
  | _ :: ops => eofSeen ended ops

/-- the read results that handed out a line (a message or an undecodable line) -/
def lineOf : Obs → Option ReadRes
  | .res (.msg m) => some (.msg m)
  | .res .bad => some .bad
  | _ => none

def lineResults (obs : List Obs) : List ReadRes := obs.filterMap lineOf

/-- what a read must return when the stream delivered so far is `S`, `k` lines have been handed out and
    `ended` tells whether the peer closed -/
def specRead (S : Bytes) (k : Nat) (ended : Bool) : ReadRes :=
  match (linesOf S)[k]? with
  | some l => decodeLine l
  | none => if ended then .eos else .pending

/-! ### cutting lines -/

theorem cutLine_some_eq {buf l rest} (h : cutLine buf = some (l, rest)) : buf = l ++ NL :: rest ∧ NL ∉ l := by
  induction buf generalizing l rest with
  | nil => simp [cutLine] at h
  | cons b t ih =>
    simp only [cutLine] at h
    split at h
    · rename_i hb; injection h with h; injection h with h1 h2; subst h1 h2; simp [hb]
    · rename_i hb
      split at h
      · contradiction
      · rename_i l' r' hc
        injection h with h; injection h with h1 h2; subst h1 h2
        obtain ⟨e, hn⟩ := ih hc
        refine ⟨by rw [e]; simp, ?_⟩
        intro hm
        rcases List.mem_cons.mp hm with h | h
        · exact hb h.symm
        · exact hn h

theorem linesOf_nil_of_not_mem {s : Bytes} (h : NL ∉ s) : parseAll lineCutter s = ([], s) :=
  parseAll_none lineCutter (by simpa [lineCutter] using cutLine_none_iff.mpr h)

theorem parseAll_joinLines (done : List Bytes) (rest : Bytes) (hd : ∀ l ∈ done, NL ∉ l) :
    parseAll lineCutter (joinLines done ++ rest) =
      (done ++ (parseAll lineCutter rest).1, (parseAll lineCutter rest).2) := by
  induction done with
  | nil => simp [joinLines]
  | cons l ls ih =>
    have h1 : lineCutter.cut (l ++ NL :: (joinLines ls ++ rest)) = some (l, joinLines ls ++ rest) := by
      simpa [lineCutter] using cutLine_line l _ (hd l (by simp))
    have e : joinLines (l :: ls) ++ rest = l ++ NL :: (joinLines ls ++ rest) := by
      simp [joinLines, List.append_assoc]
    rw [e, parseAll_some lineCutter h1, ih (fun x hx => hd x (by simp [hx]))]
    simp

theorem joinLines_append (a b : List Bytes) : joinLines (a ++ b) = joinLines a ++ joinLines b := by
  simp [joinLines]

theorem joinLines_map_hexB (ms : List Bytes) : joinLines (ms.map hexB) = (ms.map enc).flatten := by
  simp only [joinLines, List.map_map, Function.comp_def]; rfl

/-! ### runs -/

theorem crun_append (c : Client) (a b : List Op) :
    crun c (a ++ b) = ((crun (crun c a).1 b).1, (crun c a).2 ++ (crun (crun c a).1 b).2) := by
  induction a generalizing c with
  | nil => simp [crun]
  | cons op ops ih => simp [crun, ih]

theorem crun_length (c : Client) (ops : List Op) : (crun c ops).2.length = ops.length := by
  induction ops generalizing c with
  | nil => simp [crun]
  | cons op ops ih => simp [crun, ih]

theorem fedBytes_cons (e : Bool) (op : Op) (ops : List Op) (c : Client) (hc : c.eof = e) :
    fedBytes e (op :: ops) = fedBytes e [op] ++ fedBytes (cstep c op).1.eof ops := by
  subst hc
  cases op <;> simp [fedBytes, cstep]
  · split <;> simp_all
  · split <;> simp

theorem eofSeen_true (ops : List Op) : eofSeen true ops = true := by
  induction ops with
  | nil => rfl
  | cons op ops ih => cases op <;> simp [eofSeen, ih]

theorem eofSeen_cons (op : Op) (ops : List Op) (c : Client) :
    eofSeen c.eof (op :: ops) = eofSeen (cstep c op).1.eof ops := by
  cases op <;> simp [eofSeen, cstep, eofSeen_true]
  · split <;> simp
  · split <;> simp

/-! ### the refinement relation between the client's buffer and the delivered stream -/

/-- `S` (everything delivered so far) = the lines already handed out ++ the reader buffer ++ an unterminated tail
    that was dropped at end-of-stream -/
structure Rel (c : Client) (S : Bytes) (done : List Bytes) : Prop where
  clean : ∀ l ∈ done, NL ∉ l
  split : ∃ tail, S = joinLines done ++ (c.buf ++ tail) ∧ NL ∉ tail ∧ (tail = [] ∨ (c.eof = true ∧ c.buf = []))

theorem rel_init : Rel {} [] [] := ⟨by simp, [], by simp [joinLines], by simp, Or.inl rfl⟩

theorem linesOf_nil : linesOf [] = [] := by
  simp [linesOf, parseAll_none lineCutter (buf := []) (by simp [lineCutter, cutLine])]

theorem rel_lines {c S done} (h : Rel c S done) : linesOf S = done ++ linesOf c.buf := by
  obtain ⟨tail, hS, ht, hcase⟩ := h.split
  rw [linesOf, hS, parseAll_joinLines _ _ h.clean]
  rcases hcase with rfl | ⟨_, hb⟩
  · simp [linesOf]
  · simp [hb, linesOf_nil, linesOf_nil_of_not_mem ht]

theorem lineOf_decodeLine (l : Bytes) : lineOf (.res (decodeLine l)) = some (decodeLine l) := by
  unfold decodeLine; split <;> rfl

theorem rel_read {c : Client} {S done} (hR : Rel c S done) :
    (readLine c.buf c.eof).1 = specRead S done.length c.eof ∧
    ∃ extra, Rel { c with buf := (readLine c.buf c.eof).2 } S (done ++ extra) ∧
      (lineOf (.res (readLine c.buf c.eof).1)).toList = extra.map decodeLine := by
  have hl := rel_lines hR
  obtain ⟨tail, hS, ht, hcase⟩ := hR.split
  cases hc : cutLine c.buf with
  | some p =>
    obtain ⟨l, rest⟩ := p
    obtain ⟨hb, hnl⟩ := cutLine_some_eq hc
    have hlb : linesOf c.buf = l :: linesOf rest := by
      simp [linesOf, parseAll_some lineCutter (buf := c.buf) (f := l) (rest := rest) (by simpa [lineCutter] using hc)]
    have htail : tail = [] := by
      rcases hcase with h | ⟨_, h⟩
      · exact h
      · rw [h] at hc; simp [cutLine] at hc
    subst htail
    refine ⟨?_, [l], ⟨?_, [], ?_, by simp, Or.inl rfl⟩, ?_⟩
    · simp [readLine, hc, specRead, hl, hlb]
    · intro x hx
      rcases List.mem_append.mp hx with h | h
      · exact hR.clean x h
      · simp at h; subst h; exact hnl
    · simp only [readLine, hc]
      rw [hS, hb, joinLines_append]
      simp [joinLines, List.append_assoc]
    · simp [readLine, hc, lineOf_decodeLine]
  | none =>
    have hnb : NL ∉ c.buf := cutLine_none_iff.mp hc
    have hlb : linesOf c.buf = [] := by simp [linesOf, linesOf_nil_of_not_mem hnb]
    cases he : c.eof with
    | false =>
      refine ⟨?_, [], ?_, ?_⟩
      · simp [readLine, hc, specRead, hl, hlb, he]
      · simp only [readLine, hc, he, List.append_nil]
        exact ⟨hR.clean, tail, hS, ht, by simpa [he] using hcase⟩
      · simp [readLine, hc, he, lineOf]
    | true =>
      refine ⟨?_, [], ?_, ?_⟩
      · simp [readLine, hc, specRead, hl, hlb, he]
      · simp only [readLine, hc, he, List.append_nil]
        refine ⟨hR.clean, c.buf ++ tail, by simpa using hS, ?_, Or.inr ⟨by simp [he], rfl⟩⟩
        intro hm; rcases List.mem_append.mp hm with h | h
        · exact hnb h
        · exact ht h
      · simp [readLine, hc, he, lineOf]

theorem rel_step {c : Client} {S done} (op : Op) (hR : Rel c S done) :
    ∃ extra, Rel (cstep c op).1 (S ++ fedBytes c.eof [op]) (done ++ extra) ∧
      (lineOf (cstep c op).2).toList = extra.map decodeLine := by
  obtain ⟨tail, hS, ht, hcase⟩ := hR.split
  cases op with
  | feed ch =>
    cases he : c.eof with
    | true => exact ⟨[], by simpa [cstep, he, fedBytes] using hR, by simp [cstep, lineOf]⟩
    | false =>
      have htail : tail = [] := by
        rcases hcase with h | ⟨h, _⟩
        · exact h
        · rw [he] at h; cases h
      subst htail
      refine ⟨[], ?_, by simp [cstep, lineOf]⟩
      simp only [cstep, he, fedBytes, List.append_nil]
      exact ⟨hR.clean, [], by simp [hS, List.append_assoc], by simp, Or.inl rfl⟩
  | eof =>
    refine ⟨[], ?_, by simp [cstep, lineOf]⟩
    simp only [cstep, fedBytes, List.append_nil]
    refine ⟨hR.clean, tail, hS, ht, ?_⟩
    rcases hcase with h | ⟨_, h⟩
    · exact Or.inl h
    · exact Or.inr ⟨rfl, h⟩
  | read =>
    obtain ⟨_, extra, h1, h2⟩ := rel_read hR
    exact ⟨extra, by simpa [cstep, fedBytes] using h1, by simpa [cstep] using h2⟩
  | write m =>
    refine ⟨[], ?_, by simp [cstep, lineOf]⟩
    simp only [cstep, fedBytes, List.append_nil]
    exact ⟨hR.clean, tail, hS, ht, hcase⟩
  | request m =>
    obtain ⟨_, extra, h1, h2⟩ := rel_read hR
    refine ⟨extra, ?_, by simpa [cstep] using h2⟩
    simp only [cstep, fedBytes, List.append_nil]
    exact ⟨h1.clean, h1.split⟩
  | close =>
    refine ⟨[], ?_, by simp only [cstep]; split <;> simp [lineOf]⟩
    simp only [cstep, fedBytes, List.append_nil]
    split
    · exact hR
    · exact ⟨hR.clean, tail, hS, ht, hcase⟩

theorem lineResults_cons (o : Obs) (os : List Obs) : lineResults (o :: os) = (lineOf o).toList ++ lineResults os := by
  unfold lineResults
  cases h : lineOf o <;> simp [List.filterMap_cons, h]

theorem rel_run {c : Client} {S done} (ops : List Op) (hR : Rel c S done) :
    ∃ extra, Rel (crun c ops).1 (S ++ fedBytes c.eof ops) (done ++ extra) ∧
      lineResults (crun c ops).2 = extra.map decodeLine ∧ (crun c ops).1.eof = eofSeen c.eof ops := by
  induction ops generalizing c S done with
  | nil => exact ⟨[], by simpa [crun, fedBytes] using hR, by simp [crun, lineResults], by simp [crun, eofSeen]⟩
  | cons op ops ih =>
    obtain ⟨e1, h1, h2⟩ := rel_step op hR
    obtain ⟨e2, h3, h4, h5⟩ := ih h1
    refine ⟨e1 ++ e2, ?_, ?_, ?_⟩
    · rw [fedBytes_cons c.eof op ops c rfl]
      simpa [crun, List.append_assoc] using h3
    · simp [crun, lineResults_cons, h2, h4]
    · simp only [crun]; rw [h5, eofSeen_cons]

theorem decodeLine_ne_pending (l : Bytes) : decodeLine l ≠ .pending ∧ decodeLine l ≠ .eos := by
  unfold decodeLine; split <;> simp

theorem cstep_read_pending {c : Client} (h : (cstep c .read).2 = .res .pending) : (cstep c .read).1 = c := by
  simp only [cstep, readLine] at h ⊢
  cases hc : cutLine c.buf with
  | some p => rw [hc] at h; simp at h; exact absurd h (decodeLine_ne_pending _).1
  | none =>
    rw [hc] at h
    obtain ⟨buf, eof, out, closed, closes⟩ := c
    cases eof <;> simp at h ⊢

theorem crun_feeds (c : Client) (he : c.eof = false) (chunks : List Bytes) :
    crun c (chunks.map .feed) = ({ c with buf := c.buf ++ chunks.flatten }, List.replicate chunks.length .ok) := by
  induction chunks generalizing c with
  | nil => simp [crun]
  | cons x xs ih =>
    obtain ⟨buf, eof, out, closed, closes⟩ := c
    simp only at he; subst he
    simp only [List.map_cons, crun, cstep]
    rw [ih _ rfl]
    simp [List.replicate_succ, List.append_assoc]

theorem crun_writes (c : Client) (ms : List Bytes) :
    crun c (ms.map .write) = ({ c with out := c.out ++ (ms.map enc).flatten }, ms.map (fun m => .wrote m.length)) := by
  induction ms generalizing c with
  | nil => simp [crun]
  | cons x xs ih =>
    simp only [List.map_cons, crun, cstep]
    rw [ih]
    simp [List.append_assoc]

end Gallia.Lines
