import Gallia.Proofs.Lemmas.Scans
/-
  What `perform_scan` / the session loop of the service scan report on a session-determined ECU, for every
  configuration: `--check-session` on or off, `--reset`, inert session hooks.
-/
namespace Gallia.Scans
open Gallia

variable {σ : Type}

/-- every request of the scan of one session leaves a session-determined ECU in the session it is in,
    provided that with `--check-session` this is the session being scanned -/
theorem svcReq_keeps {e : Ecu σ} (E : SessEcu e) (cfg : SvcCfg) (hin : HooksInert cfg.hooks) (session : Option Nat)
    (ss : Nat) (hk : ∀ k, session = some k → cfg.checkSession = true → ss = k ∧ k < 0x80)
    (s : σ) (p : Bytes) (hp : SvcReq cfg session p) (hs : E.sess s = ss) : E.sess (e.step s p).1 = ss := by
  rcases hp with ⟨sid, hsid, _, l, _, rfl⟩ | ⟨hc, k, hsess, hp⟩
  · rw [probe_keeps_session E s sid l hsid]; exact hs
  · obtain ⟨rfl, hk'⟩ := hk k hsess hc
    exact maint_keeps E cfg.hooks hin ss hk' s p hp hs

theorem sessionCheck_session {e : Ecu σ} (E : SessEcu e) (cfg : SvcCfg) (hin : HooksInert cfg.hooks)
    (session : Option Nat) (ss : Nat) (hk : ∀ k, session = some k → cfg.checkSession = true → ss = k ∧ k < 0x80)
    (s : σ) (hs : E.sess s = ss) : E.sess (sessionCheck e cfg session s).1 = ss :=
  sessionCheck_inv e (fun s' => E.sess s' = ss) cfg session (svcReq_keeps E cfg hin session ss hk) s hs

theorem performScanFrom_session {e : Ecu σ} (E : SessEcu e) (cfg : SvcCfg) (hin : HooksInert cfg.hooks)
    (session : Option Nat) (ss : Nat) (hk : ∀ k, session = some k → cfg.checkSession = true → ss = k ∧ k < 0x80)
    (sids : List Nat) (hsids : ∀ sid ∈ sids, sid < 256) (s : σ) (hs : E.sess s = ss) :
    E.sess (performScanFrom e cfg session sids s).1 = ss :=
  performScanFrom_inv e (fun s' => E.sess s' = ss) cfg session sids hsids (svcReq_keeps E cfg hin session ss hk) s hs

/-- soundness and completeness of `perform_scan` on a session-determined ECU obeying the ISO default rule, for
    every configuration.  `ss` is the session the ECU is in; with `--check-session` it has to be the session being
    scanned (the session loop guarantees that).  A scan that was given up (`abortedAt`) is sound but need not be
    complete. -/
theorem performScanFrom_spec {e : Ecu σ} (E : SessEcu e) (supp : Nat → Nat → Bool) (iso : IsoServiceRule E.ans supp)
    (cfg : SvcCfg) (hin : HooksInert cfg.hooks) (session : Option Nat) (ss : Nat)
    (hk : ∀ k, session = some k → cfg.checkSession = true → ss = k ∧ k < 0x80)
    (sids : List Nat) (hs : ∀ sid ∈ sids, sid < 256) (s : σ) (hss : E.sess s = ss)
    (out : ScanOut) (hout : (performScanFrom e cfg session sids s).2 = .ok out) :
    (∀ p ∈ out.found, p.1 ∈ sids ∧ sidSelected cfg session p.1 = true ∧ supp ss p.1 = true ∧
        p.2.meaningful = true ∧ ∃ l ∈ probeLengths, p.2 = E.ans ss (probePdu p.1 l)) ∧
    (out.abortedAt = none → ∀ sid ∈ sids, sidSelected cfg session sid = true → supp ss sid = true →
        (∃ l ∈ probeLengths, (E.ans ss (probePdu sid l)).meaningful = true) →
        sid ∈ out.found.map (·.1)) := by
  induction sids generalizing s out with
  | nil =>
    simp only [performScanFrom, R.ok.injEq] at hout
    subst hout
    exact ⟨by simp, by simp⟩
  | cons sid rest ih =>
    have hsid : sid < 256 := hs sid (by simp)
    have hrest : ∀ x ∈ rest, x < 256 := fun x hx => hs x (by simp [hx])
    simp only [performScanFrom] at hout
    by_cases hsel : sidSelected cfg session sid = true
    · simp only [hsel, Bool.not_true, Bool.false_eq_true, ite_false] at hout
      have h0 := sessionCheck_session E cfg hin session ss hk s hss
      cases hc : sessionCheck e cfg session s with
      | mk s0 r0 =>
        rw [hc] at hout h0
        simp only [] at h0
        cases r0 with
        | raised w => simp at hout
        | ok okv =>
          cases okv with
          | false =>
            simp only [R.ok.injEq] at hout
            subst hout
            exact ⟨by simp, by simp⟩
          | true =>
            simp only [] at hout
            have h1 : E.sess (probeLens e sid probeLengths s0).1 = ss := by
              rw [probeLens_session E sid hsid]; exact h0
            cases hp : probeLens e sid probeLengths s0 with
            | mk s1 r1 =>
              rw [hp] at hout h1
              simp only [] at h1
              cases r1 with
              | raised w => simp at hout
              | ok v =>
                obtain ⟨r, c⟩ := v
                simp only [] at hout
                have hp2 : (probeLens e sid probeLengths s0).2 = .ok (r, c) := by rw [hp]
                cases hq : performScanFrom e cfg session rest s1 with
                | mk s2 r2 =>
                  rw [hq] at hout
                  cases r2 with
                  | raised w => simp at hout
                  | ok out' =>
                    simp only [R.ok.injEq] at hout
                    have hq2 : (performScanFrom e cfg session rest s1).2 = .ok out' := by rw [hq]
                    obtain ⟨hsound, hcompl⟩ := ih hrest s1 h1 out' hq2
                    subst hout
                    refine ⟨?_, ?_⟩
                    · intro p hpm
                      simp only [List.mem_append] at hpm
                      rcases hpm with hpm | hpm
                      · cases r with
                        | none => simp at hpm
                        | some a =>
                          simp at hpm; subst hpm
                          obtain ⟨l, hl, ha, hm⟩ := probeLens_some E sid hsid probeLengths s0 a c hp2
                          rw [h0] at ha
                          refine ⟨by simp, hsel, ?_, hm, l, hl, ha⟩
                          -- a meaningful answer is not a "not supported" answer, so the service is in the table
                          cases hsup : supp ss sid with
                          | true => rfl
                          | false =>
                            have := iso.unsupported _ sid (probePdu sid l) hsid hsup (probePdu_head sid l)
                            rw [← ha] at this
                            cases a with
                            | pos _ => simp [Ans.notSupported] at this
                            | neg c =>
                              simp only [Ans.notSupported] at this
                              simp only [Ans.meaningful, this] at hm
                              simp at hm
                            | timeout => simp [Ans.notSupported] at this
                            | illegal => simp [Ans.notSupported] at this
                            | stuck => simp [Ans.notSupported] at this
                      · obtain ⟨a1, a2⟩ := hsound p hpm
                        exact ⟨by simp [a1], a2⟩
                    · intro hab sid' hmem hsel' hsup' hm'
                      simp only [List.mem_cons] at hmem
                      simp only [List.map_append, List.mem_append]
                      rcases hmem with rfl | hmem
                      · left
                        have := probeLens_complete E sid' hsid probeLengths s0
                          (fun l _ => by rw [h0]; exact iso.supported _ sid' _ hsid hsup' (probePdu_head sid' l))
                          (by rw [h0]; exact hm') r c hp2
                        cases r with
                        | none => cases this
                        | some a => simp
                      · right
                        exact hcompl hab sid' hmem hsel' hsup' hm'
    · have hsel' : sidSelected cfg session sid = false := by simpa using hsel
      simp only [hsel', Bool.not_false, ite_true] at hout
      obtain ⟨hsound, hcompl⟩ := ih hrest s hss out hout
      refine ⟨?_, ?_⟩
      · intro p hp
        obtain ⟨h1, h2⟩ := hsound p hp
        exact ⟨by simp [h1], h2⟩
      · intro hab sid' hmem hs1 hs2 hs3
        simp only [List.mem_cons] at hmem
        rcases hmem with rfl | hmem
        · rw [hsel'] at hs1; cases hs1
        · exact hcompl hab sid' hmem hs1 hs2 hs3

/-! ### when the scan of a session runs to its end -/

/-- the session read-back of session `k` is honest (or unsupported / unanswered, which skips the check) -/
def ReadBackOk (ans : Nat → Bytes → Ans) (k : Nat) : Prop :=
  match ans k readSessionPdu with
  | .pos pdu => fromBE (pdu.drop 3) = k
  | .neg c => identifierNotSupportedCodes.contains c = true
  | .timeout => True
  | _ => False

/-- on a session-determined ECU that is in session `k` and reads it back honestly the session check passes
    without a single session change -/
theorem checkAndSetSession_ok {e : Ecu σ} (E : SessEcu e) (h : Hooks) (k retries : Nat) (s : σ)
    (hs : E.sess s = k) (hrb : ReadBackOk E.ans k) :
    (checkAndSetSession e h k retries s).2 = .ok true ∧
    (checkAndSetSession e h k retries s).1 = (e.step s readSessionPdu).1 := by
  have hans := E.step_ans s readSessionPdu
  rw [hs] at hans
  unfold ReadBackOk at hrb
  simp only [checkAndSetSession, readSession]
  cases hd : e.step s readSessionPdu with
  | mk s1 a =>
    rw [hd] at hans
    simp only [] at hans
    rw [← hans] at hrb
    cases a with
    | pos pdu => simp only [] at hrb; simp [hrb]
    | neg c =>
      simp only [] at hrb
      have hrb' : c ∈ identifierNotSupportedCodes := by simpa using hrb
      simp [hrb']
    | timeout => simp
    | illegal => cases hrb
    | stuck => cases hrb

theorem sessionCheck_ok {e : Ecu σ} (E : SessEcu e) (cfg : SvcCfg) (session : Option Nat) (s : σ)
    (hk : ∀ k, session = some k → cfg.checkSession = true → E.sess s = k ∧ ReadBackOk E.ans k) :
    (sessionCheck e cfg session s).2 = .ok true := by
  unfold sessionCheck
  cases session with
  | none => rfl
  | some k =>
    simp only []
    by_cases hc : cfg.checkSession = true
    · simp only [hc, if_true]
      obtain ⟨a, c⟩ := hk k rfl hc
      exact (checkAndSetSession_ok E _ k checkRetries s a c).1
    · simp [hc]

/-- the scan of a session on a session-determined ECU with an honest read-back whose probes are never answered by an
    endless ResponsePending sequence runs to its end: no exception, not given up -/
theorem performScanFrom_ok {e : Ecu σ} (E : SessEcu e) (cfg : SvcCfg) (hin : HooksInert cfg.hooks)
    (session : Option Nat) (ss : Nat)
    (hk : ∀ k, session = some k → cfg.checkSession = true → ss = k ∧ k < 0x80 ∧ ReadBackOk E.ans k)
    (hn : ∀ sid l, E.ans ss (probePdu sid l) ≠ .stuck)
    (sids : List Nat) (hs : ∀ sid ∈ sids, sid < 256) (s : σ) (hss : E.sess s = ss) :
    ∃ out, (performScanFrom e cfg session sids s).2 = .ok out ∧ out.abortedAt = none := by
  have hk' : ∀ k, session = some k → cfg.checkSession = true → ss = k ∧ k < 0x80 :=
    fun k a c => ⟨(hk k a c).1, (hk k a c).2.1⟩
  induction sids generalizing s with
  | nil => exact ⟨_, rfl, rfl⟩
  | cons sid rest ih =>
    have hsid : sid < 256 := hs sid (by simp)
    have hrest : ∀ x ∈ rest, x < 256 := fun x hx => hs x (by simp [hx])
    simp only [performScanFrom]
    split
    · exact ih hrest s hss
    · have h0 := sessionCheck_session E cfg hin session ss hk' s hss
      have hok := sessionCheck_ok E cfg session s
        (fun k a c => ⟨by rw [hss]; exact (hk k a c).1, (hk k a c).2.2⟩)
      cases hc : sessionCheck e cfg session s with
      | mk s0 r0 =>
        rw [hc] at h0 hok
        simp only [] at h0 hok
        subst hok
        simp only []
        -- the probes of this service id are answered in session `ss` throughout
        have hstuck : ∀ s' l, E.sess s' = ss → (e.step s' (probePdu sid l)).2 ≠ .stuck := by
          intro s' l hs'
          rw [E.step_ans, hs']; exact hn sid l
        have h1 : E.sess (probeLens e sid probeLengths s0).1 = ss := by
          rw [probeLens_session E sid hsid]; exact h0
        have hpo : ∃ v, (probeLens e sid probeLengths s0).2 = .ok v := by
          -- generalise over the probe list, keeping the session
          have : ∀ (ls : List Nat) (s' : σ), E.sess s' = ss → ∃ v, (probeLens e sid ls s').2 = .ok v := by
            intro ls
            induction ls with
            | nil => intro s' _; exact ⟨_, rfl⟩
            | cons l ls ihl =>
              intro s' hs'
              have hns := hstuck s' l hs'
              have hk1 : E.sess (e.step s' (probePdu sid l)).1 = ss := by
                rw [probe_keeps_session E s' sid l hsid]; exact hs'
              simp only [probeLens]
              cases hd : e.step s' (probePdu sid l) with
              | mk s1 a1 =>
                rw [hd] at hns hk1
                simp only [] at hk1
                cases a1 with
                | timeout => exact ihl s1 hk1
                | stuck => exact absurd rfl hns
                | illegal =>
                  simp only []
                  obtain ⟨v, hv⟩ := ihl s1 hk1
                  cases hp : probeLens e sid ls s1 with
                  | mk s2 r2 =>
                    rw [hp] at hv
                    simp only [] at hv
                    subst hv
                    exact ⟨_, rfl⟩
                | pos p => exact ⟨_, rfl⟩
                | neg code =>
                  simp only []
                  split
                  · exact ⟨_, rfl⟩
                  · split
                    · exact ihl s1 hk1
                    · exact ⟨_, rfl⟩
          exact this probeLengths s0 h0
        obtain ⟨v, hv⟩ := hpo
        cases hp : probeLens e sid probeLengths s0 with
        | mk s1 r1 =>
          rw [hp] at hv h1
          simp only [] at hv h1
          subst hv
          obtain ⟨r, c⟩ := v
          simp only []
          obtain ⟨out', ho, hab⟩ := ih hrest s1 h1
          cases hq : performScanFrom e cfg session rest s1 with
          | mk s2 r2 =>
            rw [hq] at ho
            simp only [] at ho
            subst ho
            exact ⟨_, rfl, hab⟩

end Gallia.Scans

namespace Gallia.Scans
open Gallia
variable {σ : Type}

theorem allSids_lt : ∀ sid ∈ allSids, sid < 256 := by
  intro sid h; simpa [allSids] using h

/-- hook requests are answered (positively or negatively) in every session -/
def HooksAnswered (ans : Nat → Bytes → Ans) (h : Hooks) : Prop :=
  ∀ ss k p, (p ∈ h.pre k ∨ p ∈ h.post k) → (ans ss p).exn = none

theorem runHook_ok {e : Ecu σ} (E : SessEcu e) (ps : List Bytes) (hq : ∀ ss p, p ∈ ps → (E.ans ss p).exn = none)
    (s : σ) : (runHook e ps s).2 = .ok () := by
  induction ps generalizing s with
  | nil => rfl
  | cons p ps ih =>
    simp only [runHook]
    rw [E.step_ans, hq _ p (by simp)]
    exact ih (fun ss q hq' => hq ss q (by simp [hq'])) _

theorem runHook_session {e : Ecu σ} (E : SessEcu e) (ps : List Bytes)
    (hin : ∀ p ∈ ps, p.head? ≠ some 0x10 ∧ p.head? ≠ some 0x11) (s : σ) :
    E.sess (runHook e ps s).1 = E.sess s :=
  runHook_inv e (fun s' => E.sess s' = E.sess s) ps
    (fun s' p hp h => by rw [E.sess_keep s' p (hin p hp).1 (hin p hp).2]; exact h) s rfl

/-- a positive result of `set_session(k)` on a session-determined ECU with inert hooks: the ECU is in session `k`,
    and it answered `10 k` positively in the session it was in -/
theorem setSession_pos_session {e : Ecu σ} (E : SessEcu e) (h : Hooks) (hin : HooksInert h) (k : Nat) (hk : k < 0x80)
    (s : σ) (p : Bytes) (hr : (setSession e h k s).2 = .ok (.pos p)) :
    E.sess (setSession e h k s).1 = k ∧ (E.ans (E.sess s) (dscPdu k)).isPos = true := by
  have hpre := runHook_session E (h.pre k) (fun p hp => hin k p (Or.inl hp)) s
  simp only [setSession] at hr ⊢
  cases h0 : runHook e (h.pre k) s with
  | mk s0 r0 =>
    rw [h0] at hr hpre
    simp only [] at hpre
    cases r0 with
    | raised w => simp at hr
    | ok u =>
      simp only [] at hr ⊢
      have hans := E.step_ans s0 (dscPdu k)
      cases hd : e.step s0 (dscPdu k) with
      | mk s1 a =>
        rw [hd] at hr hans
        simp only [] at hans
        cases a with
        | neg c => simp at hr
        | timeout => simp at hr
        | illegal => simp at hr
        | stuck => simp at hr
        | pos p' =>
          simp only [] at hr ⊢
          have hpos : (E.ans (E.sess s0) (dscPdu k)).isPos = true := by rw [← hans]; rfl
          have hs1 : E.sess s1 = k := by
            have := E.dsc_pos s0 k hk hpos
            rw [hd] at this; exact this
          have hpost := runHook_session E (h.post k) (fun p hp => hin k p (Or.inr hp)) s1
          cases h2 : runHook e (h.post k) s1 with
          | mk s2 r2 =>
            rw [h2] at hr hpost
            simp only [] at hpost
            cases r2 with
            | raised w => simp at hr
            | ok u => exact ⟨by simp only []; rw [hpost, hs1], by rw [← hpre]; exact hpos⟩

/-- `set_session(k)` succeeds when the ECU answers `10 k` positively and the hook requests are answered -/
theorem setSession_pos {e : Ecu σ} (E : SessEcu e) (h : Hooks) (hin : HooksInert h) (hq : HooksAnswered E.ans h)
    (k : Nat) (s : σ) (hpos : (E.ans (E.sess s) (dscPdu k)).isPos = true) :
    ∃ p, (setSession e h k s).2 = .ok (.pos p) := by
  have hpre := runHook_session E (h.pre k) (fun p hp => hin k p (Or.inl hp)) s
  have hpre_ok := runHook_ok E (h.pre k) (fun ss p hp => hq ss k p (Or.inl hp)) s
  simp only [setSession]
  cases h0 : runHook e (h.pre k) s with
  | mk s0 r0 =>
    rw [h0] at hpre hpre_ok
    simp only [] at hpre hpre_ok
    subst hpre_ok
    simp only []
    have hans := E.step_ans s0 (dscPdu k)
    rw [hpre] at hans
    cases hd : e.step s0 (dscPdu k) with
    | mk s1 a =>
      rw [hd] at hans
      simp only [] at hans
      rw [← hans] at hpos
      cases a with
      | neg c => cases hpos
      | timeout => cases hpos
      | illegal => cases hpos
      | stuck => cases hpos
      | pos p' =>
        simp only []
        have hpost_ok := runHook_ok E (h.post k) (fun ss p hp => hq ss k p (Or.inr hp)) s1
        cases h2 : runHook e (h.post k) s1 with
        | mk s2 r2 =>
          rw [h2] at hpost_ok
          simp only [] at hpost_ok
          subst hpost_ok
          exact ⟨p', rfl⟩

theorem waitForEcu_ok {e : Ecu σ} (E : SessEcu e) (hp : ∀ ss, E.ans ss pingPdu ≠ .stuck) (n : Nat) (s : σ) :
    ∃ v, (waitForEcu e n s).2 = .ok v := by
  induction n using Nat.strongRecOn generalizing s with
  | _ n ih =>
    match n with
    | 0 => exact ⟨_, rfl⟩
    | 1 => exact ⟨_, rfl⟩
    | n+2 =>
      have hans := E.step_ans s pingPdu
      simp only [waitForEcu]
      cases hd : e.step s pingPdu with
      | mk s1 a =>
        rw [hd] at hans
        simp only [] at hans
        cases a with
        | pos p => exact ⟨_, rfl⟩
        | neg c => exact ⟨_, rfl⟩
        | illegal => exact ih (n+1) (by omega) s1
        | timeout => exact ih n (by omega) s1
        | stuck => exact absurd hans.symm (hp _)

/-- the `--reset` block ends normally when the reset request is not answered by garbage or an endless
    ResponsePending sequence (and the pings are not answered by the latter) -/
theorem resetAfter_ok {e : Ecu σ} (E : SessEcu e) (level : Option Nat)
    (hr : ∀ ss l, level = some l → E.ans ss (resetPdu l) ≠ .illegal ∧ E.ans ss (resetPdu l) ≠ .stuck)
    (hp : ∀ ss, E.ans ss pingPdu ≠ .stuck) (s : σ) : (resetAfter e level s).2 = .ok () := by
  cases level with
  | none => rfl
  | some l =>
    have hans := E.step_ans s (resetPdu l)
    obtain ⟨h1, h2⟩ := hr (E.sess s) l rfl
    simp only [resetAfter]
    cases hd : e.step s (resetPdu l) with
    | mk s1 a =>
      rw [hd] at hans
      simp only [] at hans
      cases a with
      | neg c => rfl
      | timeout => rfl
      | illegal => exact absurd hans.symm h1
      | stuck => exact absurd hans.symm h2
      | pos p =>
        simp only []
        obtain ⟨v, hv⟩ := waitForEcu_ok E hp waitBudget s1
        cases hw : waitForEcu e waitBudget s1 with
        | mk s2 r2 =>
          rw [hw] at hv
          simp only [] at hv
          subst hv
          rfl

/-- the session loop of the service scan, every configuration: whatever is reported is a selected service the ECU
    implements in the session it is reported under, found by a probe that was answered meaningfully there, and the
    ECU let the scanner enter that session -/
theorem svcSessions_sound {e : Ecu σ} (E : SessEcu e) (supp : Nat → Nat → Bool) (iso : IsoServiceRule E.ans supp)
    (cfg : SvcCfg) (hin : HooksInert cfg.hooks) (ks : List Nat) (hlt : ∀ k ∈ ks, k < 0x80) (s : σ)
    (r : SvcResult) (hr : (svcSessions e cfg ks s).2 = .ok r) :
    ∀ p ∈ r.result, p.1 ∈ ks ∧ p.2 < 256 ∧ sidSelected cfg (some p.1) p.2 = true ∧ supp p.1 p.2 = true ∧
      (∃ l ∈ probeLengths, (E.ans p.1 (probePdu p.2 l)).meaningful = true) ∧
      (∃ ss, (E.ans ss (dscPdu p.1)).isPos = true) := by
  induction ks generalizing s r with
  | nil =>
    simp only [svcSessions, Scans.R.ok.injEq] at hr
    subst hr; simp
  | cons k rest ih =>
    have hk : k < 0x80 := hlt k (by simp)
    have hrest : ∀ x ∈ rest, x < 0x80 := fun x hx => hlt x (by simp [hx])
    have skip : ∀ s1 (r' : SvcResult),
        (match svcSessions e cfg rest s1 with
          | (s4, .raised w) => (s4, Scans.R.raised w)
          | (s4, .ok r) => (s4, Scans.R.ok (⟨r.result, false, r.aborted⟩ : SvcResult))).2 = .ok r' →
        ∀ p ∈ r'.result, p.1 ∈ k :: rest ∧ p.2 < 256 ∧ sidSelected cfg (some p.1) p.2 = true ∧ supp p.1 p.2 = true ∧
          (∃ l ∈ probeLengths, (E.ans p.1 (probePdu p.2 l)).meaningful = true) ∧
          (∃ ss, (E.ans ss (dscPdu p.1)).isPos = true) := by
      intro s1 r' h' p hp
      cases hq : svcSessions e cfg rest s1 with
      | mk s4 r4 =>
        rw [hq] at h'
        cases r4 with
        | raised w => simp at h'
        | ok r4 =>
          simp only [Scans.R.ok.injEq] at h'
          subst h'
          obtain ⟨a1, a2⟩ := ih hrest s1 r4 (by rw [hq]) p hp
          exact ⟨by simp [a1], a2⟩
    simp only [svcSessions] at hr
    cases hs : setSession e cfg.hooks k s with
    | mk s1 r1 =>
      rw [hs] at hr
      cases r1 with
      | raised w => exact skip s1 r hr
      | ok a =>
        cases a with
        | neg c => exact skip s1 r hr
        | timeout => exact skip s1 r hr
        | illegal => exact skip s1 r hr
        | stuck => exact skip s1 r hr
        | pos pp =>
          simp only [] at hr
          obtain ⟨hs1, hent⟩ := setSession_pos_session E cfg.hooks hin k hk s pp (by rw [hs])
          rw [hs] at hs1
          simp only [] at hs1
          cases hp : performScan e cfg (some k) s1 with
          | mk s2 r2 =>
            rw [hp] at hr
            cases r2 with
            | raised w => simp at hr
            | ok out =>
              simp only [] at hr
              obtain ⟨hsound, _⟩ := performScanFrom_spec E supp iso cfg hin (some k) k
                (fun k' hk' _ => by injection hk' with hk'; subst hk'; exact ⟨rfl, hk⟩)
                allSids allSids_lt s1 hs1 out (by unfold performScan at hp; rw [hp])
              cases h3 : resetAfter e cfg.reset s2 with
              | mk s3 r3 =>
                rw [h3] at hr
                cases r3 with
                | raised w => simp at hr
                | ok u =>
                  simp only [] at hr
                  cases hq : svcSessions e cfg rest s3 with
                  | mk s4 r4 =>
                    rw [hq] at hr
                    cases r4 with
                    | raised w => simp at hr
                    | ok r4 =>
                      simp only [Scans.R.ok.injEq] at hr
                      subst hr
                      intro p hpm
                      simp only [List.mem_append, List.mem_map] at hpm
                      rcases hpm with ⟨q, hq', rfl⟩ | hpm
                      · obtain ⟨h1, h2, h3', h4, l, hl, h5⟩ := hsound q hq'
                        exact ⟨by simp, allSids_lt _ h1, h2, h3', ⟨l, hl, by rw [← h5]; exact h4⟩, ⟨_, hent⟩⟩
                      · obtain ⟨a1, a2⟩ := ih hrest s3 r4 (by rw [hq]) p hpm
                        exact ⟨by simp [a1], a2⟩

/-- ... and on an ECU that answers session changes the same way from every session, reads the session back
    honestly and answers hook, reset and ping requests, the run ends normally, no session's scan is given up, and
    every selected, implemented service that answers a probe meaningfully is reported in every session the ECU
    lets the scanner enter -/
theorem svcSessions_complete {e : Ecu σ} (E : SessEcu e) (supp : Nat → Nat → Bool) (iso : IsoServiceRule E.ans supp)
    (cfg : SvcCfg) (hin : HooksInert cfg.hooks) (hq : HooksAnswered E.ans cfg.hooks)
    (ks : List Nat) (hlt : ∀ k ∈ ks, k < 0x80) (enter : Nat → Bool)
    (henter : ∀ ss k, k ∈ ks → (E.ans ss (dscPdu k)).isPos = enter k)
    (hrb : cfg.checkSession = true → ∀ k ∈ ks, ReadBackOk E.ans k)
    (hstuck : ∀ ss sid l, E.ans ss (probePdu sid l) ≠ .stuck)
    (hreset : ∀ ss l, cfg.reset = some l → E.ans ss (resetPdu l) ≠ .illegal ∧ E.ans ss (resetPdu l) ≠ .stuck)
    (hping : ∀ ss, E.ans ss pingPdu ≠ .stuck) (s : σ) :
    ∃ r, (svcSessions e cfg ks s).2 = .ok r ∧ r.aborted = [] ∧
      ∀ k ∈ ks, enter k = true → ∀ sid, sid < 256 → sidSelected cfg (some k) sid = true → supp k sid = true →
        (∃ l ∈ probeLengths, (E.ans k (probePdu sid l)).meaningful = true) → (k, sid) ∈ r.result := by
  induction ks generalizing s with
  | nil => exact ⟨_, rfl, rfl, by simp⟩
  | cons k rest ih =>
    have hk : k < 0x80 := hlt k (by simp)
    have hrest : ∀ x ∈ rest, x < 0x80 := fun x hx => hlt x (by simp [hx])
    have ih' := ih hrest (fun ss k' hk' => henter ss k' (by simp [hk']))
      (fun hc k' hk' => hrb hc k' (by simp [hk']))
    simp only [svcSessions]
    cases hent : enter k with
    | false =>
      -- the ECU refuses the session: it is skipped
      have hnp : (E.ans (E.sess (runHook e (cfg.hooks.pre k) s).1) (dscPdu k)).isPos = false := by
        rw [henter _ k (by simp)]; exact hent
      have hskip : ∃ s1 a, setSession e cfg.hooks k s = (s1, a) ∧ ∀ p, a ≠ .ok (.pos p) := by
        simp only [setSession]
        cases h0 : runHook e (cfg.hooks.pre k) s with
        | mk s0 r0 =>
          rw [h0] at hnp
          simp only [] at hnp
          cases r0 with
          | raised w => exact ⟨_, _, rfl, by intro p; simp⟩
          | ok u =>
            simp only []
            have hans := E.step_ans s0 (dscPdu k)
            cases hd : e.step s0 (dscPdu k) with
            | mk s1 a =>
              rw [hd] at hans
              simp only [] at hans
              rw [← hans] at hnp
              cases a with
              | pos p => cases hnp
              | neg c => exact ⟨_, _, rfl, by intro p; simp⟩
              | timeout => exact ⟨_, _, rfl, by intro p; simp⟩
              | illegal => exact ⟨_, _, rfl, by intro p; simp⟩
              | stuck => exact ⟨_, _, rfl, by intro p; simp⟩
      obtain ⟨s1, a, hs, hne⟩ := hskip
      obtain ⟨r, hr, hab, hc⟩ := ih' s1
      rw [hs]
      have fin : ∃ r', (match svcSessions e cfg rest s1 with
          | (s4, .raised w) => (s4, Scans.R.raised w)
          | (s4, .ok r) => (s4, Scans.R.ok (⟨r.result, false, r.aborted⟩ : SvcResult))).2 = .ok r' ∧ r'.aborted = [] ∧
          ∀ k' ∈ k :: rest, enter k' = true → ∀ sid, sid < 256 → sidSelected cfg (some k') sid = true → supp k' sid = true →
            (∃ l ∈ probeLengths, (E.ans k' (probePdu sid l)).meaningful = true) → (k', sid) ∈ r'.result := by
        cases hq' : svcSessions e cfg rest s1 with
        | mk s4 r4 =>
          rw [hq'] at hr
          simp only [] at hr
          subst hr
          refine ⟨_, rfl, hab, ?_⟩
          intro k' hk' hen
          simp only [List.mem_cons] at hk'
          rcases hk' with rfl | hk'
          · rw [hent] at hen; cases hen
          · exact hc k' hk' hen
      cases a with
      | raised w => exact fin
      | ok a =>
        cases a with
        | pos p => exact absurd rfl (hne p)
        | neg c => exact fin
        | timeout => exact fin
        | illegal => exact fin
        | stuck => exact fin
    | true =>
      have hpos : (E.ans (E.sess s) (dscPdu k)).isPos = true := by rw [henter _ k (by simp)]; exact hent
      obtain ⟨pp, hpp⟩ := setSession_pos E cfg.hooks hin hq k s hpos
      obtain ⟨hs1, _⟩ := setSession_pos_session E cfg.hooks hin k hk s pp hpp
      cases hs : setSession e cfg.hooks k s with
      | mk s1 r1 =>
        rw [hs] at hpp hs1
        simp only [] at hpp hs1
        subst hpp
        simp only []
        have hkk : ∀ k', some k = some k' → cfg.checkSession = true → k = k' ∧ k' < 0x80 ∧ ReadBackOk E.ans k' := by
          intro k' hk' hc
          injection hk' with hk'; subst hk'
          exact ⟨rfl, hk, hrb hc k (by simp)⟩
        obtain ⟨out, hout, hab⟩ := performScanFrom_ok E cfg hin (some k) k hkk (hstuck k) allSids allSids_lt s1 hs1
        obtain ⟨_, hcompl⟩ := performScanFrom_spec E supp iso cfg hin (some k) k
          (fun k' a c => ⟨(hkk k' a c).1, (hkk k' a c).2.1⟩) allSids allSids_lt s1 hs1 out hout
        cases hp : performScan e cfg (some k) s1 with
        | mk s2 r2 =>
          unfold performScan at hp
          rw [hp] at hout
          simp only [] at hout
          subst hout
          simp only []
          have h3 := resetAfter_ok E cfg.reset hreset hping s2
          cases hr3 : resetAfter e cfg.reset s2 with
          | mk s3 r3 =>
            rw [hr3] at h3
            simp only [] at h3
            subst h3
            simp only []
            obtain ⟨r, hr, habr, hc⟩ := ih' s3
            cases hq' : svcSessions e cfg rest s3 with
            | mk s4 r4 =>
              rw [hq'] at hr
              simp only [] at hr
              subst hr
              refine ⟨_, rfl, by simp [hab, habr], ?_⟩
              intro k' hk' hen sid hsid hsel hsup hm
              simp only [List.mem_append, List.mem_map]
              simp only [List.mem_cons] at hk'
              by_cases hkk' : k' = k
              · subst hkk'
                left
                have := hcompl hab sid (by simp [allSids, hsid]) hsel hsup hm
                simp only [List.mem_map] at this
                obtain ⟨q, hq1, rfl⟩ := this
                exact ⟨q, hq1, rfl⟩
              · right
                rcases hk' with rfl | hk'
                · exact absurd rfl hkk'
                · exact hc k' hk' hen sid hsid hsel hsup hm

end Gallia.Scans
