import Gallia.Proofs.Lemmas.HsfzSysExec
/-
  Helper lemmas for C07: the reader task's trace in `Model/HsfzSys.lean`.
-/
namespace Gallia.HsfzSys
open Gallia Gallia.Framing Gallia.Hsfz

variable (cfg : Cfg) (yields : Wire → Bool)

theorem rxWires_append (a b : List Tr) : rxWires (a ++ b) = rxWires a ++ rxWires b := by
  induction a with
  | nil => rfl
  | cons x a ih => cases x <;> simp [rxWires, ih]

theorem rxWires_trOf (w : Wire) : rxWires (trOf w) = [w] := by
  unfold trOf; split <;> simp [rxWires]

theorem answered_append (t u : List Tr) (h : answered t = true) : answered (t ++ u) = answered u := by
  fun_induction answered t <;> simp_all [answered]
  rw [answered.eq_def]; simp_all

theorem answered_trOf (w : Wire) : answered (trOf w) = true := by
  unfold trOf; split <;> simp_all [answered]

/-- what is handled plus what is still complete in the buffer (once `e` has arrived too) -/
def rxAll (tr : List Tr) (buf e : Bytes) : List Wire := rxWires tr ++ (parseAll hsfzCutter (buf ++ e)).1

theorem settle_trace (s : Sys) :
    (∀ e, rxAll (settle cfg yields s).tr (settle cfg yields s).core.buf e = rxAll s.tr s.core.buf e) ∧
    (answered s.tr = true → answered (settle cfg yields s).tr = true) := by
  generalize hn : s.core.buf.length = n
  induction n using Nat.strongRecOn generalizing s with
  | _ n ih =>
    by_cases ho : (s.core.closed || s.core.eof) = true
    · rw [settle_stopped cfg yields s ho]; exact ⟨fun _ => rfl, id⟩
    · have ho : (s.core.closed || s.core.eof) = false := by simpa using ho
      cases hc : cutWire s.core.buf with
      | none =>
        rw [settle_none cfg yields s ho hc]
        exact ⟨fun e => by simp [rxAll], id⟩
      | some p =>
        obtain ⟨w, rest⟩ := p
        have hl := cutWire_shrinks hc
        have key : ∀ e, rxAll (s.tr ++ trOf w) rest e = rxAll s.tr s.core.buf e := by
          intro e
          have hm : hsfzCutter.cut (s.core.buf ++ e) = some (w, rest ++ e) := by
            simpa [hsfzCutter] using cutWire_mono e hc
          simp only [rxAll, rxWires_append, rxWires_trOf, parseAll_some hsfzCutter hm, List.append_assoc,
            List.singleton_append]
        have ka : answered s.tr = true → answered (s.tr ++ trOf w) = true := by
          intro h; rw [answered_append _ _ h]; exact answered_trOf w
        rw [settle_some cfg yields s ho hc]
        by_cases hy : yields w = true
        · rw [if_pos hy]
          obtain ⟨a, b⟩ := ih _ (by rw [← hn]; exact hl)
            { s with core := clientRun cfg (deliver cfg { s.core with buf := rest } w), tr := s.tr ++ trOf w } (by simp)
          exact ⟨fun e => by rw [a e]; simpa using key e, fun h => b (ka h)⟩
        · rw [if_neg hy]
          obtain ⟨a, b⟩ := ih _ (by rw [← hn]; exact hl)
            { s with core := deliver cfg { s.core with buf := rest } w, tr := s.tr ++ trOf w } (by simp)
          exact ⟨fun e => by rw [a e]; simpa using key e, fun h => b (ka h)⟩

end Gallia.HsfzSys

namespace Gallia.HsfzSys
open Gallia Gallia.Framing Gallia.Hsfz

variable (cfg : Cfg) (yields : Wire → Bool)

theorem fire_buf (c : Hsfz.Sys) (t : Nat) : (fire c t).buf = c.buf := by
  unfold fire Sys.finish
  split
  · rfl
  · split
    · split
      · rfl
      · split <;> rfl
    · split <;> rfl
  · split
    · split <;> rfl
    · rfl

theorem coreOp_buf (c : Hsfz.Sys) (o : Hsfz.Op) (h : Hsfz.Op.chunk o = []) (hf : ∀ ch, o ≠ .feed ch) :
    (Hsfz.execOp cfg yields c o).buf = c.buf := by
  cases o with
  | feed ch => exact absurd rfl (hf ch)
  | write d t => simp only [Hsfz.execOp]; split; rfl; split; rfl; simp
  | read t => simp only [Hsfz.execOp]; split; rfl; split; rfl; simp
  | advance dt => simp [Hsfz.execOp, fire_buf]
  | eof => simp [Hsfz.execOp]

/-- the reader's trace over one event -/
theorem execOp_trace (s : Sys) (op : Op) (hp : PreOk s) :
    (∀ e, rxAll (execOp cfg yields s op).tr ((execOp cfg yields s op).core.buf ++ (execOp cfg yields s op).pre) e =
      rxAll s.tr (s.core.buf ++ s.pre) (op.chunk ++ e)) ∧
    (answered s.tr = true → answered (execOp cfg yields s op).tr = true) := by
  have eofT : ∀ t : Sys, (∀ e, rxAll (eofCore cfg yields t).tr ((eofCore cfg yields t).core.buf ++ (eofCore cfg yields t).pre) e =
      rxAll t.tr (t.core.buf ++ t.pre) e) ∧ (answered t.tr = true → answered (eofCore cfg yields t).tr = true) := by
    intro t
    have hb : (eofCore cfg yields t).core.buf = t.core.buf := coreOp_buf cfg yields t.core .eof rfl (by intro ch h; cases h)
    constructor
    · intro e
      rw [hb]
      simp only [eofCore, rxAll]
      split
      · rfl
      · rw [rxWires_append]; simp [rxWires]
    · intro h
      simp only [eofCore]
      split
      · exact h
      · rw [answered_append _ _ h]; rfl
  have feedT : ∀ (t : Sys) (ch : Bytes), t.pre = [] →
      (∀ e, rxAll (feedCore cfg yields t ch).tr ((feedCore cfg yields t ch).core.buf ++ (feedCore cfg yields t ch).pre) e =
        rxAll t.tr t.core.buf (ch ++ e)) ∧ (answered t.tr = true → answered (feedCore cfg yields t ch).tr = true) := by
    intro t ch hpre
    obtain ⟨a, b⟩ := settle_trace cfg yields { t with core := { t.core with buf := t.core.buf ++ ch } }
    refine ⟨fun e => ?_, b⟩
    rw [(feedCore_core cfg yields t ch).2.2.1, hpre, List.append_nil]
    have := a e
    simp only [feedCore]
    rw [this]; simp [rxAll, List.append_assoc]
  cases op with
  | feed chunk =>
    simp only [execOp, Op.chunk]; split
    · rename_i hc
      obtain ⟨a, b⟩ := feedT s chunk (hp hc)
      exact ⟨fun e => by rw [a e, hp hc, List.append_nil], b⟩
    · exact ⟨fun e => by simp [rxAll, List.append_assoc], id⟩
  | connect =>
    simp only [execOp, Op.chunk, List.nil_append]; split
    · exact ⟨fun _ => rfl, id⟩
    · obtain ⟨a, b⟩ := feedT { s with connected := true, pre := [] } s.pre rfl
      have a' : ∀ e, rxAll (feedCore cfg yields { s with connected := true, pre := [] } s.pre).tr
          ((feedCore cfg yields { s with connected := true, pre := [] } s.pre).core.buf ++
            (feedCore cfg yields { s with connected := true, pre := [] } s.pre).pre) e = rxAll s.tr (s.core.buf ++ s.pre) e := by
        intro e; rw [a e]; simp [rxAll, List.append_assoc]
      split
      · obtain ⟨c, d⟩ := eofT (feedCore cfg yields { s with connected := true, pre := [] } s.pre)
        exact ⟨fun e => by rw [c e, a' e], fun h => d (b h)⟩
      · exact ⟨a', b⟩
  | write d t =>
    simp only [execOp, Op.chunk, List.nil_append]; split
    · refine ⟨fun e => ?_, id⟩
      simp only [rxAll]
      rw [coreOp_buf cfg yields s.core (.write d t) rfl (by intro ch h; cases h)]
    · exact ⟨fun _ => rfl, id⟩
  | read t =>
    simp only [execOp, Op.chunk, List.nil_append]; split
    · refine ⟨fun e => ?_, id⟩
      simp only [rxAll]
      rw [coreOp_buf cfg yields s.core (.read t) rfl (by intro ch h; cases h)]
    · exact ⟨fun _ => rfl, id⟩
  | close =>
    simp only [execOp, Op.chunk, List.nil_append]; split
    · exact ⟨fun _ => rfl, id⟩
    · exact ⟨fun _ => rfl, id⟩
  | eof =>
    simp only [execOp, Op.chunk, List.nil_append]; split
    · exact eofT s
    · exact ⟨fun _ => rfl, id⟩
  | advance dt =>
    simp only [execOp, Op.chunk, List.nil_append]
    refine ⟨fun e => ?_, id⟩
    simp only [rxAll]
    rw [coreOp_buf cfg yields s.core (.advance dt) rfl (by intro ch h; cases h)]

theorem exec_trace (ops : List Op) (s : Sys) (hp : PreOk s) :
    (∀ e, rxAll (exec cfg yields s ops).tr ((exec cfg yields s ops).core.buf ++ (exec cfg yields s ops).pre) e =
      rxAll s.tr (s.core.buf ++ s.pre) (fedBytes ops ++ e)) ∧
    (answered s.tr = true → answered (exec cfg yields s ops).tr = true) := by
  induction ops generalizing s with
  | nil => exact ⟨fun e => by simp [exec, fedBytes], id⟩
  | cons op ops ih =>
    obtain ⟨a, b⟩ := execOp_trace cfg yields s op hp
    obtain ⟨c, d⟩ := ih _ (execOp_preOk cfg yields s op hp)
    have : exec cfg yields s (op :: ops) = exec cfg yields (execOp cfg yields s op) ops := by simp [exec]
    rw [this]
    exact ⟨fun e => by rw [c e, a]; simp [fedBytes, List.append_assoc], fun h => d (b h)⟩

end Gallia.HsfzSys
