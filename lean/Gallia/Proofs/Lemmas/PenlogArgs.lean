import Gallia.Model.PenlogHr
/-
  C17 helper lemmas, part 7: the argument vector of `hr` (classification, defaults, the mutually exclusive modes,
  priority names).
-/
namespace Gallia.Penlog

/-! ### classification -/

theorem classify_plain (t : Str) (h : t.head? ≠ some 45) : classify t = some (.arg t) := by
  cases t with
  | nil => rfl
  | cons c r =>
    have hc : c ≠ 45 := by simpa using h
    simp [classify, classifyTok, hc, Tok.toCls]

theorem classify_dash : classify dash = some (.arg dash) := by decide

/-- an argument string that cannot be taken for an option: it does not start with `-`, or it is `-` itself -/
def FileTok (t : Str) : Prop := t.head? ≠ some 45 ∨ t = dash

theorem classify_fileTok (t : Str) (h : FileTok t) : classify t = some (.arg t) := by
  rcases h with h | h
  · exact classify_plain t h
  · subst h; exact classify_dash

theorem fileTok_ne_dd (t : Str) (h : FileTok t) : t ≠ [45, 45] := by
  rcases h with h | h
  · intro e; subst e; simp at h
  · subst h; decide

theorem classifyAll_files (l : List Str) (h : ∀ f ∈ l, FileTok f) : classifyAll l = some (l.map .arg) := by
  induction l with
  | nil => rfl
  | cons f rest ih =>
    have hf := h f (by simp)
    have := ih (fun g hg => h g (by simp [hg]))
    simp [classifyAll, fileTok_ne_dd f hf, classify_fileTok f hf, this]

/-! ### only positionals -/

theorem runArgs_nil (st : ArgSt) : runArgs st [] = finish st := by
  rw [runArgs]

theorem runArgs_arg_running (st : ArgSt) (acc : List Str) (s : Str) (rest : List Cls) (h : st.files = .running acc) :
    runArgs st (.arg s :: rest) = runArgs { st with files := .running (acc ++ [s]) } rest := by
  rw [runArgs]; simp [h]

theorem runArgs_arg_unset (st : ArgSt) (s : Str) (rest : List Cls) (h : st.files = .unset) :
    runArgs st (.arg s :: rest) = runArgs { st with files := .running [s] } rest := by
  rw [runArgs]; simp [h]

theorem runArgs_args_running (st : ArgSt) (acc l : List Str) (h : st.files = .running acc) :
    runArgs st (l.map .arg) = finish { st with files := .running (acc ++ l) } := by
  induction l generalizing st acc with
  | nil =>
    have : ({ st with files := .running (acc ++ []) } : ArgSt) = st := by cases st; simp_all
    rw [List.map_nil, runArgs_nil, this]
  | cons s rest ih =>
    rw [List.map_cons, runArgs_arg_running st acc s _ h, ih _ (acc ++ [s]) rfl]
    simp

/-- the defaults: only file names on the command line -/
theorem hrPlan_files (files : List Str) (hne : files ≠ []) (h : ∀ f ∈ files, FileTok f) :
    hrPlan files = .plan { files := files.map normPath, mode := .forward, n := 100, prio := 6, color := .auto } := by
  unfold hrPlan
  rw [classifyAll_files files h]
  cases files with
  | nil => exact absurd rfl hne
  | cons f rest =>
    simp only [List.map_cons]
    rw [runArgs_arg_unset _ f _ rfl, runArgs_args_running _ [f] rest rfl]
    simp [finish]

/-! ### the mutually exclusive group -/

/-- at most one of the three mode flags has been seen -/
def Excl (st : ArgSt) : Prop :=
  ¬ (st.tail = true ∧ st.head = true) ∧ ¬ (st.tail = true ∧ st.reverse = true) ∧ ¬ (st.head = true ∧ st.reverse = true)

def FlagsLe (a b : ArgSt) : Prop :=
  (a.tail = true → b.tail = true) ∧ (a.head = true → b.head = true) ∧ (a.reverse = true → b.reverse = true)

def Agrees (st : ArgSt) (p : Plan) : Prop :=
  (st.tail = true → p.mode = .tail) ∧ (st.head = true → p.mode = .head) ∧ (st.reverse = true → p.mode = .reverse)

/-- the mode an option selects -/
def modeOf : OptId → Option HrMode
  | .tail => some .tail
  | .head => some .head
  | .reverse => some .reverse
  | _ => none

def flagSet (st : ArgSt) : HrMode → Prop
  | .tail => st.tail = true
  | .head => st.head = true
  | .reverse => st.reverse = true
  | .forward => True

theorem agrees_of_le (a b : ArgSt) (p : Plan) (hle : FlagsLe a b) (hb : Agrees b p) : Agrees a p :=
  ⟨fun h => hb.1 (hle.1 h), fun h => hb.2.1 (hle.2.1 h), fun h => hb.2.2 (hle.2.2 h)⟩

theorem agrees_flagSet (st : ArgSt) (p : Plan) (m : HrMode) (ha : Agrees st p) (hs : flagSet st m) (hm : m ≠ .forward) :
    p.mode = m := by
  cases m with
  | forward => exact absurd rfl hm
  | tail => exact ha.1 hs
  | head => exact ha.2.1 hs
  | reverse => exact ha.2.2 hs

theorem finish_agrees (st : ArgSt) (p : Plan) (hx : Excl st) (h : finish st = .plan p) : Agrees st p := by
  obtain ⟨h1, h2, h3⟩ := hx
  unfold finish at h
  by_cases he : st.extras = true
  · simp [he] at h
  · simp only [he, Bool.false_eq_true, if_false] at h
    cases hf : st.files with
    | unset => simp [hf] at h
    | running fs =>
      simp only [hf, Outcome.plan.injEq] at h
      subst h
      refine ⟨fun ht => by simp [ht], fun hh => ?_, fun hr => ?_⟩
      · have : st.tail = false := by cases ht : st.tail <;> simp_all
        simp [this, hh]
      · have : st.tail = false := by cases ht : st.tail <;> simp_all
        have : st.head = false := by cases ht : st.head <;> simp_all
        simp_all
    | done fs =>
      simp only [hf, Outcome.plan.injEq] at h
      subst h
      refine ⟨fun ht => by simp [ht], fun hh => ?_, fun hr => ?_⟩
      · have : st.tail = false := by cases ht : st.tail <;> simp_all
        simp [this, hh]
      · have : st.tail = false := by cases ht : st.tail <;> simp_all
        have : st.head = false := by cases ht : st.head <;> simp_all
        simp_all

theorem setFlag_spec (st st2 : ArgSt) (id : OptId) (hx : Excl st) (h : setFlag st id = some st2) :
    Excl st2 ∧ FlagsLe st st2 ∧ (∀ m, modeOf id = some m → flagSet st2 m) := by
  obtain ⟨h1, h2, h3⟩ := hx
  cases id with
  | tail =>
    simp only [setFlag] at h
    by_cases hc : (st.head || st.reverse) = true
    · simp [hc] at h
    · simp only [hc, Bool.false_eq_true, if_false, Option.some.injEq] at h
      subst h
      simp only [Bool.or_eq_true, not_or] at hc
      refine ⟨⟨by simp [hc.1], by simp [hc.2], h3⟩, ⟨fun _ => rfl, id, id⟩, ?_⟩
      intro m hm; simp only [modeOf, Option.some.injEq] at hm; subst hm; rfl
  | head =>
    simp only [setFlag] at h
    by_cases hc : (st.tail || st.reverse) = true
    · simp [hc] at h
    · simp only [hc, Bool.false_eq_true, if_false, Option.some.injEq] at h
      subst h
      simp only [Bool.or_eq_true, not_or] at hc
      refine ⟨⟨by simp [hc.1], h2, by simp [hc.2]⟩, ⟨id, fun _ => rfl, id⟩, ?_⟩
      intro m hm; simp only [modeOf, Option.some.injEq] at hm; subst hm; rfl
  | reverse =>
    simp only [setFlag] at h
    by_cases hc : (st.tail || st.head) = true
    · simp [hc] at h
    · simp only [hc, Bool.false_eq_true, if_false, Option.some.injEq] at h
      subst h
      simp only [Bool.or_eq_true, not_or] at hc
      refine ⟨⟨h1, by simp [hc.1], by simp [hc.2]⟩, ⟨id, id, fun _ => rfl⟩, ?_⟩
      intro m hm; simp only [modeOf, Option.some.injEq] at hm; subst hm; rfl
  | help => simp only [setFlag, Option.some.injEq] at h; subst h; exact ⟨⟨h1, h2, h3⟩, ⟨id, id, id⟩, fun m hm => by simp [modeOf] at hm⟩
  | prio => simp only [setFlag, Option.some.injEq] at h; subst h; exact ⟨⟨h1, h2, h3⟩, ⟨id, id, id⟩, fun m hm => by simp [modeOf] at hm⟩
  | lines => simp only [setFlag, Option.some.injEq] at h; subst h; exact ⟨⟨h1, h2, h3⟩, ⟨id, id, id⟩, fun m hm => by simp [modeOf] at hm⟩
  | color => simp only [setFlag, Option.some.injEq] at h; subst h; exact ⟨⟨h1, h2, h3⟩, ⟨id, id, id⟩, fun m hm => by simp [modeOf] at hm⟩

theorem flagSet_le (a b : ArgSt) (m : HrMode) (hle : FlagsLe a b) (h : flagSet a m) : flagSet b m := by
  cases m with
  | forward => trivial
  | tail => exact hle.1 h
  | head => exact hle.2.1 h
  | reverse => exact hle.2.2 h

theorem flagsLe_trans (a b c : ArgSt) (h1 : FlagsLe a b) (h2 : FlagsLe b c) : FlagsLe a c :=
  ⟨fun h => h2.1 (h1.1 h), fun h => h2.2.1 (h1.2.1 h), fun h => h2.2.2 (h1.2.2 h)⟩

theorem applyFlags_inr (st st2 : ArgSt) (fs : List OptId) (hx : Excl st) (h : applyFlags st fs = .inr st2) :
    Excl st2 ∧ FlagsLe st st2 ∧ (∀ f ∈ fs, ∀ m, modeOf f = some m → flagSet st2 m) := by
  induction fs generalizing st with
  | nil =>
    simp only [applyFlags, Sum.inr.injEq] at h
    subst h
    exact ⟨hx, ⟨id, id, id⟩, fun f hf => by simp at hf⟩
  | cons f rest ih =>
    cases hfh : f with
    | help => subst hfh; simp [applyFlags] at h
    | _ =>
      all_goals
        rw [← hfh]
        have hne : f ≠ .help := by rw [hfh]; decide
        have hstep : applyFlags st (f :: rest) = match setFlag st f with
            | none => .inl .usage
            | some st' => applyFlags st' rest := by
          cases f <;> first | exact absurd rfl hne | rfl
        rw [hstep] at h
        cases hs : setFlag st f with
        | none => simp [hs] at h
        | some st1 =>
          simp only [hs] at h
          obtain ⟨e1, l1, s1⟩ := setFlag_spec st st1 f hx hs
          obtain ⟨e2, l2, s2⟩ := ih st1 e1 h
          refine ⟨e2, flagsLe_trans _ _ _ l1 l2, ?_⟩
          intro g hg m hm
          rcases List.mem_cons.mp hg with rfl | hg'
          · exact flagSet_le _ _ m l2 (s1 m hm)
          · exact s2 g hg' m hm

theorem applyFlags_inl_not_plan (st : ArgSt) (fs : List OptId) (o : Outcome) (h : applyFlags st fs = .inl o) :
    ∀ p, o ≠ .plan p := by
  induction fs generalizing st with
  | nil => simp [applyFlags] at h
  | cons f rest ih =>
    cases f with
    | help => simp only [applyFlags, Sum.inl.injEq] at h; subst h; intro p; simp
    | _ =>
      all_goals
        simp only [applyFlags] at h
        split at h
        · simp only [Sum.inl.injEq] at h; subst h; intro p; simp
        · exact ih _ h

theorem setValue_flags (st st2 : ArgSt) (id : OptId) (v : Str) (h : setValue st id v = some st2) :
    st2.tail = st.tail ∧ st2.head = st.head ∧ st2.reverse = st.reverse := by
  cases id with
  | prio =>
    simp only [setValue, Option.map_eq_some_iff] at h
    obtain ⟨p, _, rfl⟩ := h
    exact ⟨rfl, rfl, rfl⟩
  | lines =>
    simp only [setValue, Option.map_eq_some_iff] at h
    obtain ⟨p, _, rfl⟩ := h
    exact ⟨rfl, rfl, rfl⟩
  | color =>
    simp only [setValue] at h
    split at h
    · simp only [Option.some.injEq] at h; subst h; exact ⟨rfl, rfl, rfl⟩
    · split at h
      · simp only [Option.some.injEq] at h; subst h; exact ⟨rfl, rfl, rfl⟩
      · split at h
        · simp only [Option.some.injEq] at h; subst h; exact ⟨rfl, rfl, rfl⟩
        · simp at h
  | help => simp only [setValue, Option.some.injEq] at h; subst h; exact ⟨rfl, rfl, rfl⟩
  | tail => simp only [setValue, Option.some.injEq] at h; subst h; exact ⟨rfl, rfl, rfl⟩
  | head => simp only [setValue, Option.some.injEq] at h; subst h; exact ⟨rfl, rfl, rfl⟩
  | reverse => simp only [setValue, Option.some.injEq] at h; subst h; exact ⟨rfl, rfl, rfl⟩

theorem close_flags (st : ArgSt) : st.close.tail = st.tail ∧ st.close.head = st.head ∧ st.close.reverse = st.reverse := by
  unfold ArgSt.close
  split <;> exact ⟨rfl, rfl, rfl⟩

theorem excl_of_eq (a b : ArgSt) (h : b.tail = a.tail ∧ b.head = a.head ∧ b.reverse = a.reverse) (hx : Excl a) : Excl b := by
  obtain ⟨h1, h2, h3⟩ := h
  unfold Excl at *
  rw [h1, h2, h3]; exact hx

theorem le_of_eq (a b : ArgSt) (h : b.tail = a.tail ∧ b.head = a.head ∧ b.reverse = a.reverse) : FlagsLe a b := by
  obtain ⟨h1, h2, h3⟩ := h
  exact ⟨fun x => by rw [h1]; exact x, fun x => by rw [h2]; exact x, fun x => by rw [h3]; exact x⟩

theorem cluster_simple (id : OptId) (long : Bool) : cluster id long none = some ([], id, none) := by
  simp [cluster]

theorem finish_agrees_eq (st st2 : ArgSt) (p : Plan) (hfl : st2.tail = st.tail ∧ st2.head = st.head ∧ st2.reverse = st.reverse)
    (hx : Excl st) (h : finish st2 = .plan p) : Agrees st p :=
  agrees_of_le st st2 p (le_of_eq st st2 hfl) (finish_agrees st2 p (excl_of_eq st st2 hfl hx) h)

def notDd (c : Cls) : Bool := c != .dd

theorem takeWhile_cons_ne (c : Cls) (rest : List Cls) (h : c ≠ .dd) :
    (c :: rest).takeWhile notDd = c :: rest.takeWhile notDd := by
  have : notDd c = true := by simp [notDd, h]
  simp [this]

theorem modeOf_not_takesArg (id : OptId) (m : HrMode) (h : modeOf id = some m) : id.takesArg = false := by
  cases id <;> simp [modeOf] at h <;> rfl

theorem modeOf_ne_forward (id : OptId) (m : HrMode) (h : modeOf id = some m) : m ≠ .forward := by
  cases id <;> simp [modeOf] at h <;> subst h <;> decide

/-- a plan carries the mode of every mode flag seen so far and of every plain mode option still to come (before `--`) -/
theorem runArgs_modes (st : ArgSt) (cs : List Cls) (p : Plan) (hx : Excl st) (h : runArgs st cs = .plan p) :
    Agrees st p ∧ ∀ id long m, modeOf id = some m → Cls.opt id long none ∈ cs.takeWhile notDd → p.mode = m := by
  fun_induction runArgs st cs with
  | case1 st => exact ⟨finish_agrees st p hx h, fun _ _ _ _ hm => by simp at hm⟩
  | case2 st s rest hf ih =>
    have := ih (excl_of_eq st _ ⟨rfl, rfl, rfl⟩ hx) h
    refine ⟨agrees_of_le st _ p (le_of_eq st _ ⟨rfl, rfl, rfl⟩) this.1, fun id long m hm hmem => this.2 id long m hm ?_⟩
    rw [takeWhile_cons_ne _ _ (by simp)] at hmem
    simpa using hmem
  | case3 st s rest acc hf ih =>
    have := ih (excl_of_eq st _ ⟨rfl, rfl, rfl⟩ hx) h
    refine ⟨agrees_of_le st _ p (le_of_eq st _ ⟨rfl, rfl, rfl⟩) this.1, fun id long m hm hmem => this.2 id long m hm ?_⟩
    rw [takeWhile_cons_ne _ _ (by simp)] at hmem
    simpa using hmem
  | case4 st s rest fs hf ih =>
    have := ih (excl_of_eq st _ ⟨rfl, rfl, rfl⟩ hx) h
    refine ⟨agrees_of_le st _ p (le_of_eq st _ ⟨rfl, rfl, rfl⟩) this.1, fun id long m hm hmem => this.2 id long m hm ?_⟩
    rw [takeWhile_cons_ne _ _ (by simp)] at hmem
    simpa using hmem
  | case5 st rest vals hf hemp =>
    simp only [hf] at h
    refine ⟨?_, fun _ _ _ _ hm => by simp [notDd] at hm⟩
    split at h
    · simp [finish] at h
    · exact finish_agrees_eq st _ p (by exact ⟨rfl, rfl, rfl⟩) hx h
  | case6 st rest vals hf hemp =>
    simp only [hf] at h
    refine ⟨?_, fun _ _ _ _ hm => by simp [notDd] at hm⟩
    split at h
    · simp [finish] at h
    · exact finish_agrees_eq st _ p (by exact ⟨rfl, rfl, rfl⟩) hx h
  | case7 st rest acc hf =>
    simp only [hf] at h
    refine ⟨?_, fun _ _ _ _ hm => by simp [notDd] at hm⟩
    exact finish_agrees_eq st _ p (by exact ⟨rfl, rfl, rfl⟩) hx h
  | case8 st rest fs hf =>
    simp only [hf] at h
    simp [finish] at h
  | case9 st rest ih =>
    have hc := close_flags st
    have hfl : ({ st.close with extras := true } : ArgSt).tail = st.tail ∧ ({ st.close with extras := true } : ArgSt).head = st.head ∧
        ({ st.close with extras := true } : ArgSt).reverse = st.reverse := hc
    have := ih (excl_of_eq st _ hfl hx) h
    refine ⟨agrees_of_le st _ p (le_of_eq st _ hfl) this.1, fun id long m hm hmem => this.2 id long m hm ?_⟩
    rw [takeWhile_cons_ne _ _ (by simp)] at hmem
    simpa using hmem
  | case10 st id long e rest hcl => simp at h
  | case11 st id long e rest flags last val hcl taken htk => simp at h
  | case12 st id long e rest flags last val hcl taken v k htk o hap =>
    exact absurd h (applyFlags_inl_not_plan _ _ o hap p)
  | case13 st id long e rest flags last val hcl taken k st1 hap v st2 hsv htk ih =>
    have hc := close_flags st
    obtain ⟨e1, l1, _⟩ := applyFlags_inr st.close st1 flags (excl_of_eq st _ hc hx) hap
    have hv := setValue_flags st1 st2 last v hsv
    have ih' := ih (excl_of_eq st1 _ hv e1) h
    have hle : FlagsLe st st2 := flagsLe_trans _ _ _ (le_of_eq st _ hc) (flagsLe_trans _ _ _ l1 (le_of_eq st1 _ hv))
    refine ⟨agrees_of_le st _ p hle ih'.1, ?_⟩
    intro id' long' m hm hmem
    rw [takeWhile_cons_ne _ _ (by simp)] at hmem
    have hk : k = 0 ∨ (k = 1 ∧ ∃ v' tl, rest = Cls.arg v' :: tl) := by
      simp only [taken] at htk
      split at htk
      · split at htk
        · simp only [Option.some.injEq, Prod.mk.injEq] at htk; exact Or.inl htk.2.symm
        · split at htk
          · rename_i v' tl
            simp only [Option.some.injEq, Prod.mk.injEq] at htk
            exact Or.inr ⟨htk.2.symm, v', tl, rfl⟩
          · simp at htk
      · simp at htk
    rcases List.mem_cons.mp hmem with heq | hin
    · -- the head itself is a plain mode option: it takes no value
      simp only [Cls.opt.injEq] at heq
      obtain ⟨rfl, rfl, rfl⟩ := heq
      rw [cluster_simple] at hcl
      simp only [Option.some.injEq, Prod.mk.injEq] at hcl
      obtain ⟨_, rfl, _⟩ := hcl
      have hta := modeOf_not_takesArg _ m hm
      simp only [taken, hta] at htk
      simp at htk
    · apply ih'.2 id' long' m hm
      rcases hk with rfl | ⟨rfl, v', tl, rfl⟩
      · simpa using hin
      · rw [takeWhile_cons_ne _ _ (by simp)] at hin
        simpa using hin
  | case14 st id long e rest flags last val hcl taken k st1 hap v hsv htk => simp at h
  | case15 st id long e rest flags last val hcl taken k st1 hap o hap2 htk =>
    exact absurd h (applyFlags_inl_not_plan _ _ o hap2 p)
  | case16 st id long e rest flags last val hcl taken k st1 hap st2 hap2 htk ih =>
    have hc := close_flags st
    obtain ⟨e1, l1, _⟩ := applyFlags_inr st.close st1 flags (excl_of_eq st _ hc hx) hap
    obtain ⟨e2, l2, s2⟩ := applyFlags_inr st1 st2 [last] e1 hap2
    have ih' := ih e2 h
    have hle : FlagsLe st st2 := flagsLe_trans _ _ _ (le_of_eq st _ hc) (flagsLe_trans _ _ _ l1 l2)
    refine ⟨agrees_of_le st _ p hle ih'.1, ?_⟩
    intro id' long' m hm hmem
    rw [takeWhile_cons_ne _ _ (by simp)] at hmem
    rcases List.mem_cons.mp hmem with heq | hin
    · simp only [Cls.opt.injEq] at heq
      obtain ⟨rfl, rfl, rfl⟩ := heq
      rw [cluster_simple] at hcl
      simp only [Option.some.injEq, Prod.mk.injEq] at hcl
      obtain ⟨_, rfl, _⟩ := hcl
      exact agrees_flagSet st2 p m ih'.1 (s2 _ (by simp) m hm) (modeOf_ne_forward _ m hm)
    · exact ih'.2 id' long' m hm hin

/-! ### from the argument strings to the classified ones -/

theorem classify_ne_dd (t : Str) (c : Cls) (h : classify t = some c) : c ≠ .dd := by
  unfold classify at h
  simp only [Option.map_eq_some_iff] at h
  obtain ⟨k, _, rfl⟩ := h
  cases k <;> simp [Tok.toCls]

def ddTok : Str := [45, 45]

/-- an argument string before the first `--` shows up classified before the first `--` -/
theorem mem_classifyAll (argv : List Str) (cs : List Cls) (h : classifyAll argv = some cs) (t : Str) (c : Cls)
    (ht : t ∈ argv.takeWhile (fun x => x != ddTok)) (hc : classify t = some c) : c ∈ cs.takeWhile notDd := by
  induction argv generalizing cs with
  | nil => simp at ht
  | cons x rest ih =>
    by_cases hx : x = ddTok
    · subst hx
      simp [ddTok] at ht
    · have hx' : (x != ddTok) = true := by simp [hx]
      rw [List.takeWhile_cons, hx'] at ht
      simp only [if_true] at ht
      unfold classifyAll at h
      have hx2 : ¬ x = [45, 45] := hx
      simp only [hx2, if_false] at h
      cases hcx : classify x with
      | none => simp [hcx] at h
      | some c0 =>
        cases hcr : classifyAll rest with
        | none => simp [hcx, hcr] at h
        | some cs' =>
          simp only [hcx, hcr, Option.some.injEq] at h
          subst h
          rw [takeWhile_cons_ne c0 cs' (classify_ne_dd x c0 hcx)]
          rcases List.mem_cons.mp ht with rfl | hin
          · rw [hcx] at hc
            simp only [Option.some.injEq] at hc
            subst hc
            simp
          · exact List.mem_cons_of_mem _ (ih cs' hcr hin)

/-- the exact spellings of the three mode options -/
def modeToks : List (Str × HrMode) :=
  [([45, 116], .tail), ([45, 45, 116, 97, 105, 108], .tail), ([45, 45, 104, 101, 97, 100], .head),
   ([45, 114], .reverse), ([45, 45, 114, 101, 118, 101, 114, 115, 101], .reverse)]

theorem modeToks_classify : ∀ x ∈ modeToks, ∃ id long, classify x.1 = some (.opt id long none) ∧ modeOf id = some x.2 := by
  intro x hx
  simp only [modeToks, List.mem_cons, List.not_mem_nil, or_false] at hx
  rcases hx with rfl | rfl | rfl | rfl | rfl
  · exact ⟨.tail, false, by decide, rfl⟩
  · exact ⟨.tail, true, by decide, rfl⟩
  · exact ⟨.head, true, by decide, rfl⟩
  · exact ⟨.reverse, false, by decide, rfl⟩
  · exact ⟨.reverse, true, by decide, rfl⟩

theorem excl_init : Excl {} := by simp [Excl]

/-- two argument strings that argparse resolves to different bare mode options (exact spellings or unique
    abbreviations), both before any `--`: never a plan -/
theorem hrPlan_two_modes_gen (argv : List Str) (a b : Str) (ida idb : OptId) (la lb : Bool) (ma mb : HrMode)
    (hca : classify a = some (.opt ida la none)) (hma : modeOf ida = some ma)
    (hcb : classify b = some (.opt idb lb none)) (hmb : modeOf idb = some mb)
    (hne : ma ≠ mb) (hain : a ∈ argv.takeWhile (fun x => x != ddTok)) (hbin : b ∈ argv.takeWhile (fun x => x != ddTok)) :
    ∀ p, hrPlan argv ≠ .plan p := by
  intro p hp
  unfold hrPlan at hp
  cases hc : classifyAll argv with
  | none => simp [hc] at hp
  | some cs =>
    simp only [hc] at hp
    have h2 := (runArgs_modes {} cs p excl_init hp).2
    have e1 := h2 ida la ma hma (mem_classifyAll argv cs hc a _ hain hca)
    have e2 := h2 idb lb mb hmb (mem_classifyAll argv cs hc b _ hbin hcb)
    exact hne (e1.symm.trans e2)

/-- two different mode options in their exact spellings on one command line (before any `--`) never give a plan -/
theorem hrPlan_two_modes (argv : List Str) (a b : Str) (ma mb : HrMode) (ha : (a, ma) ∈ modeToks) (hb : (b, mb) ∈ modeToks)
    (hne : ma ≠ mb) (hain : a ∈ argv.takeWhile (fun x => x != ddTok)) (hbin : b ∈ argv.takeWhile (fun x => x != ddTok)) :
    ∀ p, hrPlan argv ≠ .plan p := by
  obtain ⟨ida, la, hca, hma⟩ := modeToks_classify (a, ma) ha
  obtain ⟨idb, lb, hcb, hmb⟩ := modeToks_classify (b, mb) hb
  exact hrPlan_two_modes_gen argv a b ida idb la lb ma mb hca hma hcb hmb hne hain hbin

/-! ### priority names -/

theorem lowerAscii_idem (c : Nat) : lowerAscii (lowerAscii c) = lowerAscii c := by
  unfold lowerAscii; split <;> (try split) <;> omega

theorem isDigit_lowerAscii (c : Nat) : isDigit (lowerAscii c) = isDigit c := by
  unfold lowerAscii
  split
  · rename_i h
    have h1 : isDigit (c + 32) = false := by simp [isDigit]; omega
    have h2 : isDigit c = false := by simp [isDigit]; omega
    rw [h1, h2]
  · rfl

theorem lowerAscii_digit (c : Nat) (h : isDigit c = true) : lowerAscii c = c := by
  simp [isDigit] at h
  unfold lowerAscii
  split
  · omega
  · rfl

/-- `from_str` does not look at the case of letters -/
theorem fromStr_lower (s : Str) : fromStr (s.map lowerAscii) = fromStr s := by
  have hall : (s.map lowerAscii).all isDigit = s.all isDigit := by
    rw [List.all_map]
    congr 1
    funext c
    exact isDigit_lowerAscii c
  have hemp : (s.map lowerAscii).isEmpty = s.isEmpty := by cases s <;> rfl
  by_cases hd : s.all isDigit = true
  · have : s.map lowerAscii = s := by
      rw [List.all_eq_true] at hd
      conv => rhs; rw [← List.map_id s]
      exact List.map_congr_left (fun c hc => lowerAscii_digit c (hd c hc))
    rw [this]
  · unfold fromStr
    simp only [hall, hemp, hd, Bool.and_false, Bool.false_eq_true, if_false, List.map_map]
    have : (lowerAscii ∘ lowerAscii) = lowerAscii := by funext c; exact lowerAscii_idem c
    rw [this]

theorem fromStr_names : ∀ p, p < 9 → fromStr (prioNames.getD p []) = some p ∧ fromStr [48 + p] = some p := by
  decide

theorem natDec_small (p : Nat) (h : p < 10) : natDec p = [48 + p] := by
  rw [natDec]; simp [h]

/-- `-p X` and `-p Y` give the same plan when `from_str` gives the same priority (or fails) for `X` and `Y` -/
theorem hrPlan_prio_congr (o x y : Str) (rest : List Str) (ho : classify o = some (.opt .prio false none) ∨ classify o = some (.opt .prio true none))
    (hod : o ≠ [45, 45]) (hx : x.head? ≠ some 45) (hy : y.head? ≠ some 45) (h : fromStr x = fromStr y) :
    hrPlan (o :: x :: rest) = hrPlan (o :: y :: rest) := by
  have hxd : x ≠ [45, 45] := by intro e; subst e; simp at hx
  have hyd : y ≠ [45, 45] := by intro e; subst e; simp at hy
  unfold hrPlan
  simp only [classifyAll, hod, hxd, hyd, if_false, classify_plain x hx, classify_plain y hy]
  cases hr : classifyAll rest with
  | none => rcases ho with ho | ho <;> simp [ho]
  | some cs =>
    rcases ho with ho | ho
    all_goals
      simp only [ho]
      rw [runArgs, runArgs]
      simp [cluster, OptId.takesArg, applyFlags, setValue, h]

end Gallia.Penlog
