import Gallia.Model.Randomize
import Gallia.Proofs.Lemmas.PySet
import Gallia.Proofs.Lemmas.Randomize
import Gallia.Proofs.Lemmas.RandomizeDict
/-
  C16 — `randomize` with CPython's set order computed (`randomizePyGen`, Model/Randomize.lean) is an instance of the
  oracle-parametrised model `randomizeGen`: fed with the iteration orders the PySet run goes through, the latter
  produces the same model and consumes the same draws and choices (`randomizePyGen_eq`).  Every theorem stated for all
  order oracles therefore holds of `randomize`.
-/
namespace Gallia.Randomize
open Gallia.PySet (PySet WF hashModulus)

/-- `session_transitions` compared index by index (the association list behind `Trans` depends on the order of the
    updates, the sets it denotes do not) -/
def TEq (t t' : Trans) : Prop := ∀ x, t x = t' x

theorem TEq.rfl' (t : Trans) : TEq t t := fun _ => rfl

theorem upd_congr {t t' : Trans} (h : TEq t t') (s : Nat) (v : List Nat) : TEq (upd t s v) (upd t' s v) := by
  intro x; rw [upd_apply, upd_apply, h x]

theorem addAll_congr {t t' : Trans} (h : TEq t t') (s : Nat) (xs : List Nat) : TEq (addAll t s xs) (addAll t' s xs) := by
  unfold addAll; rw [h s]; exact upd_congr h _ _

theorem add1_congr {t t' : Trans} (h : TEq t t') (s x : Nat) : TEq (add1 t s x) (add1 t' s x) := by
  unfold add1; rw [h s]; exact upd_congr h _ _

theorem available_congr {t t' : Trans} (h : TEq t t') : available t = available t' := by
  unfold available
  apply List.filter_congr
  intro x _; rw [h x]

theorem emptyCount_congr {t t' : Trans} (h : TEq t t') : emptyCount t = emptyCount t' := by
  unfold emptyCount
  apply List.countP_congr
  intro x _; rw [h x]

theorem nextLevel_congr {t t' : Trans} (h : TEq t t') (nxt : List Nat) : nextLevel t nxt = nextLevel t' nxt := by
  unfold nextLevel
  apply List.filter_congr
  intro x _; rw [h x]

theorem sorted_nodup {l : List Nat} (h : SSorted l) : l.Nodup :=
  List.Pairwise.imp (fun hab => Nat.ne_of_lt hab) h

/-- `for session in next_level_sessions: session_transitions[session].add(default_session)` in any order -/
theorem addDefault_apply (l : List Nat) : ∀ (t : Trans), l.Nodup → ∀ x,
    addDefault t l x = if x ∈ l then sinsert defaultSession (t x) else t x := by
  induction l with
  | nil => intro t _ x; simp [addDefault]
  | cons a l ih =>
    intro t hn x
    have hn' := List.nodup_cons.1 hn
    show addDefault (add1 t a defaultSession) l x = _
    rw [ih _ hn'.2]
    unfold add1
    rw [upd_apply]
    by_cases hxa : x = a
    · subst hxa; simp [hn'.1]
    · simp [hxa]

/-- a CPython set and the strictly increasing list that stands for it in the oracle model -/
structure SetRel (s : PySet) (l : List Nat) : Prop where
  wf : WF s
  sorted : SSorted l
  mem : ∀ x, x ∈ PySet.toList s ↔ x ∈ l

theorem SetRel.length {s : PySet} {l : List Nat} (h : SetRel s l) : l.length = s.used := by
  rw [← h.wf.length_toList]
  exact ((List.perm_ext_iff_of_nodup (sorted_nodup h.sorted) h.wf.toList_nodup).2 (fun a => (h.mem a).symm)).length_eq

theorem SetRel.nil_iff {s : PySet} {l : List Nat} (h : SetRel s l) : s.used = 0 ↔ l = [] := by
  rw [← h.length]; exact List.length_eq_zero_iff

theorem setRel_empty : SetRel PySet.empty [] :=
  ⟨PySet.wf_empty, List.Pairwise.nil, fun x => by rw [PySet.toList_empty]⟩

theorem nSessions_lt : nSessions < hashModulus := by decide

theorem levelsPy_cont (comb : List Nat) (d : Nat → Thr → Bool) (F : Nat) (t : Trans) (lvl : PySet) (level i : Nat)
    (h : ¬ (nextLevelPy t (levelBodyPy comb d t lvl level i).2.1).used = 0) :
    (levelsPy comb d (F + 1) t lvl level i).2.2.2 =
      PySet.toList lvl :: (levelsPy comb d F (levelBodyPy comb d t lvl level i).1
        (nextLevelPy t (levelBodyPy comb d t lvl level i).2.1) (level + 1)
        (levelBodyPy comb d t lvl level i).2.2).2.2.2 := by
  conv => lhs; unfold levelsPy
  simp only [h, ↓reduceIte]

section sim
variable (comb : List Nat) (d : Nat → Thr → Bool) (hcomb : ∀ x ∈ comb, x < nSessions)
include hcomb

/-- the `for session in level_sessions` loop: both models walk the same sources -/
theorem fold_sim (k : Thr) (srcs : List Nat) : ∀ (t t' : Trans) (nxtPy : PySet) (nxt : List Nat) (i : Nat),
    TEq t t' → SetRel nxtPy nxt → (∀ x ∈ nxt, x ∈ comb) →
    let r := srcs.foldl (levelStepPy comb d k) (t, nxtPy, i)
    let r' := srcs.foldl (levelStep comb d k) (t', nxt, i)
    TEq r.1 r'.1 ∧ SetRel r.2.1 r'.2.1 ∧ (∀ x ∈ r'.2.1, x ∈ comb) ∧ r.2.2 = r'.2.2 := by
  induction srcs with
  | nil => intro t t' nxtPy nxt i h1 h2 h3; exact ⟨h1, h2, h3, rfl⟩
  | cons s ss ih =>
    intro t t' nxtPy nxt i h1 h2 h3
    simp only [List.foldl_cons, levelStepPy, levelStep]
    have htr : ∀ x ∈ drawFilter d k i comb, x < hashModulus := fun x hx =>
      Nat.lt_trans (hcomb x (mem_of_mem_drawFilter hx)) nSessions_lt
    obtain ⟨w, m⟩ := PySet.update_spec (drawFilter d k i comb) h2.wf htr
    exact ih _ _ _ _ _ (addAll_congr h1 _ _)
      ⟨w, sunion_sorted h2.sorted, fun x => by rw [m, mem_sunion, h2.mem]⟩
      (fun x hx => by
        rcases mem_sunion.1 hx with h | h
        · exact h3 x h
        · exact mem_of_mem_drawFilter h)

/-- one pass of the `while` body -/
theorem body_sim (o : Oracles) (hd : o.draw = d) (t t' : Trans) (lvlPy : PySet) (lvl : List Nat) (level i : Nat)
    (ht : TEq t t') (hl : SetRel lvlPy lvl) (hord : o.order level = PySet.toList lvlPy) :
    let b := levelBodyPy comb d t lvlPy level i
    let b' := levelBody comb o t' lvl level i
    TEq b.1 b'.1 ∧ SetRel b.2.1 b'.2.1 ∧ (∀ x ∈ b'.2.1, x ∈ comb) ∧ b.2.2 = b'.2.2 := by
  have hsrcs : (o.order level).filter (fun s => lvl.contains s) = PySet.toList lvlPy := by
    rw [hord]
    apply List.filter_eq_self.2
    intro x hx
    simpa using (hl.mem x).1 hx
  unfold levelBodyPy levelBody
  simp only [hsrcs, hd, hl.length]
  obtain ⟨f1, f2, f3, f4⟩ := fold_sim comb d hcomb (.trans lvlPy.used level) (PySet.toList lvlPy) t t' PySet.empty [] i ht
    setRel_empty (by simp)
  refine ⟨?_, f2, f3, f4⟩
  intro x
  rw [addDefault_apply _ _ f2.wf.toList_nodup, addDefault_apply _ _ (sorted_nodup f2.sorted), f1 x]
  simp only [f2.mem]

/-- `next_level_sessions - set(available_sessions)` -/
theorem nextLevel_sim (t t' : Trans) (nxtPy : PySet) (nxt : List Nat) (ht : TEq t t') (hn : SetRel nxtPy nxt)
    (hsub : ∀ x ∈ nxt, x ∈ comb) : SetRel (nextLevelPy t nxtPy) (nextLevel t' nxt) := by
  have hav : ∀ x ∈ available t, x < hashModulus := fun x hx =>
    Nat.lt_trans (mem_available.1 hx).1 nSessions_lt
  obtain ⟨wa, ma⟩ := PySet.ofList_spec hav
  obtain ⟨w, m⟩ := PySet.difference_spec hn.wf wa
  refine ⟨w, List.Pairwise.filter _ hn.sorted, fun x => ?_⟩
  unfold nextLevelPy nextLevel
  rw [m, ma, hn.mem, List.mem_filter, mem_available, ← ht x]
  constructor
  · rintro ⟨hx, hna⟩
    refine ⟨hx, ?_⟩
    have hlt := hcomb x (hsub x hx)
    simp only [Bool.and_eq_true, decide_eq_true_eq, List.isEmpty_iff]
    refine ⟨hlt, ?_⟩
    apply Classical.byContradiction
    intro hne; exact hna ⟨hlt, hne⟩
  · rintro ⟨hx, hc⟩
    simp only [Bool.and_eq_true, decide_eq_true_eq, List.isEmpty_iff] at hc
    exact ⟨hx, fun h => h.2 hc.2⟩

/-- the `while` loop: with enough fuel, and an oracle that answers with the table orders of the PySet run, both models
    agree on the transitions (index by index), the draw position and the number of passes -/
theorem levels_sim (o : Oracles) (hd : o.draw = d) (F : Nat) : ∀ (t t' : Trans) (lvlPy : PySet) (lvl : List Nat)
    (level i : Nat), TEq t t' → SetRel lvlPy lvl → emptyCount t' < F →
    (∀ k, o.order (level + k) = (levelsPy comb d F t lvlPy level i).2.2.2.getD k []) →
    TEq (levelsPy comb d F t lvlPy level i).1 (levels comb o t' lvl level i).1 ∧
      (levelsPy comb d F t lvlPy level i).2.1 = (levels comb o t' lvl level i).2.1 ∧
      (levelsPy comb d F t lvlPy level i).2.2.1 = (levels comb o t' lvl level i).2.2 := by
  induction F with
  | zero => intro t t' lvlPy lvl level i _ _ h; omega
  | succ F ih =>
    intro t t' lvlPy lvl level i ht hl hF hord
    have hord0 : o.order level = PySet.toList lvlPy := by
      have := hord 0
      simp only [Nat.add_zero] at this
      rw [this]
      unfold levelsPy
      simp only
      split <;> simp
    obtain ⟨b1, b2, b3, b4⟩ := body_sim comb d hcomb o hd t t' lvlPy lvl level i ht hl hord0
    have hnl := nextLevel_sim comb hcomb t t' _ _ ht b2 b3
    rw [levels]
    unfold levelsPy
    simp only
    by_cases hz : (nextLevelPy t (levelBodyPy comb d t lvlPy level i).2.1).used = 0
    · have hz' := hnl.nil_iff.1 hz
      simp only [hz, ↓reduceIte, hz', ↓reduceDIte]
      exact ⟨b1, b4, trivial⟩
    · have hz' : ¬ nextLevel t' (levelBody comb o t' lvl level i).2.1 = [] := fun h => hz (hnl.nil_iff.2 h)
      simp only [hz, ↓reduceIte, hz', ↓reduceDIte]
      have hdec := levelBody_decreases comb o t' lvl level i hz'
      have hrec := ih _ _ _ _ (level + 1) _ b1 hnl (by omega) (by
        intro k
        have := hord (k + 1)
        rw [show level + (k + 1) = level + 1 + k by omega] at this
        rw [this, levelsPy_cont comb d F t lvlPy level i hz, List.getD_cons_succ])
      rw [← b4]
      exact hrec

end sim

theorem mandStep_congr (o o' : Oracles) (hc : o.choice = o'.choice) {t t' : Trans} (h : TEq t t') (c s : Nat) :
    TEq (mandStep o (t, c) s).1 (mandStep o' (t', c) s).1 ∧ (mandStep o (t, c) s).2 = (mandStep o' (t', c) s).2 := by
  unfold mandStep
  simp only [h s, available_congr h, hc]
  split
  · exact ⟨upd_congr (add1_congr h _ _) _ _, rfl⟩
  · exact ⟨h, rfl⟩

theorem mand_fold_congr (o o' : Oracles) (hc : o.choice = o'.choice) (ms : List Nat) : ∀ {t t' : Trans} (c : Nat),
    TEq t t' → TEq (ms.foldl (mandStep o) (t, c)).1 (ms.foldl (mandStep o') (t', c)).1 ∧
      (ms.foldl (mandStep o) (t, c)).2 = (ms.foldl (mandStep o') (t', c)).2 := by
  induction ms with
  | nil => intro t t' c h; exact ⟨h, rfl⟩
  | cons s ss ih =>
    intro t t' c h
    simp only [List.foldl_cons]
    obtain ⟨h1, h2⟩ := mandStep_congr o o' hc h c s
    have e1 : mandStep o (t, c) s = ((mandStep o (t, c) s).1, (mandStep o (t, c) s).2) := rfl
    have e2 : mandStep o' (t', c) s = ((mandStep o' (t', c) s).1, (mandStep o' (t', c) s).2) := rfl
    rw [e1, e2, h2]
    exact ih _ h1

theorem sessionStep_congr (tb : Tables) (p : Params) (d : Nat → Thr → Bool) {t t' : Trans} (h : TEq t t') :
    sessionStep tb p d t = sessionStep tb p d t' := by
  funext st s
  obtain ⟨m, i⟩ := st
  simp only [sessionStep, h s]

theorem emptyCount_le (t : Trans) : emptyCount t ≤ nSessions := by
  unfold emptyCount
  exact Nat.le_trans List.countP_le_length (by simp)

/-- the order oracle that replays the PySet run -/
def pyOracles (tb : Tables) (p : Params) (draw : Nat → Thr → Bool) (choice : Nat → Nat) : Oracles :=
  ⟨draw, choice, fun level => (randomizePyGen tb p draw choice).orders.getD level []⟩

/-- **instance theorem**: the model with CPython's set order computed is the oracle model at one particular oracle -/
theorem randomizePyGen_eq (tb : Tables) (p : Params) (hp : ParamsWF p) (draw : Nat → Thr → Bool) (choice : Nat → Nat) :
    let r := randomizePyGen tb p draw choice
    let r' := randomizeGen tb p (pyOracles tb p draw choice)
    r.model = r'.model ∧ r.draws = r'.draws ∧ r.choices = r'.choices ∧ r.levels = r'.levels := by
  have hinit : SetRel (PySet.ofList [defaultSession]) [defaultSession] := by
    obtain ⟨w, m⟩ := PySet.ofList_spec (xs := [defaultSession]) (by decide)
    exact ⟨w, by simp [SSorted], m⟩
  obtain ⟨l1, l2, l3⟩ := levels_sim (p.mandatorySessions ++ p.optionalSessions) draw hp (pyOracles tb p draw choice) rfl
    (nSessions + 1) initTrans initTrans _ _ 0 0 (TEq.rfl' _) hinit
    (Nat.lt_succ_of_le (emptyCount_le _))
    (fun k => by simp only [Nat.zero_add, pyOracles]; rfl)
  obtain ⟨m1, m2⟩ := mand_fold_congr (noOrder draw choice) (pyOracles tb p draw choice) rfl p.mandatorySessions 0 l1
  simp only [randomizePyGen, randomizeGen, transitions]
  refine ⟨?_, ?_, m2, l3⟩
  · rw [sessionStep_congr tb p draw m1, l2]; rfl
  · rw [sessionStep_congr tb p draw m1, l2]; rfl

end Gallia.Randomize
