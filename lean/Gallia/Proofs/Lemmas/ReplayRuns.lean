import Gallia.Proofs.Lemmas.Replay
/-
  C12 — several complete recordings that the selector all selects (the same ECU name / properties scanned more than once).
-/
namespace Gallia.Replay
open Gallia

/-- a recording: id of its first row, its history (recorded from the default state) -/
abbrev Run := Nat × List Exch

def rowsOfRuns (runs : List Run) : List Row := runs.flatMap fun r => record r.1 St.default r.2

/-- recordings in the order they were made; their id blocks do not overlap (other rows may lie in between) -/
def RunsSorted (runs : List Run) : Prop := runs.Pairwise fun a b => a.1 + a.2.length ≤ b.1

/-- `m` passes of the request sequence `qs`, one after the other -/
def passes (m : Nat) (qs : List Bytes) : List Bytes := (List.replicate m qs).flatten

/-- round robin through the recordings, starting with `cur` (the recordings not yet served in this round) -/
def rr (runs : List Run) : List Run → Nat → List (List Exch)
  | _, 0 => []
  | r :: rest, m + 1 => r.2 :: rr runs rest m
  | [], m + 1 =>
    match runs with
    | [] => []
    | r :: rest => r.2 :: rr runs rest m

theorem passes_succ (m : Nat) (qs : List Bytes) : passes (m + 1) qs = qs ++ passes m qs := by
  simp [passes, List.replicate_succ]

theorem mem_rowsOfRuns {runs : List Run} {r : Row} : r ∈ rowsOfRuns runs ↔ ∃ run ∈ runs, r ∈ record run.1 St.default run.2 := by
  simp [rowsOfRuns, List.mem_flatMap]

theorem rowsOfRuns_append (a b : List Run) : rowsOfRuns (a ++ b) = rowsOfRuns a ++ rowsOfRuns b := by
  simp [rowsOfRuns]

theorem replayAll_cons (rows : List Row) (s : Srv) (q : Bytes) (qs : List Bytes) :
    replayAll rows s (q :: qs) = (replayStep rows s q).2 :: replayAll rows (replayStep rows s q).1 qs := rfl

theorem runSrv_cons (rows : List Row) (s : Srv) (q : Bytes) (qs : List Bytes) :
    runSrv rows s (q :: qs) = runSrv rows (replayStep rows s q).1 qs := rfl

theorem sorted_split {pre : List Run} {run : Run} {post : List Run} (h : RunsSorted (pre ++ run :: post)) :
    (∀ a ∈ pre, a.1 + a.2.length ≤ run.1) ∧ (∀ b ∈ post, run.1 + run.2.length ≤ b.1) := by
  unfold RunsSorted at h
  rw [List.pairwise_append] at h
  obtain ⟨_, h2, h3⟩ := h
  rw [List.pairwise_cons] at h2
  exact ⟨fun a ha => h3 a ha run (by simp), h2.1⟩

/-- one pass positioned in front of `run`: every selected row below it lies at or below the cursor -/
theorem pass_forward (rows : List Row) (huniq : ∀ r ∈ rows, ∀ r' ∈ rows, r.id = r'.id → r = r')
    (pre : List Run) (run : Run) (post : List Run)
    (hsorted : RunsSorted (pre ++ run :: post))
    (hrec : ∀ r ∈ rowsOfRuns (pre ++ run :: post), r ∈ rows)
    (hothers : ∀ r ∈ rows, r ∉ rowsOfRuns (pre ++ run :: post) → r.selected = false)
    (hagree : Agree run.2) (last : Option Nat)
    (hlast : ∀ l, last = some l → l < run.1)
    (hpre : ∀ r ∈ rowsOfRuns pre, ∃ l, last = some l ∧ r.id ≤ l) :
    replayAll rows ⟨St.default, last⟩ (run.2.map (·.req)) = run.2.map (·.resp) ∧
    (run.2 ≠ [] → runSrv rows ⟨St.default, last⟩ (run.2.map (·.req)) =
      ⟨serverFinal St.default run.2, some (run.1 + run.2.length - 1)⟩) := by
  obtain ⟨hs1, hs2⟩ := sorted_split hsorted
  have hrec' : ∀ r ∈ record run.1 St.default run.2, r ∈ rows := fun r hr =>
    hrec r (mem_rowsOfRuns.2 ⟨run, by simp, hr⟩)
  have hwhere : ∀ r ∈ rows, r.selected = true →
      r ∈ rowsOfRuns pre ∨ r ∈ record run.1 St.default run.2 ∨ r ∈ rowsOfRuns post := by
    intro r hr hsel
    by_cases hm : r ∈ rowsOfRuns (pre ++ run :: post)
    · rw [rowsOfRuns_append] at hm
      rcases List.mem_append.1 hm with h | h
      · exact Or.inl h
      · have : rowsOfRuns (run :: post) = record run.1 St.default run.2 ++ rowsOfRuns post := by simp [rowsOfRuns]
        rw [this] at h
        rcases List.mem_append.1 h with h | h
        · exact Or.inr (Or.inl h)
        · exact Or.inr (Or.inr h)
    · have := hothers r hr hm; rw [hsel] at this; cases this
  have hlow : ∀ r ∈ rows, r.selected = true → r.id < run.1 → ∃ l, last = some l ∧ r.id ≤ l := by
    intro r hr hsel hlt
    rcases hwhere r hr hsel with h | h | h
    · exact hpre r h
    · have := (mem_record h).1; omega
    · obtain ⟨b, hb, hrb⟩ := mem_rowsOfRuns.1 h
      have := (mem_record hrb).1; have := hs2 b hb; omega
  have hhigh : ∀ r ∈ rows, r.selected = true → run.1 ≤ r.id →
      r ∈ record run.1 St.default run.2 ∨ run.1 + run.2.length ≤ r.id := by
    intro r hr hsel hge
    rcases hwhere r hr hsel with h | h | h
    · obtain ⟨a, ha, hra⟩ := mem_rowsOfRuns.1 h
      have := (mem_record hra).2.1; have := hs1 a ha; omega
    · exact Or.inl h
    · obtain ⟨b, hb, hrb⟩ := mem_rowsOfRuns.1 h
      have := (mem_record hrb).1; have := hs2 b hb; omega
  refine ⟨replay_suffix_core rows huniq run.2 run.1 St.default last hrec' hlow hlast hhigh hagree, ?_⟩
  intro hne
  have hsrv := replay_suffix_srv_core rows huniq run.2 run.1 St.default last hrec' hlow hlast hagree
  cases hr : runSrv rows ⟨St.default, last⟩ (run.2.map (·.req)) with
  | mk st l =>
    have h1 := hsrv.1; have h2 := hsrv.2 hne
    rw [hr] at h1 h2
    simp only at h1 h2
    subst h1 h2
    rfl


/-- the pass after the last recording: nothing selected lies above the cursor, the query wraps around to the earliest recording -/
theorem pass_wrap (rows : List Row) (huniq : ∀ r ∈ rows, ∀ r' ∈ rows, r.id = r'.id → r = r')
    (run : Run) (post : List Run)
    (hsorted : RunsSorted (run :: post))
    (hrec : ∀ r ∈ rowsOfRuns (run :: post), r ∈ rows)
    (hothers : ∀ r ∈ rows, r ∉ rowsOfRuns (run :: post) → r.selected = false)
    (hagree : Agree run.2) (hne : run.2 ≠ []) (l : Nat)
    (hall : ∀ r ∈ rowsOfRuns (run :: post), r.id ≤ l) :
    replayAll rows ⟨St.default, some l⟩ (run.2.map (·.req)) = run.2.map (·.resp) ∧
    runSrv rows ⟨St.default, some l⟩ (run.2.map (·.req)) =
      ⟨serverFinal St.default run.2, some (run.1 + run.2.length - 1)⟩ := by
  obtain ⟨k, h⟩ := run
  cases h with
  | nil => exact absurd rfl hne
  | cons x xs =>
    have hs2 := (sorted_split (pre := []) hsorted).2
    have hrec' : ∀ r ∈ record k St.default (x :: xs), r ∈ rows := fun r hr =>
      hrec r (mem_rowsOfRuns.2 ⟨(k, x :: xs), by simp, hr⟩)
    have hsel : ∀ r ∈ rows, r.selected = true → r ∈ rowsOfRuns ((k, x :: xs) :: post) := by
      intro r hr hs
      by_cases hm : r ∈ rowsOfRuns ((k, x :: xs) :: post)
      · exact hm
      · have := hothers r hr hm; rw [hs] at this; cases this
    have hrange : ∀ r ∈ rows, r.selected = true → k ≤ r.id ∧ r.id ≤ l := by
      intro r hr hs
      have hm := hsel r hr hs
      refine ⟨?_, hall r hm⟩
      obtain ⟨b, hb, hrb⟩ := mem_rowsOfRuns.1 hm
      have h1 := (mem_record hrb).1
      simp only [List.mem_cons] at hb
      rcases hb with rfl | hb
      · exact h1
      · have := hs2 b hb; simp only at this; omega
    have hwrap := replayStep_wrap rows huniq x xs k St.default l hrec' hrange
    have hhigh : ∀ r ∈ rows, r.selected = true → k + 1 ≤ r.id →
        r ∈ record (k + 1) (clientUpdate St.default x.resp) xs ∨ k + 1 + xs.length ≤ r.id := by
      intro r hr hs hge
      obtain ⟨b, hb, hrb⟩ := mem_rowsOfRuns.1 (hsel r hr hs)
      simp only [List.mem_cons] at hb
      rcases hb with rfl | hb
      · simp only [record_cons, List.mem_cons] at hrb
        rcases hrb with rfl | hrb
        · exact absurd hge (by simp)
        · exact Or.inl hrb
      · have := (mem_record hrb).1; have := hs2 b hb; simp only [List.length_cons] at this; omega
    have hrec2 : ∀ r ∈ record (k + 1) (clientUpdate St.default x.resp) xs, r ∈ rows := fun r hr =>
      hrec' r (by rw [record_cons]; exact List.mem_cons_of_mem _ hr)
    have hlow2 : ∀ r ∈ rows, r.selected = true → r.id < k + 1 → ∃ l', some k = some l' ∧ r.id ≤ l' :=
      fun r _ _ hlt => ⟨k, rfl, by omega⟩
    have hlast2 : ∀ l', some k = some l' → l' < k + 1 := fun l' hl => by injection hl with hl; omega
    cases xs with
    | nil =>
      refine ⟨?_, ?_⟩
      · simp only [List.map_cons, List.map_nil, replayAll_cons, hwrap]; rfl
      · simp only [List.map_cons, List.map_nil, runSrv_cons, hwrap]; rfl
    | cons y ys =>
      have hag := hagree
      unfold Agree at hag
      rw [clientStates_cons, serverStates_cons] at hag
      have htail := (List.cons.inj hag).2
      have hst : clientUpdate St.default x.resp = srvNext St.default x.resp := by
        rw [clientStates_cons, serverStates_cons] at htail
        exact (List.cons.inj htail).1
      have htail' : clientStates (clientUpdate St.default x.resp) (y :: ys) =
          serverStates (clientUpdate St.default x.resp) (y :: ys) := by
        have h' := htail; rw [← hst] at h'; exact h'
      have h1 := replay_suffix_core rows huniq (y :: ys) (k + 1) (clientUpdate St.default x.resp) (some k)
        hrec2 hlow2 hlast2 hhigh htail'
      have h2 := replay_suffix_srv_core rows huniq (y :: ys) (k + 1) (clientUpdate St.default x.resp) (some k)
        hrec2 hlow2 hlast2 htail'
      constructor
      · rw [List.map_cons, replayAll_cons, hwrap]
        show x.resp :: replayAll rows ⟨srvNext St.default x.resp, some k⟩ ((y :: ys).map (·.req)) = _
        rw [← hst, h1]
        rfl
      · rw [List.map_cons, runSrv_cons, hwrap]
        show runSrv rows ⟨srvNext St.default x.resp, some k⟩ ((y :: ys).map (·.req)) = _
        rw [← hst]
        cases hr : runSrv rows ⟨clientUpdate St.default x.resp, some k⟩ ((y :: ys).map (·.req)) with
        | mk st' l' =>
          have a := h2.1; have b := h2.2 (by simp)
          rw [hr] at a b
          simp only at a b
          subst a b
          simp only [serverFinal, hst, List.length_cons]
          congr 2
          omega

/-- `m` passes, the server standing in front of the recordings `post` (those of this round already served: `pre`) -/
theorem passes_from (rows : List Row) (huniq : ∀ r ∈ rows, ∀ r' ∈ rows, r.id = r'.id → r = r')
    (runs : List Run) (hsorted : RunsSorted runs) (hruns : runs ≠ [])
    (hrec : ∀ r ∈ rowsOfRuns runs, r ∈ rows)
    (hothers : ∀ r ∈ rows, r ∉ rowsOfRuns runs → r.selected = false)
    (qs : List Bytes) (hqs : qs ≠ []) (hreq : ∀ run ∈ runs, run.2.map (·.req) = qs)
    (hagree : ∀ run ∈ runs, Agree run.2) (hback : ∀ run ∈ runs, serverFinal St.default run.2 = St.default)
    (m : Nat) (pre post : List Run) (hsplit : runs = pre ++ post) (last : Option Nat)
    (hlast : ∀ run ∈ post.head?, ∀ l, last = some l → l < run.1)
    (hpre : ∀ r ∈ rowsOfRuns pre, ∃ l, last = some l ∧ r.id ≤ l) :
    replayAll rows ⟨St.default, last⟩ (passes m qs) = (rr runs post m).flatMap (·.map (·.resp)) := by
  induction m generalizing pre post last with
  | zero => cases post <;> simp [passes, rr, replayAll]
  | succ m ih =>
    have hlen : ∀ run ∈ runs, run.2 ≠ [] := by
      intro run hr he
      have := hreq run hr
      rw [he] at this
      exact hqs this.symm
    rw [passes_succ, replayAll_append]
    cases post with
    | cons run post' =>
      have hmem : run ∈ runs := by rw [hsplit]; simp
      subst hsplit
      have hp := pass_forward rows huniq pre run post' hsorted hrec hothers (hagree run hmem) last
        (hlast run (by simp)) hpre
      rw [← hreq run hmem, hp.1, hp.2 (hlen run hmem), hback run hmem]
      simp only [rr, List.flatMap_cons]
      congr 1
      rw [hreq run hmem]
      apply ih (pre ++ [run]) post' (by simp)
      · intro nxt hn l hl
        injection hl with hl
        have hs := (sorted_split hsorted).2
        cases post' with
        | nil => simp at hn
        | cons b bs =>
          have hn' : b = nxt := by simpa using hn
          rw [← hn']
          have := hs b (by simp)
          have : run.2.length ≠ 0 := by intro h0; exact hlen run hmem (List.length_eq_zero_iff.1 h0)
          omega
      · intro r hr
        rw [rowsOfRuns_append] at hr
        refine ⟨_, rfl, ?_⟩
        rcases List.mem_append.1 hr with h | h
        · obtain ⟨l, hl, hle⟩ := hpre r h
          have := hlast run (by simp) l hl
          omega
        · have : rowsOfRuns [run] = record run.1 St.default run.2 := by simp [rowsOfRuns]
          rw [this] at h
          have := (mem_record h).2.1
          omega
    | nil =>
      rw [List.append_nil] at hsplit
      subst hsplit
      cases hr0 : runs with
      | nil => exact absurd hr0 hruns
      | cons run rest =>
        have hmem : run ∈ runs := by rw [hr0]; simp
        -- the cursor is a number and every selected row lies at or below it
        obtain ⟨x, xs, hx⟩ : ∃ x xs, run.2 = x :: xs := by
          cases h2 : run.2 with
          | nil => exact absurd h2 (hlen run hmem)
          | cons x xs => exact ⟨x, xs, rfl⟩
        have hrow0 : (⟨run.1, true, St.default, x.req, x.resp⟩ : Row) ∈ rowsOfRuns runs := by
          refine mem_rowsOfRuns.2 ⟨run, hmem, ?_⟩
          rw [hx]; simp [record]
        obtain ⟨l, hl, _⟩ := hpre _ hrow0
        have hall : ∀ r ∈ rowsOfRuns (run :: rest), r.id ≤ l := by
          intro r hr
          rw [← hr0] at hr
          obtain ⟨l', hl', hle⟩ := hpre r hr
          rw [hl] at hl'; injection hl' with hl'; omega
        subst hl
        rw [hr0] at hsorted hrec hothers
        have hp := pass_wrap rows huniq run rest hsorted hrec hothers (hagree run hmem) (hlen run hmem) l hall
        rw [← hreq run hmem, hp.1, hp.2, hback run hmem]
        simp only [rr, List.flatMap_cons]
        congr 1
        rw [hreq run hmem]
        rw [← hr0] at hsorted hrec hothers
        rw [← hr0]
        apply ih [run] rest (by rw [hr0]; rfl)
        · intro nxt hn l' hl'
          injection hl' with hl'
          have hs := (sorted_split (pre := []) (by rw [hr0] at hsorted; exact hsorted)).2
          cases rest with
          | nil => simp at hn
          | cons b bs =>
            have hn' : b = nxt := by simpa using hn
            rw [← hn']
            have := hs b (by simp)
            have : run.2.length ≠ 0 := by intro h0; exact hlen run hmem (List.length_eq_zero_iff.1 h0)
            omega
        · intro r hr
          have : rowsOfRuns [run] = record run.1 St.default run.2 := by simp [rowsOfRuns]
          rw [this] at hr
          have := (mem_record hr).2.1
          exact ⟨_, rfl, by omega⟩

/-- the first pass is served from the earliest recording -/
theorem rr_first (runs : List Run) (run : Run) (rest : List Run) (h : runs = run :: rest) (m : Nat) :
    rr runs runs (m + 1) = run.2 :: rr runs rest m := by
  subst h; rfl


theorem rr_same (runs : List Run) (h : List Exch) (hruns : runs ≠ []) (hsame : ∀ run ∈ runs, run.2 = h)
    (cur : List Run) (hcur : ∀ run ∈ cur, run.2 = h) (m : Nat) : rr runs cur m = List.replicate m h := by
  induction m generalizing cur with
  | zero => cases cur <;> rfl
  | succ m ih =>
    cases cur with
    | cons r rest =>
      simp only [rr, List.replicate_succ]
      rw [hcur r (by simp), ih rest (fun x hx => hcur x (List.mem_cons_of_mem _ hx))]
    | nil =>
      cases hr : runs with
      | nil => exact absurd hr hruns
      | cons r rest =>
        have h1 : r.2 = h := hsame r (by rw [hr]; simp)
        have h2 : ∀ x ∈ rest, x.2 = h := fun x hx => hsame x (by rw [hr]; exact List.mem_cons_of_mem _ hx)
        have := ih rest h2
        simp only [rr, List.replicate_succ]
        rw [hr] at this
        rw [h1, this]


/-- `rr` by index: started in front of `runs.drop j`, pass `p` is served from recording `(j + p) mod k` -/
theorem rr_drop_index (runs : List Run) (hne : runs ≠ []) (m j p : Nat) (hj : j ≤ runs.length) :
    (rr runs (runs.drop j) m)[p]? = if p < m then (runs[(j + p) % runs.length]?).map (·.2) else none := by
  have hk : 0 < runs.length := List.length_pos_iff.2 hne
  induction m generalizing j p with
  | zero => cases h : runs.drop j <;> simp [rr]
  | succ m ih =>
    cases hd : runs.drop j with
    | cons r rest =>
      have hjlt : j < runs.length := by
        rcases Nat.lt_or_ge j runs.length with h | h
        · exact h
        · have : runs.drop j = [] := List.drop_eq_nil_of_le h
          rw [this] at hd; cases hd
      have hr : runs[j]? = some r := by
        have := List.getElem?_drop (xs := runs) (i := j) (j := 0)
        rw [hd] at this; simpa using this.symm
      have hrest : rest = runs.drop (j + 1) := by
        have := List.drop_drop (l := runs) (i := 1) (j := j)
        rw [hd] at this; simpa using this
      simp only [rr]
      cases p with
      | zero => simp [Nat.mod_eq_of_lt hjlt, hr]
      | succ p =>
        rw [List.getElem?_cons_succ, hrest, ih (j + 1) p (by omega)]
        have : j + 1 + p = j + (p + 1) := by omega
        simp [this]
    | nil =>
      have hjk : j = runs.length := by
        have := List.drop_eq_nil_iff.1 hd; omega
      cases hr : runs with
      | nil => exact absurd hr hne
      | cons r rest =>
        simp only [rr]
        subst hjk
        cases p with
        | zero => simp [hr]
        | succ p =>
          have hrest : rest = runs.drop 1 := by rw [hr]; rfl
          rw [List.getElem?_cons_succ]
          have h1 := ih 1 p (by omega)
          rw [← hrest] at h1
          rw [← hr, h1]
          have : (runs.length + (p + 1)) % runs.length = (1 + p) % runs.length := by
            rw [Nat.add_mod_left]; congr 1; omega
          simp [this]


end Gallia.Replay
