import Gallia.Proofs.Lemmas.SessionScanSim
/-
  C09: the ECU families of Model/SessionScanS.lean - which of them have a session graph (`GraphLike`), and the
  transparency of ResponsePending frames.
-/
namespace Gallia.SessionScan

variable {σ : Type}

/-- replies without ResponsePending frames -/
def NoPending (O : Oracle σ) : Prop := ∀ s i w, (O.step s i w).2.pend = 0

/-- the pending frames announce real answers only: no ResponsePending that is followed by silence or by
    busyRepeatRequest (which `request_unsafe` then treats differently: no retransmission of a busy request, 20 s of
    pending loop before an unanswered one is retransmitted) -/
def PendingClean (O : Oracle σ) (pend : σ → Wire → Nat) : Prop :=
  ∀ s i w, pend s w ≠ 0 → (O.step s i w).2.fin ≠ .silent ∧ (O.step s i w).2.fin ≠ .nrc NRC_BUSY

theorem outOf_pending (r : Reply) (p : Nat) (h0 : r.pend = 0) (h : p ≠ 0 → r.fin ≠ .silent ∧ r.fin ≠ .nrc NRC_BUSY) :
    outOf { r with pend := p } = outOf r := by
  by_cases hp : p = 0
  · rw [hp, ← h0]
  · obtain ⟨h1, h2⟩ := h hp
    obtain ⟨pe, fin⟩ := r
    simp only at h0 h1 h2
    subst h0
    unfold outOf
    simp only [hp, if_false, if_true]
    cases fin with
    | pos => rfl
    | silent => exact absurd rfl h1
    | illegal sw => rfl
    | nrc n =>
      have : n ≠ NRC_BUSY := fun hn => h2 (by rw [hn])
      simp [this]

/-- above `request_unsafe` an ECU that announces its answers with ResponsePending frames is the same ECU -/
theorem linkOf_withPending (O : Oracle σ) (pend : σ → Wire → Nat) (h0 : NoPending O) (h : PendingClean O pend) :
    linkOf (withPending O pend) = linkOf O := by
  unfold linkOf withPending
  congr 1
  funext s i w
  simp only
  rw [outOf_pending _ _ (h0 s i w) (h s i w)]

theorem moves_false_of (a : Ans) (h1 : a = .pos → False) (h2 : a = .illegal true → False) : a.moves = false := by
  cases a with
  | illegal sw => cases sw <;> simp_all [Ans.moves]
  | _ => simp_all [Ans.moves]

/-! ### security-locked transitions -/

theorem lockedOracle_graphLike (c : CfgS) (E : Ecu) (locked : Sess → Sess → Bool)
    (hb : c.preHook = [] ∧ c.postHook = []) (hp : 1 ≤ c.pingBudget) :
    GraphLike (linkOf (lockedOracle E locked)) c (lockedGraph E locked) (fun s => s.2 = false) where
  base := hb
  budget := fun _ => by simpa [lockedGraph] using hp
  dsc := by
    intro e i u he
    obtain ⟨p, ul⟩ := e
    simp only at he
    subst he
    simp only [linkOf, lockedOracle, lockedGraph]
    by_cases hl : locked p u = true
    · simp [hl, Ans.moves]
    · simp only [hl, false_and, if_false]
      cases hg : E.g p u with
      | illegal sw => cases sw <;> simp [Ans.moves]
      | _ => simp [Ans.moves]
  reset := by
    intro e i l he
    obtain ⟨p, ul⟩ := e
    simp only at he
    subst he
    simp only [linkOf, lockedOracle, lockedGraph]
    split
    · rename_i hr
      refine ⟨by simp [hr], fun h => absurd hr h, fun _ => ?_⟩
      simp [Booting, outOf, Ans.refused]
    · rename_i hr
      simp [hr, Ans.moves]
    · rename_i h1 h2
      refine ⟨rfl, fun _ => ⟨rfl, ?_⟩, fun h => absurd h h1⟩
      simp [moves_false_of _ h1 h2]

/-! ### the graph ECU as a stateful oracle (base ECU class: never armed) -/

theorem graphOracle_booting (c : Cfg) (E : Ecu) (n : Nat) :
    Booting (linkOf (graphOracle c E)) (fun s => s.armed = false ∧ s.booting = 0) n
      { cur := 1, armed := false, armedFor := none, booting := n } := by
  induction n with
  | zero =>
    refine ⟨rfl, fun _ => ?_⟩
    simp [linkOf, graphOracle, outOf, Ans.refused]
  | succ n ih =>
    refine ⟨rfl, fun _ => ⟨?_, ?_⟩⟩
    · simp [linkOf, graphOracle, outOf]
    · simpa [linkOf, graphOracle] using ih

theorem graphOracle_graphLike (c : CfgS) (E : Ecu) (hb : c.preHook = [] ∧ c.postHook = [])
    (hp : ∀ p, E.boot p + 1 ≤ c.pingBudget) :
    GraphLike (linkOf (graphOracle c.toCfg E)) c E (fun s => s.armed = false ∧ s.booting = 0) where
  base := hb
  budget := hp
  dsc := by
    intro e i u he
    obtain ⟨p, ar, af, bo⟩ := e
    obtain ⟨h1, h2⟩ := he
    simp only at h1 h2
    subst h1 h2
    simp only [linkOf, graphOracle, Bool.false_and, Bool.false_eq_true, if_false]
    split
    · simp_all [Ans.moves]
    · simp_all [Ans.moves]
    · rename_i h1 h2
      simp [moves_false_of _ h1 h2]
  reset := by
    intro e i l he
    obtain ⟨p, ar, af, bo⟩ := e
    obtain ⟨h1, h2⟩ := he
    simp only at h1 h2
    subst h1 h2
    simp only [linkOf, graphOracle]
    split
    · rename_i hr
      refine ⟨by simp [hr], fun h => absurd hr h, fun _ => ?_⟩
      exact graphOracle_booting c.toCfg E (E.boot p)
    · rename_i hr
      simp [hr, Ans.moves]
    · rename_i h1 h2
      refine ⟨rfl, fun _ => ⟨⟨rfl, rfl⟩, ?_⟩, fun h => absurd h h1⟩
      simp [moves_false_of _ h1 h2]

end Gallia.SessionScan
