import Gallia.Proofs.Lemmas.PenlogLine
/-
  C17 helper lemmas, part 3: `readline`, the offset table, navigation by index.
-/
namespace Gallia.Penlog

/-- a line: a newline-free body followed by the terminator -/
def IsLine (l : Bs) : Prop := ∃ body, l = body ++ [NL] ∧ NL ∉ body

theorem takeLine_line (body rest : Bs) (h : NL ∉ body) : takeLine (body ++ NL :: rest) = (body ++ [NL], rest) := by
  induction body with
  | nil => simp [takeLine]
  | cons b body ih =>
    have hb : b ≠ NL := fun e => h (by simp [e])
    have ih' := ih (fun hm => h (by simp [hm]))
    simp [takeLine, hb, ih']

theorem splitLines_line (body rest : Bs) (h : NL ∉ body) :
    splitLines (body ++ NL :: rest) = (body ++ [NL]) :: splitLines rest := by
  induction body with
  | nil => simp [splitLines]
  | cons b body ih =>
    have hb : b ≠ NL := fun e => h (by simp [e])
    have ih' := ih (fun hm => h (by simp [hm]))
    simp [splitLines, hb, ih']

theorem isLine_append (l rest : Bs) (h : IsLine l) : ∃ body, NL ∉ body ∧ l = body ++ [NL] ∧ l ++ rest = body ++ NL :: rest := by
  obtain ⟨body, rfl, hb⟩ := h
  exact ⟨body, hb, rfl, by simp⟩

/-- repeated `readline` over the concatenation of lines returns exactly those lines -/
theorem splitLines_flatten (ls : List Bs) (h : ∀ l ∈ ls, IsLine l) : splitLines ls.flatten = ls := by
  induction ls with
  | nil => simp [splitLines]
  | cons l ls ih =>
    obtain ⟨body, hb, hl, he⟩ := isLine_append l ls.flatten (h l (by simp))
    rw [List.flatten_cons, he, splitLines_line body _ hb, ih (fun x hx => h x (by simp [hx])), ← hl]

theorem offsetsFrom_length (pos : Nat) (ls : List Bs) : (offsetsFrom pos ls).length = ls.length := by
  induction ls generalizing pos with
  | nil => rfl
  | cons l ls ih => simp [offsetsFrom, ih]

/-- `seek(offset); readline()` over the offset table reads every line back -/
theorem readAt_offsetsFrom (pre : Bs) (ls : List Bs) (h : ∀ l ∈ ls, IsLine l) :
    (offsetsFrom pre.length ls).map (readAt (pre ++ ls.flatten)) = ls := by
  induction ls generalizing pre with
  | nil => rfl
  | cons l ls ih =>
    obtain ⟨body, hb, hl, he⟩ := isLine_append l ls.flatten (h l (by simp))
    have ih' := ih (pre ++ l) (fun x hx => h x (by simp [hx]))
    simp only [offsetsFrom, List.map_cons, List.flatten_cons]
    congr 1
    · rw [readAt, List.drop_left, he, takeLine_line body _ hb, hl]
    · rw [List.length_append, List.append_assoc] at ih'
      exact ih'

theorem offsets_length (ls : List Bs) (h : ∀ l ∈ ls, IsLine l) : (offsets ls.flatten).length = ls.length := by
  rw [offsets, splitLines_flatten ls h, offsetsFrom_length]

theorem map_readAt_offsets (ls : List Bs) (h : ∀ l ∈ ls, IsLine l) :
    (offsets ls.flatten).map (readAt ls.flatten) = ls := by
  have := readAt_offsetsFrom [] ls h
  rw [offsets, splitLines_flatten ls h]
  simpa using this

/-- record `i` read through the offset table is the `i`-th line -/
theorem lineAt_flatten (ls : List Bs) (h : ∀ l ∈ ls, IsLine l) (i : Nat) (hi : i < ls.length) :
    lineAt ls.flatten i = ls[i] := by
  have hlen := offsets_length ls h
  have hm := map_readAt_offsets ls h
  have hi' : i < (offsets ls.flatten).length := by omega
  have : ((offsets ls.flatten).map (readAt ls.flatten))[i]'(by simpa using hi') = ls[i] := by
    simp only [hm]
  rw [List.getElem_map] at this
  rw [lineAt, List.getD_eq_getElem?_getD, List.getElem?_eq_getElem hi', Option.getD_some]
  exact this

/-! ### the log file -/

theorem writeLine_isLine (pfx : Bool) (r : Rec) : IsLine (writeLine pfx r) := by
  obtain ⟨body, hb, hp⟩ := writeLine_body pfx r
  exact ⟨body, hb, not_mem_of_printable hp⟩

theorem fileOf_eq (pfx : Bool) (rs : List Rec) : fileOf pfx rs = (rs.map (writeLine pfx)).flatten := by
  simp [fileOf, List.flatMap_def]

theorem lines_isLine (pfx : Bool) (rs : List Rec) : ∀ l ∈ rs.map (writeLine pfx), IsLine l := by
  intro l hl
  obtain ⟨r, _, rfl⟩ := List.mem_map.mp hl
  exact writeLine_isLine pfx r

theorem len_fileOf (pfx : Bool) (rs : List Rec) : (offsets (fileOf pfx rs)).length = rs.length := by
  rw [fileOf_eq, offsets_length _ (lines_isLine pfx rs), List.length_map]

theorem lineAt_fileOf (pfx : Bool) (rs : List Rec) (i : Nat) (hi : i < rs.length) :
    lineAt (fileOf pfx rs) i = writeLine pfx rs[i] := by
  rw [fileOf_eq, lineAt_flatten _ (lines_isLine pfx rs) i (by simpa using hi), List.getElem_map]

/-- the priority test of the filter -/
def keep (p : Nat) (r : Rec) : Bool := decide (r.prio ≤ p)

theorem passes_fileOf (pfx : Bool) (rs : List Rec) (hw : ∀ r ∈ rs, r.WF) (p i : Nat) (hi : i < rs.length) :
    passes (fileOf pfx rs) p i = (rs[i]?).any (keep p) := by
  rw [passes, lineAt_fileOf pfx rs i hi, linePrio_writeLine pfx _ (hw _ (List.getElem_mem hi)),
    List.getElem?_eq_getElem hi]
  simp [keep]

theorem parse_fileOf (pfx : Bool) (rs : List Rec) (hw : ∀ r ∈ rs, r.WF) (i : Nat) (hi : i < rs.length) :
    parseLine (lineAt (fileOf pfx rs) i) = rs[i]? := by
  rw [lineAt_fileOf pfx rs i hi, parseLine_writeLine pfx _ (hw _ (List.getElem_mem hi)), List.getElem?_eq_getElem hi]

theorem map_getElem?_range (rs : List Rec) : (List.range rs.length).map (fun i => rs[i]?) = rs.map some := by
  apply List.ext_getElem
  · simp
  · intro i h1 h2
    simp only [List.getElem_map, List.getElem_range]
    exact List.getElem?_eq_getElem (by simpa using h2)

/-- the core of every navigation theorem: filtering and reading a list of valid indices through the file
    equals filtering the records at those indices -/
theorem nav_core (pfx : Bool) (rs : List Rec) (hw : ∀ r ∈ rs, r.WF) (p : Nat) (is : List Nat)
    (his : ∀ i ∈ is, i < rs.length) :
    (is.filter (passes (fileOf pfx rs) p)).map (fun i => parseLine (lineAt (fileOf pfx rs) i)) =
      (is.map (fun i => rs[i]?)).filter (fun o => o.any (keep p)) := by
  rw [List.filter_map]
  have h1 : is.filter (passes (fileOf pfx rs) p) = is.filter ((fun o : Option Rec => o.any (keep p)) ∘ (fun i => rs[i]?)) :=
    List.filter_congr (fun i hi => by simp [passes_fileOf pfx rs hw p i (his i hi)])
  rw [h1]
  apply List.map_congr_left
  intro i hi
  exact parse_fileOf pfx rs hw i (his i (List.mem_filter.mp hi).1)

theorem filter_any_map_some (p : Nat) (l : List Rec) :
    (l.map some).filter (fun o => o.any (keep p)) = (l.filter (keep p)).map some := by
  rw [List.filter_map]; rfl

end Gallia.Penlog
