import Gallia.Model.Lines
namespace Gallia.Lines
open Gallia Gallia.Framing

theorem unhexDigit_hexDigit : ∀ n, n < 16 → unhexDigitB (hexDigitB n) = some n := by decide
theorem hexDigit_ne_nl : ∀ n, n < 16 → hexDigitB n ≠ NL := by decide
theorem hexDigit_not_ws : ∀ n, n < 16 → isWs (hexDigitB n) = false := by decide

theorem byte_split (b : UInt8) : UInt8.ofNat (b.toNat / 16 * 16 + b.toNat % 16) = b := by
  have : b.toNat / 16 * 16 + b.toNat % 16 = b.toNat := by omega
  rw [this]; simp

theorem unhexB_hexB_append (m : Bytes) : unhexB (hexB m) = some m := by
  induction m with
  | nil => rfl
  | cons b rest ih =>
    have h1 : b.toNat / 16 < 16 := by have := b.toNat_lt; omega
    have h2 : b.toNat % 16 < 16 := by omega
    simp only [hexB, unhexB, unhexDigit_hexDigit _ h1, unhexDigit_hexDigit _ h2, ih, byte_split]

theorem mem_hexB {c : UInt8} {m : Bytes} (h : c ∈ hexB m) : ∃ n, n < 16 ∧ c = hexDigitB n := by
  induction m with
  | nil => simp [hexB] at h
  | cons b rest ih =>
    simp only [hexB, List.mem_cons] at h
    rcases h with h | h | h
    · exact ⟨_, by have := b.toNat_lt; omega, h⟩
    · exact ⟨_, by omega, h⟩
    · exact ih h

theorem nl_not_mem_hexB (m : Bytes) : NL ∉ hexB m := by
  intro h
  obtain ⟨n, hn, e⟩ := mem_hexB h
  exact hexDigit_ne_nl n hn e.symm

theorem dropWhile_id {α} (p : α → Bool) (l : List α) (h : ∀ x ∈ l, p x = false) : l.dropWhile p = l := by
  cases l with
  | nil => rfl
  | cons a t => simp [List.dropWhile, h a (by simp)]

theorem strip_noWs (l : Bytes) (h : ∀ x ∈ l, isWs x = false) : strip l = l := by
  unfold strip
  rw [dropWhile_id _ _ h, dropWhile_id _ _ (by intro x hx; exact h x (by simpa using hx))]
  simp

theorem strip_hexB (m : Bytes) : strip (hexB m) = hexB m := by
  apply strip_noWs
  intro x hx
  obtain ⟨n, hn, e⟩ := mem_hexB hx
  rw [e]; exact hexDigit_not_ws n hn

theorem cutLine_shrinks {buf l rest} (h : cutLine buf = some (l, rest)) : rest.length < buf.length := by
  induction buf generalizing l rest with
  | nil => simp [cutLine] at h
  | cons b t ih =>
    simp only [cutLine] at h
    split at h
    · injection h with h; injection h with h1 h2; subst h2; simp
    · split at h
      · contradiction
      · rename_i l' r' hc
        injection h with h; injection h with h1 h2; subst h2
        have := ih hc; simp; omega

theorem cutLine_mono {a l rest} (b : Bytes) (h : cutLine a = some (l, rest)) :
    cutLine (a ++ b) = some (l, rest ++ b) := by
  induction a generalizing l rest with
  | nil => simp [cutLine] at h
  | cons x t ih =>
    simp only [cutLine, List.cons_append] at h ⊢
    split at h
    · rename_i hx; injection h with h; injection h with h1 h2; subst h1 h2; simp [hx]
    · rename_i hx
      simp only [hx, ite_false]
      split at h
      · contradiction
      · rename_i l' r' hc
        injection h with h; injection h with h1 h2; subst h1 h2
        rw [ih hc]

theorem cutLine_none_iff {buf : Bytes} : cutLine buf = none ↔ NL ∉ buf := by
  induction buf with
  | nil => simp [cutLine]
  | cons b t ih =>
    simp only [cutLine, List.mem_cons]
    by_cases hb : b = NL
    · simp [hb]
    · simp only [hb, ite_false]
      cases hc : cutLine t with
      | none => simp [ih.mp hc, Ne.symm hb]
      | some p =>
        constructor
        · intro h; cases h
        · intro hn
          have := ih.mpr (fun h => hn (Or.inr h))
          rw [hc] at this; contradiction

theorem cutLine_line (l rest : Bytes) (h : NL ∉ l) : cutLine (l ++ NL :: rest) = some (l, rest) := by
  induction l with
  | nil => simp [cutLine]
  | cons b t ih =>
    have hb : b ≠ NL := by intro e; apply h; simp [e]
    have ht : NL ∉ t := by intro e; apply h; simp [e]
    simp [cutLine, hb, ih ht]

/-- the line cutter as an instance of the generic framing interface -/
def lineCutter : Cutter Bytes where
  cut := cutLine
  shrinks := cutLine_shrinks
  mono := cutLine_mono

end Gallia.Lines
