import Gallia.Proofs.Lemmas.UdsReqLayout
/-
  C01: construction with range checks (`mk`) against the declarative range predicate `InRange`
-/
set_option linter.unusedSimpArgs false
namespace Gallia.UdsReq
open Gallia

def bIn (x : Int) (hi : Nat) : Prop := 0 ≤ x ∧ x < (hi : Int)
def allIn (xs : List Int) (hi : Nat) : Prop := ∀ x ∈ xs, 0 ≤ x ∧ x < (hi : Int)

theorem natIn_ok {x : Int} {hi : Nat} (h : bIn x hi) : natIn x hi = .ok x.toNat := by
  unfold natIn; exact if_pos h
theorem natIn_err {x : Int} {hi : Nat} (h : ¬ bIn x hi) : natIn x hi = .error .refused := by
  unfold natIn; exact if_neg h
theorem bIn_toNat {x : Int} {hi : Nat} (h : bIn x hi) : x.toNat < hi := by
  unfold bIn at h; omega
theorem natsIn_ok {xs : List Int} {hi : Nat} (h : allIn xs hi) : natsIn xs hi = .ok (xs.map Int.toNat) := by
  unfold natsIn; exact if_pos h
theorem natsIn_err {xs : List Int} {hi : Nat} (h : ¬ allIn xs hi) : natsIn xs hi = .error .refused := by
  unfold natsIn; exact if_neg h
theorem allIn_toNat {xs : List Int} {hi : Nat} (h : allIn xs hi) : ∀ n ∈ xs.map Int.toNat, n < hi := by
  intro n hn; simp only [List.mem_map] at hn; obtain ⟨x, hx, rfl⟩ := hn; exact bIn_toNat (h x hx)
theorem require_ok {c : Prop} [Decidable c] (h : c) : require c = .ok () := by unfold require; rw [if_pos h]
theorem require_err {c : Prop} [Decidable c] (h : ¬ c) : require c = .error .refused := by unfold require; rw [if_neg h]

@[simp] theorem require_True [inst : Decidable True] : @require True inst = .ok () := by unfold require; simp
@[simp] theorem bind_ok {α β} (a : α) (f : α → Except Err β) : (Except.ok a >>= f) = f a := rfl
@[simp] theorem bind_err {α β} (e : Err) (f : α → Except Err β) : ((Except.error e : Except Err α) >>= f) = .error e := rfl

@[simp] theorem map_ok {α β} (a : α) (f : α → β) : (f <$> (Except.ok a : Except Err α)) = .ok (f a) := rfl
@[simp] theorem map_err {α β} (e : Err) (f : α → β) : (f <$> (Except.error e : Except Err α)) = .error e := rfl


/-- address / size / optional format byte in range -/
def MemIn (addr size : Int) (alfid : Option Int) : Prop :=
  (0 ≤ addr ∧ 0 ≤ size) ∧
  match alfid with
  | some f => bIn f 256 ∧ AlfidOk f.toNat ∧ Fits f.toNat addr.toNat size.toNat
  | none => minBytes addr.toNat ≤ 15 ∧ minBytes size.toNat ≤ 15

theorem mkMem_ok {a s : Int} {f : Option Int} (h : MemIn a s f) :
    ∃ f', mkMem a s f = .ok (a.toNat, s.toNat, f') ∧ AlfidOk f' ∧ Fits f' a.toNat s.toNat := by
  obtain ⟨h0, h1⟩ := h
  cases f with
  | some f =>
    simp only at h1
    exact ⟨f.toNat, by simp [mkMem, require_ok h0, natIn_ok h1.1, require_ok h1.2, pure, Except.pure], h1.2.1, h1.2.2⟩
  | none =>
    simp only at h1
    have := alfidOf_fits a.toNat s.toNat h1.1 h1.2
    exact ⟨alfidOf a.toNat s.toNat, by simp [mkMem, require_ok h0, require_ok h1, pure, Except.pure], this.1, this.2⟩

theorem mkMem_err {a s : Int} {f : Option Int} (h : ¬ MemIn a s f) : mkMem a s f = .error .refused := by
  unfold MemIn at h
  by_cases h0 : 0 ≤ a ∧ 0 ≤ s
  · cases f with
    | some f =>
      by_cases h1 : bIn f 256
      · by_cases h2 : AlfidOk f.toNat ∧ Fits f.toNat a.toNat s.toNat
        · exact absurd ⟨h0, h1, h2⟩ h
        · simp [mkMem, require_ok h0, natIn_ok h1, require_err h2]
      · simp [mkMem, require_ok h0, natIn_err h1]
    | none =>
      by_cases h1 : minBytes a.toNat ≤ 15 ∧ minBytes s.toNat ≤ 15
      · exact absurd ⟨h0, h1⟩ h
      · simp [mkMem, require_ok h0, require_err h1]
  · simp [mkMem, require_err h0]


theorem foldl_max_ge (xs : List Nat) (acc : Nat) : acc ≤ xs.foldl max acc ∧ ∀ x ∈ xs, x ≤ xs.foldl max acc := by
  induction xs generalizing acc with
  | nil => simp
  | cons y ys ih =>
    simp only [List.foldl_cons, List.mem_cons]
    have := ih (max acc y)
    refine ⟨by omega, ?_⟩
    intro x hx
    rcases hx with rfl | hx
    · omega
    · exact this.2 x hx

theorem foldl_max_le (xs : List Nat) (acc b : Nat) (ha : acc ≤ b) (h : ∀ x ∈ xs, x ≤ b) : xs.foldl max acc ≤ b := by
  induction xs generalizing acc with
  | nil => simpa
  | cons y ys ih =>
    simp only [List.foldl_cons]
    exact ih (max acc y) (by have := h y (by simp); omega) (fun x hx => h x (by simp [hx]))

theorem le_listMax {xs : List Nat} {x : Nat} (h : x ∈ xs) : x ≤ listMax xs := (foldl_max_ge xs 0).2 x h
theorem listMax_le {xs : List Nat} {b : Nat} (h : ∀ x ∈ xs, x ≤ b) : listMax xs ≤ b := foldl_max_le xs 0 b (by omega) h

/-- the documented range of the constructor arguments of every request kind -/
def InRange : Args → Prop
  | .dsc ty _ => bIn ty 128
  | .ecuReset ty _ => bIn ty 128
  | .requestSeed l _ _ => bIn l 128 ∧ l.toNat % 2 = 1
  | .sendKey l k _ => bIn l 128 ∧ l.toNat % 2 = 0 ∧ k ≠ []
  | .commCtrl c m _ => bIn c 128 ∧ bIn m 256
  | .testerPresent _ => True
  | .controlDTC t _ _ => bIn t 128
  | .rdbi ds => ds ≠ [] ∧ allIn ds 65536
  | .rmba a s f => MemIn a s f
  | .defineById d ss ps ms _ =>
      bIn d 65536 ∧ (ss.length = ps.length ∧ ss.length = ms.length) ∧ ss ≠ [] ∧ allIn ss 65536 ∧ allIn ps 256 ∧ allIn ms 256
  | .defineByMem d as ss f _ =>
      bIn d 65536 ∧ as.length = ss.length ∧ as ≠ [] ∧ allIn as (256 ^ 15) ∧ allIn ss (256 ^ 15) ∧
      ∀ f', f = some f' → bIn f' 256 ∧ AlfidOk f'.toNat ∧ ∀ g ∈ (as.map Int.toNat).zip (ss.map Int.toNat), Fits f'.toNat g.1 g.2
  | .clearDDDI d _ => ∀ x, d = some x → bIn x 65536
  | .wdbi d r => bIn d 65536 ∧ r ≠ []
  | .wmba a r s f => MemIn a (s.getD r.length) f ∧ r ≠ []
  | .clearDTC g => bIn g (256 ^ 3)
  | .dtcByMask sf m _ => sf ∈ dtcMaskSfs ∧ bIn m 256
  | .dtcPlain sf _ => sf ∈ dtcPlainSfs
  | .dtcExtByNumber d n _ => bIn d (256 ^ 3) ∧ bIn n 256
  | .dtcExtByNumberB d n _ => d.length = 3 ∧ bIn n 256
  | .iocbi d o _ => bIn d 65536 ∧ o ≠ []
  | .iocbiConv p d _ => p < 3 ∧ bIn d 65536
  | .iocbiShortTerm d st _ => bIn d 65536 ∧ st ≠ []
  | .routine sf r _ _ => sf ∈ routineSfs ∧ bIn r 65536
  | .reqDownload a s c e f => bIn c 16 ∧ bIn e 16 ∧ MemIn a s f
  | .reqUpload a s c e f => bIn c 16 ∧ bIn e 16 ∧ MemIn a s f
  | .transferData c _ => bIn c 256
  | .transferExit _ => True
  | .raw _ => True

theorem mk_refuses' (a : Args) (hn : ¬ InRange a) : mk a = .error .refused := by
  cases a with
  | dsc ty sup => simp only [InRange] at hn; simp [mk, natIn_err hn]
  | ecuReset ty sup => simp only [InRange] at hn; simp [mk, natIn_err hn]
  | controlDTC ty r sup => simp only [InRange] at hn; simp [mk, natIn_err hn]
  | clearDTC g => simp only [InRange] at hn; simp [mk, natIn_err hn]
  | transferData c r => simp only [InRange] at hn; simp [mk, natIn_err hn]
  | testerPresent sup => simp [InRange] at hn
  | transferExit r => simp [InRange] at hn
  | raw b => simp [InRange] at hn
  | dtcPlain sf sup => simp only [InRange] at hn; simp [mk, require_err hn]
  | rmba a s f => simp only [InRange] at hn; simp [mk, mkMem_err hn]
  | requestSeed l r sup =>
    simp only [InRange] at hn
    by_cases h1 : bIn l 128
    · by_cases h2 : l.toNat % 2 = 1
      · exact absurd ⟨h1, h2⟩ hn
      · simp [mk, natIn_ok h1, require_err h2]
    · simp [mk, natIn_err h1]
  | sendKey l k sup =>
    simp only [InRange] at hn
    by_cases h1 : bIn l 128
    · by_cases h2 : l.toNat % 2 = 0
      · by_cases h3 : k ≠ []
        · exact absurd ⟨h1, h2, h3⟩ hn
        · simp [mk, natIn_ok h1, require_ok h2, require_err h3]
      · simp [mk, natIn_ok h1, require_err h2]
    · simp [mk, natIn_err h1]
  | commCtrl c m sup =>
    simp only [InRange] at hn
    by_cases h1 : bIn c 128
    · by_cases h2 : bIn m 256
      · exact absurd ⟨h1, h2⟩ hn
      · simp [mk, natIn_ok h1, natIn_err h2]
    · simp [mk, natIn_err h1]
  | rdbi ds =>
    simp only [InRange] at hn
    by_cases h1 : ds ≠ []
    · by_cases h2 : allIn ds 65536
      · exact absurd ⟨h1, h2⟩ hn
      · simp [mk, require_ok h1, natsIn_err h2]
    · simp [mk, require_err h1]
  | wdbi d r =>
    simp only [InRange] at hn
    by_cases h1 : bIn d 65536
    · by_cases h2 : r ≠ []
      · exact absurd ⟨h1, h2⟩ hn
      · simp [mk, natIn_ok h1, require_err h2]
    · simp [mk, natIn_err h1]
  | iocbi d o m =>
    simp only [InRange] at hn
    by_cases h1 : bIn d 65536
    · by_cases h2 : o ≠ []
      · exact absurd ⟨h1, h2⟩ hn
      · simp [mk, natIn_ok h1, require_err h2]
    · simp [mk, natIn_err h1]
  | iocbiShortTerm d st m =>
    simp only [InRange] at hn
    by_cases h1 : bIn d 65536
    · by_cases h2 : st ≠ []
      · exact absurd ⟨h1, h2⟩ hn
      · simp [mk, natIn_ok h1, require_err h2]
    · simp [mk, natIn_err h1]
  | iocbiConv p d m =>
    simp only [InRange] at hn
    by_cases h1 : p < 3
    · by_cases h2 : bIn d 65536
      · exact absurd ⟨h1, h2⟩ hn
      · simp [mk, require_ok h1, natIn_err h2]
    · simp [mk, require_err h1]
  | dtcByMask sf m sup =>
    simp only [InRange] at hn
    by_cases h1 : sf ∈ dtcMaskSfs
    · by_cases h2 : bIn m 256
      · exact absurd ⟨h1, h2⟩ hn
      · simp [mk, require_ok h1, natIn_err h2]
    · simp [mk, require_err h1]
  | routine sf r rec sup =>
    simp only [InRange] at hn
    by_cases h1 : sf ∈ routineSfs
    · by_cases h2 : bIn r 65536
      · exact absurd ⟨h1, h2⟩ hn
      · simp [mk, require_ok h1, natIn_err h2]
    · simp [mk, require_err h1]
  | dtcExtByNumber d n sup =>
    simp only [InRange] at hn
    by_cases h1 : bIn d (256 ^ 3)
    · by_cases h2 : bIn n 256
      · exact absurd ⟨h1, h2⟩ hn
      · simp [mk, natIn_ok h1, natIn_err h2]
    · simp [mk, natIn_err h1]
  | dtcExtByNumberB d n sup =>
    simp only [InRange] at hn
    by_cases h1 : d.length = 3
    · by_cases h2 : bIn n 256
      · exact absurd ⟨h1, h2⟩ hn
      · simp [mk, require_ok h1, natIn_err h2]
    · simp [mk, require_err h1]
  | clearDDDI d sup =>
    cases d with
    | none => simp [InRange] at hn
    | some x =>
      simp only [InRange, Option.some.injEq, forall_eq'] at hn
      simp [mk, natIn_err hn]
  | wmba a r s f =>
    simp only [InRange] at hn
    by_cases h1 : MemIn a (s.getD r.length) f
    · by_cases h2 : r ≠ []
      · exact absurd ⟨h1, h2⟩ hn
      · obtain ⟨f', hf, _⟩ := mkMem_ok h1
        simp [mk, hf, require_err h2]
    · simp [mk, mkMem_err h1]
  | reqDownload a s c e f =>
    simp only [InRange] at hn
    by_cases h1 : bIn c 16
    · by_cases h2 : bIn e 16
      · by_cases h3 : MemIn a s f
        · exact absurd ⟨h1, h2, h3⟩ hn
        · simp [mk, natIn_ok h1, natIn_ok h2, mkMem_err h3]
      · simp [mk, natIn_ok h1, natIn_err h2]
    · simp [mk, natIn_err h1]
  | reqUpload a s c e f =>
    simp only [InRange] at hn
    by_cases h1 : bIn c 16
    · by_cases h2 : bIn e 16
      · by_cases h3 : MemIn a s f
        · exact absurd ⟨h1, h2, h3⟩ hn
        · simp [mk, natIn_ok h1, natIn_ok h2, mkMem_err h3]
      · simp [mk, natIn_ok h1, natIn_err h2]
    · simp [mk, natIn_err h1]
  | defineById d ss ps ms sup =>
    simp only [InRange] at hn
    by_cases h1 : bIn d 65536
    · by_cases h2 : ss.length = ps.length ∧ ss.length = ms.length
      · by_cases h6 : ss ≠ []
        · by_cases h3 : allIn ss 65536
          · by_cases h4 : allIn ps 256
            · by_cases h5 : allIn ms 256
              · exact absurd ⟨h1, h2, h6, h3, h4, h5⟩ hn
              · simp [mk, natIn_ok h1, require_ok h2, require_ok h6, natsIn_ok h3, natsIn_ok h4, natsIn_err h5]
            · simp [mk, natIn_ok h1, require_ok h2, require_ok h6, natsIn_ok h3, natsIn_err h4]
          · simp [mk, natIn_ok h1, require_ok h2, require_ok h6, natsIn_err h3]
        · simp [mk, natIn_ok h1, require_ok h2, require_err h6]
      · simp [mk, natIn_ok h1, require_err h2]
    · simp [mk, natIn_err h1]
  | defineByMem d as ss f sup =>
    simp only [InRange] at hn
    by_cases h1 : bIn d 65536
    · by_cases h2 : as.length = ss.length
      · by_cases h5 : as ≠ []
        · by_cases h3 : allIn as (256 ^ 15)
          · by_cases h4 : allIn ss (256 ^ 15)
            · cases f with
              | none => exact absurd ⟨h1, h2, h5, h3, h4, by simp⟩ hn
              | some f' =>
                by_cases h6 : bIn f' 256
                · by_cases h7 : AlfidOk f'.toNat ∧ ∀ g ∈ (as.map Int.toNat).zip (ss.map Int.toNat), Fits f'.toNat g.1 g.2
                  · refine absurd ⟨h1, h2, h5, h3, h4, ?_⟩ hn
                    intro f'' hf; simp only [Option.some.injEq] at hf; subst hf; exact ⟨h6, h7⟩
                  · simp only [mk, natIn_ok h1, require_ok h2, natsIn_ok h3, natsIn_ok h4, require_ok h5, natIn_ok h6, bind_ok]
                    rw [require_err h7]; rfl
                · simp [mk, natIn_ok h1, require_ok h2, natsIn_ok h3, natsIn_ok h4, require_ok h5, natIn_err h6]
            · simp [mk, natIn_ok h1, require_ok h2, require_ok h5, natsIn_ok h3, natsIn_err h4]
          · simp [mk, natIn_ok h1, require_ok h2, require_ok h5, natsIn_err h3]
        · simp [mk, natIn_ok h1, require_ok h2, require_err h5]
      · simp [mk, natIn_ok h1, require_err h2]
    · simp [mk, natIn_err h1]


theorem fits_mono {f a s al sl : Nat} (ha : a < 256 ^ al) (hs : s < 256 ^ sl) (h1 : al ≤ alLen f) (h2 : sl ≤ slLen f) :
    Fits f a s :=
  ⟨Nat.lt_of_lt_of_le ha (Nat.pow_le_pow_right (by decide) h1), Nat.lt_of_lt_of_le hs (Nat.pow_le_pow_right (by decide) h2)⟩

theorem zip_ne_nil {α β : Type} {l1 : List α} {l2 : List β} (h1 : l1 ≠ []) (h : l1.length = l2.length) : l1.zip l2 ≠ [] := by
  cases l1 with
  | nil => exact absurd rfl h1
  | cons a t =>
    cases l2 with
    | nil => simp at h
    | cons b u => simp

theorem mk_accepts' (a : Args) (h : InRange a) : ∃ r, mk a = .ok r ∧ r.WF := by
  cases a with
  | dsc ty sup => simp only [InRange] at h; simp [mk, natIn_ok h, Req.WF, bIn_toNat h, pure, Except.pure]
  | ecuReset ty sup => simp only [InRange] at h; simp [mk, natIn_ok h, Req.WF, bIn_toNat h, pure, Except.pure]
  | controlDTC ty r sup => simp only [InRange] at h; simp [mk, natIn_ok h, Req.WF, bIn_toNat h, pure, Except.pure]
  | clearDTC g => simp only [InRange] at h; simpa [mk, natIn_ok h, Req.WF, pure, Except.pure] using bIn_toNat h
  | transferData c r => simp only [InRange] at h; simp [mk, natIn_ok h, Req.WF, bIn_toNat h, pure, Except.pure]
  | testerPresent sup => simp [mk, Req.WF, pure, Except.pure]
  | transferExit r => simp [mk, Req.WF, pure, Except.pure]
  | raw b => simp [mk, Req.WF, pure, Except.pure]
  | dtcPlain sf sup => simp only [InRange] at h; simp [mk, require_ok h, Req.WF, h, pure, Except.pure]
  | rmba a s f =>
    simp only [InRange] at h
    obtain ⟨f', hf, hok, hfit⟩ := mkMem_ok h
    simp [mk, hf, Req.WF, hok, hfit, pure, Except.pure]
  | requestSeed l r sup =>
    simp only [InRange] at h
    simp [mk, natIn_ok h.1, require_ok h.2, Req.WF, bIn_toNat h.1, h.2, pure, Except.pure]
  | sendKey l k sup =>
    simp only [InRange] at h
    simp [mk, natIn_ok h.1, require_ok h.2.1, require_ok h.2.2, Req.WF, bIn_toNat h.1, h.2.1, h.2.2, pure, Except.pure]
  | commCtrl c m sup =>
    simp only [InRange] at h
    simp [mk, natIn_ok h.1, natIn_ok h.2, Req.WF, bIn_toNat h.1, bIn_toNat h.2, pure, Except.pure]
  | rdbi ds =>
    simp only [InRange] at h
    have := allIn_toNat h.2
    simp [mk, require_ok h.1, natsIn_ok h.2, Req.WF, h.1, pure, Except.pure]
    simpa using this
  | wdbi d r =>
    simp only [InRange] at h
    simp [mk, natIn_ok h.1, require_ok h.2, Req.WF, bIn_toNat h.1, h.2, pure, Except.pure]
  | iocbi d o m =>
    simp only [InRange] at h
    simp [mk, natIn_ok h.1, require_ok h.2, Req.WF, bIn_toNat h.1, h.2, pure, Except.pure]
  | iocbiShortTerm d st m =>
    simp only [InRange] at h
    simp [mk, natIn_ok h.1, require_ok h.2, Req.WF, bIn_toNat h.1, pure, Except.pure]
  | iocbiConv p d m =>
    simp only [InRange] at h
    simp [mk, require_ok h.1, natIn_ok h.2, Req.WF, bIn_toNat h.2, pure, Except.pure]
  | dtcByMask sf m sup =>
    simp only [InRange] at h
    simp [mk, require_ok h.1, natIn_ok h.2, Req.WF, h.1, bIn_toNat h.2, pure, Except.pure]
  | routine sf r rec sup =>
    simp only [InRange] at h
    simp [mk, require_ok h.1, natIn_ok h.2, Req.WF, h.1, bIn_toNat h.2, pure, Except.pure]
  | dtcExtByNumber d n sup =>
    simp only [InRange] at h
    have := bIn_toNat h.1
    simp [mk, natIn_ok h.1, natIn_ok h.2, Req.WF, bIn_toNat h.2, pure, Except.pure]
    simpa using this
  | dtcExtByNumberB d n sup =>
    simp only [InRange] at h
    have := fromBE_lt d
    rw [h.1] at this
    simp [mk, require_ok h.1, natIn_ok h.2, Req.WF, bIn_toNat h.2, pure, Except.pure]
    simpa using this
  | clearDDDI d sup =>
    cases d with
    | none => simp [mk, Req.WF, pure, Except.pure]
    | some x =>
      simp only [InRange, Option.some.injEq, forall_eq'] at h
      simp [mk, natIn_ok h, Req.WF, bIn_toNat h, pure, Except.pure]
  | wmba a r s f =>
    simp only [InRange] at h
    obtain ⟨f', hf, hok, hfit⟩ := mkMem_ok h.1
    simp [mk, hf, require_ok h.2, Req.WF, hok, hfit, h.2, pure, Except.pure]
  | reqDownload a s c e f =>
    simp only [InRange] at h
    obtain ⟨f', hf, hok, hfit⟩ := mkMem_ok h.2.2
    simp [mk, natIn_ok h.1, natIn_ok h.2.1, hf, Req.WF, bIn_toNat h.1, bIn_toNat h.2.1, hok, hfit, pure, Except.pure]
  | reqUpload a s c e f =>
    simp only [InRange] at h
    obtain ⟨f', hf, hok, hfit⟩ := mkMem_ok h.2.2
    simp [mk, natIn_ok h.1, natIn_ok h.2.1, hf, Req.WF, bIn_toNat h.1, bIn_toNat h.2.1, hok, hfit, pure, Except.pure]
  | defineById d ss ps ms sup =>
    simp only [InRange] at h
    obtain ⟨h1, h2, h6, h3, h4, h5⟩ := h
    refine ⟨.defineById d.toNat ((ss.map Int.toNat).zip ((ps.map Int.toNat).zip (ms.map Int.toNat))) sup, ?_, ?_⟩
    · simp [mk, natIn_ok h1, require_ok h2, require_ok h6, natsIn_ok h3, natsIn_ok h4, natsIn_ok h5, pure, Except.pure]
    · refine ⟨bIn_toNat h1, ?_, ?_⟩
      · exact zip_ne_nil (by simpa using h6) (by simp [List.length_zip, h2.1, h2.2]; omega)
      · intro g hg
        have hg1 := (List.of_mem_zip hg).1
        have hg2 := (List.of_mem_zip hg).2
        have hg3 := (List.of_mem_zip hg2).1
        have hg4 := (List.of_mem_zip hg2).2
        exact ⟨allIn_toNat h3 _ hg1, allIn_toNat h4 _ hg3, allIn_toNat h5 _ hg4⟩
  | defineByMem d as ss f sup =>
    simp only [InRange] at h
    obtain ⟨h1, h2, h5, h3, h4, h6⟩ := h
    have hne : (as.map Int.toNat).zip (ss.map Int.toNat) ≠ [] := zip_ne_nil (by simpa using h5) (by simp [h2])
    cases f with
    | some f' =>
      obtain ⟨h7, h8, h9⟩ := h6 f' rfl
      refine ⟨.defineByMem d.toNat f'.toNat ((as.map Int.toNat).zip (ss.map Int.toNat)) sup, ?_, bIn_toNat h1, h8, hne, h9⟩
      simp only [mk, natIn_ok h1, require_ok h2, natsIn_ok h3, natsIn_ok h4, require_ok h5, natIn_ok h7, bind_ok]
      rw [require_ok ⟨h8, h9⟩]; rfl
    | none =>
      refine ⟨.defineByMem d.toNat (listMax ((ss.map Int.toNat).map minBytes) * 16 + listMax ((as.map Int.toNat).map minBytes))
          ((as.map Int.toNat).zip (ss.map Int.toNat)) sup,
        by simp only [mk, natIn_ok h1, require_ok h2, natsIn_ok h3, natsIn_ok h4, require_ok h5, bind_ok]; rfl,
        bIn_toNat h1, ?_, hne, ?_⟩
      · -- both nibbles are in 1..15
        have hA : ∀ n ∈ (as.map Int.toNat).map minBytes, n ≤ 15 := by
          intro n hn; simp only [List.mem_map] at hn; obtain ⟨m, hm, rfl⟩ := hn
          exact minBytes_min m 15 (by decide) (allIn_toNat h3 m (by simpa using hm))
        have hS : ∀ n ∈ (ss.map Int.toNat).map minBytes, n ≤ 15 := by
          intro n hn; simp only [List.mem_map] at hn; obtain ⟨m, hm, rfl⟩ := hn
          exact minBytes_min m 15 (by decide) (allIn_toNat h4 m (by simpa using hm))
        have uA := listMax_le hA
        have uS := listMax_le hS
        obtain ⟨x, xs, hx⟩ := List.exists_cons_of_ne_nil h5
        have hss : ss ≠ [] := by
          intro hz; subst hz; subst hx; simp at h2
        obtain ⟨y, ys, hy⟩ := List.exists_cons_of_ne_nil hss
        have lA : 1 ≤ listMax ((as.map Int.toNat).map minBytes) :=
          Nat.le_trans (minBytes_pos x.toNat) (le_listMax (by subst hx; simp))
        have lS : 1 ≤ listMax ((ss.map Int.toNat).map minBytes) :=
          Nat.le_trans (minBytes_pos y.toNat) (le_listMax (by subst hy; simp))
        unfold AlfidOk; omega
      · intro g hg
        have hg1 := (List.of_mem_zip hg).1
        have hg2 := (List.of_mem_zip hg).2
        have hA : ∀ n ∈ (as.map Int.toNat).map minBytes, n ≤ 15 := by
          intro n hn; simp only [List.mem_map] at hn; obtain ⟨m, hm, rfl⟩ := hn
          exact minBytes_min m 15 (by decide) (allIn_toNat h3 m (by simpa using hm))
        have uA := listMax_le hA
        have e1 : alLen (listMax ((ss.map Int.toNat).map minBytes) * 16 + listMax ((as.map Int.toNat).map minBytes)) =
            listMax ((as.map Int.toNat).map minBytes) := by unfold alLen; omega
        have e2 : slLen (listMax ((ss.map Int.toNat).map minBytes) * 16 + listMax ((as.map Int.toNat).map minBytes)) =
            listMax ((ss.map Int.toNat).map minBytes) := by unfold slLen; omega
        refine fits_mono (minBytes_spec g.1) (minBytes_spec g.2) ?_ ?_
        · rw [e1]; exact le_listMax (List.mem_map.mpr ⟨g.1, hg1, rfl⟩)
        · rw [e2]; exact le_listMax (List.mem_map.mpr ⟨g.2, hg2, rfl⟩)

end Gallia.UdsReq
