import Gallia.Proofs.Lemmas.Hsfz
/-
  Helper lemmas for C07 (HSFZ): the schedule `settle` between reader task and blocked consumer.
-/
namespace Gallia.Hsfz
open Gallia Gallia.Framing

variable (cfg : Cfg) (yields : Wire → Bool)

/-! ### unfolding `settle` -/

theorem settle_stopped (s : Sys) (h : (s.closed || s.eof) = true) : settle cfg yields s = s := by
  rw [settle.eq_def]; simp [h]

theorem settle_none (s : Sys) (h : (s.closed || s.eof) = false) (hc : cutWire s.buf = none) :
    settle cfg yields s = clientRun cfg s := by
  rw [settle.eq_def, if_neg (by simp [h])]; split
  · rfl
  · rename_i w rest h'; rw [hc] at h'; cases h'

theorem settle_some (s : Sys) (h : (s.closed || s.eof) = false) {w : Wire} {rest : Bytes}
    (hc : cutWire s.buf = some (w, rest)) :
    settle cfg yields s =
      if yields w then settle cfg yields (clientRun cfg (deliver cfg { s with buf := rest } w))
      else settle cfg yields (deliver cfg { s with buf := rest } w) := by
  rw [settle.eq_def, if_neg (by simp [h])]; split
  · rename_i h'; rw [hc] at h'; cases h'
  · rename_i w' rest' h'; rw [hc] at h'; cases h'; rfl

/-! ### fields untouched by the pieces -/

@[simp] theorem deliver_client (s : Sys) (w : Wire) : (deliver cfg s w).client = s.client := by
  unfold deliver; split <;> rfl
@[simp] theorem deliver_done (s : Sys) (w : Wire) : (deliver cfg s w).done = s.done := by
  unfold deliver; split <;> rfl
@[simp] theorem deliver_closed (s : Sys) (w : Wire) : (deliver cfg s w).closed = s.closed := by
  unfold deliver; split <;> rfl
@[simp] theorem deliver_eof (s : Sys) (w : Wire) : (deliver cfg s w).eof = s.eof := by
  unfold deliver; split <;> rfl
@[simp] theorem deliver_now (s : Sys) (w : Wire) : (deliver cfg s w).now = s.now := by
  unfold deliver; split <;> rfl
@[simp] theorem deliver_buf' (s : Sys) (w : Wire) : (deliver cfg s w).buf = s.buf := deliver_buf cfg s w

theorem deliver_queue (s : Sys) (w : Wire) : (deliver cfg s w).queue = s.queue ++ (dispatch w).toItems := by
  unfold deliver; split <;> simp_all [Disp.toItems]

theorem deliver_out (s : Sys) (w : Wire) :
    (deliver cfg s w).out = s.out ++ (if w.cw = cwAlive then [(s.now, aliveReply cfg)] else []) := by
  unfold deliver
  cases hd : dispatch w with
  | alive => simp [(dispatch_alive_iff w).mp hd]
  | enq i =>
    have : ¬ w.cw = cwAlive := fun h => by rw [(dispatch_alive_iff w).mpr h] at hd; cases hd
    simp [this]
  | drop =>
    have : ¬ w.cw = cwAlive := fun h => by rw [(dispatch_alive_iff w).mpr h] at hd; cases hd
    simp [this]

@[simp] theorem clientRun_eof (s : Sys) : (clientRun cfg s).eof = s.eof := by
  unfold clientRun Sys.finish
  split
  · rfl
  · split <;> rfl
  · split <;> rfl
@[simp] theorem clientRun_now (s : Sys) : (clientRun cfg s).now = s.now := by
  unfold clientRun Sys.finish
  split
  · rfl
  · split <;> rfl
  · split <;> rfl
@[simp] theorem clientRun_out (s : Sys) : (clientRun cfg s).out = s.out := by
  unfold clientRun Sys.finish
  split
  · rfl
  · split <;> rfl
  · split <;> rfl
@[simp] theorem clientRun_buf' (s : Sys) : (clientRun cfg s).buf = s.buf := clientRun_buf cfg s

theorem clientRun_idle (s : Sys) (h : s.client = .idle) : clientRun cfg s = s := by
  unfold clientRun; rw [h]

/-- what is on its way to the consumer: queued items and the items of the complete frames still in the buffer -/
def pend (s : Sys) : List Item := s.queue ++ items (parseAll hsfzCutter s.buf).1

theorem pend_none (s : Sys) (hc : cutWire s.buf = none) : pend s = s.queue := by
  unfold pend; rw [parseAll_none hsfzCutter (by simpa [hsfzCutter] using hc)]; simp [items]

theorem pend_deliver (s : Sys) {w : Wire} {rest : Bytes} (hc : cutWire s.buf = some (w, rest)) :
    pend (deliver cfg { s with buf := rest } w) = pend s := by
  unfold pend
  rw [parseAll_some hsfzCutter (buf := s.buf) (by simpa [hsfzCutter] using hc)]
  simp only [deliver_buf', deliver_queue, items_cons, List.append_assoc]

/-! ### a connection with no pending client operation -/

theorem settle_idle (s : Sys) (h : s.client = .idle) :
    (settle cfg yields s).client = .idle ∧ (settle cfg yields s).done = s.done ∧
    (settle cfg yields s).closed = s.closed ∧ (settle cfg yields s).now = s.now := by
  generalize hn : s.buf.length = n
  induction n using Nat.strongRecOn generalizing s with
  | _ n ih =>
    by_cases ho : (s.closed || s.eof) = true
    · rw [settle_stopped cfg yields s ho]; exact ⟨h, rfl, rfl, rfl⟩
    · have ho : (s.closed || s.eof) = false := by simpa using ho
      cases hc : cutWire s.buf with
      | none => rw [settle_none cfg yields s ho hc, clientRun_idle cfg s h]; exact ⟨h, rfl, rfl, rfl⟩
      | some p =>
        obtain ⟨w, rest⟩ := p
        have hl := cutWire_shrinks hc
        have h1 : (deliver cfg { s with buf := rest } w).client = .idle := by simp [h]
        rw [settle_some cfg yields s ho hc]
        split
        · rw [clientRun_idle cfg _ h1]
          have := ih _ (by rw [← hn]; exact hl) (deliver cfg { s with buf := rest } w) h1 (by simp)
          simpa using this
        · have := ih _ (by rw [← hn]; exact hl) (deliver cfg { s with buf := rest } w) h1 (by simp)
          simpa using this

/-! ### one run of the waiting writer -/

theorem clientRun_ack_more {t : Sys} {prev : Bytes} {sk sk' : List Item} {a : Nat} {c : Option Nat}
    (ht : t.client = .ackWait prev sk a c) (hs : scan (ackMatches cfg prev) sk t.queue = .more sk') :
    clientRun cfg t = { t with queue := [], client := .ackWait prev sk' a c } := by
  unfold clientRun; rw [ht]; dsimp only; rw [hs]

theorem clientRun_ack_hit {t : Sys} {prev : Bytes} {sk sk' rest : List Item} {x : Item} {a : Nat} {c : Option Nat}
    (ht : t.client = .ackWait prev sk a c) (hs : scan (ackMatches cfg prev) sk t.queue = .hit x rest sk') :
    clientRun cfg t = { t with queue := sk' ++ rest }.finish (.wrote prev.length) := by
  unfold clientRun; rw [ht]; dsimp only; rw [hs]

theorem clientRun_ack_err {t : Sys} {prev : Bytes} {sk sk' rest : List Item} {cw : Nat} {a : Nat} {c : Option Nat}
    (ht : t.client = .ackWait prev sk a c) (hs : scan (ackMatches cfg prev) sk t.queue = .err cw rest sk') :
    clientRun cfg t = { t with queue := sk' ++ rest, closed := true }.finish (.errWord cw) := by
  unfold clientRun; rw [ht]; dsimp only; rw [hs]

theorem clientRun_read_more {t : Sys} {sk sk' : List Item} {c : Option Nat}
    (ht : t.client = .reading sk c) (hs : scan (dataMatches cfg) sk t.queue = .more sk') :
    clientRun cfg t = { t with queue := [], client := .reading sk' c } := by
  unfold clientRun; rw [ht]; dsimp only; rw [hs]

theorem clientRun_read_hit {t : Sys} {sk sk' rest : List Item} {x : Item} {c : Option Nat}
    (ht : t.client = .reading sk c) (hs : scan (dataMatches cfg) sk t.queue = .hit x rest sk') :
    clientRun cfg t =
      { t with queue := if t.eof then rest else rest ++ sk',
               behind := if t.eof then t.behind ++ sk' else t.behind }.finish (.data x.payload) := by
  unfold clientRun; rw [ht]; dsimp only; rw [hs]

theorem clientRun_read_err {t : Sys} {sk sk' rest : List Item} {cw : Nat} {c : Option Nat}
    (ht : t.client = .reading sk c) (hs : scan (dataMatches cfg) sk t.queue = .err cw rest sk') :
    clientRun cfg t = { t with queue := rest, closed := true }.finish (.errWord cw) := by
  unfold clientRun; rw [ht]; dsimp only; rw [hs]

/-! ### the ack wait under every schedule -/

/-- however the reader task and the waiting writer are interleaved (`yields` arbitrary), the outcome of the ack wait
    is the outcome of scanning everything that is on its way, in arrival order -/
theorem settle_ackWait (s : Sys) (prev : Bytes) (sk : List Item) (a : Nat) (c : Option Nat)
    (ho : (s.closed || s.eof) = false) (hcl : s.client = .ackWait prev sk a c) :
    match scan (ackMatches cfg prev) sk (pend s) with
    | .more sk' => (settle cfg yields s).client = .ackWait prev sk' a c ∧ (settle cfg yields s).queue = [] ∧
        (settle cfg yields s).done = s.done ∧ (settle cfg yields s).closed = false
    | .hit _ _ _ => (settle cfg yields s).client = .idle ∧
        (settle cfg yields s).done = s.done ++ [(s.now, .wrote prev.length)] ∧ (settle cfg yields s).closed = false
    | .err cw _ _ => (settle cfg yields s).client = .idle ∧
        (settle cfg yields s).done = s.done ++ [(s.now, .errWord cw)] ∧ (settle cfg yields s).closed = true := by
  generalize hn : s.buf.length = n
  induction n using Nat.strongRecOn generalizing s sk with
  | _ n ih =>
    have hclosed : s.closed = false := by
      cases hcc : s.closed <;> simp_all
    cases hc : cutWire s.buf with
    | none =>
      rw [settle_none cfg yields s ho hc, pend_none s hc]
      cases hs : scan (ackMatches cfg prev) sk s.queue with
      | more sk' => rw [clientRun_ack_more cfg hcl hs]; simp [hclosed]
      | hit x rest sk' => rw [clientRun_ack_hit cfg hcl hs]; simp [Sys.finish, hclosed]
      | err cw rest sk' => rw [clientRun_ack_err cfg hcl hs]; simp [Sys.finish]
    | some p =>
      obtain ⟨w, rest⟩ := p
      have hl := cutWire_shrinks hc
      let s1 := deliver cfg { s with buf := rest } w
      have hp : pend s1 = pend s := pend_deliver cfg s hc
      have ho1 : (s1.closed || s1.eof) = false := by simpa [s1] using ho
      have hcl1 : s1.client = .ackWait prev sk a c := by simpa [s1] using hcl
      have hb1 : s1.buf.length < n := by simp [s1]; omega
      rw [settle_some cfg yields s ho hc, ← hp]
      by_cases hy : yields w = true
      · -- the reader yields: the writer runs on what is queued so far
        rw [if_pos hy]
        have hsplit : pend s1 = s1.queue ++ items (parseAll hsfzCutter s1.buf).1 := rfl
        rw [hsplit, scan_append]
        cases hs : scan (ackMatches cfg prev) sk s1.queue with
        | more sk' =>
          have hrun := clientRun_ack_more cfg hcl1 hs
          simp only
          have hs2 : pend (clientRun cfg s1) = items (parseAll hsfzCutter s1.buf).1 := by
            rw [hrun]; simp [pend]
          have := ih _ hb1 (clientRun cfg s1) sk' (by rw [hrun]; simpa using ho1) (by rw [hrun]) (by rw [hrun])
          rw [hs2] at this
          have e1 : (clientRun cfg s1).done = s.done := by rw [hrun]; simp [s1]
          have e2 : (clientRun cfg s1).now = s.now := by simp [s1]
          rw [e1, e2] at this
          exact this
        | hit x rest' sk' =>
          have hrun := clientRun_ack_hit cfg hcl1 hs
          simp only
          have hidle : (clientRun cfg s1).client = .idle := by rw [hrun]; rfl
          obtain ⟨i1, i2, i3, _⟩ := settle_idle cfg yields (clientRun cfg s1) hidle
          refine ⟨i1, ?_, ?_⟩
          · rw [i2, hrun]; simp [Sys.finish, s1]
          · rw [i3, hrun]; simpa [Sys.finish, s1] using hclosed
        | err cw rest' sk' =>
          have hrun := clientRun_ack_err cfg hcl1 hs
          simp only
          rw [settle_stopped cfg yields _ (by rw [hrun]; simp [Sys.finish])]
          rw [hrun]; simp [Sys.finish, s1]
      · rw [if_neg hy]
        have := ih _ hb1 s1 sk ho1 hcl1 rfl
        have e1 : s1.done = s.done := by simp [s1]
        have e2 : s1.now = s.now := by simp [s1]
        rw [e1, e2] at this
        exact this

/-! ### writes of the reader task -/

theorem settle_out_prefix (s : Sys) : ∃ more, (settle cfg yields s).out = s.out ++ more := by
  generalize hn : s.buf.length = n
  induction n using Nat.strongRecOn generalizing s with
  | _ n ih =>
    by_cases ho : (s.closed || s.eof) = true
    · rw [settle_stopped cfg yields s ho]; exact ⟨[], by simp⟩
    · have ho : (s.closed || s.eof) = false := by simpa using ho
      cases hc : cutWire s.buf with
      | none => rw [settle_none cfg yields s ho hc]; exact ⟨[], by simp⟩
      | some p =>
        obtain ⟨w, rest⟩ := p
        have hl := cutWire_shrinks hc
        rw [settle_some cfg yields s ho hc]
        split
        · obtain ⟨m, hm⟩ := ih _ (by rw [← hn]; exact hl) (clientRun cfg (deliver cfg { s with buf := rest } w)) (by simp)
          rw [hm, clientRun_out, deliver_out]
          exact ⟨_, by rw [List.append_assoc]⟩
        · obtain ⟨m, hm⟩ := ih _ (by rw [← hn]; exact hl) (deliver cfg { s with buf := rest } w) (by simp)
          rw [hm, deliver_out]
          exact ⟨_, by rw [List.append_assoc]⟩


/-! ### `wake` (end-of-stream marker) touches only the client, the queue and the results -/

@[simp] theorem wake_out (s : Sys) : (wake s).out = s.out := by
  unfold wake Sys.finish; split
  · split <;> rfl
  · rfl

@[simp] theorem wake_buf (s : Sys) : (wake s).buf = s.buf := by
  unfold wake Sys.finish; split
  · split <;> rfl
  · rfl

@[simp] theorem wake_eof (s : Sys) : (wake s).eof = s.eof := by
  unfold wake Sys.finish; split
  · split <;> rfl
  · rfl

@[simp] theorem wake_closed (s : Sys) : (wake s).closed = s.closed := by
  unfold wake Sys.finish; split
  · split <;> rfl
  · rfl

@[simp] theorem wake_now (s : Sys) : (wake s).now = s.now := by
  unfold wake Sys.finish; split
  · split <;> rfl
  · rfl

@[simp] theorem wake_behind (s : Sys) (h : s.eof = false) : (wake s).behind = s.behind := by
  unfold wake; simp [h]

/-- while the stream is alive `wake` does nothing -/
theorem wake_alive (s : Sys) (h : s.eof = false) : wake s = s := by
  unfold wake; simp [h]

end Gallia.Hsfz
