import Gallia.Proofs.Lemmas.Randomize
/-
  C16 helper lemmas, part 2: the result of `randomize` is a well-formed dict of dicts
  (sessions strictly ascending, service keys unique, DSC sub-function lists strictly ascending = `sorted(set)`).
-/
namespace Gallia.Randomize

def SSorted (l : List Nat) : Prop := l.Pairwise (· < ·)

theorem sinsert_sorted {x : Nat} {l : List Nat} (h : SSorted l) : SSorted (sinsert x l) := by
  unfold SSorted at *
  induction l with
  | nil => simp [sinsert]
  | cons y ys ih =>
    rw [List.pairwise_cons] at h
    unfold sinsert
    split
    · rw [List.pairwise_cons]
      refine ⟨?_, List.pairwise_cons.2 h⟩
      intro z hz
      rcases List.mem_cons.1 hz with rfl | hz
      · assumption
      · have := h.1 z hz; omega
    · split
      · exact List.pairwise_cons.2 h
      · rw [List.pairwise_cons]
        refine ⟨?_, ih h.2⟩
        intro z hz
        rcases mem_sinsert.1 hz with rfl | hz
        · omega
        · exact h.1 z hz

theorem sunion_sorted {l xs : List Nat} (h : SSorted l) : SSorted (sunion l xs) := by
  unfold sunion
  induction xs generalizing l with
  | nil => simpa using h
  | cons x xs ih => simp only [List.foldl_cons]; exact ih (sinsert_sorted h)

def TSorted (t : Trans) : Prop := ∀ s, SSorted (t s)

theorem upd_sorted {t : Trans} {s : Nat} {v : List Nat} (ht : TSorted t) (hv : SSorted v) : TSorted (upd t s v) := by
  intro x
  rw [upd_apply]
  split
  · exact hv
  · exact ht x

theorem addAll_sorted {t : Trans} {s : Nat} {xs : List Nat} (ht : TSorted t) : TSorted (addAll t s xs) :=
  upd_sorted ht (sunion_sorted (ht s))

theorem add1_sorted {t : Trans} {s x : Nat} (ht : TSorted t) : TSorted (add1 t s x) :=
  upd_sorted ht (sinsert_sorted (ht s))

theorem fold_sorted (comb d k) (srcs : List Nat) (st : Trans × List Nat × Nat) (h : TSorted st.1) :
    TSorted (srcs.foldl (levelStep comb d k) st).1 := by
  induction srcs generalizing st with
  | nil => simpa using h
  | cons s ss ih =>
    simp only [List.foldl_cons]
    apply ih
    obtain ⟨t, nxt, i⟩ := st
    simp only [levelStep]
    exact addAll_sorted h

theorem addDefault_sorted (t : Trans) (nxt : List Nat) (h : TSorted t) : TSorted (addDefault t nxt) := by
  unfold addDefault
  induction nxt generalizing t with
  | nil => simpa using h
  | cons s ss ih => simp only [List.foldl_cons]; exact ih _ (add1_sorted h)

theorem levelBody_sorted (comb o t lvl level i) (h : TSorted t) : TSorted (levelBody comb o t lvl level i).1 := by
  unfold levelBody
  exact addDefault_sorted _ _ (fold_sorted _ _ _ _ _ h)

theorem levels_sorted (comb o t lvl level i) (h : TSorted t) : TSorted (levels comb o t lvl level i).1 := by
  fun_induction levels comb o t lvl level i with
  | case1 t lvl level i b hn => exact levelBody_sorted comb o t lvl level i h
  | case2 t lvl level i b hn ih => exact ih (levelBody_sorted comb o t lvl level i h)

theorem mandStep_sorted (o : Oracles) (t : Trans) (c s : Nat) (h : TSorted t) : TSorted (mandStep o (t, c) s).1 := by
  unfold mandStep
  by_cases he : (t s).isEmpty
  · simp only [he, if_true]
    exact upd_sorted (add1_sorted h) (by simp [SSorted])
  · simp only [he]
    exact h

theorem mand_fold_sorted (o : Oracles) (ms : List Nat) (st : Trans × Nat) (h : TSorted st.1) :
    TSorted (ms.foldl (mandStep o) st).1 := by
  induction ms generalizing st with
  | nil => simpa using h
  | cons s ss ih =>
    simp only [List.foldl_cons]
    obtain ⟨t, c⟩ := st
    exact ih _ (mandStep_sorted o t c s h)

theorem initTrans_sorted : TSorted initTrans := by
  intro x
  rw [initTrans_apply]
  split <;> simp [SSorted]

theorem transitions_sorted (p : Params) (o : Oracles) : TSorted (transitions p o).1 := by
  unfold transitions
  simp only
  exact mand_fold_sorted o _ _ (levels_sorted _ _ _ _ _ _ initTrans_sorted)

/-! ### keys -/

theorem dictSet_keys (m : SvcMap) (k : Nat) (v : Option (List Nat)) :
    (dictSet m k v).map (·.1) = if k ∈ m.map (·.1) then m.map (·.1) else m.map (·.1) ++ [k] := by
  induction m with
  | nil => simp [dictSet]
  | cons e rest ih =>
    obtain ⟨a, b⟩ := e
    unfold dictSet
    by_cases h : a = k
    · simp [h]
    · have h' : ¬ k = a := fun e => h e.symm
      simp only [h, if_false, List.map_cons, ih, List.mem_cons, h', false_or]
      split <;> simp

theorem dictSet_nodup {m : SvcMap} {k : Nat} {v : Option (List Nat)} (h : (m.map (·.1)).Nodup) :
    ((dictSet m k v).map (·.1)).Nodup := by
  rw [dictSet_keys]
  split
  · exact h
  · rename_i hk
    rw [List.nodup_append]
    refine ⟨h, by simp, ?_⟩
    intro a ha b hb
    simp at hb
    subst hb
    intro e; subst e; exact hk ha

theorem svc_fold_nodup (tb d trans) (svcs : List Nat) (st : SvcMap × Nat) (h : (st.1.map (·.1)).Nodup) :
    (((svcs.foldl (svcStep tb d trans) st).1).map (·.1)).Nodup := by
  induction svcs generalizing st with
  | nil => simpa using h
  | cons a ss ih =>
    simp only [List.foldl_cons]
    apply ih
    obtain ⟨m, i⟩ := st
    simp only [svcStep]
    exact dictSet_nodup h

theorem svcMapOf_nodup (tb p d t s i) : ((svcMapOf tb p d t s i).map (·.1)).Nodup :=
  svc_fold_nodup tb d (t s) _ _ (by simp)

theorem session_fold_keys (tb p d t) (ss : List Nat) (st : Model × Nat) :
    ((ss.foldl (sessionStep tb p d t) st).1).map (·.1) = st.1.map (·.1) ++ ss.filter (fun s => !(t s).isEmpty) := by
  induction ss generalizing st with
  | nil => simp
  | cons a rest ih =>
    simp only [List.foldl_cons]
    rw [ih]
    obtain ⟨m, i⟩ := st
    unfold sessionStep
    by_cases he : (t a).isEmpty
    · simp [he]
    · simp [he]

theorem model_keys (tb : Tables) (p : Params) (o : Oracles) :
    (randomizeGen tb p o).model.map (·.1) =
      (List.range nSessions).filter (fun s => !((transitions p o).1 s).isEmpty) := by
  unfold randomizeGen
  simp only
  rw [session_fold_keys]
  simp

end Gallia.Randomize
