import Gallia.Proofs.Lemmas.PenlogLine
import Gallia.Model.PenlogSchema
/-
  C17 helper lemmas, part 4: `isoformat` is inverted by the port of `fromisoformat`.
-/
namespace Gallia.Penlog

theorem isDigit_add (k : Nat) (h : k < 10) : isDigit (48 + k) = true := by
  simp [isDigit]; omega

@[simp] theorem twoDigits_cons2 (n : Nat) (h : n < 100) (r : Str) :
    twoDigits ((48 + n / 10 % 10) :: (48 + n % 10) :: r) = some (n, r) := by
  have h1 := isDigit_add (n / 10 % 10) (by omega)
  have h2 := isDigit_add (n % 10) (by omega)
  simp only [twoDigits, h1, h2, Bool.and_self, if_true]
  congr 2
  omega

theorem twoDigits_digits (x y : Nat) (hx : x < 10) (hy : y < 10) (r : Str) :
    twoDigits ((48 + x) :: (48 + y) :: r) = some (x * 10 + y, r) := by
  have h1 := isDigit_add x hx
  have h2 := isDigit_add y hy
  simp only [twoDigits, h1, h2, Bool.and_self, if_true]
  congr 2
  omega

theorem fourDigits_cons4 (n : Nat) (h : n < 10000) (r : Str) :
    fourDigits ((48 + n / 1000 % 10) :: (48 + n / 100 % 10) :: (48 + n / 10 % 10) :: (48 + n % 10) :: r) = some (n, r) := by
  have h1 := isDigit_add (n / 1000 % 10) (by omega)
  have h2 := isDigit_add (n / 100 % 10) (by omega)
  have h3 := isDigit_add (n / 10 % 10) (by omega)
  have h4 := isDigit_add (n % 10) (by omega)
  simp only [fourDigits, h1, h2, h3, h4, Bool.and_self, if_true]
  congr 2
  omega

theorem pad6_digits (n : Nat) : (pad6 n).all isDigit = true := by
  simp only [pad6, List.all_cons, List.all_nil, Bool.and_true, Bool.and_eq_true]
  refine ⟨isDigit_add _ (by omega), isDigit_add _ (by omega), isDigit_add _ (by omega), isDigit_add _ (by omega),
    isDigit_add _ (by omega), isDigit_add _ (by omega)⟩

theorem digitsVal_pad6 (n : Nat) (h : n < 1000000) : digitsVal (pad6 n) = n := by
  simp only [pad6, digitsVal, List.foldl_cons, List.foldl_nil]
  omega

/-- the fraction written for a non-zero microsecond count reads back as that count -/
theorem fracPart_pad6 (n : Nat) (h : n < 1000000) (next : Option Nat) :
    fracPart (pad6 n) next = some (n, next.isSome) := by
  have hl : (pad6 n).length = 6 := rfl
  have hd := pad6_digits n
  simp only [fracPart, hl, Nat.min_self, List.take_of_length_le (Nat.le_of_eq hl), hd, if_true,
    List.drop_of_length_le (Nat.le_of_eq hl), List.dropWhile_nil, List.isEmpty_nil, Bool.not_true, Bool.false_or,
    digitsVal_pad6 n h]
  simp

/-- the fraction of `isoformat` -/
def fracStr (us : Nat) : Str := if us = 0 then [] else 46 :: pad6 us

/-- `HH:MM:SS[.ffffff]` as written parses back, whatever character follows -/
theorem hhmmssff_time (h mi s us : Nat) (hh : h < 100) (hmi : mi < 100) (hs : s < 100) (hus : us < 1000000)
    (next : Option Nat) :
    hhmmssff (pad2 h ++ (58 :: (pad2 mi ++ (58 :: (pad2 s ++ fracStr us))))) next =
      some { h := h, m := mi, s := s, us := us, trail := next.isSome } := by
  by_cases h0 : us = 0
  · subst h0
    simp [hhmmssff, hmsLoop, pad2, fracStr, twoDigits_cons2 _ hh, twoDigits_cons2 _ hmi, twoDigits_cons2 _ hs]
  · have hf := fracPart_pad6 us hus next
    have hp : pad6 us = (48 + us / 100000 % 10) :: (48 + us / 10000 % 10) :: (48 + us / 1000 % 10) ::
        (48 + us / 100 % 10) :: (48 + us / 10 % 10) :: [48 + us % 10] := rfl
    rw [hp] at hf
    simp [hhmmssff, hmsLoop, pad2, fracStr, h0, pad6, twoDigits_cons2 _ hh, twoDigits_cons2 _ hmi, twoDigits_cons2 _ hs, hf]

/-- the digits of a UTC offset `a` seconds: `HH:MM[:SS]` -/
def offBody (a : Nat) : Str :=
  pad2 (a / 3600) ++ (58 :: (pad2 (a / 60 % 60) ++ (if a % 60 = 0 then [] else 58 :: pad2 (a % 60))))

theorem hhmmssff_off (a : Nat) (ha : a < 86400) :
    hhmmssff (offBody a) none = some { h := a / 3600, m := a / 60 % 60, s := a % 60, us := 0, trail := false } := by
  by_cases h0 : a % 60 = 0
  · simp (disch := omega) [hhmmssff, hmsLoop, offBody, pad2, h0, twoDigits_digits]
    simp
    omega
  · simp (disch := omega) [hhmmssff, hmsLoop, offBody, pad2, h0, twoDigits_digits]
    simp
    omega

theorem offStr_some (o : Int) :
    offStr (some o) = (if o < 0 then 45 else 43) :: offBody o.natAbs := by
  simp [offStr, offBody]

/-- no character of the written time is a time-zone character -/
theorem timeStr_noTz (h mi s us : Nat) :
    ∀ c ∈ pad2 h ++ (58 :: (pad2 mi ++ (58 :: (pad2 s ++ fracStr us)))), (!isTzChar c) = true := by
  intro c hc
  have hd : ∀ k, k < 10 → (!isTzChar (48 + k)) = true := by
    intro k hk
    simp [isTzChar]; omega
  simp only [pad2, fracStr, pad6, List.cons_append, List.nil_append, List.mem_cons, List.mem_append] at hc
  split at hc
  · simp only [List.not_mem_nil, or_false] at hc
    rcases hc with rfl | rfl | rfl | rfl | rfl | rfl | rfl | rfl
    all_goals first | exact hd _ (by omega) | decide
  · simp only [List.mem_cons, List.not_mem_nil, or_false] at hc
    rcases hc with rfl | rfl | rfl | rfl | rfl | rfl | rfl | rfl | rfl | rfl | rfl | rfl | rfl | rfl | rfl
    all_goals first | exact hd _ (by omega) | decide

theorem offStr_head (off : Option Int) : ∀ c ∈ (offStr off).head?, (!isTzChar c) = false := by
  intro c hc
  cases off with
  | none => simp [offStr] at hc
  | some o =>
    rw [offStr_some] at hc
    simp only [List.head?_cons, Option.mem_def, Option.some.injEq] at hc
    subst hc
    split <;> decide

theorem takeWhile_split {p : Nat → Bool} (a b : Str) (ha : ∀ c ∈ a, p c = true) (hb : ∀ c ∈ b.head?, p c = false) :
    (a ++ b).takeWhile p = a ∧ (a ++ b).dropWhile p = b := by
  rw [takeWhile_append_all a b ha, dropWhile_append_all a b ha]
  cases b with
  | nil => simp
  | cons x xs =>
    have := hb x (by simp)
    simp [this]

/-- the time part of `isoformat` parses back -/
theorem parseIsoTime_written (d : DT) (hv : d.Valid) :
    parseIsoTime d.year d.month d.day
      (pad2 d.hour ++ (58 :: (pad2 d.minute ++ (58 :: (pad2 d.second ++ ((if d.micro = 0 then [] else 46 :: pad6 d.micro) ++ offStr d.off)))))) =
      .ok d := by
  obtain ⟨_, _, _, _, _, _, hh, hmi, hs, hus, hoff⟩ := hv
  have e : pad2 d.hour ++ (58 :: (pad2 d.minute ++ (58 :: (pad2 d.second ++ ((if d.micro = 0 then [] else 46 :: pad6 d.micro) ++ offStr d.off))))) =
      (pad2 d.hour ++ (58 :: (pad2 d.minute ++ (58 :: (pad2 d.second ++ fracStr d.micro))))) ++ offStr d.off := by
    simp [fracStr]
  obtain ⟨ht, hd⟩ := takeWhile_split (p := fun c => !isTzChar c) _ (offStr d.off)
    (timeStr_noTz d.hour d.minute d.second d.micro) (offStr_head d.off)
  have hv' : d.Valid := ⟨by assumption, by assumption, by assumption, by assumption, by assumption, by assumption, hh, hmi, hs, hus, hoff⟩
  rw [e]
  unfold parseIsoTime
  simp only [ht, hd]
  rw [hhmmssff_time d.hour d.minute d.second d.micro (by omega) (by omega) (by omega) hus]
  cases hof : d.off with
  | none =>
    have : d = { year := d.year, month := d.month, day := d.day, hour := d.hour, minute := d.minute, second := d.second,
                 micro := d.micro, off := none } := by cases d; simp_all
    simp only [offStr, List.head?_nil, Option.isSome_none]
    simp only [mkDT]
    rw [← this]
    simp [hv']
  | some o =>
    have ho := hoff o (by simp [hof])
    have ha : o.natAbs < 86400 := by omega
    rw [offStr_some]
    simp only [List.head?_cons, Option.isSome_some]
    have hc : (if o < 0 then (45 : Nat) else 43) ≠ 90 := by split <;> decide
    simp only [hc, if_false]
    rw [hhmmssff_off o.natAbs ha]
    simp only [Bool.false_eq_true, if_false, ne_eq, not_true_eq_false]
    have hsecs : ((o.natAbs / 3600 * 3600 + o.natAbs / 60 % 60 * 60 + o.natAbs % 60 : Nat) : Int) = (o.natAbs : Int) := by
      congr 1; omega
    have hoffv : (if (if o < 0 then (45 : Nat) else 43) = 45 then -((o.natAbs / 3600 * 3600 + o.natAbs / 60 % 60 * 60 + o.natAbs % 60 : Nat) : Int)
        else ((o.natAbs / 3600 * 3600 + o.natAbs / 60 % 60 * 60 + o.natAbs % 60 : Nat) : Int)) = o := by
      rw [hsecs]
      by_cases hneg : o < 0
      · simp [hneg]; omega
      · simp [hneg]; omega
    have : d = { year := d.year, month := d.month, day := d.day, hour := d.hour, minute := d.minute, second := d.second,
                 micro := d.micro, off := some o } := by cases d; simp_all
    simp only [mkDT, hoffv]
    rw [← this]
    simp [hv']

/-- `fromisoformat(d.isoformat()) == d` for every valid datetime, aware (any whole-second offset) or naive -/
theorem parseIso_isoformat (d : DT) (hv : d.Valid) : parseIso (isoformat d) = .ok d := by
  have hy : d.year < 10000 := by have := hv.2.1; omega
  have hm : d.month < 100 := by have := hv.2.2.2.1; omega
  have hdim : daysIn d.year d.month ≤ 31 := by unfold daysIn; split <;> (try split) <;> omega
  have hd : d.day < 100 := by have := hv.2.2.2.2.2.1; omega
  have ht := parseIsoTime_written d hv
  have e : isoformat d = (48 + d.year / 1000 % 10) :: (48 + d.year / 100 % 10) :: (48 + d.year / 10 % 10) :: (48 + d.year % 10) :: 45 ::
      (48 + d.month / 10 % 10) :: (48 + d.month % 10) :: 45 :: (48 + d.day / 10 % 10) :: (48 + d.day % 10) :: 84 ::
      (pad2 d.hour ++ (58 :: (pad2 d.minute ++ (58 :: (pad2 d.second ++
        ((if d.micro = 0 then [] else 46 :: pad6 d.micro) ++ offStr d.off)))))) := by
    simp [isoformat, pad4, pad2]
  rw [e]
  unfold parseIso
  have hlen : ∀ (t : Str) (a0 a1 a2 a3 a4 a5 a6 a7 a8 a9 a10 : Nat),
      ¬ ((a0 :: a1 :: a2 :: a3 :: a4 :: a5 :: a6 :: a7 :: a8 :: a9 :: a10 :: t).length < 7) := by
    intro t; intros; simp only [List.length_cons]; omega
  have h87 : ¬ (48 + d.month / 10 % 10 = 87) := by omega
  simp only [hlen, if_false, List.getD_cons_succ, List.getD_cons_zero, ne_eq, not_true_eq_false, h87, or_self]
  rw [fourDigits_cons4 d.year hy]
  simp only [twoDigits_cons2 _ hm, twoDigits_cons2 _ hd]
  exact ht

end Gallia.Penlog
