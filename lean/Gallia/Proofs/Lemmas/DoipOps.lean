import Gallia.Proofs.Lemmas.DoipWait
/-
  Helper lemmas for C06: the client calls (`opRead`, `opWrite`, `opIdle`, `opConnect`) expressed through the wait
  rule `waitRef` on "what is queued plus what becomes visible before the deadline".
-/
namespace Gallia.Doip
open Gallia Gallia.Framing Gallia.DoipFifo

theorem NoDeath_of_append {a b : List Ev} (h : NoDeath (a ++ b)) : NoDeath b :=
  fun e he => h e (by simp [he])

/-- queue after a call, by what the consumer got -/
def QueueAfter (p : Frame → Bool) (r : WaitRes) (before after : List Frame) : Prop :=
  match r with
  | .got f => ∃ pre post, before = pre ++ f :: post ∧ p f = true ∧ (∀ y ∈ pre, p y = false) ∧ after = pre ++ post
  | .timeout => after = before
  | .conn => False

/-- everything a `wait`-based call needs: result, open connection, written bytes, queue, completion time -/
theorem wait_finish (c : Cfg) (p : Frame → Bool) (d : Nat) (s : St) (evs : List Ev) (rd' : Reader) (tEnd : Nat)
    (hc : s.closed = false) (hd : NoDeath evs) :
    (wait c p d s evs).1 = waitRef p (s.queue ++ visible d evs) ∧
    ((wait c p d s evs).2.1.finish c (wait c p d s evs).2.2 rd' tEnd).closed = false ∧
    ((wait c p d s evs).2.1.finish c (wait c p d s evs).2.2 rd' tEnd).out = s.out ++ outOf c evs ∧
    QueueAfter p (wait c p d s evs).1 (s.queue ++ allFrames evs)
      ((wait c p d s evs).2.1.finish c (wait c p d s evs).2.2 rd' tEnd).queue := by
  obtain ⟨w1, w2, w3⟩ := wait_spec c p d s evs hc hd
  obtain ⟨tk, t1, _, _⟩ := wait_taken c p d s evs
  have hdr : NoDeath (wait c p d s evs).2.2 := NoDeath_of_append (t1 ▸ hd)
  obtain ⟨f1, f2, f3⟩ := finish_open c (wait c p d s evs).2.1 (wait c p d s evs).2.2 rd' tEnd w2 hdr
  refine ⟨w1, f3, by rw [f2, wait_out], ?_⟩
  rw [f1]
  unfold QueueAfter
  generalize (wait c p d s evs).1 = r at w3 ⊢
  cases r with
  | got f => exact w3
  | timeout => exact w3
  | conn => exact w3

/-! ### read -/

theorem opRead_spec (c : Cfg) (s : St) (tmo : Nat) (arr : List (Nat × Bytes)) (hc : s.closed = false)
    (hd : NoDeath (timeline s arr)) :
    (opRead c s tmo arr).1 =
      readRes (waitRef (isDiagFor c) (s.queue ++ visible (s.now + tmo) (timeline s arr))) ∧
    (opRead c s tmo arr).2.2.closed = false ∧
    (opRead c s tmo arr).2.2.out = s.out ++ outOf c (timeline s arr) ∧
    QueueAfter (isDiagFor c) (waitRef (isDiagFor c) (s.queue ++ visible (s.now + tmo) (timeline s arr)))
      (s.queue ++ allFrames (timeline s arr)) (opRead c s tmo arr).2.2.queue := by
  obtain ⟨r1, _, r3⟩ := runOp_res c s arr (readBody c tmo)
  unfold opRead
  rw [r1, r3, readBody_eq]
  obtain ⟨h1, h2, h3, h4⟩ := wait_finish c (isDiagFor c) (s.now + tmo) s (timeline s arr)
    (s.rd.run (shift s.now arr)).1 (lastT s.now arr) hc hd
  exact ⟨by rw [h1], h2, h3, h1 ▸ h4⟩

theorem opRead_time (c : Cfg) (s : St) (tmo : Nat) (arr : List (Nat × Bytes)) :
    (opRead c s tmo arr).2.1 ≤ s.now + tmo := by
  obtain ⟨_, r2, _⟩ := runOp_res c s arr (readBody c tmo)
  unfold opRead
  rw [r2, readBody_eq]
  exact wait_now c _ _ s _ (by omega)

/-! ### idle -/

theorem opIdle_spec (c : Cfg) (s : St) (arr : List (Nat × Bytes)) (hc : s.closed = false)
    (hd : NoDeath (timeline s arr)) :
    (opIdle c s arr).2.2.closed = false ∧
    (opIdle c s arr).2.2.out = s.out ++ outOf c (timeline s arr) ∧
    (opIdle c s arr).2.2.queue = s.queue ++ allFrames (timeline s arr) := by
  obtain ⟨_, _, r3⟩ := runOp_res c s arr idleBody
  unfold opIdle
  rw [r3]
  obtain ⟨f1, f2, f3⟩ := finish_open c s (timeline s arr) (s.rd.run (shift s.now arr)).1 (lastT s.now arr) hc hd
  exact ⟨f3, f2, f1⟩

/-! ### write -/

theorem finish_writeSt_open (c : Cfg) (tmo : Nat) (r : WaitRes) (s1 : St) (rest : List Ev) (rd' : Reader) (tEnd : Nat)
    (h : ¬ (r = .timeout ∧ ¬ tmo ≤ ackTimeoutMs)) :
    (writeSt tmo r s1).finish c rest rd' tEnd = s1.finish c rest rd' tEnd := by
  unfold writeSt; rw [if_neg h]

theorem finish_writeSt_closed (c : Cfg) (tmo : Nat) (r : WaitRes) (s1 : St) (rest : List Ev) (rd' : Reader) (tEnd : Nat)
    (h : r = .timeout ∧ ¬ tmo ≤ ackTimeoutMs) :
    ((writeSt tmo r s1).finish c rest rd' tEnd).closed = true ∧
    ((writeSt tmo r s1).finish c rest rd' tEnd).out = s1.out := by
  unfold writeSt; rw [if_pos h]; simp [St.finish]

theorem opWrite_spec (c : Cfg) (s : St) (data : Bytes) (tmo : Nat) (arr : List (Nat × Bytes))
    (hc : s.closed = false) (hd : NoDeath (timeline s arr)) :
    (opWrite c s data tmo arr).1 =
      writeRes tmo (waitRef (ackMatch c data) (s.queue ++ visible (s.now + min tmo ackTimeoutMs) (timeline s arr))) ∧
    (opWrite c s data tmo arr).2.1 ≤ s.now + min tmo ackTimeoutMs ∧
    ((opWrite c s data tmo arr).2.2.closed = true ↔
      (waitRef (ackMatch c data) (s.queue ++ visible (s.now + min tmo ackTimeoutMs) (timeline s arr)) = .timeout
        ∧ ¬ tmo ≤ ackTimeoutMs)) ∧
    ((opWrite c s data tmo arr).2.2.closed = false →
      (opWrite c s data tmo arr).2.2.out = s.out ++ (s.now, diagReq c data) :: outOf c (timeline s arr) ∧
      QueueAfter (ackMatch c data)
        (waitRef (ackMatch c data) (s.queue ++ visible (s.now + min tmo ackTimeoutMs) (timeline s arr)))
        (s.queue ++ allFrames (timeline s arr)) (opWrite c s data tmo arr).2.2.queue) := by
  obtain ⟨r1, r2, r3⟩ := runOp_res c s arr (writeBody c data tmo)
  unfold opWrite
  rw [r1, r2, r3, writeBody_eq c data tmo s _ hc]
  have hc0 : (s.sent (diagReq c data)).closed = false := hc
  obtain ⟨h1, h2, h3, h4⟩ := wait_finish c (ackMatch c data) (s.now + min tmo ackTimeoutMs) (s.sent (diagReq c data))
    (timeline s arr) (s.rd.run (shift s.now arr)).1 (lastT s.now arr) hc0 hd
  have hq : (s.sent (diagReq c data)).queue = s.queue := rfl
  have ho : (s.sent (diagReq c data)).out = s.out ++ [(s.now, diagReq c data)] := rfl
  rw [hq] at h1 h4
  have hnow : (writeSt tmo (wait c (ackMatch c data) (s.now + min tmo ackTimeoutMs) (s.sent (diagReq c data))
      (timeline s arr)).1 (wait c (ackMatch c data) (s.now + min tmo ackTimeoutMs) (s.sent (diagReq c data))
      (timeline s arr)).2.1).now ≤ s.now + min tmo ackTimeoutMs := by
    have := wait_now c (ackMatch c data) (s.now + min tmo ackTimeoutMs) (s.sent (diagReq c data)) (timeline s arr)
      (by show s.now ≤ _; omega)
    unfold writeSt; split <;> exact this
  refine ⟨by rw [h1], hnow, ?_, ?_⟩
  · by_cases hto : (wait c (ackMatch c data) (s.now + min tmo ackTimeoutMs) (s.sent (diagReq c data))
        (timeline s arr)).1 = .timeout ∧ ¬ tmo ≤ ackTimeoutMs
    · have := (finish_writeSt_closed c tmo _ (wait c (ackMatch c data) (s.now + min tmo ackTimeoutMs)
        (s.sent (diagReq c data)) (timeline s arr)).2.1 (wait c (ackMatch c data) (s.now + min tmo ackTimeoutMs)
        (s.sent (diagReq c data)) (timeline s arr)).2.2 (s.rd.run (shift s.now arr)).1 (lastT s.now arr) hto).1
      rw [this, ← h1]; exact ⟨fun _ => hto, fun _ => rfl⟩
    · rw [finish_writeSt_open c tmo _ _ _ _ _ hto, h2, ← h1]
      exact ⟨fun h => Bool.noConfusion h, fun h => absurd h hto⟩
  · intro hopen
    by_cases hto : (wait c (ackMatch c data) (s.now + min tmo ackTimeoutMs) (s.sent (diagReq c data))
        (timeline s arr)).1 = .timeout ∧ ¬ tmo ≤ ackTimeoutMs
    · have := (finish_writeSt_closed c tmo _ (wait c (ackMatch c data) (s.now + min tmo ackTimeoutMs)
        (s.sent (diagReq c data)) (timeline s arr)).2.1 (wait c (ackMatch c data) (s.now + min tmo ackTimeoutMs)
        (s.sent (diagReq c data)) (timeline s arr)).2.2 (s.rd.run (shift s.now arr)).1 (lastT s.now arr) hto).1
      rw [this] at hopen; cases hopen
    · rw [finish_writeSt_open c tmo _ _ _ _ _ hto]
      refine ⟨by rw [h3, ho]; simp, h1 ▸ h4⟩

/-! ### connect -/

theorem opConnect_res (c : Cfg) (atype : UInt8) (tmo : Nat) (arr : List (Nat × Bytes))
    (hd : NoDeath (timeline {} arr)) :
    (opConnect c atype tmo arr).1 = connRes tmo (waitRef isRar (visible (min tmo raTimeoutMs) (timeline {} arr))) ∧
    (opConnect c atype tmo arr).2.1 ≤ min tmo raTimeoutMs := by
  obtain ⟨r1, r2, _⟩ := runOp_res c {} arr (connectBody c atype tmo)
  unfold opConnect
  rw [r1, r2, connectBody_eq]
  have hc0 : ((({} : St)).sent (raReq c atype)).closed = false := rfl
  obtain ⟨w1, _, _⟩ := wait_spec c isRar (({} : St).now + min tmo raTimeoutMs) (({} : St).sent (raReq c atype))
    (timeline {} arr) hc0 hd
  have hq : ((({} : St)).sent (raReq c atype)).queue = [] := rfl
  have hn : ({} : St).now = 0 := rfl
  rw [hq, hn] at w1
  simp only [Nat.zero_add] at w1 ⊢
  refine ⟨by rw [w1]; simp, ?_⟩
  have := wait_now c isRar (0 + min tmo raTimeoutMs) (({} : St).sent (raReq c atype)) (timeline {} arr)
    (by show (0 : Nat) ≤ _; omega)
  simp only [Nat.zero_add] at this
  unfold connSt; split <;> exact this

theorem opConnect_out (c : Cfg) (atype : UInt8) (tmo : Nat) (arr : List (Nat × Bytes)) :
    ∃ tl, (opConnect c atype tmo arr).2.2.out = (0, raReq c atype) :: tl := by
  obtain ⟨_, _, r3⟩ := runOp_res c {} arr (connectBody c atype tmo)
  unfold opConnect
  rw [r3, connectBody_eq]
  obtain ⟨tk, _, t2, _⟩ := wait_taken c isRar (({} : St).now + min tmo raTimeoutMs) (({} : St).sent (raReq c atype))
    (timeline {} arr)
  have ho : ((({} : St)).sent (raReq c atype)).out = [(0, raReq c atype)] := rfl
  rw [ho] at t2
  generalize (wait c isRar (({} : St).now + min tmo raTimeoutMs) (({} : St).sent (raReq c atype)) (timeline {} arr)) = W at t2 ⊢
  obtain ⟨r, s1, rest⟩ := W
  simp only at t2
  have hso : (connSt tmo r s1).out = s1.out := by unfold connSt; split <;> rfl
  cases hcl : (connSt tmo r s1).closed with
  | true => exact ⟨outOf c tk, by simp [St.finish, hcl, hso, t2]⟩
  | false =>
    obtain ⟨_, f2, _⟩ := foldl_absorb c (connSt tmo r s1) rest
    exact ⟨outOf c tk ++ outOf c rest, by simp [St.finish, hcl, f2, hso, t2]⟩

/-! ### small facts about the matching rules -/

/-- acknowledgements that let a write complete: positive, or negative with `TargetUnreachable` -/
def accepted : Frame → Bool
  | .ackPos .. => true
  | .ackNeg _ _ code _ => code == nackTargetUnreachable
  | _ => false

theorem writeRes_got (c : Cfg) (data : Bytes) (tmo : Nat) (f : Frame) (h : ackMatch c data f = true) :
    (writeRes tmo (.got f) = .ok ↔ accepted f = true) ∧
    (accepted f = false → ∃ code, writeRes tmo (.got f) = .nack code) := by
  cases f with
  | ackPos s t p => simp [writeRes, accepted]
  | ackNeg s t code p =>
    by_cases hc : code = nackTargetUnreachable <;> simp [writeRes, accepted, hc]
  | hdrNack _ => simp [ackMatch] at h
  | rar _ _ _ => simp [ackMatch] at h
  | diag _ _ _ => simp [ackMatch] at h

theorem ackMatch_not_diag (c : Cfg) (data : Bytes) (f : Frame) (h : ackMatch c data f = true) :
    isDiagFor c f = false := by
  cases f <;> simp_all [ackMatch, isDiagFor]

theorem isRar_iff (f : Frame) : isRar f = true ↔ ∃ s t code, f = .rar s t code := by
  cases f <;> simp [isRar]

theorem run_times (r : Reader) (chunks : List (Nat × Bytes)) :
    ∀ e ∈ (r.run chunks).2, ∃ ch ∈ chunks, e.t = ch.1 := by
  induction chunks generalizing r with
  | nil => simp [Reader.run]
  | cons x xs ih =>
    obtain ⟨t, ch⟩ := x
    intro e he
    simp only [Reader.run, List.mem_append] at he
    rcases he with he | he
    · refine ⟨(t, ch), by simp, ?_⟩
      unfold Reader.feed at he
      split at he
      · simp at he
      · exact groups_time _ _ _ e he
    · obtain ⟨c', h1, h2⟩ := ih _ e he
      exact ⟨c', by simp [h1], h2⟩

/-- the diagnostic payloads a queue holds for the configured pair, in queue order -/
def diags (c : Cfg) (q : List Frame) : List Bytes := (q.filter (isDiagFor c)).map Frame.userData

end Gallia.Doip
