import Gallia.Model.ReplayRec
import Gallia.Proofs.Lemmas.Replay
import Gallia.Proofs.Lemmas.DbLog
import Gallia.Proofs.Lemmas.DbLogMulti
/-
  C12 — the recording side is C11's recorder: C11's client-side state rule is `clientUpdate`, C11's rows are `recordDb`.
-/
namespace Gallia.Replay
open Gallia

/-- C11's response classes in this model's alphabet -/
def kindOf : DbLog.RespKind → Kind
  | .dsc t => .dsc t
  | .rdbi did rec => if did = 0xF186 then .f186 (fromBE rec) else .other
  | .secAccess t => .sa t
  | .ecuReset => .reset
  | .other => .other

theorem c11_other_head (s : UInt8) (tl : Bytes) (h50 : s ≠ 0x50) (h51 : s ≠ 0x51) (h67 : s ≠ 0x67) (h62 : s ≠ 0x62) :
    DbLog.classify (s :: tl) = .other := by
  simp [DbLog.classify, h50, h51, h67, h62]

theorem classify_other_head2 (s : UInt8) (tl : Bytes) (h50 : s ≠ 0x50) (h51 : s ≠ 0x51) (h67 : s ≠ 0x67) (h62 : s ≠ 0x62) :
    classify (s :: tl) = .other := by
  unfold classify
  split <;> simp_all

/-- this model's `classify` is C11's `DbLog.classify` (whose length limits C11 compares with the live classes) -/
theorem classify_eq_c11 (b : Bytes) : classify b = kindOf (DbLog.classify b) := by
  cases b with
  | nil => rfl
  | cons s tl =>
    by_cases h50 : s = 0x50
    · subst h50
      cases tl with
      | nil => rfl
      | cons t rest =>
        by_cases ht : t.toNat ≤ 0x7F
        · simp [classify, DbLog.classify, kindOf, ht, DbLog.dscMin, DbLog.subFunctionMax]
        · simp [classify, DbLog.classify, kindOf, ht, DbLog.dscMin, DbLog.subFunctionMax, DbLog.resetMin, DbLog.secMin,
            DbLog.rdbiMin]
    · by_cases h67 : s = 0x67
      · subst h67
        cases tl with
        | nil => rfl
        | cons t rest =>
          by_cases ht : t.toNat ≤ 0x7F
          · simp [classify, DbLog.classify, kindOf, ht, DbLog.secMin, DbLog.subFunctionMax]
          · simp [classify, DbLog.classify, kindOf, ht, DbLog.secMin, DbLog.subFunctionMax]
      · by_cases h51 : s = 0x51
        · subst h51
          match tl with
          | [] => rfl
          | [t] =>
            by_cases ht : t.toNat ≤ 0x7F
            · simp [classify, DbLog.classify, kindOf, ht, DbLog.resetMin, DbLog.resetMax, DbLog.subFunctionMax]
            · simp [classify, DbLog.classify, kindOf, ht, DbLog.resetMin, DbLog.resetMax, DbLog.subFunctionMax]
          | [t, p] =>
            by_cases ht : t.toNat ≤ 0x7F
            · simp [classify, DbLog.classify, kindOf, ht, DbLog.resetMin, DbLog.resetMax, DbLog.subFunctionMax]
            · simp [classify, DbLog.classify, kindOf, ht, DbLog.resetMin, DbLog.resetMax, DbLog.subFunctionMax]
          | t :: p :: q :: rest =>
            simp [classify, DbLog.classify, kindOf, DbLog.resetMin, DbLog.resetMax, DbLog.subFunctionMax]
        · by_cases h62 : s = 0x62
          · subst h62
            match tl with
            | [] => rfl
            | [x] => simp [classify, DbLog.classify, kindOf, DbLog.rdbiMin]
            | [x, y] => simp [classify, DbLog.classify, kindOf, DbLog.rdbiMin]
            | a :: c :: r :: rest =>
              have hk : DbLog.classify (0x62 :: a :: c :: r :: rest) = .rdbi (fromBE [a, c]) (r :: rest) := by
                simp [DbLog.classify, DbLog.rdbiMin]
              rw [hk]
              simp only [kindOf, fromBE2_eq]
              by_cases hac : a = 0xF1 ∧ c = 0x86
              · obtain ⟨rfl, rfl⟩ := hac
                simp [classify]
              · rw [if_neg hac]
                unfold classify
                split <;> simp_all
          · rw [c11_other_head s tl h50 h51 h67 h62, classify_other_head2 s tl h50 h51 h67 h62]; rfl


/-- C11's `updateState` (`ECU.update_state`) is `clientUpdate` -/
theorem stOf_updateState (st : DbLog.EcuState) (b : Bytes) :
    stOf (DbLog.updateState st b) = clientUpdate (stOf st) (some b) := by
  unfold DbLog.updateState clientUpdate
  simp only [classify_eq_c11]
  cases hk : DbLog.classify b with
  | dsc t => rfl
  | secAccess t => simp only [kindOf]; split <;> rfl
  | ecuReset => rfl
  | other => rfl
  | rdbi did rec =>
    simp only [kindOf, DbLog.sessionDid]
    by_cases hd : did = 0xF186
    · simp only [hd, true_and, if_true]
      by_cases hs : st.session = fromBE rec
      · simp [hs, stOf]
      · simp [hs, stOf]
    · simp [hd]

theorem stOf_nextState (st : DbLog.EcuState) (e : DbLog.Exchange) :
    stOf (DbLog.nextState st e) = clientUpdate (stOf st) (exchOf e).resp := by
  unfold DbLog.nextState exchOf
  cases e.out.response with
  | none => rfl
  | some r => exact stOf_updateState st r

theorem stOf_init : stOf DbLog.EcuState.init = St.default := rfl

/-- the rows C11's specification fold leaves for a fully logged history are `recordDb` of the history -/
theorem numberRows_specRows (ri : RunInfo) (id0 : Nat) (st : DbLog.EcuState) (c : Nat) (h : List DbLog.Exchange)
    (hon : ∀ e ∈ h, e.implicitOn = true) :
    numberRows ri id0 (DbLog.specRows st c h) = recordDb ri id0 (stOf st) (h.map exchOf) := by
  induction h generalizing id0 st c with
  | nil => rfl
  | cons e es ih =>
    have he : e.implicitOn = true := hon e (by simp)
    simp only [DbLog.specRows, he, if_true, List.singleton_append, numberRows, List.map_cons, recordDb]
    rw [ih (id0 + 1) (DbLog.nextState st e) _ (fun e' h' => hon e' (List.mem_cons_of_mem _ h')), stOf_nextState]
    rfl

/-- the same for several producers: the rows of the completed calls, in completion order -/
theorem numberRows_callRows (ri : RunInfo) (id0 : Nat) (st : DbLog.EcuState) (cs : List DbLog.Call)
    (hon : ∀ c ∈ cs, c.ex.implicitOn = true) :
    numberRows ri id0 (DbLog.callRows st cs) = recordDb ri id0 (stOf st) (cs.map fun c => exchOf c.ex) := by
  induction cs generalizing id0 st with
  | nil => rfl
  | cons c cs ih =>
    have he : c.ex.implicitOn = true := hon c (by simp)
    simp only [DbLog.callRows, he, if_true, List.singleton_append, numberRows, List.map_cons, recordDb]
    rw [ih (id0 + 1) (DbLog.nextState st c.ex) (fun c' h' => hon c' (List.mem_cons_of_mem _ h')), stOf_nextState]
    rfl


theorem exec_prod_done (s : DbLog.Sys) (hs : s.stopped = false) :
    (DbLog.exec s (s.todo.map fun _ => DbLog.Choice.prod)).done = s.done ++ s.todo := by
  generalize ht : s.todo = t
  induction t generalizing s with
  | nil => simp [DbLog.exec]
  | cons e es ih =>
    simp only [List.map_cons, DbLog.exec, List.foldl_cons]
    have h1 : (DbLog.step s .prod).todo = es := by simp [DbLog.step, hs, ht, DbLog.logStep_todo]
    have h2 : (DbLog.step s .prod).stopped = false := by simp [DbLog.step, hs, ht, DbLog.logStep_stopped]
    have h3 : (DbLog.step s .prod).done = s.done ++ [e] := by simp [DbLog.step, hs, ht, DbLog.logStep_done]
    have := ih (DbLog.step s .prod) h2 h1
    simp only [DbLog.exec] at this
    rw [this, h3]
    simp

theorem runAll_done (h : List DbLog.Exchange) : (DbLog.runAll h).done = h := by
  have := exec_prod_done (DbLog.Sys.init h) rfl
  simpa [DbLog.runAll, DbLog.Sys.init] using this

end Gallia.Replay
