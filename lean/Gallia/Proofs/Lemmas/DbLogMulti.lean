import Gallia.Proofs.Lemmas.DbLog
/-
  Helper lemmas for C11, several producers behind the client mutex (`MSys`, `mstep`): the rows invariant (needs nothing
  about the lock), and the lock-structure invariant that gives "completion order of the granted calls = grant order".
-/
namespace Gallia.DbLog
open Gallia

/-! ### the specification fold over completed calls -/

theorem callRows_append (st : EcuState) (a b : List Call) :
    callRows st (a ++ b) = callRows st a ++ callRows (callState st a) b := by
  induction a generalizing st with
  | nil => rfl
  | cons c cs ih => simp [callRows, callState, ih]

theorem callState_append (st : EcuState) (a b : List Call) :
    callState st (a ++ b) = callState (callState st a) b := by
  induction a generalizing st with
  | nil => rfl
  | cons c cs ih => simp [callState, ih]

/-! ### rows: everything accepted by the writer = the rows of the completed calls, in completion order -/

structure MRows (s : MSys) : Prop where
  rows : s.toWriter.all = callRows .init s.calls
  ecu : s.ecu = callState .init s.calls

theorem MRows.init (progs : List (List Exchange)) : MRows (MSys.init progs) := by
  constructor <;> simp [MSys.init, callRows, callState, Writer.empty_all]

theorem logCall_all (s : MSys) (i : Nat) (e : Exchange) (t0 : Nat) (g : Bool) :
    (s.logCall i e t0 g).toWriter.all =
      s.toWriter.all ++ (if e.implicitOn then [mkRow s.ecu t0 s.clock e] else []) := by
  unfold MSys.logCall
  split <;> simp [Writer.put_all]

theorem logCall_calls (s : MSys) (i : Nat) (e : Exchange) (t0 : Nat) (g : Bool) :
    (s.logCall i e t0 g).calls = s.calls ++ [⟨i, e, t0, s.clock, g⟩] := by
  unfold MSys.logCall; split <;> rfl

theorem logCall_ecu (s : MSys) (i : Nat) (e : Exchange) (t0 : Nat) (g : Bool) :
    (s.logCall i e t0 g).ecu = nextState s.ecu e := by
  unfold MSys.logCall; split <;> rfl

theorem logCall_tasks (s : MSys) (i : Nat) (e : Exchange) (t0 : Nat) (g : Bool) :
    (s.logCall i e t0 g).tasks = s.tasks := by
  unfold MSys.logCall; split <;> rfl

theorem logCall_holder (s : MSys) (i : Nat) (e : Exchange) (t0 : Nat) (g : Bool) :
    (s.logCall i e t0 g).holder = s.holder := by
  unfold MSys.logCall; split <;> rfl

theorem logCall_waiters (s : MSys) (i : Nat) (e : Exchange) (t0 : Nat) (g : Bool) :
    (s.logCall i e t0 g).waiters = s.waiters := by
  unfold MSys.logCall; split <;> rfl

theorem logCall_wire (s : MSys) (i : Nat) (e : Exchange) (t0 : Nat) (g : Bool) :
    (s.logCall i e t0 g).wire = s.wire := by
  unfold MSys.logCall; split <;> rfl

theorem logCall_clock (s : MSys) (i : Nat) (e : Exchange) (t0 : Nat) (g : Bool) :
    (s.logCall i e t0 g).clock = s.clock := by
  unfold MSys.logCall; split <;> rfl

theorem MRows.logCall {s : MSys} (h : MRows s) (i : Nat) (e : Exchange) (t0 : Nat) (g : Bool) :
    MRows (s.logCall i e t0 g) := by
  constructor
  · rw [logCall_all, logCall_calls, callRows_append, h.rows, ← h.ecu]
    simp [callRows]
  · rw [logCall_ecu, logCall_calls, callState_append, ← h.ecu]
    simp [callState]

theorem release_writer (s : MSys) : (MSys.release s).toWriter = s.toWriter := by
  unfold MSys.release
  split
  · rfl
  · split
    · split <;> rfl
    · rfl

theorem release_calls (s : MSys) : (MSys.release s).calls = s.calls := by
  unfold MSys.release
  split
  · rfl
  · split
    · split <;> rfl
    · rfl

theorem release_ecu (s : MSys) : (MSys.release s).ecu = s.ecu := by
  unfold MSys.release
  split
  · rfl
  · split
    · split <;> rfl
    · rfl

theorem release_clock (s : MSys) : (MSys.release s).clock = s.clock := by
  unfold MSys.release
  split
  · rfl
  · split
    · split <;> rfl
    · rfl

theorem MRows.release {s : MSys} (h : MRows s) : MRows (MSys.release s) :=
  ⟨by rw [release_writer, release_calls]; exact h.rows, by rw [release_ecu, release_calls]; exact h.ecu⟩

/-- a change of the lock / task bookkeeping only -/
theorem MRows.of_eq {s s' : MSys} (h : MRows s) (hw : s'.toWriter = s.toWriter) (hc : s'.calls = s.calls)
    (he : s'.ecu = s.ecu) : MRows s' :=
  ⟨by rw [hw, hc]; exact h.rows, by rw [he, hc]; exact h.ecu⟩

theorem MRows.step {s : MSys} (h : MRows s) (c : MChoice) : MRows (mstep s c) := by
  cases c with
  | tick d => exact h.of_eq rfl rfl rfl
  | w c => exact ⟨by simpa [mstep, Writer.step_all] using h.rows, h.ecu⟩
  | call i =>
    simp only [mstep]
    split
    · split
      · split
        · exact h.of_eq rfl rfl rfl
        · exact h.of_eq rfl rfl rfl
      · exact h
    · exact h
  | finish i =>
    simp only [mstep]
    split
    · split
      · split
        · apply MRows.release
          exact (h.logCall _ _ _ _).of_eq rfl rfl rfl
        · exact h
      · exact h
    · exact h
  | cancelTask i =>
    simp only [mstep]
    split
    · split
      · exact h
      · split
        · exact (h.logCall _ _ _ _).of_eq rfl rfl rfl
        · split
          · apply MRows.release
            exact (h.logCall _ _ _ _).of_eq rfl rfl rfl
          · exact h
        · exact h.of_eq rfl rfl rfl
    · exact h

theorem MRows.exec {s : MSys} (h : MRows s) (sched : List MChoice) : MRows (mexec s sched) := by
  induction sched generalizing s with
  | nil => exact h
  | cons c cs ih => exact ih (h.step c)

/-! ### the lock: who holds, who waits, and the order of grants -/

def grantedOf (cs : List Call) : List (Nat × Bytes) := (cs.filter (·.granted)).map fun c => (c.task, c.ex.req)

theorem grantedOf_append (a b : List Call) : grantedOf (a ++ b) = grantedOf a ++ grantedOf b := by
  simp [grantedOf]

structure MLock (s : MSys) : Prop where
  /-- every waiter is a live task queued inside a call -/
  waiting : ∀ j ∈ s.waiters, ∃ t t0 e rest, s.tasks[j]? = some t ∧ t.phase = .waiting t0 ∧ t.todo = e :: rest
  nodup : s.waiters.Nodup
  /-- the holder is inside a call -/
  holding : ∀ i, s.holder = some i → ∃ t t0 e rest, s.tasks[i]? = some t ∧ t.phase = .holding t0 ∧ t.todo = e :: rest
  /-- only the holder transmits -/
  exclusive : ∀ (j : Nat) (t : Task) (t0 : Nat), s.tasks[j]? = some t → t.phase = .holding t0 → s.holder = some j
  /-- nobody waits on a free lock -/
  free : s.holder = none → s.waiters = []
  /-- the wire so far = the granted calls that have completed, in completion order, then the one in progress -/
  wire : s.wire = grantedOf s.calls ++ s.onWire

theorem getElem?_setTask_self (ts : List Task) (i : Nat) (t t' : Task) (h : ts[i]? = some t) :
    (setTask ts i t')[i]? = some t' := by
  have hi : i < ts.length := by
    rcases Nat.lt_or_ge i ts.length with hlt | hge
    · exact hlt
    · simp [List.getElem?_eq_none hge] at h
  simp [setTask, List.getElem?_set, hi]

theorem getElem?_setTask_ne (ts : List Task) (i j : Nat) (t' : Task) (h : j ≠ i) :
    (setTask ts i t')[j]? = ts[j]? := by
  simp [setTask, List.getElem?_set, Ne.symm h]

theorem MLock.init (progs : List (List Exchange)) : MLock (MSys.init progs) := by
  refine ⟨by simp [MSys.init], by simp [MSys.init], by simp [MSys.init], ?_, by simp [MSys.init], by simp [MSys.init, grantedOf, MSys.onWire]⟩
  intro j t t0 hj hp
  simp only [MSys.init, List.getElem?_map] at hj
  cases hq : progs[j]? with
  | none => simp [hq] at hj
  | some p =>
    simp [hq] at hj
    subst hj
    simp at hp

/-- the holder is not among the waiters -/
theorem MLock.holder_not_waiting {s : MSys} (h : MLock s) (i : Nat) (hi : s.holder = some i) : i ∉ s.waiters := by
  intro hm
  obtain ⟨t, t0, e, rest, ht, hp, _⟩ := h.waiting i hm
  obtain ⟨t', t0', e', rest', ht', hp', _⟩ := h.holding i hi
  rw [ht] at ht'
  cases ht'
  rw [hp] at hp'
  cases hp'

theorem onWire_of_holder {s : MSys} {i : Nat} {t : Task} {e : Exchange} {rest : List Exchange}
    (hh : s.holder = some i) (ht : s.tasks[i]? = some t) (htd : t.todo = e :: rest) : s.onWire = [(i, e.req)] := by
  simp [MSys.onWire, hh, ht, htd]

theorem onWire_of_free {s : MSys} (hh : s.holder = none) : s.onWire = [] := by
  simp [MSys.onWire, hh]

theorem onWire_congr {s s' : MSys} (hh : s'.holder = s.holder)
    (ht : ∀ k, s.holder = some k → s'.tasks[k]? = s.tasks[k]?) : s'.onWire = s.onWire := by
  unfold MSys.onWire
  rw [hh]
  cases hk : s.holder with
  | none => rfl
  | some k => simp [ht k hk]

theorem wire_congr {s s' : MSys} (hw : s.wire = grantedOf s.calls ++ s.onWire) (h1 : s'.wire = s.wire)
    (h2 : s'.calls = s.calls) (hh : s'.holder = s.holder)
    (ht : ∀ k, s.holder = some k → s'.tasks[k]? = s.tasks[k]?) : s'.wire = grantedOf s'.calls ++ s'.onWire := by
  rw [h1, h2, onWire_congr hh ht]; exact hw

/-- `release` on a state whose previous holder `i` has already been taken out of its call: `holder` may still name `i`,
    task `i` is idle, every other part of the invariant holds, and the wire is exactly the completed granted calls -/
theorem MLock.release {s : MSys} (i : Nat)
    (hwait : ∀ j ∈ s.waiters, ∃ t t0 e rest, s.tasks[j]? = some t ∧ t.phase = .waiting t0 ∧ t.todo = e :: rest)
    (hnd : s.waiters.Nodup)
    (hex : ∀ (j : Nat) (t : Task) (t0 : Nat), s.tasks[j]? = some t → t.phase = .holding t0 → False)
    (hwire : s.wire = grantedOf s.calls) (_hi : s.holder = some i) :
    MLock (MSys.release s) := by
  unfold MSys.release
  cases hws : s.waiters with
  | nil =>
    simp only
    refine ⟨by simp [hws], by simp [hws], by simp, ?_, by simp [hws], by simp [hwire, MSys.onWire]⟩
    intro j t t0 hj hp
    exact (hex j t t0 hj hp).elim
  | cons j ws =>
    obtain ⟨t, t0, e, rest, ht, hp, htd⟩ := hwait j (by simp [hws])
    simp only [ht]
    split
    · next t0' e' rest' hp' htd' =>
      have hjws : j ∉ ws := by
        have := hnd; rw [hws] at this; exact (List.nodup_cons.mp this).1
      refine ⟨?_, ?_, ?_, ?_, by simp, ?_⟩
      · intro k hk
        have hkj : k ≠ j := fun h => hjws (h ▸ hk)
        obtain ⟨t', t0'', e'', rest'', ht', hp'', htd''⟩ := hwait k (by simp [hws, hk])
        exact ⟨t', t0'', e'', rest'', by simpa [getElem?_setTask_ne _ _ _ _ hkj] using ht', hp'', htd''⟩
      · have := hnd; rw [hws] at this; exact (List.nodup_cons.mp this).2
      · intro k hk
        simp at hk
        subst hk
        exact ⟨{ t with phase := .holding t0' }, t0', e', rest', getElem?_setTask_self _ _ _ _ ht, rfl, htd'⟩
      · intro k t' t0'' hk hp''
        by_cases hkj : k = j
        · simp [hkj]
        · rw [getElem?_setTask_ne _ _ _ _ hkj] at hk
          exact (hex k t' t0'' hk hp'').elim
      · rw [onWire_of_holder (i := j) (t := { t with phase := .holding t0' }) (e := e') (rest := rest') rfl
          (getElem?_setTask_self _ _ _ _ ht) htd']
        simp [hwire]
    · next hno => exact (hno t0 e rest hp htd).elim

theorem MLock.step {s : MSys} (h : MLock s) (c : MChoice) : MLock (mstep s c) := by
  cases c with
  | tick d => exact ⟨h.waiting, h.nodup, h.holding, h.exclusive, h.free, h.wire⟩
  | w c => exact ⟨h.waiting, h.nodup, h.holding, h.exclusive, h.free, h.wire⟩
  | call i =>
    simp only [mstep]
    split
    · next t ht =>
      split
      · next e rest' hst hph htd =>
        split
        · -- the lock is free and nobody waits: taken at once
          next hfree =>
          have hh : s.holder = none := by
            simp only [Bool.and_eq_true, Option.isNone_iff_eq_none] at hfree; exact hfree.1
          have hw : s.waiters = [] := h.free hh
          refine ⟨by simp [hw], by simp [hw], ?_, ?_, by simp, ?_⟩
          · intro k hk
            simp at hk
            subst hk
            exact ⟨{ t with phase := .holding s.clock }, s.clock, e, rest', getElem?_setTask_self _ _ _ _ ht, rfl, htd⟩
          · intro k t' t0' hk hp'
            by_cases hki : k = i
            · simp [hki]
            · rw [getElem?_setTask_ne _ _ _ _ hki] at hk
              have := h.exclusive k t' t0' hk hp'
              rw [hh] at this
              cases this
          · rw [onWire_of_holder (i := i) (t := { t with phase := .holding s.clock }) (e := e) (rest := rest') rfl
              (getElem?_setTask_self _ _ _ _ ht) htd]
            simp [h.wire, onWire_of_free hh]
        · -- queued behind the holder
          next hbusy =>
          have hi_nw : i ∉ s.waiters := by
            intro hm
            obtain ⟨t', t0', _, _, ht', hp', _⟩ := h.waiting i hm
            rw [ht] at ht'; cases ht'
            rw [hph] at hp'; cases hp'
          have hi_nh : s.holder ≠ some i := by
            intro hh
            obtain ⟨t', t0', _, _, ht', hp', _⟩ := h.holding i hh
            rw [ht] at ht'; cases ht'
            rw [hph] at hp'; cases hp'
          refine ⟨?_, ?_, ?_, ?_, ?_, ?_⟩
          · intro k hk
            simp only [List.mem_append, List.mem_singleton] at hk
            rcases hk with hk | hk
            · have hki : k ≠ i := fun hx => hi_nw (hx ▸ hk)
              obtain ⟨t', t0', e', r', ht', hp', htd'⟩ := h.waiting k hk
              exact ⟨t', t0', e', r', by simpa [getElem?_setTask_ne _ _ _ _ hki] using ht', hp', htd'⟩
            · subst hk
              exact ⟨{ t with phase := .waiting s.clock }, s.clock, e, rest', getElem?_setTask_self _ _ _ _ ht, rfl, htd⟩
          · exact List.nodup_append.mpr ⟨h.nodup, by simp, by
              intro a ha b hb
              simp at hb; subst hb
              exact fun hx => hi_nw (hx ▸ ha)⟩
          · intro k hk
            have hki : k ≠ i := fun hx => hi_nh (hx ▸ hk)
            obtain ⟨t', t0', e', r', ht', hp', htd'⟩ := h.holding k hk
            exact ⟨t', t0', e', r', by simpa [getElem?_setTask_ne _ _ _ _ hki] using ht', hp', htd'⟩
          · intro k t' t0' hk hp'
            by_cases hki : k = i
            · subst hki
              rw [getElem?_setTask_self _ _ _ _ ht] at hk
              cases hk
              cases hp'
            · rw [getElem?_setTask_ne _ _ _ _ hki] at hk
              exact h.exclusive k t' t0' hk hp'
          · intro hh
            exfalso
            have hh' : s.holder = none := hh
            have := h.free hh'
            simp [hh', this] at hbusy
          · exact wire_congr h.wire rfl rfl rfl (fun k hk => getElem?_setTask_ne _ _ _ _ (by rintro rfl; exact hi_nh hk))
      · exact h
    · exact h
  | finish i =>
    simp only [mstep]
    split
    · next t ht =>
      split
      · next t0 e rest hph htd =>
        split
        · next hh =>
          -- the holder completes: row, state update, then the lock goes to the first waiter
          have hi_nw : i ∉ s.waiters := h.holder_not_waiting i hh
          apply MLock.release i
          · intro j hj
            simp only [logCall_waiters] at hj
            have hji : j ≠ i := fun hx => hi_nw (hx ▸ hj)
            obtain ⟨t', t0', e', r', ht', hp', htd'⟩ := h.waiting j hj
            exact ⟨t', t0', e', r', by simpa [logCall_tasks, getElem?_setTask_ne _ _ _ _ hji] using ht', hp', htd'⟩
          · simpa [logCall_waiters] using h.nodup
          · intro j t' t0' hj hp'
            simp only [logCall_tasks] at hj
            by_cases hji : j = i
            · subst hji
              rw [getElem?_setTask_self _ _ _ _ ht] at hj
              cases hj
              cases hp'
            · rw [getElem?_setTask_ne _ _ _ _ hji] at hj
              have := h.exclusive j t' t0' hj hp'
              rw [hh] at this
              exact hji (Option.some.inj this).symm
          · simp only [logCall_wire, logCall_calls, grantedOf_append]
            rw [h.wire, onWire_of_holder hh ht htd]
            simp [grantedOf]
          · simpa [logCall_holder] using hh
        · exact h
      · exact h
    · exact h
  | cancelTask i =>
    simp only [mstep]
    split
    · next t ht =>
      split
      · exact h
      · next hst =>
        split
        · -- cancelled while it waits for the mutex: it leaves the queue, the lock is untouched
          next t0 e rest hph htd =>
          have hi_nh : s.holder ≠ some i := by
            intro hh
            obtain ⟨t', t0', _, _, ht', hp', _⟩ := h.holding i hh
            rw [ht] at ht'; cases ht'
            rw [hph] at hp'; cases hp'
          refine ⟨?_, ?_, ?_, ?_, ?_, ?_⟩
          · intro j hj
            simp only [logCall_waiters] at hj
            have hjm : j ∈ s.waiters := List.mem_of_mem_erase hj
            have hji : j ≠ i := by
              intro hx; subst hx
              exact (List.Nodup.mem_erase_iff h.nodup).mp hj |>.1 rfl
            obtain ⟨t', t0', e', r', ht', hp', htd'⟩ := h.waiting j hjm
            exact ⟨t', t0', e', r', by simpa [logCall_tasks, getElem?_setTask_ne _ _ _ _ hji] using ht', hp', htd'⟩
          · simpa [logCall_waiters] using h.nodup.erase i
          · intro k hk
            simp only [logCall_holder] at hk
            have hki : k ≠ i := fun hx => hi_nh (hx ▸ hk)
            obtain ⟨t', t0', e', r', ht', hp', htd'⟩ := h.holding k hk
            exact ⟨t', t0', e', r', by simpa [logCall_tasks, getElem?_setTask_ne _ _ _ _ hki] using ht', hp', htd'⟩
          · intro k t' t0' hk hp'
            simp only [logCall_tasks] at hk
            simp only [logCall_holder]
            by_cases hki : k = i
            · subst hki
              rw [getElem?_setTask_self _ _ _ _ ht] at hk
              cases hk
              cases hp'
            · rw [getElem?_setTask_ne _ _ _ _ hki] at hk
              exact h.exclusive k t' t0' hk hp'
          · intro hh
            simp only [logCall_holder] at hh
            simp only [logCall_waiters]
            have := h.free hh
            simp [this]
          · have hon := onWire_congr (s := s)
                (s' := { (s.logCall i { e with out := .cancelled } t0 false) with
                  waiters := (s.logCall i { e with out := .cancelled } t0 false).waiters.erase i,
                  tasks := setTask (s.logCall i { e with out := .cancelled } t0 false).tasks i ⟨[], .idle, true⟩ })
                (by simp [logCall_holder])
                (fun k hk => by simp only [logCall_tasks]; exact getElem?_setTask_ne _ _ _ _ (by rintro rfl; exact hi_nh hk))
            rw [hon]
            simp only [logCall_wire, logCall_calls, grantedOf_append]
            rw [h.wire]
            simp [grantedOf]
        · next t0 e rest hph htd =>
          split
          · next hh =>
            have hi_nw : i ∉ s.waiters := h.holder_not_waiting i hh
            apply MLock.release i
            · intro j hj
              simp only [logCall_waiters] at hj
              have hji : j ≠ i := fun hx => hi_nw (hx ▸ hj)
              obtain ⟨t', t0', e', r', ht', hp', htd'⟩ := h.waiting j hj
              exact ⟨t', t0', e', r', by simpa [logCall_tasks, getElem?_setTask_ne _ _ _ _ hji] using ht', hp', htd'⟩
            · simpa [logCall_waiters] using h.nodup
            · intro j t' t0' hj hp'
              simp only [logCall_tasks] at hj
              by_cases hji : j = i
              · subst hji
                rw [getElem?_setTask_self _ _ _ _ ht] at hj
                cases hj
                cases hp'
              · rw [getElem?_setTask_ne _ _ _ _ hji] at hj
                have := h.exclusive j t' t0' hj hp'
                rw [hh] at this
                exact hji (Option.some.inj this).symm
            · simp only [logCall_wire, logCall_calls, grantedOf_append]
              rw [h.wire, onWire_of_holder hh ht htd]
              simp [grantedOf]
            · simpa [logCall_holder] using hh
          · exact h
        · -- idle (or inconsistent phase): the task just stops
          next hnw hnh =>
          have hi_nw : i ∉ s.waiters := by
            intro hm
            obtain ⟨t', t0', e', r', ht', hp', htd'⟩ := h.waiting i hm
            rw [ht] at ht'; cases ht'
            exact hnw t0' e' r' hp' htd'
          have hi_nh : s.holder ≠ some i := by
            intro hh
            obtain ⟨t', t0', e', r', ht', hp', htd'⟩ := h.holding i hh
            rw [ht] at ht'; cases ht'
            exact hnh t0' e' r' hp' htd'
          refine ⟨?_, h.nodup, ?_, ?_, h.free, ?_⟩
          · intro j hj
            have hji : j ≠ i := fun hx => hi_nw (hx ▸ hj)
            obtain ⟨t', t0', e', r', ht', hp', htd'⟩ := h.waiting j hj
            exact ⟨t', t0', e', r', by simpa [getElem?_setTask_ne _ _ _ _ hji] using ht', hp', htd'⟩
          · intro k hk
            have hki : k ≠ i := fun hx => hi_nh (hx ▸ hk)
            obtain ⟨t', t0', e', r', ht', hp', htd'⟩ := h.holding k hk
            exact ⟨t', t0', e', r', by simpa [getElem?_setTask_ne _ _ _ _ hki] using ht', hp', htd'⟩
          · intro k t' t0' hk hp'
            by_cases hki : k = i
            · subst hki
              rw [getElem?_setTask_self _ _ _ _ ht] at hk
              cases hk
              cases hp'
            · rw [getElem?_setTask_ne _ _ _ _ hki] at hk
              exact h.exclusive k t' t0' hk hp'
          · exact wire_congr h.wire rfl rfl rfl (fun k hk => getElem?_setTask_ne _ _ _ _ (by rintro rfl; exact hi_nh hk))
    · exact h

theorem MLock.exec {s : MSys} (h : MLock s) (sched : List MChoice) : MLock (mexec s sched) := by
  induction sched generalizing s with
  | nil => exact h
  | cons c cs ih => exact ih (h.step c)

/-! ### times -/

def PhasesLe (tasks : List Task) (clock : Nat) : Prop :=
  ∀ (j : Nat) (t : Task), tasks[j]? = some t →
    (∀ t0, t.phase = .waiting t0 → t0 ≤ clock) ∧ (∀ t0, t.phase = .holding t0 → t0 ≤ clock)

/-- every waiting / holding task took its send time at or before the current clock; every completed call has
    `sendT ≤ doneT` -/
structure MTime (s : MSys) : Prop where
  phases : PhasesLe s.tasks s.clock
  calls : ∀ c ∈ s.calls, c.sendT ≤ c.doneT

theorem PhasesLe.setTask {tasks : List Task} {clock : Nat} (h : PhasesLe tasks clock) (i : Nat) (t' : Task)
    (h1 : ∀ t0, t'.phase = .waiting t0 → t0 ≤ clock) (h2 : ∀ t0, t'.phase = .holding t0 → t0 ≤ clock) :
    PhasesLe (setTask tasks i t') clock := by
  intro j t hj
  by_cases hji : j = i
  · subst hji
    cases ho : tasks[j]? with
    | none =>
      have : (DbLog.setTask tasks j t')[j]? = none := by
        have hge : tasks.length ≤ j := by
          rcases Nat.lt_or_ge j tasks.length with hlt | hge
          · simp [List.getElem?_eq_getElem hlt] at ho
          · exact hge
        simp [DbLog.setTask, hge]
      rw [this] at hj; cases hj
    | some told =>
      rw [getElem?_setTask_self _ _ _ _ ho] at hj
      cases hj
      exact ⟨h1, h2⟩
  · rw [getElem?_setTask_ne _ _ _ _ hji] at hj
    exact h j t hj

theorem PhasesLe.mono {tasks : List Task} {c c' : Nat} (h : PhasesLe tasks c) (hc : c ≤ c') : PhasesLe tasks c' := by
  intro j t hj
  obtain ⟨a, b⟩ := h j t hj
  exact ⟨fun t0 h0 => Nat.le_trans (a t0 h0) hc, fun t0 h0 => Nat.le_trans (b t0 h0) hc⟩

theorem MTime.init (progs : List (List Exchange)) : MTime (MSys.init progs) := by
  refine ⟨?_, by simp [MSys.init]⟩
  intro j t hj
  simp only [MSys.init, List.getElem?_map] at hj
  cases hq : progs[j]? with
  | none => simp [hq] at hj
  | some p =>
    simp [hq] at hj
    subst hj
    simp

theorem MTime.release {s : MSys} (h : MTime s) : MTime (MSys.release s) := by
  unfold MSys.release
  split
  · exact ⟨h.phases, h.calls⟩
  · split
    · next t ht =>
      split
      · next t0 e rest hp htd =>
        refine ⟨?_, h.calls⟩
        apply h.phases.setTask
        · intro t0' h0; cases h0
        · intro t0' h0
          cases h0
          exact (h.phases _ t ht).1 t0 hp
      · exact ⟨h.phases, h.calls⟩
    · exact ⟨h.phases, h.calls⟩

theorem MTime.logCall {s : MSys} (h : MTime s) (i : Nat) (e : Exchange) (t0 : Nat) (g : Bool) (ht0 : t0 ≤ s.clock) :
    MTime (s.logCall i e t0 g) := by
  refine ⟨by rw [logCall_tasks, logCall_clock]; exact h.phases, ?_⟩
  intro c hc
  rw [logCall_calls] at hc
  simp only [List.mem_append, List.mem_singleton] at hc
  rcases hc with hc | hc
  · exact h.calls c hc
  · subst hc; exact ht0

theorem MTime.step {s : MSys} (h : MTime s) (c : MChoice) : MTime (mstep s c) := by
  cases c with
  | tick d => exact ⟨h.phases.mono (Nat.le_add_right _ _), h.calls⟩
  | w c => exact ⟨h.phases, h.calls⟩
  | call i =>
    simp only [mstep]
    split
    · split
      · split
        · exact ⟨h.phases.setTask _ _ (by intro t0 h0; cases h0) (by intro t0 h0; cases h0; exact Nat.le_refl _), h.calls⟩
        · exact ⟨h.phases.setTask _ _ (by intro t0 h0; cases h0; exact Nat.le_refl _) (by intro t0 h0; cases h0), h.calls⟩
      · exact h
    · exact h
  | finish i =>
    simp only [mstep]
    split
    · next t ht =>
      split
      · next t0 e rest hp htd =>
        split
        · apply MTime.release
          have hl := h.logCall i e t0 true ((h.phases i t ht).2 t0 hp)
          refine ⟨?_, hl.calls⟩
          exact hl.phases.setTask _ _ (by intro t0' h0; cases h0) (by intro t0' h0; cases h0)
        · exact h
      · exact h
    · exact h
  | cancelTask i =>
    simp only [mstep]
    split
    · next t ht =>
      split
      · exact h
      · split
        · next t0 e rest hp htd =>
          have hl := h.logCall i { e with out := .cancelled } t0 false ((h.phases i t ht).1 t0 hp)
          refine ⟨?_, hl.calls⟩
          exact hl.phases.setTask _ _ (by intro t0' h0; cases h0) (by intro t0' h0; cases h0)
        · next t0 e rest hp htd =>
          split
          · apply MTime.release
            have hl := h.logCall i { e with out := .cancelled } t0 true ((h.phases i t ht).2 t0 hp)
            refine ⟨?_, hl.calls⟩
            exact hl.phases.setTask _ _ (by intro t0' h0; cases h0) (by intro t0' h0; cases h0)
          · exact h
        · exact ⟨h.phases.setTask _ _ (by intro t0' h0; cases h0) (by intro t0' h0; cases h0), h.calls⟩
    · exact h

theorem MTime.exec {s : MSys} (h : MTime s) (sched : List MChoice) : MTime (mexec s sched) := by
  induction sched generalizing s with
  | nil => exact h
  | cons c cs ih => exact ih (h.step c)

/-- the rows of the specification fold carry the times of their calls -/
theorem callRows_times (st : EcuState) (cs : List Call) (hc : ∀ c ∈ cs, c.sendT ≤ c.doneT) :
    ∀ r ∈ callRows st cs, ∀ t, r.recvT = some t → r.sendT ≤ t := by
  induction cs generalizing st with
  | nil => simp [callRows]
  | cons c cs ih =>
    intro r hr t ht
    simp only [callRows, List.mem_append] at hr
    rcases hr with hr | hr
    · split at hr
      · simp only [List.mem_singleton] at hr
        subst hr
        simp only [mkRow] at ht ⊢
        split at ht
        · simp at ht; subst ht; exact hc c (by simp)
        · simp at ht
      · simp at hr
    · exact ih _ (fun c' h' => hc c' (by simp [h'])) r hr t ht

/-! ### the single-producer system is the one-task instance -/

/-- the several-producer state that corresponds to a single-producer state (between two of its choices the only task is
    idle and the mutex is free) -/
structure Sim (s : Sys) (m : MSys) : Prop where
  writer : m.toWriter = s.toWriter
  ecu : m.ecu = s.ecu
  clock : m.clock = s.clock
  task : ∃ td, m.tasks = [⟨td, .idle, s.stopped⟩] ∧ (s.stopped = false → td = s.todo)
  holder : m.holder = none
  waiters : m.waiters = []
  calls : m.calls.map (·.ex) = s.done

theorem Sim.init (h : List Exchange) : Sim (Sys.init h) (MSys.init [h]) :=
  ⟨rfl, rfl, rfl, ⟨h, rfl, fun _ => rfl⟩, rfl, rfl, rfl⟩

theorem mexec_append (m : MSys) (a b : List MChoice) : mexec m (a ++ b) = mexec (mexec m a) b := by
  simp [mexec, List.foldl_append]

theorem Sim.step {s : Sys} {m : MSys} (h : Sim s m) (c : Choice) : Sim (step s c) (mexec m (embedChoice s c)) := by
  obtain ⟨hw, he, hc, ⟨td, ht, htd⟩, hh, hwt, hcalls⟩ := h
  obtain ⟨mw, mecu, mclock, mtasks, mholder, mwaiters, mwire, mcalls⟩ := m
  simp only at hw he hc ht hh hwt hcalls
  subst hw he hc ht hh hwt
  cases c with
  | get => exact ⟨rfl, rfl, rfl, ⟨td, rfl, htd⟩, rfl, rfl, hcalls⟩
  | commit => exact ⟨rfl, rfl, rfl, ⟨td, rfl, htd⟩, rfl, rfl, hcalls⟩
  | retry => exact ⟨rfl, rfl, rfl, ⟨td, rfl, htd⟩, rfl, rfl, hcalls⟩
  | commitFail => exact ⟨rfl, rfl, rfl, ⟨td, rfl, htd⟩, rfl, rfl, hcalls⟩
  | cancel =>
    cases hs : s.stopped with
    | true =>
      refine ⟨?_, ?_, ?_, ⟨td, ?_, ?_⟩, ?_, ?_, ?_⟩ <;>
        simp [embedChoice, mexec, mstep, DbLog.step, hs, setTask, hcalls]
    | false =>
      refine ⟨?_, ?_, ?_, ⟨[], ?_, ?_⟩, ?_, ?_, ?_⟩ <;>
        simp [embedChoice, mexec, mstep, DbLog.step, hs, setTask, hcalls]
  | prod =>
    cases hs : s.stopped with
    | true =>
      refine ⟨?_, ?_, ?_, ⟨td, ?_, ?_⟩, ?_, ?_, ?_⟩ <;>
        simp [embedChoice, mexec, DbLog.step, hs, hcalls]
    | false =>
      have htd' := htd hs
      subst htd'
      cases hto : s.todo with
      | nil =>
        refine ⟨?_, ?_, ?_, ⟨[], ?_, ?_⟩, ?_, ?_, ?_⟩ <;>
          simp [embedChoice, mexec, DbLog.step, hs, hto, hcalls]
      | cons e rest =>
        cases himp : e.implicitOn <;>
        · refine ⟨?_, ?_, ?_, ⟨rest, ?_, ?_⟩, ?_, ?_, ?_⟩ <;>
            simp [embedChoice, mexec, mstep, DbLog.step, DbLog.logStep, MSys.logCall, MSys.release, hs, hto, himp,
                  setTask, hcalls, Nat.add_assoc]
  | cancelIn =>
    cases hs : s.stopped with
    | true =>
      refine ⟨?_, ?_, ?_, ⟨td, ?_, ?_⟩, ?_, ?_, ?_⟩ <;>
        simp [embedChoice, mexec, DbLog.step, hs, hcalls]
    | false =>
      have htd' := htd hs
      subst htd'
      cases hto : s.todo with
      | nil =>
        refine ⟨?_, ?_, ?_, ⟨[], ?_, ?_⟩, ?_, ?_, ?_⟩ <;>
          simp [embedChoice, mexec, mstep, DbLog.step, hs, hto, setTask, hcalls]
      | cons e rest =>
        cases himp : e.implicitOn <;>
        · refine ⟨?_, ?_, ?_, ⟨[], ?_, ?_⟩, ?_, ?_, ?_⟩ <;>
            simp [embedChoice, mexec, mstep, DbLog.step, DbLog.logStep, MSys.logCall, MSys.release, hs, hto, himp,
                  setTask, hcalls, Nat.add_assoc]

theorem Sim.exec {s : Sys} {m : MSys} (h : Sim s m) (sched : List Choice) :
    Sim (exec s sched) (mexec m (embedSched s sched)) := by
  induction sched generalizing s m with
  | nil => exact h
  | cons c cs ih =>
    simp only [embedSched, mexec_append, exec, List.foldl_cons]
    exact ih (h.step c)

end Gallia.DbLog
