import Gallia.Proofs.Lemmas.PenlogStr
/-
  C17 helper lemmas, part 2: numbers, the priority prefix, the JSON object of one record, the whole line.
-/
namespace Gallia.Penlog

/-! ### printable ASCII -/

/-- every byte is printable ASCII (0x20..0x7E): in particular no newline, no control character, no non-ASCII byte -/
def Printable (l : Bs) : Prop := ∀ b ∈ l, 0x20 ≤ b ∧ b < 0x7F

instance (l : Bs) : Decidable (Printable l) := by unfold Printable; infer_instance

theorem printable_append {a b : Bs} (ha : Printable a) (hb : Printable b) : Printable (a ++ b) := by
  intro x hx
  rcases List.mem_append.mp hx with h | h
  · exact ha x h
  · exact hb x h

theorem printable_cons {a : Nat} {b : Bs} (ha : 0x20 ≤ a ∧ a < 0x7F) (hb : Printable b) : Printable (a :: b) := by
  intro x hx
  rcases List.mem_cons.mp hx with h | h
  · subst h; exact ha
  · exact hb x h

theorem printable_nil : Printable [] := by intro x hx; cases hx

theorem not_mem_of_printable {l : Bs} (h : Printable l) : NL ∉ l := by
  intro hm; have := h NL hm; simp [NL] at this

/-! ### numbers -/

theorem natDec_digits (n : Nat) : ∀ d ∈ natDec n, isDigit d = true := by
  induction n using Nat.strongRecOn with
  | _ n ih =>
    intro d hd
    rw [natDec] at hd
    split at hd
    · simp at hd; subst hd; simp [isDigit]; omega
    · rcases List.mem_append.mp hd with h | h
      · exact ih (n / 10) (by omega) d h
      · simp at h; subst h; simp [isDigit]; omega

theorem natDec_ne_nil (n : Nat) : natDec n ≠ [] := by
  rw [natDec]; split <;> simp

theorem natDec_printable (n : Nat) : Printable (natDec n) := by
  intro d hd
  have := natDec_digits n d hd
  simp [isDigit] at this; omega

theorem digitsVal_snoc (a : Bs) (d : Nat) : digitsVal (a ++ [d]) = digitsVal a * 10 + (d - 48) := by
  simp [digitsVal, List.foldl_append]

theorem digitsVal_natDec (n : Nat) : digitsVal (natDec n) = n := by
  induction n using Nat.strongRecOn with
  | _ n ih =>
    rw [natDec]
    split
    · simp [digitsVal]
    · rw [digitsVal_snoc, ih (n / 10) (by omega)]; omega

theorem takeWhile_append_all {p : Nat → Bool} (a rest : Bs) (h : ∀ d ∈ a, p d = true) :
    (a ++ rest).takeWhile p = a ++ rest.takeWhile p := by
  induction a with
  | nil => simp
  | cons x xs ih =>
    have hx := h x (by simp)
    simp [hx, ih (fun d hd => h d (by simp [hd]))]

theorem dropWhile_append_all {p : Nat → Bool} (a rest : Bs) (h : ∀ d ∈ a, p d = true) :
    (a ++ rest).dropWhile p = rest.dropWhile p := by
  induction a with
  | nil => simp
  | cons x xs ih =>
    have hx := h x (by simp)
    simp [hx, ih (fun d hd => h d (by simp [hd]))]

/-- a written number followed by a non-digit parses back to the number -/
theorem parseNat_natDec (n c : Nat) (t : Bs) (hc : isDigit c = false) :
    parseNat (natDec n ++ c :: t) = some (n, c :: t) := by
  unfold parseNat
  have h1 := takeWhile_append_all (p := isDigit) (natDec n) (c :: t) (natDec_digits n)
  have h2 := dropWhile_append_all (p := isDigit) (natDec n) (c :: t) (natDec_digits n)
  simp only [List.takeWhile_cons, List.dropWhile_cons, hc] at h1 h2
  simp only [h1, h2]
  have : (natDec n).isEmpty = false := by
    cases h : natDec n with
    | nil => exact absurd h (natDec_ne_nil n)
    | cons _ _ => rfl
  simp [this, digitsVal_natDec]

/-! ### literals -/

theorem expect_append (k rest : Bs) : expect k (k ++ rest) = some rest := by
  induction k with
  | nil => simp [expect]
  | cons x xs ih => simp [expect, ih]

theorem jsonStr_append (s : Str) (x : Bs) : jsonStr s ++ x = 0x22 :: (escBody s ++ 0x22 :: x) := by
  simp [jsonStr]

/-! ### prefix -/

theorem parsePrefix_prefixOf (p : Nat) (rest : Bs) : parsePrefix (prefixOf p ++ rest) = some (p, rest) := by
  have : prefixOf p ++ rest = 60 :: (natDec p ++ 62 :: rest) := by simp [prefixOf]
  rw [this]
  simp [parsePrefix, parseNat_natDec p 62 rest (by decide)]

/-! ### optional text, tags -/

theorem parseOptStr_json (o : Option Str) (ho : ∀ s ∈ o, okText s) (rest : Bs) :
    parseOptStr (jsonOptStr o ++ rest) = some (o, rest) := by
  cases o with
  | none => simp [jsonOptStr, parseOptStr, kNull, expect]
  | some s =>
    have hs := ho s rfl
    have := parseStr_jsonStr s hs rest
    rw [jsonOptStr, jsonStr_append] at *
    simp [parseOptStr, this]

theorem parseItems_items (ss : List Str) (hss : ∀ s ∈ ss, okText s) (rest : Bs) (fuel : Nat)
    (hf : ss.length < fuel) :
    parseItems fuel (ss.flatMap (fun t => kSep ++ jsonStr t) ++ 93 :: rest) = some (ss, rest) := by
  induction ss generalizing fuel with
  | nil =>
    cases fuel with
    | zero => simp at hf
    | succ f => simp [parseItems]
  | cons s ss ih =>
    cases fuel with
    | zero => simp at hf
    | succ f =>
      have hs := hss s (by simp)
      have ih' := ih (fun t ht => hss t (by simp [ht])) f (by simp at hf; omega)
      have e : List.flatMap (fun t => kSep ++ jsonStr t) (s :: ss) ++ 93 :: rest =
          44 :: 32 :: (jsonStr s ++ (List.flatMap (fun t => kSep ++ jsonStr t) ss ++ 93 :: rest)) := by
        simp [kSep]
      rw [e]
      simp [parseItems, parseStr_jsonStr s hs, ih']

theorem length_le_flatMap_items (ss : List Str) :
    ss.length ≤ (ss.flatMap (fun t => kSep ++ jsonStr t)).length := by
  induction ss with
  | nil => simp
  | cons s ss ih =>
    rw [List.flatMap_cons, List.length_append, List.length_cons]
    have : 1 ≤ (kSep ++ jsonStr s).length := by simp [kSep]
    omega

theorem parseTags_open (x : Bs) :
    parseTags (91 :: 0x22 :: x) =
      match parseStr (0x22 :: x) with
      | some (s, r) =>
        match parseItems (r.length + 1) r with
        | some (ss, r') => some (some (s :: ss), r')
        | none => none
      | none => none := by
  cases h : parseStr (0x22 :: x) with
  | none => simp [parseTags, h]
  | some p =>
    obtain ⟨s, r⟩ := p
    cases h2 : parseItems (r.length + 1) r with
    | none => simp [parseTags, h, h2]
    | some q => simp [parseTags, h, h2]

theorem parseTags_json (o : Option (List Str)) (ho : ∀ t ∈ o, ∀ s ∈ t, okText s) (rest : Bs) :
    parseTags (jsonTags o ++ rest) = some (o, rest) := by
  cases o with
  | none => simp [jsonTags, parseTags, kNull, expect]
  | some l =>
    cases l with
    | nil => simp [jsonTags, parseTags]
    | cons s ss =>
      have hl := ho (s :: ss) rfl
      have hs := hl s (by simp)
      have hss : ∀ t ∈ ss, okText t := fun t ht => hl t (by simp [ht])
      have e : jsonTags (some (s :: ss)) ++ rest =
          91 :: 0x22 :: (escBody s ++ 0x22 :: (ss.flatMap (fun t => kSep ++ jsonStr t) ++ 93 :: rest)) := by
        simp [jsonTags, jsonStr]
      have hp := parseStr_jsonStr s hs (ss.flatMap (fun t => kSep ++ jsonStr t) ++ 93 :: rest)
      rw [jsonStr_append] at hp
      have hi := parseItems_items ss hss rest
        ((ss.flatMap (fun t => kSep ++ jsonStr t) ++ 93 :: rest).length + 1)
        (by have := length_le_flatMap_items ss; rw [List.length_append]; omega)
      rw [e, parseTags_open, hp]
      simp only []
      rw [hi]

theorem jsonOptStr_printable (o : Option Str) : Printable (jsonOptStr o) := by
  cases o with
  | none => simp only [jsonOptStr]; decide
  | some s => exact jsonStr_printable s

theorem jsonTags_printable (o : Option (List Str)) : Printable (jsonTags o) := by
  cases o with
  | none => simp only [jsonTags]; decide
  | some l =>
    cases l with
    | nil => simp only [jsonTags]; decide
    | cons s ss =>
      simp only [jsonTags]
      refine printable_cons (by decide) (printable_append (jsonStr_printable s) (printable_append ?_ (by decide)))
      intro b hb
      simp only [List.mem_flatMap] at hb
      obtain ⟨t, _, hb⟩ := hb
      exact printable_append (by decide) (jsonStr_printable t) b hb

/-! ### the JSON object of a record -/

theorem json_printable (r : Rec) : Printable (json r) := by
  unfold json
  repeat' apply printable_append
  all_goals first
    | exact jsonStr_printable _
    | exact natDec_printable _
    | exact jsonTags_printable _
    | exact jsonOptStr_printable _
    | decide

theorem prefixOf_printable (p : Nat) : Printable (prefixOf p) :=
  printable_cons (by decide) (printable_append (natDec_printable p) (by decide))

theorem parseNat_natDec_kVersionTags (n : Nat) (rest : Bs) :
    parseNat (natDec n ++ (kVersionTags ++ rest)) = some (n, kVersionTags ++ rest) :=
  parseNat_natDec n 44 _ (by decide)

theorem parseNat_natDec_kLevelName (n : Nat) (rest : Bs) :
    parseNat (natDec n ++ (kLevelName ++ rest)) = some (n, kLevelName ++ rest) :=
  parseNat_natDec n 44 _ (by decide)

/-- the object written for a record (followed by the line terminator or by nothing) parses back to the record -/
theorem parseJson_json (r : Rec) (h : r.WF) (tl : Bs) (htl : tl = [] ∨ tl = [NL]) : parseJson (json r ++ tl) = some r := by
  obtain ⟨h1, h2, h3, h4, h5, h6, h7, h8, h9⟩ := h
  simp only [json, parseJson, List.append_assoc, expect_append, parseStr_jsonStr _ h1, parseStr_jsonStr _ h2,
    parseStr_jsonStr _ h3, parseStr_jsonStr _ h4, parseStr_jsonStr _ h6, parseStr_jsonStr _ h8, parseStr_jsonStr _ h9,
    parseNat_natDec_kVersionTags, parseNat_natDec_kLevelName, parseTags_json _ h5, parseOptStr_json _ h7,
    Option.bind_some, bind]
  have : expect [125] (125 :: tl) = some tl := expect_append [125] tl
  simp [htl]

/-! ### the whole line -/

theorem json_head (r : Rec) (tl : Bs) : ∃ t, json r ++ tl = 123 :: t := by
  unfold json kModule
  exact ⟨_, rfl⟩

theorem writeLine_true (r : Rec) : writeLine true r = 60 :: (natDec r.prio ++ 62 :: (json r ++ [NL])) := by
  simp [writeLine, prefixOf]

theorem writeLine_false (r : Rec) : writeLine false r = json r ++ [NL] := by
  simp [writeLine]

/-- a written line is its printable body followed by the terminator -/
theorem writeLine_body (pfx : Bool) (r : Rec) :
    ∃ body, writeLine pfx r = body ++ [NL] ∧ Printable body := by
  refine ⟨(if pfx then prefixOf r.prio else []) ++ json r, by simp [writeLine], ?_⟩
  apply printable_append _ (json_printable r)
  cases pfx
  · exact printable_nil
  · exact prefixOf_printable r.prio

theorem parsePrefix_writeLine (r : Rec) : parsePrefix (writeLine true r) = some (r.prio, json r ++ [NL]) := by
  have := parsePrefix_prefixOf r.prio (json r ++ [NL])
  simpa [writeLine] using this

theorem parseLine_writeLine (pfx : Bool) (r : Rec) (h : r.WF) : parseLine (writeLine pfx r) = some r := by
  cases pfx
  · rw [writeLine_false]
    obtain ⟨t, ht⟩ := json_head r [NL]
    have := parseJson_json r h [NL] (Or.inr rfl)
    rw [ht] at this ⊢
    simpa [parseLine] using this
  · have hp := parsePrefix_writeLine r
    have hj := parseJson_json r h [NL] (Or.inr rfl)
    rw [writeLine_true] at hp ⊢
    simp [parseLine, hp, hj]

theorem linePrio_writeLine (pfx : Bool) (r : Rec) (h : r.WF) : linePrio (writeLine pfx r) = some r.prio := by
  cases pfx
  · rw [writeLine_false]
    obtain ⟨t, ht⟩ := json_head r [NL]
    have := parseJson_json r h [NL] (Or.inr rfl)
    rw [ht] at this ⊢
    simp [linePrio, this]
  · have hp := parsePrefix_writeLine r
    rw [writeLine_true] at hp ⊢
    simp [linePrio, hp]

end Gallia.Penlog
