import Gallia.Proofs.Lemmas.Client
import Gallia.Spec.ClientIOSpec
/-
  Helper lemmas for the widened C04 model (`Model/ClientIO.lean`): facts about one pass through the attempt loop
  (`attemptStepX`), lifted to `attemptsX` by a three-case induction.
-/
namespace Gallia.ClientIO
open Gallia.Client Gallia.ClientSpec Gallia.ClientIOSpec

/-! ### counting over traces -/

@[simp] theorem nWritesX_nil : nWritesX [] = 0 := rfl
@[simp] theorem nWritesOkX_nil : nWritesOkX [] = 0 := rfl
@[simp] theorem nReadsX_nil : nReadsX [] = 0 := rfl
@[simp] theorem nReconnectsX_nil : nReconnectsX [] = 0 := rfl
@[simp] theorem elapsedOfX_nil : elapsedOfX [] = 0 := rfl
@[simp] theorem sleepsOfX_nil : sleepsOfX [] = [] := rfl

@[simp] theorem nWritesX_append (a b : List OpX) : nWritesX (a ++ b) = nWritesX a + nWritesX b := by
  simp [nWritesX, List.countP_append]
@[simp] theorem nWritesOkX_append (a b : List OpX) : nWritesOkX (a ++ b) = nWritesOkX a + nWritesOkX b := by
  simp [nWritesOkX, List.countP_append]
@[simp] theorem nReadsX_append (a b : List OpX) : nReadsX (a ++ b) = nReadsX a + nReadsX b := by
  simp [nReadsX, List.countP_append]
@[simp] theorem nReconnectsX_append (a b : List OpX) : nReconnectsX (a ++ b) = nReconnectsX a + nReconnectsX b := by
  simp [nReconnectsX, List.countP_append]
@[simp] theorem elapsedOfX_append (a b : List OpX) : elapsedOfX (a ++ b) = elapsedOfX a + elapsedOfX b := by
  simp [elapsedOfX, List.sum_append]
@[simp] theorem sleepsOfX_append (a b : List OpX) : sleepsOfX (a ++ b) = sleepsOfX a ++ sleepsOfX b := by
  simp [sleepsOfX, List.filterMap_append]

@[simp] theorem nWritesX_cons (o : OpX) (t : List OpX) : nWritesX (o :: t) = (if o.isWr then 1 else 0) + nWritesX t := by
  simp [nWritesX, List.countP_cons]; omega
@[simp] theorem nWritesOkX_cons (o : OpX) (t : List OpX) :
    nWritesOkX (o :: t) = (if o.isWrOk then 1 else 0) + nWritesOkX t := by
  simp [nWritesOkX, List.countP_cons]; omega
@[simp] theorem nReadsX_cons (o : OpX) (t : List OpX) : nReadsX (o :: t) = (if o.isRd then 1 else 0) + nReadsX t := by
  simp [nReadsX, List.countP_cons]; omega
@[simp] theorem nReconnectsX_cons (o : OpX) (t : List OpX) :
    nReconnectsX (o :: t) = (if o.isRc then 1 else 0) + nReconnectsX t := by
  simp [nReconnectsX, List.countP_cons]; omega
@[simp] theorem elapsedOfX_cons (o : OpX) (t : List OpX) : elapsedOfX (o :: t) = o.dur + elapsedOfX t := by
  simp [elapsedOfX]
@[simp] theorem sleepsOfX_cons (o : OpX) (t : List OpX) :
    sleepsOfX (o :: t) = (match o.sleep? with | some d => [d] | none => []) ++ sleepsOfX t := by
  simp only [sleepsOfX, List.filterMap_cons]; cases o.sleep? <;> simp

@[simp] theorem isWr_wrX (a r d) : OpX.isWr (.wr a r d) = true := rfl
@[simp] theorem isWr_rdX (k t d) : OpX.isWr (.rd k t d) = false := rfl
@[simp] theorem isWr_slX (d) : OpX.isWr (.sl d) = false := rfl
@[simp] theorem isWr_rcX (r) : OpX.isWr (.rc r) = false := rfl
@[simp] theorem isRd_wrX (a r d) : OpX.isRd (.wr a r d) = false := rfl
@[simp] theorem isRd_rdX (k t d) : OpX.isRd (.rd k t d) = true := rfl
@[simp] theorem isRd_slX (d) : OpX.isRd (.sl d) = false := rfl
@[simp] theorem isRd_rcX (r) : OpX.isRd (.rc r) = false := rfl
@[simp] theorem isRc_wrX (a r d) : OpX.isRc (.wr a r d) = false := rfl
@[simp] theorem isRc_rdX (k t d) : OpX.isRc (.rd k t d) = false := rfl
@[simp] theorem isRc_slX (d) : OpX.isRc (.sl d) = false := rfl
@[simp] theorem isRc_rcX (r) : OpX.isRc (.rc r) = true := rfl
@[simp] theorem dur_wrX (a r d) : OpX.dur (.wr a r d) = d := rfl
@[simp] theorem dur_rdX (k t d) : OpX.dur (.rd k t d) = d := rfl
@[simp] theorem dur_slX (d) : OpX.dur (.sl d) = d := rfl
@[simp] theorem dur_rcX (r) : OpX.dur (.rc r) = 0 := rfl
@[simp] theorem sleep_wrX (a r d) : OpX.sleep? (.wr a r d) = none := rfl
@[simp] theorem sleep_rdX (k t d) : OpX.sleep? (.rd k t d) = none := rfl
@[simp] theorem sleep_slX (d) : OpX.sleep? (.sl d) = some d := rfl
@[simp] theorem sleep_rcX (r) : OpX.sleep? (.rc r) = none := rfl

/-! ### configuration -/

@[simp] theorem orZero_some (t : Nat) : orZero (some t) = t := by
  cases t <;> simp [orZero, truthy]
@[simp] theorem orZero_none : orZero none = 0 := rfl

theorem readTmo_some (st : Option Nat) (t : Nat) : readTmo st (some t) = some t := rfl

theorem maxNTX_eq (c : CfgX) : maxNTX c = maxNT c.base := rfl
theorem waitX_eq (c : CfgX) (i : Nat) : waitX c i = wait c.base i := rfl

/-! ### the lifted responsePending loop -/

theorem liftPend_forget (c : CfgX) (o : Op) (h : o.isRd = true) : (liftPend c o).forget = o := by
  cases o <;> simp_all [liftPend, OpX.forget, readTmo, Op.isRd]

theorem nWritesX_liftPend (c : CfgX) (t : List Op) : nWritesX (t.map (liftPend c)) = nWrites t := by
  induction t with
  | nil => rfl
  | cons o t ih => cases o <;> simp [liftPend, ih, Op.isWr]
theorem nReadsX_liftPend (c : CfgX) (t : List Op) : nReadsX (t.map (liftPend c)) = nReads t := by
  induction t with
  | nil => rfl
  | cons o t ih => cases o <;> simp [liftPend, ih, Op.isRd]
theorem nReconnectsX_liftPend (c : CfgX) (t : List Op) : nReconnectsX (t.map (liftPend c)) = nReconnects t := by
  induction t with
  | nil => rfl
  | cons o t ih => cases o <;> simp [liftPend, ih, Op.isRc]
theorem elapsedOfX_liftPend (c : CfgX) (t : List Op) : elapsedOfX (t.map (liftPend c)) = elapsedOf t := by
  induction t with
  | nil => rfl
  | cons o t ih => cases o <;> simp [liftPend, ih, Op.dur]
theorem sleepsOfX_liftPend (c : CfgX) (t : List Op) : sleepsOfX (t.map (liftPend c)) = sleepsOf t := by
  induction t with
  | nil => rfl
  | cons o t ih => cases o <;> simp [liftPend, ih]

/-! ### one pass through the attempt loop -/

def StepX.ops : StepX → List OpX
  | .fin _ t => t
  | .next t _ _ _ => t

/-- the four ways the except clauses continue -/
theorem faultX_cases (c : CfgX) (io : Script) (i k m : Nat) (rc : Bool) (t : List OpX) :
    (i < c.maxRetry ∧ rc = false ∧ faultX c io i k m rc t = .next (t ++ [.sl (waitX c i)]) k m (.missing false)) ∨
    (i < c.maxRetry ∧ rc = true ∧ io.rc m = .ok ∧
      faultX c io i k m rc t = .next (t ++ [.sl (waitX c i), .rc .ok]) k (m+1) (.missing true)) ∨
    (∃ e, i < c.maxRetry ∧ rc = true ∧ io.rc m = .fail e ∧
      faultX c io i k m rc t = .fin (.reconnectFailed m e) (t ++ [.sl (waitX c i), .rc (.fail e)])) ∨
    (c.maxRetry ≤ i ∧ faultX c io i k m rc t = .next t k m (.missing rc)) := by
  unfold faultX
  by_cases hi : i < c.maxRetry
  · cases rc
    · simp [hi]
    · cases hr : io.rc m with
      | ok => simp [hi]
      | fail e => simp [hi]
  · simp [hi]; omega

/-- what one attempt does, in numbers -/
structure StepFacts (c : CfgX) (i k m : Nat) (st : StepX) : Prop where
  writes : nWritesX st.ops = 1
  reads : nReadsX st.ops ≤ attemptReadsBound c.base
  time : elapsedOfX st.ops ≤ attemptTimeBound c.base i
  sleeps : sleepsOfX st.ops = [] ∨ (i < c.maxRetry ∧ sleepsOfX st.ops = [waitX c i])
  nextK : ∀ t k' m' l, st = .next t k' m' l → k' = k + nReadsX t ∧ m' = m + nReconnectsX t ∧ nReconnectsX t ≤ 1

theorem attemptReadsBound_pos (c : Cfg) : 1 ≤ attemptReadsBound c := by
  unfold attemptReadsBound; omega

theorem StepFacts.fault (c : CfgX) (io : Script) (i k k' m : Nat) (rc : Bool) (t : List OpX)
    (hw : nWritesX t = 1) (hr : nReadsX t ≤ attemptReadsBound c.base)
    (ht : elapsedOfX t + waitX c i ≤ attemptTimeBound c.base i) (hs : sleepsOfX t = [])
    (hk : k' = k + nReadsX t) (hc : nReconnectsX t = 0) :
    StepFacts c i k m (faultX c io i k' m rc t) := by
  rcases faultX_cases c io i k' m rc t with ⟨h1, _, h⟩ | ⟨h1, _, _, h⟩ | ⟨e, h1, _, _, h⟩ | ⟨h1, h⟩ <;> rw [h]
  · exact ⟨by simp [StepX.ops, hw], by simpa [StepX.ops] using hr, by simpa [StepX.ops] using ht,
      .inr ⟨h1, by simp [StepX.ops, hs]⟩, by intro t k' m' l h; cases h; simp [hk, hc]⟩
  · exact ⟨by simp [StepX.ops, hw], by simpa [StepX.ops] using hr, by simpa [StepX.ops] using ht,
      .inr ⟨h1, by simp [StepX.ops, hs]⟩, by intro t k' m' l h; cases h; simp [hk, hc]⟩
  · exact ⟨by simp [StepX.ops, hw], by simpa [StepX.ops] using hr, by simpa [StepX.ops] using ht,
      .inr ⟨h1, by simp [StepX.ops, hs]⟩, by intro t k' m' l h; cases h⟩
  · exact ⟨by simp [StepX.ops, hw], by simpa [StepX.ops] using hr, by simp [StepX.ops]; omega,
      .inl (by simp [StepX.ops, hs]), by intro t k' m' l h; cases h; simp [hk, hc]⟩

theorem step_facts (c : CfgX) (io : Script) (i k m : Nat) (last : Out) :
    StepFacts c i k m (attemptStepX c io i k m last) := by
  have hb := attemptReadsBound_pos c.base
  have hT : attemptTimeBound c.base i =
      max (orZero c.timeout) c.lat + pendReadsBound c.base 1 0 * max c.lim.waiting c.lat + waitX c i := rfl
  have hA : attemptReadsBound c.base = 1 + pendReadsBound c.base 1 0 := rfl
  fun_cases attemptStepX c io i k m last
  · exact StepFacts.fault c io i k k m false _ (by simp) (by simp) (by simp [hT, tmoDur]; omega) (by simp) (by simp) (by simp)
  · exact StepFacts.fault c io i k k m true _ (by simp) (by simp) (by simp [hT]) (by simp) (by simp) (by simp)
  · exact StepFacts.fault c io i k (k+1) m false _ (by simp) (by simpa using hb) (by simp [hT, tmoDur]; omega) (by simp)
      (by simp) (by simp)
  · exact StepFacts.fault c io i k (k+1) m true _ (by simp) (by simpa using hb) (by simp [hT]; omega) (by simp)
      (by simp) (by simp)
  · exact StepFacts.fault c io i k (k+1) m true _ (by simp) (by simpa using hb) (by simp [hT]; omega) (by simp)
      (by simp) (by simp)
  · exact ⟨by simp [StepX.ops], by simpa [StepX.ops] using hb, by simp [StepX.ops, hT]; omega, .inl (by simp [StepX.ops]),
      by intro t k' m' l h; cases h⟩
  · rename_i h
    exact ⟨by simp [StepX.ops], by simpa [StepX.ops] using hb, by simp [StepX.ops, hT]; omega,
      .inr ⟨by omega, by simp [StepX.ops]⟩, by intro t k' m' l h; cases h; simp⟩
  · exact ⟨by simp [StepX.ops], by simpa [StepX.ops] using hb, by simp [StepX.ops, hT]; omega, .inl (by simp [StepX.ops]),
      by intro t k' m' l h; cases h⟩
  · exact ⟨by simp [StepX.ops], by simpa [StepX.ops] using hb, by simp [StepX.ops, hT]; omega, .inl (by simp [StepX.ops]),
      by intro t k' m' l h; cases h⟩
  · exact ⟨by simp [StepX.ops], by simpa [StepX.ops] using hb, by simp [StepX.ops, hT]; omega, .inl (by simp [StepX.ops]),
      by intro t k' m' l h; cases h⟩
  · exact ⟨by simp [StepX.ops], by simpa [StepX.ops] using hb, by simp [StepX.ops, hT]; omega, .inl (by simp [StepX.ops]),
      by intro t k' m' l h; cases h⟩
  all_goals
    rename_i hp
    have pf := pend_facts c.base io.rd (k+1) 1 0
    have pr := pend_reads_le c.base io.rd (k+1) 1 0
    rw [hp] at pf pr
    have h1 := pf.nw; have h2 := pf.time; have h3 := pf.sl; have h4 := pf.nrc; have h5 := pf.next
    simp only at h1 h2 h3 h4 h5 pr
    have hm := Nat.mul_le_mul_right (max c.lim.waiting c.lat) pr
    have hl : c.base.lat = c.lat := rfl
    have hw : c.base.lim = c.lim := rfl
    rw [hl, hw] at h2
  · exact ⟨by simp [StepX.ops, nWritesX_liftPend, h1], by simp [StepX.ops, nReadsX_liftPend, hA]; omega,
      by simp [StepX.ops, elapsedOfX_liftPend, hT]; omega, .inl (by simp [StepX.ops, sleepsOfX_liftPend, h3]),
      by intro t k' m' l h; cases h⟩
  · exact ⟨by simp [StepX.ops, nWritesX_liftPend, h1], by simp [StepX.ops, nReadsX_liftPend, hA]; omega,
      by simp [StepX.ops, elapsedOfX_liftPend, hT]; omega, .inl (by simp [StepX.ops, sleepsOfX_liftPend, h3]),
      by intro t k' m' l h; cases h; simp [nReadsX_liftPend, nReconnectsX_liftPend, h4, h5]; omega⟩
  · exact StepFacts.fault c io i k _ m true _ (by simp [nWritesX_liftPend, h1]) (by simp [nReadsX_liftPend, hA]; omega)
      (by simp [elapsedOfX_liftPend, hT]; omega) (by simp [sleepsOfX_liftPend, h3])
      (by simp [nReadsX_liftPend, h5]; omega) (by simp [nReconnectsX_liftPend, h4])

/-! ### the attempt loop: bounds -/

theorem attemptsX_done (c : CfgX) (io : Script) (i k m : Nat) (last : Out) (h : c.maxRetry < i) :
    attemptsX c io i k m last = (.base last, []) := by
  rw [attemptsX]; simp [h]

structure AttBoundsX (c : CfgX) (i : Nat) (r : OutX × List OpX) : Prop where
  writes : nWritesX r.2 ≤ c.maxRetry + 1 - i
  reads : nReadsX r.2 ≤ (c.maxRetry + 1 - i) * attemptReadsBound c.base
  time : elapsedOfX r.2 ≤ timeBoundFrom c.base i (c.maxRetry + 1 - i)

theorem attemptsX_bounds (c : CfgX) (io : Script) (i k m : Nat) (last : Out) :
    AttBoundsX c i (attemptsX c io i k m last) := by
  fun_induction attemptsX c io i k m last with
  | case1 => exact ⟨by simp, by simp, by simp⟩
  | case2 i k m last hi o t hst =>
    have sf := step_facts c io i k m last
    rw [hst] at sf
    obtain ⟨n, hn⟩ : ∃ n, c.maxRetry + 1 - i = n + 1 := ⟨c.maxRetry - i, by omega⟩
    have h1 := sf.writes; have h2 := sf.reads; have h3 := sf.time
    simp only [StepX.ops] at h1 h2 h3
    refine ⟨?_, ?_, ?_⟩ <;> rw [hn]
    · simp [h1]
    · rw [Nat.add_mul]; simp; omega
    · simp [timeBoundFrom]; omega
  | case3 i k m last hi t k' m' l hst ih =>
    have sf := step_facts c io i k m last
    rw [hst] at sf
    obtain ⟨n, hn⟩ : ∃ n, c.maxRetry + 1 - i = n + 1 := ⟨c.maxRetry - i, by omega⟩
    have hn' : c.maxRetry + 1 - (i+1) = n := by omega
    have h1 := sf.writes; have h2 := sf.reads; have h3 := sf.time
    simp only [StepX.ops] at h1 h2 h3
    obtain ⟨a, b, e⟩ := ih
    rw [hn'] at a b e
    refine ⟨?_, ?_, ?_⟩ <;> rw [hn]
    · simp [preX, h1]; omega
    · rw [Nat.add_mul]; simp [preX]; omega
    · simp [preX, timeBoundFrom]; omega

/-- backoff sleeps of the attempts `i, i+1, …`: a sublist (same order) of `wait i, …, wait (maxRetry-1)` -/
theorem attemptsX_sleeps (c : CfgX) (io : Script) (i k m : Nat) (last : Out) :
    (sleepsOfX (attemptsX c io i k m last).2).Sublist ((List.range' i (c.maxRetry - i)).map (waitX c)) := by
  fun_induction attemptsX c io i k m last with
  | case1 => simp
  | case2 i k m last hi o t hst =>
    have sf := (step_facts c io i k m last).sleeps
    rw [hst] at sf
    simp only [StepX.ops] at sf
    rcases sf with h | ⟨hl, h⟩ <;> rw [h]
    · simp
    · have : c.maxRetry - i = (c.maxRetry - (i+1)) + 1 := by omega
      rw [this, List.range'_succ]; simp
  | case3 i k m last hi t k' m' l hst ih =>
    have sf := (step_facts c io i k m last).sleeps
    rw [hst] at sf
    simp only [StepX.ops] at sf
    simp only [preX, sleepsOfX_append]
    by_cases hl : i < c.maxRetry
    · have : c.maxRetry - i = (c.maxRetry - (i+1)) + 1 := by omega
      rw [this, List.range'_succ, List.map_cons]
      rcases sf with h | ⟨_, h⟩ <;> rw [h]
      · exact List.Sublist.cons _ (by simpa using ih)
      · simpa using ih
    · rw [attemptsX_done c io (i+1) k' m' _ (by omega)]
      rcases sf with h | ⟨h', _⟩
      · simp [h]
      · omega

/-! ### soundness with respect to the widened specification -/

/-- the limits the specification is instantiated with -/
def boundsX (c : CfgX) : Bounds := ⟨c.lim.maxPending, maxNTX c⟩

theorem boundsX_eq (c : CfgX) : boundsX c = bounds c.base := rfl

theorem pend_soundX (c : CfgX) (io : Script) (k np nt b j m : Nat) (o : OutX)
    (h : match (pendingLoop c.base io.rd k np nt).1 with
      | .done o' => o = .base o'
      | .silence k' => (b = 0 ∧ o = .base (.missing false)) ∨
          (∃ b', b = b' + 1 ∧ ImpliedX (boundsX c) io .send b' j k' m o)
      | .lost k' => (b = 0 ∧ o = .base (.missing true)) ∨
          (∃ b', b = b' + 1 ∧ ((io.rc m = .ok ∧ ImpliedX (boundsX c) io .send b' j k' (m+1) o) ∨
            (∃ e, io.rc m = .fail e ∧ o = .reconnectFailed m e)))) :
    ImpliedX (boundsX c) io (.pend np nt) b j k m o := by
  generalize hs : io.rd = s at h
  have hs' : ∀ k, io.rd k = s k := fun k => by rw [hs]
  fun_induction pendingLoop c.base s k np nt with
  | case1 k np nt hk hl =>
    rcases h with ⟨rfl, rfl⟩ | ⟨b', rfl, hi⟩
    · exact .silenceLast (by rw [hs', hk]) hl
    · exact .silenceRetry (by rw [hs', hk]) hl hi
  | case2 k np nt hk hl ih => exact .quiet (by rw [hs', hk]) (by simp [boundsX, maxNTX_eq]; omega) (ih h)
  | case3 k np nt hk =>
    rcases h with ⟨rfl, rfl⟩ | ⟨b', rfl, ⟨hr, hi⟩ | ⟨e, hr, rfl⟩⟩
    · exact .lostLast rfl (by simp [hs', hk, Ev.lost])
    · exact .lostRetry rfl (by simp [hs', hk, Ev.lost]) hr hi
    · exact .lostNoReconnect rfl (by simp [hs', hk, Ev.lost]) hr
  | case4 k np nt hk =>
    rcases h with ⟨rfl, rfl⟩ | ⟨b', rfl, ⟨hr, hi⟩ | ⟨e, hr, rfl⟩⟩
    · exact .lostLast rfl (by simp [hs', hk, Ev.lost])
    · exact .lostRetry rfl (by simp [hs', hk, Ev.lost]) hr hi
    · exact .lostNoReconnect rfl (by simp [hs', hk, Ev.lost]) hr
  | case5 k np nt hk => subst h; exact .illegal rfl (by simp [hs', hk, Ev.illegal])
  | case6 k np nt hk => subst h; exact .illegal rfl (by simp [hs', hk, Ev.illegal])
  | case7 k np nt hk hl => subst h; exact .pendStuck (by rw [hs', hk]) hl
  | case8 k np nt hk hl ih => exact .pendAgain (by rw [hs', hk]) (by simp [boundsX, CfgX.base] at hl ⊢; omega) (ih h)
  | case9 k np nt hk => subst h; exact .busyAfterPending (by rw [hs', hk])
  | case10 k np nt hk => subst h; exact .final rfl (by simp [hs', hk, Ev.final])
  | case11 k np nt hk => subst h; exact .final rfl (by simp [hs', hk, Ev.final])

/-- what a step must establish about the goal `G b o` ("with `b` retransmissions left the script implies `o`") -/
def StepSound (c : CfgX) (io : Script) (i : Nat) (G : Nat → OutX → Prop) : StepX → Prop
  | .fin o _ => G (c.maxRetry - i) o
  | .next _ k' m' l => ∀ o,
      (if i < c.maxRetry then ImpliedX (boundsX c) io .send (c.maxRetry - (i+1)) (i+1) k' m' o else o = .base l) →
      G (c.maxRetry - i) o

theorem fault_sound (c : CfgX) (io : Script) (i k' m : Nat) (rc : Bool) (t : List OpX) (G : Nat → OutX → Prop)
    (hi : i ≤ c.maxRetry)
    (retry : ∀ b o, (rc = true → io.rc m = .ok) →
      ImpliedX (boundsX c) io .send b (i+1) k' (if rc then m+1 else m) o → G (b+1) o)
    (rcFail : rc = true → ∀ b e, io.rc m = .fail e → G (b+1) (.reconnectFailed m e))
    (last : G 0 (.base (.missing rc))) :
    StepSound c io i G (faultX c io i k' m rc t) := by
  rcases faultX_cases c io i k' m rc t with ⟨h1, h2, h⟩ | ⟨h1, h2, h3, h⟩ | ⟨e, h1, h2, h3, h⟩ | ⟨h1, h⟩ <;> rw [h]
  · intro o ho
    have : c.maxRetry - i = (c.maxRetry - (i+1)) + 1 := by omega
    rw [this]; simp only [h1, if_true] at ho
    exact retry _ _ (by simp [h2]) (by simpa [h2] using ho)
  · intro o ho
    have : c.maxRetry - i = (c.maxRetry - (i+1)) + 1 := by omega
    rw [this]; simp only [h1, if_true] at ho
    exact retry _ _ (fun _ => h3) (by simpa [h2] using ho)
  · have : c.maxRetry - i = (c.maxRetry - (i+1)) + 1 := by omega
    simp only [StepSound]; rw [this]
    exact rcFail h2 _ _ h3
  · intro o ho
    have h0 : c.maxRetry - i = 0 := by omega
    have : ¬ i < c.maxRetry := by omega
    simp only [this, if_false] at ho
    rw [h0, ho]; exact last

theorem step_sound (c : CfgX) (io : Script) (i k m : Nat) (last : Out) (hi : i ≤ c.maxRetry) :
    StepSound c io i (fun b o => ImpliedX (boundsX c) io .send b i k m o) (attemptStepX c io i k m last) := by
  fun_cases attemptStepX c io i k m last
  · rename_i hw
    exact fault_sound c io i k m false _ _ hi (fun b o _ h => .sendSilentRetry hw (by simpa using h))
      (by simp) (.sendSilentLast hw)
  · rename_i hw
    exact fault_sound c io i k m true _ _ hi (fun b o hr h => .sendLostRetry hw (hr rfl) (by simpa using h))
      (fun _ b e he => .sendLostNoReconnect hw he) (.sendLostLast hw)
  · rename_i hw hk
    exact fault_sound c io i (k+1) m false _ _ hi (fun b o _ h => .sent hw (.silentRetry hk (by simpa using h)))
      (by simp) (.sent hw (.silentLast hk))
  · rename_i hw hk
    exact fault_sound c io i (k+1) m true _ _ hi
      (fun b o hr h => .sent hw (.lostRetry rfl (by simp [hk, Ev.lost]) (hr rfl) (by simpa using h)))
      (fun _ b e he => .sent hw (.lostNoReconnect rfl (by simp [hk, Ev.lost]) he))
      (.sent hw (.lostLast rfl (by simp [hk, Ev.lost])))
  · rename_i hw hk
    exact fault_sound c io i (k+1) m true _ _ hi
      (fun b o hr h => .sent hw (.lostRetry rfl (by simp [hk, Ev.lost]) (hr rfl) (by simpa using h)))
      (fun _ b e he => .sent hw (.lostNoReconnect rfl (by simp [hk, Ev.lost]) he))
      (.sent hw (.lostLast rfl (by simp [hk, Ev.lost])))
  · rename_i hw hk hl
    have : c.maxRetry - i = 0 := by omega
    simp only [StepSound]; rw [this]; exact .sent hw (.busyLast hk)
  · rename_i hw hk hl
    intro o ho
    have h1 : i < c.maxRetry := by omega
    have : c.maxRetry - i = (c.maxRetry - (i+1)) + 1 := by omega
    simp only [h1, if_true] at ho
    rw [this]; exact .sent hw (.busyRetry hk ho)
  · rename_i hw hk; exact .sent hw (.illegal rfl (by simp [hk, Ev.illegal]))
  · rename_i hw hk; exact .sent hw (.illegal rfl (by simp [hk, Ev.illegal]))
  · rename_i hw hk; exact .sent hw (.final rfl (by simp [hk, Ev.final]))
  · rename_i hw hk; exact .sent hw (.final rfl (by simp [hk, Ev.final]))
  · rename_i hw hk o t hp
    exact .sent hw (.pendFirst hk (pend_soundX c io (k+1) 1 0 _ _ _ _ (by rw [hp])))
  · rename_i hw hk k' t hp
    intro o ho
    refine .sent hw (.pendFirst hk (pend_soundX c io (k+1) 1 0 _ _ _ _ ?_))
    rw [hp]
    by_cases hl : i < c.maxRetry
    · simp only [hl, if_true] at ho
      exact .inr ⟨c.maxRetry - (i+1), by omega, ho⟩
    · simp only [hl, if_false] at ho
      exact .inl ⟨by omega, ho⟩
  · rename_i hw hk k' t hp
    refine fault_sound c io i k' m true _ _ hi ?_ ?_ ?_
    · intro b o hr h
      refine .sent hw (.pendFirst hk (pend_soundX c io (k+1) 1 0 _ _ _ _ ?_))
      rw [hp]; exact .inr ⟨b, rfl, .inl ⟨hr rfl, by simpa using h⟩⟩
    · intro _ b e he
      refine .sent hw (.pendFirst hk (pend_soundX c io (k+1) 1 0 _ _ _ _ ?_))
      rw [hp]; exact .inr ⟨b, rfl, .inr ⟨e, he, rfl⟩⟩
    · refine .sent hw (.pendFirst hk (pend_soundX c io (k+1) 1 0 _ _ _ _ ?_))
      rw [hp]; exact .inl ⟨rfl, rfl⟩

theorem attemptsX_sound (c : CfgX) (io : Script) (i k m : Nat) (last : Out) (hi : i ≤ c.maxRetry) :
    ImpliedX (boundsX c) io .send (c.maxRetry - i) i k m (attemptsX c io i k m last).1 := by
  fun_induction attemptsX c io i k m last with
  | case1 i k m last h => omega
  | case2 i k m last _ o t hst =>
    have ss := step_sound c io i k m last hi
    rw [hst] at ss
    exact ss
  | case3 i k m last _ t k' m' l hst ih =>
    have ss := step_sound c io i k m last hi
    rw [hst] at ss
    refine ss _ ?_
    by_cases hl : i < c.maxRetry
    · simpa [hl, preX] using ih (by omega)
    · simp [hl, preX, attemptsX_done c io (i+1) k' m' l (by omega)]

/-! ### the widened specification determines the outcome -/

set_option linter.unusedSimpArgs false in
macro "evx_contra" : tactic =>
  `(tactic| ((try simp only [final_eq, illegal_eq, lost_eq, PhaseX.listening, Bool.false_eq_true] at *) <;> grind))

set_option linter.unusedSimpArgs false in
theorem impliedX_unique {B : Bounds} {io : Script} {ph : PhaseX} {b j k m : Nat} {o₁ o₂ : OutX}
    (h1 : ImpliedX B io ph b j k m o₁) (h2 : ImpliedX B io ph b j k m o₂) : o₁ = o₂ := by
  induction h1 generalizing o₂ with
  | sent hw _ ih => cases h2 <;> first | exact ih ‹_› | evx_contra
  | sendSilentRetry hw _ ih => cases h2 <;> first | exact ih ‹_› | evx_contra
  | sendSilentLast hw => cases h2 <;> evx_contra
  | sendLostRetry hw hr _ ih => cases h2 <;> first | exact ih ‹_› | evx_contra
  | sendLostNoReconnect hw hr => cases h2 <;> evx_contra
  | sendLostLast hw => cases h2 <;> evx_contra
  | final hp hf => cases h2 <;> evx_contra
  | illegal hp hf => cases h2 <;> evx_contra
  | busyRetry hk _ ih => cases h2 <;> first | exact ih ‹_› | evx_contra
  | busyLast hk => cases h2 <;> evx_contra
  | busyAfterPending hk => cases h2 <;> evx_contra
  | silentRetry hk _ ih => cases h2 <;> first | exact ih ‹_› | evx_contra
  | silentLast hk => cases h2 <;> evx_contra
  | lostRetry hp hk hr _ ih => cases h2 <;> first | exact ih ‹_› | evx_contra
  | lostNoReconnect hp hk hr => cases h2 <;> evx_contra
  | lostLast hp hk => cases h2 <;> evx_contra
  | pendFirst hk _ ih => cases h2 <;> first | exact ih ‹_› | evx_contra
  | pendAgain hk hl _ ih => cases h2 <;> first | exact ih ‹_› | evx_contra
  | pendStuck hk hl => cases h2 <;> evx_contra
  | quiet hk hl _ ih => cases h2 <;> first | exact ih ‹_› | evx_contra
  | silenceRetry hk hl _ ih => cases h2 <;> first | exact ih ‹_› | evx_contra
  | silenceLast hk hl => cases h2 <;> evx_contra

/-! ### no reply is dropped -/

/-- the reads of one attempt: a final / illegal reply ends the request with exactly that reply, and nothing is read after it -/
structure StepReads (io : Script) (k : Nat) (st : StepX) : Prop where
  mid : ∀ t k' m' l, st = .next t k' m' l → ∀ j, k ≤ j → j < k + nReadsX t →
      (io.rd j).final = false ∧ (io.rd j).illegal = false
  fin : ∀ o t, st = .fin o t → ∀ j, k ≤ j → j < k + nReadsX t →
      ((io.rd j).final = true → o = .base (.reply j)) ∧ ((io.rd j).illegal = true → o = .base (.illegal j))
  last : ∀ o t, st = .fin o t → ∀ j, (o = .base (.reply j) ∨ o = .base (.illegal j)) → j + 1 = k + nReadsX t

theorem StepReads.ofNext (io : Script) (k : Nat) (t : List OpX) (k' m' : Nat) (l : Out)
    (h : ∀ j, k ≤ j → j < k + nReadsX t → (io.rd j).final = false ∧ (io.rd j).illegal = false) :
    StepReads io k (.next t k' m' l) :=
  ⟨fun _ _ _ _ e => (by cases e; exact h), fun _ _ e => (nomatch e), fun _ _ e => (nomatch e)⟩

theorem StepReads.fault (c : CfgX) (io : Script) (i k k' m : Nat) (rc : Bool) (t : List OpX)
    (h : ∀ j, k ≤ j → j < k + nReadsX t → (io.rd j).final = false ∧ (io.rd j).illegal = false) :
    StepReads io k (faultX c io i k' m rc t) := by
  rcases faultX_cases c io i k' m rc t with ⟨_, _, h'⟩ | ⟨_, _, _, h'⟩ | ⟨e, _, _, _, h'⟩ | ⟨_, h'⟩ <;> rw [h']
  · exact StepReads.ofNext _ _ _ _ _ _ (by simpa using h)
  · exact StepReads.ofNext _ _ _ _ _ _ (by simpa using h)
  · refine ⟨fun _ _ _ _ e => (nomatch e), ?_, ?_⟩
    · intro _ _ e j h1 h2; cases e
      have := h j h1 (by simpa using h2)
      simp [this]
    · intro _ _ e j hj; cases e; simp at hj
  · exact StepReads.ofNext _ _ _ _ _ _ h

/-- an attempt that ends the request with its first read -/
theorem StepReads.one (io : Script) (k : Nat) (o : OutX) (a b : OpX) (ha : a.isRd = false) (hb : b.isRd = true)
    (h1 : (io.rd k).final = true → o = .base (.reply k)) (h2 : (io.rd k).illegal = true → o = .base (.illegal k))
    (h3 : ∀ j, (o = .base (.reply j) ∨ o = .base (.illegal j)) → j = k) :
    StepReads io k (.fin o [a, b]) := by
  refine ⟨fun _ _ _ _ e => (nomatch e), ?_, ?_⟩
  · intro _ _ e j hj hj'; cases e
    simp [ha, hb] at hj'
    have : j = k := by omega
    subst this; exact ⟨h1, h2⟩
  · intro _ _ e j hj; cases e
    simp [ha, hb]; have := h3 j hj; omega

theorem step_reads (c : CfgX) (io : Script) (i k m : Nat) (last : Out) :
    StepReads io k (attemptStepX c io i k m last) := by
  fun_cases attemptStepX c io i k m last
  · exact StepReads.fault c io i k k m false _ (by simp; omega)
  · exact StepReads.fault c io i k k m true _ (by simp; omega)
  · rename_i _ hk
    exact StepReads.fault c io i k (k+1) m false _ (by
      intro j h1 h2; simp at h2; have : j = k := by omega
      subst this; simp [hk, Ev.final, Ev.illegal])
  · rename_i _ hk
    exact StepReads.fault c io i k (k+1) m true _ (by
      intro j h1 h2; simp at h2; have : j = k := by omega
      subst this; simp [hk, Ev.final, Ev.illegal])
  · rename_i _ hk
    exact StepReads.fault c io i k (k+1) m true _ (by
      intro j h1 h2; simp at h2; have : j = k := by omega
      subst this; simp [hk, Ev.final, Ev.illegal])
  · rename_i _ hk _
    exact StepReads.one io k _ _ _ rfl rfl (by simp) (by simp [hk, Ev.illegal]) (by simp)
  · rename_i _ hk _
    refine StepReads.ofNext _ _ _ _ _ _ ?_
    intro j h1 h2
    simp at h2; have : j = k := by omega
    subst this; simp [hk, Ev.final, Ev.illegal]
  · rename_i _ hk
    exact StepReads.one io k _ _ _ rfl rfl (by simp [hk, Ev.final]) (by simp) (by simp)
  · rename_i _ hk
    exact StepReads.one io k _ _ _ rfl rfl (by simp [hk, Ev.final]) (by simp) (by simp)
  · rename_i _ hk
    exact StepReads.one io k _ _ _ rfl rfl (by simp) (by simp [hk, Ev.illegal]) (by simp)
  · rename_i _ hk
    exact StepReads.one io k _ _ _ rfl rfl (by simp) (by simp [hk, Ev.illegal]) (by simp)
  all_goals
    rename_i hw hk _ t hp
    have pfst := fun j => pend_first c.base io.rd (k+1) 1 0 j
    have pn := (pend_facts c.base io.rd (k+1) 1 0).next
    rw [hp] at pfst pn
    simp only at pfst pn
    have hk0 : (io.rd k).final = false ∧ (io.rd k).illegal = false := by simp [hk, Ev.final, Ev.illegal]
  · refine ⟨fun _ _ _ _ e => (nomatch e), ?_, ?_⟩
    · intro _ _ e j h1 h2; cases e
      simp [nReadsX_liftPend] at h2
      by_cases hjk : j = k
      · subst hjk; simp [hk0]
      · have := pfst j (by omega) (by omega)
        simpa using this
    · intro _ _ e j hj; cases e
      simp [nReadsX_liftPend]
      rcases hj with hj | hj <;> (injection hj with hj; subst hj; simp at pn; omega)
  · refine StepReads.ofNext _ _ _ _ _ _ ?_
    intro j h1 h2
    simp [nReadsX_liftPend] at h2
    by_cases hjk : j = k
    · subst hjk; exact hk0
    · have := pfst j (by omega) (by omega)
      simp at this
      exact ⟨by simpa using this.1, by simpa using this.2⟩
  · refine StepReads.fault c io i k _ m true _ ?_
    intro j h1 h2
    simp [nReadsX_liftPend] at h2
    by_cases hjk : j = k
    · subst hjk; exact hk0
    · have := pfst j (by omega) (by omega)
      simp at this
      exact ⟨by simpa using this.1, by simpa using this.2⟩

theorem attemptsX_first (c : CfgX) (io : Script) (i k m : Nat) (last : Out) (j : Nat) (hj : k ≤ j)
    (hj' : j < k + nReadsX (attemptsX c io i k m last).2) :
    ((io.rd j).final = true → (attemptsX c io i k m last).1 = .base (.reply j)) ∧
    ((io.rd j).illegal = true → (attemptsX c io i k m last).1 = .base (.illegal j)) := by
  fun_induction attemptsX c io i k m last with
  | case1 => simp at hj'; omega
  | case2 i k m last _ o t hst =>
    have sr := step_reads c io i k m last
    rw [hst] at sr
    exact sr.fin o t rfl j hj hj'
  | case3 i k m last _ t k' m' l hst ih =>
    have sr := step_reads c io i k m last
    have sf := (step_facts c io i k m last).nextK
    rw [hst] at sr sf
    have hk' := (sf t k' m' l rfl).1
    simp only [preX, nReadsX_append] at hj' ⊢
    by_cases hjt : j < k + nReadsX t
    · have := sr.mid t k' m' l rfl j hj hjt
      simp [this]
    · exact ih (by omega) (by omega)

/-- the reply (or illegal reply) a request ends with is the one produced by its last read -/
theorem attemptsX_reply_last (c : CfgX) (io : Script) (i k m : Nat) (last : Out)
    (hl : ∀ j, last ≠ .reply j ∧ last ≠ .illegal j) (j : Nat)
    (h : (attemptsX c io i k m last).1 = .base (.reply j) ∨ (attemptsX c io i k m last).1 = .base (.illegal j)) :
    j + 1 = k + nReadsX (attemptsX c io i k m last).2 := by
  fun_induction attemptsX c io i k m last with
  | case1 => rcases h with h | h <;> (injection h with h; simp_all)
  | case2 i k m last _ o t hst =>
    have sr := step_reads c io i k m last
    rw [hst] at sr
    exact sr.last o t rfl j h
  | case3 i k m last _ t k' m' l hst ih =>
    have sf := (step_facts c io i k m last).nextK
    rw [hst] at sf
    have hk' := (sf t k' m' l rfl).1
    have hl' : ∀ j, l ≠ .reply j ∧ l ≠ .illegal j := by
      -- `last_exception` is only ever a MissingResponse, or the value passed in
      have : l = last ∨ ∃ b, l = .missing b := by
        revert hst
        fun_cases attemptStepX c io i k m last <;> intro hst
        all_goals first
          | (rename_i hp; rcases faultX_cases c io i _ m _ _ with ⟨_, _, h'⟩ | ⟨_, _, _, h'⟩ | ⟨e, _, _, _, h'⟩ | ⟨_, h'⟩ <;>
              rw [h'] at hst <;> cases hst <;> simp)
          | (cases hst; simp)
          | cases hst
      rcases this with rfl | ⟨b, rfl⟩
      · exact hl
      · simp
    have := ih hl' (by simpa [preX] using h)
    simp [preX]; omega

/-! ### write attempts = 1 + retry-worthy events -/

/-- 1 when write #i fails -/
def wf (io : Script) (i : Nat) : Nat := if io.wr i = .ok then 0 else 1

theorem wrFaultsFrom_succ (io : Script) (i n : Nat) : wrFaultsFrom io i (n+1) = wf io i + wrFaultsFrom io (i+1) n := rfl

def rcf (o : OutX) : Nat := if o.isRcFail then 1 else 0

theorem rcf_le (o : OutX) : rcf o ≤ 1 := by unfold rcf; split <;> simp
@[simp] theorem rcf_base (o : Out) : rcf (.base o) = 0 := rfl
@[simp] theorem rcf_fail (m e) : rcf (.reconnectFailed m e) = 1 := rfl

/-- the retry-worthy events of one attempt: exactly one when the loop goes on, and the read phase is `wait` again -/
structure StepEvents (c : CfgX) (io : Script) (i k : Nat) (st : StepX) : Prop where
  next : ∀ t k' m' l, st = .next t k' m' l →
    wf io i + retryEventsFrom (boundsX c) io.rd .wait k (nReadsX t) = 1 ∧
    phaseAfter (boundsX c) io.rd .wait k (nReadsX t) = .wait
  fin : ∀ o t, st = .fin o t →
    1 = min (1 + (wf io i + retryEventsFrom (boundsX c) io.rd .wait k (nReadsX t)) - rcf o) (c.maxRetry + 1 - i)

theorem StepEvents.fault (c : CfgX) (io : Script) (i k k' m : Nat) (rc : Bool) (t : List OpX)
    (h1 : wf io i + retryEventsFrom (boundsX c) io.rd .wait k (nReadsX t) = 1)
    (h2 : phaseAfter (boundsX c) io.rd .wait k (nReadsX t) = .wait) :
    StepEvents c io i k (faultX c io i k' m rc t) := by
  rcases faultX_cases c io i k' m rc t with ⟨_, _, h'⟩ | ⟨_, _, _, h'⟩ | ⟨e, hi, _, _, h'⟩ | ⟨_, h'⟩ <;> rw [h']
  · exact ⟨fun _ _ _ _ e => (by cases e; simpa using ⟨h1, h2⟩), fun _ _ e => (nomatch e)⟩
  · exact ⟨fun _ _ _ _ e => (by cases e; simpa using ⟨h1, h2⟩), fun _ _ e => (nomatch e)⟩
  · refine ⟨fun _ _ _ _ e => (nomatch e), fun _ _ e => ?_⟩
    cases e; simp [h1]; omega
  · exact ⟨fun _ _ _ _ e => (by cases e; exact ⟨h1, h2⟩), fun _ _ e => (nomatch e)⟩

set_option linter.unusedSimpArgs false in
theorem step_events (c : CfgX) (io : Script) (i k m : Nat) (last : Out) (hi : i ≤ c.maxRetry) :
    StepEvents c io i k (attemptStepX c io i k m last) := by
  have hB : boundsX c = bounds c.base := rfl
  fun_cases attemptStepX c io i k m last
  · rename_i hw
    exact StepEvents.fault c io i k k m false _ (by simp [wf, hw, retryEventsFrom]) (by simp [phaseAfter])
  · rename_i hw
    exact StepEvents.fault c io i k k m true _ (by simp [wf, hw, retryEventsFrom]) (by simp [phaseAfter])
  · rename_i hw hk
    exact StepEvents.fault c io i k (k+1) m false _ (by simp [wf, hw, hk, retryEventsFrom, stepPhase])
      (by simp [phaseAfter, stepPhase, hk])
  · rename_i hw hk
    exact StepEvents.fault c io i k (k+1) m true _ (by simp [wf, hw, hk, retryEventsFrom, stepPhase])
      (by simp [phaseAfter, stepPhase, hk])
  · rename_i hw hk
    exact StepEvents.fault c io i k (k+1) m true _ (by simp [wf, hw, hk, retryEventsFrom, stepPhase])
      (by simp [phaseAfter, stepPhase, hk])
  · rename_i hw hk hl
    refine ⟨fun _ _ _ _ e => (nomatch e), fun _ _ e => ?_⟩
    cases e; simp [wf, hw, hk, retryEventsFrom, stepPhase]; omega
  · rename_i hw hk hl
    refine ⟨fun _ _ _ _ e => ?_, fun _ _ e => (nomatch e)⟩
    cases e; simp [wf, hw, hk, retryEventsFrom, stepPhase, phaseAfter]
  · rename_i hw hk
    refine ⟨fun _ _ _ _ e => (nomatch e), fun _ _ e => ?_⟩
    cases e; simp [wf, hw, hk, retryEventsFrom, stepPhase]; omega
  · rename_i hw hk
    refine ⟨fun _ _ _ _ e => (nomatch e), fun _ _ e => ?_⟩
    cases e; simp [wf, hw, hk, retryEventsFrom, stepPhase]; omega
  · rename_i hw hk
    refine ⟨fun _ _ _ _ e => (nomatch e), fun _ _ e => ?_⟩
    cases e; simp [wf, hw, hk, retryEventsFrom, stepPhase]; omega
  · rename_i hw hk
    refine ⟨fun _ _ _ _ e => (nomatch e), fun _ _ e => ?_⟩
    cases e; simp [wf, hw, hk, retryEventsFrom, stepPhase]; omega
  · rename_i hw hk o t hp
    have pe := (pend_events c.base io.rd (k+1) 1 0).1 o (by rw [hp])
    rw [hp] at pe; simp only at pe
    refine ⟨fun _ _ _ _ e => (nomatch e), fun _ _ e => ?_⟩
    cases e
    simp only [nReadsX_cons, isRd_wrX, isRd_rdX, nReadsX_liftPend, if_true, Bool.false_eq_true, if_false, Nat.zero_add]
    rw [Nat.add_comm 1 (nReads t)]
    simp [wf, hw, hk, retryEventsFrom, stepPhase, hB, pe]; omega
  · rename_i hw hk k' t hp
    have pe := (pend_events c.base io.rd (k+1) 1 0).2 (by rw [hp]; simp)
    rw [hp] at pe; simp only at pe
    refine ⟨fun _ _ _ _ e => ?_, fun _ _ e => (nomatch e)⟩
    cases e
    simp only [nReadsX_cons, isRd_wrX, isRd_rdX, nReadsX_liftPend, if_true, Bool.false_eq_true, if_false, Nat.zero_add]
    rw [Nat.add_comm 1 (nReads t)]
    simp [wf, hw, hk, retryEventsFrom, phaseAfter, stepPhase, hB, pe.1, pe.2]
  · rename_i hw hk k' t hp
    have pe := (pend_events c.base io.rd (k+1) 1 0).2 (by rw [hp]; simp)
    rw [hp] at pe; simp only at pe
    refine StepEvents.fault c io i k _ m true _ ?_ ?_
    · simp only [nReadsX_cons, isRd_wrX, isRd_rdX, nReadsX_liftPend, if_true, Bool.false_eq_true, if_false, Nat.zero_add]
      rw [Nat.add_comm 1 (nReads t)]
      simp [wf, hw, hk, retryEventsFrom, stepPhase, hB, pe.1]
    · simp only [nReadsX_cons, isRd_wrX, isRd_rdX, nReadsX_liftPend, if_true, Bool.false_eq_true, if_false, Nat.zero_add]
      rw [Nat.add_comm 1 (nReads t)]
      simp [phaseAfter, stepPhase, hk, hB, pe.2]

theorem attemptsX_writes_eq (c : CfgX) (io : Script) (i k m : Nat) (last : Out) (hi : i ≤ c.maxRetry) :
    nWritesX (attemptsX c io i k m last).2 =
      min (1 + (wrFaultsFrom io i (nWritesX (attemptsX c io i k m last).2) +
                retryEventsFrom (boundsX c) io.rd .wait k (nReadsX (attemptsX c io i k m last).2))
             - rcf (attemptsX c io i k m last).1)
          (c.maxRetry + 1 - i) := by
  fun_induction attemptsX c io i k m last with
  | case1 => omega
  | case2 i k m last _ o t hst =>
    have se := step_events c io i k m last hi
    have sf := (step_facts c io i k m last).writes
    rw [hst] at se sf
    simp only [StepX.ops] at sf
    have := se.fin o t rfl
    simp only [sf, wrFaultsFrom_succ, wrFaultsFrom, Nat.add_zero]
    exact this
  | case3 i k m last _ t k' m' l hst ih =>
    have se := step_events c io i k m last hi
    have sf := step_facts c io i k m last
    rw [hst] at se sf
    have hw := sf.writes
    simp only [StepX.ops] at hw
    obtain ⟨hk', _, _⟩ := sf.nextK t k' m' l rfl
    obtain ⟨e1, e2⟩ := se.next t k' m' l rfl
    simp only [preX, nWritesX_append, nReadsX_append, hw]
    rw [Nat.add_comm 1 (nWritesX _), wrFaultsFrom_succ, retryEventsFrom_add, e2, ← hk']
    have hr := rcf_le (attemptsX c io (i+1) k' m' l).1
    by_cases hl : i < c.maxRetry
    · have := ih (by omega)
      omega
    · rw [attemptsX_done c io (i+1) k' m' l (by omega)]
      simp [wrFaultsFrom, retryEventsFrom]; omega

/-! ### conservativity: without write / reconnect faults the widened loop is the old one -/

theorem forget_liftPend_map (c : CfgX) (t : List Op) (h : ∀ op ∈ t, op.isRd = true) :
    (t.map (liftPend c)).map OpX.forget = t := by
  induction t with
  | nil => rfl
  | cons o t ih =>
    simp only [List.map_cons]
    rw [liftPend_forget c o (h o (by simp)), ih (fun op hop => h op (List.mem_cons_of_mem _ hop))]

set_option linter.unusedSimpArgs false in
set_option linter.unusedVariables false in
theorem attemptsX_clean (c : CfgX) (io : Script) (hc : io.Clean) (i k m : Nat) (last : Out) :
    (attemptsX c io i k m last).1 = .base (attempts c.base io.rd i k last).1 ∧
    (attemptsX c io i k m last).2.map OpX.forget = (attempts c.base io.rd i k last).2 := by
  generalize hs : io.rd = s
  have hs' : ∀ k, io.rd k = s k := fun k => by rw [hs]
  have hm : c.base.maxRetry = c.maxRetry := rfl
  have hto : c.base.timeout = orZero c.timeout := rfl
  have hlat : c.base.lat = c.lat := rfl
  fun_induction attempts c.base s i k last generalizing m with
  | case1 i k last h => rw [attemptsX_done c io i k m last (by omega)]; simp
  | case11 i k _ hi hk o t hp =>
    rw [attemptsX]
    have hw := hc.1 i
    have ar := pend_all_rd c.base s (k+1) 1 0
    rw [hp] at ar
    simp [hm ▸ hi, attemptStepX, hw, hs', hk, hs ▸ hp, OpX.forget, hto, hlat, forget_liftPend_map c t ar]
  | case12 i k _ hi hk k' t hp ih =>
    rw [attemptsX]
    have hw := hc.1 i
    have ar := pend_all_rd c.base s (k+1) 1 0
    rw [hp] at ar
    simp [hm ▸ hi, attemptStepX, hw, hs', hk, hs ▸ hp, OpX.forget, hto, hlat, forget_liftPend_map c t ar, preX, pre, ih]
  | case13 i k _ hi hk k' t hp ih =>
    rw [attemptsX]
    have hw := hc.1 i; have hr := hc.2 m
    have ar := pend_all_rd c.base s (k+1) 1 0
    rw [hp] at ar
    by_cases hl : i < c.maxRetry <;>
      simp [hm ▸ hi, attemptStepX, hw, hr, hs', hk, hs ▸ hp, faultX, hl, hm, preX, pre, afterFault, ih, OpX.forget, hto, hlat,
        tmoDur, waitX_eq, forget_liftPend_map c t ar]
  | case5 i k _ hi hk hl =>
    rw [attemptsX]
    have hw := hc.1 i
    simp [hm ▸ hi, attemptStepX, hw, hs', hk, hm ▸ hl, OpX.forget, hto, hlat]
  | case6 i k _ hi hk hl ih =>
    rw [attemptsX]
    have hw := hc.1 i
    simp [hm ▸ hi, attemptStepX, hw, hs', hk, hm ▸ hl, OpX.forget, hto, hlat, preX, pre, ih, waitX_eq]
  | case2 i k _ hi hk ih =>
    rw [attemptsX]
    have hw := hc.1 i; have hr := hc.2 m
    by_cases hl : i < c.maxRetry <;>
      simp [hm ▸ hi, attemptStepX, hw, hr, hs', hk, faultX, hl, hm, preX, pre, afterFault, ih, OpX.forget, hto, hlat,
        tmoDur, waitX_eq]
  | case3 i k _ hi hk ih =>
    rw [attemptsX]
    have hw := hc.1 i; have hr := hc.2 m
    by_cases hl : i < c.maxRetry <;>
      simp [hm ▸ hi, attemptStepX, hw, hr, hs', hk, faultX, hl, hm, preX, pre, afterFault, ih, OpX.forget, hto, hlat,
        tmoDur, waitX_eq]
  | case4 i k _ hi hk ih =>
    rw [attemptsX]
    have hw := hc.1 i; have hr := hc.2 m
    by_cases hl : i < c.maxRetry <;>
      simp [hm ▸ hi, attemptStepX, hw, hr, hs', hk, faultX, hl, hm, preX, pre, afterFault, ih, OpX.forget, hto, hlat,
        tmoDur, waitX_eq]
  | case7 i k _ hi hk =>
    rw [attemptsX]
    have hw := hc.1 i
    simp [hm ▸ hi, attemptStepX, hw, hs', hk, OpX.forget, hto, hlat]
  | case8 i k _ hi hk =>
    rw [attemptsX]
    have hw := hc.1 i
    simp [hm ▸ hi, attemptStepX, hw, hs', hk, OpX.forget, hto, hlat]
  | case9 i k _ hi hk =>
    rw [attemptsX]
    have hw := hc.1 i
    simp [hm ▸ hi, attemptStepX, hw, hs', hk, OpX.forget, hto, hlat]
  | case10 i k _ hi hk =>
    rw [attemptsX]
    have hw := hc.1 i
    simp [hm ▸ hi, attemptStepX, hw, hs', hk, OpX.forget, hto, hlat]

/-! ### the shape of a trace: what directly follows what -/

/-- every action of a trace satisfies `P` together with the action that directly follows it (`none` at the end) -/
def Adj (P : OpX → Option OpX → Prop) : List OpX → Prop
  | [] => True
  | a :: rest => P a rest.head? ∧ Adj P rest

theorem adj_append {P : OpX → Option OpX → Prop} (a b : List OpX) (ha : Adj P a) (hb : Adj P b)
    (hj : ∀ x, a.getLast? = some x → P x b.head?) : Adj P (a ++ b) := by
  induction a with
  | nil => simpa using hb
  | cons x a ih =>
    cases a with
    | nil => exact ⟨by simpa using hj x rfl, by simpa using hb⟩
    | cons y a =>
      exact ⟨by simpa using ha.1, ih ha.2 (fun z hz => hj z (by simpa [List.getLast?_cons_cons] using hz))⟩

theorem adj_split {P : OpX → Option OpX → Prop} (pre : List OpX) (a : OpX) (rest : List OpX)
    (h : Adj P (pre ++ a :: rest)) : P a rest.head? := by
  induction pre with
  | nil => exact h.1
  | cons x pre ih => exact ih h.2

/-- what may directly follow an action in the trace of one request -/
def okNext (io : Script) : OpX → Option OpX → Prop
  | .wr _ .ok _, nxt => ∃ k t d, nxt = some (.rd k t d)             -- a write that went out is followed by its read
  | .wr _ .timeout _, nxt => ∀ o ∈ nxt, ∃ d, o = .sl d              -- a failed write: backoff or the end, never a read
  | .wr _ .connErr _, nxt => ∀ o ∈ nxt, ∃ d, o = .sl d
  | .rd k _ _, nxt => io.rd k = .pending → ∀ o ∈ nxt, o.isRd = true  -- responsePending: keep reading
  | .sl _, nxt => ∃ o, nxt = some o ∧ (o.isWr = true ∨ o.isRc = true)
  | .rc .ok, nxt => ∃ o, nxt = some o ∧ o.isWr = true               -- reconnected: retransmit
  | .rc (.fail _), nxt => nxt = none                                -- a failed reconnect ends the request

/-- the lifted trace of a responsePending loop, followed by `rest` -/
theorem adj_pend (c : CfgX) (io : Script) (t : List Op) (rest : List OpX) (h : ∀ op ∈ t, op.isRd = true)
    (hr : Adj (okNext io) rest)
    (hl : rest = [] ∨ ∀ j tm d, t.getLast? = some (.rd j tm d) → io.rd j ≠ .pending) :
    Adj (okNext io) (t.map (liftPend c) ++ rest) := by
  induction t with
  | nil => simpa using hr
  | cons o t ih =>
    have ho := h o (by simp)
    cases o with
    | rd j tm d =>
      have ht := ih (fun op hop => h op (List.mem_cons_of_mem _ hop))
      cases t with
      | nil =>
        refine ⟨?_, by simpa using hr⟩
        simp only [List.map_nil, liftPend, okNext]
        rcases hl with rfl | hl
        · simp
        · intro hp; exact absurd hp (hl j tm d rfl)
      | cons o' t' =>
        have ho' := h o' (by simp)
        refine ⟨?_, ht (hl.imp id (fun hl j tm d e => hl j tm d (by simpa [List.getLast?_cons_cons] using e)))⟩
        cases o' <;> simp_all [liftPend, okNext, Op.isRd, OpX.isRd]
    | _ => simp [Op.isRd] at ho

/-- the actions of one attempt are well-formed up to what follows the attempt -/
def StepAdj (c : CfgX) (io : Script) (i : Nat) : StepX → Prop
  | .fin _ t => Adj (okNext io) t
  | .next t _ _ _ => ∀ rest, Adj (okNext io) rest →
      ((∃ a r d, rest.head? = some (.wr a r d)) ∧ i < c.maxRetry) ∨ (rest = [] ∧ c.maxRetry ≤ i) →
      Adj (okNext io) (t ++ rest)

/-- `t` may be followed by a backoff sleep or by nothing -/
def Hsl (io : Script) (t : List OpX) : Prop :=
  ∀ rest, (rest = [] ∨ ∃ d, rest.head? = some (.sl d)) → Adj (okNext io) rest → Adj (okNext io) (t ++ rest)

theorem StepAdj.fault (c : CfgX) (io : Script) (i k m : Nat) (rc : Bool) (t : List OpX) (h : Hsl io t) :
    StepAdj c io i (faultX c io i k m rc t) := by
  rcases faultX_cases c io i k m rc t with ⟨h1, _, h'⟩ | ⟨h1, _, _, h'⟩ | ⟨e, _, _, _, h'⟩ | ⟨h1, h'⟩ <;> rw [h']
  · intro rest hr hh
    rcases hh with ⟨⟨a, r, d, hd⟩, _⟩ | ⟨_, h2⟩
    · rw [List.append_assoc]
      exact h _ (.inr ⟨_, rfl⟩) ⟨by simp [okNext, hd], hr⟩
    · omega
  · intro rest hr hh
    rcases hh with ⟨⟨a, r, d, hd⟩, _⟩ | ⟨_, h2⟩
    · rw [List.append_assoc]
      exact h _ (.inr ⟨_, rfl⟩) ⟨by simp [okNext], by simp [okNext, hd], hr⟩
    · omega
  · exact h _ (.inr ⟨_, rfl⟩) ⟨by simp [okNext], by simp [okNext], trivial⟩
  · intro rest hr hh
    rcases hh with ⟨_, h2⟩ | ⟨rfl, _⟩
    · omega
    · exact h [] (.inl rfl) trivial

theorem hsl_of_rd (io : Script) (a : Option Nat) (k : Nat) (tmo : Option Nat) (d : Nat) (hk : io.rd k ≠ .pending) :
    Hsl io [.wr a .ok 0, .rd k tmo d] := by
  intro rest _ hr
  exact ⟨by simp [okNext], by simp [okNext, hk], hr⟩

theorem step_adj (c : CfgX) (io : Script) (i k m : Nat) (last : Out) :
    StepAdj c io i (attemptStepX c io i k m last) := by
  fun_cases attemptStepX c io i k m last
  · refine StepAdj.fault c io i k m false _ ?_
    intro rest hh hr
    refine ⟨?_, hr⟩
    rcases hh with rfl | ⟨d, hd⟩ <;> simp_all [okNext]
  · refine StepAdj.fault c io i k m true _ ?_
    intro rest hh hr
    refine ⟨?_, hr⟩
    rcases hh with rfl | ⟨d, hd⟩ <;> simp_all [okNext]
  · rename_i _ hk; exact StepAdj.fault c io i (k+1) m false _ (hsl_of_rd io _ k _ _ (by simp [hk]))
  · rename_i _ hk; exact StepAdj.fault c io i (k+1) m true _ (hsl_of_rd io _ k _ _ (by simp [hk]))
  · rename_i _ hk; exact StepAdj.fault c io i (k+1) m true _ (hsl_of_rd io _ k _ _ (by simp [hk]))
  · rename_i _ hk _; exact ⟨by simp [okNext], by simp [okNext, hk], trivial⟩
  · rename_i _ hk hl
    intro rest hr hh
    rcases hh with ⟨⟨a, r, d, hd⟩, _⟩ | ⟨_, h2⟩
    · exact ⟨by simp [okNext], by simp [okNext, hk], by simp [okNext, hd], hr⟩
    · omega
  · rename_i _ hk; exact ⟨by simp [okNext], by simp [okNext, hk], trivial⟩
  · rename_i _ hk; exact ⟨by simp [okNext], by simp [okNext, hk], trivial⟩
  · rename_i _ hk; exact ⟨by simp [okNext], by simp [okNext, hk], trivial⟩
  · rename_i _ hk; exact ⟨by simp [okNext], by simp [okNext, hk], trivial⟩
  all_goals
    rename_i hw hk _ t hp
    have ar := pend_all_rd c.base io.rd (k+1) 1 0
    have pos := (pend_facts c.base io.rd (k+1) 1 0).pos
    rw [hp] at ar pos
    simp only at ar pos
    have hhead : ∀ rest, ∀ o ∈ (t.map (liftPend c) ++ rest).head?, o.isRd = true := by
      intro rest o ho
      cases t with
      | nil => simp at pos
      | cons x t =>
        simp at ho; subst ho
        have := ar x (by simp)
        cases x <;> simp_all [liftPend, Op.isRd, OpX.isRd]
  · have := adj_pend c io t [] ar trivial (.inl rfl)
    simp only [List.append_nil] at this
    exact ⟨by simp [okNext], fun _ => by simpa using hhead [], this⟩
  · have pl := pend_last c.base io.rd (k+1) 1 0 (by rw [hp]; simp)
    rw [hp] at pl; simp only at pl
    intro rest hr hh
    exact ⟨by simp [okNext], fun _ => by simpa using hhead rest, adj_pend c io t rest ar hr (.inr pl)⟩
  · have pl := pend_last c.base io.rd (k+1) 1 0 (by rw [hp]; simp)
    rw [hp] at pl; simp only at pl
    refine StepAdj.fault c io i _ m true _ ?_
    intro rest hh hr
    exact ⟨by simp [okNext], fun _ => by simpa using hhead rest, adj_pend c io t rest ar hr (.inr pl)⟩

theorem step_head (c : CfgX) (io : Script) (i k m : Nat) (last : Out) :
    ∃ a r d rest, (attemptStepX c io i k m last).ops = .wr a r d :: rest := by
  fun_cases attemptStepX c io i k m last
  all_goals first
    | exact ⟨_, _, _, _, rfl⟩
    | (rcases faultX_cases c io i _ m _ _ with ⟨_, _, h'⟩ | ⟨_, _, _, h'⟩ | ⟨e, _, _, _, h'⟩ | ⟨_, h'⟩ <;>
        rw [h'] <;> exact ⟨_, _, _, _, rfl⟩)

theorem attemptsX_head (c : CfgX) (io : Script) (i k m : Nat) (last : Out) (hi : i ≤ c.maxRetry) :
    ∃ a r d, (attemptsX c io i k m last).2.head? = some (.wr a r d) := by
  obtain ⟨a, r, d, rest, h⟩ := step_head c io i k m last
  rw [attemptsX]
  have : ¬ c.maxRetry < i := by omega
  simp only [this, dite_false]
  cases hst : attemptStepX c io i k m last with
  | fin o t => rw [hst] at h; simp only [StepX.ops] at h; exact ⟨a, r, d, by simp [h]⟩
  | next t k' m' l => rw [hst] at h; simp only [StepX.ops] at h; exact ⟨a, r, d, by simp [preX, h]⟩

theorem attemptsX_adj (c : CfgX) (io : Script) (i k m : Nat) (last : Out) :
    Adj (okNext io) (attemptsX c io i k m last).2 := by
  fun_induction attemptsX c io i k m last with
  | case1 => trivial
  | case2 i k m last _ o t hst =>
    have sa := step_adj c io i k m last
    rw [hst] at sa
    exact sa
  | case3 i k m last _ t k' m' l hst ih =>
    have sa := step_adj c io i k m last
    rw [hst] at sa
    refine sa _ ih ?_
    by_cases hl : i < c.maxRetry
    · exact .inl ⟨attemptsX_head c io (i+1) k' m' l (by omega), hl⟩
    · exact .inr ⟨by rw [attemptsX_done c io (i+1) k' m' l (by omega)], by omega⟩

/-! ### a failed reconnect -/

theorem impliedX_rcfail {B : Bounds} {io : Script} {ph : PhaseX} {b j k m mf : Nat} {e : RcFault}
    (h : ImpliedX B io ph b j k m (.reconnectFailed mf e)) : io.rc mf = .fail e := by
  generalize ho : OutX.reconnectFailed mf e = o at h
  induction h with
  | sendLostNoReconnect _ hr => injection ho with e1 e2; subst e1; subst e2; exact hr
  | lostNoReconnect _ _ hr => injection ho with e1 e2; subst e1; subst e2; exact hr
  | sent _ _ ih => exact ih ho
  | sendSilentRetry _ _ ih => exact ih ho
  | sendLostRetry _ _ _ ih => exact ih ho
  | busyRetry _ _ ih => exact ih ho
  | silentRetry _ _ ih => exact ih ho
  | lostRetry _ _ _ _ ih => exact ih ho
  | pendFirst _ _ ih => exact ih ho
  | pendAgain _ _ _ ih => exact ih ho
  | quiet _ _ _ ih => exact ih ho
  | silenceRetry _ _ _ ih => exact ih ho
  | _ => cases ho

/-! ### the timeouts the transport calls get -/

theorem pend_all_waiting (c : Cfg) (s : Nat → Ev) (k np nt : Nat) :
    ∀ op ∈ (pendingLoop c s k np nt).2, ∃ j d, op = .rd j c.lim.waiting d := by
  fun_induction pendingLoop c s k np nt with
  | case2 _ _ _ _ _ ih => simpa [consOp] using ih
  | case8 _ _ _ _ _ ih => simpa [consOp] using ih
  | _ => simp

/-- a write gets the request timeout; a read gets the request timeout (first read of an attempt) or `waiting_time`
    (polls, through `_read`) -/
def TmoOk (c : CfgX) : OpX → Prop
  | .wr a _ _ => a = c.timeout
  | .rd _ t _ => t = c.timeout ∨ t = some c.lim.waiting
  | _ => True

theorem tmoOk_fault (c : CfgX) (io : Script) (i k m : Nat) (rc : Bool) (t : List OpX) (h : ∀ op ∈ t, TmoOk c op) :
    ∀ op ∈ (faultX c io i k m rc t).ops, TmoOk c op := by
  have hx : ∀ (e : List OpX), (∀ op ∈ e, TmoOk c op) → ∀ op ∈ t ++ e, TmoOk c op := by
    intro e he op hop
    rcases List.mem_append.mp hop with h1 | h1
    · exact h op h1
    · exact he op h1
  rcases faultX_cases c io i k m rc t with ⟨_, _, h'⟩ | ⟨_, _, _, h'⟩ | ⟨e, _, _, _, h'⟩ | ⟨_, h'⟩ <;> rw [h'] <;>
    simp only [StepX.ops]
  · exact hx _ (by simp [TmoOk])
  · exact hx _ (by simp [TmoOk])
  · exact hx _ (by simp [TmoOk])
  · exact h

theorem tmoOk_lift (c : CfgX) (t : List Op) (h : ∀ op ∈ t, ∃ j d, op = .rd j c.lim.waiting d) :
    ∀ op ∈ t.map (liftPend c), TmoOk c op := by
  intro op hop
  simp at hop
  obtain ⟨o, ho, rfl⟩ := hop
  obtain ⟨j, d, rfl⟩ := h o ho
  exact .inr rfl

theorem step_tmoOk (c : CfgX) (io : Script) (i k m : Nat) (last : Out) :
    ∀ op ∈ (attemptStepX c io i k m last).ops, TmoOk c op := by
  fun_cases attemptStepX c io i k m last
  all_goals try (rename_i hp; have pw := tmoOk_lift c _ (hp ▸ pend_all_waiting c.base io.rd (k+1) 1 0))
  all_goals first
    | (refine tmoOk_fault c io i _ m _ _ ?_; intro op hop; simp at hop
       rcases hop with rfl | rfl | hop <;> first | rfl | exact .inl rfl | exact pw op (by simpa using hop))
    | (refine tmoOk_fault c io i _ m _ _ ?_; intro op hop; simp at hop
       rcases hop with rfl | rfl <;> first | rfl | exact .inl rfl)
    | (refine tmoOk_fault c io i _ m _ _ ?_; intro op hop; simp at hop; subst hop; rfl)
    | (intro op hop; simp [StepX.ops] at hop
       rcases hop with rfl | rfl | hop <;> first | rfl | exact .inl rfl | exact pw op (by simpa using hop))
    | (intro op hop; simp [StepX.ops] at hop
       rcases hop with rfl | rfl | rfl <;> first | rfl | exact .inl rfl | trivial)
    | (intro op hop; simp [StepX.ops] at hop
       rcases hop with rfl | rfl <;> first | rfl | exact .inl rfl)

theorem attemptsX_tmoOk (c : CfgX) (io : Script) (i k m : Nat) (last : Out) :
    ∀ op ∈ (attemptsX c io i k m last).2, TmoOk c op := by
  fun_induction attemptsX c io i k m last with
  | case1 => simp
  | case2 i k m last _ o t hst =>
    have := step_tmoOk c io i k m last
    rw [hst] at this; exact this
  | case3 i k m last _ t k' m' l hst ih =>
    have := step_tmoOk c io i k m last
    rw [hst] at this
    intro op hop
    simp only [preX, List.mem_append] at hop
    exact hop.elim (this op) (ih op)

end Gallia.ClientIO
