import Gallia.Model.DbLog
/-
  Helper lemmas for C11: the specification fold distributes over `++`; the invariant that ties the
  producer / queue / consumer / database system to the specification fold, for every scheduler choice.
-/
namespace Gallia.DbLog
open Gallia

/-! ### the specification fold -/

theorem specState_append (st : EcuState) (a b : List Exchange) :
    specState st (a ++ b) = specState (specState st a) b := by
  induction a generalizing st with
  | nil => rfl
  | cons e es ih => simp [specState, ih]

theorem specClock_append (c : Nat) (a b : List Exchange) :
    specClock c (a ++ b) = specClock (specClock c a) b := by
  induction a generalizing c with
  | nil => rfl
  | cons e es ih => simp [specClock, ih]

theorem specRows_append (st : EcuState) (c : Nat) (a b : List Exchange) :
    specRows st c (a ++ b) = specRows st c a ++ specRows (specState st a) (specClock c a) b := by
  induction a generalizing st c with
  | nil => rfl
  | cons e es ih => simp [specRows, specState, specClock, ih, Nat.add_assoc]

theorem specRows_single (st : EcuState) (c : Nat) (e : Exchange) :
    specRows st c [e] = if e.implicitOn then [mkRow st (c + e.dSend) (c + e.dSend + e.dRecv) e] else [] := by
  simp [specRows]

theorem specClock_le (c : Nat) (h : List Exchange) : c ≤ specClock c h := by
  induction h generalizing c with
  | nil => exact Nat.le_refl _
  | cons e es ih => exact Nat.le_trans (by omega) (ih _)

theorem specState_eq_foldl (st : EcuState) (h : List Exchange) : specState st h = h.foldl nextState st := by
  induction h generalizing st with
  | nil => rfl
  | cons e es ih => simp [specState, ih]

/-- every row of the fold has its send time at or after the starting clock -/
theorem specRows_sendT_ge (st : EcuState) (c : Nat) (h : List Exchange) :
    ∀ r ∈ specRows st c h, c ≤ r.sendT := by
  induction h generalizing st c with
  | nil => simp [specRows]
  | cons e es ih =>
    intro r hr
    simp only [specRows, List.mem_append] at hr
    rcases hr with hr | hr
    · split at hr
      · simp only [List.mem_singleton] at hr; subst hr; simp [mkRow]
      · simp at hr
    · have := ih _ _ r hr; omega

/-! ### the writer -/

theorem Writer.step_all {α : Type} (w : Writer α) (c : WChoice) : (w.step c).all = w.all := by
  cases c <;> simp only [Writer.step, Writer.all]
  · split
    · next r q h1 h2 => simp [h1, h2]
    · rfl
  · split
    · next r h1 => simp [h1, List.append_assoc]
    · rfl
  · split <;> rfl
  · split <;> rfl

theorem Writer.put_all {α : Type} (w : Writer α) (r : α) : (w.put r).all = w.all ++ [r] := by
  simp [Writer.put, Writer.all, List.append_assoc]

/-- `join()` accounting: the counter of unfinished tasks is the number of rows queued or in flight -/
def Writer.Counted {α : Type} (w : Writer α) : Prop := w.unfinished = w.queue.length + w.inflight.toList.length

theorem Writer.Counted.step {α : Type} {w : Writer α} (hc : w.Counted) (c : WChoice) : (w.step c).Counted := by
  unfold Writer.Counted at *
  cases c <;> simp only [Writer.step]
  · split
    · next r q h1 h2 => simp_all <;> omega
    · exact hc
  · split
    · next r h1 => simp_all
    · exact hc
  · split <;> exact hc
  · split <;> exact hc

theorem Writer.Counted.put {α : Type} {w : Writer α} (hc : w.Counted) (r : α) : (w.put r).Counted := by
  unfold Writer.Counted at *
  simp [Writer.put, hc]; omega

/-- failed attempts change nothing but the warning counter (and remember that the statement was executed) -/
theorem Writer.exec_retries {α : Type} (w : Writer α) (r : α) (hi : w.inflight = some r) (k : Nat) :
    w.exec (List.replicate k .retry) = { w with retries := w.retries + k } := by
  induction k generalizing w with
  | zero => simp [Writer.exec]
  | succ n ih =>
    have h1 : (w.step .retry) = { w with retries := w.retries + 1 } := by simp [Writer.step, hi]
    have h2 : (w.step .retry).inflight = some r := by simp [h1, hi]
    simp only [Writer.exec, List.replicate_succ, List.foldl_cons]
    have := ih (w.step .retry) h2
    simp only [Writer.exec] at this
    rw [this, h1]
    simp [Nat.add_assoc, Nat.add_comm 1 n]

theorem Writer.exec_commitFails {α : Type} (w : Writer α) (r : α) (hi : w.inflight = some r) (m : Nat) (hm : 0 < m) :
    w.exec (List.replicate m .commitFail) = { w with executed := true, retries := w.retries + m } := by
  induction m generalizing w with
  | zero => omega
  | succ n ih =>
    have h1 : (w.step .commitFail) = { w with executed := true, retries := w.retries + 1 } := by simp [Writer.step, hi]
    simp only [Writer.exec, List.replicate_succ, List.foldl_cons]
    rcases Nat.eq_zero_or_pos n with hn | hn
    · subst hn; simp [h1]
    · have h2 : (w.step .commitFail).inflight = some r := by simp [h1, hi]
      have := ih (w.step .commitFail) h2 hn
      simp only [Writer.exec] at this
      rw [this, h1]
      simp [Nat.add_assoc, Nat.add_comm 1 n]

theorem Writer.exec_append {α : Type} (w : Writer α) (a b : List WChoice) : w.exec (a ++ b) = (w.exec a).exec b := by
  simp [Writer.exec, List.foldl_append]

/-- one row through the consumer: however often its `execute` and its `commit` fail first, it ends up in the table right
    after the rows before it, once -/
theorem Writer.exec_row {α : Type} (w : Writer α) (r : α) (q : List α) (hi : w.inflight = none) (hq : w.queue = r :: q)
    (k m : Nat) :
    let w' := w.exec (rowSched k m)
    w'.queue = q ∧ w'.inflight = none ∧ w'.db = w.db ++ [r] ∧ w'.unfinished = w.unfinished - 1 ∧
    w'.retries = w.retries + k + m := by
  have hget : w.step .get = { w with inflight := some r, queue := q, executed := false } := by
    simp [Writer.step, hi, hq]
  simp only [rowSched, Writer.exec_append]
  have e1 : w.exec [.get] = w.step .get := rfl
  rw [e1, hget]
  rw [Writer.exec_retries _ r rfl k]
  rcases Nat.eq_zero_or_pos m with hm | hm
  · subst hm
    simp [Writer.exec, Writer.step]
  · rw [Writer.exec_commitFails _ r rfl m hm]
    simp [Writer.exec, Writer.step, Nat.add_assoc]

/-- the whole backlog, row after row, each with its own number of failed attempts -/
theorem Writer.exec_drain {α : Type} (w : Writer α) (hi : w.inflight = none) (faults : List (Nat × Nat))
    (hl : faults.length = w.queue.length) :
    let w' := w.exec (faults.flatMap fun f => rowSched f.1 f.2)
    w'.queue = [] ∧ w'.inflight = none ∧ w'.db = w.db ++ w.queue ∧ w'.unfinished = w.unfinished - w.queue.length ∧
    w'.retries = w.retries + (faults.map fun f => f.1 + f.2).sum := by
  induction faults generalizing w with
  | nil =>
    have : w.queue = [] := by
      cases hq : w.queue with
      | nil => rfl
      | cons a b => simp [hq] at hl
    simp [Writer.exec, this, hi]
  | cons f fs ih =>
    cases hq : w.queue with
    | nil => simp [hq] at hl
    | cons r q =>
      obtain ⟨h1, h2, h3, h4, h5⟩ := Writer.exec_row w r q hi hq f.1 f.2
      have hl' : fs.length = (w.exec (rowSched f.1 f.2)).queue.length := by
        rw [h1]; simp [hq] at hl; exact hl
      obtain ⟨g1, g2, g3, g4, g5⟩ := ih (w.exec (rowSched f.1 f.2)) h2 hl'
      simp only [List.flatMap_cons, Writer.exec_append]
      refine ⟨g1, g2, ?_, ?_, ?_⟩
      · rw [g3, h3, h1]; simp
      · rw [g4, h4, h1]; simp; omega
      · rw [g5, h5]; simp; omega

theorem Writer.empty_all {α : Type} : (Writer.empty : Writer α).all = [] := rfl

/-! ### draining the queue -/

theorem drainQueue_eq (db q : List Row) : drainQueue db q = db ++ q := by
  induction q generalizing db with
  | nil => simp [drainQueue]
  | cons r q ih => simp [drainQueue, ih]

theorem afterDisconnect_eq (s : Sys) : afterDisconnect s = s.toWriter.all := by
  unfold afterDisconnect
  cases h : s.inflight with
  | none => simp [drainQueue_eq, Writer.all, h]
  | some r => simp [step, Writer.step, h, drainQueue_eq, Writer.all]

theorem take_self_iff {α : Type} (l : List α) (n : Nat) : l.take n = l ↔ l.length ≤ n :=
  ⟨fun h => by have := congrArg List.length h; simp [List.length_take] at this; omega, fun h => List.take_of_length_le h⟩

/-- producer steps touch neither the table nor the row the consumer holds -/
theorem prods_keep_db (l : List Exchange) (s : Sys) :
    (exec s (l.map fun _ => Choice.prod)).db = s.db ∧ (exec s (l.map fun _ => Choice.prod)).inflight = s.inflight := by
  induction l generalizing s with
  | nil => simp [exec]
  | cons e es ih =>
    simp only [List.map_cons, exec, List.foldl_cons]
    have := ih (step s .prod)
    simp only [exec] at this
    rw [this.1, this.2]
    simp only [step]
    split
    · simp
    · split
      · simp
      · simp only [logStep]; split <;> simp [Writer.put]

/-! ### the invariant -/

/-- committed ++ in flight ++ queued = the rows of the exchanges performed so far, in order; the client-side
    state and the clock are those of the specification fold -/
structure Inv (s : Sys) : Prop where
  rows : s.toWriter.all = specRows .init 0 s.done
  ecu : s.ecu = specState .init s.done
  clock : s.clock = specClock 0 s.done

theorem Inv.init (h : List Exchange) : Inv (Sys.init h) := by
  constructor <;> simp [Sys.init, specRows, specState, specClock, Writer.empty_all]

theorem Inv.logStep {s : Sys} (hi : Inv s) (rest : List Exchange) (e : Exchange) :
    Inv (logStep { s with todo := rest } e) := by
  obtain ⟨hr, he, hc⟩ := hi
  unfold DbLog.logStep
  by_cases himp : e.implicitOn
  · simp only [himp, if_true]
    constructor
    · simp only [specRows_append, specRows_single, himp, if_true, Writer.put_all, hr, ← he, ← hc]
    · simp [specState_append, specState, he]
    · simp [specClock_append, specClock, hc, Nat.add_assoc]
  · simp only [himp, Bool.false_eq_true, if_false]
    constructor
    · simp only [specRows_append, specRows_single, himp, ← hr]
      simp
    · simp [specState_append, specState, he]
    · simp [specClock_append, specClock, hc, Nat.add_assoc]

/-- every scheduler choice preserves the invariant - write failures included: a failed `execute` or `commit` leaves the
    row in flight, so it keeps its place -/
theorem Inv.step {s : Sys} (hi : Inv s) (c : Choice) : Inv (step s c) := by
  cases c with
  | prod =>
    simp only [DbLog.step]
    split
    · exact hi
    · split
      · exact hi
      · exact hi.logStep _ _
  | cancelIn =>
    simp only [DbLog.step]
    split
    · exact hi
    · split
      · exact ⟨hi.rows, hi.ecu, hi.clock⟩
      · have := hi.logStep [] { (‹Exchange›) with out := Outcome.cancelled }
        exact ⟨this.rows, this.ecu, this.clock⟩
  | cancel => exact ⟨hi.rows, hi.ecu, hi.clock⟩
  | get => exact ⟨by simpa [DbLog.step, Writer.step_all] using hi.rows, hi.ecu, hi.clock⟩
  | commit => exact ⟨by simpa [DbLog.step, Writer.step_all] using hi.rows, hi.ecu, hi.clock⟩
  | retry => exact ⟨by simpa [DbLog.step, Writer.step_all] using hi.rows, hi.ecu, hi.clock⟩
  | commitFail => exact ⟨by simpa [DbLog.step, Writer.step_all] using hi.rows, hi.ecu, hi.clock⟩

theorem Inv.exec {s : Sys} (hi : Inv s) (sched : List Choice) : Inv (exec s sched) := by
  induction sched generalizing s with
  | nil => exact hi
  | cons c cs ih => exact ih (hi.step c)

/-! ### which exchanges have been performed -/

/-- `d` is a prefix of `h`, possibly followed by the next exchange of `h` turned into a cancelled one -/
def PrefixOrCancelled (h d : List Exchange) : Prop :=
  ∃ pre post, h = pre ++ post ∧
    (d = pre ∨ ∃ e rest, post = e :: rest ∧ d = pre ++ [{ e with out := Outcome.cancelled }])

def Prog (h : List Exchange) (s : Sys) : Prop :=
  (s.stopped = false → s.done ++ s.todo = h) ∧ (s.stopped = true → PrefixOrCancelled h s.done)

theorem Prog.init (h : List Exchange) : Prog h (Sys.init h) := by
  constructor <;> simp [Sys.init]

theorem logStep_done (s : Sys) (e : Exchange) : (logStep s e).done = s.done ++ [e] := by
  unfold logStep; split <;> rfl

theorem logStep_todo (s : Sys) (e : Exchange) : (logStep s e).todo = s.todo := by
  unfold logStep; split <;> rfl

theorem logStep_stopped (s : Sys) (e : Exchange) : (logStep s e).stopped = s.stopped := by
  unfold logStep; split <;> rfl

theorem Prog.step {h : List Exchange} {s : Sys} (hp : Prog h s) (c : Choice) : Prog h (step s c) := by
  obtain ⟨h1, h2⟩ := hp
  cases c with
  | prod =>
    simp only [DbLog.step]
    split
    · exact ⟨h1, h2⟩
    · next hs =>
      have hs' : s.stopped = false := by simpa using hs
      split
      · exact ⟨h1, h2⟩
      · next e rest ht =>
        constructor
        · intro _
          rw [logStep_done, logStep_todo]
          have := h1 hs'
          simp [ht] at this ⊢
          exact this
        · intro hst
          rw [logStep_stopped] at hst
          simp [hs'] at hst
  | cancelIn =>
    simp only [DbLog.step]
    split
    · exact ⟨h1, h2⟩
    · next hs =>
      have hs' : s.stopped = false := by simpa using hs
      have hd := h1 hs'
      split
      · next ht =>
        refine ⟨by simp, fun _ => ⟨s.done, [], ?_, Or.inl rfl⟩⟩
        simpa [ht] using hd.symm
      · next e rest ht =>
        refine ⟨by simp, fun _ => ⟨s.done, e :: rest, ?_, Or.inr ⟨e, rest, rfl, ?_⟩⟩⟩
        · simpa [ht] using hd.symm
        · show (logStep _ _).done = _
          rw [logStep_done]
  | cancel =>
    refine ⟨by simp [DbLog.step], fun _ => ?_⟩
    show PrefixOrCancelled h s.done
    cases hs : s.stopped with
    | true => exact h2 hs
    | false => exact ⟨s.done, s.todo, (h1 hs).symm, Or.inl rfl⟩
  | get => exact ⟨h1, h2⟩
  | commit => exact ⟨h1, h2⟩
  | retry => exact ⟨h1, h2⟩
  | commitFail => exact ⟨h1, h2⟩

theorem Prog.exec {h : List Exchange} {s : Sys} (hp : Prog h s) (sched : List Choice) : Prog h (exec s sched) := by
  induction sched generalizing s with
  | nil => exact hp
  | cons c cs ih => exact ih (hp.step c)

/-- whatever the schedule, the performed exchanges are a prefix of the history (plus possibly a cancelled one) -/
theorem performed_prefix (h : List Exchange) (sched : List Choice) :
    PrefixOrCancelled h (exec (Sys.init h) sched).done := by
  have hp := (Prog.init h).exec sched
  cases hs : (exec (Sys.init h) sched).stopped with
  | true => exact hp.2 hs
  | false => exact ⟨_, _, (hp.1 hs).symm, Or.inl rfl⟩

/-! ### the `join()` counter -/

def Counted (s : Sys) : Prop := s.toWriter.Counted

theorem logStep_counted {s : Sys} (hc : Counted s) (e : Exchange) : Counted (logStep s e) := by
  unfold Counted at *
  unfold logStep
  split
  · exact hc.put _
  · exact hc

theorem Counted.step {s : Sys} (hc : Counted s) (c : Choice) : Counted (step s c) := by
  cases c with
  | prod =>
    simp only [DbLog.step]
    split
    · exact hc
    · split
      · exact hc
      · next e rest ht => exact logStep_counted (s := { s with todo := rest }) hc e
  | cancelIn =>
    simp only [DbLog.step]
    split
    · exact hc
    · split
      · exact hc
      · next e rest ht => exact logStep_counted (s := { s with todo := [] }) hc { e with out := Outcome.cancelled }
  | cancel => exact hc
  | get => exact Writer.Counted.step hc .get
  | commit => exact Writer.Counted.step hc .commit
  | retry => exact Writer.Counted.step hc .retry
  | commitFail => exact Writer.Counted.step hc .commitFail

theorem Counted.exec {s : Sys} (hc : Counted s) (sched : List Choice) : Counted (exec s sched) := by
  induction sched generalizing s with
  | nil => exact hc
  | cons c cs ih => exact ih (hc.step c)

/-! ### the scanner-level implicit-logging switch -/

def Flag.run (f : Flag) (es : List LEvent) : Flag := es.foldl Flag.step f

theorem flagsAt_append (f : Flag) (a b : List LEvent) : flagsAt f (a ++ b) = flagsAt f a ++ flagsAt (f.run a) b := by
  induction a generalizing f with
  | nil => rfl
  | cons e es ih =>
    cases e <;> simp [flagsAt, Flag.run, Flag.step, ih] <;> rfl

/-- the database is open and the ECU object carries the value the scanner asked for -/
def Flag.Synced (f : Flag) : Prop := f.db = true ∧ f.ecu = some f.stored

theorem Flag.Synced.step {f : Flag} (h : f.Synced) (e : LEvent) (he : e ≠ .createEcu) : (f.step e).Synced := by
  obtain ⟨h1, h2⟩ := h
  cases e with
  | createEcu => exact absurd rfl he
  | set v => simp [Flag.step, Flag.Synced, h1, h2]
  | openDb => simp [Flag.step, Flag.Synced, h2]
  | apply => simp [Flag.step, Flag.Synced, h1, h2]
  | request => exact ⟨h1, h2⟩

theorem flagsAt_synced (f : Flag) (h : f.Synced) (es : List LEvent) (hno : LEvent.createEcu ∉ es) :
    ∀ p ∈ flagsAt f es, p.1 = p.2 := by
  induction es generalizing f with
  | nil => simp [flagsAt]
  | cons e es ih =>
    have hne : e ≠ .createEcu := fun hx => hno (by simp [hx])
    have hno' : LEvent.createEcu ∉ es := fun hx => hno (by simp [hx])
    cases e with
    | request =>
      intro p hp
      simp only [flagsAt, List.mem_cons] at hp
      rcases hp with hp | hp
      · subst hp; simp [h.2]
      · exact ih f h hno' p hp
    | createEcu => exact absurd rfl hne
    | set v => simpa [flagsAt] using ih _ (h.step (.set v) (by simp)) hno'
    | openDb => simpa [flagsAt] using ih _ (h.step .openDb (by simp)) hno'
    | apply => simpa [flagsAt] using ih _ (h.step .apply (by simp)) hno'

/-- assignments only: no request is made, the database flag is kept -/
theorem sets_only (f : Flag) (es : List LEvent) (h : ∀ e ∈ es, ∃ v, e = .set v) :
    flagsAt f es = [] ∧ (f.run es).db = f.db ∧ (f.ecu = none → (f.run es).ecu = none) := by
  induction es generalizing f with
  | nil => simp [flagsAt, Flag.run]
  | cons e es ih =>
    obtain ⟨v, hv⟩ := h e (by simp)
    subst hv
    have := ih (f.step (.set v)) (fun e he => h e (by simp [he]))
    refine ⟨by simpa [flagsAt] using this.1, by simpa [Flag.run, Flag.step] using this.2.1, ?_⟩
    intro hn
    have h3 := this.2.2 (by simp [Flag.step, hn])
    simpa [Flag.run] using h3

theorem Flag.Synced.run {f : Flag} (h : f.Synced) (es : List LEvent) (hno : LEvent.createEcu ∉ es) : (f.run es).Synced := by
  induction es generalizing f with
  | nil => exact h
  | cons e es ih =>
    have hne : e ≠ .createEcu := fun hx => hno (by simp [hx])
    exact ih (h.step e hne) (fun hx => hno (by simp [hx]))

theorem tokenEvents_no_create (ts : List String) (h : ts.contains "create-ecu" = false) :
    LEvent.createEcu ∉ tokenEvents ts := by
  induction ts with
  | nil => simp [tokenEvents]
  | cons t ts ih =>
    simp only [List.contains_cons, Bool.or_eq_false_iff] at h
    have ht : t ≠ "create-ecu" := by
      intro hx; subst hx; simp at h
    have := ih h.2
    simp only [tokenEvents, ht, if_false, List.mem_append]
    rintro (hx | hx)
    · split at hx
      · simp at hx
      · split at hx <;> simp at hx
    · exact this hx

/-- after the ECU object exists (database open): a rest that passes `appliedAfterCreate` makes no unsynced request and ends
    synced -/
theorem appliedAfterCreate_sound (ts : List String) (h : appliedAfterCreate ts = true) (f : Flag) (hdb : f.db = true)
    (hecu : f.ecu.isSome = true) :
    (∀ p ∈ flagsAt f (tokenEvents ts), p.1 = p.2) ∧ (f.run (tokenEvents ts)).Synced := by
  induction ts generalizing f with
  | nil => simp [appliedAfterCreate] at h
  | cons t r ih =>
    simp only [appliedAfterCreate] at h
    by_cases h1 : t = "apply"
    · subst h1
      simp only [if_true, Bool.not_eq_true'] at h
      have hno := tokenEvents_no_create r h
      obtain ⟨v, hv⟩ := Option.isSome_iff_exists.mp hecu
      have hs : (f.step .apply).Synced := by simp [Flag.step, Flag.Synced, hdb, hv]
      have he : tokenEvents ("apply" :: r) = .apply :: tokenEvents r := by simp [tokenEvents]
      rw [he]
      refine ⟨?_, ?_⟩
      · simpa [flagsAt] using flagsAt_synced _ hs _ hno
      · simpa [Flag.run] using hs.run _ hno
    · simp only [h1, if_false] at h
      by_cases h2 : t = "request"
      · simp [h2] at h
      · simp only [h2, if_false] at h
        by_cases h3 : t = "create-ecu"
        · subst h3
          have he : tokenEvents ("create-ecu" :: r) = .createEcu :: tokenEvents r := by simp [tokenEvents]
          rw [he]
          have := ih h (f.step .createEcu) (by simp [Flag.step, hdb]) (by simp [Flag.step])
          exact ⟨by simpa [flagsAt] using this.1, by simpa [Flag.run] using this.2⟩
        · have he : tokenEvents (t :: r) = tokenEvents r := by simp [tokenEvents, h1, h2, h3]
          rw [he]
          exact ih h f hdb hecu

/-- a statement sequence that passes `appliedBeforeRequest`, run with the database open and no ECU object yet: every request
    in it uses the value the scanner asked for, and it ends synced -/
theorem applied_tokens (ts : List String) (h : appliedBeforeRequest ts = true) (f : Flag) (hdb : f.db = true)
    (hecu : f.ecu = none) :
    (∀ p ∈ flagsAt f (tokenEvents ts), p.1 = p.2) ∧ (f.run (tokenEvents ts)).Synced := by
  induction ts generalizing f with
  | nil => simp [appliedBeforeRequest] at h
  | cons t r ih =>
    simp only [appliedBeforeRequest] at h
    by_cases h1 : t = "create-ecu"
    · subst h1
      simp only [if_true] at h
      have he : tokenEvents ("create-ecu" :: r) = .createEcu :: tokenEvents r := by simp [tokenEvents]
      rw [he]
      have := appliedAfterCreate_sound r h (f.step .createEcu) (by simp [Flag.step, hdb]) (by simp [Flag.step])
      exact ⟨by simpa [flagsAt] using this.1, by simpa [Flag.run] using this.2⟩
    · simp only [h1, if_false] at h
      by_cases h2 : t = "request"
      · simp [h2] at h
      · simp only [h2, if_false] at h
        by_cases h3 : t = "apply"
        · subst h3
          have he : tokenEvents ("apply" :: r) = .apply :: tokenEvents r := by simp [tokenEvents]
          rw [he]
          have := ih h (f.step .apply) (by simp [Flag.step, hdb]) (by simp [Flag.step, hecu])
          exact ⟨by simpa [flagsAt] using this.1, by simpa [Flag.run] using this.2⟩
        · have he : tokenEvents (t :: r) = tokenEvents r := by simp [tokenEvents, h1, h2, h3]
          rw [he]
          exact ih h f hdb hecu

end Gallia.DbLog
