import Gallia.Proofs.Lemmas.ScansFrame
/-
  What the scanners put on the wire, for ANY ECU: an ECU with a request log is an ECU whose state exposes a list
  that every exchange extends by the request, once per transmission (`Logs`).  `logged e` (one entry per exchange) and
  the real client loop over a logging wire ECU (`clientEcu (wlogged w) retry`, one entry per transmission, see
  `ScansWire`) are instances.
-/
namespace Gallia.Scans
open Gallia

variable {σ : Type}

/-- `log` is a request log of `e`: an exchange of `p` prepends between 1 and `N` copies of `p` -/
structure Logs (e : Ecu σ) (log : σ → List Bytes) (N : Nat) : Prop where
  step_log : ∀ s p, ∃ n, 0 < n ∧ n ≤ N ∧ log (e.step s p).1 = List.replicate n p ++ log s

/-- the same ECU, remembering every request it was sent (newest first) -/
def logged (e : Ecu σ) : Ecu (σ × List Bytes) where
  step s p := (((e.step s.1 p).1, p :: s.2), (e.step s.1 p).2)

theorem logged_logs (e : Ecu σ) : Logs (logged e) (·.2) 1 :=
  ⟨fun s p => ⟨1, by omega, by omega, rfl⟩⟩

/-- since state `s0` the log grew by requests satisfying `A` only -/
def GrewBy (log : σ → List Bytes) (A : Bytes → Prop) (s0 s : σ) : Prop :=
  ∃ new, log s = new ++ log s0 ∧ ∀ r ∈ new, A r

theorem GrewBy.refl (log : σ → List Bytes) (A : Bytes → Prop) (s : σ) : GrewBy log A s s := ⟨[], by simp, by simp⟩

theorem GrewBy.step {e : Ecu σ} {log : σ → List Bytes} {N : Nat} (L : Logs e log N) (A : Bytes → Prop) (s0 s : σ)
    (p : Bytes) (hp : A p) (h : GrewBy log A s0 s) : GrewBy log A s0 (e.step s p).1 := by
  obtain ⟨new, h1, h2⟩ := h
  obtain ⟨n, _, _, hn⟩ := L.step_log s p
  refine ⟨List.replicate n p ++ new, by rw [hn, h1]; simp, ?_⟩
  intro r hr
  simp only [List.mem_append, List.mem_replicate] at hr
  rcases hr with ⟨_, rfl⟩ | hr
  · exact hp
  · exact h2 r hr

theorem GrewBy.trans {log : σ → List Bytes} {A : Bytes → Prop} {s0 s1 s2 : σ}
    (h1 : GrewBy log A s0 s1) (h2 : GrewBy log A s1 s2) : GrewBy log A s0 s2 := by
  obtain ⟨n1, a1, b1⟩ := h1
  obtain ⟨n2, a2, b2⟩ := h2
  refine ⟨n2 ++ n1, by rw [a2, a1]; simp, ?_⟩
  intro r hr
  simp only [List.mem_append] at hr
  rcases hr with hr | hr
  · exact b2 r hr
  · exact b1 r hr

theorem GrewBy.mono {log : σ → List Bytes} {A B : Bytes → Prop} (hAB : ∀ r, A r → B r) {s0 s : σ}
    (h : GrewBy log A s0 s) : GrewBy log B s0 s := by
  obtain ⟨n, a, c⟩ := h
  exact ⟨n, a, fun r hr => hAB r (c r hr)⟩

/-- the scan of one session sends nothing but probes of selected service ids and, with `--check-session`, the
    requests of the session check — whether it ends normally, is given up, or dies -/
theorem performScanFrom_sends {e : Ecu σ} {log : σ → List Bytes} {N : Nat} (L : Logs e log N) (cfg : SvcCfg)
    (session : Option Nat) (sids : List Nat) (hs : ∀ sid ∈ sids, sid < 256) (s : σ) :
    GrewBy log (SvcReq cfg session) s (performScanFrom e cfg session sids s).1 :=
  performScanFrom_inv e (GrewBy log (SvcReq cfg session) s) cfg session sids hs
    (fun s' p hp h => GrewBy.step L _ s s' p hp h) s (GrewBy.refl _ _ s)

theorem sessionCheck_sends {e : Ecu σ} {log : σ → List Bytes} {N : Nat} (L : Logs e log N) (cfg : SvcCfg)
    (session : Option Nat) (s : σ) :
    GrewBy log (SvcReq cfg session) s (sessionCheck e cfg session s).1 :=
  sessionCheck_inv e (GrewBy log (SvcReq cfg session) s) cfg session
    (fun s' p hp h => GrewBy.step L _ s s' p hp h) s (GrewBy.refl _ _ s)

/-- the whole service scan over a session list -/
theorem svcSessions_sends {e : Ecu σ} {log : σ → List Bytes} {N : Nat} (L : Logs e log N) (cfg : SvcCfg)
    (ks : List Nat) (s : σ) :
    GrewBy log (ScanReq cfg ks) s (svcSessions e cfg ks s).1 :=
  svcSessions_inv e (GrewBy log (ScanReq cfg ks) s) cfg ks
    (fun s' p hp h => GrewBy.step L _ s s' p hp h) s (GrewBy.refl _ _ s)

/-- the probe loop of a service id starts with the shortest probe -/
theorem probeLens_first {e : Ecu σ} {log : σ → List Bytes} {N : Nat} (L : Logs e log N) (sid l : Nat) (ls : List Nat)
    (s : σ) : ∃ new, log (probeLens e sid (l :: ls) s).1 = new ++ log s ∧ probePdu sid l ∈ new := by
  obtain ⟨n, hn0, _, hn⟩ := L.step_log s (probePdu sid l)
  have hrest : GrewBy log (fun _ => True) (e.step s (probePdu sid l)).1 (probeLens e sid ls (e.step s (probePdu sid l)).1).1 :=
    probeLens_inv e (GrewBy log (fun _ => True) (e.step s (probePdu sid l)).1) sid ls
      (fun s' l' _ h => GrewBy.step L _ _ s' _ trivial h) _ (GrewBy.refl _ _ _)
  have hmem : probePdu sid l ∈ List.replicate n (probePdu sid l) := by
    simp only [List.mem_replicate, and_true]; omega
  have stop : ∃ new, log (e.step s (probePdu sid l)).1 = new ++ log s ∧ probePdu sid l ∈ new :=
    ⟨_, hn, hmem⟩
  have go : ∃ new, log (probeLens e sid ls (e.step s (probePdu sid l)).1).1 = new ++ log s ∧ probePdu sid l ∈ new := by
    obtain ⟨new, h1, _⟩ := hrest
    exact ⟨new ++ List.replicate n (probePdu sid l), by rw [h1, hn]; simp, by simp [hmem]⟩
  simp only [probeLens]
  cases hd : e.step s (probePdu sid l) with
  | mk s1 a =>
    rw [hd] at stop go
    cases a with
    | pos p => exact stop
    | stuck => exact stop
    | timeout => exact go
    | illegal =>
      simp only []
      cases hp : probeLens e sid ls s1 with
      | mk s2 r2 =>
        rw [hp] at go
        cases r2 <;> exact go
    | neg c =>
      simp only []
      split
      · exact stop
      · split
        · exact go
        · exact stop

/-- a scan of a session that ends normally and was not given up has probed every selected service id -/
theorem performScanFrom_cover {e : Ecu σ} {log : σ → List Bytes} {N : Nat} (L : Logs e log N) (cfg : SvcCfg)
    (session : Option Nat) (sids : List Nat) (hs : ∀ sid ∈ sids, sid < 256) (s : σ) (out : ScanOut)
    (hout : (performScanFrom e cfg session sids s).2 = .ok out) (hab : out.abortedAt = none) :
    ∃ new, log (performScanFrom e cfg session sids s).1 = new ++ log s ∧
      ∀ sid ∈ sids, sidSelected cfg session sid = true → probePdu sid 1 ∈ new := by
  induction sids generalizing s out with
  | nil => exact ⟨[], by simp [performScanFrom], by simp⟩
  | cons sid rest ih =>
    have hrest : ∀ x ∈ rest, x < 256 := fun x hx => hs x (by simp [hx])
    simp only [performScanFrom] at hout ⊢
    by_cases hsel : sidSelected cfg session sid = true
    · simp only [hsel, Bool.not_true, Bool.false_eq_true, ite_false] at hout ⊢
      obtain ⟨n0, hn0, _⟩ := sessionCheck_sends L cfg session s
      cases hc : sessionCheck e cfg session s with
      | mk s0 r0 =>
        rw [hc] at hout hn0
        simp only [] at hn0
        cases r0 with
        | raised w => simp at hout
        | ok okv =>
          cases okv with
          | false =>
            simp only [R.ok.injEq] at hout
            subst hout
            cases hab
          | true =>
            simp only [] at hout ⊢
            obtain ⟨n1, hn1, hfirst⟩ := probeLens_first L sid 1 [2, 3, 5] s0
            change log (probeLens e sid probeLengths s0).1 = _ at hn1
            cases hp : probeLens e sid probeLengths s0 with
            | mk s1 r1 =>
              rw [hp] at hout hn1
              simp only [] at hn1
              cases r1 with
              | raised w => simp at hout
              | ok v =>
                obtain ⟨r, c⟩ := v
                simp only [] at hout ⊢
                cases hq : performScanFrom e cfg session rest s1 with
                | mk s2 r2 =>
                  rw [hq] at hout
                  cases r2 with
                  | raised w => simp at hout
                  | ok out' =>
                    simp only [R.ok.injEq] at hout
                    subst hout
                    obtain ⟨n2, hn2, hcov⟩ := ih hrest s1 out' (by rw [hq]) hab
                    rw [hq] at hn2
                    simp only [] at hn2
                    refine ⟨n2 ++ n1 ++ n0, by simp only []; rw [hn2, hn1, hn0]; simp, ?_⟩
                    intro sid' hm hs'
                    simp only [List.mem_cons] at hm
                    simp only [List.mem_append]
                    rcases hm with rfl | hm
                    · exact Or.inl (Or.inr hfirst)
                    · exact Or.inl (Or.inl (hcov sid' hm hs'))
    · have hsel' : sidSelected cfg session sid = false := by simpa using hsel
      simp only [hsel', Bool.not_false, ite_true] at hout ⊢
      obtain ⟨n2, hn2, hcov⟩ := ih hrest s out hout hab
      refine ⟨n2, hn2, ?_⟩
      intro sid' hm hs'
      simp only [List.mem_cons] at hm
      rcases hm with rfl | hm
      · rw [hsel'] at hs'; cases hs'
      · exact hcov sid' hm hs'

end Gallia.Scans
