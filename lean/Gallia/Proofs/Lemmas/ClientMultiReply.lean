import Gallia.Proofs.Lemmas.UdsMatch
import Gallia.Proofs.Lemmas.ClientMultiReads
import Gallia.Proofs.Lemmas.ClientIOReads
/-
  C05 (widened) — the link between the shared inbox and C03: how `request_unsafe` classifies a message that is foreign
  to the reader's request, and what a `Prog.request` caller that has finished has read.
  (`foreign_mismatch` is C03's `foreign_refused`, re-derived here from the same helper lemmas so that the C05 proof module
  does not depend on the C03 proof module and its regenerated tables.)
-/
namespace Gallia.ClientMulti
open Gallia Gallia.UdsReq Gallia.UdsResp Gallia.UdsMatch Gallia.Reply Gallia.Client Gallia.ClientIO

theorem foreign_mismatch (r : Req) (hwf : r.WF) (b : Bytes) (h : Foreign r b) : parsePdu b r = .mismatch := by
  obtain ⟨s, hs⟩ := reqSid_some (Or.inr (Or.inl h))
  unfold Foreign foreignB at h
  rw [hs] at h
  have hb : b ≠ [] := by rintro rfl; simp [isNegative, positiveOf] at h
  rw [parsePdu_char r hwf s hs b hb]
  cases hd : decodeResp b with
  | error e =>
    have hD : Decodable b = false := by simp [Decodable, hd]
    simp only [hD, Bool.and_false, Bool.false_and, Bool.or_false] at h
    have hf : foreignHead s b = true := by unfold foreignHead; exact h
    simp [hf]
  | ok x =>
    simp only
    have hacc : specAccept (view r) s b = false := by
      cases b with
      | nil => exact absurd rfl hb
      | cons b0 bt =>
        unfold specAccept
        cases hN : isNegative (b0 :: bt) <;> cases hP : positiveOf s (b0 :: bt) <;>
          cases hE : echoOK (view r) (b0 :: bt) <;> simp_all [isNegative, positiveOf] <;>
          (cases bt <;> simp_all)
    simp [hacc]


/-- a message that is foreign to the reader's request is classified `mismatch` -/
theorem classify_foreign (r : Req) (hwf : r.WF) (b : Bytes) (h : Foreign r b) : classify r b = .mismatch := by
  unfold classify; rw [foreign_mismatch r hwf b h]

/-- a message with which the loop returns a reply was accepted by `parse_pdu` -/
theorem classify_reply_accepted (r : Req) (b : Bytes) (h : replyEv (classify r b) = true) : ∃ x, parsePdu b r = .accepted x := by
  unfold classify at h
  cases hp : parsePdu b r with
  | accepted x => exact ⟨x, rfl⟩
  | mismatch => rw [hp] at h; simp [replyEv] at h
  | malformed => rw [hp] at h; simp [replyEv] at h

/-- … hence is not foreign to the request -/
theorem reply_not_foreign (r : Req) (hwf : r.WF) (b : Bytes) (h : replyEv (classify r b) = true) : ¬ Foreign r b := by
  intro hf
  rw [classify_foreign r hwf b hf] at h
  simp [replyEv] at h

/-- requests with the same bytes classify every message alike (no sequence numbers: the byte-identical-request caveat) -/
theorem classify_bytes (r r' : Req) (h : encode r = encode r') (b : Bytes) : classify r b = classify r' b := by
  unfold classify parsePdu; rw [h]

theorem mem_request_acts (c : CfgX) (q : Req) (io : Script) (k : Nat) (tmo : Option Nat) (d : Nat) :
    Act.io (.rd k tmo d) ∈ (Round.request c q io).acts ↔ OpX.rd k tmo d ∈ (runX c io).trace := by
  show Act.io (.rd k tmo d) ∈ (requestX c io).trace.map Act.ofReq ↔ _
  rw [request_acts]
  simp

end Gallia.ClientMulti
