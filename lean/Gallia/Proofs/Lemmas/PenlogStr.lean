import Gallia.Model.Penlog
/-
  C17 helper lemmas, part 1: the `ensure_ascii` escaper and the JSON string scanner.
-/
namespace Gallia.Penlog

theorem unhexD_hexD : ∀ d, d < 16 → unhexD (hexD d) = some d := by decide

theorem hexD_printable : ∀ d, d < 16 → 0x20 ≤ hexD d ∧ hexD d < 0x7F ∧ hexD d ≠ 0x22 ∧ hexD d ≠ 0x5C := by decide

/-- a scalar value is below 0x110000 and not a surrogate -/
theorem isScalar_iff (c : Nat) : isScalar c = true ↔ c < 0x110000 ∧ ¬ (0xD800 ≤ c ∧ c < 0xE000) := by
  simp [isScalar]; omega

/-! ### one unit -/

theorem scanUnits_quote (rest : Bs) : scanUnits (0x22 :: rest) = some ([], rest) := by
  rw [scanUnits.eq_def]; simp

theorem scanUnits_simple (e u : Nat) (rest : Bs) (he : e ≠ 0x75) (hu : unesc1 e = some u) :
    scanUnits (0x5C :: e :: rest) = consUnit u (scanUnits rest) := by
  rw [scanUnits.eq_def]; simp [he, hu]

theorem scanUnits_hex (a b c d : Nat) (x3 x2 x1 x0 : Nat) (rest : Bs)
    (ha : unhexD a = some x3) (hb : unhexD b = some x2) (hc : unhexD c = some x1) (hd : unhexD d = some x0) :
    scanUnits (0x5C :: 0x75 :: a :: b :: c :: d :: rest) =
      consUnit (x3 * 4096 + x2 * 256 + x1 * 16 + x0) (scanUnits rest) := by
  rw [scanUnits.eq_def]; simp [ha, hb, hc, hd]

theorem scanUnits_plain (b : Nat) (rest : Bs) (h1 : b ≠ 0x22) (h2 : b ≠ 0x5C) (h3 : 0x20 ≤ b) (h4 : b < 0x80) :
    scanUnits (b :: rest) = consUnit b (scanUnits rest) := by
  have : ¬ (b < 0x20 ∨ 0x80 ≤ b) := by omega
  rw [scanUnits.eq_def]; simp [h1, h2, this]

theorem scanUnits_hex4 (u : Nat) (hu : u < 0x10000) (rest : Bs) :
    scanUnits (0x5C :: 0x75 :: (hex4 u ++ rest)) = consUnit u (scanUnits rest) := by
  have e : u / 4096 % 16 * 4096 + u / 256 % 16 * 256 + u / 16 % 16 * 16 + u % 16 = u := by omega
  have := scanUnits_hex (hexD (u / 4096 % 16)) (hexD (u / 256 % 16)) (hexD (u / 16 % 16)) (hexD (u % 16))
    (u / 4096 % 16) (u / 256 % 16) (u / 16 % 16) (u % 16) rest
    (unhexD_hexD _ (by omega)) (unhexD_hexD _ (by omega)) (unhexD_hexD _ (by omega)) (unhexD_hexD _ (by omega))
  rw [e] at this
  simpa [hex4] using this

/-- the scanner reads the escape of one 16-bit unit back as that unit -/
theorem scanUnits_escUnit (u : Nat) (hu : u < 0x10000) (rest : Bs) :
    scanUnits (escUnit u ++ rest) = consUnit u (scanUnits rest) := by
  unfold escUnit
  split
  · subst_vars; exact scanUnits_simple 0x22 0x22 rest (by decide) (by decide)
  split
  · subst_vars; exact scanUnits_simple 0x5C 0x5C rest (by decide) (by decide)
  split
  · subst_vars; exact scanUnits_simple 0x6E 0x0A rest (by decide) (by decide)
  split
  · subst_vars; exact scanUnits_simple 0x72 0x0D rest (by decide) (by decide)
  split
  · subst_vars; exact scanUnits_simple 0x74 0x09 rest (by decide) (by decide)
  split
  · subst_vars; exact scanUnits_simple 0x62 0x08 rest (by decide) (by decide)
  split
  · subst_vars; exact scanUnits_simple 0x66 0x0C rest (by decide) (by decide)
  split
  · rename_i h1 h2 _ _ _ _ _ h
    exact scanUnits_plain u rest h1 h2 h.1 (by omega)
  · exact scanUnits_hex4 u hu rest

theorem scanUnits_units (us : List Nat) (h : ∀ u ∈ us, u < 0x10000) (rest : Bs) :
    scanUnits (us.flatMap escUnit ++ 0x22 :: rest) = some (us, rest) := by
  induction us with
  | nil => simp [scanUnits_quote]
  | cons u us ih =>
    have hu := h u (by simp)
    have ih' := ih (fun v hv => h v (by simp [hv]))
    rw [List.flatMap_cons, List.append_assoc, scanUnits_escUnit u hu, ih']
    simp [consUnit]

/-! ### surrogate pairs -/

theorem combine_cons_of_not_high (h : Nat) (t : List Nat) (hh : ¬ (0xD800 ≤ h ∧ h ≤ 0xDBFF)) :
    combine (h :: t) = h :: combine t := by
  cases t with
  | nil => simp [combine]
  | cons l rest =>
    rw [combine]
    have : ¬ (0xD800 ≤ h ∧ h ≤ 0xDBFF ∧ 0xDC00 ≤ l ∧ l ≤ 0xDFFF) := by omega
    simp [this]

theorem combine_pair (h l : Nat) (rest : List Nat) (hh : 0xD800 ≤ h ∧ h ≤ 0xDBFF) (hl : 0xDC00 ≤ l ∧ l ≤ 0xDFFF) :
    combine (h :: l :: rest) = (0x10000 + (h - 0xD800) * 1024 + (l - 0xDC00)) :: combine rest := by
  rw [combine]
  have : (0xD800 ≤ h ∧ h ≤ 0xDBFF ∧ 0xDC00 ≤ l ∧ l ≤ 0xDFFF) := by omega
  simp [this]

theorem toUnits_bmp (c : Nat) (h : c < 0x10000) : toUnits c = [c] := by simp [toUnits, h]

theorem toUnits_astral (c : Nat) (h : ¬ c < 0x10000) :
    toUnits c = [0xD800 + (c - 0x10000) / 1024 % 1024, 0xDC00 + (c - 0x10000) % 1024] := by simp [toUnits, h]

theorem toUnits_lt (c : Nat) (hc : c < 0x110000) : ∀ u ∈ toUnits c, u < 0x10000 := by
  intro u hu
  unfold toUnits at hu
  split at hu
  · simp at hu; omega
  · simp at hu; omega

/-- UTF-16 units of valid Unicode text combine back to that text -/
theorem combine_toUnits (s : Str) (hs : ∀ c ∈ s, isScalar c = true) : combine (s.flatMap toUnits) = s := by
  induction s with
  | nil => simp [combine]
  | cons c s ih =>
    have hc := (isScalar_iff c).mp (hs c (by simp))
    have ih' := ih (fun d hd => hs d (by simp [hd]))
    rw [List.flatMap_cons]
    by_cases hlt : c < 0x10000
    · rw [toUnits_bmp c hlt, List.singleton_append, combine_cons_of_not_high _ _ (by omega), ih']
    · rw [toUnits_astral c hlt]
      rw [List.cons_append, List.cons_append, List.nil_append]
      generalize hh : 0xD800 + (c - 0x10000) / 1024 % 1024 = h
      generalize hl : 0xDC00 + (c - 0x10000) % 1024 = l
      have h1 : 0xD800 ≤ h ∧ h ≤ 0xDBFF := by omega
      have h2 : 0xDC00 ≤ l ∧ l ≤ 0xDFFF := by omega
      have e : 0x10000 + (h - 0xD800) * 1024 + (l - 0xDC00) = c := by omega
      rw [combine_pair h l _ h1 h2, ih', e]

/-! ### whole literals -/

theorem parseStr_quote (b : Bs) : parseStr (0x22 :: b) = (scanUnits b).map (fun p => (combine p.1, p.2)) := by
  simp [parseStr]

theorem combine_cons_of_next_not_low (h u : Nat) (t : List Nat) (hu : ¬ (0xDC00 ≤ u ∧ u ≤ 0xDFFF)) :
    combine (h :: u :: t) = h :: combine (u :: t) := by
  rw [combine]
  have : ¬ (0xD800 ≤ h ∧ h ≤ 0xDBFF ∧ 0xDC00 ≤ u ∧ u ≤ 0xDFFF) := by omega
  simp [this]

theorem toUnits_head_not_low (d : Nat) (hd : ¬ (0xDC00 ≤ d ∧ d ≤ 0xDFFF)) :
    ∃ u t, toUnits d = u :: t ∧ ¬ (0xDC00 ≤ u ∧ u ≤ 0xDFFF) := by
  by_cases h : d < 0x10000
  · exact ⟨d, [], toUnits_bmp d h, hd⟩
  · exact ⟨_, _, toUnits_astral d h, by omega⟩

theorem combine_toUnits_general (s : Str) (h1 : ∀ c ∈ s, c < 0x110000) (h2 : NoPair s) :
    combine (s.flatMap toUnits) = s := by
  induction s with
  | nil => simp [combine]
  | cons c s ih =>
    have hc := h1 c (by simp)
    have h1' : ∀ d ∈ s, d < 0x110000 := fun d hd => h1 d (by simp [hd])
    have h2' : NoPair s := by
      cases s with
      | nil => trivial
      | cons d s' => exact h2.2
    have ih' := ih h1' h2'
    rw [List.flatMap_cons]
    by_cases hlt : c < 0x10000
    · rw [toUnits_bmp c hlt, List.singleton_append]
      by_cases hhi : 0xD800 ≤ c ∧ c ≤ 0xDBFF
      · cases s with
        | nil => simp [combine]
        | cons d s' =>
          have hd : ¬ (0xDC00 ≤ d ∧ d ≤ 0xDFFF) := fun hl => h2.1 ⟨hhi, hl⟩
          obtain ⟨u, t, hu, hul⟩ := toUnits_head_not_low d hd
          rw [List.flatMap_cons, hu, List.cons_append, combine_cons_of_next_not_low c u _ hul]
          rw [List.flatMap_cons, hu, List.cons_append] at ih'
          rw [ih']
      · rw [combine_cons_of_not_high _ _ hhi, ih']
    · rw [toUnits_astral c hlt]
      rw [List.cons_append, List.cons_append, List.nil_append]
      generalize hh : 0xD800 + (c - 0x10000) / 1024 % 1024 = h
      generalize hl : 0xDC00 + (c - 0x10000) % 1024 = l
      have ha : 0xD800 ≤ h ∧ h ≤ 0xDBFF := by omega
      have hb : 0xDC00 ≤ l ∧ l ≤ 0xDFFF := by omega
      have e : 0x10000 + (h - 0xD800) * 1024 + (l - 0xDC00) = c := by omega
      rw [combine_pair h l _ ha hb, ih', e]

theorem noPair_of_scalar (s : Str) (hs : ∀ c ∈ s, isScalar c = true) : NoPair s := by
  induction s with
  | nil => trivial
  | cons a s ih =>
    cases s with
    | nil => trivial
    | cons b t =>
      refine ⟨?_, ih (fun c hc => hs c (by simp [hc]))⟩
      have := (isScalar_iff a).mp (hs a (by simp))
      omega

/-- the literal written for `s`, followed by anything, scans back to `s` and that rest -/
theorem parseStr_jsonStr (s : Str) (hs : okText s) (rest : Bs) :
    parseStr (jsonStr s ++ rest) = some (s, rest) := by
  have hu : ∀ u ∈ s.flatMap toUnits, u < 0x10000 := by
    intro u hu
    simp only [List.mem_flatMap] at hu
    obtain ⟨c, hc, hu⟩ := hu
    exact toUnits_lt c (hs.1 c hc) u hu
  have : jsonStr s ++ rest = 0x22 :: ((s.flatMap toUnits).flatMap escUnit ++ 0x22 :: rest) := by
    simp [jsonStr, escBody]
  rw [this, parseStr_quote, scanUnits_units _ hu]
  simp [combine_toUnits_general s hs.1 hs.2]

theorem okText_of_scalar (s : Str) (hs : ∀ c ∈ s, isScalar c = true) : okText s :=
  ⟨fun c hc => ((isScalar_iff c).mp (hs c hc)).1, noPair_of_scalar s hs⟩

/-- the restriction is necessary: an adjacent high + low pair is read back as one astral code point -/
theorem pair_not_preserved : parseStr (jsonStr [0xD83D, 0xDE00]) = some ([0x1F600], []) := by
  have h := scanUnits_units [0xD83D, 0xDE00] (by decide) []
  have e : jsonStr [0xD83D, 0xDE00] = 0x22 :: ([0xD83D, 0xDE00].flatMap escUnit ++ 0x22 :: []) := by
    simp [jsonStr, escBody, toUnits]
  rw [e, parseStr_quote, h]
  simp [combine]

/-! ### the written text is printable ASCII -/

theorem hex4_printable (u : Nat) : ∀ b ∈ hex4 u, 0x20 ≤ b ∧ b < 0x7F := by
  intro b hb
  simp only [hex4, List.mem_cons, List.not_mem_nil, or_false] at hb
  rcases hb with h | h | h | h <;> subst h
  · have := hexD_printable (u / 4096 % 16) (by omega); omega
  · have := hexD_printable (u / 256 % 16) (by omega); omega
  · have := hexD_printable (u / 16 % 16) (by omega); omega
  · have := hexD_printable (u % 16) (by omega); omega

theorem escUnit_printable (u : Nat) : ∀ b ∈ escUnit u, 0x20 ≤ b ∧ b < 0x7F := by
  intro b hb
  unfold escUnit at hb
  repeat' split at hb
  all_goals first
    | (simp at hb; omega)
    | (simp only [List.mem_cons] at hb
       rcases hb with h | h | h
       · omega
       · omega
       · exact hex4_printable u b h)

theorem jsonStr_printable (s : Str) : ∀ b ∈ jsonStr s, 0x20 ≤ b ∧ b < 0x7F := by
  intro b hb
  simp only [jsonStr, escBody, List.mem_cons, List.mem_append, List.mem_flatMap, List.not_mem_nil, or_false] at hb
  rcases hb with h | ⟨u, _, h⟩ | h
  · omega
  · exact escUnit_printable u b h
  · omega

end Gallia.Penlog
