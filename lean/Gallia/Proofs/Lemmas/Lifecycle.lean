import Gallia.Model.Lifecycle
import Gallia.Spec.Lifecycle
/-
  Helper lemmas for C15: what `runBody` does to the world (frame), which exception leaves it, and the
  observable trace it appends.
-/
namespace Gallia.Lifecycle
open Gallia.Lifecycle.Spec

/-- the exception leaving `runBody` is the one Python's try/finally rules name -/
theorem runBody_exc (q : Quirks) (k : Kind) (s : Script) (st : St) :
    (runBody q k s st).2 = raised s := by
  unfold runBody raised
  cases s.setup <;> cases s.tdPre <;> cases s.tdPost <;> simp

/-- ... and the `try:` body as a whole ends the way the specification says -/
theorem tryBody_exc (q : Quirks) (c : Cfg) (s : Script) (st : St) :
    (tryBody q c s st).2 = ended c s := by
  unfold tryBody ended
  cases c.db <;> cases s.dbFails <;> simp [runBody_exc]

/-- everything `run()` leaves alone (current code: no quirk) and the clock moves on -/
theorem runBody_frame (k : Kind) (s : Script) (st : St) :
    let r := (runBody {} k s st).1
    r.lockHeld = st.lockHeld ∧ r.logOpen = st.logOpen ∧ r.dbConn = st.dbConn ∧ r.dbRow = st.dbRow ∧
    r.metaFile = st.metaFile ∧ r.reports = st.reports ∧ r.preRan = st.preRan ∧ r.postEnv = st.postEnv ∧
    r.endTime = st.endTime ∧ st.tick < r.tick := by
  cases k <;> cases h1 : s.setup <;> cases h2 : s.tdPre <;> cases h3 : s.tdPost <;>
    simp [runBody, baseTeardown, St.obs, St.obsN, Kind.isScanner, Kind.closes, h1, h2, h3] <;> omega

/-- the instrumented actions `run()` performs, read off the script -/
def bodyActs (k : Kind) (s : Script) : List Act :=
  (if k.isScanner then [.connect] else []) ++ [.setup] ++
    match s.setup with
    | some _ => []
    | none => [.main, .tdPre] ++
      match s.tdPre with
      | some _ => []
      | none => List.replicate k.closes .close ++ [.tdPost]

theorem runBody_trace (k : Kind) (s : Script) (st : St) :
    (runBody {} k s st).1.trace = st.trace ++ (bodyActs k s).map fun a => ⟨a, st.lockHeld, st.metaFile.isSome⟩ := by
  cases k <;> cases h1 : s.setup <;> cases h2 : s.tdPre <;> cases h3 : s.tdPost <;>
    simp [runBody, bodyActs, baseTeardown, St.obs, St.obsN, Kind.isScanner, Kind.closes, h1, h2, h3, List.replicate]

theorem runBody_tick_eq (k : Kind) (s : Script) (st : St) :
    (runBody {} k s st).1.tick = st.tick + (bodyActs k s).length := by
  cases k <;> cases h1 : s.setup <;> cases h2 : s.tdPre <;> cases h3 : s.tdPost <;>
    simp [runBody, bodyActs, baseTeardown, St.obs, St.obsN, Kind.isScanner, Kind.closes, h1, h2, h3, List.replicate]

theorem runBody_transportOpen (k : Kind) (s : Script) (st : St) :
    (runBody {} k s st).1.transportOpen =
      if k.isScanner then (s.setup.isSome || s.tdPre.isSome) else st.transportOpen := by
  cases k <;> cases h1 : s.setup <;> cases h2 : s.tdPre <;> cases h3 : s.tdPost <;>
    simp [runBody, baseTeardown, St.obs, St.obsN, Kind.isScanner, Kind.closes, h1, h2, h3]

section frame
variable (k : Kind) (s : Script) (st : St)
@[simp] theorem runBody_lockHeld : (runBody {} k s st).1.lockHeld = st.lockHeld := (runBody_frame k s st).1
@[simp] theorem runBody_logOpen : (runBody {} k s st).1.logOpen = st.logOpen := (runBody_frame k s st).2.1
@[simp] theorem runBody_dbConn : (runBody {} k s st).1.dbConn = st.dbConn := (runBody_frame k s st).2.2.1
@[simp] theorem runBody_dbRow : (runBody {} k s st).1.dbRow = st.dbRow := (runBody_frame k s st).2.2.2.1
@[simp] theorem runBody_metaFile : (runBody {} k s st).1.metaFile = st.metaFile := (runBody_frame k s st).2.2.2.2.1
@[simp] theorem runBody_reports : (runBody {} k s st).1.reports = st.reports := (runBody_frame k s st).2.2.2.2.2.1
@[simp] theorem runBody_preRan : (runBody {} k s st).1.preRan = st.preRan := (runBody_frame k s st).2.2.2.2.2.2.1
@[simp] theorem runBody_postEnv : (runBody {} k s st).1.postEnv = st.postEnv := (runBody_frame k s st).2.2.2.2.2.2.2.1
@[simp] theorem runBody_endTime : (runBody {} k s st).1.endTime = st.endTime := (runBody_frame k s st).2.2.2.2.2.2.2.2.1
theorem runBody_tick : st.tick < (runBody {} k s st).1.tick := (runBody_frame k s st).2.2.2.2.2.2.2.2.2
end frame

/-- the current ladder realises the documented mapping and lets nothing through -/
theorem mapExit_current (k : Kind) (e : Option Exc) : mapExit {} k e = (exitOf k e, false) := by
  rcases e with _ | (n | _ | c | _ | _) <;>
    simp [mapExit, dispatch, ladder, handle, Exc.type, exitOf, OK, SOFTWARE, IOERR, SIGINT_EXIT]

theorem runHook_current_snd (h : Hook) (b : Bool) (st : St) : (runHook {} h b st).2 = false := by
  unfold runHook; cases b <;> simp

theorem prePhase_current_snd (c : Cfg) (s : Script) : (prePhase {} c s).2 = false := by
  unfold prePhase; cases c.hooks <;> simp [runHook_current_snd]

theorem postPhase_current_snd (c : Cfg) (s : Script) (n : Nat) (st : St) : (postPhase {} c s n st).2 = false := by
  unfold postPhase; cases c.hooks <;> simp [runHook_current_snd]

/-- state when the `finally:` block is done -/
def finishedState (c : Cfg) (s : Script) : St :=
  finish c (code c s) (tryBody {} c s (prePhase {} c s).1).1

/-- state after the post-hook and the release of the lock -/
def endState (c : Cfg) (s : Script) : St :=
  unlock c (postPhase {} c s (code c s) (finishedState c s)).1

/-- logical time of the run_meta insert (= when the pre-run steps are done) -/
def startTick (c : Cfg) (s : Script) : Nat := (prePhase {} c s).1.tick

/-- logical time at which the `finally:` block takes `run_meta.end_time` -/
def stopTick (c : Cfg) (s : Script) : Nat := (tryBody {} c s (prePhase {} c s).1).1.tick

theorem startTick_pos (c : Cfg) (s : Script) : 0 < startTick c s := by
  unfold startTick prePhase
  cases c.lock <;> cases c.art <;> cases c.hooks <;> cases s.preFails <;> simp [runHook, St.obs, St.step]

theorem start_lt_stop (c : Cfg) (s : Script) : startTick c s < stopTick c s := by
  have h := runBody_tick c.kind s (dbInsert c (prePhase {} c s).1)
  have h2 : (prePhase {} c s).1.tick ≤ (dbInsert c (prePhase {} c s).1).tick := by
    unfold dbInsert; cases c.db <;> simp [St.step]
  unfold startTick stopTick tryBody
  cases c.db <;> cases s.dbFails <;> simp [St.step] at * <;> omega

/-- `entry_point` of the current code always returns, with the documented code, from `endState` -/
theorem entryPoint_eq (c : Cfg) (s : Script) :
    entryPoint c s = (endState c s).final (.ret (code c s)) := by
  simp [entryPoint, entryPointQ, endState, finishedState, code, prePhase_current_snd, postPhase_current_snd,
    tryBody_exc, mapExit_current]

/-- every field of the outcome in closed form -/
theorem entryPoint_fields (c : Cfg) (s : Script) :
    let f := entryPoint c s
    let x := code c s
    f.exit = .ret x ∧ f.lockReleased = true ∧ f.logClosed = true ∧ f.dbClosed = true ∧
    f.preRan = c.hooks ∧ f.reports = failing c s ∧
    f.metaFile = (if c.art then some ⟨x, 0, stopTick c s⟩ else none) ∧
    f.dbRow = (if c.db && !s.dbFails then .done (startTick c s) (stopTick c s + 1) x else .absent) ∧
    f.postEnv = (if c.hooks then some ⟨x, x, stopTick c s⟩ else none) := by
  rw [entryPoint_eq]
  cases hl : c.lock <;> cases hh : c.hooks <;> cases ha : c.art <;> cases hd : c.db <;> cases hf : s.dbFails <;>
    cases hp : s.preFails <;> cases hq : s.postFails <;>
  simp [St.final, endState, finishedState, unlock, postPhase, finish, tryBody, dbInsert, prePhase, runHook, St.obs,
    St.step, startTick, stopTick, failing, hl, hh, ha, hd, hf, hp, hq]

theorem prePhase_transportOpen (c : Cfg) (s : Script) : (prePhase {} c s).1.transportOpen = false := by
  unfold prePhase runHook
  cases c.lock <;> cases c.art <;> cases c.hooks <;> cases s.preFails <;> simp [St.obs, St.step]

theorem finish_transportOpen (c : Cfg) (n : Nat) (st : St) : (finish c n st).transportOpen = st.transportOpen := by
  unfold finish
  cases h : st.dbConn <;> cases c.art <;> simp [St.step, h]

theorem postPhase_transportOpen (c : Cfg) (s : Script) (n : Nat) (st : St) :
    (postPhase {} c s n st).1.transportOpen = st.transportOpen := by
  unfold postPhase runHook
  cases c.hooks <;> cases s.postFails <;> simp [St.obs]

theorem unlock_transportOpen (c : Cfg) (st : St) : (unlock c st).transportOpen = st.transportOpen := by
  unfold unlock; cases c.lock <;> simp [St.step]

theorem tryBody_transportOpen (c : Cfg) (s : Script) (st : St) :
    (tryBody {} c s st).1.transportOpen =
      if c.db && s.dbFails then st.transportOpen
      else if c.kind.isScanner then (s.setup.isSome || s.tdPre.isSome) else st.transportOpen := by
  unfold tryBody dbInsert
  cases c.db <;> cases s.dbFails <;> simp [runBody_transportOpen, St.step]

theorem entryPoint_transport (c : Cfg) (s : Script) :
    (entryPoint c s).transportClosed =
      !(!(c.db && s.dbFails) && c.kind.isScanner && (s.setup.isSome || s.tdPre.isSome)) := by
  rw [entryPoint_eq]
  simp only [St.final, endState, finishedState, unlock_transportOpen, postPhase_transportOpen, finish_transportOpen,
    tryBody_transportOpen, prePhase_transportOpen]
  cases c.db <;> cases s.dbFails <;> cases c.kind.isScanner <;> simp

/-- the observable trace in closed form: the lock is held at every action, META.json exists only for the post-hook -/
theorem entryPoint_trace (c : Cfg) (s : Script) :
    (entryPoint c s).trace =
      (if c.hooks then [⟨.pre, c.lock, false⟩] else []) ++
      (if c.db && s.dbFails then [] else (bodyActs c.kind s).map (fun a => ⟨a, c.lock, false⟩)) ++
      (if c.hooks then [⟨.post, c.lock, c.art⟩] else []) := by
  rw [entryPoint_eq]
  cases hl : c.lock <;> cases hh : c.hooks <;> cases ha : c.art <;> cases hd : c.db <;> cases hf : s.dbFails <;>
    cases hp : s.preFails <;> cases hq : s.postFails <;>
  simp [St.final, endState, finishedState, unlock, postPhase, finish, tryBody, dbInsert, prePhase, runHook, St.obs,
    St.step, runBody_trace, hl, hh, ha, hd, hf, hp, hq]

end Gallia.Lifecycle
