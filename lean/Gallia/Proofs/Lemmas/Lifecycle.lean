import Gallia.Proofs.Lemmas.LifecycleSteps
/-
  Helper lemmas for C15, part 2: what `runBody` (= `AsyncScript.run` over the step lists of the command kind) does to the
  world (frame), which exception leaves it, the observable trace it appends and the resources it leaves behind; then
  `entry_point` in closed form.
-/
set_option linter.unusedSimpArgs false
namespace Gallia.Lifecycle
open Gallia.Lifecycle.Spec

/-! ### the four framework segments: fault, neutrality, resources -/

theorem dumpcapStep_neutral (d : Dumpcap) : (dumpcapStep d).neutral = true := by cases d <;> rfl

theorem scannerSetup_neutral (c : Cfg) (s : Script) : ∀ p ∈ scannerSetup c s, p.neutral = true := by
  have h : (scannerSetup c s).all Step.neutral = true := by
    unfold scannerSetup
    cases c.power <;> cases (c.art && c.dumpcap) <;> cases s.dumpcap <;> simp [Step.neutral, Fx.dbNeutral, dumpcapStep]
  simpa [List.all_eq_true] using h

theorem udsSetup_neutral (c : Cfg) (s : Script) : ∀ p ∈ udsSetup c s, p.neutral = true := by
  have h : (udsSetup c s).all Step.neutral = true := by
    unfold udsSetup
    cases c.tp <;> cases c.props <;> simp [Step.neutral, Fx.dbNeutral]
  simpa [List.all_eq_true] using h

theorem udsTeardown_neutral (c : Cfg) (s : Script) : ∀ p ∈ udsTeardown c s, p.neutral = true := by
  have h : (udsTeardown c s).all Step.neutral = true := by
    unfold udsTeardown
    cases c.tp <;> cases c.props <;> simp [Step.neutral, Fx.dbNeutral]
  simpa [List.all_eq_true] using h

theorem scannerTeardown_neutral (c : Cfg) (s : Script) : ∀ p ∈ scannerTeardown {} c s, p.neutral = true := by
  have h : (scannerTeardown {} c s).all Step.neutral = true := by
    unfold scannerTeardown
    cases dumpcapActive c s <;> simp [Step.neutral, Fx.dbNeutral]
  simpa [List.all_eq_true] using h

theorem setupSteps_neutral (c : Cfg) (s : Script) : ∀ p ∈ setupSteps c s, p.neutral = true := by
  intro p hp
  simp only [setupSteps, List.mem_append, List.mem_singleton] at hp
  rcases hp with (hp | hp) | hp
  · split at hp
    · exact scannerSetup_neutral c s p hp
    · simp at hp
  · split at hp
    · exact udsSetup_neutral c s p hp
    · simp at hp
  · subst hp; rfl

theorem teardownSteps_neutral (c : Cfg) (s : Script) : ∀ p ∈ teardownSteps {} c s, p.neutral = true := by
  intro p hp
  simp only [teardownSteps, List.mem_append, List.mem_singleton] at hp
  rcases hp with ((hp | hp) | hp) | hp
  · subst hp; rfl
  · split at hp
    · exact udsTeardown_neutral c s p hp
    · simp at hp
  · split at hp
    · exact scannerTeardown_neutral c s p hp
    · simp at hp
  · subst hp; rfl

theorem dumpcapStep_ev (c : Cfg) (s : Script) (h : (c.art && c.dumpcap) = true) :
    (dumpcapStep s.dumpcap).ev = dumpcapFault c s := by
  unfold dumpcapFault; rw [h]; cases s.dumpcap <;> rfl

theorem firstFault_scannerSetup (c : Cfg) (s : Script) : firstFault (scannerSetup c s) = scannerSetupFault c s := by
  unfold scannerSetup scannerSetupFault beforeConnect
  cases hp : c.power <;> cases hd : (c.art && c.dumpcap) <;>
    simp [firstFault_append, dumpcapStep_ev c s, hd, orElse_assoc] <;> simp [dumpcapFault, hd]

theorem firstFault_udsSetup (c : Cfg) (s : Script) : firstFault (udsSetup c s) = udsSetupFault c s := by
  unfold udsSetup udsSetupFault
  cases c.tp <;> cases c.props <;> simp [firstFault_append]

theorem firstFault_udsTeardown (c : Cfg) (s : Script) : firstFault (udsTeardown c s) = udsTeardownFault c s := by
  unfold udsTeardown udsTeardownFault
  cases c.tp <;> cases c.props <;> simp [firstFault_append]

theorem firstFault_scannerTeardown (q : Quirks) (c : Cfg) (s : Script) :
    firstFault (scannerTeardown q c s) = scannerTeardownFault c s := by
  unfold scannerTeardown scannerTeardownFault
  cases dumpcapActive c s <;> simp [firstFault_append]

theorem firstFault_setupSteps (c : Cfg) (s : Script) : firstFault (setupSteps c s) = setupFault c s := by
  unfold setupSteps setupFault
  cases c.kind.isScanner <;> cases c.kind.isUds <;>
    simp [firstFault_append, firstFault_scannerSetup, firstFault_udsSetup, orElse_assoc]

theorem firstFault_teardownSteps (q : Quirks) (c : Cfg) (s : Script) :
    firstFault (teardownSteps q c s) = teardownFault c s := by
  unfold teardownSteps teardownFault
  cases c.kind.isScanner <;> cases c.kind.isUds <;>
    simp [firstFault_append, firstFault_scannerTeardown, firstFault_udsTeardown, orElse_assoc]

/-! ### resources, segment by segment (brute force over the switches and over raise / return of each step) -/

section segments
variable (c : Cfg) (s : Script) (x : Bool)

theorem tr_scannerSetup :
    resAfter Fx.tr (scannerSetup c s) x = if (scannerSetupFault c s).isNone then true else x := by
  unfold scannerSetup scannerSetupFault beforeConnect dumpcapFault
  cases c.power <;> cases (c.art && c.dumpcap) <;> cases s.dumpcap <;> cases s.power <;> cases s.connect <;>
    simp [resAfter, dumpcapStep, Fx.tr]

theorem tr_udsSetup : resAfter Fx.tr (udsSetup c s) x = x := by
  unfold udsSetup
  cases c.tp <;> cases c.props <;> cases s.ecuConnect <;> cases s.tpStart <;> cases s.propsPre <;>
    simp [resAfter, Fx.tr]

theorem tr_udsTeardown :
    resAfter Fx.tr (udsTeardown c s) x = if (udsTeardownFault c s).isNone then false else x := by
  unfold udsTeardown udsTeardownFault
  cases c.tp <;> cases c.props <;> cases s.propsPost <;> cases s.tpStop <;> cases s.ecuClose <;>
    simp [resAfter, Fx.tr]

theorem tr_scannerTeardown :
    resAfter Fx.tr (scannerTeardown {} c s) x = if s.close.isNone then false else x := by
  unfold scannerTeardown
  cases dumpcapActive c s <;> cases s.close <;> cases s.dcStop <;> simp [resAfter, Fx.tr]

theorem tp_scannerSetup : resAfter Fx.tp (scannerSetup c s) x = x := by
  unfold scannerSetup
  cases c.power <;> cases (c.art && c.dumpcap) <;> cases s.dumpcap <;> cases s.power <;> cases s.connect <;>
    simp [resAfter, dumpcapStep, Fx.tp]

theorem tp_udsSetup :
    resAfter Fx.tp (udsSetup c s) x = if c.tp && s.ecuConnect.isNone && s.tpStart.isNone then true else x := by
  unfold udsSetup
  cases c.tp <;> cases c.props <;> cases s.ecuConnect <;> cases s.tpStart <;> cases s.propsPre <;>
    simp [resAfter, Fx.tp]

theorem tp_udsTeardown :
    resAfter Fx.tp (udsTeardown c s) x =
      if c.tp && (if c.props then s.propsPost else none).isNone then false else x := by
  unfold udsTeardown
  cases c.tp <;> cases c.props <;> cases s.propsPost <;> cases s.tpStop <;> cases s.ecuClose <;>
    simp [resAfter, Fx.tp]

theorem tp_scannerTeardown : resAfter Fx.tp (scannerTeardown {} c s) x = x := by
  unfold scannerTeardown
  cases dumpcapActive c s <;> cases s.close <;> cases s.dcStop <;> simp [resAfter, Fx.tp]

theorem dc_scannerSetup :
    resAfter Fx.dc (scannerSetup c s) x =
      if c.art && c.dumpcap && (if c.power then s.power else none).isNone &&
          (s.dumpcap == .started || s.dumpcap == .syncFails) then true else x := by
  unfold scannerSetup
  cases c.power <;> cases c.art <;> cases c.dumpcap <;> cases s.dumpcap <;> cases s.power <;> cases s.connect <;>
    simp [resAfter, dumpcapStep, Fx.dc]

theorem dc_udsSetup : resAfter Fx.dc (udsSetup c s) x = x := by
  unfold udsSetup
  cases c.tp <;> cases c.props <;> cases s.ecuConnect <;> cases s.tpStart <;> cases s.propsPre <;>
    simp [resAfter, Fx.dc]

theorem dc_udsTeardown : resAfter Fx.dc (udsTeardown c s) x = x := by
  unfold udsTeardown
  cases c.tp <;> cases c.props <;> cases s.propsPost <;> cases s.tpStop <;> cases s.ecuClose <;>
    simp [resAfter, Fx.dc]

theorem dc_scannerTeardown :
    resAfter Fx.dc (scannerTeardown {} c s) x =
      if dumpcapActive c s && s.close.isNone && s.dcStop.isNone then false else x := by
  unfold scannerTeardown
  cases dumpcapActive c s <;> cases s.close <;> cases s.dcStop <;> simp [resAfter, Fx.dc]

theorem tr_setupSteps :
    resAfter Fx.tr (setupSteps c s) x = if transportOpened c s then true else x := by
  unfold setupSteps transportOpened
  cases c.kind <;> cases h1 : scannerSetupFault c s <;> cases h2 : udsSetupFault c s <;> cases h3 : s.setup <;>
    simp [Kind.isScanner, Kind.isUds, resAfter_append, firstFault_append, firstFault_scannerSetup, firstFault_udsSetup,
      tr_scannerSetup, tr_udsSetup, resAfter, Fx.tr, h1, h2, h3]

theorem tr_teardownSteps :
    resAfter Fx.tr (teardownSteps {} c s) x =
      if c.kind.isScanner && (uptoFirstClose c s).isNone then false else x := by
  unfold teardownSteps uptoFirstClose
  cases c.kind <;> cases h0 : s.tdPre <;> cases h1 : udsTeardownFault c s <;> cases h2 : s.close <;>
    cases h3 : scannerTeardownFault c s <;> cases h4 : s.tdPost <;>
    simp [Kind.isScanner, Kind.isUds, resAfter_append, firstFault_append, firstFault_scannerTeardown,
      firstFault_udsTeardown, tr_scannerTeardown, tr_udsTeardown, resAfter, Fx.tr, h0, h1, h2, h3, h4]

theorem tp_setupSteps :
    resAfter Fx.tp (setupSteps c s) x = if tpStarted c s then true else x := by
  unfold setupSteps tpStarted
  cases c.kind <;> cases h1 : scannerSetupFault c s <;> cases h2 : udsSetupFault c s <;> cases h3 : s.setup <;>
    simp [Kind.isScanner, Kind.isUds, resAfter_append, firstFault_append, firstFault_scannerSetup, firstFault_udsSetup,
      tp_scannerSetup, tp_udsSetup, resAfter, Fx.tp, h1, h2, h3]

theorem tp_teardownSteps :
    resAfter Fx.tp (teardownSteps {} c s) x =
      if c.kind.isUds && c.tp && s.tdPre.isNone && (if c.props then s.propsPost else none).isNone then false else x := by
  unfold teardownSteps
  cases c.kind <;> cases h0 : s.tdPre <;> cases h1 : udsTeardownFault c s <;>
    cases h3 : scannerTeardownFault c s <;> cases h4 : s.tdPost <;>
    simp [Kind.isScanner, Kind.isUds, resAfter_append, firstFault_append, firstFault_scannerTeardown,
      firstFault_udsTeardown, tp_scannerTeardown, tp_udsTeardown, resAfter, Fx.tp, h0, h1, h3, h4]

theorem dc_setupSteps :
    resAfter Fx.dc (setupSteps c s) x = if dcStarted c s then true else x := by
  unfold setupSteps dcStarted
  cases c.kind <;> cases h1 : scannerSetupFault c s <;> cases h2 : udsSetupFault c s <;> cases h3 : s.setup <;>
    simp [Kind.isScanner, Kind.isUds, resAfter_append, firstFault_append, firstFault_scannerSetup, firstFault_udsSetup,
      dc_scannerSetup, dc_udsSetup, resAfter, Fx.dc, h1, h2, h3]

theorem dc_teardownSteps :
    resAfter Fx.dc (teardownSteps {} c s) x =
      if c.kind.isScanner && dumpcapActive c s && s.tdPre.isNone &&
          (if c.kind.isUds then udsTeardownFault c s else none).isNone && s.close.isNone && s.dcStop.isNone
        then false else x := by
  unfold teardownSteps
  cases c.kind <;> cases h0 : s.tdPre <;> cases h1 : udsTeardownFault c s <;>
    cases h3 : scannerTeardownFault c s <;> cases h4 : s.tdPost <;>
    simp [Kind.isScanner, Kind.isUds, resAfter_append, firstFault_append, firstFault_scannerTeardown,
      firstFault_udsTeardown, dc_scannerTeardown, dc_udsTeardown, resAfter, Fx.dc, h0, h1, h3, h4]

end segments

/-! ### `AsyncScript.run` -/

/-- the exception leaving `runBody` is the one Python's try/finally rules name -/
theorem runBody_exc (q : Quirks) (c : Cfg) (s : Script) (st : St) :
    (runBody q c s st).2 = raised c s := by
  unfold runBody raised
  simp only [runSteps_exc, firstFault_setupSteps, firstFault_teardownSteps]
  cases setupFault c s <;> cases teardownFault c s <;> rfl

/-- ... and the `try:` body as a whole ends the way the specification says -/
theorem tryBody_exc (q : Quirks) (c : Cfg) (s : Script) (st : St) :
    (tryBody q c s st).2 = ended c s := by
  unfold tryBody ended
  cases c.db <;> cases s.dbFails <;> simp [runBody_exc]

theorem performed_pos (ps : List Step) (h : ps ≠ []) : 0 < (performed ps).length := by
  cases ps with
  | nil => contradiction
  | cons p ps => simp [performed]

/-- the steps `run()` reaches, read off the script -/
def bodySteps (c : Cfg) (s : Script) : List Step :=
  performed (setupSteps c s) ++
    (if (setupFault c s).isNone then ({ act := .main } : Step) :: performed (teardownSteps {} c s) else [])

/-- the instrumented actions `run()` performs -/
def bodyActs (c : Cfg) (s : Script) : List Act := (bodySteps c s).map (·.act)

/-- state after `run()` of the current code (no quirk), in terms of the two step lists -/
theorem runBody_fst (c : Cfg) (s : Script) (st : St) :
    (runBody {} c s st).1 =
      if (setupFault c s).isNone then
        (runSteps (teardownSteps {} c s) ((runSteps (setupSteps c s) st).1.obs .main)).1
      else (runSteps (setupSteps c s) st).1 := by
  unfold runBody
  simp only [runSteps_exc, firstFault_setupSteps, firstFault_teardownSteps]
  cases setupFault c s <;> cases teardownFault c s <;> rfl

theorem runBody_core (c : Cfg) (s : Script) (st : St) : (runBody {} c s st).1.core = st.core := by
  rw [runBody_fst]
  split
  · rw [runSteps_core _ _ (teardownSteps_neutral c s), obs_core, runSteps_core _ _ (setupSteps_neutral c s)]
  · rw [runSteps_core _ _ (setupSteps_neutral c s)]

theorem runBody_tick_eq (c : Cfg) (s : Script) (st : St) :
    (runBody {} c s st).1.tick = st.tick + (bodyActs c s).length := by
  rw [runBody_fst]
  unfold bodyActs bodySteps
  split <;> rename_i h
  · rw [runSteps_tick _ _ (teardownSteps_neutral c s)]
    simp only [St.obs]
    rw [runSteps_tick _ _ (setupSteps_neutral c s)]
    simp [h]; omega
  · rw [runSteps_tick _ _ (setupSteps_neutral c s)]
    simp [h]

theorem runBody_trace (c : Cfg) (s : Script) (st : St) :
    (runBody {} c s st).1.trace = st.trace ++ (bodyActs c s).map fun a => ⟨a, st.lockHeld, st.metaFile.isSome⟩ := by
  have hc := runSteps_core _ st (setupSteps_neutral c s)
  have h1 : (runSteps (setupSteps c s) st).1.lockHeld = st.lockHeld := congrArg Core.lockHeld hc
  have h2 : (runSteps (setupSteps c s) st).1.metaFile = st.metaFile := congrArg Core.metaFile hc
  rw [runBody_fst]
  unfold bodyActs bodySteps
  split <;> rename_i h
  · rw [runSteps_trace _ _ (teardownSteps_neutral c s)]
    simp only [St.obs]
    rw [runSteps_trace _ _ (setupSteps_neutral c s), h1, h2]
    simp [h, Function.comp_def]
  · rw [runSteps_trace _ _ (setupSteps_neutral c s)]
    simp [h, Function.comp_def]

theorem runBody_transportOpen (c : Cfg) (s : Script) (st : St) :
    (runBody {} c s st).1.transportOpen =
      if transportOpened c s then !transportClosedAgain c s
      else (st.transportOpen && !(c.kind.isScanner && transportClosedAgain c s)) := by
  rw [runBody_fst]
  unfold transportClosedAgain
  split <;> rename_i h
  · simp only [runSteps_transportOpen, St.obs, tr_teardownSteps, tr_setupSteps, h]
    have hk : transportOpened c s = true → c.kind.isScanner = true := by
      unfold transportOpened; simp only [Bool.and_eq_true]; exact fun a => a.1
    cases h1 : transportOpened c s <;> cases h2 : c.kind.isScanner <;> cases (uptoFirstClose c s).isNone <;>
      cases st.transportOpen <;> simp_all
  · simp only [runSteps_transportOpen, tr_setupSteps, h]
    cases transportOpened c s <;> cases st.transportOpen <;> simp

theorem runBody_tpRunning (c : Cfg) (s : Script) (st : St) :
    (runBody {} c s st).1.tpRunning =
      if tpStarted c s then !tpStopReached c s
      else (st.tpRunning && !(c.kind.isUds && c.tp && tpStopReached c s)) := by
  rw [runBody_fst]
  unfold tpStopReached
  split <;> rename_i h
  · simp only [runSteps_tpRunning, St.obs, tp_teardownSteps, tp_setupSteps, h]
    have hk : tpStarted c s = true → c.kind.isUds = true ∧ c.tp = true := by
      unfold tpStarted; simp only [Bool.and_eq_true]; exact fun a => ⟨a.1.1.1.1, a.1.1.1.2⟩
    cases h1 : tpStarted c s <;> cases h2 : c.kind.isUds <;> cases h3 : c.tp <;> cases s.tdPre.isNone <;>
      cases (if c.props then s.propsPost else none).isNone <;> cases st.tpRunning <;> simp_all
  · simp only [runSteps_tpRunning, tp_setupSteps, h]
    cases tpStarted c s <;> cases st.tpRunning <;> simp

theorem dcStarted_active (c : Cfg) (s : Script) (h1 : dcStarted c s = true) (h2 : (setupFault c s).isNone = true) :
    dumpcapActive c s = true := by
  unfold dcStarted at h1
  unfold setupFault scannerSetupFault beforeConnect dumpcapFault at h2
  unfold dumpcapActive
  cases hk : c.kind.isScanner <;> cases ha : c.art <;> cases hd : c.dumpcap <;> cases hs : s.dumpcap <;>
    simp [hk, ha, hd, hs] at h1 h2 ⊢
  cases hp : c.power <;> cases hq : s.power <;> simp [hp, hq] at h1 h2

theorem runBody_dcRunning (c : Cfg) (s : Script) (st : St) :
    (runBody {} c s st).1.dcRunning =
      if dcStarted c s then !dcStopDone c s
      else (st.dcRunning && !(c.kind.isScanner && dumpcapActive c s && dcStopDone c s)) := by
  rw [runBody_fst]
  unfold dcStopDone
  split <;> rename_i h
  · simp only [runSteps_dcRunning, St.obs, dc_teardownSteps, dc_setupSteps, h]
    cases h1 : dcStarted c s
    · cases c.kind.isScanner <;> cases dumpcapActive c s <;> cases s.tdPre.isNone <;>
        cases (if c.kind.isUds then udsTeardownFault c s else none).isNone <;> cases s.close.isNone <;>
        cases s.dcStop.isNone <;> cases st.dcRunning <;> simp
    · have ha := dcStarted_active c s h1 h
      have hk : c.kind.isScanner = true := by unfold dcStarted at h1; simp at h1; exact h1.1.1.1.1
      simp only [ha, hk]
      cases s.tdPre <;> cases s.close <;> cases s.dcStop <;> cases c.kind.isUds <;> cases udsTeardownFault c s <;> simp
  · simp only [runSteps_dcRunning, dc_setupSteps, h]
    cases dcStarted c s <;> cases st.dcRunning <;> simp

section frame
variable (c : Cfg) (s : Script) (st : St)
@[simp] theorem runBody_lockHeld : (runBody {} c s st).1.lockHeld = st.lockHeld := congrArg Core.lockHeld (runBody_core c s st)
@[simp] theorem runBody_logOpen : (runBody {} c s st).1.logOpen = st.logOpen := congrArg Core.logOpen (runBody_core c s st)
@[simp] theorem runBody_dbConn : (runBody {} c s st).1.dbConn = st.dbConn := congrArg Core.dbConn (runBody_core c s st)
@[simp] theorem runBody_dbRow : (runBody {} c s st).1.dbRow = st.dbRow := congrArg Core.dbRow (runBody_core c s st)
@[simp] theorem runBody_metaFile : (runBody {} c s st).1.metaFile = st.metaFile := congrArg Core.metaFile (runBody_core c s st)
@[simp] theorem runBody_reports : (runBody {} c s st).1.reports = st.reports := congrArg Core.reports (runBody_core c s st)
@[simp] theorem runBody_preRan : (runBody {} c s st).1.preRan = st.preRan := congrArg Core.preRan (runBody_core c s st)
@[simp] theorem runBody_postEnv : (runBody {} c s st).1.postEnv = st.postEnv := congrArg Core.postEnv (runBody_core c s st)
@[simp] theorem runBody_endTime : (runBody {} c s st).1.endTime = st.endTime := congrArg Core.endTime (runBody_core c s st)
@[simp] theorem runBody_waited : (runBody {} c s st).1.waited = st.waited := congrArg Core.waited (runBody_core c s st)
@[simp] theorem runBody_artDir : (runBody {} c s st).1.artDir = st.artDir := congrArg Core.artDir (runBody_core c s st)
@[simp] theorem runBody_runs : (runBody {} c s st).1.runs = st.runs := congrArg Core.runs (runBody_core c s st)
@[simp] theorem runBody_latest : (runBody {} c s st).1.latest = st.latest := congrArg Core.latest (runBody_core c s st)
theorem runBody_tick : st.tick < (runBody {} c s st).1.tick := by
  rw [runBody_tick_eq]
  have h1 : setupSteps c s ≠ [] := by unfold setupSteps; simp
  have h2 := performed_pos _ h1
  have : 0 < (bodyActs c s).length := by
    unfold bodyActs bodySteps
    simp only [List.length_map, List.length_append]; omega
  omega
end frame

/-! ### `entry_point` -/

/-- the current ladder realises the documented mapping and lets nothing through -/
theorem mapExit_current (k : Kind) (e : Option Exc) : mapExit {} k e = (exitOf k e, false) := by
  rcases e with _ | (n | _ | c | _ | _) <;>
    simp [mapExit, dispatch, ladder, handle, Exc.type, exitOf, OK, SOFTWARE, IOERR, SIGINT_EXIT]

theorem runHook_current_snd (h : Hook) (b : Bool) (st : St) : (runHook {} h b st).2 = false := by
  unfold runHook; cases b <;> simp

theorem hookPre_current_snd (c : Cfg) (s : Script) (st : St) : (hookPre {} c s st).2 = false := by
  unfold hookPre; cases c.hooks <;> simp [runHook_current_snd]

theorem postPhase_current_snd (c : Cfg) (s : Script) (n : Nat) (st : St) : (postPhase {} c s n st).2 = false := by
  unfold postPhase; cases c.hooks <;> simp [runHook_current_snd]

/-- the world after the lock has been taken -/
def lockedSt (w : World) (c : Cfg) : St :=
  if c.lock then { (St.init w).step with lockHeld := true, waited := w.lock == .busy } else St.init w

/-- the world when the run starts: lock taken, artifacts directory created, log handler attached -/
def startSt (w : World) (c : Cfg) : St :=
  if c.art then
    { (lockedSt w c).step with artDir := some w.now, runs := w.runs ++ [{ name := w.now }],
                               latest := lastName (w.runs ++ [{ name := w.now }]), logOpen := true }
  else lockedSt w c

/-- state when the `finally:` block is done -/
def finishedState (w : World) (c : Cfg) (s : Script) : St :=
  finish c (code c s) (tryBody {} c s (hookPre {} c s (startSt w c)).1).1

/-- state after the post-hook and the release of the lock -/
def endState (w : World) (c : Cfg) (s : Script) : St :=
  unlock c (postPhase {} c s (code c s) (finishedState w c s)).1

/-- logical time of the run_meta insert (= when the pre-run steps are done) -/
def startTick (w : World) (c : Cfg) (s : Script) : Nat := (hookPre {} c s (startSt w c)).1.tick

/-- logical time at which the `finally:` block takes `run_meta.end_time` -/
def stopTick (w : World) (c : Cfg) (s : Script) : Nat := (tryBody {} c s (hookPre {} c s (startSt w c)).1).1.tick

theorem startTick_pos (w : World) (c : Cfg) (s : Script) : 0 < startTick w c s := by
  unfold startTick hookPre startSt lockedSt
  cases c.lock <;> cases c.art <;> cases c.hooks <;> cases s.preFails <;> simp [runHook, St.obs, St.step, St.init]

theorem start_lt_stop (w : World) (c : Cfg) (s : Script) : startTick w c s < stopTick w c s := by
  have h := runBody_tick c s (dbInsert c (hookPre {} c s (startSt w c)).1)
  have h2 : (hookPre {} c s (startSt w c)).1.tick ≤ (dbInsert c (hookPre {} c s (startSt w c)).1).tick := by
    unfold dbInsert; cases c.db <;> simp [St.step]
  unfold startTick stopTick tryBody
  cases c.db <;> cases s.dbFails <;> simp [St.step] at * <;> omega

/-- `entry_point` of the current code, once the run has started, always returns, with the documented code, from `endState` -/
theorem fromPreHook_eq (w : World) (c : Cfg) (s : Script) :
    fromPreHook {} c s (startSt w c) = (endState w c s).final (.ret (code c s)) := by
  simp [fromPreHook, endState, finishedState, code, hookPre_current_snd, postPhase_current_snd,
    tryBody_exc, mapExit_current]

/-- the world when the wait for the lock is cut short by Ctrl-C -/
def interruptedSt (w : World) : St := { (St.init w).step with lockHeld := true, waited := true }

theorem lockPhase_eq (w : World) (c : Cfg) :
    lockPhase w c (St.init w) =
      if c.lock && w.lock == .broken then .failed
      else if c.lock && w.lock == .interrupted then .interrupted (interruptedSt w)
      else .ok (lockedSt w c) := by
  unfold lockPhase lockedSt interruptedSt
  cases c.lock <;> cases w.lock <;> simp [St.init, St.step] <;> rfl

theorem artPhase_eq (w : World) (c : Cfg) :
    artPhase {} w c (lockedSt w c) = if c.art && (!w.baseOk || nameTaken w) then none else some (startSt w c) := by
  have hr : (lockedSt w c).runs = w.runs := by unfold lockedSt; cases c.lock <;> rfl
  unfold artPhase startSt nameTaken
  rw [hr]
  cases c.art <;> cases w.baseOk <;> cases (w.runs.any fun x => x.name == w.now) <;> simp [hr]

/-- the four ways the prologue can go -/
theorem entryPointW_eq (w : World) (c : Cfg) (s : Script) :
    entryPointW {} w c s =
      match startOf w c with
      | .noLock => (St.init w).final (.ret OSFILE)
      | .lockWaitInterrupted => (interruptedSt w).final .escLockWait
      | .noArtDir => (lockedSt w c).final .escArt
      | .started => (endState w c s).final (.ret (code c s)) := by
  unfold entryPointW startOf
  rw [lockPhase_eq]
  cases h1 : (c.lock && w.lock == .broken)
  · simp only [Bool.false_eq_true, ↓reduceIte]
    cases h0 : (c.lock && w.lock == .interrupted)
    · simp only [Bool.false_eq_true, ↓reduceIte]
      rw [artPhase_eq]
      cases h2 : (c.art && (!w.baseOk || nameTaken w))
      · simp only [Bool.false_eq_true, ↓reduceIte]; exact fromPreHook_eq w c s
      · simp
    · simp
  · simp

/-- a META.json written into a directory whose name no other directory has touches nothing else -/
theorem writeMeta_fresh (n x : Nat) (rs : List RunDir) (h : (rs.any fun r => r.name == n) = false) :
    writeMeta n x (rs ++ [{ name := n }]) = rs ++ [{ name := n, metaTag := some x }] := by
  unfold writeMeta
  rw [List.map_append]
  congr 1
  · have : ∀ r ∈ rs, (if (r.name == n) = true then { r with metaTag := some x } else r) = r := by
      intro r hr
      have := List.any_eq_false.mp h r hr
      simp [this]
    conv => rhs; rw [← List.map_id rs]
    exact List.map_congr_left this
  · simp

/-- every field of the outcome of a run that started, in closed form -/
theorem started_fields (w : World) (c : Cfg) (s : Script) :
    let f := (endState w c s).final (.ret (code c s))
    let x := code c s
    f.exit = .ret x ∧ f.lockReleased = true ∧ f.logClosed = true ∧ f.dbClosed = true ∧
    f.preRan = c.hooks ∧ f.reports = failing c s ∧
    f.metaFile = (if c.art then some ⟨x, 0, stopTick w c s⟩ else none) ∧
    f.dbRow = (if c.db && !s.dbFails then .done (startTick w c s) (stopTick w c s + 1) x else .absent) ∧
    f.postEnv = (if c.hooks then some ⟨x, x, stopTick w c s⟩ else none) ∧
    f.waited = (c.lock && w.lock == .busy) ∧
    f.artDir = (if c.art then some w.now else none) ∧
    f.runs = (if c.art then writeMeta w.now x (w.runs ++ [{ name := w.now }]) else w.runs) ∧
    f.latest = (if c.art then lastName (w.runs ++ [{ name := w.now }]) else w.latest) := by
  cases hl : c.lock <;> cases hh : c.hooks <;> cases ha : c.art <;> cases hd : c.db <;> cases hf : s.dbFails <;>
    cases hp : s.preFails <;> cases hq : s.postFails <;>
  simp [St.final, endState, finishedState, unlock, postPhase, finish, tryBody, dbInsert, hookPre, runHook, St.obs,
    St.step, startTick, stopTick, failing, startSt, lockedSt, St.init, hl, hh, ha, hd, hf, hp, hq]

/-- transport, tester-present task, dumpcap process -/
structure Res where
  tr : Bool
  tp : Bool
  dc : Bool

def St.res (st : St) : Res := ⟨st.transportOpen, st.tpRunning, st.dcRunning⟩

theorem startSt_res (w : World) (c : Cfg) : (startSt w c).res = ⟨false, false, false⟩ := by
  unfold startSt lockedSt; cases c.lock <;> cases c.art <;> rfl

theorem hookPre_res (c : Cfg) (s : Script) (st : St) : (hookPre {} c s st).1.res = st.res := by
  unfold hookPre runHook; cases c.hooks <;> cases s.preFails <;> rfl

theorem finish_res (c : Cfg) (n : Nat) (st : St) : (finish c n st).res = st.res := by
  unfold finish; cases h : st.dbConn <;> cases c.art <;> simp [St.step, St.res, h]

theorem postPhase_res (c : Cfg) (s : Script) (n : Nat) (st : St) : (postPhase {} c s n st).1.res = st.res := by
  unfold postPhase runHook; cases c.hooks <;> cases s.postFails <;> rfl

theorem unlock_res (c : Cfg) (st : St) : (unlock c st).res = st.res := by
  unfold unlock; cases c.lock <;> rfl

theorem tryBody_res (c : Cfg) (s : Script) (st : St) (h : st.res = ⟨false, false, false⟩) :
    (tryBody {} c s st).1.res =
      ⟨!(c.db && s.dbFails) && transportOpened c s && !transportClosedAgain c s,
       !(c.db && s.dbFails) && tpStarted c s && !tpStopReached c s,
       !(c.db && s.dbFails) && dcStarted c s && !dcStopDone c s⟩ := by
  simp only [St.res, Res.mk.injEq] at h
  obtain ⟨h1, h2, h3⟩ := h
  have e1 : (dbInsert c st).transportOpen = false := by unfold dbInsert; cases c.db <;> simp [St.step, h1]
  have e2 : (dbInsert c st).tpRunning = false := by unfold dbInsert; cases c.db <;> simp [St.step, h2]
  have e3 : (dbInsert c st).dcRunning = false := by unfold dbInsert; cases c.db <;> simp [St.step, h3]
  unfold tryBody
  cases hd : (c.db && s.dbFails)
  · simp only [Bool.false_eq_true, ↓reduceIte, St.res, runBody_transportOpen, runBody_tpRunning, runBody_dcRunning,
      e1, e2, e3]
    cases transportOpened c s <;> cases tpStarted c s <;> cases dcStarted c s <;> simp
  · simp [St.res, St.step, h1, h2, h3]

/-- the resources of a run that started -/
theorem started_resources (w : World) (c : Cfg) (s : Script) :
    let f := (endState w c s).final (.ret (code c s))
    f.transportClosed = !(!(c.db && s.dbFails) && transportOpened c s && !transportClosedAgain c s) ∧
    f.tpStopped = !(!(c.db && s.dbFails) && tpStarted c s && !tpStopReached c s) ∧
    f.dcStopped = !(!(c.db && s.dbFails) && dcStarted c s && !dcStopDone c s) := by
  have h : (endState w c s).res =
      ⟨!(c.db && s.dbFails) && transportOpened c s && !transportClosedAgain c s,
       !(c.db && s.dbFails) && tpStarted c s && !tpStopReached c s,
       !(c.db && s.dbFails) && dcStarted c s && !dcStopDone c s⟩ := by
    unfold endState finishedState
    rw [unlock_res, postPhase_res, finish_res, tryBody_res _ _ _ (by rw [hookPre_res, startSt_res])]
  simp only [St.res, Res.mk.injEq] at h
  simp only [St.final, h.1, h.2.1, h.2.2]
  exact ⟨trivial, trivial, trivial⟩

/-- the observable trace of a run that started: the lock is held at every action, META.json exists only for the post-hook -/
theorem started_trace (w : World) (c : Cfg) (s : Script) :
    ((endState w c s).final (.ret (code c s))).trace =
      (if c.hooks then [⟨.pre, c.lock, false⟩] else []) ++
      (if c.db && s.dbFails then [] else (bodyActs c s).map (fun a => ⟨a, c.lock, false⟩)) ++
      (if c.hooks then [⟨.post, c.lock, c.art⟩] else []) := by
  cases hl : c.lock <;> cases hh : c.hooks <;> cases ha : c.art <;> cases hd : c.db <;> cases hf : s.dbFails <;>
    cases hp : s.preFails <;> cases hq : s.postFails <;>
  simp [St.final, endState, finishedState, unlock, postPhase, finish, tryBody, dbInsert, hookPre, runHook, St.obs,
    St.step, runBody_trace, startSt, lockedSt, St.init, hl, hh, ha, hd, hf, hp, hq]

/-! ### the benign world, and what the world changes -/

theorem startOf_noLock (w : World) (c : Cfg) (h : startOf w c = .noLock) : c.lock = true ∧ w.lock = .broken := by
  unfold startOf at h
  by_cases h1 : (c.lock && w.lock == .broken) = true
  · simpa using h1
  · rw [if_neg h1] at h
    split at h
    · cases h
    · split at h <;> cases h

theorem startOf_interrupted (w : World) (c : Cfg) (h : startOf w c = .lockWaitInterrupted) :
    c.lock = true ∧ w.lock = .interrupted := by
  unfold startOf at h
  by_cases h1 : (c.lock && w.lock == .broken) = true
  · rw [if_pos h1] at h; cases h
  · rw [if_neg h1] at h
    by_cases h2 : (c.lock && w.lock == .interrupted) = true
    · simpa using h2
    · rw [if_neg h2] at h
      split at h <;> cases h

theorem startOf_started_fresh (w : World) (c : Cfg) (h : startOf w c = .started) (ha : c.art = true) :
    (w.runs.any fun r => r.name == w.now) = false := by
  unfold startOf at h
  by_cases h1 : (c.lock && w.lock == .broken) = true
  · rw [if_pos h1] at h; cases h
  · rw [if_neg h1] at h
    by_cases h2 : (c.lock && w.lock == .interrupted) = true
    · rw [if_pos h2] at h; cases h
    · rw [if_neg h2] at h
      by_cases h3 : (c.art && (!w.baseOk || nameTaken w)) = true
      · rw [if_pos h3] at h; cases h
      · simp only [ha, Bool.true_and, Bool.or_eq_true, Bool.not_eq_eq_eq_not, Bool.not_true, not_or,
          Bool.not_eq_false, Bool.not_eq_true] at h3
        exact h3.2

/-- the lock of the world only matters through `broken` / `interrupted` -/
theorem startOf_busy_free (w : World) (c : Cfg) :
    startOf { w with lock := .busy } c = startOf { w with lock := .free } c ∧
    startOf { w with lock := .free } c ≠ .noLock ∧ startOf { w with lock := .free } c ≠ .lockWaitInterrupted := by
  unfold startOf nameTaken
  cases c.lock <;> simp <;> (repeat' split) <;> simp

theorem startOf_benign (c : Cfg) : startOf {} c = .started := by
  unfold startOf nameTaken; cases c.lock <;> cases c.art <;> rfl

theorem entryPoint_eq (c : Cfg) (s : Script) : entryPoint c s = (endState {} c s).final (.ret (code c s)) := by
  unfold entryPoint entryPointQ
  rw [entryPointW_eq, startOf_benign]

theorem Final.ext_fields (f g : Final)
    (h1 : f.exit = g.exit) (h2 : f.metaFile = g.metaFile) (h3 : f.dbRow = g.dbRow) (h4 : f.dbClosed = g.dbClosed)
    (h5 : f.logClosed = g.logClosed) (h6 : f.lockReleased = g.lockReleased) (h7 : f.preRan = g.preRan)
    (h8 : f.postEnv = g.postEnv) (h9 : f.reports = g.reports) (h10 : f.transportClosed = g.transportClosed)
    (h11 : f.trace = g.trace) (h12 : f.tpStopped = g.tpStopped) (h13 : f.dcStopped = g.dcStopped)
    (h14 : f.waited = g.waited) (h15 : f.artDir = g.artDir) (h16 : f.runs = g.runs) (h17 : f.latest = g.latest) :
    f = g := by
  cases f; cases g; simp_all

theorem startSt_tick (w : World) (c : Cfg) : (startSt w c).tick = (startSt {} c).tick := by
  unfold startSt lockedSt; cases c.lock <;> cases c.art <;> rfl

/-- the logical clock of a run does not look at the world -/
theorem ticks_world (w : World) (c : Cfg) (s : Script) :
    startTick w c s = startTick {} c s ∧ stopTick w c s = stopTick {} c s := by
  have h := startSt_tick w c
  unfold startTick stopTick tryBody dbInsert hookPre runHook
  cases c.hooks <;> cases c.db <;> cases s.dbFails <;> cases s.preFails <;>
    simp [St.obs, St.step, runBody_tick_eq, h]

/-- `lastName` is the largest name -/
theorem lastName_none (rs : List RunDir) : lastName rs = none ↔ rs = [] := by
  cases rs with
  | nil => simp [lastName]
  | cons r rs => cases h : lastName rs <;> simp [lastName, h]

theorem lastName_spec (rs : List RunDir) (m : Nat) (h : lastName rs = some m) :
    (∃ r ∈ rs, r.name = m) ∧ ∀ r ∈ rs, r.name ≤ m := by
  induction rs generalizing m with
  | nil => simp [lastName] at h
  | cons r rs ih =>
    cases hl : lastName rs with
    | none =>
      have : rs = [] := (lastName_none rs).mp hl
      subst this
      simp [lastName] at h
      subst h; simp
    | some k =>
      simp [lastName, hl] at h
      obtain ⟨⟨r', hr', hk⟩, hle⟩ := ih k hl
      subst h
      constructor
      · by_cases hc : r.name ≤ k
        · exact ⟨r', List.mem_cons_of_mem _ hr', by omega⟩
        · exact ⟨r, by simp, by omega⟩
      · intro x hx
        rcases List.mem_cons.mp hx with rfl | hx
        · omega
        · have := hle x hx; omega

/-! ### closed forms in a benign world -/

/-- the closed form all theorems about a benign world start from -/
theorem entryPoint_fields (c : Cfg) (s : Script) :
    let f := entryPoint c s
    let x := code c s
    f.exit = .ret x ∧ f.lockReleased = true ∧ f.logClosed = true ∧ f.dbClosed = true ∧
    f.preRan = c.hooks ∧ f.reports = failing c s ∧
    f.metaFile = (if c.art then some ⟨x, 0, stopTick {} c s⟩ else none) ∧
    f.dbRow = (if c.db && !s.dbFails then .done (startTick {} c s) (stopTick {} c s + 1) x else .absent) ∧
    f.postEnv = (if c.hooks then some ⟨x, x, stopTick {} c s⟩ else none) := by
  rw [entryPoint_eq]
  obtain ⟨h1, h2, h3, h4, h5, h6, h7, h8, h9, -⟩ := started_fields {} c s
  exact ⟨h1, h2, h3, h4, h5, h6, h7, h8, h9⟩

theorem entryPoint_trace (c : Cfg) (s : Script) :
    (entryPoint c s).trace =
      (if c.hooks then [⟨.pre, c.lock, false⟩] else []) ++
      (if c.db && s.dbFails then [] else (bodyActs c s).map (fun a => ⟨a, c.lock, false⟩)) ++
      (if c.hooks then [⟨.post, c.lock, c.art⟩] else []) := by
  rw [entryPoint_eq]; exact started_trace {} c s

/-- no step of `setup()` / `main()` / `teardown()` is a hook -/
theorem bodyActs_no_hook (c : Cfg) (s : Script) : Act.post ∉ bodyActs c s ∧ Act.pre ∉ bodyActs c s := by
  have hs : ∀ p ∈ setupSteps c s, p.act ≠ .post ∧ p.act ≠ .pre := by
    have h : (setupSteps c s).all (fun p => p.act != .post && p.act != .pre) = true := by
      unfold setupSteps scannerSetup udsSetup
      cases c.kind <;> cases c.power <;> cases (c.art && c.dumpcap) <;> cases c.tp <;> cases c.props <;>
        cases s.dumpcap <;> simp [Kind.isScanner, Kind.isUds, dumpcapStep]
    intro p hp
    have := List.all_eq_true.mp h p hp
    simpa using this
  have ht : ∀ p ∈ teardownSteps {} c s, p.act ≠ .post ∧ p.act ≠ .pre := by
    have h : (teardownSteps {} c s).all (fun p => p.act != .post && p.act != .pre) = true := by
      unfold teardownSteps scannerTeardown udsTeardown
      cases c.kind <;> cases dumpcapActive c s <;> cases c.tp <;> cases c.props <;>
        simp [Kind.isScanner, Kind.isUds]
    intro p hp
    have := List.all_eq_true.mp h p hp
    simpa using this
  have key : ∀ p ∈ bodySteps c s, p.act ≠ .post ∧ p.act ≠ .pre := by
    intro p hp
    unfold bodySteps at hp
    rcases List.mem_append.mp hp with hp | hp
    · exact hs p (performed_sublist _ p hp)
    · split at hp
      · rcases List.mem_cons.mp hp with rfl | hp
        · exact ⟨by decide, by decide⟩
        · exact ht p (performed_sublist _ p hp)
      · simp at hp
  unfold bodyActs
  constructor <;> (intro h; obtain ⟨p, hp, he⟩ := List.mem_map.mp h)
  · exact (key p hp).1 he
  · exact (key p hp).2 he

end Gallia.Lifecycle
