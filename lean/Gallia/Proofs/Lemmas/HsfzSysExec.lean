import Gallia.Model.HsfzSys
import Gallia.Proofs.Lemmas.HsfzOrder
import Gallia.Proofs.Lemmas.HsfzRun
/-
  Helper lemmas for C07: the whole-execution system `Model/HsfzSys.lean`.

  * the connection inside the system (`Sys.core`) only ever moves by operations of `Hsfz.execOp` and by `close()` on an
    idle client (`execOp_core_inv`, `execOp_core_conserved`): every invariant / conserved quantity of `Model/Hsfz.lean`
    that `close()` respects lifts to every event list;
  * the reader task's trace: conservation of the frames (`rxAll`), alive checks answered (`answered`), replies written.
-/
namespace Gallia.HsfzSys
open Gallia Gallia.Framing Gallia.Hsfz

variable (cfg : Cfg) (yields : Wire → Bool)

/-! ### `settle` with the trace is `Hsfz.settle` on the connection -/

theorem settle_stopped (s : Sys) (h : (s.core.closed || s.core.eof) = true) : settle cfg yields s = s := by
  rw [settle.eq_def]; simp [h]

theorem settle_none (s : Sys) (h : (s.core.closed || s.core.eof) = false) (hc : cutWire s.core.buf = none) :
    settle cfg yields s = { s with core := clientRun cfg s.core } := by
  rw [settle.eq_def, if_neg (by simp [h])]; split
  · rfl
  · rename_i w rest h'; rw [hc] at h'; cases h'

theorem settle_some (s : Sys) (h : (s.core.closed || s.core.eof) = false) {w : Wire} {rest : Bytes}
    (hc : cutWire s.core.buf = some (w, rest)) :
    settle cfg yields s =
      if yields w then
        settle cfg yields { s with core := clientRun cfg (deliver cfg { s.core with buf := rest } w), tr := s.tr ++ trOf w }
      else settle cfg yields { s with core := deliver cfg { s.core with buf := rest } w, tr := s.tr ++ trOf w } := by
  rw [settle.eq_def, if_neg (by simp [h])]; split
  · rename_i h'; rw [hc] at h'; cases h'
  · rename_i w' rest' h'; rw [hc] at h'; cases h'; rfl

theorem settle_core (s : Sys) :
    (settle cfg yields s).core = Hsfz.settle cfg yields s.core ∧ (settle cfg yields s).connected = s.connected ∧
    (settle cfg yields s).pre = s.pre ∧ (settle cfg yields s).peerEof = s.peerEof := by
  generalize hn : s.core.buf.length = n
  induction n using Nat.strongRecOn generalizing s with
  | _ n ih =>
    by_cases ho : (s.core.closed || s.core.eof) = true
    · rw [settle_stopped cfg yields s ho, Hsfz.settle_stopped cfg yields s.core ho]; exact ⟨rfl, rfl, rfl, rfl⟩
    · have ho : (s.core.closed || s.core.eof) = false := by simpa using ho
      cases hc : cutWire s.core.buf with
      | none => rw [settle_none cfg yields s ho hc, Hsfz.settle_none cfg yields s.core ho hc]; exact ⟨rfl, rfl, rfl, rfl⟩
      | some p =>
        obtain ⟨w, rest⟩ := p
        have hl := cutWire_shrinks hc
        rw [settle_some cfg yields s ho hc, Hsfz.settle_some cfg yields s.core ho hc]
        by_cases hy : yields w = true
        · rw [if_pos hy, if_pos hy]
          exact ih _ (by rw [← hn]; exact hl) _ (by simp)
        · rw [if_neg hy, if_neg hy]
          exact ih _ (by rw [← hn]; exact hl) _ (by simp)

theorem feedCore_core (s : Sys) (chunk : Bytes) :
    (feedCore cfg yields s chunk).core = Hsfz.execOp cfg yields s.core (.feed chunk) ∧
    (feedCore cfg yields s chunk).connected = s.connected ∧ (feedCore cfg yields s chunk).pre = s.pre ∧
    (feedCore cfg yields s chunk).peerEof = s.peerEof := by
  obtain ⟨a, b, c, d⟩ := settle_core cfg yields { s with core := { s.core with buf := s.core.buf ++ chunk } }
  exact ⟨a, b, c, d⟩

/-! ### lifting invariants and conserved quantities of the connection -/

/-- the connection inside the system moves only by `Hsfz.execOp` and by `close()` on an idle client -/
theorem execOp_core_inv (P : Hsfz.Sys → Prop)
    (hop : ∀ c o, P c → P (Hsfz.execOp cfg yields c o))
    (hclose : ∀ c : Hsfz.Sys, P c → c.client = .idle → P { c with closed := true })
    (s : Sys) (op : Op) (h : P s.core) : P (execOp cfg yields s op).core := by
  cases op with
  | feed chunk =>
    simp only [execOp]; split
    · rw [(feedCore_core cfg yields s chunk).1]; exact hop _ _ h
    · exact h
  | connect =>
    simp only [execOp]; split
    · exact h
    · have h1 : P (feedCore cfg yields { s with connected := true, pre := [] } s.pre).core := by
        rw [(feedCore_core cfg yields _ s.pre).1]; exact hop _ _ h
      split
      · exact hop _ .eof h1
      · exact h1
  | write data t => simp only [execOp]; split; exact hop _ (.write data t) h; exact h
  | read t => simp only [execOp]; split; exact hop _ (.read t) h; exact h
  | close =>
    simp only [execOp]; split
    · rename_i hc
      simp only [Bool.and_eq_true] at hc
      exact hclose _ h (isIdle_eq hc.2)
    · exact h
  | eof => simp only [execOp]; split; exact hop _ .eof h; exact h
  | advance dt => exact hop _ (.advance dt) h

theorem exec_core_inv (P : Hsfz.Sys → Prop)
    (hop : ∀ c o, P c → P (Hsfz.execOp cfg yields c o))
    (hclose : ∀ c : Hsfz.Sys, P c → c.client = .idle → P { c with closed := true })
    (ops : List Op) (s : Sys) (h : P s.core) : P (exec cfg yields s ops).core := by
  induction ops generalizing s with
  | nil => exact h
  | cons op ops ih => exact ih _ (execOp_core_inv cfg yields P hop hclose s op h)

/-- bytes received before `connect` wait in `pre`; afterwards `pre` is empty -/
def PreOk (s : Sys) : Prop := s.connected = true → s.pre = []

theorem execOp_preOk (s : Sys) (op : Op) (h : PreOk s) : PreOk (execOp cfg yields s op) := by
  cases op with
  | feed chunk =>
    simp only [execOp]; split
    · rename_i hc
      intro _; rw [(feedCore_core cfg yields s chunk).2.2.1]; exact h hc
    · rename_i hc; intro hc'; exact absurd hc' hc
  | connect =>
    simp only [execOp]; split
    · exact h
    · split
      · intro _; simp only [eofCore]; rw [(feedCore_core cfg yields _ s.pre).2.2.1]
      · intro _; rw [(feedCore_core cfg yields _ s.pre).2.2.1]
  | write data t => simp only [execOp]; split <;> exact h
  | read t => simp only [execOp]; split <;> exact h
  | close => simp only [execOp]; split <;> exact h
  | eof => simp only [execOp]; split <;> exact h
  | advance dt => exact h

/-- a quantity `Q c extra` of the connection (`extra` = bytes still to come) conserved by every operation of the
    connection and untouched by `close()` is conserved by every event of the system, the bytes waiting for the reader
    task included -/
theorem execOp_core_conserved {α : Type} (P : Hsfz.Sys → Prop) (Q : Hsfz.Sys → Bytes → α)
    (hop : ∀ c o, P c → P (Hsfz.execOp cfg yields c o) ∧
      ∀ extra, Q (Hsfz.execOp cfg yields c o) extra = Q c (Hsfz.Op.chunk o ++ extra))
    (hclose : ∀ c : Hsfz.Sys, P c → c.client = .idle →
      P { c with closed := true } ∧ ∀ extra, Q { c with closed := true } extra = Q c extra)
    (s : Sys) (op : Op) (h : P s.core) (hp : PreOk s) :
    P (execOp cfg yields s op).core ∧
    ∀ extra, Q (execOp cfg yields s op).core ((execOp cfg yields s op).pre ++ extra) =
      Q s.core (s.pre ++ (op.chunk ++ extra)) := by
  refine ⟨execOp_core_inv cfg yields P (fun c o hc => (hop c o hc).1) (fun c hc hi => (hclose c hc hi).1) s op h, ?_⟩
  intro extra
  cases op with
  | feed chunk =>
    simp only [execOp, Op.chunk]; split
    · rename_i hc
      rw [(feedCore_core cfg yields s chunk).1, (feedCore_core cfg yields s chunk).2.2.1, (hop _ _ h).2, hp hc]
      simp [Hsfz.Op.chunk]
    · simp [List.append_assoc]
  | connect =>
    simp only [execOp, Op.chunk, List.nil_append]; split
    · rfl
    · have e1 := (feedCore_core cfg yields { s with connected := true, pre := [] } s.pre)
      have q1 : ∀ extra, Q (feedCore cfg yields { s with connected := true, pre := [] } s.pre).core extra =
          Q s.core (s.pre ++ extra) := by
        intro extra; rw [e1.1, (hop _ _ h).2]; simp [Hsfz.Op.chunk]
      have p1 : P (feedCore cfg yields { s with connected := true, pre := [] } s.pre).core := by
        rw [e1.1]; exact (hop _ _ h).1
      split
      · simp only [eofCore]
        rw [e1.2.2.1, (hop _ _ p1).2]
        simp only [Hsfz.Op.chunk, List.nil_append]
        exact q1 extra
      · rw [e1.2.2.1]; exact q1 extra
  | write data t =>
    simp only [execOp, Op.chunk, List.nil_append]; split
    · rw [(hop _ _ h).2]; simp [Hsfz.Op.chunk]
    · rfl
  | read t =>
    simp only [execOp, Op.chunk, List.nil_append]; split
    · rw [(hop _ _ h).2]; simp [Hsfz.Op.chunk]
    · rfl
  | close =>
    simp only [execOp, Op.chunk, List.nil_append]; split
    · rename_i hc
      simp only [Bool.and_eq_true] at hc
      rw [(hclose _ h (isIdle_eq hc.2)).2]
    · rfl
  | eof =>
    simp only [execOp, Op.chunk, List.nil_append]; split
    · simp only [eofCore]; rw [(hop _ _ h).2]; simp [Hsfz.Op.chunk]
    · rfl
  | advance dt =>
    simp only [execOp, Op.chunk, List.nil_append]
    rw [(hop _ _ h).2]; simp [Hsfz.Op.chunk]

theorem exec_preOk (ops : List Op) (s : Sys) (h : PreOk s) : PreOk (exec cfg yields s ops) := by
  induction ops generalizing s with
  | nil => exact h
  | cons op ops ih => exact ih _ (execOp_preOk cfg yields s op h)

theorem exec_core_conserved {α : Type} (P : Hsfz.Sys → Prop) (Q : Hsfz.Sys → Bytes → α)
    (hop : ∀ c o, P c → P (Hsfz.execOp cfg yields c o) ∧
      ∀ extra, Q (Hsfz.execOp cfg yields c o) extra = Q c (Hsfz.Op.chunk o ++ extra))
    (hclose : ∀ c : Hsfz.Sys, P c → c.client = .idle →
      P { c with closed := true } ∧ ∀ extra, Q { c with closed := true } extra = Q c extra)
    (ops : List Op) (s : Sys) (h : P s.core) (hp : PreOk s) :
    P (exec cfg yields s ops).core ∧
    ∀ extra, Q (exec cfg yields s ops).core ((exec cfg yields s ops).pre ++ extra) =
      Q s.core (s.pre ++ (fedBytes ops ++ extra)) := by
  induction ops generalizing s with
  | nil => exact ⟨h, fun extra => by simp [exec, fedBytes]⟩
  | cons op ops ih =>
    obtain ⟨h1, h2⟩ := execOp_core_conserved cfg yields P Q hop hclose s op h hp
    obtain ⟨h3, h4⟩ := ih _ h1 (execOp_preOk cfg yields s op hp)
    refine ⟨h3, fun extra => ?_⟩
    have : exec cfg yields s (op :: ops) = exec cfg yields (execOp cfg yields s op) ops := by simp [exec]
    rw [this, h4, h2]
    simp [fedBytes, List.append_assoc]

theorem exec_append (s : Sys) (a b : List Op) :
    exec cfg yields s (a ++ b) = exec cfg yields (exec cfg yields s a) b := by
  simp [exec, List.foldl_append]

end Gallia.HsfzSys

namespace Gallia.HsfzSys
open Gallia Gallia.Framing Gallia.Hsfz

variable (cfg : Cfg) (yields : Wire → Bool)

/-! ### what can happen while the one client task is blocked: gateway bytes and passing time -/

def gatewayOnly : List Op → Prop
  | [] => True
  | .feed _ :: ops => gatewayOnly ops
  | .advance _ :: ops => gatewayOnly ops
  | _ :: _ => False

/-- the same events as operations of the connection -/
def lowerOps : List Op → List Hsfz.Op
  | [] => []
  | .feed c :: ops => .feed c :: lowerOps ops
  | .advance dt :: ops => .advance dt :: lowerOps ops
  | _ :: ops => lowerOps ops

theorem lowerOps_gatewayOnly (ops : List Op) (h : gatewayOnly ops) : Hsfz.gatewayOnly (lowerOps ops) := by
  induction ops with
  | nil => trivial
  | cons op ops ih =>
    cases op <;> simp only [gatewayOnly] at h <;> simp only [lowerOps, Hsfz.gatewayOnly] <;> exact ih h

theorem exec_gateway (ops : List Op) (s : Sys) (hc : s.connected = true) (h : gatewayOnly ops) :
    (exec cfg yields s ops).core = Hsfz.exec cfg yields s.core (lowerOps ops) ∧
    (exec cfg yields s ops).connected = true := by
  induction ops generalizing s with
  | nil => exact ⟨rfl, hc⟩
  | cons op ops ih =>
    cases op with
    | feed chunk =>
      have e := feedCore_core cfg yields s chunk
      have h1 : execOp cfg yields s (.feed chunk) = feedCore cfg yields s chunk := by simp [execOp, hc]
      have := ih (execOp cfg yields s (.feed chunk)) (by rw [h1, e.2.1]; exact hc) h
      simp only [exec, List.foldl_cons, lowerOps] at this ⊢
      refine ⟨?_, this.2⟩
      rw [this.1, h1, e.1]; rfl
    | advance dt =>
      have := ih (execOp cfg yields s (.advance dt)) (by simpa [execOp] using hc) h
      simp only [exec, List.foldl_cons, lowerOps] at this ⊢
      rw [this.1]; exact ⟨rfl, this.2⟩
    | connect => exact absurd h (by simp [gatewayOnly])
    | write d t => exact absurd h (by simp [gatewayOnly])
    | read t => exact absurd h (by simp [gatewayOnly])
    | close => exact absurd h (by simp [gatewayOnly])
    | eof => exact absurd h (by simp [gatewayOnly])

/-- results are only appended, whatever follows -/
theorem exec_done_ext (ops : List Op) (s : Sys) : ∃ m, (exec cfg yields s ops).core.done = s.core.done ++ m := by
  refine exec_core_inv cfg yields (fun c => ∃ m, c.done = s.core.done ++ m) ?_ ?_ ops s ⟨[], by simp⟩
  · rintro c o ⟨m, hm⟩
    obtain ⟨m2, h2⟩ := Hsfz.execOp_done_ext cfg yields c o
    exact ⟨m ++ m2, by rw [h2, hm, List.append_assoc]⟩
  · rintro c ⟨m, hm⟩ _; exact ⟨m, hm⟩

/-- closed is final -/
theorem exec_closed_mono (ops : List Op) (s : Sys) (h : s.core.closed = true) : (exec cfg yields s ops).core.closed = true :=
  exec_core_inv cfg yields (fun c => c.closed = true) (fun c o hc => Hsfz.execOp_closed_mono cfg yields c o hc)
    (fun _ _ _ => rfl) ops s h

theorem HInv_close (c : Hsfz.Sys) (hi : c.client = .idle) : HInv { c with closed := true } :=
  ⟨fun h => by simp at h, fun h => absurd hi h⟩

theorem exec_hinv (ops : List Op) (s : Sys) (h : HInv s.core) : HInv (exec cfg yields s ops).core :=
  exec_core_inv cfg yields HInv (fun c o hc => Hsfz.execOp_hinv cfg yields c o hc) (fun c _ hi => HInv_close c hi) ops s h

end Gallia.HsfzSys
