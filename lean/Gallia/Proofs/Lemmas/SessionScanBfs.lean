import Gallia.Proofs.Lemmas.SessionScan
/-
  C09: the level-by-level invariants of the session scan and the breadth-first argument
  ("first-visit pruning loses nothing").
-/
namespace Gallia.SessionScan

/-! ### paths -/

/-- a stack as the scanner builds it: starts in the default session, every step answered positively, every
    session after the first one a non-skipped member of `sessions` -/
def PathOK (c : Cfg) (E : Ecu) (σ : List Sess) : Prop :=
  σ.head? = some 1 ∧ ValidPath (edge c E) σ ∧ ∀ x ∈ σ.tail, x ∉ c.skip ∧ x ∈ sessions

theorem PathOK.ne_nil {c : Cfg} {E : Ecu} {σ : List Sess} (h : PathOK c E σ) : σ ≠ [] := by
  intro h0; subst h0; cases h.1

theorem PathOK.stackOK {c : Cfg} {E : Ecu} {σ : List Sess} (h : PathOK c E σ) : StackOK c σ := by
  refine ⟨h.ne_nil, ?_⟩
  cases σ with
  | nil => intro x hx; cases hx
  | cons a l =>
    intro x hx
    have ha : a = 1 := by have := h.1; simpa using this
    rcases List.mem_cons.1 hx with h1 | h1
    · left; rw [h1, ha]
    · right; exact (h.2.2 x h1).1

theorem top_cons_cons (a b : Sess) (l : List Sess) : top (a :: b :: l) = top (b :: l) := by
  simp [top, List.getLastD]

theorem top_singleton (a : Sess) : top [a] = a := by simp [top, List.getLastD]

theorem top_snoc (σ : List Sess) (u : Sess) : top (σ ++ [u]) = u := by
  induction σ with
  | nil => simp [top, List.getLastD]
  | cons a l ih =>
    cases l with
    | nil => simp [top, List.getLastD]
    | cons b l => rw [List.cons_append, List.cons_append, top_cons_cons, ← List.cons_append]; exact ih

theorem validPath_snoc (g : Sess → Sess → Ans) (σ : List Sess) (u : Sess) (hne : σ ≠ [])
    (hv : ValidPath g σ) (hg : g (top σ) u = .pos) : ValidPath g (σ ++ [u]) := by
  induction σ with
  | nil => exact absurd rfl hne
  | cons a l ih =>
    cases l with
    | nil =>
      rw [top_singleton] at hg
      exact ⟨hg, trivial⟩
    | cons b l =>
      rw [top_cons_cons] at hg
      exact ⟨hv.1, ih (by simp) hv.2 hg⟩

theorem mem_dropLast_or_top (σ : List Sess) (x : Sess) (hx : x ∈ σ) : x ∈ σ.dropLast ∨ x = top σ := by
  induction σ with
  | nil => cases hx
  | cons a l ih =>
    cases l with
    | nil =>
      simp only [List.mem_singleton] at hx
      right; rw [hx, top_singleton]
    | cons b l =>
      rw [top_cons_cons, List.dropLast_cons_cons]
      rcases List.mem_cons.1 hx with h | h
      · left; rw [h]; exact List.mem_cons_self ..
      · rcases ih h with h1 | h1
        · left; exact List.mem_cons_of_mem _ h1
        · right; exact h1

theorem PathOK.snoc {c : Cfg} {E : Ecu} {σ : List Sess} {u : Sess} (h : PathOK c E σ)
    (hu : okp c E (top σ) u) (hs : u ∈ sessions) : PathOK c E (σ ++ [u]) := by
  obtain ⟨h1, h2, h3⟩ := h
  cases σ with
  | nil => cases h1
  | cons a l =>
    refine ⟨by simpa using h1, validPath_snoc _ _ _ (by simp) h2 hu.2, ?_⟩
    intro x hx
    simp only [List.cons_append, List.tail_cons, List.mem_append, List.mem_singleton] at hx
    rcases hx with hx | hx
    · exact h3 x (by simpa using hx)
    · subst hx; exact ⟨hu.1, hs⟩

/-- `m` positive, non-skipped session changes lead from `p` to `u` -/
inductive Steps (c : Cfg) (E : Ecu) : Nat → Sess → Sess → Prop where
  | zero (p : Sess) : Steps c E 0 p p
  | step {m : Nat} {p q u : Sess} : okp c E p q → q ∈ sessions → Steps c E m q u → Steps c E (m + 1) p u

theorem Steps.snoc {c : Cfg} {E : Ecu} {m : Nat} {p q u : Sess} (h : Steps c E m p q)
    (hq : okp c E q u) (hu : u ∈ sessions) : Steps c E (m + 1) p u := by
  induction h with
  | zero p => exact .step hq hu (.zero u)
  | step h1 h2 _ ih => exact .step h1 h2 (ih hq)

theorem steps_of_reachIn {c : Cfg} {E : Ecu} {k : Nat} {u : Sess} (h : ReachIn (edge c E) c.skip k u) :
    Steps c E k 1 u := by
  induction h with
  | zero => exact .zero 1
  | step _ hg hs hm ih => exact ih.snoc ⟨hs, hg⟩ hm

theorem reachIn_extend {c : Cfg} {E : Ecu} (rest : List Sess) (p : Sess) (k : Nat)
    (hr : ReachIn (edge c E) c.skip k p) (hv : ValidPath (edge c E) (p :: rest))
    (hok : ∀ x ∈ rest, x ∉ c.skip ∧ x ∈ sessions) :
    ReachIn (edge c E) c.skip (k + rest.length) (top (p :: rest)) := by
  induction rest generalizing p k with
  | nil => simpa [top_singleton] using hr
  | cons q rest ih =>
    rw [top_cons_cons]
    have hq := hok q (List.mem_cons_self ..)
    have := ih q (k + 1) (.step hr hv.1 hq.1 hq.2) hv.2 (fun x hx => hok x (List.mem_cons_of_mem _ hx))
    simpa [Nat.add_assoc, Nat.add_comm 1] using this

theorem PathOK.reachIn {c : Cfg} {E : Ecu} {σ : List Sess} (h : PathOK c E σ) :
    ReachIn (edge c E) c.skip (σ.length - 1) (top σ) := by
  obtain ⟨h1, h2, h3⟩ := h
  cases σ with
  | nil => cases h1
  | cons a l =>
    have ha : a = 1 := by simpa using h1
    subst ha
    have := reachIn_extend (c := c) (E := E) l 1 0 .zero h2 (by simpa using h3)
    simpa using this

/-! ### invariants -/

/-- invariant while the stacks `F` (all of length `j + 1`) of one level are being processed -/
structure MidInv (c : Cfg) (E : Ecu) (j : Nat) (F : List (List Sess)) (st : St) : Prop where
  found_ok : ∀ σ ∈ st.found, PathOK c E σ ∧ σ.length = j + 2
  pos_ok : ∀ e ∈ st.pos, PathOK c E e.2 ∧ okp c E (top e.2) e.1 ∧ e.1 ∈ sessions ∧ e.2.length ≤ j + 1
  reported : ∀ p ∈ st.searched, ∀ u ∈ sessions, okp c E p u → ∃ σ, (u, σ) ∈ st.pos
  closed : ∀ p ∈ st.searched, ∀ u ∈ sessions, okp c E p u →
    u ∈ st.searched ∨ (∃ σ ∈ st.found, top σ = u) ∨ (∃ σ ∈ F, top σ = u)
  below_found : ∀ σ ∈ st.found, ∀ x ∈ σ.dropLast, x ∈ st.searched
  below_F : ∀ σ ∈ F, ∀ x ∈ σ.dropLast, x ∈ st.searched
  nodup : c.thorough = false → st.searched.Nodup
  searched_in : ∀ x ∈ st.searched, x ∈ sessions

theorem one_mem_sessions : 1 ∈ sessions := by
  simp [sessions]

theorem top_mem_self (σ : List Sess) (hne : σ ≠ []) : top σ ∈ σ := by
  induction σ with
  | nil => exact absurd rfl hne
  | cons a l ih =>
    cases l with
    | nil => rw [top_singleton]; exact List.mem_cons_self ..
    | cons b l => rw [top_cons_cons]; exact List.mem_cons_of_mem _ (ih (by simp))

theorem PathOK.top_mem {c : Cfg} {E : Ecu} {σ : List Sess} (h : PathOK c E σ) : top σ ∈ sessions := by
  obtain ⟨h1, _, h3⟩ := h
  cases σ with
  | nil => cases h1
  | cons a l =>
    have ha : a = 1 := by simpa using h1
    subst ha
    cases l with
    | nil => rw [top_singleton]; exact one_mem_sessions
    | cons b l =>
      rw [top_cons_cons]
      exact (h3 _ (by simpa using top_mem_self (b :: l) (by simp))).2

theorem midInv_step (c : Cfg) (E : Ecu) (j : Nat) (F : List (List Sess)) (a b : St) (σ : List Sess)
    (hF : ∀ σ ∈ F, PathOK c E σ ∧ σ.length = j + 1) (hσ : σ ∈ F)
    (inv : MidInv c E j F a) (ch : StackChar c E σ a b) :
    MidInv c E j F b ∧ top σ ∈ b.searched ∧ (∀ x ∈ a.searched, x ∈ b.searched) := by
  obtain ⟨_, ch⟩ := ch
  rcases ch with ⟨_, hin, rfl⟩ | ⟨hno, hs, hp, hf⟩
  · exact ⟨inv, hin, fun _ h => h⟩
  · obtain ⟨hpath, hlen⟩ := hF σ hσ
    have hsub : ∀ x ∈ a.searched, x ∈ b.searched := by
      intro x hx; rw [hs]; exact List.mem_append_left _ hx
    have htop : top σ ∈ b.searched := by rw [hs]; simp
    refine ⟨⟨?_, ?_, ?_, ?_, ?_, ?_, ?_, ?_⟩, htop, hsub⟩
    · -- found_ok
      intro σ' h'
      rw [hf] at h'
      rcases List.mem_append.1 h' with h' | h'
      · exact inv.found_ok σ' h'
      · simp only [List.mem_map, List.mem_filter] at h'
        obtain ⟨u, ⟨hu, _⟩, rfl⟩ := h'
        have hu' := mem_succs.1 hu
        exact ⟨hpath.snoc hu'.2 hu'.1, by simp [hlen]⟩
    · -- pos_ok
      intro e he
      rw [hp] at he
      rcases List.mem_append.1 he with he | he
      · exact inv.pos_ok e he
      · simp only [List.mem_map] at he
        obtain ⟨u, hu, rfl⟩ := he
        have hu' := mem_succs.1 hu
        exact ⟨hpath, hu'.2, hu'.1, by simp [hlen]⟩
    · -- reported
      intro p hp' u hu hok
      rw [hs] at hp'
      rcases List.mem_append.1 hp' with h1 | h1
      · obtain ⟨τ, hτ⟩ := inv.reported p h1 u hu hok
        exact ⟨τ, by rw [hp]; exact List.mem_append_left _ hτ⟩
      · simp only [List.mem_singleton] at h1
        subst h1
        refine ⟨σ, ?_⟩
        rw [hp]
        apply List.mem_append_right
        simp only [List.mem_map]
        exact ⟨u, mem_succs.2 ⟨hu, hok⟩, rfl⟩
    · -- closed
      intro p hp' u hu hok
      rw [hs] at hp'
      rcases List.mem_append.1 hp' with h1 | h1
      · rcases inv.closed p h1 u hu hok with h2 | ⟨τ, hτ, ht⟩ | h2
        · exact Or.inl (hsub u h2)
        · exact Or.inr (Or.inl ⟨τ, by rw [hf]; exact List.mem_append_left _ hτ, ht⟩)
        · exact Or.inr (Or.inr h2)
      · simp only [List.mem_singleton] at h1
        subst h1
        by_cases hcyc : c.thorough = true ∨ u ∉ σ
        · right; left
          refine ⟨σ ++ [u], ?_, top_snoc σ u⟩
          rw [hf]
          apply List.mem_append_right
          simp only [List.mem_map, List.mem_filter]
          exact ⟨u, ⟨mem_succs.2 ⟨hu, hok⟩, by simpa using hcyc⟩, rfl⟩
        · left
          have hmem : u ∈ σ := by
            by_cases h : u ∈ σ
            · exact h
            · exact absurd (Or.inr h) hcyc
          rcases mem_dropLast_or_top σ u hmem with h2 | h2
          · exact hsub u (inv.below_F σ hσ u h2)
          · rw [h2]; exact htop
    · -- below_found
      intro σ' h' x hx
      rw [hf] at h'
      rcases List.mem_append.1 h' with h' | h'
      · exact hsub x (inv.below_found σ' h' x hx)
      · simp only [List.mem_map, List.mem_filter] at h'
        obtain ⟨u, _, rfl⟩ := h'
        rw [List.dropLast_concat] at hx
        rcases mem_dropLast_or_top σ x hx with h2 | h2
        · exact hsub x (inv.below_F σ hσ x h2)
        · rw [h2]; exact htop
    · -- below_F
      intro τ hτ x hx
      exact hsub x (inv.below_F τ hτ x hx)
    · -- nodup
      intro hth
      rw [hs]
      have hnot : top σ ∉ a.searched := fun h => hno ⟨hth, h⟩
      rw [List.nodup_append]
      refine ⟨inv.nodup hth, by simp, ?_⟩
      intro x hx y hy
      simp only [List.mem_singleton] at hy
      subst hy
      intro hxy; subst hxy; exact hnot hx
    · -- searched_in
      intro x hx
      rw [hs] at hx
      rcases List.mem_append.1 hx with h1 | h1
      · exact inv.searched_in x h1
      · simp only [List.mem_singleton] at h1
        rw [h1]; exact hpath.top_mem

/-- processing the stacks `L ⊆ F` one after the other -/
theorem midInv_fold (c : Cfg) (E : Ecu) (j : Nat) (F L : List (List Sess)) (st : St)
    (hF : ∀ σ ∈ F, PathOK c E σ ∧ σ.length = j + 1) (hL : ∀ σ ∈ L, σ ∈ F)
    (hab : st.aborted = false) (inv : MidInv c E j F st) :
    (L.foldl (processStack c E) st).aborted = true ∨
    (MidInv c E j F (L.foldl (processStack c E) st) ∧ (L.foldl (processStack c E) st).aborted = false ∧
      (∀ x ∈ st.searched, x ∈ (L.foldl (processStack c E) st).searched) ∧
      ∀ σ ∈ L, top σ ∈ (L.foldl (processStack c E) st).searched) := by
  induction L generalizing st with
  | nil => exact Or.inr ⟨inv, hab, fun _ h => h, fun _ h => by cases h⟩
  | cons σ L ih =>
    rw [List.foldl_cons]
    have hσ := hL σ (List.mem_cons_self ..)
    obtain ⟨_, _, h1⟩ := processStack_spec c E st σ (hF σ hσ).1.stackOK hab
    rcases h1 with h1 | h1
    · rw [processFold_aborted _ _ _ _ h1]; exact Or.inl h1
    · obtain ⟨inv1, t1, s1⟩ := midInv_step c E j F st _ σ hF hσ inv h1
      rcases ih (processStack c E st σ) (fun x hx => hL x (List.mem_cons_of_mem _ hx)) h1.1 inv1 with h2 | ⟨i2, a2, s2, t2⟩
      · exact Or.inl h2
      · refine Or.inr ⟨i2, a2, fun x hx => s2 x (s1 x hx), ?_⟩
        intro τ hτ
        rcases List.mem_cons.1 hτ with h | h
        · rw [h]; exact s2 _ t1
        · exact t2 τ h

/-- invariant between two levels: `st.found` is the frontier of stacks with `j` session changes -/
structure LvlInv (c : Cfg) (E : Ecu) (j : Nat) (st : St) : Prop where
  found_ok : ∀ σ ∈ st.found, PathOK c E σ ∧ σ.length = j + 1
  pos_ok : ∀ e ∈ st.pos, PathOK c E e.2 ∧ okp c E (top e.2) e.1 ∧ e.1 ∈ sessions ∧ e.2.length ≤ j
  reported : ∀ p ∈ st.searched, ∀ u ∈ sessions, okp c E p u → ∃ σ, (u, σ) ∈ st.pos
  closed : ∀ p ∈ st.searched, ∀ u ∈ sessions, okp c E p u → u ∈ st.searched ∨ ∃ σ ∈ st.found, top σ = u
  below : ∀ σ ∈ st.found, ∀ x ∈ σ.dropLast, x ∈ st.searched
  nodup : c.thorough = false → st.searched.Nodup
  searched_in : ∀ x ∈ st.searched, x ∈ sessions

theorem lvlInv_init (c : Cfg) (E : Ecu) : LvlInv c E 0 initSt := by
  refine ⟨?_, ?_, ?_, ?_, ?_, ?_, ?_⟩
  · intro σ hσ
    simp only [initSt, List.mem_singleton] at hσ
    subst hσ
    exact ⟨⟨rfl, trivial, fun x hx => by cases hx⟩, rfl⟩
  · intro e he; cases he
  · intro p hp; cases hp
  · intro p hp; cases hp
  · intro σ hσ x hx
    simp only [initSt, List.mem_singleton] at hσ
    subst hσ
    cases hx
  · intro _; exact List.nodup_nil
  · intro x hx; cases hx

theorem level_spec (c : Cfg) (E : Ecu) (j : Nat) (st : St) (hab : st.aborted = false)
    (inv : LvlInv c E j st) :
    (level c E st).aborted = true ∨
    (LvlInv c E (j + 1) (level c E st) ∧ (level c E st).aborted = false ∧
      (∀ x ∈ st.searched, x ∈ (level c E st).searched) ∧
      ∀ σ ∈ st.found, top σ ∈ (level c E st).searched) := by
  have mid : MidInv c E j st.found { st with found := [] } :=
    { found_ok := fun σ h => by cases h
      pos_ok := fun e he => by
        obtain ⟨a, b, d, f⟩ := inv.pos_ok e he
        exact ⟨a, b, d, Nat.le_succ_of_le f⟩
      reported := inv.reported
      closed := fun p hp u hu hok => by
        rcases inv.closed p hp u hu hok with h | h
        · exact Or.inl h
        · exact Or.inr (Or.inr h)
      below_found := fun σ h => by cases h
      below_F := inv.below
      nodup := inv.nodup
      searched_in := inv.searched_in }
  rcases midInv_fold c E j st.found st.found { st with found := [] } inv.found_ok (fun _ h => h) hab mid with
    h | ⟨i, a, s, t⟩
  · exact Or.inl h
  · refine Or.inr ⟨⟨i.found_ok, i.pos_ok, i.reported, ?_, i.below_found, i.nodup, i.searched_in⟩, a, s, t⟩
    intro p hp u hu hok
    rcases i.closed p hp u hu hok with h | h | ⟨τ, hτ, ht⟩
    · exact Or.inl h
    · exact Or.inr h
    · left; rw [← ht]; exact t τ hτ

theorem level_aborted (c : Cfg) (E : Ecu) (st : St) (h : st.aborted = true) :
    (level c E st).aborted = true := by
  unfold level
  rw [processFold_aborted _ _ _ _ (by exact h)]
  exact h

theorem scanLoop_aborted (c : Cfg) (E : Ecu) (n : Nat) (st : St) (h : st.aborted = true) :
    (scanLoop c E n st).aborted = true := by
  induction n generalizing st with
  | zero => exact h
  | succ n ih =>
    unfold scanLoop
    split
    · exact h
    · exact ih _ (level_aborted c E st h)

/-- a set of sessions closed under positive non-skipped changes contains everything reachable from it -/
theorem steps_closed {c : Cfg} {E : Ecu} {S : List Sess}
    (hcl : ∀ p ∈ S, ∀ u ∈ sessions, okp c E p u → u ∈ S) {m : Nat} {p u : Sess}
    (h : Steps c E m p u) (hp : p ∈ S) : u ∈ S := by
  induction h with
  | zero p => exact hp
  | step h1 h2 _ ih => exact ih (hcl _ hp _ h2 h1)

/-- the whole loop: bookkeeping invariant at the end, and every session within `n - 1` changes of the
    frontier-or-searched set has been expanded -/
theorem scanLoop_spec (c : Cfg) (E : Ecu) (n j : Nat) (st : St) (hab : st.aborted = false)
    (inv : LvlInv c E j st) :
    (scanLoop c E n st).aborted = true ∨
    ((∃ j', j' ≤ j + n ∧ LvlInv c E j' (scanLoop c E n st)) ∧ (scanLoop c E n st).aborted = false ∧
      (∀ x ∈ st.searched, x ∈ (scanLoop c E n st).searched) ∧
      ∀ m p u, (p ∈ st.searched ∨ ∃ σ ∈ st.found, top σ = p) → Steps c E m p u → m + 1 ≤ n →
        u ∈ (scanLoop c E n st).searched) := by
  induction n generalizing j st with
  | zero =>
    refine Or.inr ⟨⟨j, Nat.le_refl _, inv⟩, hab, fun _ h => h, ?_⟩
    intro m p u _ _ hm
    omega
  | succ n ih =>
    unfold scanLoop
    by_cases hemp : st.found.isEmpty = true
    · rw [if_pos hemp]
      have hnil : st.found = [] := by simpa using hemp
      refine Or.inr ⟨⟨j, by omega, inv⟩, hab, fun _ h => h, ?_⟩
      intro m p u hp hst _
      have hcl : ∀ p ∈ st.searched, ∀ u ∈ sessions, okp c E p u → u ∈ st.searched := by
        intro p hp u hu hok
        rcases inv.closed p hp u hu hok with h | ⟨τ, hτ, _⟩
        · exact h
        · rw [hnil] at hτ; cases hτ
      rcases hp with hp | ⟨τ, hτ, _⟩
      · exact steps_closed hcl hst hp
      · rw [hnil] at hτ; cases hτ
    · rw [if_neg hemp]
      rcases level_spec c E j st hab inv with h1 | ⟨i1, a1, s1, t1⟩
      · exact Or.inl (scanLoop_aborted c E n _ h1)
      · rcases ih (j + 1) (level c E st) a1 i1 with h2 | ⟨⟨j', hj', i2⟩, a2, s2, r2⟩
        · exact Or.inl h2
        · refine Or.inr ⟨⟨j', by omega, i2⟩, a2, fun x hx => s2 x (s1 x hx), ?_⟩
          intro m p u hp hst hm
          have hp1 : p ∈ (level c E st).searched := by
            rcases hp with hp | ⟨τ, hτ, ht⟩
            · exact s1 p hp
            · rw [← ht]; exact t1 τ hτ
          cases hst with
          | zero => exact s2 _ hp1
          | step hq1 hq2 hrest =>
            rename_i m' q
            refine r2 m' q u ?_ hrest (by omega)
            exact i1.closed p hp1 q hq2 hq1

/-! ### never giving up -/

/-- every session answers `10 01` positively -/
def DefaultReentry (g : Sess → Sess → Ans) : Prop := ∀ s, g s 1 = .pos

theorem PathOK.from_any {c : Cfg} {E : Ecu} {σ : List Sess} (h : PathOK c E σ) (hd : DefaultReentry (edge c E))
    (x : Sess) : ValidPath (edge c E) (x :: σ) := by
  obtain ⟨h1, h2, _⟩ := h
  cases σ with
  | nil => cases h1
  | cons a l =>
    have ha : a = 1 := by simpa using h1
    subst ha
    exact ⟨hd x, h2⟩

theorem probeOne_noabort (c : Cfg) (E : Ecu) (σ : List Sess) (acc : St × Bool) (s : Sess)
    (hrl : ResetLegal c E) (hval : ∀ x, ValidPath (edge c E) (x :: σ)) (hab : acc.1.aborted = false) :
    (probeOne c E σ acc s).1.aborted = false := by
  rw [probeOne_eq, if_neg (by simp [hab])]
  by_cases hs : s ∈ c.skip
  · rw [if_pos hs]; exact hab
  · rw [if_neg hs, if_neg (by simp [prepare_ok c E σ acc hrl hval])]
    have := (classify_spec c σ s (dsc c E .probe (top σ) s (prepare c E σ acc).1)).1
    rw [this, (dsc_same ..).2.2.2.2, (prepare_same ..).2.2.2.2]
    exact hab

theorem probeFold_noabort (c : Cfg) (E : Ecu) (σ ls : List Sess) (acc : St × Bool)
    (hrl : ResetLegal c E) (hval : ∀ x, ValidPath (edge c E) (x :: σ)) (hab : acc.1.aborted = false) :
    (ls.foldl (probeOne c E σ) acc).1.aborted = false := by
  induction ls generalizing acc with
  | nil => exact hab
  | cons s ls ih => rw [List.foldl_cons]; exact ih _ (probeOne_noabort c E σ acc s hrl hval hab)

theorem processStack_noabort (c : Cfg) (E : Ecu) (st : St) (σ : List Sess) (hrl : ResetLegal c E)
    (hval : ∀ x, ValidPath (edge c E) (x :: σ)) (hab : st.aborted = false) :
    (processStack c E st σ).aborted = false := by
  rw [processStack_eq, if_neg (by simp [hab])]
  split
  · exact hab
  · exact probeFold_noabort c E σ sessions _ hrl hval hab

theorem processFold_noabort (c : Cfg) (E : Ecu) (L : List (List Sess)) (st : St) (hrl : ResetLegal c E)
    (hL : ∀ σ ∈ L, ∀ x, ValidPath (edge c E) (x :: σ)) (hab : st.aborted = false) :
    (L.foldl (processStack c E) st).aborted = false := by
  induction L generalizing st with
  | nil => exact hab
  | cons σ L ih =>
    rw [List.foldl_cons]
    exact ih _ (fun τ hτ => hL τ (List.mem_cons_of_mem _ hτ))
      (processStack_noabort c E st σ hrl (hL σ (List.mem_cons_self ..)) hab)

theorem scanLoop_noabort (c : Cfg) (E : Ecu) (hd : DefaultReentry (edge c E)) (hrl : ResetLegal c E) (n j : Nat) (st : St)
    (hab : st.aborted = false) (inv : LvlInv c E j st) : (scanLoop c E n st).aborted = false := by
  induction n generalizing j st with
  | zero => exact hab
  | succ n ih =>
    unfold scanLoop
    split
    · exact hab
    · have h1 : (level c E st).aborted = false := by
        unfold level
        exact processFold_noabort c E st.found _ hrl (fun σ hσ => (inv.found_ok σ hσ).1.from_any hd) hab
      rcases level_spec c E j st hab inv with h2 | ⟨i1, _, _, _⟩
      · rw [h1] at h2; cases h2
      · exact ih (j + 1) _ h1 i1

end Gallia.SessionScan
