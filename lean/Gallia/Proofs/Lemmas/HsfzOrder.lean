import Gallia.Proofs.Lemmas.HsfzSys
/-
  Helper lemmas for C07 (HSFZ): the payloads handed out by reads, over whole executions.

  `arrived cfg s extra` is an invariant of every operation except the arrival of bytes: the payloads already handed
  out by reads, followed by the ECU -> tester payloads still on their way (held by the blocked consumer, queued, or
  complete in the receive buffer once `extra` has arrived), in arrival order.
-/
namespace Gallia.Hsfz
open Gallia Gallia.Framing

/-- payloads returned by successful reads, in completion order -/
def delivered (done : List (Nat × Res)) : List Bytes :=
  done.filterMap (fun p => match p.2 with | .data d => some d | _ => none)

/-- frames the blocked consumer has taken off the queue and holds in its local list -/
def held : Client → List Item
  | .idle => []
  | .ackWait _ sk _ _ => sk
  | .reading sk _ => sk

def arrived (cfg : Cfg) (s : Sys) (extra : Bytes) : List Bytes :=
  delivered s.done ++ dataOf cfg (held s.client ++ (s.queue ++ items (parseAll hsfzCutter (s.buf ++ extra)).1))

/-- a blocked read holds no frame it could have delivered, and neither do the frames a read has put back behind the
    end-of-stream marker -/
def WF (cfg : Cfg) (s : Sys) : Prop :=
  (∀ sk c, s.client = .reading sk c → dataOf cfg sk = []) ∧ dataOf cfg s.behind = []

/-- bytes an operation adds to the stream -/
def Op.chunk : Op → Bytes
  | .feed c => c
  | _ => []

def fedBytes (ops : List Op) : Bytes := (ops.map Op.chunk).flatten

variable (cfg : Cfg)

theorem WF_idle (s : Sys) (h : s.client = .idle) (hb : dataOf cfg s.behind = []) : WF cfg s :=
  ⟨(by intro sk c h2; rw [h] at h2; cases h2), hb⟩

theorem WF_ack (s : Sys) {p : Bytes} {sk0 : List Item} {a : Nat} {c0 : Option Nat}
    (h : s.client = .ackWait p sk0 a c0) (hb : dataOf cfg s.behind = []) : WF cfg s :=
  ⟨(by intro sk c h2; rw [h] at h2; cases h2), hb⟩

@[simp] theorem dataOf_nil : dataOf cfg [] = [] := rfl

theorem dataOf_append (a b : List Item) : dataOf cfg (a ++ b) = dataOf cfg a ++ dataOf cfg b := by
  simp [dataOf, List.filter_append]

theorem dataOf_cons (x : Item) (q : List Item) : dataOf cfg (x :: q) = dataOf cfg [x] ++ dataOf cfg q := by
  rw [← List.singleton_append, dataOf_append]

theorem dataOf_word (cw : Nat) : dataOf cfg [.word cw] = [] := by simp [dataOf, dataMatches]

theorem dataOf_not_match (x : Item) (h : dataMatches cfg x = false) : dataOf cfg [x] = [] := by
  simp [dataOf, h]

theorem dataOf_match (x : Item) (h : dataMatches cfg x = true) : dataOf cfg [x] = [x.payload] := by
  simp [dataOf, h]

theorem dataOf_clean (q : List Item) (h : Clean (dataMatches cfg) q) : dataOf cfg q = [] := by
  simp only [dataOf, List.map_eq_nil_iff, List.filter_eq_nil_iff]
  intro x hx; simp [(h x hx).2]

theorem ackMatch_not_data (prev : Bytes) (x : Item) (h : ackMatches cfg prev x = true) : dataOf cfg [x] = [] := by
  apply dataOf_not_match
  cases x with
  | word cw => rfl
  | frame cw s t d =>
    simp only [ackMatches, Bool.and_eq_true, beq_iff_eq] at h
    simp [dataMatches, h.1.1.1, cwAck, cwData]

@[simp] theorem delivered_nil : delivered [] = [] := rfl

theorem delivered_append (a b : List (Nat × Res)) : delivered (a ++ b) = delivered a ++ delivered b := by
  simp [delivered, List.filterMap_append]

theorem delivered_data (t : Nat) (d : Bytes) : delivered [(t, .data d)] = [d] := rfl

theorem delivered_other (t : Nat) (r : Res) (h : ∀ d, r ≠ .data d) : delivered [(t, r)] = [] := by
  cases r <;> simp_all [delivered]

/-! ### the consumer's run -/

theorem clientRun_behind_of_not_read (s : Sys) (h : ∀ sk c, s.client ≠ .reading sk c) :
    (clientRun cfg s).behind = s.behind := by
  unfold clientRun Sys.finish
  split
  · rfl
  · split <;> rfl
  · rename_i sk c hc; exact absurd hc (h sk c)

theorem clientRun_arrived (s : Sys) (hwf : WF cfg s) :
    WF cfg (clientRun cfg s) ∧ ∀ extra, arrived cfg (clientRun cfg s) extra = arrived cfg s extra := by
  obtain ⟨hwf1, hwb⟩ := hwf
  cases hcl : s.client with
  | idle => rw [clientRun_idle cfg s hcl]; exact ⟨⟨hwf1, hwb⟩, fun _ => rfl⟩
  | ackWait prev sk a c =>
    have hb : (clientRun cfg s).behind = s.behind :=
      clientRun_behind_of_not_read cfg s (by intro sk2 c2 h; rw [hcl] at h; cases h)
    cases hs : scan (ackMatches cfg prev) sk s.queue with
    | more sk' =>
      obtain ⟨e, _⟩ := scan_more_inv hs
      rw [clientRun_ack_more cfg hcl hs]
      refine ⟨WF_ack cfg _ rfl hwb, fun extra => ?_⟩
      subst e
      simp [arrived, held, hcl, List.append_assoc]
    | hit x rest sk' =>
      obtain ⟨pre, e, e2, _, _, hm⟩ := scan_hit_inv hs
      rw [clientRun_ack_hit cfg hcl hs]
      refine ⟨WF_idle cfg _ rfl hwb, fun extra => ?_⟩
      subst e2
      simp only [arrived, Sys.finish, held, hcl, e, delivered_append,
        delivered_other _ (Res.wrote prev.length) (by intro d h; cases h), List.append_nil, List.nil_append,
        List.append_assoc, dataOf_append]
      rw [dataOf_cons cfg x, ackMatch_not_data cfg prev x hm]; simp
    | err cw rest sk' =>
      obtain ⟨pre, e, e2, _⟩ := scan_err_inv hs
      rw [clientRun_ack_err cfg hcl hs]
      refine ⟨WF_idle cfg _ rfl hwb, fun extra => ?_⟩
      subst e2
      simp only [arrived, Sys.finish, held, hcl, e, delivered_append,
        delivered_other _ (Res.errWord cw) (by intro d h; cases h), List.append_nil, List.nil_append,
        List.append_assoc, dataOf_append]
      rw [dataOf_cons cfg (.word cw), dataOf_word]; simp
  | reading sk c =>
    have hsk : dataOf cfg sk = [] := hwf1 sk c hcl
    cases hs : scan (dataMatches cfg) sk s.queue with
    | more sk' =>
      obtain ⟨e, hc⟩ := scan_more_inv hs
      rw [clientRun_read_more cfg hcl hs]
      subst e
      refine ⟨⟨?_, hwb⟩, fun extra => ?_⟩
      · intro sk2 c2 h
        simp only [Client.reading.injEq] at h
        rw [← h.1, dataOf_append, hsk, dataOf_clean cfg _ hc]; rfl
      · simp [arrived, held, hcl, List.append_assoc]
    | hit x rest sk' =>
      obtain ⟨pre, e, e2, hc, _, hm⟩ := scan_hit_inv hs
      rw [clientRun_read_hit cfg hcl hs]
      subst e2
      have hskp : dataOf cfg (sk ++ pre) = [] := by rw [dataOf_append, hsk, dataOf_clean cfg _ hc]; rfl
      refine ⟨WF_idle cfg _ rfl ?_, fun extra => ?_⟩
      · show dataOf cfg (if s.eof then s.behind ++ (sk ++ pre) else s.behind) = []
        split
        · rw [dataOf_append, hwb, hskp]; rfl
        · exact hwb
      · simp only [arrived, Sys.finish, held, hcl, e, delivered_append, delivered_data, List.nil_append,
          List.append_assoc, dataOf_append, hsk, dataOf_clean cfg _ hc]
        rw [dataOf_cons cfg x, dataOf_match cfg x hm]
        split
        · simp
        · simp [dataOf_append, hskp]
    | err cw rest sk' =>
      obtain ⟨pre, e, e2, hc⟩ := scan_err_inv hs
      rw [clientRun_read_err cfg hcl hs]
      refine ⟨WF_idle cfg _ rfl hwb, fun extra => ?_⟩
      simp only [arrived, Sys.finish, held, hcl, e, delivered_append,
        delivered_other _ (Res.errWord cw) (by intro d h; cases h), List.append_nil, List.nil_append,
        List.append_assoc, dataOf_append, hsk, dataOf_clean cfg _ hc]
      rw [dataOf_cons cfg (.word cw), dataOf_word]; simp

/-! ### the reader task's step -/

theorem deliver_arrived (s : Sys) {w : Wire} {rest : Bytes} (hc : cutWire s.buf = some (w, rest)) (extra : Bytes) :
    arrived cfg (deliver cfg { s with buf := rest } w) extra = arrived cfg s extra := by
  have hm : hsfzCutter.cut (s.buf ++ extra) = some (w, rest ++ extra) := by
    simpa [hsfzCutter] using cutWire_mono extra hc
  unfold arrived
  rw [parseAll_some hsfzCutter hm]
  simp only [deliver_done, deliver_client, deliver_queue, deliver_buf', items_cons, List.append_assoc]

theorem deliver_behind (s : Sys) (w : Wire) : (deliver cfg s w).behind = s.behind := by
  unfold deliver; split <;> rfl

theorem deliver_WF (s : Sys) (w : Wire) (rest : Bytes) (h : WF cfg s) : WF cfg (deliver cfg { s with buf := rest } w) := by
  refine ⟨?_, by rw [deliver_behind]; exact h.2⟩
  intro sk c hcl
  exact h.1 sk c (by simpa using hcl)

/-! ### the schedule -/

theorem settle_arrived (yields : Wire → Bool) (s : Sys) (hwf : WF cfg s) :
    WF cfg (settle cfg yields s) ∧ ∀ extra, arrived cfg (settle cfg yields s) extra = arrived cfg s extra := by
  generalize hn : s.buf.length = n
  induction n using Nat.strongRecOn generalizing s with
  | _ n ih =>
    by_cases ho : (s.closed || s.eof) = true
    · rw [settle_stopped cfg yields s ho]; exact ⟨hwf, fun _ => rfl⟩
    · have ho : (s.closed || s.eof) = false := by simpa using ho
      cases hc : cutWire s.buf with
      | none => rw [settle_none cfg yields s ho hc]; exact clientRun_arrived cfg s hwf
      | some p =>
        obtain ⟨w, rest⟩ := p
        have hl := cutWire_shrinks hc
        have hwf1 := deliver_WF cfg s w rest hwf
        have ha1 := deliver_arrived cfg s hc
        rw [settle_some cfg yields s ho hc]
        by_cases hy : yields w = true
        · rw [if_pos hy]
          obtain ⟨hwf2, ha2⟩ := clientRun_arrived cfg _ hwf1
          obtain ⟨hwf3, ha3⟩ := ih _ (by rw [← hn]; exact hl) (clientRun cfg (deliver cfg { s with buf := rest } w)) hwf2 (by simp)
          exact ⟨hwf3, fun extra => by rw [ha3, ha2, ha1]⟩
        · rw [if_neg hy]
          obtain ⟨hwf3, ha3⟩ := ih _ (by rw [← hn]; exact hl) (deliver cfg { s with buf := rest } w) hwf1 (by simp)
          exact ⟨hwf3, fun extra => by rw [ha3, ha1]⟩

/-! ### timers -/

theorem fire_arrived (s : Sys) (target : Nat) (hwf : WF cfg s) :
    WF cfg (fire s target) ∧ ∀ extra, arrived cfg (fire s target) extra = arrived cfg s extra := by
  obtain ⟨hwf1, hwb⟩ := hwf
  have wfIdle : ∀ t : Sys, t.client = .idle → t.behind = s.behind → WF cfg t := by
    intro t ht hb; exact WF_idle cfg t ht (by rw [hb]; exact hwb)
  cases hcl : s.client with
  | idle =>
    have : fire s target = s := by simp [fire, hcl]
    rw [this]; exact ⟨⟨hwf1, hwb⟩, fun _ => rfl⟩
  | ackWait prev sk a c =>
    have tmo : delivered [(a, Res.noAck)] = [] := rfl
    cases c with
    | none =>
      simp only [fire, hcl]
      split
      · refine ⟨wfIdle _ rfl rfl, fun extra => ?_⟩
        simp [arrived, Sys.finish, held, hcl, delivered_append, tmo, List.append_assoc]
      · exact ⟨⟨hwf1, hwb⟩, fun _ => rfl⟩
    | some ct =>
      simp only [fire, hcl]
      split
      · refine ⟨wfIdle _ rfl rfl, fun extra => ?_⟩
        have : delivered [(ct, Res.timeout)] = [] := rfl
        simp [arrived, Sys.finish, held, hcl, delivered_append, this, List.append_assoc]
      · split
        · refine ⟨wfIdle _ rfl rfl, fun extra => ?_⟩
          simp [arrived, Sys.finish, held, hcl, delivered_append, tmo, List.append_assoc]
        · exact ⟨⟨hwf1, hwb⟩, fun _ => rfl⟩
  | reading sk c =>
    have hsk : dataOf cfg sk = [] := hwf1 sk c hcl
    cases c with
    | none =>
      have : fire s target = s := by simp [fire, hcl]
      rw [this]; exact ⟨⟨hwf1, hwb⟩, fun _ => rfl⟩
    | some ct =>
      simp only [fire, hcl]
      split
      · refine ⟨wfIdle _ rfl rfl, fun extra => ?_⟩
        have : delivered [(ct, Res.timeout)] = [] := rfl
        simp [arrived, Sys.finish, held, hcl, delivered_append, this, dataOf_append, hsk]
      · exact ⟨⟨hwf1, hwb⟩, fun _ => rfl⟩

/-! ### end of stream -/

theorem wake_arrived (s : Sys) (hwf : WF cfg s) :
    WF cfg (wake s) ∧ ∀ extra, arrived cfg (wake s) extra = arrived cfg s extra := by
  obtain ⟨hwf1, hwb⟩ := hwf
  have pc : ∀ t : Nat, delivered [(t, Res.peerClosed)] = [] := fun _ => rfl
  unfold wake
  split
  · cases hcl : s.client with
    | idle => simp only; exact ⟨⟨fun sk c h => hwf1 sk c (by rw [hcl] at h ⊢; exact h), hwb⟩, fun _ => trivial⟩
    | ackWait prev sk a c =>
      simp only
      refine ⟨WF_idle cfg _ rfl rfl, fun extra => ?_⟩
      simp [arrived, Sys.finish, held, hcl, delivered_append, pc, List.append_assoc, dataOf_append, hwb]
    | reading sk c =>
      have hsk : dataOf cfg sk = [] := hwf1 sk c hcl
      simp only
      refine ⟨WF_idle cfg _ rfl rfl, fun extra => ?_⟩
      simp [arrived, Sys.finish, held, hcl, delivered_append, pc, dataOf_append, hsk, hwb]
  · exact ⟨⟨hwf1, hwb⟩, fun _ => rfl⟩

/-! ### operations and executions -/

theorem isIdle_eq {c : Client} (h : isIdle c = true) : c = .idle := by
  cases c <;> simp_all [isIdle]

theorem execOp_arrived (yields : Wire → Bool) (s : Sys) (op : Op) (hwf : WF cfg s) :
    WF cfg (execOp cfg yields s op) ∧
    ∀ extra, arrived cfg (execOp cfg yields s op) extra = arrived cfg s (op.chunk ++ extra) := by
  have keepDone : ∀ r : Res, (∀ d, r ≠ .data d) →
      WF cfg { s with done := s.done ++ [(s.now, r)] } ∧
      ∀ extra, arrived cfg { s with done := s.done ++ [(s.now, r)] } extra = arrived cfg s extra := by
    intro r hr
    refine ⟨⟨fun sk c h => hwf.1 sk c h, hwf.2⟩, fun extra => ?_⟩
    simp [arrived, delivered_append, delivered_other _ r hr]
  cases op with
  | feed chunk =>
    have hwf0 : WF cfg { s with buf := s.buf ++ chunk } := ⟨fun sk c h => hwf.1 sk c h, hwf.2⟩
    obtain ⟨h1, h2⟩ := settle_arrived cfg yields { s with buf := s.buf ++ chunk } hwf0
    refine ⟨h1, fun extra => ?_⟩
    simp only [execOp]
    rw [h2]; simp [arrived, Op.chunk, List.append_assoc]
  | write data t =>
    simp only [execOp, Op.chunk, List.nil_append]
    split
    · exact keepDone _ (by intro d h; cases h)
    · rename_i hi
      have hidle : s.client = .idle := isIdle_eq (by simpa using hi)
      split
      · exact keepDone _ (by intro d h; cases h)
      · obtain ⟨h1, h2⟩ := clientRun_arrived cfg { s with out := s.out ++ [(s.now, requestBytes cfg data)], client := .ackWait data [] (s.now + cfg.ackTimeout) (t.map (s.now + ·)) } (WF_ack cfg _ rfl hwf.2)
        obtain ⟨h1w, h2w⟩ := wake_arrived cfg _ h1
        refine ⟨h1w, fun extra => ?_⟩
        rw [h2w, h2]; simp [arrived, held, hidle]
  | read t =>
    simp only [execOp, Op.chunk, List.nil_append]
    split
    · exact keepDone _ (by intro d h; cases h)
    · rename_i hi
      have hidle : s.client = .idle := isIdle_eq (by simpa using hi)
      split
      · exact keepDone _ (by intro d h; cases h)
      · have hwf0 : WF cfg { s with client := .reading [] (t.map (s.now + ·)) } := by
          refine ⟨?_, hwf.2⟩
          intro sk c h
          simp only [Client.reading.injEq] at h
          rw [← h.1]; rfl
        obtain ⟨h1, h2⟩ := clientRun_arrived cfg _ hwf0
        obtain ⟨h1w, h2w⟩ := wake_arrived cfg _ h1
        refine ⟨h1w, fun extra => ?_⟩
        rw [h2w, h2]; simp [arrived, held, hidle]
  | advance dt =>
    obtain ⟨h1, h2⟩ := fire_arrived cfg s (s.now + dt) hwf
    simp only [execOp, Op.chunk, List.nil_append]
    exact ⟨⟨fun sk c h => h1.1 sk c h, h1.2⟩, fun extra => by rw [← h2]; rfl⟩
  | eof =>
    simp only [execOp, Op.chunk, List.nil_append]
    have hwf0 : WF cfg { s with eof := true } := ⟨fun sk c h => hwf.1 sk c h, hwf.2⟩
    obtain ⟨h1w, h2w⟩ := wake_arrived cfg _ hwf0
    exact ⟨h1w, fun extra => by rw [h2w]; rfl⟩

theorem exec_arrived (yields : Wire → Bool) (ops : List Op) (s : Sys) (hwf : WF cfg s) :
    WF cfg (exec cfg yields s ops) ∧
    ∀ extra, arrived cfg (exec cfg yields s ops) extra = arrived cfg s (fedBytes ops ++ extra) := by
  induction ops generalizing s with
  | nil => exact ⟨hwf, fun extra => by simp [exec, fedBytes]⟩
  | cons op ops ih =>
    obtain ⟨h1, h2⟩ := execOp_arrived cfg yields s op hwf
    obtain ⟨h3, h4⟩ := ih (execOp cfg yields s op) h1
    refine ⟨by simpa [exec] using h3, fun extra => ?_⟩
    have : exec cfg yields s (op :: ops) = exec cfg yields (execOp cfg yields s op) ops := by simp [exec]
    rw [this, h4, h2]
    simp [fedBytes, List.append_assoc]

end Gallia.Hsfz
