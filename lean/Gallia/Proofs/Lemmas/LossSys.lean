import Gallia.Model.LossSys
import Gallia.Proofs.Lemmas.Loss
/-
  Helper lemmas for the whole-execution model of C08 (`Model/LossSys.lean`): what a wait does to the clock, to the wire
  log and to the connection; the time budget of every operation of the client loop.
-/
namespace Gallia.LossSys
open Gallia Gallia.Loss
open Gallia.Client (Ev Limits)

variable {Q : Type}

/-! ### waits -/

theorem applyPeer_now (P : SProto Q) (s : Sys Q) (pe : PEv) (h : ∀ ms, pe ≠ .advance ms) :
    (applyPeer P s pe).now = s.now := by
  cases pe <;> simp [applyPeer] <;> try (split <;> rfl)
  exact absurd rfl (h _)

theorem applyPeer_wire (P : SProto Q) (s : Sys Q) (pe : PEv) : (applyPeer P s pe).wire = s.wire := by
  cases pe <;> simp [applyPeer] <;> split <;> rfl

/-- a wait with a deadline ends, no later than the deadline (or at once when the deadline has passed) -/
theorem await_time (P : SProto Q) (ready : Sys Q → Bool) (d : Nat) (s : Sys Q) (es : List SEv) :
    (await P ready (some d) s es).1 ≠ .never ∧ (await P ready (some d) s es).2.1.now ≤ max s.now d := by
  induction es generalizing s with
  | nil => unfold await; split <;> simp <;> omega
  | cons e es ih =>
    unfold await
    split
    · simp; omega
    · split
      · rename_i ms
        simp only
        split
        · simp
        · have := ih { s with now := s.now + ms }
          simp only at this
          refine ⟨this.1, ?_⟩
          have h2 := this.2
          omega
      · rename_i pe hne
        have := ih (applyPeer P s pe)
        rw [applyPeer_now P s pe (by intro ms h; exact hne ms (by rw [h]))] at this
        exact this
      · simp

theorem await_wire (P : SProto Q) (ready : Sys Q → Bool) (dl : Option Nat) (s : Sys Q) (es : List SEv) :
    (await P ready dl s es).2.1.wire = s.wire := by
  induction es generalizing s with
  | nil =>
    unfold await
    split
    · rfl
    · split <;> rfl
  | cons e es ih =>
    unfold await
    split
    · rfl
    · split
      · split
        · split
          · rfl
          · rw [ih]
        · rw [ih]
      · rw [ih, applyPeer_wire]
      · split <;> rfl

theorem sleep_time (P : SProto Q) (ms : Nat) (s : Sys Q) (es : List SEv) : (sleep P ms s es).1.now ≤ s.now + ms := by
  have := (await_time P (fun _ => false) (s.now + ms) s es).2
  unfold sleep
  omega

theorem sleep_wire (P : SProto Q) (ms : Nat) (s : Sys Q) (es : List SEv) : (sleep P ms s es).1.wire = s.wire := by
  unfold sleep; exact await_wire ..

/-! ### write / read -/

theorem tryAck_res (P : SProto Q) (req : Bytes) (c c' : PConn Q) (r : PRes) (h : tryAck P req c = .done r c') :
    r = .connErr ∨ r = .wrote := by
  unfold tryAck at h
  repeat' split at h
  all_goals first | (cases h; simp) | cases h

theorem tryRead_res (P : SProto Q) (c c' : PConn Q) (r : PRes) (h : tryRead P c = .done r c') : r ≠ .blocked ∧ r ≠ .timeout := by
  unfold tryRead endOf at h
  repeat' split at h
  all_goals first | (cases h; simp) | cases h

theorem feed_idx (P : SProto Q) (c : PConn Q) (b : Bytes) : (c.feed P b).idx = c.idx := rfl

theorem putWire_now (P : SProto Q) (s : Sys Q) (req : Bytes) : (putWire P s req).now = s.now := by
  unfold putWire; simp only; split
  · split <;> rfl
  · rfl

theorem putWire_wire (P : SProto Q) (s : Sys Q) (req : Bytes) :
    (putWire P s req).wire = s.wire ++ [(s.conn.idx, s.now, req)] := by
  unfold putWire; simp only; split
  · split <;> rfl
  · rfl

theorem putWire_idx (P : SProto Q) (s : Sys Q) (req : Bytes) : (putWire P s req).conn.idx = s.conn.idx := by
  unfold putWire; simp only; split
  · split <;> rfl
  · rfl

theorem opWrite_wire (P : SProto Q) (s : Sys Q) (es : List SEv) (req : Bytes) (tmo : Option Nat) :
    (opWrite P s es req tmo).2.1.wire = s.wire ++ [(s.conn.idx, s.now, req)] := by
  unfold opWrite
  simp only
  split
  · simp [putWire_wire]
  · rename_i c hc
    generalize hr : await P (ackReady P req) _ _ es = r
    have hw : r.2.1.wire = (putWire P s req).wire := by rw [← hr, await_wire]
    obtain ⟨w, s1, es1⟩ := r
    simp only at hw
    cases w <;> simp only
    · split <;> simp [hw, putWire_wire]
    all_goals (split <;> (try split) <;> simp [closeConn, hw, putWire_wire])

theorem opWrite_time (P : SProto Q) (s : Sys Q) (es : List SEv) (req : Bytes) (t : Nat) :
    (opWrite P s es req (some t)).1 ≠ .blocked ∧ (opWrite P s es req (some t)).2.1.now ≤ s.now + min t P.ackTime := by
  unfold opWrite
  simp only
  split
  · rename_i r c hc
    have := tryAck_res P req _ _ _ hc
    simp [putWire_now]
    rcases this with h | h <;> simp [h]
  · rename_i c hc
    have ht := await_time P (ackReady P req) ((putWire P s req).now + min t P.ackTime) { putWire P s req with conn := c } es
    generalize await P (ackReady P req) _ _ es = r at ht
    obtain ⟨w, s1, es1⟩ := r
    simp only [putWire_now] at ht ⊢
    have h2 := ht.2
    cases w <;> simp only
    · split
      · rename_i r c2 hc2
        have := tryAck_res P req _ _ _ hc2
        refine ⟨by rcases this with h | h <;> simp [h], by simp; omega⟩
      · simp; omega
    all_goals (split <;> simp [closeConn] <;> omega)

theorem opRead_time (P : SProto Q) (s : Sys Q) (es : List SEv) (t : Nat) :
    (opRead P s es (some t)).1 ≠ .blocked ∧ (opRead P s es (some t)).2.1.now ≤ s.now + t := by
  unfold opRead
  split
  · rename_i r c hc
    exact ⟨(tryRead_res P _ _ _ hc).1, by simp⟩
  · have ht := await_time P (readReady P) (s.now + t) s es
    simp only [Option.map]
    generalize await P (readReady P) _ _ es = r at ht
    obtain ⟨w, s1, es1⟩ := r
    have h2 : s1.now ≤ max s.now (s.now + t) := ht.2
    cases w <;> simp only
    · split
      · rename_i r c2 hc2
        exact ⟨(tryRead_res P _ _ _ hc2).1, by simp; omega⟩
      · simp; omega
    · split <;> simp <;> omega
    · exact absurd rfl ht.1

theorem opRead_wire (P : SProto Q) (s : Sys Q) (es : List SEv) (tmo : Option Nat) :
    (opRead P s es tmo).2.1.wire = s.wire := by
  unfold opRead
  split
  · rfl
  · have hw := await_wire P (readReady P) (tmo.map (s.now + ·)) s es
    generalize await P (readReady P) _ _ es = r at hw
    obtain ⟨w, s1, es1⟩ := r
    cases w <;> simp only <;> (try split) <;> simp_all

theorem opRequest_time (P : SProto Q) (s : Sys Q) (es : List SEv) (req : Bytes) (t : Nat) :
    (opRequest P s es req (some t)).1 ≠ .blocked ∧
    (opRequest P s es req (some t)).2.1.now ≤ s.now + min t P.ackTime + t := by
  have hw := opWrite_time P s es req t
  unfold opRequest
  split
  · rename_i s1 es1 heq
    rw [heq] at hw
    have hr := opRead_time P s1 es1 t
    exact ⟨hr.1, by have := hw.2; have := hr.2; simp only at *; omega⟩
  · rename_i r hne
    exact ⟨hw.1, by have := hw.2; omega⟩

theorem opRequest_wire (P : SProto Q) (s : Sys Q) (es : List SEv) (req : Bytes) (tmo : Option Nat) :
    (opRequest P s es req tmo).2.1.wire = s.wire ++ [(s.conn.idx, s.now, req)] := by
  have hw := opWrite_wire P s es req tmo
  unfold opRequest
  split
  · rename_i s1 es1 heq
    rw [heq] at hw
    rw [opRead_wire]; exact hw
  · exact hw

/-! ### connection set-up -/

/-- the reconnect window of a transport: DoIP polls for 10 s, the others connect once -/
def window (P : SProto Q) : Nat := if P.kind == .doip then doipWindow else 0

theorem doipPoll_time (P : SProto Q) (wend : Nat) (fuel : Nat) (s : Sys Q) (es : List SEv) :
    (doipPoll P wend fuel s es).2.1.now ≤ max s.now wend := by
  induction fuel generalizing s es with
  | zero => simp only [doipPoll]; omega
  | succ n ih =>
    unfold doipPoll
    split
    · simp only; omega
    · split
      · simp only
        split
        · simp only [accept]; omega
        · have h1 := (await_time P (fun x => x.conn.closed || x.conn.streamEnded)
            (min ((accept P s).now + Doip.raTimeoutMs) wend) (accept P s) es).2
          generalize await P (fun x => x.conn.closed || x.conn.streamEnded) _ (accept P s) es = r1 at h1 ⊢
          have hacc : (accept P s).now = s.now := rfl
          split
          · simp only; omega
          · have h2 := (await_time P (fun _ => false) (min (r1.2.1.now + pollStep) wend)
              { r1.2.1 with conn := s.conn } r1.2.2).2
            generalize await P (fun _ => false) _ { r1.2.1 with conn := s.conn } r1.2.2 = r2 at h2 ⊢
            have := ih r2.2.1 r2.2.2
            simp only at h2
            omega
      · have h2 := (await_time P (fun _ => false) (min (s.now + pollStep) wend) (refuse s) es).2
        generalize await P (fun _ => false) _ (refuse s) es = r2 at h2 ⊢
        have := ih r2.2.1 r2.2.2
        have : (refuse s).now = s.now := rfl
        simp only at *
        omega

theorem doipPoll_wire (P : SProto Q) (wend : Nat) (fuel : Nat) (s : Sys Q) (es : List SEv) :
    (doipPoll P wend fuel s es).2.1.wire = s.wire := by
  induction fuel generalizing s es with
  | zero => simp [doipPoll]
  | succ n ih =>
    unfold doipPoll
    split
    · rfl
    · split
      · simp only
        split
        · rfl
        · split
          · simp only [await_wire]; rfl
          · rw [ih]; simp only [await_wire]; rfl
      · rw [ih, await_wire]; rfl

theorem reconnect_time (P : SProto Q) (s : Sys Q) (es : List SEv) : (reconnect P s es).2.1.now ≤ s.now + window P := by
  unfold reconnect window
  simp only
  split
  · have := doipPoll_time P ((closeConn s).now + doipWindow) (doipWindow / pollStep + 1) (closeConn s) es
    have h : (closeConn s).now = s.now := rfl
    rw [h] at this ⊢
    omega
  · split <;> simp [accept, refuse, closeConn]

theorem reconnect_wire (P : SProto Q) (s : Sys Q) (es : List SEv) : (reconnect P s es).2.1.wire = s.wire := by
  unfold reconnect
  simp only
  split
  · rw [doipPoll_wire]; rfl
  · split <;> rfl

/-! ### the ResponsePending loop -/

def PRes2.sys : PRes2 Q → Sys Q
  | .done _ s _ | .silence s _ | .lost s _ => s

/-- time budget of the pending loop from counters `np`, `nt` on -/
def pendBudget (lim : Limits) (mnt np nt : Nat) : Nat :=
  ((lim.maxPending - np) * (mnt + 2) + (mnt - nt) + 1) * lim.waiting

theorem pendBudget_base (lim : Limits) (mnt np nt : Nat) : lim.waiting ≤ pendBudget lim mnt np nt := by
  unfold pendBudget
  exact Nat.le_mul_of_pos_left _ (by omega)

theorem pendBudget_timeout (lim : Limits) (mnt np nt : Nat) (h : ¬ mnt ≤ nt + 1) :
    pendBudget lim mnt np (nt + 1) + lim.waiting ≤ pendBudget lim mnt np nt := by
  unfold pendBudget
  generalize (lim.maxPending - np) * (mnt + 2) = X
  have : X + (mnt - nt) + 1 = (X + (mnt - (nt + 1)) + 1) + 1 := by omega
  rw [this, Nat.add_mul (X + (mnt - (nt + 1)) + 1) 1]
  omega

theorem pendBudget_pending (lim : Limits) (mnt np nt : Nat) (h : ¬ lim.maxPending ≤ np + 1) :
    pendBudget lim mnt (np + 1) 0 + lim.waiting ≤ pendBudget lim mnt np nt := by
  unfold pendBudget
  obtain ⟨a, ha⟩ : ∃ a, lim.maxPending - np = a + 1 := ⟨lim.maxPending - np - 1, by omega⟩
  have h1 : lim.maxPending - (np + 1) = a := by omega
  rw [ha, h1, Nat.succ_mul a (mnt + 2)]
  generalize a * (mnt + 2) = X
  have e1 : (X + (mnt - 0) + 1) * lim.waiting + lim.waiting = (X + (mnt - 0) + 1 + 1) * lim.waiting := by
    rw [Nat.add_mul (X + (mnt - 0) + 1) 1]; omega
  rw [e1]
  exact Nat.mul_le_mul_right _ (by omega)

theorem rd_now {P : SProto Q} {s : Sys Q} {es : List SEv} {t : Nat} {r : PRes} {s1 : Sys Q} {es1 : List SEv}
    (h : opRead P s es (some t) = (r, s1, es1)) : s1.now ≤ s.now + t ∧ s1.wire = s.wire ∧ r ≠ .blocked := by
  have ht := opRead_time P s es t
  have hw := opRead_wire P s es (some t)
  rw [h] at ht hw
  exact ⟨ht.2, hw, ht.1⟩

theorem pendLoop_spec (P : SProto Q) (cls : Bytes → Ev) (lim : Limits) (mnt : Nat) (s : Sys Q) (es : List SEv) (np nt : Nat) :
    (pendLoop P cls lim mnt s es np nt).sys.now ≤ s.now + pendBudget lim mnt np nt ∧
    (pendLoop P cls lim mnt s es np nt).sys.wire = s.wire ∧
    (∀ s' es', pendLoop P cls lim mnt s es np nt ≠ .done .blocked s' es') := by
  fun_induction pendLoop P cls lim mnt s es np nt
  case case2 s es np nt s1 es1 heq h ih =>
    obtain ⟨h1, h2, h3⟩ := rd_now heq
    have hb1 := pendBudget_timeout lim mnt np nt h
    obtain ⟨i1, i2, i3⟩ := ih
    exact ⟨by omega, by rw [i2, h2], i3⟩
  case case7 s es np nt d s1 es1 hd heq hcls h ih =>
    obtain ⟨h1, h2, h3⟩ := rd_now heq
    have hb1 := pendBudget_pending lim mnt np nt h
    obtain ⟨i1, i2, i3⟩ := ih
    exact ⟨by omega, by rw [i2, h2], i3⟩
  all_goals
    obtain ⟨h1, h2, h3⟩ := rd_now ‹opRead P _ _ (some lim.waiting) = _›
    have hb := pendBudget_base lim mnt
    first
    | exact absurd rfl h3
    | (refine ⟨Nat.le_trans h1 (Nat.add_le_add_left (hb _ _) _), h2, ?_⟩
       intro s' es' hc; cases hc)

/-! ### one attempt -/

def Step.sys : Step Q → Sys Q
  | .fin _ s _ | .next s _ _ => s

theorem afterLoss_spec (P : SProto Q) (lim : Limits) (retry : Bool) (i : Nat) (s : Sys Q) (es : List SEv) :
    (afterLoss P lim retry i s es).sys.now ≤ s.now + (if retry then waitMs lim i + window P else 0) ∧
    (afterLoss P lim retry i s es).sys.wire = s.wire ∧
    (∀ s' es', afterLoss P lim retry i s es ≠ .fin .blocked s' es') := by
  cases retry
  · simp [afterLoss, Step.sys]
  · simp only [afterLoss, if_true]
    have h1 := sleep_time P (waitMs lim i) s es
    have w1 := sleep_wire P (waitMs lim i) s es
    generalize sleep P (waitMs lim i) s es = r1 at h1 w1 ⊢
    have h2 := reconnect_time P r1.1 r1.2
    have w2 := reconnect_wire P r1.1 r1.2
    generalize reconnect P r1.1 r1.2 = r2 at h2 w2 ⊢
    obtain ⟨rc, s2, es2⟩ := r2
    simp only at h2 w2
    cases rc <;> simp only [Step.sys] <;> refine ⟨by omega, by rw [w2, w1], ?_⟩ <;> intro s' es' hc <;> cases hc

theorem backoff_spec (P : SProto Q) (lim : Limits) (retry : Bool) (i : Nat) (s : Sys Q) (es : List SEv) :
    (backoff P lim retry i s es).1.now ≤ s.now + (if retry then waitMs lim i else 0) ∧
    (backoff P lim retry i s es).1.wire = s.wire := by
  cases retry
  · simp [backoff]
  · simp only [backoff, if_true]
    exact ⟨sleep_time .., sleep_wire ..⟩

/-- time budget of attempt `i` with caller timeout `t`: acknowledgement, first reply, ResponsePending loop, backoff, reconnect -/
def attemptBudget (P : SProto Q) (lim : Limits) (t i : Nat) (hp retry : Bool) : Nat :=
  min t P.ackTime + t + (if hp then pendBudget lim (maxNT lim (some t)) 1 0 else 0) +
    (if retry then waitMs lim i + window P else 0)

theorem attemptStep_spec (P : SProto Q) (cls : Bytes → Ev) (lim : Limits) (req : Bytes) (t : Nat) (retry : Bool) (i : Nat)
    (s : Sys Q) (es : List SEv) (last : Out) (hp : Bool) (hnp : hp = false → ∀ d, cls d ≠ .pending) :
    (attemptStep P cls lim req (some t) retry i s es last).sys.now ≤ s.now + attemptBudget P lim t i hp retry ∧
    (attemptStep P cls lim req (some t) retry i s es last).sys.wire = s.wire ++ [(s.conn.idx, s.now, req)] ∧
    (∀ s' es', attemptStep P cls lim req (some t) retry i s es last ≠ .fin .blocked s' es') := by
  have ht := opRequest_time P s es req t
  have hw := opRequest_wire P s es req (some t)
  unfold attemptStep attemptBudget
  generalize opRequest P s es req (some t) = r at ht hw
  obtain ⟨res, s1, es1⟩ := r
  simp only at ht hw
  obtain ⟨hnb, ht⟩ := ht
  have hpb := pendBudget_base lim (maxNT lim (some t)) 1 0
  have hb := backoff_spec P lim retry i
  have ha := afterLoss_spec P lim retry i
  rcases retry with _ | _ <;> rcases hp with _ | _ <;>
    simp only [if_true, if_false, Bool.false_eq_true, ↓reduceIte, forall_const, reduceCtorEq, false_implies] at hb ha hnp ⊢
  all_goals split
  all_goals
    first
    | (rename_i heq; cases heq; exact absurd rfl hnb)
    | (rename_i heq; cases heq
       have hb := hb s1 es1
       refine ⟨by simp only [Step.sys]; omega, by simp only [Step.sys]; rw [hb.2, hw], ?_⟩
       intro s' es' hc; cases hc)
    | (rename_i heq; cases heq
       have ha := ha s1 es1
       exact ⟨by omega, by rw [ha.2.1, hw], ha.2.2⟩)
    | (rename_i heq; cases heq
       exact ⟨by simp only [Step.sys]; omega, hw, fun _ _ hc => by cases hc⟩)
    | (rename_i heq; cases heq
       have hb := hb s1 es1
       have hp := pendLoop_spec P cls lim (maxNT lim (some t)) s1 es1 1 0
       split
       · first
         | exact ⟨by simp only [Step.sys]; omega, by simp only [Step.sys]; rw [hb.2, hw], fun _ _ hc => by cases hc⟩
         | exact ⟨by simp only [Step.sys]; omega, hw, fun _ _ hc => by cases hc⟩
       · exact ⟨by simp only [Step.sys]; omega, hw, fun _ _ hc => by cases hc⟩
       · exact ⟨by simp only [Step.sys]; omega, hw, fun _ _ hc => by cases hc⟩
       · first
         | exact absurd ‹cls _ = Ev.pending› (hnp _)
         | (obtain ⟨p1, p2, p3⟩ := hp
            split
            · rename_i o s2 es2 hpe
              rw [hpe] at p1 p2 p3
              simp only [PRes2.sys] at p1 p2
              refine ⟨by simp only [Step.sys]; omega, by simp only [Step.sys]; rw [p2, hw], ?_⟩
              intro s' es' hc
              injection hc with h1 h2 h3
              exact p3 s2 es2 (by rw [h1])
            · rename_i s2 es2 hpe
              rw [hpe] at p1 p2
              simp only [PRes2.sys] at p1 p2
              exact ⟨by simp only [Step.sys]; omega, by simp only [Step.sys]; rw [p2, hw], fun _ _ hc => by cases hc⟩
            · rename_i s2 es2 hpe
              rw [hpe] at p1 p2
              simp only [PRes2.sys] at p1 p2
              have ha := ha s2 es2
              exact ⟨by omega, by rw [ha.2.1, p2, hw], ha.2.2⟩)
       · exact ⟨by simp only [Step.sys]; omega, hw, fun _ _ hc => by cases hc⟩)

theorem afterLoss_next (P : SProto Q) (lim : Limits) (retry : Bool) (i : Nat) (s : Sys Q) (es : List SEv) (l : Out)
    (s1 : Sys Q) (es1 : List SEv) (h : afterLoss P lim retry i s es = .next s1 es1 l) : l = .missing true := by
  unfold afterLoss at h
  split at h
  · dsimp only at h
    generalize reconnect P _ _ = r at h
    obtain ⟨rc, s2, es2⟩ := r
    cases rc <;> simp only at h <;> cases h
    rfl
  · cases h; rfl

theorem attemptStep_next (P : SProto Q) (cls : Bytes → Ev) (lim : Limits) (req : Bytes) (tmo : Option Nat) (retry : Bool)
    (i : Nat) (s : Sys Q) (es : List SEv) (last l : Out) (s1 : Sys Q) (es1 : List SEv) (hl : last ≠ .blocked)
    (h : attemptStep P cls lim req tmo retry i s es last = .next s1 es1 l) : l ≠ .blocked := by
  unfold attemptStep at h
  repeat' split at h
  all_goals first
    | (cases h; first | exact hl | simp)
    | (have := afterLoss_next _ _ _ _ _ _ _ _ _ h; rw [this]; simp)
    | cases h

/-! ### the whole call -/

/-- time budget of a call from attempt `i` on with `k` retries left -/
def callBudget (P : SProto Q) (lim : Limits) (t : Nat) (hp : Bool) : Nat → Nat → Nat
  | 0, i => attemptBudget P lim t i hp false
  | k+1, i => attemptBudget P lim t i hp true + callBudget P lim t hp k (i + 1)

theorem attempts_spec (P : SProto Q) (cls : Bytes → Ev) (lim : Limits) (req : Bytes) (t : Nat) (hp : Bool)
    (hnp : hp = false → ∀ d, cls d ≠ .pending) (k i : Nat) (s : Sys Q) (es : List SEv) (last : Out) (hl : last ≠ .blocked) :
    (attempts P cls lim req (some t) k i s es last).1 ≠ .blocked ∧
    (attempts P cls lim req (some t) k i s es last).2.1.now ≤ s.now + callBudget P lim t hp k i ∧
    s.wire.length + 1 ≤ (attempts P cls lim req (some t) k i s es last).2.1.wire.length ∧
    (attempts P cls lim req (some t) k i s es last).2.1.wire.length ≤ s.wire.length + k + 1 := by
  induction k generalizing i s es last with
  | zero =>
    have hs := attemptStep_spec P cls lim req t false i s es last hp hnp
    have hn := attemptStep_next P cls lim req (some t) false i s es last
    unfold attempts callBudget
    generalize attemptStep P cls lim req (some t) false i s es last = st at hs hn
    cases st with
    | fin o s1 es1 =>
      simp only [Step.sys] at hs
      refine ⟨fun h => hs.2.2 s1 es1 (by simp only at h; rw [h]), hs.1, ?_, ?_⟩ <;> simp only [hs.2.1, List.length_append, List.length_singleton] <;> omega
    | next s1 es1 l =>
      simp only [Step.sys] at hs
      refine ⟨hn l s1 es1 hl rfl, hs.1, ?_, ?_⟩ <;> simp only [hs.2.1, List.length_append, List.length_singleton] <;> omega
  | succ k ih =>
    have hs := attemptStep_spec P cls lim req t true i s es last hp hnp
    have hn := attemptStep_next P cls lim req (some t) true i s es last
    unfold attempts callBudget
    generalize attemptStep P cls lim req (some t) true i s es last = st at hs hn
    cases st with
    | fin o s1 es1 =>
      simp only [Step.sys] at hs
      refine ⟨fun h => hs.2.2 s1 es1 (by simp only at h; rw [h]), by have := hs.1; simp only; omega, ?_, ?_⟩ <;>
        simp only [hs.2.1, List.length_append, List.length_singleton] <;> omega
    | next s1 es1 l =>
      simp only [Step.sys] at hs
      have := ih (i + 1) s1 es1 l (hn l s1 es1 hl rfl)
      have hw : s1.wire.length = s.wire.length + 1 := by rw [hs.2.1]; simp
      refine ⟨this.1, by have := this.2.1; have := hs.1; simp only; omega, by have := this.2.2.1; simp only; omega,
        by have := this.2.2.2; simp only; omega⟩

/-! ### recovery -/

/-- only time passes -/
def Quiet (es : List SEv) : Prop := ∀ e ∈ es, ∃ ms, e = .peer (.advance ms)

theorem await_quiet (P : SProto Q) (ready : Sys Q → Bool) (dl : Option Nat) (s : Sys Q) (es : List SEv) (hq : Quiet es) :
    (await P ready dl s es).2.1.up = s.up ∧ (await P ready dl s es).2.1.serve = s.serve ∧
    (await P ready dl s es).2.1.raOn = s.raOn ∧ (await P ready dl s es).2.1.nconn = s.nconn ∧
    (await P ready dl s es).2.1.conn = s.conn ∧ Quiet (await P ready dl s es).2.2 := by
  induction es generalizing s with
  | nil =>
    unfold await
    split
    · exact ⟨rfl, rfl, rfl, rfl, rfl, hq⟩
    · split <;> exact ⟨rfl, rfl, rfl, rfl, rfl, hq⟩
  | cons e es ih =>
    obtain ⟨ms, rfl⟩ := hq e (by simp)
    have hq' : Quiet es := fun e he => hq e (by simp [he])
    unfold await
    split
    · exact ⟨rfl, rfl, rfl, rfl, rfl, hq⟩
    · simp only
      split
      · split
        · refine ⟨rfl, rfl, rfl, rfl, rfl, ?_⟩
          intro e he
          simp only [List.mem_cons] at he
          rcases he with rfl | he
          · exact ⟨_, rfl⟩
          · exact hq' e he
        · exact ih _ hq'
      · exact ih _ hq'

theorem reconnect_up (P : SProto Q) (s : Sys Q) (es : List SEv) (hup : s.up = true) (hra : s.raOn = true) :
    reconnect P s es = (.ok, accept P (closeConn s), es) := by
  unfold reconnect
  simp only
  split
  · simp [doipPoll, closeConn, accept, hup, hra, doipWindow]
  · simp [closeConn, hup]

/-- the peer's answer `b` to `req`, delivered on a fresh connection, is acknowledged and read as the message `d` -/
def Answers (P : SProto Q) (req b d : Bytes) : Prop :=
  ∀ idx, ∃ c1 c2, tryAck P req ((PConn.fresh P idx).feed P b) = .done .wrote c1 ∧ tryRead P c1 = .done (.data d) c2 ∧
    ((PConn.fresh P idx).feed P b).live = true

theorem opRequest_served (P : SProto Q) (req b d : Bytes) (ha : Answers P req b d) (s : Sys Q) (es : List SEv) (tmo : Option Nat)
    (hs : s.serve = some b) (idx : Nat) (hc : s.conn = PConn.fresh P idx) :
    ∃ s4, opRequest P s es req tmo = (.data d, s4, es) ∧ s4.nconn = s.nconn := by
  obtain ⟨c1, c2, h1, h2, h3⟩ := ha idx
  have hlive : s.conn.live = true := by rw [hc]; rfl
  have hpw : (putWire P s req).conn = (PConn.fresh P idx).feed P b := by
    have hl2 : (PConn.fresh P idx).live = true := rfl
    unfold putWire; simp only [hs, hc, hl2, if_true]
  have hw : opWrite P s es req tmo = (.wrote, { putWire P s req with conn := c1 }, es) := by
    unfold opWrite
    simp only [hpw, h1]
  unfold opRequest
  rw [hw]
  simp only
  unfold opRead
  simp only [h2]
  refine ⟨_, rfl, ?_⟩
  unfold putWire; simp only [hs, hlive, if_true]

theorem recovers (P : SProto Q) (cls : Bytes → Ev) (lim : Limits) (req : Bytes) (tmo : Option Nat) (k : Nat)
    (s : Sys Q) (es : List SEv) (r : PRes) (s1 : Sys Q) (es1 : List SEv) (b d : Bytes)
    (hloss : opRequest P s es req tmo = (r, s1, es1)) (hr : r = .connErr ∨ r = .eos)
    (hup : s1.up = true) (hsrv : s1.serve = some b) (hra : s1.raOn = true) (hq : Quiet es1)
    (ha : Answers P req b d) (hd : d ≠ []) (hcls : cls d = .posFinal) :
    (request P cls { maxRetry := k + 1, lim } req tmo s es).1 = .reply d ∧
    (request P cls { maxRetry := k + 1, lim } req tmo s es).2.1.nconn = s1.nconn + 1 := by
  -- first attempt: the loss surfaces, backoff, one reconnect
  have hsl := await_quiet P (fun _ => false) (some (s1.now + waitMs lim 0)) s1 es1 hq
  obtain ⟨u1, u2, u3, u4, _, u6⟩ := hsl
  have hstep : attemptStep P cls lim req tmo true 0 s es (.missing false) =
      .next (accept P (closeConn (sleep P (waitMs lim 0) s1 es1).1)) (sleep P (waitMs lim 0) s1 es1).2 (.missing true) := by
    unfold attemptStep
    rw [hloss]
    rcases hr with rfl | rfl <;>
    · simp only [afterLoss, if_true]
      rw [reconnect_up P _ _ (by unfold sleep; rw [u1, hup]) (by unfold sleep; rw [u3, hra])]
  -- second attempt: on the fresh connection the peer answers at once
  obtain ⟨s4, h4, n4⟩ := opRequest_served P req b d ha (accept P (closeConn (sleep P (waitMs lim 0) s1 es1).1))
    (sleep P (waitMs lim 0) s1 es1).2 tmo (by unfold sleep; simp only [accept, closeConn]; rw [u2, hsrv]) _ rfl
  have hstep2 : ∀ retry last, attemptStep P cls lim req tmo retry 1 (accept P (closeConn (sleep P (waitMs lim 0) s1 es1).1))
      (sleep P (waitMs lim 0) s1 es1).2 last = .fin (.reply d) s4 (sleep P (waitMs lim 0) s1 es1).2 := by
    intro retry last
    unfold attemptStep
    rw [h4]
    cases d with
    | nil => exact absurd rfl hd
    | cons x xs => simp only [hcls]
  have hn : s4.nconn = s1.nconn + 1 := by
    rw [n4]; unfold sleep; simp only [accept, closeConn]; rw [u4]
  unfold request
  simp only
  unfold attempts
  rw [hstep]
  simp only
  cases k with
  | zero => unfold attempts; rw [hstep2]; exact ⟨rfl, hn⟩
  | succ k => unfold attempts; rw [hstep2]; exact ⟨rfl, hn⟩

theorem opRequest_closed (P : SProto Q) (s : Sys Q) (es : List SEv) (req : Bytes) (tmo : Option Nat) (hc : s.conn.closed = true) :
    opRequest P s es req tmo = (.connErr, { s with wire := s.wire ++ [(s.conn.idx, s.now, req)] }, es) := by
  have hl : s.conn.live = false := by simp [PConn.live, hc]
  have hp : putWire P s req = { s with wire := s.wire ++ [(s.conn.idx, s.now, req)] } := by
    unfold putWire; simp only [hl]; split <;> simp
  unfold opRequest opWrite
  simp only [hp, tryAck, hc, if_true]

/-- a transport read on a connection whose stream has ended (eof / reset) or that is closed returns at once - whatever
    is queued (any backlog of unconsumed frames), with or without caller timeout, consuming no event -/
theorem opRead_ended (P : SProto Q) (s : Sys Q) (es : List SEv) (tmo : Option Nat)
    (h : s.conn.closed = true ∨ s.conn.streamEnded = true) :
    (opRead P s es tmo).1 ≠ .blocked ∧ (opRead P s es tmo).1 ≠ .timeout ∧ (opRead P s es tmo).2.1.now = s.now ∧
    (opRead P s es tmo).2.2 = es := by
  have : ∃ r c, tryRead P s.conn = .done r c := by
    unfold tryRead
    rcases h with h | h
    · simp [h]
    · split
      · exact ⟨_, _, rfl⟩
      · split
        · exact ⟨_, _, rfl⟩
        · split <;> first | exact ⟨_, _, rfl⟩ | (simp only [h, if_true]; exact ⟨_, _, rfl⟩)
  obtain ⟨r, c, hrc⟩ := this
  unfold opRead
  rw [hrc]
  have := tryRead_res P _ _ _ hrc
  exact ⟨this.1, this.2, rfl, rfl⟩

/-! ### which connection: nothing but the peer's events on the connection held changes its queue; only `reconnect` changes the connection -/

/-- what a peer event does to the connection the transport holds -/
def connPeer (P : SProto Q) (c : PConn Q) : PEv → PConn Q
  | .deliver b => if c.live then c.feed P b else c
  | .cut k => if c.live then { c with ended := some k, closed := k != .silence && P.kind == .doip } else c
  | _ => c

theorem applyPeer_conn (P : SProto Q) (s : Sys Q) (pe : PEv) : (applyPeer P s pe).conn = connPeer P s.conn pe := by
  cases pe <;> simp only [applyPeer, connPeer] <;> split <;> rfl

theorem applyPeer_nconn (P : SProto Q) (s : Sys Q) (pe : PEv) : (applyPeer P s pe).nconn = s.nconn := by
  cases pe <;> simp only [applyPeer] <;> split <;> rfl

theorem connPeer_idx (P : SProto Q) (c : PConn Q) (pe : PEv) : (connPeer P c pe).idx = c.idx := by
  cases pe <;> simp only [connPeer] <;> split <;> rfl

theorem foldl_connPeer_idx (P : SProto Q) (pes : List PEv) (c : PConn Q) : (pes.foldl (connPeer P) c).idx = c.idx := by
  induction pes generalizing c with
  | nil => rfl
  | cons pe pes ih => simp only [List.foldl_cons, ih, connPeer_idx]

/-- a wait changes the connection only through the peer's events on it -/
theorem await_conn (P : SProto Q) (ready : Sys Q → Bool) (dl : Option Nat) (s : Sys Q) (es : List SEv) :
    (∃ pes : List PEv, (await P ready dl s es).2.1.conn = pes.foldl (connPeer P) s.conn) ∧
    (await P ready dl s es).2.1.nconn = s.nconn := by
  induction es generalizing s with
  | nil =>
    unfold await
    split
    · exact ⟨⟨[], rfl⟩, rfl⟩
    · split <;> exact ⟨⟨[], rfl⟩, rfl⟩
  | cons e es ih =>
    unfold await
    split
    · exact ⟨⟨[], rfl⟩, rfl⟩
    · split
      · split
        · split
          · exact ⟨⟨[], rfl⟩, rfl⟩
          · exact ih _
        · exact ih _
      · rename_i pe _
        obtain ⟨⟨pes, h⟩, hn⟩ := ih (applyPeer P s pe)
        refine ⟨⟨pe :: pes, ?_⟩, by rw [hn, applyPeer_nconn]⟩
        rw [h, applyPeer_conn]; rfl
      · split <;> exact ⟨⟨[], rfl⟩, rfl⟩

theorem await_idx (P : SProto Q) (ready : Sys Q → Bool) (dl : Option Nat) (s : Sys Q) (es : List SEv) :
    (await P ready dl s es).2.1.conn.idx = s.conn.idx ∧ (await P ready dl s es).2.1.nconn = s.nconn := by
  obtain ⟨⟨pes, h⟩, hn⟩ := await_conn P ready dl s es
  exact ⟨by rw [h, foldl_connPeer_idx], hn⟩

theorem tryAck_idx (P : SProto Q) (req : Bytes) (c c' : PConn Q) (r : PRes) (h : tryAck P req c = .done r c') : c'.idx = c.idx := by
  unfold tryAck at h
  repeat' split at h
  all_goals first | (cases h; rfl) | cases h

theorem tryAck_wait_idx (P : SProto Q) (req : Bytes) (c c' : PConn Q) (h : tryAck P req c = .wait c') : c'.idx = c.idx := by
  unfold tryAck at h
  repeat' split at h
  all_goals first | (cases h; rfl) | cases h

theorem tryRead_idx (P : SProto Q) (c c' : PConn Q) (r : PRes) (h : tryRead P c = .done r c') : c'.idx = c.idx := by
  unfold tryRead at h
  repeat' split at h
  all_goals first | (cases h; rfl) | cases h

theorem tryRead_wait_idx (P : SProto Q) (c c' : PConn Q) (h : tryRead P c = .wait c') : c'.idx = c.idx := by
  unfold tryRead at h
  repeat' split at h
  all_goals first | (cases h; rfl) | cases h

theorem opWrite_idx (P : SProto Q) (s : Sys Q) (es : List SEv) (req : Bytes) (tmo : Option Nat) :
    (opWrite P s es req tmo).2.1.conn.idx = s.conn.idx ∧ (opWrite P s es req tmo).2.1.nconn = s.nconn := by
  have hn : (putWire P s req).nconn = s.nconn := by
    unfold putWire; simp only; split
    · split <;> rfl
    · rfl
  unfold opWrite
  simp only
  split
  · rename_i r c hc
    exact ⟨by simp only; rw [tryAck_idx P req _ _ _ hc, putWire_idx], hn⟩
  · rename_i c hc
    generalize hr : await P (ackReady P req) _ _ es = r
    have hi := await_idx P (ackReady P req)
    have h1 : r.2.1.conn.idx = s.conn.idx ∧ r.2.1.nconn = s.nconn := by
      rw [← hr]
      refine ⟨by rw [(hi _ _ _).1]; simp only; rw [tryAck_wait_idx P req _ _ hc, putWire_idx], by rw [(hi _ _ _).2]; exact hn⟩
    obtain ⟨w, s1, es1⟩ := r
    simp only at h1
    cases w <;> simp only
    · split
      · rename_i r2 c2 hc2
        exact ⟨by simp only; rw [tryAck_idx P req _ _ _ hc2, h1.1], h1.2⟩
      · rename_i c2 hc2
        exact ⟨by simp only; rw [tryAck_wait_idx P req _ _ hc2, h1.1], h1.2⟩
    all_goals (split <;> (try split) <;> exact h1)

theorem tryRead_data (P : SProto Q) (hP : Laws P.toProto) (c c' : PConn Q) (d : Bytes) (h : tryRead P c = .done (.data d) c') :
    d ∈ P.payloads c.q := by
  unfold tryRead endOf at h
  repeat' split at h
  all_goals first
    | (rename_i hq; injection h with h1 h2; injection h1 with h1; subst h1; exact hP.data_sound _ _ _ hq)
    | (injection h with h1 h2; cases h1)
    | (injection h with h1 h2; split at h1 <;> cases h1)
    | cases h

/-- data a read returns is the payload of a message completely received on the connection held: it lies in the queue
    that connection has after some of the peer's events (deliveries on it) that followed the start of the read -/
theorem opRead_data (P : SProto Q) (hP : Laws P.toProto) (s : Sys Q) (es : List SEv) (tmo : Option Nat) (d : Bytes)
    (h : (opRead P s es tmo).1 = .data d) :
    ∃ pes : List PEv, d ∈ P.payloads (pes.foldl (connPeer P) s.conn).q := by
  unfold opRead at h
  split at h
  · rename_i r c hc
    simp only at h
    subst h
    exact ⟨[], tryRead_data P hP _ _ _ hc⟩
  · obtain ⟨⟨pes, hpes⟩, _⟩ := await_conn P (readReady P) (tmo.map (s.now + ·)) s es
    generalize await P (readReady P) _ s es = r at h hpes
    obtain ⟨w, s1, es1⟩ := r
    simp only at hpes
    cases w <;> simp only at h
    · split at h
      · rename_i r c hc
        simp only at h
        subst h
        exact ⟨pes, by rw [← hpes]; exact tryRead_data P hP _ _ _ hc⟩
      · cases h
    · split at h <;> cases h
    · cases h

theorem opRead_idx (P : SProto Q) (s : Sys Q) (es : List SEv) (tmo : Option Nat) :
    (opRead P s es tmo).2.1.conn.idx = s.conn.idx ∧ (opRead P s es tmo).2.1.nconn = s.nconn := by
  unfold opRead
  split
  · rename_i r c hc
    exact ⟨tryRead_idx P _ _ _ hc, rfl⟩
  · have h1 := await_idx P (readReady P) (tmo.map (s.now + ·)) s es
    generalize await P (readReady P) _ s es = r at h1
    obtain ⟨w, s1, es1⟩ := r
    simp only at h1
    cases w <;> simp only
    · split
      · rename_i r2 c2 hc2
        exact ⟨by simp only; rw [tryRead_idx P _ _ _ hc2, h1.1], h1.2⟩
      · rename_i c2 hc2
        exact ⟨by simp only; rw [tryRead_wait_idx P _ _ hc2, h1.1], h1.2⟩
    · split
      · rename_i c2 hc2
        exact ⟨by simp only; rw [tryRead_wait_idx P _ _ hc2, h1.1], h1.2⟩
      · exact h1
    · exact h1

theorem opRequest_idx (P : SProto Q) (s : Sys Q) (es : List SEv) (req : Bytes) (tmo : Option Nat) :
    (opRequest P s es req tmo).2.1.conn.idx = s.conn.idx ∧ (opRequest P s es req tmo).2.1.nconn = s.nconn := by
  have hw := opWrite_idx P s es req tmo
  unfold opRequest
  split
  · rename_i s1 es1 heq
    rw [heq] at hw
    have hr := opRead_idx P s1 es1 tmo
    exact ⟨by rw [hr.1, hw.1], by rw [hr.2, hw.2]⟩
  · exact hw

/-- the reply of the transport-level request was read on the connection the request was written to -/
theorem opRequest_data (P : SProto Q) (hP : Laws P.toProto) (s : Sys Q) (es : List SEv) (req : Bytes) (tmo : Option Nat) (d : Bytes)
    (h : (opRequest P s es req tmo).1 = .data d) :
    ∃ (c : PConn Q) (pes : List PEv), c.idx = s.conn.idx ∧ d ∈ P.payloads (pes.foldl (connPeer P) c).q := by
  have hw := opWrite_idx P s es req tmo
  unfold opRequest at h
  split at h
  · rename_i s1 es1 heq
    rw [heq] at hw
    obtain ⟨pes, hp⟩ := opRead_data P hP s1 es1 tmo d h
    exact ⟨s1.conn, pes, hw.1, hp⟩
  · rename_i r hne
    exfalso
    unfold opWrite at h
    simp only at h
    split at h
    · rename_i r2 c hc
      rcases tryAck_res P req _ _ _ hc with rfl | rfl <;> cases h
    · generalize await P (ackReady P req) _ _ es = ra at h
      obtain ⟨w, s1, es1⟩ := ra
      cases w <;> simp only at h
      · split at h
        · rename_i r2 c2 hc2
          rcases tryAck_res P req _ _ _ hc2 with rfl | rfl <;> cases h
        · cases h
      all_goals (split at h <;> (try split at h) <;> cases h)

/-- `d` is the payload of a message completely received on connection number `idx` -/
def FromConn (P : SProto Q) (idx : Nat) (d : Bytes) : Prop :=
  ∃ (c : PConn Q) (pes : List PEv), c.idx = idx ∧ d ∈ P.payloads (pes.foldl (connPeer P) c).q

theorem rd_conn {P : SProto Q} (hP : Laws P.toProto) {s : Sys Q} {es : List SEv} {tmo : Option Nat} {r : PRes} {s1 : Sys Q}
    {es1 : List SEv} (h : opRead P s es tmo = (r, s1, es1)) :
    s1.conn.idx = s.conn.idx ∧ s1.nconn = s.nconn ∧ (∀ d, r = .data d → FromConn P s.conn.idx d) := by
  have hi := opRead_idx P s es tmo
  rw [h] at hi
  refine ⟨hi.1, hi.2, ?_⟩
  intro d hd
  obtain ⟨pes, hp⟩ := opRead_data P hP s es tmo d (by rw [h]; exact hd)
  exact ⟨s.conn, pes, rfl, hp⟩

theorem pendLoop_conn (P : SProto Q) (hP : Laws P.toProto) (cls : Bytes → Ev) (lim : Limits) (mnt : Nat) (s : Sys Q)
    (es : List SEv) (np nt : Nat) :
    (pendLoop P cls lim mnt s es np nt).sys.conn.idx = s.conn.idx ∧
    (pendLoop P cls lim mnt s es np nt).sys.nconn = s.nconn ∧
    (∀ d s' es', pendLoop P cls lim mnt s es np nt = .done (.reply d) s' es' → FromConn P s.conn.idx d) := by
  fun_induction pendLoop P cls lim mnt s es np nt
  case case2 s es np nt s1 es1 heq h ih =>
    obtain ⟨h1, h2, h3⟩ := rd_conn hP heq
    obtain ⟨i1, i2, i3⟩ := ih
    exact ⟨by rw [i1, h1], by rw [i2, h2], by rw [← h1]; exact i3⟩
  case case7 s es np nt d s1 es1 hd heq hcls h ih =>
    obtain ⟨h1, h2, h3⟩ := rd_conn hP heq
    obtain ⟨i1, i2, i3⟩ := ih
    exact ⟨by rw [i1, h1], by rw [i2, h2], by rw [← h1]; exact i3⟩
  all_goals
    obtain ⟨h1, h2, h3⟩ := rd_conn hP ‹opRead P _ _ (some lim.waiting) = _›
    refine ⟨h1, h2, ?_⟩
    intro d' s' es' hc
    first
    | (cases hc; exact h3 _ rfl)
    | cases hc

theorem sleep_idx (P : SProto Q) (ms : Nat) (s : Sys Q) (es : List SEv) :
    (sleep P ms s es).1.conn.idx = s.conn.idx ∧ (sleep P ms s es).1.nconn = s.nconn := by
  unfold sleep; exact await_idx ..

theorem backoff_idx (P : SProto Q) (lim : Limits) (retry : Bool) (i : Nat) (s : Sys Q) (es : List SEv) :
    (backoff P lim retry i s es).1.conn.idx = s.conn.idx ∧ (backoff P lim retry i s es).1.nconn = s.nconn := by
  unfold backoff; split
  · exact sleep_idx ..
  · exact ⟨rfl, rfl⟩

/-- a connection the transport has just opened: the newest one, nothing received on it yet -/
def Fresh (P : SProto Q) (s0 s1 : Sys Q) : Prop :=
  s1.conn.idx + 1 = s1.nconn ∧ s0.nconn < s1.nconn ∧ s1.conn.q = P.parse [] ∧ s1.conn.rem = []

theorem doipPoll_conn (P : SProto Q) (wend : Nat) (fuel : Nat) (s : Sys Q) (es : List SEv) :
    ((doipPoll P wend fuel s es).1 = .ok → Fresh P s (doipPoll P wend fuel s es).2.1) ∧
    ((doipPoll P wend fuel s es).1 ≠ .ok → (doipPoll P wend fuel s es).2.1.conn.idx = s.conn.idx) ∧
    s.nconn ≤ (doipPoll P wend fuel s es).2.1.nconn := by
  induction fuel generalizing s es with
  | zero => simp [doipPoll]
  | succ n ih =>
    unfold doipPoll
    split
    · simp
    · split
      · simp only
        split
        · simp [Fresh, accept, PConn.fresh]
        · have a1 := await_idx P (fun x => x.conn.closed || x.conn.streamEnded)
            (some (min ((accept P s).now + Doip.raTimeoutMs) wend)) (accept P s) es
          generalize await P (fun x => x.conn.closed || x.conn.streamEnded) _ (accept P s) es = r1 at a1 ⊢
          have hacc : (accept P s).nconn = s.nconn + 1 := rfl
          split
          · refine ⟨by simp, by simp, ?_⟩
            simp only; omega
          · have a2 := await_idx P (fun _ => false) (some (min (r1.2.1.now + pollStep) wend))
              { r1.2.1 with conn := s.conn } r1.2.2
            generalize await P (fun _ => false) _ { r1.2.1 with conn := s.conn } r1.2.2 = r2 at a2 ⊢
            obtain ⟨i1, i2, i3⟩ := ih r2.2.1 r2.2.2
            simp only at a2
            refine ⟨fun h => ?_, fun h => by rw [i2 h, a2.1], by omega⟩
            obtain ⟨f1, f2, f3, f4⟩ := i1 h
            exact ⟨f1, by omega, f3, f4⟩
      · have a2 := await_idx P (fun _ => false) (some (min (s.now + pollStep) wend)) (refuse s) es
        generalize await P (fun _ => false) _ (refuse s) es = r2 at a2 ⊢
        dsimp only
        obtain ⟨i1, i2, i3⟩ := ih r2.2.1 r2.2.2
        have hr : (refuse s).nconn = s.nconn ∧ (refuse s).conn = s.conn := ⟨rfl, rfl⟩
        refine ⟨fun h => ?_, fun h => by rw [i2 h, a2.1, hr.2], by omega⟩
        obtain ⟨f1, f2, f3, f4⟩ := i1 h
        exact ⟨f1, by omega, f3, f4⟩

theorem reconnect_conn (P : SProto Q) (s : Sys Q) (es : List SEv) :
    ((reconnect P s es).1 = .ok → Fresh P s (reconnect P s es).2.1) ∧
    ((reconnect P s es).1 ≠ .ok → (reconnect P s es).2.1.conn.idx = s.conn.idx) := by
  unfold reconnect
  simp only
  split
  · have := doipPoll_conn P ((closeConn s).now + doipWindow) (doipWindow / pollStep + 1) (closeConn s) es
    exact ⟨this.1, this.2.1⟩
  · split <;> simp [Fresh, accept, refuse, closeConn, PConn.fresh]

/-- no reconnect happened: the same connection is held, no connection was opened -/
def Same (s s1 : Sys Q) : Prop := s1.conn.idx = s.conn.idx ∧ s1.nconn = s.nconn

/-- a reconnect happened: the transport holds the newest connection, opened after `s`, nothing received on it yet -/
def Renewed (P : SProto Q) (s s1 : Sys Q) : Prop :=
  s1.conn.idx + 1 = s1.nconn ∧ s.nconn < s1.nconn ∧ s1.conn.q = P.parse [] ∧ s1.conn.rem = []

theorem afterLoss_conn (P : SProto Q) (lim : Limits) (retry : Bool) (i : Nat) (s : Sys Q) (es : List SEv) :
    (∀ s1 es1 l, afterLoss P lim retry i s es = .next s1 es1 l →
      l = .missing true ∧ ((retry = true ∧ Renewed P s s1) ∨ (retry = false ∧ Same s s1))) ∧
    (∀ o s1 es1, afterLoss P lim retry i s es = .fin o s1 es1 → s1.conn.idx = s.conn.idx ∧ ∀ d, o ≠ .reply d) := by
  cases retry
  · simp only [afterLoss, Bool.false_eq_true, if_false]
    refine ⟨?_, ?_⟩
    · intro s1 es1 l h; cases h; exact ⟨by trivial, .inr ⟨by trivial, rfl, rfl⟩⟩
    · intro o s1 es1 h; cases h
  · simp only [afterLoss, if_true]
    have hs := sleep_idx P (waitMs lim i) s es
    generalize sleep P (waitMs lim i) s es = r1 at hs ⊢
    have hc := reconnect_conn P r1.1 r1.2
    generalize reconnect P r1.1 r1.2 = r2 at hc ⊢
    obtain ⟨rc, s2, es2⟩ := r2
    simp only at hc
    cases rc <;> simp only
    · refine ⟨?_, ?_⟩
      · intro s1 es1 l h; cases h
        obtain ⟨f1, f2, f3, f4⟩ := hc.1 rfl
        exact ⟨by trivial, .inl ⟨by trivial, f1, by omega, f3, f4⟩⟩
      · intro o s1 es1 h; cases h
    all_goals
      refine ⟨?_, ?_⟩
      · intro s1 es1 l h; cases h
      · intro o s1 es1 h; cases h
        exact ⟨by rw [hc.2 (by simp), hs.1], by intro d hd; cases hd⟩

/-- how one attempt leaves the connection, and where a reply it returns comes from -/
theorem attemptStep_conn (P : SProto Q) (hP : Laws P.toProto) (cls : Bytes → Ev) (lim : Limits) (req : Bytes) (tmo : Option Nat)
    (retry : Bool) (i : Nat) (s : Sys Q) (es : List SEv) (last : Out) :
    (∀ d s1 es1, attemptStep P cls lim req tmo retry i s es last = .fin (.reply d) s1 es1 →
      Same s s1 ∧ FromConn P s.conn.idx d) ∧
    (∀ s1 es1 l, attemptStep P cls lim req tmo retry i s es last = .next s1 es1 l →
      Same s s1 ∨ (l = .missing true ∧ retry = true ∧ Renewed P s s1)) ∧
    (∀ s1 es1, attemptStep P cls lim req tmo retry i s es last = .next s1 es1 (.missing false) → Same s s1) := by
  have hi := opRequest_idx P s es req tmo
  have hd := opRequest_data P hP s es req tmo
  unfold attemptStep
  generalize opRequest P s es req tmo = r at hi hd
  obtain ⟨res, s1, es1⟩ := r
  simp only at hi hd
  have hb := backoff_idx P lim retry i
  have ha := afterLoss_conn P lim retry i
  have hsame : ∀ s2 : Sys Q, Same s1 s2 → Same s s2 := fun s2 h => ⟨by rw [h.1, hi.1], by rw [h.2, hi.2]⟩
  have hren : ∀ s2 : Sys Q, Renewed P s1 s2 → Renewed P s s2 := fun s2 h => ⟨h.1, by rw [← hi.2]; exact h.2.1, h.2.2⟩
  have hal : ∀ (s2 : Sys Q) (es2 : List SEv), Same s s2 →
      (∀ d s3 es3, afterLoss P lim retry i s2 es2 = .fin (.reply d) s3 es3 → Same s s3 ∧ FromConn P s.conn.idx d) ∧
      (∀ s3 es3 l, afterLoss P lim retry i s2 es2 = .next s3 es3 l →
        Same s s3 ∨ (l = .missing true ∧ retry = true ∧ Renewed P s s3)) ∧
      (∀ s3 es3, afterLoss P lim retry i s2 es2 = .next s3 es3 (.missing false) → Same s s3) := by
    intro s2 es2 h2
    obtain ⟨a1, a2⟩ := ha s2 es2
    refine ⟨?_, ?_, ?_⟩
    · intro d s3 es3 h; exact absurd rfl ((a2 _ _ _ h).2 d)
    · intro s3 es3 l h
      obtain ⟨l1, l2 | l2⟩ := a1 _ _ _ h
      · exact .inr ⟨l1, l2.1, l2.2.1, by rw [← h2.2]; exact l2.2.2.1, l2.2.2.2⟩
      · exact .inl ⟨by rw [l2.2.1, h2.1], by rw [l2.2.2, h2.2]⟩
    · intro s3 es3 h
      have := (a1 _ _ _ h).1
      cases this
  split
  all_goals first
    | (rename_i heq; cases heq
       exact hal s1 es1 ⟨hi.1, hi.2⟩)
    | (rename_i heq; cases heq
       have hb := hb s1 es1
       refine ⟨(by intro d s2 es2 h; cases h), ?_, ?_⟩
       · intro s2 es2 l h; cases h; exact .inl (hsame _ ⟨hb.1, hb.2⟩)
       · intro s2 es2 h; cases h; exact hsame _ ⟨hb.1, hb.2⟩)
    | (rename_i heq; cases heq
       refine ⟨(by intro d s2 es2 h; cases h), (by intro s2 es2 l h; cases h), (by intro s2 es2 h; cases h)⟩)
    | (rename_i heq; cases heq
       have hdd : FromConn P s.conn.idx _ := hd _ rfl
       have hb := hb s1 es1
       have hp := pendLoop_conn P hP cls lim (maxNT lim tmo) s1 es1 1 0
       split
       · split
         · refine ⟨(by intro d s2 es2 h; cases h), ?_, ?_⟩
           · intro s2 es2 l h; cases h; exact .inl (hsame _ ⟨hb.1, hb.2⟩)
           · intro s2 es2 h; cases h; exact hsame _ ⟨hb.1, hb.2⟩
         · refine ⟨?_, (by intro s2 es2 l h; cases h), (by intro s2 es2 h; cases h)⟩
           intro d s2 es2 h; cases h; exact ⟨⟨hi.1, hi.2⟩, hdd⟩
       · exact ⟨(by intro d s2 es2 h; cases h), (by intro s2 es2 l h; cases h), (by intro s2 es2 h; cases h)⟩
       · exact ⟨(by intro d s2 es2 h; cases h), (by intro s2 es2 l h; cases h), (by intro s2 es2 h; cases h)⟩
       · obtain ⟨p1, p2, p3⟩ := hp
         split
         · rename_i o s2 es2 hpe
           rw [hpe] at p1 p2 p3
           simp only [PRes2.sys] at p1 p2
           refine ⟨?_, (by intro s3 es3 l h; cases h), (by intro s3 es3 h; cases h)⟩
           intro d s3 es3 h; cases h
           exact ⟨hsame _ ⟨p1, p2⟩, by rw [← hi.1]; exact p3 _ _ _ rfl⟩
         · rename_i s2 es2 hpe
           rw [hpe] at p1 p2
           simp only [PRes2.sys] at p1 p2
           refine ⟨(by intro d s3 es3 h; cases h), ?_, ?_⟩
           · intro s3 es3 l h; cases h; exact .inl (hsame _ ⟨p1, p2⟩)
           · intro s3 es3 h; cases h; exact hsame _ ⟨p1, p2⟩
         · rename_i s2 es2 hpe
           rw [hpe] at p1 p2
           simp only [PRes2.sys] at p1 p2
           exact hal s2 es2 (hsame _ ⟨p1, p2⟩)
       · refine ⟨?_, (by intro s2 es2 l h; cases h), (by intro s2 es2 h; cases h)⟩
         intro d s2 es2 h; cases h; exact ⟨⟨hi.1, hi.2⟩, hdd⟩)

theorem attemptStep_next_noreply (P : SProto Q) (cls : Bytes → Ev) (lim : Limits) (req : Bytes) (tmo : Option Nat) (retry : Bool)
    (i : Nat) (s : Sys Q) (es : List SEv) (last l : Out) (s1 : Sys Q) (es1 : List SEv) (hl : ∀ d, last ≠ .reply d)
    (h : attemptStep P cls lim req tmo retry i s es last = .next s1 es1 l) : ∀ d, l ≠ .reply d := by
  unfold attemptStep at h
  repeat' split at h
  all_goals first
    | (cases h; first | exact hl | simp)
    | (have := afterLoss_next _ _ _ _ _ _ _ _ _ h; rw [this]; simp)
    | cases h

/-- whatever a call returns was read, as a completely received message, on the connection on which the last write of
    the request went out (the write of the attempt that returned it) -/
theorem attempts_origin (P : SProto Q) (hP : Laws P.toProto) (cls : Bytes → Ev) (lim : Limits) (req : Bytes) (t : Nat)
    (k i : Nat) (s : Sys Q) (es : List SEv) (last : Out) (hl : ∀ d, last ≠ .reply d) (d : Bytes)
    (h : (attempts P cls lim req (some t) k i s es last).1 = .reply d) :
    ∃ j tw w0, FromConn P j d ∧ (attempts P cls lim req (some t) k i s es last).2.1.wire = w0 ++ [(j, tw, req)] := by
  induction k generalizing i s es last with
  | zero =>
    have hs := attemptStep_spec P cls lim req t false i s es last true (by simp)
    have hc := attemptStep_conn P hP cls lim req (some t) false i s es last
    have hn := attemptStep_next_noreply P cls lim req (some t) false i s es last
    unfold attempts at h ⊢
    generalize attemptStep P cls lim req (some t) false i s es last = st at hs hc hn h
    cases st with
    | fin o s1 es1 =>
      simp only at h; subst h
      exact ⟨_, _, _, (hc.1 _ _ _ rfl).2, hs.2.1⟩
    | next s1 es1 l => simp only at h; exact absurd h (hn l s1 es1 hl rfl d)
  | succ k ih =>
    have hs := attemptStep_spec P cls lim req t true i s es last true (by simp)
    have hc := attemptStep_conn P hP cls lim req (some t) true i s es last
    have hn := attemptStep_next_noreply P cls lim req (some t) true i s es last
    unfold attempts at h ⊢
    generalize attemptStep P cls lim req (some t) true i s es last = st at hs hc hn h
    cases st with
    | fin o s1 es1 =>
      simp only at h; subst h
      exact ⟨_, _, _, (hc.1 _ _ _ rfl).2, hs.2.1⟩
    | next s1 es1 l => exact ih (i + 1) s1 es1 l (hn l s1 es1 hl rfl) h

end Gallia.LossSys
