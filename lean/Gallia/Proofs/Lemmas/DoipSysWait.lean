import Gallia.Proofs.Lemmas.DoipSysInv
/-
  Helper lemmas for C06 (DoIP, whole executions): the state invariant `Inv`, one `settle` with a blocked consumer
  under every schedule (`settle_waiting`), and the outcome of a pending call over an arbitrary continuation of the
  execution (`pending_run`).
-/
namespace Gallia.DoipSys
open Gallia Gallia.Framing Gallia.Doip Gallia.DoipFifo

variable (c : Cfg) (yields : Raw → Bool)

/-! ### `findSplit` and `find?` -/

theorem find_of_findSplit {α : Type} (p : α → Bool) {q pre post : List α} {x : α}
    (h : findSplit p q = some (pre, x, post)) : q.find? p = some x := by
  obtain ⟨e, hx, hpre⟩ := findSplit_sound p h
  subst e
  rw [List.find?_append]
  have : pre.find? p = none := List.find?_eq_none.mpr (fun y hy => by simp [hpre y hy])
  simp [this, hx]

theorem find_none_of_findSplit {α : Type} (p : α → Bool) {q : List α} (h : findSplit p q = none) :
    q.find? p = none :=
  List.find?_eq_none.mpr (fun y hy => by simp [(findSplit_none_iff p q).mp h y hy])

theorem findSplit_of_find_none {α : Type} (p : α → Bool) {q : List α} (h : q.find? p = none) :
    findSplit p q = none :=
  (findSplit_none_iff p q).mpr (fun y hy => by simpa using List.find?_eq_none.mp h y hy)

/-! ### state invariant -/

/-- what holds between two events of any execution: a blocked consumer holds nothing it would accept and has
    drained the queue; a closed connection has no blocked consumer; an open one has parsed every complete frame -/
structure Inv (s : Sys) : Prop where
  wf : WF c s
  idleIfClosed : s.closed = true → s.client = .idle
  drained : ∀ w sk p cl, s.client = .waiting w sk p cl → s.queue = []
  quiet : s.closed = false → cut s.buf = none

theorem Inv_init : Inv c {} :=
  ⟨WF_idle c _ rfl, fun _ => rfl, fun _ _ _ _ h => (by cases h), fun _ => rfl⟩

theorem Move.inv {s s' : Sys} (h : Move c s s') (hwf : DoipSys.WF c s) (hq : s.closed = false → cut s.buf = none) :
    Inv c s' := by
  refine ⟨h.WF c hwf, ?_, ?_, ?_⟩
  · cases h with
    | hold _ _ _ _ _ ho _ e => intro hc; rw [e] at hc; simp [ho] at hc
    | take _ _ _ _ _ _ _ _ _ _ _ e => intro _; rw [e]; rfl
    | fail _ _ _ _ _ _ _ _ _ _ e => intro _; rw [e]; rfl
  · cases h with
    | hold _ _ _ _ _ _ _ e => intro _ _ _ _ _; rw [e]
    | take _ _ _ _ _ _ _ _ _ _ _ e => intro w sk p cl h2; rw [e] at h2; cases h2
    | fail _ _ _ _ _ _ _ _ _ _ e => intro w sk p cl h2; rw [e] at h2; cases h2
  · cases h with
    | hold _ _ _ _ _ _ _ e => intro hc; rw [e] at hc ⊢; exact hq hc
    | take _ _ _ _ _ _ _ _ _ _ _ e => intro hc; rw [e] at hc ⊢; exact hq hc
    | fail _ _ _ _ _ _ cls _ _ hcls e =>
      intro hc
      rw [e] at hc ⊢
      have hc' : cls = false := hc
      have : s.closed = false := by
        cases hs : s.closed with
        | false => rfl
        | true => rw [hcls hs] at hc'; cases hc'
      exact hq this

theorem clientRun_inv (s : Sys) (hwf : WF c s) (hq : s.closed = false → cut s.buf = none)
    (hi : s.client = .idle → Inv c s) : Inv c (clientRun c s) := by
  cases hcl : s.client with
  | idle => rw [clientRun_idle c s hcl]; exact hi hcl
  | waiting w sk p cl => exact (clientRun_move c s w sk p cl hcl).inv c hwf hq

theorem idle_inv (s : Sys) (hi : s.client = .idle) (hq : s.closed = false → cut s.buf = none) : Inv c s :=
  ⟨WF_idle c s hi, fun _ => hi, fun w sk p cl h => (by rw [hi] at h; cases h), hq⟩

theorem settle_inv (s : Sys) (hwf : WF c s) (hic : s.closed = true → s.client = .idle) :
    Inv c (settle c yields s) := by
  generalize hn : s.buf.length = n
  induction n using Nat.strongRecOn generalizing s with
  | _ n ih =>
    cases ho : s.closed with
    | true =>
      rw [settle_closed c yields s ho]
      exact idle_inv c s (hic ho) (fun h => by rw [ho] at h; cases h)
    | false =>
      cases hc : cut s.buf with
      | none =>
        rw [settle_none c yields s ho hc]
        exact clientRun_inv c s hwf (fun _ => hc) (fun hi => idle_inv c s hi (fun _ => hc))
      | some r =>
        obtain ⟨raw, rest⟩ := r
        have hl := cut_shrinks hc
        have hwf1 : WF c (deliver c { s with buf := rest } raw) :=
          deliver_WF c _ raw (fun w sk p cl h => hwf w sk p cl h)
        rw [settle_some c yields s ho hc]
        split
        · rename_i hcl1
          exact clientRun_inv c _ hwf1 (fun h => by rw [hcl1] at h; cases h)
            (fun hi => idle_inv c _ hi (fun h => by rw [hcl1] at h; cases h))
        · rename_i hcl1
          have hcl1 : (deliver c { s with buf := rest } raw).closed = false := by simpa using hcl1
          split
          · exact ih _ (by rw [← hn]; exact hl) (clientRun c (deliver c { s with buf := rest } raw))
              (clientRun_WF c _ hwf1) (fun h => by rw [clientRun_closed, hcl1] at h; cases h) (by simp)
          · exact ih _ (by rw [← hn]; exact hl) (deliver c { s with buf := rest } raw) hwf1
              (fun h => by rw [hcl1] at h; cases h) (by simp)

theorem startCall_inv (s : Sys) (w : Want) (bytes : Option Bytes) (timeout : Option Nat) (h : Inv c s) :
    Inv c (startCall c s w bytes timeout) := by
  cases hi : s.client with
  | waiting w' sk p cl =>
    have : startCall c s w bytes timeout = s := by unfold startCall; rw [hi]
    rw [this]; exact h
  | idle =>
    cases ho : s.closed with
    | true =>
      have : startCall c s w bytes timeout = s.finish w .conn := by unfold startCall; rw [hi]; simp [ho]
      rw [this]
      exact idle_inv c _ rfl (fun hc => by rw [show (s.finish w .conn).closed = s.closed from rfl, ho] at hc; cases hc)
    | false =>
      rw [startCall_eq c s w bytes timeout hi ho]
      have hwf0 : WF c (begun s w bytes timeout) := by
        intro w2 sk2 p2 cl2 h2
        simp only [begun, Client.waiting.injEq] at h2
        obtain ⟨_, rfl, _, _⟩ := h2
        simp
      exact (clientRun_move c (begun s w bytes timeout) w [] _ _ rfl).inv c hwf0 (fun _ => h.quiet ho)

theorem execOp_inv (s : Sys) (op : Op) (h : Inv c s) : Inv c (execOp c yields s op) := by
  cases op with
  | feed chunk => exact settle_inv c yields _ (fun w sk p cl hc => h.wf w sk p cl hc) h.idleIfClosed
  | activate atype t => exact startCall_inv c s .rar (some (raReq c atype)) t h
  | write data t => exact startCall_inv c s (.ack data) (some (diagReq c data)) t h
  | read t => exact startCall_inv c s .diag none t h
  | close =>
    simp only [execOp]
    split
    · rename_i hi; exact idle_inv c _ hi (fun hc => by cases hc)
    · exact h
  | eof =>
    simp only [execOp]
    split
    · exact h
    · exact clientRun_inv c _ (fun w sk p cl hc => h.wf w sk p cl hc) (fun hc => by cases hc)
        (fun hi => idle_inv c _ hi (fun hc => by cases hc))
  | advance dt =>
    simp only [execOp]
    have : Inv c (fire s (s.now + dt)) := by
      rcases fire_move c s (s.now + dt) with e | m
      · rw [e]; exact h
      · exact m.inv c h.wf h.quiet
    exact ⟨fun w sk p cl hc => this.wf w sk p cl hc, this.idleIfClosed, this.drained, this.quiet⟩

theorem exec_inv (ops : List Op) (s : Sys) (h : Inv c s) : Inv c (exec c yields s ops) := by
  induction ops generalizing s with
  | nil => exact h
  | cons op ops ih => rw [exec_cons]; exact ih _ (execOp_inv c yields s op h)

/-! ### an idle client during `settle` -/

theorem settle_now (s : Sys) : (settle c yields s).now = s.now := by
  generalize hn : s.buf.length = n
  induction n using Nat.strongRecOn generalizing s with
  | _ n ih =>
    cases ho : s.closed with
    | true => rw [settle_closed c yields s ho]
    | false =>
      cases hc : cut s.buf with
      | none => rw [settle_none c yields s ho hc, clientRun_now]
      | some r =>
        obtain ⟨raw, rest⟩ := r
        have hl := cut_shrinks hc
        rw [settle_some c yields s ho hc]
        split
        · rw [clientRun_now, deliver_now]
        · split
          · rw [ih _ (by rw [← hn]; exact hl) _ (by simp), clientRun_now, deliver_now]
          · rw [ih _ (by rw [← hn]; exact hl) _ (by simp), deliver_now]

theorem settle_idle (s : Sys) (h : s.client = .idle) :
    (settle c yields s).client = .idle ∧ (settle c yields s).done = s.done := by
  generalize hn : s.buf.length = n
  induction n using Nat.strongRecOn generalizing s with
  | _ n ih =>
    cases ho : s.closed with
    | true => rw [settle_closed c yields s ho]; exact ⟨h, rfl⟩
    | false =>
      cases hc : cut s.buf with
      | none => rw [settle_none c yields s ho hc, clientRun_idle c s h]; exact ⟨h, rfl⟩
      | some r =>
        obtain ⟨raw, rest⟩ := r
        have hl := cut_shrinks hc
        have h1 : (deliver c { s with buf := rest } raw).client = .idle := by simp [h]
        rw [settle_some c yields s ho hc]
        split
        · rw [clientRun_idle c _ h1]; exact ⟨h1, by simp⟩
        · split
          · rw [clientRun_idle c _ h1]
            have := ih _ (by rw [← hn]; exact hl) _ h1 (by simp)
            simpa using this
          · have := ih _ (by rw [← hn]; exact hl) _ h1 (by simp)
            simpa using this

/-! ### the blocked consumer during `settle`, for every schedule -/

theorem scanOpen_found {s : Sys} {w : Want} {sk : List Frame} {p cl : Option Nat} {f : Frame}
    (hf : s.queue.find? (w.pred c) = some f) :
    (scanOpen c w sk p cl s).client = .idle ∧ (scanOpen c w sk p cl s).done = s.done ++ [⟨s.now, w, w.result f⟩] := by
  cases hs : findSplit (w.pred c) s.queue with
  | none => rw [find_none_of_findSplit _ hs] at hf; cases hf
  | some r =>
    obtain ⟨pre, x, post⟩ := r
    rw [find_of_findSplit _ hs] at hf
    cases hf
    rw [scanOpen_some c hs]; exact ⟨rfl, rfl⟩

theorem scanOpen_notfound {s : Sys} {w : Want} {sk : List Frame} {p cl : Option Nat}
    (hf : s.queue.find? (w.pred c) = none) :
    scanOpen c w sk p cl s = { s with queue := [], client := .waiting w (sk ++ s.queue) p cl } :=
  scanOpen_none c (findSplit_of_find_none _ hf)

/-- no frame that cannot be unpacked among the complete frames of `buf ++ extra` -/
def noFatal (buf extra : Bytes) : Prop := ∀ i ∈ pendItems buf extra, i ≠ Item.fatal

/-- without a frame that cannot be unpacked the reader task parses everything and the connection stays open -/
theorem settle_rest (s : Sys) (ho : s.closed = false) (hnf : noFatal s.buf []) :
    (settle c yields s).closed = false ∧ (settle c yields s).buf = (parseAll doipCutter s.buf).2 := by
  generalize hn : s.buf.length = n
  induction n using Nat.strongRecOn generalizing s with
  | _ n ih =>
    cases hc : cut s.buf with
    | none =>
      rw [settle_none c yields s ho hc, clientRun_closed, clientRun_buf',
        parseAll_none doipCutter (by simpa [doipCutter] using hc)]
      exact ⟨ho, rfl⟩
    | some r =>
      obtain ⟨raw, rest⟩ := r
      have hl := cut_shrinks hc
      have hpi : pendItems s.buf [] = classify raw :: pendItems rest [] := pendItems_cut hc []
      have hnf1 : noFatal rest [] := fun i hi => hnf i (by rw [hpi]; simp [hi])
      have hraw : classify raw ≠ .fatal := hnf _ (by rw [hpi]; simp)
      have ho1 : (deliver c { s with buf := rest } raw).closed = false := by
        have : (classify raw).isFatal = false := by cases hcr : classify raw <;> simp_all [Item.isFatal]
        simp [deliver_closed, ho, this]
      rw [settle_some c yields s ho hc, if_neg (by simpa using ho1),
        parseAll_some doipCutter (by simpa [doipCutter] using hc)]
      split
      · have := ih _ (by rw [← hn]; exact hl) (clientRun c (deliver c { s with buf := rest } raw))
          (by rw [clientRun_closed]; exact ho1) (by simpa using hnf1) (by simp)
        simpa using this
      · have := ih _ (by rw [← hn]; exact hl) (deliver c { s with buf := rest } raw) ho1 (by simpa using hnf1) (by simp)
        simpa using this

/-- however the reader task and the blocked consumer are interleaved (`yields` arbitrary): the call ends now with the
    first frame - among what is queued and what is complete in the receive buffer, in arrival order - that passes its
    test; if there is none it goes on waiting, holding all of them -/
theorem settle_waiting (s : Sys) (w : Want) (sk : List Frame) (p cl : Option Nat)
    (ho : s.closed = false) (hcl : s.client = .waiting w sk p cl) (hnf : noFatal s.buf []) :
    (∀ f, (s.queue ++ qAll (pendItems s.buf [])).find? (w.pred c) = some f →
        (settle c yields s).client = .idle ∧ (settle c yields s).done = s.done ++ [⟨s.now, w, w.result f⟩]) ∧
    ((s.queue ++ qAll (pendItems s.buf [])).find? (w.pred c) = none →
        (settle c yields s).client = .waiting w (sk ++ (s.queue ++ qAll (pendItems s.buf []))) p cl ∧
        (settle c yields s).done = s.done) := by
  generalize hn : s.buf.length = n
  induction n using Nat.strongRecOn generalizing s sk with
  | _ n ih =>
    cases hc : cut s.buf with
    | none =>
      rw [settle_none c yields s ho hc, pendItems_none hc, clientRun_open c hcl ho]
      simp only [qAll_nil, List.append_nil]
      refine ⟨fun f hf => scanOpen_found c hf, fun hf => ?_⟩
      rw [scanOpen_notfound c hf]; exact ⟨rfl, rfl⟩
    | some r =>
      obtain ⟨raw, rest⟩ := r
      have hl := cut_shrinks hc
      have hpi : pendItems s.buf [] = classify raw :: pendItems rest [] := pendItems_cut hc []
      have hnf1 : noFatal rest [] := fun i hi => hnf i (by rw [hpi]; simp [hi])
      have hraw : classify raw ≠ .fatal := hnf _ (by rw [hpi]; simp)
      obtain ⟨s1, hs1⟩ : ∃ s1, s1 = deliver c { s with buf := rest } raw := ⟨_, rfl⟩
      have ho1 : s1.closed = false := by
        have : (classify raw).isFatal = false := by cases hcr : classify raw <;> simp_all [Item.isFatal]
        simp [hs1, deliver_closed, ho, this]
      have hcl1 : s1.client = .waiting w sk p cl := by simpa [hs1] using hcl
      have hq1 : s.queue ++ qAll (pendItems s.buf []) = s1.queue ++ qAll (pendItems rest []) := by
        simp [hs1, deliver_queue, hpi, qAll_cons, List.append_assoc]
      have hbuf1 : s1.buf = rest := by simp [hs1]
      have hb1 : s1.buf.length < n := by rw [hbuf1]; omega
      have hd1 : s1.done = s.done := by simp [hs1]
      have hn1 : s1.now = s.now := by simp [hs1]
      rw [settle_some c yields s ho hc, ← hs1, if_neg (by simpa using ho1), hq1, ← hd1, ← hn1]
      by_cases hy : yields raw = true
      · rw [if_pos hy]
        -- the reader task suspends: the consumer runs on what is queued so far
        rw [List.find?_append]
        cases hf1 : s1.queue.find? (w.pred c) with
        | some f =>
          have hrun : clientRun c s1 = scanOpen c w sk p cl s1 := clientRun_open c hcl1 ho1
          obtain ⟨i1, i2⟩ := scanOpen_found c (sk := sk) (p := p) (cl := cl) hf1
          obtain ⟨j1, j2⟩ := settle_idle c yields (clientRun c s1) (by rw [hrun]; exact i1)
          refine ⟨fun f' hf' => ?_, fun hf' => by simp at hf'⟩
          have hff : f = f' := by simpa using hf'
          subst hff
          exact ⟨j1, by rw [j2, hrun, i2]⟩
        | none =>
          have hrun : clientRun c s1 = { s1 with queue := [], client := .waiting w (sk ++ s1.queue) p cl } := by
            rw [clientRun_open c hcl1 ho1, scanOpen_notfound c hf1]
          have key := ih _ hb1 (clientRun c s1) (sk ++ s1.queue) (by rw [hrun]; exact ho1) (by rw [hrun])
            (by rw [hrun]; rw [← hbuf1] at hnf1; exact hnf1) (by rw [hrun])
          have e1 : (clientRun c s1).queue = [] := by rw [hrun]
          have e2 : (clientRun c s1).buf = rest := by rw [clientRun_buf', hbuf1]
          have e3 : (clientRun c s1).done = s1.done := by rw [hrun]
          have e4 : (clientRun c s1).now = s1.now := clientRun_now c s1
          rw [e1, e2, e3, e4] at key
          simp only [List.nil_append, Option.none_or] at key ⊢
          obtain ⟨k1, k2⟩ := key
          refine ⟨k1, fun hf => ?_⟩
          have := k2 hf
          exact ⟨by rw [this.1, List.append_assoc], this.2⟩
      · rw [if_neg hy]
        have key := ih _ hb1 s1 sk ho1 hcl1 (by rw [hbuf1]; exact hnf1) rfl
        rw [hbuf1] at key
        exact key

/-! ### a pending call over an arbitrary continuation of the execution -/

/-- the frames the reader task queues while `ops` happen, each with the instant it is queued - determined by the byte
    stream alone (as long as the reader task lives) -/
def rlog (buf : Bytes) (now : Nat) : List Op → List (Nat × Frame)
  | [] => []
  | .feed chunk :: ops =>
    (qAll (pendItems buf chunk)).map (fun f => (now, f)) ++ rlog (parseAll doipCutter (buf ++ chunk)).2 now ops
  | .advance dt :: ops => rlog buf (now + dt) ops
  | .activate _ _ :: ops => rlog buf now ops
  | .write _ _ :: ops => rlog buf now ops
  | .read _ :: ops => rlog buf now ops
  | .close :: ops => rlog buf now ops
  | .eof :: ops => rlog buf now ops

/-- the reader task survives `ops`: no frame it cannot unpack becomes complete, the stream does not end -/
def rsafe (buf : Bytes) : List Op → Prop
  | [] => True
  | .feed chunk :: ops => noFatal buf chunk ∧ rsafe (parseAll doipCutter (buf ++ chunk)).2 ops
  | .eof :: _ => False
  | .advance _ :: ops => rsafe buf ops
  | .activate _ _ :: ops => rsafe buf ops
  | .write _ _ :: ops => rsafe buf ops
  | .read _ :: ops => rsafe buf ops
  | .close :: ops => rsafe buf ops

instance (buf extra : Bytes) : Decidable (noFatal buf extra) := by unfold noFatal; exact inferInstance

def decRsafe : (buf : Bytes) → (ops : List Op) → Decidable (rsafe buf ops)
  | _, [] => isTrue trivial
  | buf, .feed chunk :: ops =>
    match (inferInstance : Decidable (noFatal buf chunk)), decRsafe (parseAll doipCutter (buf ++ chunk)).2 ops with
    | isTrue a, isTrue b => isTrue ⟨a, b⟩
    | isFalse a, _ => isFalse (fun h => a h.1)
    | _, isFalse b => isFalse (fun h => b h.2)
  | _, .eof :: _ => isFalse (fun h => h)
  | buf, .advance _ :: ops => decRsafe buf ops
  | buf, .activate _ _ :: ops => decRsafe buf ops
  | buf, .write _ _ :: ops => decRsafe buf ops
  | buf, .read _ :: ops => decRsafe buf ops
  | buf, .close :: ops => decRsafe buf ops

instance (buf : Bytes) (ops : List Op) : Decidable (rsafe buf ops) := decRsafe buf ops

/-- the clock after `ops` -/
def rnow (now : Nat) : List Op → Nat
  | [] => now
  | .advance dt :: ops => rnow (now + dt) ops
  | .feed _ :: ops => rnow now ops
  | .activate _ _ :: ops => rnow now ops
  | .write _ _ :: ops => rnow now ops
  | .read _ :: ops => rnow now ops
  | .close :: ops => rnow now ops
  | .eof :: ops => rnow now ops

/-- instant `t` lies strictly before the expiry `e` of the pending call's timers -/
def notDue (e : Option (Nat × Bool)) (t : Nat) : Bool :=
  match e with
  | some (d, _) => decide (t < d)
  | none => true

theorem rnow_ge (now : Nat) (ops : List Op) : now ≤ rnow now ops := by
  induction ops generalizing now with
  | nil => exact Nat.le_refl _
  | cons op ops ih =>
    cases op <;> simp only [rnow] <;> first | exact ih _ | exact Nat.le_trans (Nat.le_add_right _ _) (ih _)

theorem rlog_times (buf : Bytes) (now : Nat) (ops : List Op) : ∀ x ∈ rlog buf now ops, now ≤ x.1 := by
  induction ops generalizing buf now with
  | nil => intro x hx; simp [rlog] at hx
  | cons op ops ih =>
    cases op with
    | feed chunk =>
      intro x hx
      simp only [rlog, List.mem_append, List.mem_map] at hx
      rcases hx with ⟨f, _, rfl⟩ | hx
      · exact Nat.le_refl _
      · exact ih _ _ x hx
    | advance dt =>
      intro x hx
      exact Nat.le_trans (Nat.le_add_right _ _) (ih _ _ x hx)
    | activate a t => intro x hx; exact ih _ _ x hx
    | write d t => intro x hx; exact ih _ _ x hx
    | read t => intro x hx; exact ih _ _ x hx
    | close => intro x hx; exact ih _ _ x hx
    | eof => intro x hx; exact ih _ _ x hx

theorem startCall_waiting (s : Sys) (w : Want) (bytes : Option Bytes) (timeout : Option Nat) {w' : Want}
    {sk : List Frame} {p cl : Option Nat} (h : s.client = .waiting w' sk p cl) :
    startCall c s w bytes timeout = s := by
  unfold startCall; rw [h]

theorem exec_done_ext (ops : List Op) (s : Sys) (h : Inv c s) : ∃ more, (exec c yields s ops).done = s.done ++ more :=
  exec_stable c yields (doneExt_stable c s.done) ops s h.wf ⟨[], by simp⟩

theorem exec_closed (ops : List Op) (s : Sys) (h : Inv c s) (hc : s.closed = true) :
    (exec c yields s ops).closed = true :=
  exec_stable c yields (closed_stable c) ops s h.wf hc

theorem Inv_tick (s : Sys) (t : Nat) (h : Inv c s) : Inv c { s with now := t } :=
  ⟨fun w sk p cl hc => h.wf w sk p cl hc, h.idleIfClosed, h.drained, h.quiet⟩

/-- **a pending call over any continuation.**  `s` is any state between two events in which a call is blocked and its
    timers are not yet due; `ops` is any continuation during which the reader task survives.  Then, for every
    schedule: the call ends with the first frame passing its test among those the byte stream delivers strictly before
    its timers expire, at the instant that frame is queued; if there is none, it ends exactly at the expiry (with the
    caller's `TimeoutError`, or with a connection error and the connection closed when it is the protocol timer); and
    until then it is still blocked, holding every frame that arrived, in order. -/
theorem pending_run (ops : List Op) (s : Sys) (w : Want) (sk : List Frame) (p cl : Option Nat)
    (hinv : Inv c s) (hcl : s.client = .waiting w sk p cl) (hlt : notDue (expiry p cl) s.now = true)
    (hsafe : rsafe s.buf ops) :
    (∀ t f, ((rlog s.buf s.now ops).filter (fun x => notDue (expiry p cl) x.1)).find? (fun x => w.pred c x.2) = some (t, f) →
        ∃ more, (exec c yields s ops).done = s.done ++ ⟨t, w, w.result f⟩ :: more) ∧
    (((rlog s.buf s.now ops).filter (fun x => notDue (expiry p cl) x.1)).find? (fun x => w.pred c x.2) = none →
        ∀ d byC, expiry p cl = some (d, byC) → d ≤ rnow s.now ops →
          (∃ more, (exec c yields s ops).done = s.done ++ ⟨d, w, if byC then .timeout else .conn⟩ :: more) ∧
          (byC = false → (exec c yields s ops).closed = true)) ∧
    (((rlog s.buf s.now ops).filter (fun x => notDue (expiry p cl) x.1)).find? (fun x => w.pred c x.2) = none →
        notDue (expiry p cl) (rnow s.now ops) = true →
          (exec c yields s ops).client = .waiting w (sk ++ (rlog s.buf s.now ops).map (·.2)) p cl ∧
          (exec c yields s ops).done = s.done ∧ (exec c yields s ops).now = rnow s.now ops ∧
          (exec c yields s ops).closed = false) := by
  have hopen : ∀ s : Sys, Inv c s → ∀ {w sk p cl}, s.client = .waiting w sk p cl → s.closed = false := by
    intro s hinv w sk p cl hcl
    cases ho : s.closed with
    | false => rfl
    | true => rw [hinv.idleIfClosed ho] at hcl; cases hcl
  induction ops generalizing s sk with
  | nil =>
    refine ⟨fun t f h => by simp [rlog] at h, fun _ d byC he hd => ?_, fun _ _ => ?_⟩
    · simp only [rnow] at hd
      simp [notDue, he] at hlt
      omega
    · simp [exec, rlog, rnow, hcl, hopen s hinv hcl]
  | cons op ops ih =>
    rw [exec_cons]
    cases op with
    | activate a t =>
      rw [show execOp c yields s (.activate a t) = s by simp only [execOp]; exact startCall_waiting c s _ _ _ hcl]
      simp only [rlog, rnow]
      exact ih s sk hinv hcl hlt hsafe
    | write d t =>
      rw [show execOp c yields s (.write d t) = s by simp only [execOp]; exact startCall_waiting c s _ _ _ hcl]
      simp only [rlog, rnow]
      exact ih s sk hinv hcl hlt hsafe
    | read t =>
      rw [show execOp c yields s (.read t) = s by simp only [execOp]; exact startCall_waiting c s _ _ _ hcl]
      simp only [rlog, rnow]
      exact ih s sk hinv hcl hlt hsafe
    | close =>
      rw [show execOp c yields s .close = s by simp [execOp, hcl]]
      simp only [rlog, rnow]
      exact ih s sk hinv hcl hlt hsafe
    | eof => exact hsafe.elim
    | feed chunk =>
      obtain ⟨hnf, hsafe'⟩ := hsafe
      have ho := hopen s hinv hcl
      have hq : s.queue = [] := hinv.drained _ _ _ _ hcl
      obtain ⟨s0, hs0⟩ : ∃ s0 : Sys, s0 = { s with buf := s.buf ++ chunk } := ⟨_, rfl⟩
      have hpi : pendItems s0.buf [] = pendItems s.buf chunk := by simp [hs0, pendItems]
      have hnf0 : noFatal s0.buf [] := by unfold noFatal; rw [hpi]; exact hnf
      have ho0 : s0.closed = false := by rw [hs0]; exact ho
      have hcl0 : s0.client = .waiting w sk p cl := by rw [hs0]; exact hcl
      obtain ⟨w1, w2⟩ := settle_waiting c yields s0 w sk p cl ho0 hcl0 hnf0
      obtain ⟨r1, r2⟩ := settle_rest c yields s0 ho0 hnf0
      have hn0 := settle_now c yields s0
      have hinv1 : Inv c (settle c yields s0) := by rw [hs0]; exact execOp_inv c yields s (.feed chunk) hinv
      have hq0 : s0.queue ++ qAll (pendItems s0.buf []) = qAll (pendItems s.buf chunk) := by
        rw [hpi]; simp [hs0, hq]
      rw [hq0] at w1 w2
      have hS : execOp c yields s (.feed chunk) = settle c yields s0 := by rw [hs0]; rfl
      have hb0 : (settle c yields s0).buf = (parseAll doipCutter (s.buf ++ chunk)).2 := by rw [r2, hs0]
      have hnow0 : (settle c yields s0).now = s.now := by rw [hn0, hs0]
      have hd0 : s0.done = s.done := by rw [hs0]
      have hn0' : s0.now = s.now := by rw [hs0]
      rw [hd0, hn0'] at w1
      rw [hd0] at w2
      rw [hS]
      simp only [rlog, rnow, List.filter_append, List.find?_append]
      -- the frames of this chunk are all visible: the timers are not yet due
      have hvis : ((qAll (pendItems s.buf chunk)).map (fun f => (s.now, f))).filter (fun x => notDue (expiry p cl) x.1) =
          (qAll (pendItems s.buf chunk)).map (fun f => (s.now, f)) := by
        rw [List.filter_eq_self]
        intro x hx
        simp only [List.mem_map] at hx
        obtain ⟨f, _, rfl⟩ := hx
        exact hlt
      have hfind : ((qAll (pendItems s.buf chunk)).map (fun f => (s.now, f))).find? (fun x => w.pred c x.2) =
          ((qAll (pendItems s.buf chunk)).find? (w.pred c)).map (fun f => (s.now, f)) := by
        rw [List.find?_map]; rfl
      rw [hvis, hfind]
      cases hf : (qAll (pendItems s.buf chunk)).find? (w.pred c) with
      | some f =>
        obtain ⟨i1, i2⟩ := w1 f hf
        obtain ⟨more, hm⟩ := exec_done_ext c yields ops _ hinv1
        refine ⟨fun t f' h => ?_, fun h => by simp at h, fun h => by simp at h⟩
        simp at h
        obtain ⟨rfl, rfl⟩ := h
        exact ⟨more, by rw [hm, i2, List.append_assoc]; rfl⟩
      | none =>
        obtain ⟨i1, i2⟩ := w2 hf
        have key := ih (settle c yields s0) (sk ++ qAll (pendItems s.buf chunk)) hinv1 i1 (by rw [hnow0]; exact hlt)
          (by rw [hb0]; exact hsafe')
        rw [hb0, hnow0, i2] at key
        simp only [Option.map_none, Option.none_or]
        obtain ⟨k1, k2, k3⟩ := key
        refine ⟨k1, k2, fun h hnd => ?_⟩
        obtain ⟨a1, a2, a3, a4⟩ := k3 h hnd
        refine ⟨?_, a2, a3, a4⟩
        rw [a1]
        simp [List.map_append, List.map_map, Function.comp_def, List.append_assoc]
    | advance dt =>
      have hS : execOp c yields s (.advance dt) = { fire s (s.now + dt) with now := s.now + dt } := rfl
      have hstay : fire s (s.now + dt) = s → notDue (expiry p cl) (s.now + dt) = true →
          execOp c yields s (.advance dt) = { s with now := s.now + dt } ∧
          Inv c { s with now := s.now + dt } := by
        intro e1 _
        exact ⟨by rw [hS, e1], Inv_tick c s _ hinv⟩
      cases he : expiry p cl with
      | none =>
        have e1 : fire s (s.now + dt) = s := by unfold fire; rw [hcl]; simp [he]
        have hlt' : notDue (expiry p cl) (s.now + dt) = true := by simp [he, notDue]
        obtain ⟨e2, hinv2⟩ := hstay e1 hlt'
        rw [e2]
        have key := ih { s with now := s.now + dt } sk hinv2 hcl hlt' hsafe
        rw [he] at key
        simpa only [rlog, rnow] using key
      | some r =>
        obtain ⟨d, byC⟩ := r
        by_cases hdue : d ≤ s.now + dt
        · -- the timer fires at `d`
          have hfire : fire s (s.now + dt) =
              { s with now := d, queue := requeueFront sk s.queue, closed := s.closed || !byC }.finish w
                (if byC then .timeout else .conn) := by
            unfold fire; rw [hcl]; simp [he, hdue]
          obtain ⟨S1, hS1⟩ : ∃ S1 : Sys, S1 = execOp c yields s (.advance dt) := ⟨_, rfl⟩
          have hd1 : S1.done = s.done ++ [⟨d, w, if byC then .timeout else .conn⟩] := by
            rw [hS1, hS, hfire]; rfl
          have hc1 : S1.closed = (s.closed || !byC) := by rw [hS1, hS, hfire]; rfl
          have hinv1 : Inv c S1 := by rw [hS1]; exact execOp_inv c yields s _ hinv
          have hempty : ((rlog s.buf s.now (.advance dt :: ops)).filter (fun x => notDue (some (d, byC)) x.1)) = [] := by
            rw [List.filter_eq_nil_iff]
            intro x hx
            have := rlog_times s.buf (s.now + dt) ops x hx
            simp [notDue]; omega
          rw [← hS1, hempty]
          obtain ⟨more, hm⟩ := exec_done_ext c yields ops S1 hinv1
          refine ⟨fun t f h => by simp at h, fun _ d' byC' he' _ => ?_, fun _ hnd => ?_⟩
          · cases he'
            refine ⟨⟨more, by rw [hm, hd1, List.append_assoc]; rfl⟩, fun hb => ?_⟩
            exact exec_closed c yields ops S1 hinv1 (by rw [hc1, hb]; simp)
          · have := rnow_ge (s.now + dt) ops
            simp only [rnow, notDue] at hnd
            have hnd' := of_decide_eq_true hnd
            omega
        · have e1 : fire s (s.now + dt) = s := by unfold fire; rw [hcl]; simp [he, hdue]
          have hlt' : notDue (expiry p cl) (s.now + dt) = true := by simp [he, notDue]; omega
          obtain ⟨e2, hinv2⟩ := hstay e1 hlt'
          rw [e2]
          have key := ih { s with now := s.now + dt } sk hinv2 hcl hlt' hsafe
          rw [he] at key
          simpa only [rlog, rnow] using key

end Gallia.DoipSys
