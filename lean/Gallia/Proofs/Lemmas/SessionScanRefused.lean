import Gallia.Proofs.Lemmas.SessionScan
/-
  C09: replies the client refuses (`Ans.illegal`): they never enter the negative results, and a refused probe reply
  sets `recover_stack`.
-/
namespace Gallia.SessionScan

/-- every entry of `negative_results` stems from a negative response with that code -/
def NegInv (c : Cfg) (E : Ecu) (st : St) : Prop := ∀ row ∈ st.neg, ∃ p, edge c E p row.1 = .nrc row.2.2

theorem classify_neg (c : Cfg) (σ : List Sess) (s : Sess) (r : St × Ans) :
    (classify c σ s r).1.neg = r.1.neg ∨
      ∃ code, r.2 = .nrc code ∧ (classify c σ s r).1.neg = r.1.neg ++ [(s, σ, code)] := by
  obtain ⟨st, a⟩ := r
  cases a with
  | silent => left; rfl
  | illegal sw => left; rfl
  | nrc code =>
    by_cases hc : code = NRC_SFNS
    · left; simp [classify, hc]
    · right; exact ⟨code, rfl, by simp [classify, hc]⟩
  | pos =>
    left
    by_cases ht : c.thorough = true ∨ s ∉ σ <;> simp [classify, ht]

theorem probeOne_neg (c : Cfg) (E : Ecu) (σ : List Sess) (acc : St × Bool) (s : Sess) (h : NegInv c E acc.1) :
    NegInv c E (probeOne c E σ acc s).1 := by
  rw [probeOne_eq]
  split
  · exact h
  · split
    · exact h
    · have hsame := prepare_same c E σ acc
      split
      · intro row hrow
        have h' : row ∈ (prepare c E σ acc).1.neg := hrow
        rw [hsame.2.2.1] at h'
        exact h row h'
      · have hd := dsc_same c E .probe (top σ) s (prepare c E σ acc).1
        have ha := dsc_ans c E .probe (top σ) s (prepare c E σ acc).1
        rcases classify_neg c σ s (dsc c E .probe (top σ) s (prepare c E σ acc).1) with h1 | ⟨code, h1, h2⟩
        · intro row hrow
          rw [h1, hd.2.2.1, hsame.2.2.1] at hrow
          exact h row hrow
        · intro row hrow
          rw [h2, hd.2.2.1, hsame.2.2.1] at hrow
          rcases List.mem_append.1 hrow with h3 | h3
          · exact h row h3
          · simp only [List.mem_singleton] at h3
            subst h3
            exact ⟨_, by rw [← ha]; exact h1⟩

theorem probeFold_neg (c : Cfg) (E : Ecu) (σ ls : List Sess) (acc : St × Bool) (h : NegInv c E acc.1) :
    NegInv c E (ls.foldl (probeOne c E σ) acc).1 := by
  induction ls generalizing acc with
  | nil => exact h
  | cons s ls ih => rw [List.foldl_cons]; exact ih _ (probeOne_neg c E σ acc s h)

theorem processStack_neg (c : Cfg) (E : Ecu) (st : St) (σ : List Sess) (h : NegInv c E st) :
    NegInv c E (processStack c E st σ) := by
  rw [processStack_eq]
  split
  · exact h
  · split
    · exact h
    · exact probeFold_neg c E σ sessions _ h

theorem processFold_neg (c : Cfg) (E : Ecu) (L : List (List Sess)) (st : St) (h : NegInv c E st) :
    NegInv c E (L.foldl (processStack c E) st) := by
  induction L generalizing st with
  | nil => exact h
  | cons σ L ih => rw [List.foldl_cons]; exact ih _ (processStack_neg c E st σ h)

theorem scanLoop_neg (c : Cfg) (E : Ecu) (n : Nat) (st : St) (h : NegInv c E st) : NegInv c E (scanLoop c E n st) := by
  induction n generalizing st with
  | zero => exact h
  | succ n ih =>
    unfold scanLoop
    split
    · exact h
    · exact ih _ (by unfold level; exact processFold_neg c E st.found _ h)

theorem scan_neg (c : Cfg) (E : Ecu) : NegInv c E (scan c E) :=
  scanLoop_neg c E c.depth initSt (fun _ h => by cases h)

/-- a refused probe reply: nothing is recorded, `recover_stack` is set, the scan goes on -/
theorem probeOne_refused (c : Cfg) (E : Ecu) (σ : List Sess) (acc : St × Bool) (s : Sess)
    (hab : acc.1.aborted = false) (hs : s ∉ c.skip) (hp : (prepare c E σ acc).2 = true)
    (hr : (edge c E (prepare c E σ acc).1.cur s).refused = true) :
    (probeOne c E σ acc s).2 = true ∧ SameRes acc.1 (probeOne c E σ acc s).1 := by
  rw [probeOne_eq, if_neg (by simp [hab]), if_neg hs, if_neg (by simp [hp])]
  have hd := dsc_same c E .probe (top σ) s (prepare c E σ acc).1
  have ha := dsc_ans c E .probe (top σ) s (prepare c E σ acc).1
  have hsame := prepare_same c E σ acc
  generalize dsc c E .probe (top σ) s (prepare c E σ acc).1 = r at hd ha
  obtain ⟨st, a⟩ := r
  simp only at ha hd
  rw [← ha] at hr
  cases a with
  | illegal sw => exact ⟨rfl, hsame.trans hd⟩
  | pos => cases hr
  | silent => cases hr
  | nrc n => cases hr

end Gallia.SessionScan
