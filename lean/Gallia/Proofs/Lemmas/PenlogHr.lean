import Gallia.Proofs.Lemmas.PenlogSchema
/-
  C17 helper lemmas, part 6: `hr` over written logs (walk, modes, files), containers.
-/
namespace Gallia.Penlog

/-! ### records that can be read back -/

def dt0 : DT := { year := 1, month := 1, day := 1, hour := 0, minute := 0, second := 0, micro := 0, off := none }

/-- the timestamp a flat record's `datetime` text denotes -/
def dtOf (r : Rec) : DT :=
  match parseIso r.datetime with
  | .ok d => d
  | _ => dt0

/-- a flat record the reader accepts: valid text, a priority 0..8, a timestamp `fromisoformat` accepts -/
def Rec.Readable (r : Rec) : Prop := r.WF ∧ r.prio ≤ 8 ∧ parseIso r.datetime = .ok (dtOf r)

/-- what `hr` emits for a read-back written record: the `PenlogRecord` and its printed text -/
def shown (r : Rec) : Shown := (asRead r (dtOf r), fmtText r (dtOf r))

/-- `islice(..., n)` -/
def limTake {α} : Option Nat → List α → List α
  | none, l => l
  | some n, l => l.take n

theorem limTake_nil {α} (lim : Option Nat) : limTake lim ([] : List α) = [] := by
  cases lim <;> simp [limTake]

/-! ### the walk over a written log -/

theorem walkL_written (E : Env) (hE : E.LoadsOk) (pfx : Bool) (rs : List Rec) (hr : ∀ r ∈ rs, r.Readable) (p : Nat)
    (is : List Nat) (his : ∀ i ∈ is, i < rs.length) (lim : Option Nat) :
    walkL E (lineAt (fileOf pfx rs)) p lim is =
      (limTake lim (((is.filterMap (fun i => rs[i]?)).filter (keep p)).map shown), none) := by
  induction is generalizing lim with
  | nil => simp [walkL, limTake_nil]
  | cons i rest ih =>
    have hi : i < rs.length := his i (by simp)
    have hrest : ∀ j ∈ rest, j < rs.length := fun j hj => his j (by simp [hj])
    have hri := hr rs[i] (List.getElem_mem hi)
    obtain ⟨hwf, hp8, hdt⟩ := hri
    have hline : lineAt (fileOf pfx rs) i = writeLine pfx rs[i] := lineAt_fileOf pfx rs i hi
    have hprio := linePrioE_writeLine E hE pfx rs[i] hwf (dtOf rs[i]) hdt hp8
    have hrec : lineRecord E (writeLine pfx rs[i]) = .ok (asRead rs[i] (dtOf rs[i])) := by
      rw [lineRecord_writeLine E hE pfx rs[i] hwf, readObj_recObj rs[i] (dtOf rs[i]) hdt hp8]
    have hfmt := fmtRec_asRead rs[i] (dtOf rs[i])
    have hget : rs[i]? = some rs[i] := List.getElem?_eq_getElem hi
    have hcons : (i :: rest).filterMap (fun i => rs[i]?) = rs[i] :: rest.filterMap (fun i => rs[i]?) := by
      simp [hget]
    rw [hcons]
    cases lim with
    | some n =>
      cases n with
      | zero => simp [walkL, limTake]
      | succ m =>
        rw [walkL]
        · simp only [hline, hprio, hrec, hfmt]
          by_cases hk : rs[i].prio ≤ p
          · have hk' : ((rs[i].prio : Int) ≤ (p : Int)) := by omega
            have hkeep : keep p rs[i] = true := by simp [keep, hk]
            simp only [hk', if_true, Option.map_some, Nat.add_sub_cancel, ih hrest (some m), List.filter_cons, hkeep,
              List.map_cons, limTake, List.take_succ_cons]
            rfl
          · have hk' : ¬ ((rs[i].prio : Int) ≤ (p : Int)) := by omega
            have hkeep : keep p rs[i] = false := by simp [keep, hk]
            simp only [hk', if_false, ih hrest (some (m + 1)), List.filter_cons, hkeep]
            simp
        · intro h; simp at h
    | none =>
      rw [walkL]
      · simp only [hline, hprio, hrec, hfmt]
        by_cases hk : rs[i].prio ≤ p
        · have hk' : ((rs[i].prio : Int) ≤ (p : Int)) := by omega
          have hkeep : keep p rs[i] = true := by simp [keep, hk]
          simp only [hk', if_true, Option.map_none, ih hrest none, List.filter_cons, hkeep, List.map_cons, limTake]
          rfl
        · have hk' : ¬ ((rs[i].prio : Int) ≤ (p : Int)) := by omega
          have hkeep : keep p rs[i] = false := by simp [keep, hk]
          simp only [hk', if_false, ih hrest none, List.filter_cons, hkeep]
          simp
      · intro h; simp at h

theorem filterMap_via_map (rs : List Rec) (is : List Nat) :
    is.filterMap (fun i => rs[i]?) = (is.map (fun i => rs[i]?)).filterMap id := by
  rw [List.filterMap_map]; rfl

theorem filterMap_getElem?_range (rs : List Rec) : (List.range rs.length).filterMap (fun i => rs[i]?) = rs := by
  rw [filterMap_via_map, map_getElem?_range, List.filterMap_map]
  simp

theorem filterMap_getElem?_range_reverse (rs : List Rec) :
    (List.range rs.length).reverse.filterMap (fun i => rs[i]?) = rs.reverse := by
  rw [List.filterMap_reverse, filterMap_getElem?_range]

theorem filterMap_getElem?_range_drop (rs : List Rec) (k : Nat) :
    ((List.range rs.length).drop k).filterMap (fun i => rs[i]?) = rs.drop k := by
  rw [filterMap_via_map, List.map_drop, map_getElem?_range, ← List.map_drop, List.filterMap_map]
  simp

/-! ### one file in every mode -/

/-- the body of `_main`'s loop on a written log: exactly the slice the plan denotes, no exception -/
theorem hrOne_written (E : Env) (hE : E.LoadsOk) (pfx : Bool) (rs : List Rec) (hr : ∀ r ∈ rs, r.Readable)
    (plan : Plan) (hn : 0 ≤ plan.n) :
    hrOne E plan (fileOf pfx rs) = ((slice plan.mode plan.n.toNat plan.prio rs).map shown, none) := by
  have hlen : len (fileOf pfx rs) = rs.length := len_fileOf pfx rs
  unfold hrOne hrOneL
  rw [hlen]
  cases hm : plan.mode with
  | forward =>
    simp only [visit]
    rw [walkL_written E hE pfx rs hr plan.prio _ (fun i hi => List.mem_range.mp hi) none, filterMap_getElem?_range]
    rfl
  | reverse =>
    simp only [visit]
    rw [walkL_written E hE pfx rs hr plan.prio _ (fun i hi => List.mem_range.mp (List.mem_reverse.mp hi)) none,
      filterMap_getElem?_range_reverse, List.filter_reverse]
    rfl
  | head =>
    have : ¬ plan.n < 0 := by omega
    simp only [visit, this, if_false]
    rw [walkL_written E hE pfx rs hr plan.prio _ (fun i hi => List.mem_range.mp hi) (some plan.n.toNat),
      filterMap_getElem?_range]
    simp only [limTake, slice, List.map_take]
    rfl
  | tail =>
    have h1 : ¬ (max ((rs.length : Int) - plan.n) 0 > (rs.length : Int)) := by omega
    have h2 : (max ((rs.length : Int) - plan.n) 0).toNat = rs.length - plan.n.toNat := by omega
    simp only [h1, if_false, h2, visit]
    rw [walkL_written E hE pfx rs hr plan.prio _ (fun i hi => List.mem_range.mp (List.mem_of_mem_drop hi)) none,
      filterMap_getElem?_range_drop]
    rfl

/-! ### the files of a plan -/

/-- the files `fs` of a command line, as the file system and the decompressors present them from the standard
    input `stdin` on: each opens to the log written for a list of records (`logs`, with / without prefix) -/
inductive Opens (E : Env) (fs : Str → Node) : Bs → List Str → List (Bool × List Rec) → Prop
  | nil (stdin : Bs) : Opens E fs stdin [] []
  | cons (stdin stdin2 : Bs) (f : Str) (rest : List Str) (pfx : Bool) (rs : List Rec) (logs : List (Bool × List Rec))
      (h : openPath E fs stdin f = .content (fileOf pfx rs) stdin2) (t : Opens E fs stdin2 rest logs) :
      Opens E fs stdin (f :: rest) ((pfx, rs) :: logs)

theorem hrFiles_written (E : Env) (hE : E.LoadsOk) (fs : Str → Node) (plan : Plan) (hn : 0 ≤ plan.n)
    (stdin : Bs) (files : List Str) (logs : List (Bool × List Rec)) (ho : Opens E fs stdin files logs)
    (hr : ∀ l ∈ logs, ∀ r ∈ l.2, r.Readable) :
    hrFiles E fs plan stdin files =
      (logs.flatMap (fun l => (slice plan.mode plan.n.toNat plan.prio l.2).map shown), .code 0) := by
  induction ho with
  | nil stdin => simp [hrFiles, hrFilesW]
  | cons stdin stdin2 f rest pfx rs logs h t ih =>
    have h1 := hrOne_written E hE pfx rs (hr (pfx, rs) (by simp)) plan hn
    have ih' := ih (fun l hl => hr l (by simp [hl]))
    unfold hrFiles at ih' ⊢
    simp only [hrFilesW, h, h1, ih', List.flatMap_cons]

/-! ### containers -/

theorem lastDot_none (t : Str) (h : 46 ∉ t) : lastDot t = none := by
  induction t with
  | nil => rfl
  | cons c t ih =>
    have hc : c ≠ 46 := fun e => h (by simp [e])
    simp [lastDot, ih (fun hm => h (by simp [hm])), hc]

theorem lastDot_append (stem t : Str) (h : 46 ∉ t) : lastDot (stem ++ 46 :: t) = some stem.length := by
  induction stem with
  | nil => simp [lastDot, lastDot_none t h]
  | cons c s ih => simp [lastDot, ih]

theorem lastDot_lt (name : Str) (i : Nat) (h : lastDot name = some i) : i < name.length := by
  induction name generalizing i with
  | nil => simp [lastDot] at h
  | cons c t ih =>
    unfold lastDot at h
    cases hl : lastDot t with
    | some j =>
      simp only [hl, Option.some.injEq] at h
      subst h
      have := ih j hl
      simp [this]
    | none =>
      simp only [hl] at h
      by_cases hc : c = 46
      · subst hc
        simp at h
        subst h
        simp
      · simp [hc] at h

/-- `Path.suffix == suf` for a suffix `.xyz` (a dot followed by a non-empty dot-free word) says exactly that the name
    is a non-empty stem followed by the suffix -/
theorem pySuffix_eq_iff (name t : Str) (ht : t ≠ []) (hdot : 46 ∉ t) :
    pySuffix name = 46 :: t ↔ ∃ stem, stem ≠ [] ∧ name = stem ++ 46 :: t := by
  constructor
  · intro h
    unfold pySuffix at h
    cases hl : lastDot name with
    | none => simp [hl] at h
    | some i =>
      simp only [hl] at h
      by_cases hc : 0 < i ∧ i < name.length - 1
      · simp only [hc, and_self, if_true] at h
        refine ⟨name.take i, ?_, ?_⟩
        · intro he
          have : (name.take i).length = 0 := by rw [he]; rfl
          rw [List.length_take] at this
          omega
        · rw [← h, List.take_append_drop]
      · simp [hc] at h
  · rintro ⟨stem, hne, rfl⟩
    unfold pySuffix
    rw [lastDot_append stem t hdot]
    have hpos : 0 < stem.length := List.length_pos_iff.mpr hne
    have htl : 0 < t.length := List.length_pos_iff.mpr ht
    have : 0 < stem.length ∧ stem.length < (stem ++ 46 :: t).length - 1 := by
      simp only [List.length_append, List.length_cons]; omega
    simp [this, ht]

theorem detect_zst_iff (path : Str) : detect path = .zst ↔ ∃ stem, stem ≠ [] ∧ pyName path = stem ++ sufZst := by
  have h := pySuffix_eq_iff (pyName path) [122, 115, 116] (by decide) (by decide)
  unfold detect
  constructor
  · intro hd
    by_cases h1 : pySuffix (pyName path) = sufZst
    · exact h.mp h1
    · by_cases h2 : pySuffix (pyName path) = sufGz
      · simp [h1, h2] at hd
        exact absurd hd (by decide)
      · simp [h1, h2] at hd
  · intro he
    have := h.mpr he
    simp [sufZst, this]

theorem detect_gz_iff (path : Str) : detect path = .gz ↔ ∃ stem, stem ≠ [] ∧ pyName path = stem ++ sufGz := by
  have h := pySuffix_eq_iff (pyName path) [103, 122] (by decide) (by decide)
  unfold detect
  constructor
  · intro hd
    by_cases h1 : pySuffix (pyName path) = sufZst
    · simp [h1] at hd
    · by_cases h2 : pySuffix (pyName path) = sufGz
      · exact h.mp h2
      · simp [h1, h2] at hd
  · intro he
    have h2 := h.mpr he
    have h1 : ¬ ([46, 103, 122] : Str) = sufZst := by decide
    simp [sufGz, h2, h1]

/-- the trusted decompressors invert the compressors `enc` (zstandard / gzip contract; plain files are stored as is) -/
def Env.Decodes (E : Env) (enc : Kind → Bs → Bs) : Prop :=
  (∀ x, enc .plain x = x) ∧ (∀ x, E.zstDec (enc .zst x) = some x) ∧ (∀ x, E.gzDec (enc .gz x) = some x)

theorem openPath_file (E : Env) (enc : Kind → Bs → Bs) (hD : E.Decodes enc) (fs : Str → Node) (stdin : Bs) (path : Str)
    (x : Bs) (hp : path ≠ dash) (hf : fs path = .file (enc (detect path) x)) :
    openPath E fs stdin path = .content x stdin := by
  obtain ⟨h1, h2, h3⟩ := hD
  unfold openPath
  simp only [hp, if_false, hf]
  cases hk : detect path with
  | plain => simp [h1]
  | zst => simp [h2]
  | gz => simp [h3]

theorem openPath_dash (E : Env) (fs : Str → Node) (stdin : Bs) : openPath E fs stdin dash = .content stdin [] := by
  simp [openPath]

end Gallia.Penlog
