import Gallia.Model.TransportReconnect
/-
  Helper lemmas about the retry loop of `BaseTransport.reconnect` (Model/TransportReconnect.lean).
-/
namespace Gallia.TransportReconnect

theorem rcLoop_bounded (outcome : Nat → ConnRes) (c T k t : Nat) :
    (rcLoop outcome c T k t).attempts ≤ k + (T - t) / 100 + 1 ∧ (rcLoop outcome c T k t).elapsed ≤ T := by
  fun_induction rcLoop outcome c T k t with
  | case1 k t h => simp only [Nat.le_refl, and_true]; omega
  | case2 k t h ho => simp only; omega
  | case3 k t h ho h2 => simp only [Nat.le_refl, and_true]; omega
  | case4 k t h ho h2 ih =>
    simp only [retryMs] at *
    refine ⟨?_, ih.2⟩
    have := ih.1
    omega
  | case5 k t h hr0 hr1 => simp only; omega

theorem rcLoop_refused_forever (outcome : Nat → ConnRes) (h : ∀ k, outcome k = .refused) (c T k t : Nat) :
    (rcLoop outcome c T k t).out = .deadline := by
  fun_induction rcLoop outcome c T k t with
  | case1 => rfl
  | case2 k t _ ho => rw [h k] at ho; cases ho
  | case3 => rfl
  | case4 k t _ _ _ ih => exact ih
  | case5 k t _ r hr1 => exact absurd (h k) hr1

end Gallia.TransportReconnect
