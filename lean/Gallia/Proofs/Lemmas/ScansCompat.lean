import Gallia.Proofs.Lemmas.ScansId
/-
  The helper lemmas of the first version of C10 (stated for `--check-session` off), kept under their names as
  corollaries of the general lemmas (`ScansFrame`, `ScansLog`, `ScansSpec`, `ScansId`).
-/
namespace Gallia.Scans
open Gallia

variable {σ : Type}

theorem sessionCheck_nocheck (e : Ecu σ) (cfg : SvcCfg) (hc : cfg.checkSession = false) (session : Option Nat) (s : σ) :
    sessionCheck e cfg session s = (s, .ok true) := by
  unfold sessionCheck
  cases session <;> simp [hc]

/-- unfolding of one iteration of `perform_scan` when `--check-session` is off -/
theorem performScanFrom_cons_nocheck (e : Ecu σ) (cfg : SvcCfg) (hc : cfg.checkSession = false)
    (session : Option Nat) (sid : Nat) (rest : List Nat) (s : σ) :
    performScanFrom e cfg session (sid :: rest) s =
      if !sidSelected cfg session sid then performScanFrom e cfg session rest s
      else
        match probeLens e sid probeLengths s with
        | (s1, .raised w) => (s1, .raised w)
        | (s1, .ok (r, c)) =>
          match performScanFrom e cfg session rest s1 with
          | (s2, .raised w) => (s2, .raised w)
          | (s2, .ok out) =>
            (s2, .ok ⟨(match r with | some a => [(sid, a)] | none => []) ++ out.found, c && out.clean, out.abortedAt⟩) := by
  simp only [performScanFrom, sessionCheck_nocheck e cfg hc]
  split <;> rfl

/-- the probe loop for one service id logs only probes of that id, starting with the first probe length -/
theorem probeLens_log (e : Ecu σ) (sid : Nat) (ls : List Nat) (s : σ × List Bytes) :
    ∃ new, (probeLens (logged e) sid ls s).1.2 = new ++ s.2 ∧
      (∀ r ∈ new, ∃ l ∈ ls, r = probePdu sid l) ∧
      (∀ l rest, ls = l :: rest → probePdu sid l ∈ new) := by
  have hg : GrewBy (·.2) (fun r => ∃ l ∈ ls, r = probePdu sid l) s (probeLens (logged e) sid ls s).1 :=
    probeLens_inv (logged e) (GrewBy (·.2) (fun r => ∃ l ∈ ls, r = probePdu sid l) s) sid ls
      (fun s' l hl h => GrewBy.step (logged_logs e) _ s s' _ ⟨l, hl, rfl⟩ h) s (GrewBy.refl _ _ s)
  obtain ⟨new, h1, h2⟩ := hg
  refine ⟨new, h1, h2, ?_⟩
  intro l rest hls
  subst hls
  obtain ⟨new', h1', hm⟩ := probeLens_first (logged_logs e) sid l rest s
  have : new' = new := List.append_cancel_right (h1'.symm.trans h1)
  rw [← this]; exact hm

/-- requests of `perform_scan` (check-session off): only probes of selected service ids, and — when the scan ends
    normally — the first probe of every selected service id -/
theorem performScanFrom_log (e : Ecu σ) (cfg : SvcCfg) (hc : cfg.checkSession = false) (session : Option Nat)
    (sids : List Nat) (hs : ∀ sid ∈ sids, sid < 256) (s : σ × List Bytes) :
    ∃ new, (performScanFrom (logged e) cfg session sids s).1.2 = new ++ s.2 ∧
      (∀ r ∈ new, ∃ sid, sid < 256 ∧ sidSelected cfg session sid = true ∧ ∃ l ∈ probeLengths, r = probePdu sid l) ∧
      (∀ out, (performScanFrom (logged e) cfg session sids s).2 = .ok out →
        ∀ sid ∈ sids, sidSelected cfg session sid = true → probePdu sid 1 ∈ new) := by
  obtain ⟨new, h1, h2⟩ := performScanFrom_sends (logged_logs e) cfg session sids hs s
  refine ⟨new, h1, ?_, ?_⟩
  · intro r hr
    rcases h2 r hr with h | ⟨hc', _⟩
    · exact h
    · rw [hc] at hc'; cases hc'
  · intro out hout sid hsid hsel
    -- with the check off a scan is never given up
    have hab : out.abortedAt = none := by
      cases hab : out.abortedAt with
      | none => rfl
      | some x =>
        exfalso
        clear h1 h2
        induction sids generalizing s out with
        | nil => simp only [performScanFrom, R.ok.injEq] at hout; subst hout; cases hab
        | cons sid' rest ih =>
          rw [performScanFrom_cons_nocheck _ cfg hc] at hout
          split at hout
          · exact ih (fun x hx => hs x (by simp [hx])) s out hout (by
              simp only [List.mem_cons] at hsid
              rcases hsid with rfl | h
              · rename_i hns; simp [hsel] at hns
              · exact h) hab
          · cases hp : probeLens (logged e) sid' probeLengths s with
            | mk s1 r1 =>
              rw [hp] at hout
              cases r1 with
              | raised w => simp at hout
              | ok v =>
                obtain ⟨r, c⟩ := v
                simp only [] at hout
                cases hq : performScanFrom (logged e) cfg session rest s1 with
                | mk s2 r2 =>
                  rw [hq] at hout
                  cases r2 with
                  | raised w => simp at hout
                  | ok out' =>
                    simp only [R.ok.injEq] at hout
                    subst hout
                    -- the abort flag comes from the rest
                    have : ∀ (l : List Nat) (s' : σ × List Bytes) (o : ScanOut),
                        (performScanFrom (logged e) cfg session l s').2 = .ok o → o.abortedAt = none := by
                      intro l
                      induction l with
                      | nil => intro s' o ho; simp only [performScanFrom, R.ok.injEq] at ho; subst ho; rfl
                      | cons a l ihl =>
                        intro s' o ho
                        rw [performScanFrom_cons_nocheck _ cfg hc] at ho
                        split at ho
                        · exact ihl s' o ho
                        · cases hp' : probeLens (logged e) a probeLengths s' with
                          | mk t1 q1 =>
                            rw [hp'] at ho
                            cases q1 with
                            | raised w => simp at ho
                            | ok v' =>
                              obtain ⟨r', c'⟩ := v'
                              simp only [] at ho
                              cases hq' : performScanFrom (logged e) cfg session l t1 with
                              | mk t2 q2 =>
                                rw [hq'] at ho
                                cases q2 with
                                | raised w => simp at ho
                                | ok o' =>
                                  simp only [R.ok.injEq] at ho
                                  subst ho
                                  exact ihl t1 o' (by rw [hq'])
                    have := this rest s1 out' (by rw [hq])
                    simp only [] at hab
                    rw [this] at hab; cases hab
    obtain ⟨new', h1', hcov⟩ := performScanFrom_cover (logged_logs e) cfg session sids hs s out hout hab
    have : new' = new := List.append_cancel_right (h1'.symm.trans h1)
    rw [← this]; exact hcov sid hsid hsel

/-- the session loop of the service scan: soundness and completeness in one statement (every configuration) -/
theorem svcSessions_spec {e : Ecu σ} (E : SessEcu e) (supp : Nat → Nat → Bool) (iso : IsoServiceRule E.ans supp)
    (cfg : SvcCfg) (hin : HooksInert cfg.hooks) (hq : HooksAnswered E.ans cfg.hooks)
    (sessions : List Nat) (hlt : ∀ k ∈ sessions, k < 0x80)
    (henter : ∀ ss t, t ∈ sessions → (E.ans ss (dscPdu t)).isPos = true)
    (hrb : cfg.checkSession = true → ∀ k ∈ sessions, ReadBackOk E.ans k)
    (hstuck : ∀ ss sid l, E.ans ss (probePdu sid l) ≠ .stuck)
    (hreset : ∀ ss l, cfg.reset = some l → E.ans ss (resetPdu l) ≠ .illegal ∧ E.ans ss (resetPdu l) ≠ .stuck)
    (hping : ∀ ss, E.ans ss pingPdu ≠ .stuck) (s : σ) :
    ∃ r, (svcSessions e cfg sessions s).2 = .ok r ∧
      (∀ p ∈ r.result, p.1 ∈ sessions ∧ p.2 < 256 ∧ sidSelected cfg (some p.1) p.2 = true ∧ supp p.1 p.2 = true) ∧
      (∀ k ∈ sessions, ∀ sid, sid < 256 → sidSelected cfg (some k) sid = true → supp k sid = true →
          (∃ l ∈ probeLengths, (E.ans k (probePdu sid l)).meaningful = true) → (k, sid) ∈ r.result) := by
  obtain ⟨r, h1, _, h3⟩ := svcSessions_complete E supp iso cfg hin hq sessions hlt (fun _ => true)
    (fun ss k hk => henter ss k hk) hrb hstuck hreset hping s
  refine ⟨r, h1, ?_, fun k hk sid a c d f => h3 k hk rfl sid a c d f⟩
  intro p hp
  obtain ⟨a, c, d, f, _⟩ := svcSessions_sound E supp iso cfg hin sessions hlt s r h1 p hp
  exact ⟨a, c, d, f⟩

/-- unfolding of one iteration of the identifier loop when `--check-session` is off -/
theorem idLoop_cons_nocheck (e : Ecu σ) (cfg : IdCfg) (hc : cfg.checkSession = none) (session : Option Nat)
    (did sf : Nat) (rest : List (Nat × Nat)) (c : IdCount) (s : σ) :
    idLoop e cfg session ((did, sf) :: rest) c s =
      if skipped cfg.skip session did then idLoop e cfg session rest c s
      else
        match e.step s (idPdu cfg did sf) with
        | (s1, .timeout) => idLoop e cfg session rest c.addTo s1
        | (s1, .illegal) => idLoop e cfg session rest c s1
        | (s1, .stuck) => (s1, .raised "RuntimeError")
        | (s1, .pos _) => idLoop e cfg session rest c.addPos s1
        | (s1, .neg code) =>
          if serviceNotSupportedCodes.contains code then
            if cfg.skipNotSupported then (s1, .ok ⟨c, true⟩) else idLoop e cfg session rest c s1
          else if code = ROOR ∨ code = SFNS then idLoop e cfg session rest c s1
          else idLoop e cfg session rest c.addAbn s1 := by
  have hchk : idSessionCheck e cfg session did s = (s, .ok true) := by
    unfold idSessionCheck; rw [hc]; cases session <;> rfl
  simp only [idLoop, hchk]
  split <;> rfl

/-- the identifier loop on a session-determined ECU (check-session and skip-not-supported off, scanned service
    not 0x10 / 0x11, no probe answered by an endless ResponsePending sequence): it completes, stays in the session,
    sends exactly the requests of the non-skipped (identifier, sub-function) pairs in order, and its positive counter
    grows by exactly the number of those pairs the ECU answers positively -/
theorem idLoop_spec {e : Ecu σ} (E : SessEcu e) (cfg : IdCfg) (hc : cfg.checkSession = none)
    (hns : cfg.skipNotSupported = false) (hsvc : cfg.service < 256) (h10 : cfg.service ≠ 0x10) (h11 : cfg.service ≠ 0x11)
    (session : Option Nat) (pairs : List (Nat × Nat)) (c : IdCount) (s : σ × List Bytes)
    (hstuck : ∀ did sf, E.ans (E.sess s.1) (idPdu cfg did sf) ≠ .stuck) :
    ∃ out, (idLoop (logged e) cfg session pairs c s).2 = .ok out ∧ out.completed = true ∧
      E.sess (idLoop (logged e) cfg session pairs c s).1.1 = E.sess s.1 ∧
      (idLoop (logged e) cfg session pairs c s).1.2 =
        ((pairs.filter fun p => !skipped cfg.skip session p.1).map fun p => idPdu cfg p.1 p.2).reverse ++ s.2 ∧
      out.counts.positive = c.positive +
        (pairs.filter fun p => !skipped cfg.skip session p.1 && (E.ans (E.sess s.1) (idPdu cfg p.1 p.2)).isPos).length := by
  -- the logging ECU is session-determined as well
  let E' : SessEcu (logged e) :=
    { sess := fun st => E.sess st.1
      ans := E.ans
      step_ans := fun st p => E.step_ans st.1 p
      sess_keep := fun st p a b => E.sess_keep st.1 p a b
      sess_neg := fun st p a => E.sess_neg st.1 p a
      dsc_pos := fun st x a b => E.dsc_pos st.1 x a b
      reserved0 := E.reserved0 }
  obtain ⟨out, h1, h2, h3, h4⟩ := idLoop_count E' cfg hns hsvc h10 h11 session (E.sess s.1)
    (fun k n _ hn => by rw [hc] at hn; cases hn) hstuck pairs c s rfl
  obtain ⟨_, h5⟩ := idLoop_requests e cfg hc hns session pairs c s out h1
  exact ⟨out, h1, h2, h3, h5, h4⟩

end Gallia.Scans
