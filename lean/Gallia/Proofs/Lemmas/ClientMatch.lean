import Gallia.Proofs.Lemmas.ClientIO
import Gallia.Proofs.Lemmas.UdsMatch
import Gallia.Model.ClientMatch
/-
  C03 x C04 — helper lemmas for the byte-level client (`Model/ClientMatch.lean`): what the C04 specification lets a request
  end with, read off the event of the read it names; the classification of a frame in the vocabulary of `Spec/Reply.lean`.
-/
namespace Gallia.ClientMatch
open Gallia Gallia.UdsReq Gallia.UdsResp Gallia.UdsMatch Gallia.Reply Gallia.Client Gallia.ClientSpec Gallia.ClientIO
  Gallia.ClientIOSpec

/-- a request that ends with `reply k'` read a final reply or a busyRepeatRequest there; one that ends with `illegal k'`
    read a mismatching / malformed frame there -/
theorem impliedX_event {B : Bounds} {io : Script} {ph : PhaseX} {b j k m : Nat} {o : OutX}
    (h : ImpliedX B io ph b j k m o) :
    (∀ k', o = .base (.reply k') → (io.rd k').final = true ∨ io.rd k' = .busy) ∧
    (∀ k', o = .base (.illegal k') → (io.rd k').illegal = true) := by
  induction h with
  | sent _ _ ih => exact ih
  | sendSilentRetry _ _ ih => exact ih
  | sendLostRetry _ _ _ ih => exact ih
  | busyRetry _ _ ih => exact ih
  | silentRetry _ _ ih => exact ih
  | lostRetry _ _ _ _ ih => exact ih
  | pendFirst _ _ ih => exact ih
  | pendAgain _ _ _ ih => exact ih
  | quiet _ _ _ ih => exact ih
  | silenceRetry _ _ _ ih => exact ih
  | final _ hf => refine ⟨fun k' e => ?_, fun k' e => ?_⟩ <;> simp at e; subst e; exact .inl hf
  | illegal _ hf => refine ⟨fun k' e => ?_, fun k' e => ?_⟩ <;> simp at e; subst e; exact hf
  | busyLast hk => refine ⟨fun k' e => ?_, fun k' e => ?_⟩ <;> simp at e; subst e; exact .inr hk
  | busyAfterPending hk => refine ⟨fun k' e => ?_, fun k' e => ?_⟩ <;> simp at e; subst e; exact .inr hk
  | sendSilentLast _ => refine ⟨fun k' e => ?_, fun k' e => ?_⟩ <;> simp at e
  | sendLostLast _ => refine ⟨fun k' e => ?_, fun k' e => ?_⟩ <;> simp at e
  | silentLast _ => refine ⟨fun k' e => ?_, fun k' e => ?_⟩ <;> simp at e
  | lostLast _ _ => refine ⟨fun k' e => ?_, fun k' e => ?_⟩ <;> simp at e
  | pendStuck _ _ => refine ⟨fun k' e => ?_, fun k' e => ?_⟩ <;> simp at e
  | silenceLast _ _ => refine ⟨fun k' e => ?_, fun k' e => ?_⟩ <;> simp at e
  | sendLostNoReconnect _ _ => refine ⟨fun k' e => ?_, fun k' e => ?_⟩ <;> simp at e
  | lostNoReconnect _ _ _ => refine ⟨fun k' e => ?_, fun k' e => ?_⟩ <;> simp at e

theorem runX_event (c : CfgX) (io : Script) :
    (∀ k, (runX c io).out = .base (.reply k) → (io.rd k).final = true ∨ io.rd k = .busy) ∧
    (∀ k, (runX c io).out = .base (.illegal k) → (io.rd k).illegal = true) := by
  have h : ImpliedX (boundsX c) io .send c.maxRetry 0 0 0 (runX c io).out := by
    simpa [runX] using attemptsX_sound c io 0 0 0 (.missing false) (Nat.zero_le _)
  exact impliedX_event h

theorem runX_first (c : CfgX) (io : Script) (j : Nat) (hj : j < (runX c io).reads) :
    ((io.rd j).final = true → (runX c io).out = .base (.reply j)) ∧
    ((io.rd j).illegal = true → (runX c io).out = .base (.illegal j)) := by
  have := attemptsX_first c io 0 0 0 (.missing false) j (Nat.zero_le _) (by simpa [runX, ResX.reads] using hj)
  simpa [runX] using this

theorem runX_reply_last (c : CfgX) (io : Script) (k : Nat)
    (h : (runX c io).out = .base (.reply k) ∨ (runX c io).out = .base (.illegal k)) : (runX c io).reads = k + 1 := by
  have := attemptsX_reply_last c io 0 0 0 (.missing false) (by simp) k (by simpa [runX] using h)
  simp [runX, ResX.reads]; omega

/-! ### the classification of one frame -/

theorem classifyResp_cases (x : Resp) :
    (classifyResp x = .busy ∧ ∃ sid, x = .neg sid 0x21) ∨ (classifyResp x = .pending ∧ ∃ sid, x = .neg sid 0x78) ∨
    (classifyResp x = .negFinal ∧ ∃ sid nrc, x = .neg sid nrc ∧ nrc ≠ 0x21 ∧ nrc ≠ 0x78) ∨
    (classifyResp x = .posFinal ∧ isNeg x = false) := by
  cases x <;> simp [classifyResp, isNeg, nrcBusy, nrcPending]
  rename_i sid nrc
  by_cases h1 : nrc = 0x21
  · simp [h1]
  · by_cases h2 : nrc = 0x78
    · simp [h2]
    · simp [h1, h2]; exact ⟨sid, nrc, ⟨rfl, rfl⟩, h1, h2⟩

/-- the event of a non-empty frame, by the outcome of `parse_pdu` -/
theorem classifyRead_cons (r : Req) (b : Bytes) (hb : b ≠ []) :
    classifyRead r b = match parsePdu b r with
      | .accepted x => classifyResp x
      | .mismatch => .mismatch
      | .malformed => .malformed := by
  cases b with
  | nil => exact absurd rfl hb
  | cons a t => rfl

theorem classifyResp_not_illegal (x : Resp) : (classifyResp x).illegal = false ∧ classifyResp x ≠ .empty ∧
    classifyResp x ≠ .timeout ∧ classifyResp x ≠ .connErr := by
  rcases classifyResp_cases x with ⟨h, _⟩ | ⟨h, _⟩ | ⟨h, _⟩ | ⟨h, _⟩ <;> simp [h, Ev.illegal]

/-! ### a concrete configuration, request and frames for the `example`s of Proofs/C03.lean -/

def exCfg (maxRetry : Nat) : CfgX := ⟨maxRetry, some 1000, some 1000, 10, ⟨3, 500, 1000, 200, 2⟩⟩
abbrev exReq : Req := .dsc 3 false

theorem ex_own_pending : classifyRd exReq (.data [0x7F, 0x10, 0x78]) = .pending := by decide
theorem ex_foreign_pending : classifyRd exReq (.data [0x7F, 0x22, 0x78]) = .mismatch := by decide
theorem ex_genuine : classifyRd exReq (.data [0x50, 0x03, 0x00, 0x32]) = .posFinal := by decide

end Gallia.ClientMatch
