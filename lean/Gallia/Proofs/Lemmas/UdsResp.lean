import Gallia.Model.UdsResp
/-
  Helper lemmas for C02 (response codec oracle).
-/
namespace Gallia.UdsResp
open Gallia

theorem toBE_fromBE2 (a c : UInt8) : toBE (fromBE [a, c]) 2 = [a, c] := toBE_fromBE' [a, c] 2 rfl
theorem toBE_fromBE3 (a b c : UInt8) : toBE (fromBE [a, b, c]) 3 = [a, b, c] := toBE_fromBE' [a, b, c] 3 rfl
theorem fromBE2_lt (a c : UInt8) : fromBE [a, c] < 0x10000 := by simpa using fromBE_lt [a, c]
theorem fromBE3_lt (a b c : UInt8) : fromBE [a, b, c] < 0x1000000 := by simpa using fromBE_lt [a, b, c]

theorem encRecs_parseRecs {b : Bytes} {l} (h : parseRecs b = some l) : encRecs l = b := by
  fun_induction parseRecs b generalizing l with
  | case1 => cases h; rfl
  | case2 a b c s rest l' hl ih =>
    simp only [Option.some.injEq] at h
    subst h
    simp [encRecs, toBE_fromBE3, ih hl]
  | case3 a b c s rest hl => simp at h
  | case4 => cases h


macro "lossless_tac" h:ident : tactic =>
  `(tactic| ((repeat' split at $h:ident) <;>
      first
        | (cases $h:ident; done)
        | (cases $h:ident; simp_all [encodeResp, toBE_fromBE2, toBE_fromBE3])))

theorem pNeg_ok {b r} (h : pNeg b = .ok r) : encodeResp r = b := by unfold pNeg at h; lossless_tac h
theorem pDsc_ok {b r} (h : pDsc b = .ok r) : encodeResp r = b := by unfold pDsc at h; lossless_tac h
theorem pEcuReset_ok {b r} (h : pEcuReset b = .ok r) : encodeResp r = b := by unfold pEcuReset at h; lossless_tac h
theorem pSecAccess_ok {b r} (h : pSecAccess b = .ok r) : encodeResp r = b := by unfold pSecAccess at h; lossless_tac h
theorem pCommCtrl_ok {b r} (h : pCommCtrl b = .ok r) : encodeResp r = b := by unfold pCommCtrl at h; lossless_tac h
theorem pTesterPresent_ok {b r} (h : pTesterPresent b = .ok r) : encodeResp r = b := by
  unfold pTesterPresent at h; lossless_tac h
theorem pCtrlDTC_ok {b r} (h : pCtrlDTC b = .ok r) : encodeResp r = b := by unfold pCtrlDTC at h; lossless_tac h
theorem pRdbi_ok {b r} (h : pRdbi b = .ok r) : encodeResp r = b := by unfold pRdbi at h; lossless_tac h
theorem pRmba_ok {b r} (h : pRmba b = .ok r) : encodeResp r = b := by unfold pRmba at h; lossless_tac h
theorem pDddi_ok {b r} (h : pDddi b = .ok r) : encodeResp r = b := by unfold pDddi at h; lossless_tac h
theorem pWdbi_ok {b r} (h : pWdbi b = .ok r) : encodeResp r = b := by unfold pWdbi at h; lossless_tac h
theorem pClearDTC_ok {b r} (h : pClearDTC b = .ok r) : encodeResp r = b := by unfold pClearDTC at h; lossless_tac h
theorem pDtcCount_ok {b r} (h : pDtcCount b = .ok r) : encodeResp r = b := by unfold pDtcCount at h; lossless_tac h
theorem pDtcExt_ok {b r} (h : pDtcExt b = .ok r) : encodeResp r = b := by unfold pDtcExt at h; lossless_tac h
theorem pIocbi_ok {b r} (h : pIocbi b = .ok r) : encodeResp r = b := by unfold pIocbi at h; lossless_tac h
theorem pRoutine_ok {b r} (h : pRoutine b = .ok r) : encodeResp r = b := by unfold pRoutine at h; lossless_tac h
theorem pTransferData_ok {b r} (h : pTransferData b = .ok r) : encodeResp r = b := by
  unfold pTransferData at h; lossless_tac h
theorem pTransferExit_ok {b r} (h : pTransferExit b = .ok r) : encodeResp r = b := by
  unfold pTransferExit at h; lossless_tac h

theorem pDtcList_ok {b r} (h : pDtcList b = .ok r) : encodeResp r = b := by
  unfold pDtcList at h
  split at h
  · split at h
    · split at h
      · rename_i l hl
        split at h
        · cases h; subst_vars; simp [encodeResp, encRecs_parseRecs hl]
        · cases h
      · cases h
    · cases h
  · cases h

/-- two big-endian fields that together fill `rest` re-assemble to `rest` -/
theorem toBE_take_drop (rest : Bytes) (al sl : Nat) (h : rest.length = al + sl) :
    toBE (fromBE (rest.take al)) al ++ toBE (fromBE (rest.drop al)) sl = rest := by
  rw [toBE_fromBE' (rest.take al) al (by simp [List.length_take]; omega),
      toBE_fromBE' (rest.drop al) sl (by simp [List.length_drop]; omega), List.take_append_drop]

theorem pWmba_ok {b r} (h : pWmba b = .ok r) : encodeResp r = b := by
  unfold pWmba at h
  split at h
  · split at h
    · rename_i hc
      obtain ⟨hs, _, _, hlen⟩ := hc
      cases h; subst hs
      simp [encodeResp, toBE_take_drop _ _ _ hlen]
    · cases h
  · cases h

theorem pUpDownload_ok {b r} (h : pUpDownload b = .ok r) : encodeResp r = b := by
  unfold pUpDownload at h
  split at h
  · split at h
    · rename_i hc
      obtain ⟨_, _, _, hlen⟩ := hc
      cases h
      simp [encodeResp, toBE_fromBE' _ _ hlen]
    · cases h
  · cases h

theorem parseKind_ok {k b r} (h : parseKind k b = .ok r) : encodeResp r = b := by
  cases k <;> simp only [parseKind] at h
  · exact pNeg_ok h
  · exact pDsc_ok h
  · exact pEcuReset_ok h
  · exact pSecAccess_ok h
  · exact pCommCtrl_ok h
  · exact pTesterPresent_ok h
  · exact pCtrlDTC_ok h
  · exact pRdbi_ok h
  · exact pRmba_ok h
  · exact pDddi_ok h
  · exact pWdbi_ok h
  · exact pWmba_ok h
  · exact pClearDTC_ok h
  · exact pDtcCount_ok h
  · exact pDtcList_ok h
  · exact pDtcExt_ok h
  · exact pIocbi_ok h
  · exact pRoutine_ok h
  · exact pUpDownload_ok h
  · exact pTransferData_ok h
  · exact pTransferExit_ok h

/-! ### the constructor produced is the one of the parser family -/

macro "kind_tac" h:ident : tactic =>
  `(tactic| ((repeat' split at $h:ident) <;> first | (cases $h:ident; done) | (cases $h:ident; rfl)))

theorem parseKind_kind {k b r} (h : parseKind k b = .ok r) : r.kind? = some k := by
  cases k <;> simp only [parseKind] at h
  · unfold pNeg at h; kind_tac h
  · unfold pDsc at h; kind_tac h
  · unfold pEcuReset at h; kind_tac h
  · unfold pSecAccess at h; kind_tac h
  · unfold pCommCtrl at h; kind_tac h
  · unfold pTesterPresent at h; kind_tac h
  · unfold pCtrlDTC at h; kind_tac h
  · unfold pRdbi at h; kind_tac h
  · unfold pRmba at h; kind_tac h
  · unfold pDddi at h; kind_tac h
  · unfold pWdbi at h; kind_tac h
  · unfold pWmba at h; kind_tac h
  · unfold pClearDTC at h; kind_tac h
  · unfold pDtcCount at h; kind_tac h
  · unfold pDtcList at h; kind_tac h
  · unfold pDtcExt at h; kind_tac h
  · unfold pIocbi at h; kind_tac h
  · unfold pRoutine at h; kind_tac h
  · unfold pUpDownload at h; kind_tac h
  · unfold pTransferData at h; kind_tac h
  · unfold pTransferExit at h; kind_tac h

/-! ### dispatch and gates -/

theorem mem_entriesFor {e s} (h : e ∈ entriesFor s) : e ∈ registry ∧ e.rsid = s := by
  simpa [entriesFor, List.mem_filter] using h

theorem dispatch_spec {b e} (h : dispatch b = .ok (some e)) :
    e ∈ registry ∧ ∃ s t, b = s :: t ∧ e.rsid = s.toNat := by
  unfold dispatch at h
  split at h
  · cases h
  · rename_i s t
    split at h
    · cases h
    · rename_i e0 es hes
      have hmem : ∀ x, x ∈ e0 :: es → x ∈ registry ∧ x.rsid = s.toNat := by
        intro x hx; rw [← hes] at hx; exact mem_entriesFor hx
      split at h
      · split at h
        · cases h
        · simp only [Except.ok.injEq] at h
          have := hmem e (List.mem_of_find?_eq_some h)
          exact ⟨this.1, s, _, rfl, this.2⟩
      · simp only [Except.ok.injEq, Option.some.injEq] at h
        subst h
        have := hmem e0 (by simp)
        exact ⟨this.1, s, _, rfl, this.2⟩

/-- a typed decode went through dispatch, both gates and the family parser -/
theorem decodeResp_typed {b r} (h : decodeResp b = .ok r) (hr : r.kind? ≠ none) :
    ∃ e, dispatch b = .ok (some e) ∧ lenGate e b = .ok () ∧ subGate e b = .ok () ∧ parseKind e.kind b = .ok r := by
  unfold decodeResp gate at h
  split at h
  · cases h
  · rename_i hg
    cases h; simp [Resp.kind?] at hr
  · rename_i e hg
    split at hg
    · cases hg
    · cases hg
    · rename_i e' hd
      unfold checkEntry at hg
      split at hg
      · cases hg
      · rename_i hl
        split at hg
        · cases hg
        · rename_i hs
          cases hg
          exact ⟨e, hd, hl, hs, h⟩

theorem decodeResp_raw {b p} (h : decodeResp b = .ok (.rawPos p)) : p = b ∧ gate b = .ok .raw := by
  unfold decodeResp at h
  split at h
  · cases h
  · rename_i hg; cases h; exact ⟨rfl, hg⟩
  · have := parseKind_kind h; simp [Resp.kind?] at this

/-! ### decode after encode -/

theorem u8_of_toNat {x : UInt8} {n : Nat} (h : x.toNat = n) : x = UInt8.ofNat n := by
  subst h; simp

theorem toBE2_cases (n : Nat) : ∃ a c, toBE n 2 = [a, c] := ⟨_, _, rfl⟩
theorem toBE3_cases (n : Nat) : ∃ a b c, toBE n 3 = [a, b, c] := ⟨_, _, _, rfl⟩

theorem fromBE_of_toBE2 {n : Nat} {a c : UInt8} (h : toBE n 2 = [a, c]) (hn : n < 0x10000) : fromBE [a, c] = n := by
  rw [← h]; exact fromBE_toBE n 2 (by simpa using hn)

theorem fromBE_of_toBE3 {n : Nat} {a b c : UInt8} (h : toBE n 3 = [a, b, c]) (hn : n < 0x1000000) :
    fromBE [a, b, c] = n := by
  rw [← h]; exact fromBE_toBE n 3 (by simpa using hn)

theorem encRecs_length (l : List (Nat × UInt8)) : (encRecs l).length = 4 * l.length := by
  induction l with
  | nil => rfl
  | cons p rest ih => obtain ⟨d, s⟩ := p; simp [encRecs, ih]; omega

theorem parseRecs_encRecs (l : List (Nat × UInt8)) (h : ∀ p ∈ l, p.1 < 0x1000000) : parseRecs (encRecs l) = some l := by
  induction l with
  | nil => rfl
  | cons p rest ih =>
    obtain ⟨d, s⟩ := p
    obtain ⟨a, b, c, habc⟩ := toBE3_cases d
    have hd : d < 0x1000000 := h (d, s) (by simp)
    have ih' := ih (fun p hp => h p (by simp [hp]))
    simp [encRecs, habc, parseRecs, ih', fromBE_of_toBE3 habc hd]

/-- the decoder's verdict from its four ingredients -/
theorem decodeResp_of {b : Bytes} {e : Entry} {r : Resp} (hd : dispatch b = .ok (some e))
    (hl : e.minLen ≤ b.length) (hm : ∀ m, e.maxLen = some m → b.length ≤ m)
    (hs : subGate e b = .ok ()) (hp : parseKind e.kind b = .ok r) : decodeResp b = .ok r := by
  have hlen : lenGate e b = .ok () := by
    unfold lenGate
    rw [if_neg (by omega)]
    cases hmx : e.maxLen with
    | none => rfl
    | some m => have := hm m hmx; simp; omega
  simp [decodeResp, gate, hd, checkEntry, hlen, hs, hp]

/-- side goals of `decodeResp_of`: length gates and sub-function gate of a concrete registry entry -/
macro "side" : tactic =>
  `(tactic| first
    | rfl
    | (simp [registry, subGate, encodeResp, encRecs_length]; done)
    | (simp [registry, subGate, encodeResp, encRecs_length] <;> omega))


/-! ### what the gates guarantee -/

theorem lenGate_ok {e : Entry} {b : Bytes} (h : lenGate e b = .ok ()) :
    e.minLen ≤ b.length ∧ ∀ m, e.maxLen = some m → b.length ≤ m := by
  unfold lenGate at h
  split at h
  · cases h
  · split at h
    · rename_i m hm
      split at h
      · cases h
      · refine ⟨by omega, fun m' hm' => ?_⟩
        rw [hm] at hm'; cases hm'; omega
    · rename_i hm
      exact ⟨by omega, fun m' hm' => by rw [hm] at hm'; cases hm'⟩

theorem subGate_ok {e : Entry} {s f : UInt8} {t : Bytes} (h : subGate e (s :: f :: t) = .ok ()) :
    (e.subFn = true → f.toNat < 0x80) ∧ ∀ k, e.sub = some k → f.toNat = k := by
  unfold subGate at h
  simp only at h
  split at h
  · cases h
  · rename_i hc
    refine ⟨fun hs => by simp [hs] at hc; omega, fun k hk => ?_⟩
    rw [hk] at h
    simp only at h
    split at h
    · assumption
    · cases h

theorem reg_facts : ∀ e ∈ registry,
    ((e.kind = .dsc ∨ e.kind = .ecuReset ∨ e.kind = .secAccess ∨ e.kind = .commCtrl ∨ e.kind = .ctrlDTC) → e.subFn = true) ∧
    (e.kind = .dddi → ((e.sub = some 1 ∧ e.minLen = 4) ∨ (e.sub = some 2 ∧ e.minLen = 4) ∨ e.sub = some 3)) ∧
    (e.kind = .dtcCount → ∃ k ∈ countSubs, e.sub = some k) ∧
    (e.kind = .dtcList → (∃ k ∈ listSubsOpen, e.sub = some k) ∨ ((∃ k ∈ listSubsSingle, e.sub = some k) ∧ e.maxLen = some 7)) ∧
    (e.kind = .routine → (e.sub = some 1 ∨ e.sub = some 2 ∨ e.sub = some 3)) := by
  decide

theorem parseRecs_lt {b : Bytes} {l} (h : parseRecs b = some l) : ∀ p ∈ l, p.1 < 0x1000000 := by
  fun_induction parseRecs b generalizing l with
  | case1 => cases h; simp
  | case2 a b c s rest l' hl ih =>
    simp only [Option.some.injEq] at h
    subst h
    intro p hp
    simp only [List.mem_cons] at hp
    rcases hp with rfl | hp
    · exact fromBE3_lt a b c
    · exact ih hl p hp
  | case3 a b c s rest hl => simp at h
  | case4 => cases h

/-! ### field positions -/

theorem decodeResp_parse {b r k} (h : decodeResp b = .ok r) (hk : r.kind? = some k) : parseKind k b = .ok r := by
  obtain ⟨e, _, _, _, hp⟩ := decodeResp_typed h (by simp [hk])
  have := parseKind_kind hp
  rw [hk] at this
  cases this; exact hp

theorem parseRecs_getElem {b : Bytes} {l} (h : parseRecs b = some l) (i : Nat) (hi : i < l.length) :
    l[i].1 = fromBE ((b.drop (4 * i)).take 3) ∧ b[4 * i + 3]? = some l[i].2 := by
  fun_induction parseRecs b generalizing l i with
  | case1 => cases h; simp at hi
  | case2 a b c s rest l' hl ih =>
    simp only [Option.some.injEq] at h
    subst h
    cases i with
    | zero => simp
    | succ j =>
      have hj : j < l'.length := by simpa using hi
      have := ih hl j hj
      have e1 : 4 * (j + 1) = 4 * j + 1 + 1 + 1 + 1 := by omega
      simp only [List.getElem_cons_succ, e1, List.drop_succ_cons, List.getElem?_cons_succ]
      exact this
  | case3 a b c s rest hl => simp at h
  | case4 => cases h

macro "pos_tac" h:ident : tactic =>
  `(tactic| ((repeat' split at $h:ident) <;> first | (cases $h:ident; done) | (cases $h:ident; simp_all)))


/-! ### the decoder only produces well-formed objects: per-family facts -/

macro "wf_tac" h:ident : tactic =>
  `(tactic| ((repeat' split at $h:ident) <;>
      first
        | (cases $h:ident; done)
        | (cases $h:ident; simp_all [Resp.WF, fromBE2_lt, fromBE3_lt])))

theorem pNeg_wf {b r} (h : pNeg b = .ok r) : r.WF := by unfold pNeg at h; wf_tac h
theorem pTesterPresent_wf {b r} (h : pTesterPresent b = .ok r) : r.WF := by unfold pTesterPresent at h; wf_tac h
theorem pRdbi_wf {b r} (h : pRdbi b = .ok r) : r.WF := by unfold pRdbi at h; wf_tac h
theorem pRmba_wf {b r} (h : pRmba b = .ok r) : r.WF := by unfold pRmba at h; wf_tac h
theorem pWdbi_wf {b r} (h : pWdbi b = .ok r) : r.WF := by unfold pWdbi at h; wf_tac h
theorem pClearDTC_wf {b r} (h : pClearDTC b = .ok r) : r.WF := by unfold pClearDTC at h; wf_tac h
theorem pDtcExt_wf {b r} (h : pDtcExt b = .ok r) : r.WF := by unfold pDtcExt at h; wf_tac h
theorem pIocbi_wf {b r} (h : pIocbi b = .ok r) : r.WF := by unfold pIocbi at h; wf_tac h
theorem pTransferData_wf {b r} (h : pTransferData b = .ok r) : r.WF := by unfold pTransferData at h; wf_tac h
theorem pTransferExit_wf {b r} (h : pTransferExit b = .ok r) : r.WF := by unfold pTransferExit at h; wf_tac h

theorem pWmba_wf {b r} (h : pWmba b = .ok r) : r.WF := by
  unfold pWmba at h
  split at h
  · rename_i s alfid rest
    split at h
    · rename_i hc
      obtain ⟨_, ha, hs, hlen⟩ := hc
      cases h
      refine ⟨ha, hs, ?_, ?_⟩
      · have := fromBE_lt (rest.take (alfid.toNat % 16))
        rwa [List.length_take, Nat.min_eq_left (by omega)] at this
      · have := fromBE_lt (rest.drop (alfid.toNat % 16))
        rwa [List.length_drop, show rest.length - alfid.toNat % 16 = alfid.toNat / 16 by omega] at this
    · cases h
  · cases h

theorem pUpDownload_wf {b r} (h : pUpDownload b = .ok r) : r.WF := by
  unfold pUpDownload at h
  split at h
  · rename_i s lfid rest
    split at h
    · rename_i hc
      obtain ⟨hs, hlo, hhi, hlen⟩ := hc
      cases h
      refine ⟨hs, hlo, hhi, ?_⟩
      have := fromBE_lt rest
      rwa [hlen] at this
    · cases h
  · cases h

theorem pDtcCount_facts {b sub mask fmt count} (h : pDtcCount b = .ok (.dtcCount sub mask fmt count)) :
    fmt.toNat ∈ dtcFormatTable ∧ count < 0x10000 := by
  unfold pDtcCount at h
  (repeat' split at h) <;> first | (cases h; done) | (cases h; simp_all [fromBE2_lt])

theorem pDtcList_facts {b sub mask recs} (h : pDtcList b = .ok (.dtcList sub mask recs)) :
    (∀ p ∈ recs, p.1 < 0x1000000) ∧ distinctKeys recs = true := by
  unfold pDtcList at h
  split at h
  · split at h
    · split at h
      · rename_i l hl
        split at h
        · rename_i hd
          cases h
          exact ⟨parseRecs_lt hl, hd⟩
        · cases h
      · cases h
    · cases h
  · cases h

theorem pDddi_facts {b sub d} (h : pDddi b = .ok (.dddi sub (some d))) : d < 0x10000 := by
  unfold pDddi at h
  (repeat' split at h) <;> first | (cases h; done) | (cases h; simp_all [fromBE2_lt])

theorem pRoutine_facts {b sub rid rec} (h : pRoutine b = .ok (.routine sub rid rec)) : rid < 0x10000 := by
  unfold pRoutine at h
  (repeat' split at h) <;> first | (cases h; done) | (cases h; simp_all [fromBE2_lt])

theorem nrcTable_lt : ∀ n ∈ nrcTable, n < 256 := by decide

/-- evaluate the decoder on a concrete byte string -/
macro "eval_dec" : tactic =>
  `(tactic| simp [decodeResp, gate, dispatch, entriesFor, registry, checkEntry, lenGate, subGate, parseKind, pUpDownload,
      pWmba, pDddi, pDtcList, pRdbi, parseRecs, distinctKeys, fromBE])

end Gallia.UdsResp
