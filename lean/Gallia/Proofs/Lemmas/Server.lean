import Gallia.Model.Server
import Gallia.Spec.IsoDefault
/-
  Helper lemmas for C13: closed forms of the two rules that consult the ECU model (the `any(...)` over the dict
  values and the session loop with its two flags and `break`), in terms of the relational view of the spec.
-/
namespace Gallia.Server
open Gallia Gallia.IsoDefault

/-- what the iso theorem assumes about model and state: the model is a dict, the active session is one of its
    keys, services with sub-function carry a (possibly empty) list (the two `assert`s of the code) -/
structure Ready (m : Model) (st : SrvState) : Prop where
  wf : m.WF
  sess : st.session ∈ m.sessions
  listed : ∀ s sm, m.get s = some sm → ∀ sid ∈ subFnServices, sm sid ≠ some none

theorem any_eq_and (l : List Nat) (a : Nat) (p : Nat → Bool) :
    l.any (fun s => s == a && p s) = (decide (a ∈ l) && p a) := by
  induction l with
  | nil => simp
  | cons x xs ih =>
    simp only [List.any_cons, ih, List.mem_cons]
    by_cases hx : x = a
    · subst hx; simp
    · have : (x == a) = false := by simpa using hx
      have h2 : ¬ a = x := fun h => hx h.symm
      simp [this, h2]

theorem any_values (m : Model) (sid : Sid) (l : List Sess) :
    (l.filterMap m.get).any (fun s => (s sid).isSome) = l.any (svcIn m · sid) := by
  induction l with
  | nil => simp
  | cons x xs ih =>
    simp only [List.filterMap_cons, List.any_cons, svcIn]
    cases hx : m.get x with
    | none => simpa [svcIn] using ih
    | some sm => simp only [List.any_cons, ih, svcIn]

theorem svcIn_anywhere {m : Model} {s : Sess} {sid : Sid} (hs : s ∈ m.sessions) (h : svcIn m s sid = true) :
    svcAnywhere m sid = true := by
  unfold svcAnywhere
  exact List.any_eq_true.mpr ⟨s, hs, h⟩

theorem subIn_anywhere {m : Model} {s : Sess} {sid : Sid} {sf : SubFn} (hs : s ∈ m.sessions)
    (h : subIn m s sid sf = true) : subAnywhere m sid sf = true := by
  unfold subAnywhere
  exact List.any_eq_true.mpr ⟨s, hs, h⟩

/-- closed form of `default_response_if_service_not_supported` -/
theorem ruleSNS_eq (m : Model) (st : SrvState) (r : Req) (hs : (m.get st.session).isSome) :
    ruleSNS m st r =
      if svcIn m st.session r.sid then .pass
      else if svcAnywhere m r.sid then .fire (.neg r.sid nrcSNSIAS) else .fire (.neg r.sid nrcSNS) := by
  unfold ruleSNS
  cases hg : m.get st.session with
  | none => simp [hg] at hs
  | some sm =>
    simp only [any_values, svcIn, hg, svcAnywhere]
    cases sm r.sid <;> simp

/-- the session loop: first flag = "listed in the active session", second (when the first is false) =
    "listed in some session" -/
theorem scan_ok (m : Model) (active : Sess) (r : Req) (hlen : ¬ r.pdu.length < 2)
    (hl : ∀ s sm, m.get s = some sm → sm r.sid ≠ some none) :
    ∀ (l : List Sess) (o : Bool), ∃ a o', scanSessions m active r l o = .ok (a, o') ∧
      a = l.any (fun s => s == active && subIn m s r.sid r.subFn) ∧
      (a = false → o' = (o || l.any (fun s => subIn m s r.sid r.subFn))) := by
  intro l
  induction l with
  | nil => intro o; exact ⟨false, o, by simp [scanSessions]⟩
  | cons s rest ih =>
    intro o
    cases hg : m.get s with
    | none =>
      obtain ⟨a, o', h1, h2, h3⟩ := ih o
      exact ⟨a, o', by simp only [scanSessions, hg, h1], by simp [List.any_cons, subIn, hg, h2], by
        intro ha; simp [List.any_cons, subIn, hg, h3 ha]⟩
    | some sm =>
      cases hsv : sm r.sid with
      | none =>
        obtain ⟨a, o', h1, h2, h3⟩ := ih o
        exact ⟨a, o', by simp only [scanSessions, hg, hsv, h1], by simp [List.any_cons, subIn, hg, hsv, h2], by
          intro ha; simp [List.any_cons, subIn, hg, hsv, h3 ha]⟩
      | some ol =>
        cases ol with
        | none => exact absurd hsv (hl s sm hg)
        | some lst =>
          by_cases hc : r.subFn ∈ lst
          · have hc1 : lst.contains r.subFn = true := by simpa using hc
            by_cases hsa : s = active
            · subst hsa
              have hsa1 : (s == s) = true := by simp
              refine ⟨true, o, by simp only [scanSessions, hg, hsv, hlen, hc1, hsa1, if_true, if_false], ?_, by simp⟩
              simp [List.any_cons, subIn, hg, hsv, hc]
            · have hsa1 : (s == active) = false := by simpa using hsa
              obtain ⟨a, o', h1, h2, h3⟩ := ih true
              refine ⟨a, o', ?_, ?_, ?_⟩
              · simp only [scanSessions, hg, hsv, hlen, hc1, hsa1, if_true, if_false, h1]; simp
              · simp [List.any_cons, hsa, h2]
              · intro ha; simp [List.any_cons, subIn, hg, hsv, hc, h3 ha]
          · obtain ⟨a, o', h1, h2, h3⟩ := ih o
            have hc1 : lst.contains r.subFn = false := by simpa using hc
            refine ⟨a, o', ?_, ?_, ?_⟩
            · simp only [scanSessions, hg, hsv, hlen, hc1, if_false, h1]; simp
            · simp [List.any_cons, subIn, hg, hsv, hc, h2]
            · intro ha; simp [List.any_cons, subIn, hg, hsv, hc, h3 ha]

/-- closed form of `default_response_if_sub_function_not_supported` (sub-function byte present) -/
theorem ruleSFNS_eq (m : Model) (st : SrvState) (r : Req) (hr : Ready m st)
    (hlen : r.hasSubFn = true → ¬ r.pdu.length < 2) :
    ruleSFNS m st r =
      if subFnChecked r then
        if subIn m st.session r.sid r.subFn then .pass
        else if subAnywhere m r.sid r.subFn then .fire (.neg r.sid nrcSFNSIAS) else .fire (.neg r.sid nrcSFNS)
      else .pass := by
  unfold ruleSFNS
  have hs : (m.get st.session).isSome := (hr.wf st.session).mp hr.sess
  cases hg : m.get st.session with
  | none => simp [hg] at hs
  | some sm0 =>
    simp only [subFnChecked]
    by_cases hck : (r.hasSubFn && r.sid != sidRoutine) = true
    · simp only [hck, if_true]
      have hsub : r.hasSubFn = true := by
        cases h : r.hasSubFn <;> simp [h] at hck ⊢
      have hmem : r.sid ∈ subFnServices := by
        simpa [Req.hasSubFn] using hsub
      obtain ⟨a, o', h1, h2, h3⟩ := scan_ok m st.session r (hlen hsub)
        (fun s sm hsm => hr.listed s sm hsm r.sid hmem) m.sessions false
      rw [h1]
      rw [any_eq_and] at h2
      simp only [hr.sess, decide_true, Bool.true_and] at h2
      subst h2
      cases hin : subIn m st.session r.sid r.subFn with
      | true => simp
      | false =>
        have := h3 hin
        simp only [Bool.false_or] at this
        subst this
        simp [subAnywhere]
    · have : (r.hasSubFn && r.sid != sidRoutine) = false := by simpa using hck
      simp [this]

theorem runChain_allOn_cons (m : Model) (st : SrvState) (r : Req) (i : Sw) (rest : List Sw) :
    runChain allOn m st r (i :: rest) =
      (match evalRule i m st r with
       | .pass => runChain allOn m st r rest
       | x => x) := rfl

/-- the part of the chain that does not consult the ECU model -/
theorem tail_allOn (m : Model) (h : Handler) (st : SrvState) (r : Req) :
    finish allOn h st r (runChain allOn m st r [.format, .sessChange, .sessRead, .testerPresent]) =
      .resp (if r.raw then .neg r.sid nrcLength else isoService h st r) := by
  simp only [runChain, allOn, evalRule, if_true, ruleFormat]
  cases h7 : r.raw with
  | true => simp [finish]
  | false =>
    simp only [ruleSessChange, ruleSessRead, ruleTP, isoService, h7, nrcGeneralReject, finish,
      Bool.not_false, Bool.true_and, Bool.false_eq_true, if_false]
    generalize (r.sid == sidDSC) = q1
    generalize (r.sid == sidRDBI && r.pdu.getD 1 0 == 241 && r.pdu.getD 2 0 == 134) = q2
    generalize (r.sid == sidTP) = q3
    cases q1 <;> cases q2 <;> cases q3 <;> cases h st r <;> simp [allOn]

theorem answer_allOn (m : Model) (h : Handler) (st : SrvState) (r : Req) (hr : Ready m st) (hne : r.pdu ≠ []) :
    respondNoState allOn m h st r = .resp (isoAnswer m h st r) := by
  have hs : (m.get st.session).isSome := (hr.wf _).mp hr.sess
  have hemp : r.pdu.isEmpty = false := by cases hp : r.pdu <;> simp_all
  unfold respondNoState respondNoStateWith
  simp only [hemp, chain, Bool.false_eq_true, if_false]
  rw [runChain_allOn_cons]
  simp only [evalRule]
  rw [ruleSNS_eq m st r hs]
  cases h2 : svcIn m st.session r.sid with
  | false =>
    cases h1 : svcAnywhere m r.sid <;>
      simp [finish, isoAnswer, isoNegative, isoRules, List.find?, h1, h2, nrcSNS, nrcSNSIAS]
  | true =>
    have h1 : svcAnywhere m r.sid = true := svcIn_anywhere hr.sess h2
    simp only [if_true]
    rw [runChain_allOn_cons]
    simp only [evalRule, ruleMissingSub]
    cases h3 : (r.hasSubFn && decide (r.pdu.length < 2)) with
    | true => simp [finish, isoAnswer, isoNegative, isoRules, List.find?, h1, h2, h3, nrcLength]
    | false =>
      have hlen : r.hasSubFn = true → ¬ r.pdu.length < 2 := by
        intro hh; simpa [hh] using h3
      simp only [Bool.false_eq_true, if_false]
      rw [runChain_allOn_cons]
      simp only [evalRule]
      rw [ruleSFNS_eq m st r hr hlen]
      cases h4 : subFnChecked r with
      | true =>
        cases h5 : subIn m st.session r.sid r.subFn with
        | false =>
          cases h6 : subAnywhere m r.sid r.subFn <;>
            simp [finish, isoAnswer, isoNegative, isoRules, List.find?, h1, h2, h3, h4, h5, h6, nrcSFNS, nrcSFNSIAS]
        | true =>
          have h6 : subAnywhere m r.sid r.subFn = true := subIn_anywhere hr.sess h5
          simp only [if_true]
          rw [tail_allOn]
          cases h7 : r.raw <;>
            simp [isoAnswer, isoNegative, isoRules, List.find?, h1, h2, h3, h4, h5, h6, h7, nrcLength]
      | false =>
        simp only [Bool.false_eq_true, if_false]
        rw [tail_allOn]
        cases h7 : r.raw <;>
          simp [isoAnswer, isoNegative, isoRules, List.find?, h1, h2, h3, h4, h7, nrcLength]

end Gallia.Server

namespace Gallia.Server
open Gallia Gallia.IsoDefault

/-- the statement-by-statement state update is the field-wise ISO one -/
theorem updateState_eq_isoState (st : SrvState) (x : Resp) : updateState st x = isoState st x := by
  cases x with
  | sa t seed =>
    by_cases ht : t % 2 = 0 <;> simp [updateState, isoState, isoSession, isoLevel, isoSeedMemory, ht]
  | _ => simp [updateState, isoState, isoSession, isoLevel, isoSeedMemory, SrvState.reset]

/-- an unparsable request never gets past the negative rules of the specification -/
theorem isoAnswer_neg_of_raw (m : Model) (h : Handler) (st : SrvState) (r : Req) (hraw : r.raw = true) :
    (isoAnswer m h st r).isNeg = true := by
  unfold isoAnswer isoNegative
  cases hf : isoRules.find? (fun ru => ru.applies m st r) with
  | some ru => simp [Resp.isNeg]
  | none =>
    have := List.find?_eq_none.mp hf ⟨"incorrectMessageLengthOrInvalidFormat (request does not parse)", 0x13, fun _ _ r => r.raw⟩
      (by simp [isoRules])
    simp [hraw] at this

/-- switching a rule off = dropping it from the chain -/
theorem runChain_off (b : Behavior) (m : Model) (st : SrvState) (r : Req) (i : Sw) (ch : List Sw) :
    runChain (b.off i) m st r ch = runChain b m st r (ch.filter (· ≠ i)) := by
  induction ch with
  | nil => rfl
  | cons j rest ih =>
    by_cases hj : j = i
    · subst hj; simp [runChain, Behavior.off, ih]
    · simp [runChain, Behavior.off, hj, ih]

/-- a rule that does not fire can be dropped -/
theorem runChain_drop_pass (b : Behavior) (m : Model) (st : SrvState) (r : Req) (i : Sw) (ch : List Sw)
    (hp : b i = false ∨ evalRule i m st r = .pass) :
    runChain b m st r (ch.filter (· ≠ i)) = runChain b m st r ch := by
  induction ch with
  | nil => rfl
  | cons j rest ih =>
    simp only [ne_eq, decide_not] at ih
    by_cases hj : j = i
    · subst hj
      rcases hp with hp | hp <;> simp [runChain, hp, ih]
    · simp [runChain, hj, ih]

end Gallia.Server

namespace Gallia.Server
open Gallia Gallia.IsoDefault

/-- association lists (what the harness extracts from `RandomUDSServer.services`) give a well-formed model -/
theorem ofAssoc_wf (a : List (Sess × List (Sid × Option (List SubFn)))) : (Model.ofAssoc a).WF := by
  intro s
  simp only [Model.ofAssoc, Option.isSome_map]
  induction a with
  | nil => simp [List.lookup]
  | cons e rest ih =>
    obtain ⟨k, v⟩ := e
    by_cases hk : s = k
    · subst hk; simp [List.lookup]
    · have : (s == k) = false := by simpa using hk
      simp [List.lookup, this, hk, ih]

theorem lookup_mem {α β} [BEq α] [LawfulBEq α] (l : List (α × β)) (k : α) (v : β) (h : l.lookup k = some v) :
    (k, v) ∈ l := by
  induction l with
  | nil => simp [List.lookup] at h
  | cons e rest ih =>
    obtain ⟨k', v'⟩ := e
    by_cases hk : k = k'
    · subst hk; simp [List.lookup] at h; simp [h]
    · have : (k == k') = false := by simpa using hk
      simp [List.lookup, this] at h
      exact List.mem_cons_of_mem _ (ih h)

/-- ... whose sub-function services carry lists when the entries do -/
theorem ofAssoc_listed (a : List (Sess × List (Sid × Option (List SubFn))))
    (hall : ∀ e ∈ a, ∀ p ∈ e.2, p.1 ∈ subFnServices → p.2 ≠ none) :
    ∀ s sm, (Model.ofAssoc a).get s = some sm → ∀ sid ∈ subFnServices, sm sid ≠ some none := by
  intro s sm hg sid hsid hn
  simp only [Model.ofAssoc, Option.map_eq_some_iff] at hg
  obtain ⟨al, hl, rfl⟩ := hg
  have h1 := lookup_mem a s al hl
  have h2 := lookup_mem al sid none hn
  exact hall _ h1 _ h2 hsid rfl

end Gallia.Server
