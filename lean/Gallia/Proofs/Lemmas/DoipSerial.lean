import Gallia.Model.DoipFifo

/-! two consumers on one FIFO that are serialised by a lock (C06: blocked reader and acknowledgement wait) -/

namespace Gallia.DoipFifo

theorem takeFront_cons_pos {α : Type} (p : α → Bool) (x : α) (xs : List α) (h : p x = true) :
    takeFront p (x :: xs) = some (x, xs) := by
  simp [takeFront, findSplit, h, requeueFront]

theorem takeFront_cons_neg {α : Type} (p : α → Bool) (x : α) (xs : List α) (h : p x = false) :
    takeFront p (x :: xs) = (takeFront p xs).map (fun y => (y.1, x :: y.2)) := by
  simp only [takeFront, findSplit, h]
  cases findSplit p xs with
  | none => simp
  | some r => obtain ⟨pre, y, post⟩ := r; simp [requeueFront]

/-- two consumers with disjoint acceptance tests on one FIFO, one after the other: the order does not matter -/
theorem serial_commute {α : Type} (p r : α → Bool) (hd : ∀ x, p x = true → r x = false) (q : List α) :
    ((takeFront p q).bind fun y => (takeFront r y.2).map fun z => (y.1, z.1, z.2)) =
    ((takeFront r q).bind fun z => (takeFront p z.2).map fun y => (y.1, z.1, y.2)) := by
  induction q with
  | nil => simp [takeFront, findSplit]
  | cons x xs ih =>
    by_cases hp : p x = true
    · have hr := hd x hp
      rw [takeFront_cons_pos p x xs hp, takeFront_cons_neg r x xs hr]
      cases h : takeFront r xs with
      | none => simp [h]
      | some z => simp [h, takeFront_cons_pos p x _ hp]
    · have hp : p x = false := by simpa using hp
      by_cases hr : r x = true
      · rw [takeFront_cons_pos r x xs hr, takeFront_cons_neg p x xs hp]
        cases h : takeFront p xs with
        | none => simp [h]
        | some y => simp [h, takeFront_cons_pos r x _ hr]
      · have hr : r x = false := by simpa using hr
        rw [takeFront_cons_neg p x xs hp, takeFront_cons_neg r x xs hr]
        cases h1 : takeFront p xs with
        | none =>
          rw [h1] at ih
          cases h2 : takeFront r xs with
          | none => simp
          | some z =>
            rw [h2] at ih
            simp only [Option.bind_none, Option.bind_some] at ih
            simp only [Option.map_none, Option.bind_none, Option.map_some, Option.bind_some]
            rw [takeFront_cons_neg p x _ hp]
            cases h3 : takeFront p z.2 with
            | none => simp
            | some y => rw [h3] at ih; simp at ih
        | some y =>
          rw [h1] at ih
          simp only [Option.bind_some] at ih
          simp only [Option.map_some, Option.bind_some]
          rw [takeFront_cons_neg r x _ hr]
          cases h2 : takeFront r xs with
          | none =>
            rw [h2] at ih
            simp only [Option.bind_none] at ih
            cases h3 : takeFront r y.2 with
            | none => simp
            | some z => rw [h3] at ih; simp at ih
          | some z =>
            rw [h2] at ih
            simp only [Option.bind_some] at ih
            simp only [Option.map_some, Option.bind_some]
            rw [takeFront_cons_neg p x _ hp]
            cases h3 : takeFront r y.2 with
            | none =>
              rw [h3] at ih
              cases h4 : takeFront p z.2 with
              | none => simp
              | some y2 => rw [h4] at ih; simp at ih
            | some z2 =>
              rw [h3] at ih
              cases h4 : takeFront p z.2 with
              | none => rw [h4] at ih; simp at ih
              | some y2 =>
                rw [h4] at ih
                simp only [Option.map_some, Option.some.injEq, Prod.mk.injEq] at ih ⊢
                obtain ⟨e1, e2, e3⟩ := ih
                simp [e1, e2, e3]
end Gallia.DoipFifo
