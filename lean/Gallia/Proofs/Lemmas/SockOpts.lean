import Gallia.Model.ParseTransport
/-! C20 — the ISO-TP option block: layout lemmas -/
namespace Gallia.Parse

theorem unLe32_le32 (n : Nat) (h : n < 4294967296) :
    unLe32 (UInt8.ofNat n) (UInt8.ofNat (n / 256)) (UInt8.ofNat (n / 65536)) (UInt8.ofNat (n / 16777216)) = n := by
  simp only [unLe32, UInt8.toNat_ofNat']
  omega

theorem u8_toNat (n : Nat) (h : n < 256) : (UInt8.ofNat n).toNat = n := by
  simp only [UInt8.toNat_ofNat']
  omega

theorem decode_block (o : IsotpOpts) (h : o.WF) : decodeIsotpOpts (isotpOptsBlock o) = some o := by
  obtain ⟨h1, h2, h3, h4, h5, h6⟩ := h
  simp only [isotpOptsBlock, le32, List.cons_append, List.nil_append, decodeIsotpOpts, unLe32_le32 _ h1, unLe32_le32 _ h2,
    u8_toNat _ h3, u8_toNat _ h4, u8_toNat _ h5, u8_toNat _ h6]

theorem optByte_ok (v : Option Int) (h : ∀ z, v = some z → 0 ≤ z ∧ z < 256) : optByte v = some (v.getD 0).toNat ∧ (v.getD 0).toNat < 256 := by
  cases v with
  | none => simp [optByte]
  | some z =>
    have := h z rfl
    simp only [optByte, Option.getD_some]
    constructor
    · rw [if_pos this]
    · omega

end Gallia.Parse
