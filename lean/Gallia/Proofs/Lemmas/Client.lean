import Gallia.Model.Client
import Gallia.Spec.ClientSpec
/-
  Helper lemmas for C04 (client request loop): structure of the traces of `pendingLoop` and `attempts`.
-/
namespace Gallia.Client
open Gallia.ClientSpec

/-! ### counting over traces -/

@[simp] theorem nWrites_nil : nWrites [] = 0 := rfl
@[simp] theorem nReads_nil : nReads [] = 0 := rfl
@[simp] theorem nReconnects_nil : nReconnects [] = 0 := rfl
@[simp] theorem elapsedOf_nil : elapsedOf [] = 0 := rfl
@[simp] theorem sleepsOf_nil : sleepsOf [] = [] := rfl

@[simp] theorem nWrites_append (a b : List Op) : nWrites (a ++ b) = nWrites a + nWrites b := by
  simp [nWrites, List.countP_append]
@[simp] theorem nReads_append (a b : List Op) : nReads (a ++ b) = nReads a + nReads b := by
  simp [nReads, List.countP_append]
@[simp] theorem nReconnects_append (a b : List Op) : nReconnects (a ++ b) = nReconnects a + nReconnects b := by
  simp [nReconnects, List.countP_append]
@[simp] theorem elapsedOf_append (a b : List Op) : elapsedOf (a ++ b) = elapsedOf a + elapsedOf b := by
  simp [elapsedOf, List.sum_append]
@[simp] theorem sleepsOf_append (a b : List Op) : sleepsOf (a ++ b) = sleepsOf a ++ sleepsOf b := by
  simp [sleepsOf, List.filterMap_append]

@[simp] theorem nWrites_cons (o : Op) (t : List Op) : nWrites (o :: t) = (if o.isWr then 1 else 0) + nWrites t := by
  simp [nWrites, List.countP_cons]; omega
@[simp] theorem nReads_cons (o : Op) (t : List Op) : nReads (o :: t) = (if o.isRd then 1 else 0) + nReads t := by
  simp [nReads, List.countP_cons]; omega
@[simp] theorem nReconnects_cons (o : Op) (t : List Op) :
    nReconnects (o :: t) = (if o.isRc then 1 else 0) + nReconnects t := by
  simp [nReconnects, List.countP_cons]; omega
@[simp] theorem elapsedOf_cons (o : Op) (t : List Op) : elapsedOf (o :: t) = o.dur + elapsedOf t := by
  simp [elapsedOf]
@[simp] theorem sleepsOf_wr (t : List Op) : sleepsOf (.wr :: t) = sleepsOf t := rfl
@[simp] theorem sleepsOf_rd (k tm d) (t : List Op) : sleepsOf (.rd k tm d :: t) = sleepsOf t := rfl
@[simp] theorem sleepsOf_rc (t : List Op) : sleepsOf (.rc :: t) = sleepsOf t := rfl
@[simp] theorem sleepsOf_sl (d) (t : List Op) : sleepsOf (.sl d :: t) = d :: sleepsOf t := rfl

@[simp] theorem isWr_wr : Op.isWr .wr = true := rfl
@[simp] theorem isWr_rd (k t d) : Op.isWr (.rd k t d) = false := rfl
@[simp] theorem isWr_sl (d) : Op.isWr (.sl d) = false := rfl
@[simp] theorem isWr_rc : Op.isWr .rc = false := rfl
@[simp] theorem isRd_wr : Op.isRd .wr = false := rfl
@[simp] theorem isRd_rd (k t d) : Op.isRd (.rd k t d) = true := rfl
@[simp] theorem isRd_sl (d) : Op.isRd (.sl d) = false := rfl
@[simp] theorem isRd_rc : Op.isRd .rc = false := rfl
@[simp] theorem isRc_wr : Op.isRc .wr = false := rfl
@[simp] theorem isRc_rd (k t d) : Op.isRc (.rd k t d) = false := rfl
@[simp] theorem isRc_sl (d) : Op.isRc (.sl d) = false := rfl
@[simp] theorem isRc_rc : Op.isRc .rc = true := rfl
@[simp] theorem dur_wr : Op.dur .wr = 0 := rfl
@[simp] theorem dur_rd (k t d) : Op.dur (.rd k t d) = d := rfl
@[simp] theorem dur_sl (d) : Op.dur (.sl d) = d := rfl
@[simp] theorem dur_rc : Op.dur .rc = 0 := rfl
@[simp] theorem sleep_wr : Op.sleep? .wr = none := rfl
@[simp] theorem sleep_rd (k t d) : Op.sleep? (.rd k t d) = none := rfl
@[simp] theorem sleep_sl (d) : Op.sleep? (.sl d) = some d := rfl
@[simp] theorem sleep_rc : Op.sleep? .rc = none := rfl

/-! ### the responsePending loop -/

/-- summary of what one pending loop does: only reads (each costing at most `max waiting lat`), consecutive
    read indices starting at `k`, and the index it hands on -/
structure PendFacts (c : Cfg) (k : Nat) (r : PRes × List Op) : Prop where
  nw : nWrites r.2 = 0
  nrc : nReconnects r.2 = 0
  sl : sleepsOf r.2 = []
  pos : 0 < nReads r.2
  time : elapsedOf r.2 ≤ nReads r.2 * max c.lim.waiting c.lat
  next : match r.1 with
    | .silence k' => k' = k + nReads r.2
    | .lost k' => k' = k + nReads r.2
    | .done (.reply j) => j + 1 = k + nReads r.2
    | .done (.illegal j) => j + 1 = k + nReads r.2
    | .done _ => True

theorem PendFacts.base (c : Cfg) (k j d : Nat) (r : PRes) (hd : d ≤ max c.lim.waiting c.lat)
    (hn : match r with
      | .silence k' => k' = k + 1
      | .lost k' => k' = k + 1
      | .done (.reply j) => j + 1 = k + 1
      | .done (.illegal j) => j + 1 = k + 1
      | .done _ => True) :
    PendFacts c k (r, [.rd j c.lim.waiting d]) := by
  refine ⟨by simp, by simp, by simp, by simp, by simpa using hd, ?_⟩
  simpa using hn

theorem PendFacts.step (c : Cfg) (k j d : Nat) (r : PRes × List Op) (hd : d ≤ max c.lim.waiting c.lat)
    (ih : PendFacts c (k+1) r) : PendFacts c k (consOp (.rd j c.lim.waiting d) r) := by
  obtain ⟨a, b, c', d', e, f⟩ := ih
  refine ⟨by simpa [consOp] using a, by simpa [consOp] using b, by simpa [consOp] using c', by simp [consOp]; omega, ?_, ?_⟩
  · simp only [consOp, elapsedOf_cons, dur_rd, nReads_cons, isRd_rd, if_true, Nat.add_mul, Nat.one_mul]
    omega
  · simp only [consOp, nReads_cons, isRd_rd, if_true]
    revert f
    cases r.1 with
    | silence k' => simp; omega
    | lost k' => simp; omega
    | done o => cases o <;> simp <;> omega

theorem pend_facts (c : Cfg) (s : Nat → Ev) (k np nt : Nat) : PendFacts c k (pendingLoop c s k np nt) := by
  fun_induction pendingLoop c s k np nt with
  | case1 => exact PendFacts.base _ _ _ _ _ (Nat.le_max_left ..) (by simp)
  | case2 _ _ _ _ _ ih => exact PendFacts.step _ _ _ _ _ (Nat.le_max_left ..) ih
  | case3 => exact PendFacts.base _ _ _ _ _ (Nat.le_max_right ..) (by simp)
  | case4 => exact PendFacts.base _ _ _ _ _ (Nat.le_max_right ..) (by simp)
  | case5 => exact PendFacts.base _ _ _ _ _ (Nat.le_max_right ..) (by simp)
  | case6 => exact PendFacts.base _ _ _ _ _ (Nat.le_max_right ..) (by simp)
  | case7 => exact PendFacts.base _ _ _ _ _ (Nat.le_max_right ..) (by simp)
  | case8 _ _ _ _ _ ih => exact PendFacts.step _ _ _ _ _ (Nat.le_max_right ..) ih
  | case9 => exact PendFacts.base _ _ _ _ _ (Nat.le_max_right ..) (by simp)
  | case10 => exact PendFacts.base _ _ _ _ _ (Nat.le_max_right ..) (by simp)
  | case11 => exact PendFacts.base _ _ _ _ _ (Nat.le_max_right ..) (by simp)

theorem pend_reads_le (c : Cfg) (s : Nat → Ev) (k np nt : Nat) :
    nReads (pendingLoop c s k np nt).2 ≤ pendReadsBound c np nt := by
  fun_induction pendingLoop c s k np nt with
  | case2 k np nt _ h ih =>
    simp only [consOp, nReads_cons, isRd_rd, if_true, pendReadsBound] at *
    omega
  | case8 k np nt _ h ih =>
    simp only [consOp, nReads_cons, isRd_rd, if_true, pendReadsBound] at *
    have h1 : c.lim.maxPending - np = (c.lim.maxPending - (np+1)) + 1 := by omega
    rw [h1, Nat.add_mul]
    omega
  | _ => simp [pendReadsBound]

/-! ### the attempt loop -/

theorem afterFault_nw (c : Cfg) (i : Nat) (b : Bool) : nWrites (afterFault c i b) = 0 := by
  unfold afterFault; cases b <;> split <;> simp
theorem afterFault_nr (c : Cfg) (i : Nat) (b : Bool) : nReads (afterFault c i b) = 0 := by
  unfold afterFault; cases b <;> split <;> simp
theorem afterFault_time (c : Cfg) (i : Nat) (b : Bool) : elapsedOf (afterFault c i b) ≤ wait c i := by
  unfold afterFault; cases b <;> split <;> simp

theorem afterFault_nrc_le (c : Cfg) (i : Nat) (b : Bool) : nReconnects (afterFault c i b) ≤ 1 := by
  unfold afterFault; cases b <;> split <;> simp

/-- bounds on what the attempt loop does from attempt `i` on -/
structure AttBounds (c : Cfg) (i : Nat) (r : Out × List Op) : Prop where
  writes : nWrites r.2 ≤ c.maxRetry + 1 - i
  reads : nReads r.2 ≤ (c.maxRetry + 1 - i) * attemptReadsBound c
  time : elapsedOf r.2 ≤ timeBoundFrom c i (c.maxRetry + 1 - i)

/-- one attempt that ends the request -/
theorem AttBounds.last (c : Cfg) (i k d : Nat) (o : Out) (t : List Op) (hi : ¬ c.maxRetry < i)
    (hd : d ≤ max c.timeout c.lat)
    (hw : nWrites t = 0) (hr : nReads t ≤ pendReadsBound c 1 0)
    (ht : elapsedOf t ≤ nReads t * max c.lim.waiting c.lat) :
    AttBounds c i (o, .wr :: .rd k c.timeout d :: t) := by
  obtain ⟨n, hn⟩ : ∃ n, c.maxRetry + 1 - i = n + 1 := ⟨c.maxRetry - i, by omega⟩
  have hm := Nat.mul_le_mul_right (max c.lim.waiting c.lat) hr
  refine ⟨?_, ?_, ?_⟩ <;> rw [hn]
  · simp [hw]
  · have hA : attemptReadsBound c = 1 + pendReadsBound c 1 0 := rfl
    rw [Nat.add_mul]; simp; omega
  · simp [timeBoundFrom, attemptTimeBound]; omega

/-- one attempt followed by further attempts -/
theorem AttBounds.more (c : Cfg) (i k d : Nat) (t : List Op) (r : Out × List Op) (hi : ¬ c.maxRetry < i)
    (hd : d ≤ max c.timeout c.lat)
    (hw : nWrites t = 0) (hr : nReads t ≤ pendReadsBound c 1 0)
    (ht : elapsedOf t ≤ nReads t * max c.lim.waiting c.lat + wait c i)
    (ih : AttBounds c (i+1) r) :
    AttBounds c i (pre (.wr :: .rd k c.timeout d :: t) r) := by
  obtain ⟨a, b, e⟩ := ih
  obtain ⟨n, hn⟩ : ∃ n, c.maxRetry + 1 - i = n + 1 := ⟨c.maxRetry - i, by omega⟩
  have hn' : c.maxRetry + 1 - (i+1) = n := by omega
  have hm := Nat.mul_le_mul_right (max c.lim.waiting c.lat) hr
  rw [hn'] at a b e
  refine ⟨?_, ?_, ?_⟩ <;> rw [hn]
  · simp [pre, hw]; omega
  · have hA : attemptReadsBound c = 1 + pendReadsBound c 1 0 := rfl
    rw [Nat.add_mul]; simp [pre]; omega
  · simp [pre, timeBoundFrom, attemptTimeBound]; omega

theorem attempts_bounds (c : Cfg) (s : Nat → Ev) (i k : Nat) (last : Out) :
    AttBounds c i (attempts c s i k last) := by
  fun_induction attempts c s i k last with
  | case1 => exact ⟨by simp, by simp, by simp⟩
  | case2 i k _ hi _ ih =>
    exact AttBounds.more c i k _ _ _ hi (Nat.le_max_left ..) (afterFault_nw ..) (by simp [afterFault_nr])
      (by have := afterFault_time c i false; simp [afterFault_nr]; omega) ih
  | case3 i k _ hi _ ih =>
    exact AttBounds.more c i k _ _ _ hi (Nat.le_max_right ..) (afterFault_nw ..) (by simp [afterFault_nr])
      (by have := afterFault_time c i true; simp [afterFault_nr]; omega) ih
  | case4 i k _ hi _ ih =>
    exact AttBounds.more c i k _ _ _ hi (Nat.le_max_right ..) (afterFault_nw ..) (by simp [afterFault_nr])
      (by have := afterFault_time c i true; simp [afterFault_nr]; omega) ih
  | case5 i k _ hi _ _ => exact AttBounds.last c i k _ _ [] hi (Nat.le_max_right ..) (by simp) (by simp) (by simp)
  | case6 i k _ hi _ _ ih =>
    exact AttBounds.more c i k _ [.sl (wait c i)] _ hi (Nat.le_max_right ..) (by simp) (by simp) (by simp) ih
  | case7 i k _ hi _ => exact AttBounds.last c i k _ _ [] hi (Nat.le_max_right ..) (by simp) (by simp) (by simp)
  | case8 i k _ hi _ => exact AttBounds.last c i k _ _ [] hi (Nat.le_max_right ..) (by simp) (by simp) (by simp)
  | case9 i k _ hi _ => exact AttBounds.last c i k _ _ [] hi (Nat.le_max_right ..) (by simp) (by simp) (by simp)
  | case10 i k _ hi _ => exact AttBounds.last c i k _ _ [] hi (Nat.le_max_right ..) (by simp) (by simp) (by simp)
  | case11 i k _ hi _ o t hp =>
    have pf := pend_facts c s (k+1) 1 0
    have pr := pend_reads_le c s (k+1) 1 0
    rw [hp] at pf pr
    have h1 := pf.nw; have h2 := pf.time
    simp only at h1 h2 pr
    exact AttBounds.last c i k _ _ t hi (Nat.le_max_right ..) h1 pr h2
  | case12 i k _ hi _ k' t hp ih =>
    have pf := pend_facts c s (k+1) 1 0
    have pr := pend_reads_le c s (k+1) 1 0
    rw [hp] at pf pr
    have h1 := pf.nw; have h2 := pf.time
    simp only at h1 h2 pr
    exact AttBounds.more c i k _ t _ hi (Nat.le_max_right ..) h1 pr (by omega) ih
  | case13 i k _ hi _ k' t hp ih =>
    have pf := pend_facts c s (k+1) 1 0
    have pr := pend_reads_le c s (k+1) 1 0
    rw [hp] at pf pr
    have h1 := pf.nw; have h2 := pf.time
    simp only at h1 h2 pr
    exact AttBounds.more c i k _ (t ++ afterFault c i true) _ hi (Nat.le_max_right ..)
      (by simp [h1, afterFault_nw]) (by simpa [afterFault_nr] using pr)
      (by have := afterFault_time c i true; rw [elapsedOf_append, nReads_append, afterFault_nr, Nat.add_zero]; omega) ih

/-! ### soundness with respect to the specification -/

/-- the limits the specification is instantiated with -/
def bounds (c : Cfg) : Bounds := ⟨c.lim.maxPending, maxNT c⟩

theorem attempts_done (c : Cfg) (s : Nat → Ev) (i k : Nat) (last : Out) (h : c.maxRetry < i) :
    attempts c s i k last = (last, []) := by
  rw [attempts]; simp [h]

theorem pend_sound (c : Cfg) (s : Nat → Ev) (k np nt : Nat) (b : Nat) (o : Out)
    (h : match (pendingLoop c s k np nt).1 with
      | .done o' => o = o'
      | .silence k' => (b = 0 ∧ o = .missing false) ∨ (∃ b', b = b' + 1 ∧ Implied (bounds c) s .wait b' k' o)
      | .lost k' => (b = 0 ∧ o = .missing true) ∨ (∃ b', b = b' + 1 ∧ Implied (bounds c) s .wait b' k' o)) :
    Implied (bounds c) s (.pend np nt) b k o := by
  fun_induction pendingLoop c s k np nt with
  | case1 k np nt hk hl =>
    rcases h with ⟨rfl, rfl⟩ | ⟨b', rfl, hi⟩
    · exact .silenceLast hk hl
    · exact .silenceRetry hk hl hi
  | case2 k np nt hk hl ih => exact .quiet hk (by simp [bounds]; omega) (ih h)
  | case3 k np nt hk =>
    rcases h with ⟨rfl, rfl⟩ | ⟨b', rfl, hi⟩
    · exact .lostLast (by simp [hk, Ev.lost])
    · exact .lostRetry (by simp [hk, Ev.lost]) hi
  | case4 k np nt hk =>
    rcases h with ⟨rfl, rfl⟩ | ⟨b', rfl, hi⟩
    · exact .lostLast (by simp [hk, Ev.lost])
    · exact .lostRetry (by simp [hk, Ev.lost]) hi
  | case5 k np nt hk => subst h; exact .illegal (by simp [hk, Ev.illegal])
  | case6 k np nt hk => subst h; exact .illegal (by simp [hk, Ev.illegal])
  | case7 k np nt hk hl => subst h; exact .pendStuck hk hl
  | case8 k np nt hk hl ih => exact .pendAgain hk (by simp [bounds]; omega) (ih h)
  | case9 k np nt hk => subst h; exact .busyAfterPending hk
  | case10 k np nt hk => subst h; exact .final (by simp [hk, Ev.final])
  | case11 k np nt hk => subst h; exact .final (by simp [hk, Ev.final])

theorem attempts_sound (c : Cfg) (s : Nat → Ev) (i k : Nat) (last : Out) (hi : i ≤ c.maxRetry) :
    Implied (bounds c) s .wait (c.maxRetry - i) k (attempts c s i k last).1 := by
  fun_induction attempts c s i k last with
  | case1 i k last h => omega
  | case2 i k _ _ hk ih =>
    by_cases hl : i < c.maxRetry
    · have : c.maxRetry - i = (c.maxRetry - (i+1)) + 1 := by omega
      rw [this]; exact .silentRetry hk (ih (by omega))
    · have : c.maxRetry - i = 0 := by omega
      rw [this, attempts_done c s (i+1) (k+1) _ (by omega)]; exact .silentLast hk
  | case3 i k _ _ hk ih =>
    by_cases hl : i < c.maxRetry
    · have : c.maxRetry - i = (c.maxRetry - (i+1)) + 1 := by omega
      rw [this]; exact .lostRetry (by simp [hk, Ev.lost]) (ih (by omega))
    · have : c.maxRetry - i = 0 := by omega
      rw [this, attempts_done c s (i+1) (k+1) _ (by omega)]; exact .lostLast (by simp [hk, Ev.lost])
  | case4 i k _ _ hk ih =>
    by_cases hl : i < c.maxRetry
    · have : c.maxRetry - i = (c.maxRetry - (i+1)) + 1 := by omega
      rw [this]; exact .lostRetry (by simp [hk, Ev.lost]) (ih (by omega))
    · have : c.maxRetry - i = 0 := by omega
      rw [this, attempts_done c s (i+1) (k+1) _ (by omega)]; exact .lostLast (by simp [hk, Ev.lost])
  | case5 i k _ _ hk hl =>
    have : c.maxRetry - i = 0 := by omega
    rw [this]; exact .busyLast hk
  | case6 i k last _ hk hl ih =>
    have : c.maxRetry - i = (c.maxRetry - (i+1)) + 1 := by omega
    rw [this]; exact .busyRetry hk (ih (by omega))
  | case7 i k _ _ hk => exact .illegal (by simp [hk, Ev.illegal])
  | case8 i k _ _ hk => exact .illegal (by simp [hk, Ev.illegal])
  | case9 i k _ _ hk => exact .final (by simp [hk, Ev.final])
  | case10 i k _ _ hk => exact .final (by simp [hk, Ev.final])
  | case11 i k _ _ hk o t hp =>
    exact .pendFirst hk (pend_sound c s (k+1) 1 0 _ _ (by rw [hp]))
  | case12 i k _ _ hk k' t hp ih =>
    refine .pendFirst hk (pend_sound c s (k+1) 1 0 _ _ ?_)
    rw [hp]; simp only [pre]
    by_cases hl : i < c.maxRetry
    · exact .inr ⟨c.maxRetry - (i+1), by omega, ih (by omega)⟩
    · rw [attempts_done c s (i+1) k' _ (by omega)]; exact .inl ⟨by omega, rfl⟩
  | case13 i k _ _ hk k' t hp ih =>
    refine .pendFirst hk (pend_sound c s (k+1) 1 0 _ _ ?_)
    rw [hp]; simp only [pre]
    by_cases hl : i < c.maxRetry
    · exact .inr ⟨c.maxRetry - (i+1), by omega, ih (by omega)⟩
    · rw [attempts_done c s (i+1) k' _ (by omega)]; exact .inl ⟨by omega, rfl⟩

/-! ### no reply is dropped -/

theorem pend_first (c : Cfg) (s : Nat → Ev) (k np nt : Nat) (j : Nat) (hj : k ≤ j)
    (hj' : j < k + nReads (pendingLoop c s k np nt).2) :
    ((s j).final = true → (pendingLoop c s k np nt).1 = .done (.reply j)) ∧
    ((s j).illegal = true → (pendingLoop c s k np nt).1 = .done (.illegal j)) := by
  fun_induction pendingLoop c s k np nt with
  | case2 k np nt hk hl ih =>
    simp only [consOp, nReads_cons, isRd_rd, if_true] at hj' ⊢
    by_cases hjk : j = k
    · subst hjk; simp [hk, Ev.final, Ev.illegal]
    · exact ih (by omega) (by omega)
  | case8 k np nt hk hl ih =>
    simp only [consOp, nReads_cons, isRd_rd, if_true] at hj' ⊢
    by_cases hjk : j = k
    · subst hjk; simp [hk, Ev.final, Ev.illegal]
    · exact ih (by omega) (by omega)
  | _ =>
    simp at hj'
    have hjk := Nat.le_antisymm (Nat.lt_succ_iff.mp hj') hj
    subst hjk; simp_all [Ev.final, Ev.illegal]

/-- no reply that was read is dropped: among the reads `k ≤ j < k + reads` of the attempt loop, a final reply
    is the one returned and an illegal reply is the one reported -/
theorem attempts_first (c : Cfg) (s : Nat → Ev) (i k : Nat) (last : Out) (j : Nat) (hj : k ≤ j)
    (hj' : j < k + nReads (attempts c s i k last).2) :
    ((s j).final = true → (attempts c s i k last).1 = .reply j) ∧
    ((s j).illegal = true → (attempts c s i k last).1 = .illegal j) := by
  fun_induction attempts c s i k last with
  | case1 => simp at hj'; omega
  | case2 i k _ _ hk ih =>
    simp only [pre, nReads_append, nReads_cons, isRd_rd, isRd_wr, afterFault_nr, if_true] at hj' ⊢
    by_cases hjk : j = k
    · subst hjk; simp [hk, Ev.final, Ev.illegal]
    · exact ih (by omega) (by simp at hj'; omega)
  | case3 i k _ _ hk ih =>
    simp only [pre, nReads_append, nReads_cons, isRd_rd, isRd_wr, afterFault_nr, if_true] at hj' ⊢
    by_cases hjk : j = k
    · subst hjk; simp [hk, Ev.final, Ev.illegal]
    · exact ih (by omega) (by simp at hj'; omega)
  | case4 i k _ _ hk ih =>
    simp only [pre, nReads_append, nReads_cons, isRd_rd, isRd_wr, afterFault_nr, if_true] at hj' ⊢
    by_cases hjk : j = k
    · subst hjk; simp [hk, Ev.final, Ev.illegal]
    · exact ih (by omega) (by simp at hj'; omega)
  | case6 i k last _ hk hl ih =>
    simp only [pre, nReads_append, nReads_cons, isRd_rd, isRd_wr, isRd_sl, if_true] at hj' ⊢
    by_cases hjk : j = k
    · subst hjk; simp [hk, Ev.final, Ev.illegal]
    · exact ih (by omega) (by simp at hj'; omega)
  | case11 i k _ _ hk o t hp =>
    have pf := pend_first c s (k+1) 1 0 j
    rw [hp] at pf
    simp only [nReads_cons, isRd_rd, isRd_wr, if_true] at hj' pf ⊢
    by_cases hjk : j = k
    · subst hjk; simp [hk, Ev.final, Ev.illegal]
    · have := pf (by omega) (by simp at hj'; omega)
      simpa using this
  | case12 i k _ _ hk k' t hp ih =>
    have pf := pend_first c s (k+1) 1 0 j
    have pn := (pend_facts c s (k+1) 1 0).next
    rw [hp] at pf pn
    simp only [pre, nReads_append, nReads_cons, isRd_rd, isRd_wr, if_true] at hj' pf pn ⊢
    by_cases hjk : j = k
    · subst hjk; simp [hk, Ev.final, Ev.illegal]
    · by_cases hjt : j < k + 1 + nReads t
      · have := pf (by omega) hjt
        simp at this
        exact ⟨fun h => absurd h (by simpa using this.1), fun h => absurd h (by simpa using this.2)⟩
      · exact ih (by omega) (by simp at hj'; omega)
  | case13 i k _ _ hk k' t hp ih =>
    have pf := pend_first c s (k+1) 1 0 j
    have pn := (pend_facts c s (k+1) 1 0).next
    rw [hp] at pf pn
    simp only [pre, nReads_append, nReads_cons, isRd_rd, isRd_wr, afterFault_nr, if_true] at hj' pf pn ⊢
    by_cases hjk : j = k
    · subst hjk; simp [hk, Ev.final, Ev.illegal]
    · by_cases hjt : j < k + 1 + nReads t
      · have := pf (by omega) hjt
        simp at this
        exact ⟨fun h => absurd h (by simpa using this.1), fun h => absurd h (by simpa using this.2)⟩
      · exact ih (by omega) (by simp at hj'; omega)
  | _ =>
    simp at hj'
    have hjk := Nat.le_antisymm (Nat.lt_succ_iff.mp hj') hj
    subst hjk; simp_all [Ev.final, Ev.illegal]

/-! ### backoff; `last_exception` -/

theorem afterFault_sleeps (c : Cfg) (i : Nat) (b : Bool) :
    sleepsOf (afterFault c i b) = if i < c.maxRetry then [wait c i] else [] := by
  unfold afterFault; cases b <;> split <;> simp

/-- backoff sleeps of the attempts `i, i+1, …`: a sublist (same order) of `wait i, wait (i+1), …, wait (maxRetry-1)` -/
theorem attempts_sleeps (c : Cfg) (s : Nat → Ev) (i k : Nat) (last : Out) :
    (sleepsOf (attempts c s i k last).2).Sublist ((List.range' i (c.maxRetry - i)).map (wait c)) := by
  fun_induction attempts c s i k last with
  | case1 => simp
  | case2 i k _ _ hk ih =>
    simp only [pre, sleepsOf_append, sleepsOf_wr, sleepsOf_rd, List.cons_append, afterFault_sleeps]
    by_cases hl : i < c.maxRetry
    · have : c.maxRetry - i = (c.maxRetry - (i+1)) + 1 := by omega
      rw [this, List.range'_succ]; simpa [hl] using ih
    · rw [attempts_done c s (i+1) (k+1) _ (by omega)]; simp [hl]
  | case3 i k _ _ hk ih =>
    simp only [pre, sleepsOf_append, sleepsOf_wr, sleepsOf_rd, List.cons_append, afterFault_sleeps]
    by_cases hl : i < c.maxRetry
    · have : c.maxRetry - i = (c.maxRetry - (i+1)) + 1 := by omega
      rw [this, List.range'_succ]; simpa [hl] using ih
    · rw [attempts_done c s (i+1) (k+1) _ (by omega)]; simp [hl]
  | case4 i k _ _ hk ih =>
    simp only [pre, sleepsOf_append, sleepsOf_wr, sleepsOf_rd, List.cons_append, afterFault_sleeps]
    by_cases hl : i < c.maxRetry
    · have : c.maxRetry - i = (c.maxRetry - (i+1)) + 1 := by omega
      rw [this, List.range'_succ]; simpa [hl] using ih
    · rw [attempts_done c s (i+1) (k+1) _ (by omega)]; simp [hl]
  | case6 i k last _ hk hl ih =>
    have : c.maxRetry - i = (c.maxRetry - (i+1)) + 1 := by omega
    rw [this, List.range'_succ]; simpa [pre] using ih
  | case11 i k _ _ hk o t hp =>
    have pf := (pend_facts c s (k+1) 1 0).sl
    rw [hp] at pf; simp at pf
    simp [pf]
  | case12 i k _ hi hk k' t hp ih =>
    have pf := (pend_facts c s (k+1) 1 0).sl
    rw [hp] at pf; simp at pf
    simp only [pre, sleepsOf_append, sleepsOf_wr, sleepsOf_rd, List.cons_append, pf, List.nil_append]
    by_cases hl : i < c.maxRetry
    · have : c.maxRetry - i = (c.maxRetry - (i+1)) + 1 := by omega
      rw [this, List.range'_succ, List.map_cons]; exact List.Sublist.cons _ ih
    · rw [attempts_done c s (i+1) k' _ (by omega)]; simp
  | case13 i k _ hi hk k' t hp ih =>
    have pf := (pend_facts c s (k+1) 1 0).sl
    rw [hp] at pf; simp at pf
    simp only [pre, sleepsOf_append, sleepsOf_wr, sleepsOf_rd, List.cons_append, pf, List.nil_append, afterFault_sleeps]
    by_cases hl : i < c.maxRetry
    · have : c.maxRetry - i = (c.maxRetry - (i+1)) + 1 := by omega
      rw [this, List.range'_succ]; simpa [hl] using ih
    · rw [attempts_done c s (i+1) k' _ (by omega)]; simp [hl]
  | _ => simp

/-- the value of `last_exception` before the loop is irrelevant: the exception raised stems from the last attempt -/
theorem attempts_last_irrelevant (c : Cfg) (s : Nat → Ev) (i k : Nat) (l₁ l₂ : Out) (hi : i ≤ c.maxRetry) :
    attempts c s i k l₁ = attempts c s i k l₂ := by
  fun_induction attempts c s i k l₁ generalizing l₂ with
  | case1 => omega
  | case6 i k last _ hk hl ih =>
    rw [attempts.eq_def c s i k l₂]; simp only [hk]; simp [hl, ih l₂ (by omega)]; omega
  | _ => rw [attempts.eq_def _ _ _ _ l₂]; simp_all <;> (intro h; omega)

/-! ### transmissions = 1 + retry-worthy events -/

/-- phase reached after the `n` reads `k, …, k+n-1` -/
def phaseAfter (B : Bounds) (s : Nat → Ev) : Phase → Nat → Nat → Phase
  | ph, _, 0 => ph
  | ph, k, n+1 => phaseAfter B s (stepPhase B ph (s k)).1 (k+1) n

theorem retryEventsFrom_add (B : Bounds) (s : Nat → Ev) (ph : Phase) (k n m : Nat) :
    retryEventsFrom B s ph k (n + m) =
      retryEventsFrom B s ph k n + retryEventsFrom B s (phaseAfter B s ph k n) (k + n) m := by
  induction n generalizing ph k with
  | zero => simp [retryEventsFrom, phaseAfter]
  | succ n ih =>
    rw [show n + 1 + m = (n + m) + 1 by omega]
    simp only [retryEventsFrom, phaseAfter, ih]
    rw [show k + 1 + n = k + (n + 1) by omega]
    omega

theorem pend_events (c : Cfg) (s : Nat → Ev) (k np nt : Nat) :
    (∀ o, (pendingLoop c s k np nt).1 = .done o →
        retryEventsFrom (bounds c) s (.pend np nt) k (nReads (pendingLoop c s k np nt).2) = 0) ∧
    ((∀ o, (pendingLoop c s k np nt).1 ≠ .done o) →
        retryEventsFrom (bounds c) s (.pend np nt) k (nReads (pendingLoop c s k np nt).2) = 1 ∧
        phaseAfter (bounds c) s (.pend np nt) k (nReads (pendingLoop c s k np nt).2) = .wait) := by
  fun_induction pendingLoop c s k np nt with
  | case2 k np nt hk hl ih =>
    have hl' : ¬ (bounds c).maxSilent ≤ nt + 1 := by simpa [bounds] using hl
    simpa [consOp, Nat.add_comm 1, retryEventsFrom, phaseAfter, stepPhase, hk, hl'] using ih
  | case8 k np nt hk hl ih =>
    simpa [consOp, Nat.add_comm 1, retryEventsFrom, phaseAfter, stepPhase, hk] using ih
  | case1 k np nt hk hl =>
    have hl' : (bounds c).maxSilent ≤ nt + 1 := by simpa [bounds] using hl
    simp [retryEventsFrom, phaseAfter, stepPhase, hk, hl']
  | _ => simp_all [retryEventsFrom, phaseAfter, stepPhase]

set_option linter.unusedSimpArgs false in
theorem attempts_writes_eq (c : Cfg) (s : Nat → Ev) (i k : Nat) (last : Out) (hi : i ≤ c.maxRetry) :
    nWrites (attempts c s i k last).2 =
      min (1 + retryEventsFrom (bounds c) s .wait k (nReads (attempts c s i k last).2)) (c.maxRetry + 1 - i) := by
  fun_induction attempts c s i k last with
  | case1 => omega
  | case2 i k _ _ hk ih =>
    simp only [pre, nWrites_append, nWrites_cons, nReads_append, nReads_cons, afterFault_nw, afterFault_nr,
      isWr_wr, isWr_rd, isWr_sl, isRd_wr, isRd_rd, isRd_sl, if_true, Bool.false_eq_true, if_false, Nat.zero_add, Nat.add_zero,
      nWrites_nil, nReads_nil]
    rw [Nat.add_comm 1 (nReads _)]
    simp only [retryEventsFrom, stepPhase, hk, if_true]
    by_cases hl : i < c.maxRetry
    · have := ih (by omega); omega
    · rw [attempts_done c s (i+1) (k+1) _ (by omega)]; simp [retryEventsFrom]; omega
  | case3 i k _ _ hk ih =>
    simp only [pre, nWrites_append, nWrites_cons, nReads_append, nReads_cons, afterFault_nw, afterFault_nr,
      isWr_wr, isWr_rd, isWr_sl, isRd_wr, isRd_rd, isRd_sl, if_true, Bool.false_eq_true, if_false, Nat.zero_add, Nat.add_zero,
      nWrites_nil, nReads_nil]
    rw [Nat.add_comm 1 (nReads _)]
    simp only [retryEventsFrom, stepPhase, hk, if_true]
    by_cases hl : i < c.maxRetry
    · have := ih (by omega); omega
    · rw [attempts_done c s (i+1) (k+1) _ (by omega)]; simp [retryEventsFrom]; omega
  | case4 i k _ _ hk ih =>
    simp only [pre, nWrites_append, nWrites_cons, nReads_append, nReads_cons, afterFault_nw, afterFault_nr,
      isWr_wr, isWr_rd, isWr_sl, isRd_wr, isRd_rd, isRd_sl, if_true, Bool.false_eq_true, if_false, Nat.zero_add, Nat.add_zero,
      nWrites_nil, nReads_nil]
    rw [Nat.add_comm 1 (nReads _)]
    simp only [retryEventsFrom, stepPhase, hk, if_true]
    by_cases hl : i < c.maxRetry
    · have := ih (by omega); omega
    · rw [attempts_done c s (i+1) (k+1) _ (by omega)]; simp [retryEventsFrom]; omega
  | case5 i k _ _ hk hl =>
    simp [retryEventsFrom, stepPhase, hk]; omega
  | case6 i k last _ hk hl ih =>
    simp only [pre, nWrites_append, nWrites_cons, nReads_append, nReads_cons, afterFault_nw, afterFault_nr,
      isWr_wr, isWr_rd, isWr_sl, isRd_wr, isRd_rd, isRd_sl, if_true, Bool.false_eq_true, if_false, Nat.zero_add, Nat.add_zero,
      nWrites_nil, nReads_nil]
    rw [Nat.add_comm 1 (nReads _)]
    simp only [retryEventsFrom, stepPhase, hk, if_true]
    have := ih (by omega); omega
  | case7 i k _ _ hk =>
    simp [retryEventsFrom, stepPhase, hk]; omega
  | case8 i k _ _ hk =>
    simp [retryEventsFrom, stepPhase, hk]; omega
  | case9 i k _ _ hk =>
    simp [retryEventsFrom, stepPhase, hk]; omega
  | case10 i k _ _ hk =>
    simp [retryEventsFrom, stepPhase, hk]; omega
  | case11 i k _ _ hk o t hp =>
    have pe := (pend_events c s (k+1) 1 0).1 o (by rw [hp])
    rw [hp] at pe
    simp only [pre, nWrites_append, nWrites_cons, nReads_append, nReads_cons, afterFault_nw, afterFault_nr,
      isWr_wr, isWr_rd, isWr_sl, isRd_wr, isRd_rd, isRd_sl, if_true, Bool.false_eq_true, if_false, Nat.zero_add, Nat.add_zero,
      nWrites_nil, nReads_nil]
    rw [Nat.add_comm 1 (nReads _)]
    have pw := (pend_facts c s (k+1) 1 0).nw
    rw [hp] at pw
    simp only at pe pw
    simp only [retryEventsFrom, stepPhase, hk, pe, pw]
    simp; omega
  | case12 i k _ _ hk k' t hp ih =>
    have pe := (pend_events c s (k+1) 1 0).2 (by rw [hp]; simp)
    have pf := pend_facts c s (k+1) 1 0
    rw [hp] at pe pf
    have pw := pf.nw; have pn := pf.next
    simp only at pe pw pn
    simp only [pre, nWrites_append, nWrites_cons, nReads_append, nReads_cons, afterFault_nw, afterFault_nr,
      isWr_wr, isWr_rd, isWr_sl, isRd_wr, isRd_rd, isRd_sl, if_true, Bool.false_eq_true, if_false, Nat.zero_add, Nat.add_zero,
      nWrites_nil, nReads_nil]
    rw [Nat.add_assoc 1 (nReads t), Nat.add_comm 1 (nReads t + _)]
    simp only [retryEventsFrom, stepPhase, hk, retryEventsFrom_add, pe.1, pe.2, pw, ← pn]
    by_cases hl : i < c.maxRetry
    · have := ih (by omega); simp at this ⊢; omega
    · rw [attempts_done c s (i+1) k' _ (by omega)]; simp [retryEventsFrom]; omega
  | case13 i k _ _ hk k' t hp ih =>
    have pe := (pend_events c s (k+1) 1 0).2 (by rw [hp]; simp)
    have pf := pend_facts c s (k+1) 1 0
    rw [hp] at pe pf
    have pw := pf.nw; have pn := pf.next
    simp only at pe pw pn
    simp only [pre, nWrites_append, nWrites_cons, nReads_append, nReads_cons, afterFault_nw, afterFault_nr,
      isWr_wr, isWr_rd, isWr_sl, isRd_wr, isRd_rd, isRd_sl, if_true, Bool.false_eq_true, if_false, Nat.zero_add, Nat.add_zero,
      nWrites_nil, nReads_nil]
    rw [Nat.add_assoc 1 (nReads t), Nat.add_comm 1 (nReads t + _)]
    simp only [retryEventsFrom, stepPhase, hk, retryEventsFrom_add, pe.1, pe.2, pw, ← pn]
    by_cases hl : i < c.maxRetry
    · have := ih (by omega); simp at this ⊢; omega
    · rw [attempts_done c s (i+1) k' _ (by omega)]; simp [retryEventsFrom]; omega

/-! ### responsePending is never followed by a transmission -/

/-- in a trace, every read that produced a responsePending reply is directly followed by another read
    (no transmission, no sleep, no reconnect in between) or is the last action -/
def PendNoWrite (s : Nat → Ev) : List Op → Prop
  | [] => True
  | .rd k _ _ :: rest => (s k = .pending → ∀ o ∈ rest.head?, o.isRd = true) ∧ PendNoWrite s rest
  | .wr :: rest => PendNoWrite s rest
  | .sl _ :: rest => PendNoWrite s rest
  | .rc :: rest => PendNoWrite s rest

theorem pnw_of_all_rd (s : Nat → Ev) (t : List Op) (h : ∀ op ∈ t, op.isRd = true) : PendNoWrite s t := by
  induction t with
  | nil => trivial
  | cons o t ih =>
    have ht := ih (fun op hop => h op (List.mem_cons_of_mem _ hop))
    cases o with
    | rd k tm d =>
      refine ⟨fun _ o ho => ?_, ht⟩
      cases t with
      | nil => simp at ho
      | cons x t => simp at ho; subst ho; exact h _ (by simp)
    | _ => exact ht

theorem pnw_append (s : Nat → Ev) (a b : List Op) (ha : PendNoWrite s a) (hb : PendNoWrite s b)
    (hj : ∀ k tm d, a.getLast? = some (.rd k tm d) → s k = .pending → ∀ o ∈ b.head?, o.isRd = true) :
    PendNoWrite s (a ++ b) := by
  induction a with
  | nil => simpa using hb
  | cons o a ih =>
    have hj' : ∀ k tm d, a.getLast? = some (.rd k tm d) → s k = .pending → ∀ o ∈ b.head?, o.isRd = true := by
      intro k tm d hl
      cases a with
      | nil => simp at hl
      | cons x a => exact hj k tm d (by simpa [List.getLast?_cons_cons] using hl)
    cases o with
    | rd k tm d =>
      obtain ⟨h1, h2⟩ := ha
      refine ⟨fun hk o ho => ?_, ih h2 hj'⟩
      cases a with
      | nil => exact hj k tm d (by simp) hk o (by simpa using ho)
      | cons x a => exact h1 hk o (by simpa using ho)
    | wr => exact ih ha hj'
    | sl d => exact ih ha hj'
    | rc => exact ih ha hj'

theorem pnw_afterFault (s : Nat → Ev) (c : Cfg) (i : Nat) (b : Bool) (x : List Op) :
    PendNoWrite s (afterFault c i b ++ x) ↔ PendNoWrite s x := by
  unfold afterFault; cases b <;> split <;> simp [PendNoWrite]

theorem pend_all_rd (c : Cfg) (s : Nat → Ev) (k np nt : Nat) :
    ∀ op ∈ (pendingLoop c s k np nt).2, op.isRd = true := by
  fun_induction pendingLoop c s k np nt with
  | case2 _ _ _ _ _ ih => simpa [consOp] using ih
  | case8 _ _ _ _ _ ih => simpa [consOp] using ih
  | _ => simp

/-- when the pending loop is left by `break`, its last read was not a responsePending -/
theorem pend_last (c : Cfg) (s : Nat → Ev) (k np nt : Nat)
    (h : ∀ o, (pendingLoop c s k np nt).1 ≠ .done o) :
    ∀ j tm d, (pendingLoop c s k np nt).2.getLast? = some (.rd j tm d) → s j ≠ .pending := by
  fun_induction pendingLoop c s k np nt with
  | case2 k np nt hk hl ih =>
    intro j tm d hlast
    have hpos := (pend_facts c s (k+1) np (nt+1)).pos
    cases ht : (pendingLoop c s (k+1) np (nt+1)).2 with
    | nil => simp [ht] at hpos
    | cons x t =>
      simp only [consOp, ht, List.getLast?_cons_cons] at hlast
      exact ih (by simpa [consOp] using h) j tm d (by rw [ht]; exact hlast)
  | case8 k np nt hk hl ih =>
    intro j tm d hlast
    have hpos := (pend_facts c s (k+1) (np+1) 0).pos
    cases ht : (pendingLoop c s (k+1) (np+1) 0).2 with
    | nil => simp [ht] at hpos
    | cons x t =>
      simp only [consOp, ht, List.getLast?_cons_cons] at hlast
      exact ih (by simpa [consOp] using h) j tm d (by rw [ht]; exact hlast)
  | _ => simp_all

theorem attempts_pnw (c : Cfg) (s : Nat → Ev) (i k : Nat) (last : Out) :
    PendNoWrite s (attempts c s i k last).2 := by
  fun_induction attempts c s i k last with
  | case1 => trivial
  | case2 i k _ _ hk ih => simp [pre, PendNoWrite, hk, pnw_afterFault, ih]
  | case3 i k _ _ hk ih => simp [pre, PendNoWrite, hk, pnw_afterFault, ih]
  | case4 i k _ _ hk ih => simp [pre, PendNoWrite, hk, pnw_afterFault, ih]
  | case6 i k _ _ hk hl ih => simp [pre, PendNoWrite, hk, ih]
  | case11 i k _ _ hk o t hp =>
    have ar := pend_all_rd c s (k+1) 1 0
    have pos := (pend_facts c s (k+1) 1 0).pos
    rw [hp] at ar pos
    simp only at ar pos
    refine ⟨fun _ o ho => ?_, pnw_of_all_rd s t ar⟩
    cases t with
    | nil => simp at pos
    | cons x t => simp at ho; subst ho; exact ar _ (by simp)
  | case12 i k _ _ hk k' t hp ih =>
    have ar := pend_all_rd c s (k+1) 1 0
    have pos := (pend_facts c s (k+1) 1 0).pos
    have pl := pend_last c s (k+1) 1 0 (by rw [hp]; simp)
    rw [hp] at ar pos pl
    simp only at ar pos pl
    refine ⟨fun _ o ho => ?_, pnw_append s t _ (pnw_of_all_rd s t ar) ih
      (fun j tm d hl hj => absurd hj (pl j tm d hl))⟩
    cases t with
    | nil => simp at pos
    | cons x t => simp at ho; subst ho; exact ar _ (by simp)
  | case13 i k _ _ hk k' t hp ih =>
    have ar := pend_all_rd c s (k+1) 1 0
    have pos := (pend_facts c s (k+1) 1 0).pos
    have pl := pend_last c s (k+1) 1 0 (by rw [hp]; simp)
    rw [hp] at ar pos pl
    simp only at ar pos pl
    simp only [pre, List.cons_append, List.append_assoc]
    refine ⟨fun _ o ho => ?_, pnw_append s t _ (pnw_of_all_rd s t ar) ((pnw_afterFault ..).mpr ih)
      (fun j tm d hl hj => absurd hj (pl j tm d hl))⟩
    cases t with
    | nil => simp at pos
    | cons x t => simp at ho; subst ho; exact ar _ (by simp)
  | _ => simp_all [PendNoWrite]

/-! ### the returned reply is the last read -/

/-- the reply (or illegal reply) a request ends with is the one produced by its last read -/
theorem attempts_reply_last (c : Cfg) (s : Nat → Ev) (i k : Nat) (last : Out)
    (hl : ∀ j, last ≠ .reply j ∧ last ≠ .illegal j) (j : Nat)
    (h : (attempts c s i k last).1 = .reply j ∨ (attempts c s i k last).1 = .illegal j) :
    j + 1 = k + nReads (attempts c s i k last).2 := by
  fun_induction attempts c s i k last with
  | case1 => rcases h with h | h <;> simp_all
  | case2 i k _ _ hk ih =>
    have := ih (by simp) (by simpa [pre] using h)
    simp [pre, afterFault_nr]; omega
  | case3 i k _ _ hk ih =>
    have := ih (by simp) (by simpa [pre] using h)
    simp [pre, afterFault_nr]; omega
  | case4 i k _ _ hk ih =>
    have := ih (by simp) (by simpa [pre] using h)
    simp [pre, afterFault_nr]; omega
  | case6 i k last _ hk _ ih =>
    have := ih hl (by simpa [pre] using h)
    simp [pre]; omega
  | case11 i k _ _ hk o t hp =>
    have pn := (pend_facts c s (k+1) 1 0).next
    rw [hp] at pn
    simp only at h pn ⊢
    rcases h with h | h <;> subst h <;> simp at pn ⊢ <;> omega
  | case12 i k _ _ hk k' t hp ih =>
    have pn := (pend_facts c s (k+1) 1 0).next
    rw [hp] at pn
    have := ih (by simp) (by simpa [pre] using h)
    simp at pn
    simp [pre]; omega
  | case13 i k _ _ hk k' t hp ih =>
    have pn := (pend_facts c s (k+1) 1 0).next
    rw [hp] at pn
    have := ih (by simp) (by simpa [pre] using h)
    simp at pn
    simp [pre, afterFault_nr]; omega
  | _ => rcases h with h | h <;> simp_all <;> omega

/-- what the specification lets a request return is a final reply or a busyRepeatRequest -/
theorem implied_reply_event {B : Bounds} {s : Nat → Ev} {ph : Phase} {b k0 k : Nat}
    (h : Implied B s ph b k0 (.reply k)) : (s k).final = true ∨ s k = .busy := by
  generalize ho : Out.reply k = o at h
  induction h with
  | final hf => injection ho with e; subst e; exact .inl hf
  | busyLast hk => injection ho with e; subst e; exact .inr hk
  | busyAfterPending hk => injection ho with e; subst e; exact .inr hk
  | busyRetry _ _ ih => exact ih ho
  | silentRetry _ _ ih => exact ih ho
  | lostRetry _ _ ih => exact ih ho
  | pendFirst _ _ ih => exact ih ho
  | pendAgain _ _ _ ih => exact ih ho
  | quiet _ _ _ ih => exact ih ho
  | silenceRetry _ _ _ ih => exact ih ho
  | _ => cases ho

/-! ### the specification determines the outcome -/

theorem final_eq {e : Ev} : e.final = true ↔ e = .negFinal ∨ e = .posFinal := by cases e <;> simp [Ev.final]
theorem illegal_eq {e : Ev} : e.illegal = true ↔ e = .mismatch ∨ e = .malformed := by cases e <;> simp [Ev.illegal]
theorem lost_eq {e : Ev} : e.lost = true ↔ e = .connErr ∨ e = .empty := by cases e <;> simp [Ev.lost]

set_option linter.unusedSimpArgs false in
/-- closes a goal whose hypotheses say contradictory things about one event (or about the limits) -/
macro "ev_contra" : tactic => `(tactic| ((try simp only [final_eq, illegal_eq, lost_eq] at *) <;> grind))

set_option linter.unusedSimpArgs false in
/-- the specification is deterministic: an event sequence implies at most one outcome -/
theorem implied_unique {B : Bounds} {s : Nat → Ev} {ph : Phase} {b k : Nat} {o₁ o₂ : Out}
    (h1 : Implied B s ph b k o₁) (h2 : Implied B s ph b k o₂) : o₁ = o₂ := by
  induction h1 generalizing o₂ with
  | final hf => cases h2 <;> ev_contra
  | illegal hf => cases h2 <;> ev_contra
  | busyRetry hk _ ih => cases h2 <;> first | exact ih ‹_› | ev_contra
  | busyLast hk => cases h2 <;> ev_contra
  | busyAfterPending hk => cases h2 <;> ev_contra
  | silentRetry hk _ ih => cases h2 <;> first | exact ih ‹_› | ev_contra
  | silentLast hk => cases h2 <;> ev_contra
  | lostRetry hk _ ih => cases h2 <;> first | exact ih ‹_› | ev_contra
  | lostLast hk => cases h2 <;> ev_contra
  | pendFirst hk _ ih => cases h2 <;> first | exact ih ‹_› | ev_contra
  | pendAgain hk hl _ ih => cases h2 <;> first | exact ih ‹_› | ev_contra
  | pendStuck hk hl => cases h2 <;> first | ev_contra
  | quiet hk hl _ ih => cases h2 <;> first | exact ih ‹_› | ev_contra
  | silenceRetry hk hl _ ih => cases h2 <;> first | exact ih ‹_› | ev_contra
  | silenceLast hk hl => cases h2 <;> first | ev_contra

end Gallia.Client
