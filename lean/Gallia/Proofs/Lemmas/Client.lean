import Gallia.Model.Client
import Gallia.Spec.ClientSpec
/-
  Helper lemmas for C04 (client request loop): structure of the traces of `pendingLoop` and `attempts`.
-/
namespace Gallia.Client
open Gallia.ClientSpec

/-! ### counting over traces -/

@[simp] theorem nWrites_nil : nWrites [] = 0 := rfl
@[simp] theorem nReads_nil : nReads [] = 0 := rfl
@[simp] theorem nReconnects_nil : nReconnects [] = 0 := rfl
@[simp] theorem elapsedOf_nil : elapsedOf [] = 0 := rfl
@[simp] theorem sleepsOf_nil : sleepsOf [] = [] := rfl

@[simp] theorem nWrites_append (a b : List Op) : nWrites (a ++ b) = nWrites a + nWrites b := by
  simp [nWrites, List.countP_append]
@[simp] theorem nReads_append (a b : List Op) : nReads (a ++ b) = nReads a + nReads b := by
  simp [nReads, List.countP_append]
@[simp] theorem nReconnects_append (a b : List Op) : nReconnects (a ++ b) = nReconnects a + nReconnects b := by
  simp [nReconnects, List.countP_append]
@[simp] theorem elapsedOf_append (a b : List Op) : elapsedOf (a ++ b) = elapsedOf a + elapsedOf b := by
  simp [elapsedOf, List.sum_append]
@[simp] theorem sleepsOf_append (a b : List Op) : sleepsOf (a ++ b) = sleepsOf a ++ sleepsOf b := by
  simp [sleepsOf, List.filterMap_append]

@[simp] theorem nWrites_cons (o : Op) (t : List Op) : nWrites (o :: t) = (if o.isWr then 1 else 0) + nWrites t := by
  simp [nWrites, List.countP_cons]; omega
@[simp] theorem nReads_cons (o : Op) (t : List Op) : nReads (o :: t) = (if o.isRd then 1 else 0) + nReads t := by
  simp [nReads, List.countP_cons]; omega
@[simp] theorem nReconnects_cons (o : Op) (t : List Op) :
    nReconnects (o :: t) = (if o.isRc then 1 else 0) + nReconnects t := by
  simp [nReconnects, List.countP_cons]; omega
@[simp] theorem elapsedOf_cons (o : Op) (t : List Op) : elapsedOf (o :: t) = o.dur + elapsedOf t := by
  simp [elapsedOf]
@[simp] theorem sleepsOf_wr (t : List Op) : sleepsOf (.wr :: t) = sleepsOf t := rfl
@[simp] theorem sleepsOf_rd (k tm d) (t : List Op) : sleepsOf (.rd k tm d :: t) = sleepsOf t := rfl
@[simp] theorem sleepsOf_rc (t : List Op) : sleepsOf (.rc :: t) = sleepsOf t := rfl
@[simp] theorem sleepsOf_sl (d) (t : List Op) : sleepsOf (.sl d :: t) = d :: sleepsOf t := rfl

@[simp] theorem isWr_wr : Op.isWr .wr = true := rfl
@[simp] theorem isWr_rd (k t d) : Op.isWr (.rd k t d) = false := rfl
@[simp] theorem isWr_sl (d) : Op.isWr (.sl d) = false := rfl
@[simp] theorem isWr_rc : Op.isWr .rc = false := rfl
@[simp] theorem isRd_wr : Op.isRd .wr = false := rfl
@[simp] theorem isRd_rd (k t d) : Op.isRd (.rd k t d) = true := rfl
@[simp] theorem isRd_sl (d) : Op.isRd (.sl d) = false := rfl
@[simp] theorem isRd_rc : Op.isRd .rc = false := rfl
@[simp] theorem isRc_wr : Op.isRc .wr = false := rfl
@[simp] theorem isRc_rd (k t d) : Op.isRc (.rd k t d) = false := rfl
@[simp] theorem isRc_sl (d) : Op.isRc (.sl d) = false := rfl
@[simp] theorem isRc_rc : Op.isRc .rc = true := rfl
@[simp] theorem dur_wr : Op.dur .wr = 0 := rfl
@[simp] theorem dur_rd (k t d) : Op.dur (.rd k t d) = d := rfl
@[simp] theorem dur_sl (d) : Op.dur (.sl d) = d := rfl
@[simp] theorem dur_rc : Op.dur .rc = 0 := rfl
@[simp] theorem sleep_wr : Op.sleep? .wr = none := rfl
@[simp] theorem sleep_rd (k t d) : Op.sleep? (.rd k t d) = none := rfl
@[simp] theorem sleep_sl (d) : Op.sleep? (.sl d) = some d := rfl
@[simp] theorem sleep_rc : Op.sleep? .rc = none := rfl

/-! ### the responsePending loop -/

/-- summary of what one pending loop does: only reads (each costing at most `max waiting lat`), consecutive
    read indices starting at `k`, and the index it hands on -/
structure PendFacts (c : Cfg) (k : Nat) (r : PRes × List Op) : Prop where
  nw : nWrites r.2 = 0
  nrc : nReconnects r.2 = 0
  sl : sleepsOf r.2 = []
  pos : 0 < nReads r.2
  time : elapsedOf r.2 ≤ nReads r.2 * max c.lim.waiting c.lat
  next : match r.1 with
    | .silence k' => k' = k + nReads r.2
    | .lost k' => k' = k + nReads r.2
    | .done (.reply j) => j + 1 = k + nReads r.2
    | .done (.illegal j) => j + 1 = k + nReads r.2
    | .done _ => True

theorem PendFacts.base (c : Cfg) (k j d : Nat) (r : PRes) (hd : d ≤ max c.lim.waiting c.lat)
    (hn : match r with
      | .silence k' => k' = k + 1
      | .lost k' => k' = k + 1
      | .done (.reply j) => j + 1 = k + 1
      | .done (.illegal j) => j + 1 = k + 1
      | .done _ => True) :
    PendFacts c k (r, [.rd j c.lim.waiting d]) := by
  refine ⟨by simp, by simp, by simp, by simp, by simpa using hd, ?_⟩
  simpa using hn

theorem PendFacts.step (c : Cfg) (k j d : Nat) (r : PRes × List Op) (hd : d ≤ max c.lim.waiting c.lat)
    (ih : PendFacts c (k+1) r) : PendFacts c k (consOp (.rd j c.lim.waiting d) r) := by
  obtain ⟨a, b, c', d', e, f⟩ := ih
  refine ⟨by simpa [consOp] using a, by simpa [consOp] using b, by simpa [consOp] using c', by simp [consOp]; omega, ?_, ?_⟩
  · simp only [consOp, elapsedOf_cons, dur_rd, nReads_cons, isRd_rd, if_true, Nat.add_mul, Nat.one_mul]
    omega
  · simp only [consOp, nReads_cons, isRd_rd, if_true]
    revert f
    cases r.1 with
    | silence k' => simp; omega
    | lost k' => simp; omega
    | done o => cases o <;> simp <;> omega

theorem pend_facts (c : Cfg) (s : Nat → Ev) (k np nt : Nat) : PendFacts c k (pendingLoop c s k np nt) := by
  fun_induction pendingLoop c s k np nt with
  | case1 => exact PendFacts.base _ _ _ _ _ (Nat.le_max_left ..) (by simp)
  | case2 _ _ _ _ _ ih => exact PendFacts.step _ _ _ _ _ (Nat.le_max_left ..) ih
  | case3 => exact PendFacts.base _ _ _ _ _ (Nat.le_max_right ..) (by simp)
  | case4 => exact PendFacts.base _ _ _ _ _ (Nat.le_max_right ..) (by simp)
  | case5 => exact PendFacts.base _ _ _ _ _ (Nat.le_max_right ..) (by simp)
  | case6 => exact PendFacts.base _ _ _ _ _ (Nat.le_max_right ..) (by simp)
  | case7 => exact PendFacts.base _ _ _ _ _ (Nat.le_max_right ..) (by simp)
  | case8 _ _ _ _ _ ih => exact PendFacts.step _ _ _ _ _ (Nat.le_max_right ..) ih
  | case9 => exact PendFacts.base _ _ _ _ _ (Nat.le_max_right ..) (by simp)
  | case10 => exact PendFacts.base _ _ _ _ _ (Nat.le_max_right ..) (by simp)
  | case11 => exact PendFacts.base _ _ _ _ _ (Nat.le_max_right ..) (by simp)

theorem pend_reads_le (c : Cfg) (s : Nat → Ev) (k np nt : Nat) :
    nReads (pendingLoop c s k np nt).2 ≤ pendReadsBound c np nt := by
  fun_induction pendingLoop c s k np nt with
  | case2 k np nt _ h ih =>
    simp only [consOp, nReads_cons, isRd_rd, if_true, pendReadsBound] at *
    omega
  | case8 k np nt _ h ih =>
    simp only [consOp, nReads_cons, isRd_rd, if_true, pendReadsBound] at *
    have h1 : c.lim.maxPending - np = (c.lim.maxPending - (np+1)) + 1 := by omega
    rw [h1, Nat.add_mul]
    omega
  | _ => simp [pendReadsBound]

/-! ### the attempt loop -/

theorem afterFault_nw (c : Cfg) (i : Nat) (b : Bool) : nWrites (afterFault c i b) = 0 := by
  unfold afterFault; cases b <;> split <;> simp
theorem afterFault_nr (c : Cfg) (i : Nat) (b : Bool) : nReads (afterFault c i b) = 0 := by
  unfold afterFault; cases b <;> split <;> simp
theorem afterFault_time (c : Cfg) (i : Nat) (b : Bool) : elapsedOf (afterFault c i b) ≤ wait c i := by
  unfold afterFault; cases b <;> split <;> simp

theorem afterFault_nrc_le (c : Cfg) (i : Nat) (b : Bool) : nReconnects (afterFault c i b) ≤ 1 := by
  unfold afterFault; cases b <;> split <;> simp

/-- bounds on what the attempt loop does from attempt `i` on -/
structure AttBounds (c : Cfg) (i : Nat) (r : Out × List Op) : Prop where
  writes : nWrites r.2 ≤ c.maxRetry + 1 - i
  reads : nReads r.2 ≤ (c.maxRetry + 1 - i) * attemptReadsBound c
  time : elapsedOf r.2 ≤ timeBoundFrom c i (c.maxRetry + 1 - i)

/-- one attempt that ends the request -/
theorem AttBounds.last (c : Cfg) (i k d : Nat) (o : Out) (t : List Op) (hi : ¬ c.maxRetry < i)
    (hd : d ≤ max c.timeout c.lat)
    (hw : nWrites t = 0) (hr : nReads t ≤ pendReadsBound c 1 0)
    (ht : elapsedOf t ≤ nReads t * max c.lim.waiting c.lat) :
    AttBounds c i (o, .wr :: .rd k c.timeout d :: t) := by
  obtain ⟨n, hn⟩ : ∃ n, c.maxRetry + 1 - i = n + 1 := ⟨c.maxRetry - i, by omega⟩
  have hm := Nat.mul_le_mul_right (max c.lim.waiting c.lat) hr
  refine ⟨?_, ?_, ?_⟩ <;> rw [hn]
  · simp [hw]
  · have hA : attemptReadsBound c = 1 + pendReadsBound c 1 0 := rfl
    rw [Nat.add_mul]; simp; omega
  · simp [timeBoundFrom, attemptTimeBound]; omega

/-- one attempt followed by further attempts -/
theorem AttBounds.more (c : Cfg) (i k d : Nat) (t : List Op) (r : Out × List Op) (hi : ¬ c.maxRetry < i)
    (hd : d ≤ max c.timeout c.lat)
    (hw : nWrites t = 0) (hr : nReads t ≤ pendReadsBound c 1 0)
    (ht : elapsedOf t ≤ nReads t * max c.lim.waiting c.lat + wait c i)
    (ih : AttBounds c (i+1) r) :
    AttBounds c i (pre (.wr :: .rd k c.timeout d :: t) r) := by
  obtain ⟨a, b, e⟩ := ih
  obtain ⟨n, hn⟩ : ∃ n, c.maxRetry + 1 - i = n + 1 := ⟨c.maxRetry - i, by omega⟩
  have hn' : c.maxRetry + 1 - (i+1) = n := by omega
  have hm := Nat.mul_le_mul_right (max c.lim.waiting c.lat) hr
  rw [hn'] at a b e
  refine ⟨?_, ?_, ?_⟩ <;> rw [hn]
  · simp [pre, hw]; omega
  · have hA : attemptReadsBound c = 1 + pendReadsBound c 1 0 := rfl
    rw [Nat.add_mul]; simp [pre]; omega
  · simp [pre, timeBoundFrom, attemptTimeBound]; omega

theorem attempts_bounds (c : Cfg) (s : Nat → Ev) (i k : Nat) (last : Out) :
    AttBounds c i (attempts c s i k last) := by
  fun_induction attempts c s i k last with
  | case1 => exact ⟨by simp, by simp, by simp⟩
  | case2 i k _ hi _ ih =>
    exact AttBounds.more c i k _ _ _ hi (Nat.le_max_left ..) (afterFault_nw ..) (by simp [afterFault_nr])
      (by have := afterFault_time c i false; simp [afterFault_nr]; omega) ih
  | case3 i k _ hi _ ih =>
    exact AttBounds.more c i k _ _ _ hi (Nat.le_max_right ..) (afterFault_nw ..) (by simp [afterFault_nr])
      (by have := afterFault_time c i true; simp [afterFault_nr]; omega) ih
  | case4 i k _ hi _ ih =>
    exact AttBounds.more c i k _ _ _ hi (Nat.le_max_right ..) (afterFault_nw ..) (by simp [afterFault_nr])
      (by have := afterFault_time c i true; simp [afterFault_nr]; omega) ih
  | case5 i k _ hi _ _ => exact AttBounds.last c i k _ _ [] hi (Nat.le_max_right ..) (by simp) (by simp) (by simp)
  | case6 i k _ hi _ _ ih =>
    exact AttBounds.more c i k _ [.sl (wait c i)] _ hi (Nat.le_max_right ..) (by simp) (by simp) (by simp) ih
  | case7 i k _ hi _ => exact AttBounds.last c i k _ _ [] hi (Nat.le_max_right ..) (by simp) (by simp) (by simp)
  | case8 i k _ hi _ => exact AttBounds.last c i k _ _ [] hi (Nat.le_max_right ..) (by simp) (by simp) (by simp)
  | case9 i k _ hi _ => exact AttBounds.last c i k _ _ [] hi (Nat.le_max_right ..) (by simp) (by simp) (by simp)
  | case10 i k _ hi _ => exact AttBounds.last c i k _ _ [] hi (Nat.le_max_right ..) (by simp) (by simp) (by simp)
  | case11 i k _ hi _ o t hp =>
    have pf := pend_facts c s (k+1) 1 0
    have pr := pend_reads_le c s (k+1) 1 0
    rw [hp] at pf pr
    have h1 := pf.nw; have h2 := pf.time
    simp only at h1 h2 pr
    exact AttBounds.last c i k _ _ t hi (Nat.le_max_right ..) h1 pr h2
  | case12 i k _ hi _ k' t hp ih =>
    have pf := pend_facts c s (k+1) 1 0
    have pr := pend_reads_le c s (k+1) 1 0
    rw [hp] at pf pr
    have h1 := pf.nw; have h2 := pf.time
    simp only at h1 h2 pr
    exact AttBounds.more c i k _ t _ hi (Nat.le_max_right ..) h1 pr (by omega) ih
  | case13 i k _ hi _ k' t hp ih =>
    have pf := pend_facts c s (k+1) 1 0
    have pr := pend_reads_le c s (k+1) 1 0
    rw [hp] at pf pr
    have h1 := pf.nw; have h2 := pf.time
    simp only at h1 h2 pr
    exact AttBounds.more c i k _ (t ++ afterFault c i true) _ hi (Nat.le_max_right ..)
      (by simp [h1, afterFault_nw]) (by simpa [afterFault_nr] using pr)
      (by have := afterFault_time c i true; rw [elapsedOf_append, nReads_append, afterFault_nr, Nat.add_zero]; omega) ih

end Gallia.Client
