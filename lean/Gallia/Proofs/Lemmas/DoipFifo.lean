import Gallia.Model.DoipFifo
/-
  Lemmas about the scan-and-requeue discipline of the DoIP consumers.
-/
namespace Gallia.DoipFifo

variable {α : Type}

theorem findSplit_sound (p : α → Bool) {q pre post : List α} {x : α} (h : findSplit p q = some (pre, x, post)) :
    q = pre ++ x :: post ∧ p x = true ∧ ∀ y ∈ pre, p y = false := by
  induction q generalizing pre with
  | nil => simp [findSplit] at h
  | cons a t ih =>
    by_cases ha : p a = true
    · simp only [findSplit, ha, if_true, Option.some.injEq, Prod.mk.injEq] at h
      obtain ⟨rfl, rfl, rfl⟩ := h
      simp [ha]
    · have ha' : p a = false := by simpa using ha
      simp only [findSplit, ha', Bool.false_eq_true, if_false] at h
      cases hs : findSplit p t with
      | none => simp [hs] at h
      | some r =>
        obtain ⟨pre0, y, post0⟩ := r
        simp only [hs, Option.some.injEq, Prod.mk.injEq] at h
        obtain ⟨rfl, rfl, rfl⟩ := h
        obtain ⟨e1, e2, e3⟩ := ih hs
        refine ⟨by simp [e1], e2, ?_⟩
        intro z hz
        rcases List.mem_cons.mp hz with rfl | hz
        · exact ha'
        · exact e3 z hz

theorem findSplit_complete (p : α → Bool) (pre post : List α) (x : α) (hx : p x = true)
    (hpre : ∀ y ∈ pre, p y = false) : findSplit p (pre ++ x :: post) = some (pre, x, post) := by
  induction pre with
  | nil => simp [findSplit, hx]
  | cons b pre' ih =>
    have hb : p b = false := hpre b (by simp)
    have := ih (fun y hy => hpre y (by simp [hy]))
    simp [findSplit, hb, this]

theorem findSplit_some_iff (p : α → Bool) (q pre post : List α) (x : α) :
    findSplit p q = some (pre, x, post) ↔ q = pre ++ x :: post ∧ p x = true ∧ ∀ y ∈ pre, p y = false :=
  ⟨findSplit_sound p, fun ⟨e, hx, hpre⟩ => e ▸ findSplit_complete p pre post x hx hpre⟩

theorem findSplit_none_iff (p : α → Bool) (q : List α) : findSplit p q = none ↔ ∀ x ∈ q, p x = false := by
  constructor
  · intro h x hx
    cases hp : p x with
    | false => rfl
    | true =>
      exfalso
      -- split q at the first element satisfying p
      induction q with
      | nil => simp at hx
      | cons a t ih =>
        by_cases ha : p a = true
        · simp [findSplit, ha] at h
        · have ha' : p a = false := by simpa using ha
          simp only [findSplit, ha', Bool.false_eq_true, if_false] at h
          cases hs : findSplit p t with
          | none =>
            rcases List.mem_cons.mp hx with rfl | hx'
            · rw [hp] at ha'; cases ha'
            · exact ih hs hx'
          | some r => obtain ⟨a1, a2, a3⟩ := r; simp [hs] at h
  · intro h
    cases hs : findSplit p q with
    | none => rfl
    | some r =>
      obtain ⟨pre, x, post⟩ := r
      obtain ⟨e, hx, _⟩ := findSplit_sound p hs
      have := h x (by simp [e])
      rw [hx] at this; cases this

theorem findSplit_append_of_some (p : α → Bool) {a pre post : List α} {x : α} (b : List α)
    (h : findSplit p a = some (pre, x, post)) : findSplit p (a ++ b) = some (pre, x, post ++ b) := by
  obtain ⟨e, hx, hpre⟩ := (findSplit_some_iff p a pre post x).mp h
  exact (findSplit_some_iff p _ _ _ _).mpr ⟨by simp [e], hx, hpre⟩

theorem findSplit_append_of_none (p : α → Bool) {a : List α} (b : List α) (h : findSplit p a = none) :
    findSplit p (a ++ b) =
      match findSplit p b with
      | none => none
      | some (pre, x, post) => some (a ++ pre, x, post) := by
  have ha := (findSplit_none_iff p a).mp h
  cases hb : findSplit p b with
  | none =>
    apply (findSplit_none_iff p _).mpr
    intro x hx; simp at hx; rcases hx with hx | hx
    · exact ha x hx
    · exact (findSplit_none_iff p b).mp hb x hx
  | some r =>
    obtain ⟨pre, x, post⟩ := r
    obtain ⟨e, hx, hpre⟩ := (findSplit_some_iff p b pre post x).mp hb
    apply (findSplit_some_iff p _ _ _ _).mpr
    refine ⟨by simp [e], hx, ?_⟩
    intro y hy; simp at hy; rcases hy with hy | hy
    · exact ha y hy
    · exact hpre y hy

theorem filter_eq_nil_of_none (p : α → Bool) {q : List α} (h : findSplit p q = none) : q.filter p = [] := by
  have := (findSplit_none_iff p q).mp h
  simp [List.filter_eq_nil_iff]; intro x hx; simp [this x hx]

theorem filter_of_some (p : α → Bool) {q pre post : List α} {x : α} (h : findSplit p q = some (pre, x, post)) :
    q.filter p = x :: post.filter p ∧ pre.filter p = [] := by
  obtain ⟨e, hx, hpre⟩ := (findSplit_some_iff p q pre post x).mp h
  have hp : pre.filter p = [] := by
    simp [List.filter_eq_nil_iff]; intro y hy; simp [hpre y hy]
  subst e
  simp [List.filter_append, hp, hx]

/-- a consumer waiting for `p` does not disturb the order of the frames another predicate `r` selects, as long as
    the frame it takes is not one of them (front discipline) -/
theorem takeFront_filter_other (p r : α → Bool) {q q' : List α} {x : α} (h : takeFront p q = some (x, q'))
    (hx : r x = false) : q'.filter r = q.filter r := by
  unfold takeFront at h
  cases hs : findSplit p q with
  | none => simp [hs] at h
  | some t =>
    obtain ⟨pre, y, post⟩ := t
    simp only [hs, Option.some.injEq, Prod.mk.injEq] at h
    obtain ⟨rfl, rfl⟩ := h
    obtain ⟨e, _, _⟩ := (findSplit_some_iff p q pre post y).mp hs
    subst e
    simp [requeueFront, List.filter_append, hx]

theorem takeFront_filter_self (p : α → Bool) {q q' : List α} {x : α} (h : takeFront p q = some (x, q')) :
    q.filter p = x :: q'.filter p := by
  unfold takeFront at h
  cases hs : findSplit p q with
  | none => simp [hs] at h
  | some t =>
    obtain ⟨pre, y, post⟩ := t
    simp only [hs, Option.some.injEq, Prod.mk.injEq] at h
    obtain ⟨rfl, rfl⟩ := h
    obtain ⟨h1, h2⟩ := filter_of_some p hs
    simp [requeueFront, List.filter_append, h1, h2]

theorem takeFront_none_iff (p : α → Bool) (q : List α) : takeFront p q = none ↔ q.filter p = [] := by
  unfold takeFront
  cases hs : findSplit p q with
  | none => simp [filter_eq_nil_of_none p hs]
  | some t =>
    obtain ⟨pre, y, post⟩ := t
    simp [(filter_of_some p hs).1]

/-- successive reads under the front discipline deliver the selected frames in queue order -/
theorem takeN_front (p : α → Bool) (n : Nat) (q : List α) :
    (takeN (takeFront p) n q).1 = (q.filter p).take n := by
  induction n generalizing q with
  | zero => simp [takeN]
  | succ n ih =>
    cases h : takeFront p q with
    | none => simp [takeN, h, (takeFront_none_iff p q).mp h]
    | some r =>
      obtain ⟨x, q'⟩ := r
      simp [takeN, h, ih q', takeFront_filter_self p h]

/-- ... and what they leave behind still holds every other frame, in order -/
theorem takeN_front_rest (p r : α → Bool) (hpr : ∀ x, p x = true → r x = false) (n : Nat) (q : List α) :
    (takeN (takeFront p) n q).2.filter r = q.filter r := by
  induction n generalizing q with
  | zero => simp [takeN]
  | succ n ih =>
    cases h : takeFront p q with
    | none => simp [takeN, h]
    | some t =>
      obtain ⟨x, q'⟩ := t
      have hx : p x = true := by
        unfold takeFront at h
        cases hs : findSplit p q with
        | none => simp [hs] at h
        | some u =>
          obtain ⟨pre, y, post⟩ := u
          simp only [hs, Option.some.injEq, Prod.mk.injEq] at h
          obtain ⟨rfl, _⟩ := h
          exact ((findSplit_some_iff p q pre post y).mp hs).2.1
      simp [takeN, h, ih q', takeFront_filter_other p r h (hpr x hx)]

/-! ### the tail discipline of the pinned tree -/

theorem takeTail_filter_other (p r : α → Bool) {q pre post : List α} {x : α}
    (hs : findSplit p q = some (pre, x, post)) (hx : r x = false) :
    q.filter r = pre.filter r ++ post.filter r ∧
    (requeueTail pre post).filter r = post.filter r ++ pre.filter r := by
  obtain ⟨e, _, _⟩ := (findSplit_some_iff p q pre post x).mp hs
  subst e
  simp [requeueTail, List.filter_append, hx]

/-- two lists without common elements commute under `++` only when one of them is empty -/
theorem append_comm_nodup {a b : List α} (hn : (a ++ b).Nodup) (h : b ++ a = a ++ b) : a = [] ∨ b = [] := by
  cases a with
  | nil => exact Or.inl rfl
  | cons x a' =>
    cases b with
    | nil => exact Or.inr rfl
    | cons y b' =>
      exfalso
      simp only [List.cons_append, List.cons.injEq] at h
      obtain ⟨rfl, _⟩ := h
      have := List.nodup_append.mp hn
      exact this.2.2 y (by simp) y (by simp) rfl

end Gallia.DoipFifo
