import Gallia.Proofs.Lemmas.ParseConfig
import Gallia.Model.ParseTransport
/-! C20 helper lemmas: the settings every transport reads from a URI, `connect()` up to the network -/
namespace Gallia.Parse

/-! ### booleans: the accepted words in any capitalisation -/

def upperCh (c : Char) : Char := if isLowerCh c then Char.ofNat (c.toNat - 32) else c

/-- `w` with the letters selected by `mask` in upper case -/
def caseVar : List Bool → Str → Str
  | _, [] => []
  | m, c :: cs => (if m.headD false then upperCh c else c) :: caseVar m.tail cs

/-- the words pydantic's lax `str -> bool` accepts (compared ignoring ASCII case) and what they mean -/
def boolWords : List (Str × Bool) :=
  [(['1'], true), (['o', 'n'], true), (['t'], true), (['t', 'r', 'u', 'e'], true), (['y'], true), (['y', 'e', 's'], true),
   (['0'], false), (['o', 'f', 'f'], false), (['f'], false), (['f', 'a', 'l', 's', 'e'], false), (['n'], false), (['n', 'o'], false)]

def wordChars : List Char := ['0', '1', 'a', 'e', 'f', 'l', 'n', 'o', 'r', 's', 't', 'u', 'y']

theorem wordChars_case : ∀ c ∈ wordChars, lowerCh (upperCh c) = c ∧ lowerCh c = c := by decide

theorem boolWords_chars : ∀ wb ∈ boolWords, ∀ c ∈ wb.1, c ∈ wordChars := by decide

theorem lower_caseVar (mask : List Bool) (w : Str) (h : ∀ c ∈ w, c ∈ wordChars) : lower (caseVar mask w) = w := by
  induction w generalizing mask with
  | nil => rfl
  | cons c cs ih =>
    have hc := wordChars_case c (h c (by simp))
    have ht := ih mask.tail (fun x hx => h x (by simp [hx]))
    unfold lower at ht ⊢
    simp only [caseVar, List.map_cons, ht]
    split <;> simp [hc.1, hc.2]

theorem boolVal_lower_words : ∀ wb ∈ boolWords,
    (if wb.1 ∈ [['1'], ['o', 'n'], ['t'], ['t', 'r', 'u', 'e'], ['y'], ['y', 'e', 's']] then some true
     else if wb.1 ∈ [['0'], ['o', 'f', 'f'], ['f'], ['f', 'a', 'l', 's', 'e'], ['n'], ['n', 'o']] then some false
     else none) = some wb.2 := by decide

/-- every accepted word, in every capitalisation, is read as its truth value -/
theorem boolVal_caseVar (wb : Str × Bool) (h : wb ∈ boolWords) (mask : List Bool) : boolVal (caseVar mask wb.1) = some wb.2 := by
  unfold boolVal
  simp only [lower_caseVar mask wb.1 (boolWords_chars wb h)]
  exact boolVal_lower_words wb h

theorem caseVar_ne_nil (mask : List Bool) {w : Str} (h : w ≠ []) : caseVar mask w ≠ [] := by
  cases w with
  | nil => exact absurd rfl h
  | cons c cs => simp [caseVar]

theorem boolWords_ne_nil : ∀ wb ∈ boolWords, wb.1 ≠ [] := by decide

/-! ### one written setting -/

/-- a setting as a user may write it, by the kind of reader the field has -/
inductive Written
  | autoInt (sp : Spelling) (z : Int)
  | laxInt (ls : LaxSp) (z : Int)
  | bool (wb : Str × Bool) (mask : List Bool)
  deriving DecidableEq

deriving instance DecidableEq for Except

def Written.kind : Written → VKind
  | .autoInt _ _ => .autoInt
  | .laxInt _ _ => .laxInt
  | .bool _ _ => .bool

def Written.text : Written → Str
  | .autoInt sp z => spell sp z
  | .laxInt ls z => laxText ls z
  | .bool wb mask => caseVar mask wb.1

def Written.val : Written → FVal
  | .autoInt _ z => .int z
  | .laxInt _ z => .int z
  | .bool wb _ => .bool wb.2

def Written.WF : Written → Prop
  | .autoInt sp _ => sp.WF
  | .laxInt ls _ => ls.WF
  | .bool wb _ => wb ∈ boolWords

theorem readField_written (w : Written) (h : w.WF) : readField w.kind w.text = some w.val := by
  cases w with
  | autoInt sp z => simp [Written.kind, Written.text, Written.val, readField, autoIntL_spell sp h z]
  | laxInt ls z => simp [Written.kind, Written.text, Written.val, readField, plainInt_laxText ls h z]
  | bool wb mask => simp [Written.kind, Written.text, Written.val, readField, boolVal_caseVar wb h mask]

theorem laxText_ne_nil (ls : LaxSp) (z : Int) : laxText ls z ≠ [] := by
  have := (laxCore_props ls z).1
  unfold laxText
  cases hc : laxCore ls z with
  | nil => exact absurd hc this
  | cons a t => simp

theorem written_ne_nil (w : Written) (h : w.WF) : w.text ≠ [] := by
  cases w with
  | autoInt sp z => exact spell_ne_nil sp z
  | laxInt ls z => exact laxText_ne_nil ls z
  | bool wb mask => exact caseVar_ne_nil mask (boolWords_ne_nil wb h)

/-! ### the whole config -/

/-- `asg` says how each field is written (or that it is left out); the parameters may contain anything else as well -/
theorem cfgOf_written (fields : List FieldSpec) (args : Args) (asg : Str → Option Written)
    (hreq : ∀ f ∈ fields, f.required = true → (asg f.name).isSome = true)
    (hk : ∀ f ∈ fields, ∀ w, asg f.name = some w → w.kind = f.kind ∧ w.WF)
    (hl : ∀ f ∈ fields, lookupS f.name args = (asg f.name).map Written.text) :
    cfgOf fields args = some (fields.map fun f => (f.name, (asg f.name).map Written.val)) := by
  unfold cfgOf
  induction fields with
  | nil => rfl
  | cons f fs ih =>
    have ih' := ih (fun g hg => hreq g (by simp [hg])) (fun g hg => hk g (by simp [hg])) (fun g hg => hl g (by simp [hg]))
    have hf : fieldOf f args = some ((asg f.name).map Written.val) := by
      unfold fieldOf
      rw [hl f (by simp)]
      cases ha : asg f.name with
      | none =>
        have hr : f.required = false := by
          cases hq : f.required with
          | false => rfl
          | true => have := hreq f (by simp) hq; simp [ha] at this
        simp [hr]
      | some w =>
        obtain ⟨hkind, hwf⟩ := hk f (by simp) w ha
        simp only [Option.map_some]
        rw [← hkind, readField_written w hwf]
        rfl
    simp only [mapOpt, hf, Option.map_some, ih', List.map_cons]

/-- a parameter list that writes the assigned fields (in any order, among any other parameters with other names) -/
structure Writes (args : Args) (fields : List FieldSpec) (asg : Str → Option Written) : Prop where
  ok : ArgsOK args
  req : ∀ f ∈ fields, f.required = true → (asg f.name).isSome = true
  kinds : ∀ f ∈ fields, ∀ w, asg f.name = some w → w.kind = f.kind ∧ w.WF
  look : ∀ f ∈ fields, lookupS f.name args = (asg f.name).map Written.text

theorem schemeOK_table : ∀ t ∈ transportTable, (t.scheme.all schemeCh = true ∧ (t.scheme.head?.any isLowerCh) = true) ∧
    t.scheme ∈ schemeList := by decide +kernel

theorem schemeOK_of_table {t : Transport} (h : t ∈ transportTable) : SchemeOK t.scheme := by
  obtain ⟨⟨h1, h2⟩, _⟩ := schemeOK_table t h
  constructor
  · cases hs : t.scheme with
    | nil => rw [hs] at h2; simp at h2
    | cons c r => rw [hs] at h2; exact ⟨c, r, rfl, by simpa using h2⟩
  · exact fun c hc => List.all_eq_true.mp h1 c hc

/-- the settings a transport's config gets from a URI built by `from_parts` -/
theorem cfg_of_fromParts (t : Transport) (ht : t ∈ transportTable) (h : Str) (hok : HostOK h) (p : Option Nat) (hp : portOK p)
    (args : Args) (asg : Str → Option Written) (hw : Writes args t.fields asg) :
    (parseUri (fromParts t.scheme h p args)).bind (fun u => cfgOf t.fields u.args) =
      some (t.fields.map fun f => (f.name, (asg f.name).map Written.val)) := by
  rw [parseUri_fromParts t.scheme h p args (schemeOK_of_table ht) hok hp hw.ok]
  exact cfgOf_written t.fields args asg hw.req hw.kinds hw.look

/-- what `connect()` goes on with for a URI built by `from_parts` with the transport's own scheme -/
theorem connectPlan_fromParts (t : Transport) (ht : t ∈ transportTable) (h : Str) (hok : HostOK h) (p : Option Nat) (hp : portOK p)
    (args : Args) (asg : Str → Option Written) (hw : Writes args t.fields asg) :
    (parseUri (fromParts t.scheme h p args)).map (connectPlan t) =
      some (.ok ⟨if t.usesHost then some h else none,
                 if t.usesPort then (match p with | some q => some q | none => t.defaultPort) else none,
                 if t.usesPath then some [] else none,
                 t.fields.map fun f => (f.name, (asg f.name).map Written.val)⟩) := by
  rw [parseUri_fromParts t.scheme h p args (schemeOK_of_table ht) hok hp hw.ok]
  have hc := cfgOf_written t.fields args asg hw.req hw.kinds hw.look
  have hs := (schemeOK_table t ht).2
  simp only [Option.map_some, connectPlan, checkScheme, hs, not_true_eq_false, if_false, ne_eq]
  cases hcs : t.checksScheme <;> cases hup : t.usesPort <;> cases p <;>
    simp [hc, bind, Except.bind, pure, Except.pure]

theorem connectPlan_pathOnly (t : Transport) (hs : t.scheme ∈ schemeList) (hf : t.fields = []) (h1 : t.usesPath = true)
    (h2 : t.usesPort = false) (h3 : t.usesHost = false) (h4 : t.needsHost = false) (p : Str) :
    connectPlan t ⟨t.scheme, none, some none, p, []⟩ = .ok ⟨none, none, some p, []⟩ := by
  simp only [connectPlan, checkScheme, hs, hf, h1, h2, h3, h4, cfgOf, mapOpt]
  cases t.checksScheme <;> simp [bind, Except.bind, pure, Except.pure]

theorem connectPlan_unix (p : Str) : connectPlan unixT ⟨unixT.scheme, none, some none, p, []⟩ = .ok ⟨none, none, some p, []⟩ :=
  connectPlan_pathOnly unixT (by decide +kernel) rfl rfl rfl rfl rfl p

theorem connectPlan_unixLines (p : Str) :
    connectPlan unixLinesT ⟨unixLinesT.scheme, none, some none, p, []⟩ = .ok ⟨none, none, some p, []⟩ :=
  connectPlan_pathOnly unixLinesT (by decide +kernel) rfl rfl rfl rfl rfl p

/-- a transport without settings that uses the path goes on with exactly the path of the URI -/
theorem connectPlan_path (t : Transport) (ht : t = unixT ∨ t = unixLinesT) (p : Str) :
    connectPlan t ⟨t.scheme, none, some none, p, []⟩ = .ok ⟨none, none, some p, []⟩ := by
  rcases ht with h | h
  · rw [h]; exact connectPlan_unix p
  · rw [h]; exact connectPlan_unixLines p

/-! ### the registry table as rows of text, for the comparison with the regenerated one -/

def kindName : VKind → String
  | .autoInt => "autoInt" | .laxInt => "int" | .bool => "bool"

def bstr (b : Bool) : String := if b then "1" else "0"

def pstr : Option Nat → String
  | none => "none"
  | some n => toString n

def genRow (r : String × Bool × Bool × Option Nat × Bool × Bool × Bool × List (String × String × Bool × String)) : List String :=
  [r.1, bstr r.2.1, bstr r.2.2.1, pstr r.2.2.2.1, bstr r.2.2.2.2.1, bstr r.2.2.2.2.2.1, bstr r.2.2.2.2.2.2.1] ++
    r.2.2.2.2.2.2.2.flatMap fun f => [f.1, f.2.1, bstr f.2.2.1]

def modelRow (t : Transport) : List String :=
  [String.ofList t.scheme, bstr t.checksScheme, bstr t.needsHost, pstr t.defaultPort, bstr t.usesHost, bstr t.usesPath,
   bstr t.usesPort] ++ t.fields.flatMap fun f => [String.ofList f.name, kindName f.kind, bstr f.required]

end Gallia.Parse
