import Gallia.Model.UdsMatch
import Gallia.Spec.Reply
import Gallia.Proofs.Lemmas.UdsReqCodec
import Gallia.Proofs.Lemmas.UdsReqLayout
import Gallia.Proofs.Lemmas.UdsResp
/-
  Helper lemmas for C03 (request/response matcher).
-/
namespace Gallia.UdsMatch
open Gallia Gallia.UdsReq Gallia.UdsResp Gallia.Reply

/-! ### the codec facts used (re-derived from the C01 / C02 lemma files, so that this module does not depend on the
    table obligations of those properties) -/

theorem dec_enc (r : Req) (h : r.WF) (hr : r.isRaw = false) : decode (encode r) = norm r := by
  unfold decode
  rw [parseTyped_encode r h hr]
  simp only [gate_encode r h hr, if_true]

theorem enc_dec (b : Bytes) : encode (decode b) = b := by
  unfold decode
  split
  · rename_i r hp
    split
    · exact (parseTyped_sound b r hp).1
    · rfl
  · rfl

theorem dec_wf (b : Bytes) : (decode b).WF := by
  unfold decode
  split
  · rename_i r hp
    split
    · rename_i hg; exact (parseTyped_sound b r hp).2 hg
    · simp [Req.WF]
  · simp [Req.WF]

theorem enc_of_dec {b : Bytes} {x : Resp} (h : decodeResp b = .ok x) : encodeResp x = b := by
  unfold decodeResp at h
  split at h
  · cases h
  · cases h; rfl
  · exact parseKind_ok h

/-- the acceptance test of the specification for a request `q` with service id `s` -/
def specAccept (q : Req) (s : UInt8) (b : Bytes) : Bool :=
  (isNegative b && b[1]? == some s) || (positiveOf s b && echoOK q b)

/-- the service id per request kind -/
def sidLit : Req → Option UInt8
  | .dsc .. => some 0x10 | .ecuReset .. => some 0x11 | .requestSeed .. => some 0x27 | .sendKey .. => some 0x27
  | .commCtrl .. => some 0x28 | .testerPresent .. => some 0x3E | .controlDTC .. => some 0x85 | .rdbi .. => some 0x22
  | .rmba .. => some 0x23 | .defineById .. => some 0x2C | .defineByMem .. => some 0x2C | .clearDDDI .. => some 0x2C
  | .wdbi .. => some 0x2E | .wmba .. => some 0x3D | .clearDTC .. => some 0x14 | .dtcByMask .. => some 0x19
  | .dtcPlain .. => some 0x19 | .dtcExtByNumber .. => some 0x19 | .iocbi .. => some 0x2F | .routine .. => some 0x31
  | .reqDownload .. => some 0x34 | .reqUpload .. => some 0x35 | .transferData .. => some 0x36
  | .transferExit .. => some 0x37 | .raw b => b.head?

theorem head_encode (q : Req) : (encode q).head? = sidLit q := by
  cases q <;> try (simp [encode, sidLit]; done)
  case clearDDDI d sup => cases d <;> simp [encode, sidLit]

/-- closing tactic of the per-kind case analysis -/
macro "match_tac" : tactic => `(tactic|
  (simp [«matches», specAccept, isNegative, positiveOf, echoOK, byteAt, wordAt, encodeResp, optAgree, readDtcSub] <;>
   try (first | done | grind | (rw [Bool.eq_iff_iff]; simp <;> grind))))

macro "split_req" q:ident hs:ident hq:ident : tactic => `(tactic|
  (cases $q:ident <;> simp [sidLit, Req.isRaw] at $hs:ident $hq:ident <;> subst $hs:ident))

theorem wordAt_toBE2 (h0 h1 : UInt8) (d : Nat) (rest : Bytes) (hd : d < 0x10000) :
    wordAt (h0 :: (toBE d 2 ++ rest)) 1 = some d ∧ wordAt (h0 :: h1 :: (toBE d 2 ++ rest)) 2 = some d := by
  obtain ⟨a, c, h⟩ := toBE2_cases d
  have := fromBE_of_toBE2 h hd
  simp [wordAt, h, this]

section simple
variable (q : Req) (s : UInt8) (hs : sidLit q = some s) (hq : q.isRaw = false)
include hs hq

theorem matches_dsc (ty : UInt8) (rec : Bytes) :
    «matches» (.dsc ty rec) q = specAccept q s (encodeResp (.dsc ty rec)) := by split_req q hs hq <;> match_tac

theorem matches_ecuReset (ty : UInt8) (p : Option UInt8) :
    «matches» (.ecuReset ty p) q = specAccept q s (encodeResp (.ecuReset ty p)) := by
  cases p <;> split_req q hs hq <;> match_tac

theorem matches_secAccess (ty : UInt8) (seed : Bytes) :
    «matches» (.secAccess ty seed) q = specAccept q s (encodeResp (.secAccess ty seed)) := by split_req q hs hq <;> match_tac

theorem matches_commCtrl (ty : UInt8) :
    «matches» (.commCtrl ty) q = specAccept q s (encodeResp (.commCtrl ty)) := by split_req q hs hq <;> match_tac

theorem matches_testerPresent :
    «matches» .testerPresent q = specAccept q s (encodeResp .testerPresent) := by split_req q hs hq <;> match_tac

theorem matches_ctrlDTC (ty : UInt8) :
    «matches» (.ctrlDTC ty) q = specAccept q s (encodeResp (.ctrlDTC ty)) := by split_req q hs hq <;> match_tac

theorem matches_clearDTC :
    «matches» .clearDTC q = specAccept q s (encodeResp .clearDTC) := by split_req q hs hq <;> match_tac

theorem matches_transferData (ctr : UInt8) (rec : Bytes) :
    «matches» (.transferData ctr rec) q = specAccept q s (encodeResp (.transferData ctr rec)) := by
  split_req q hs hq <;> match_tac

theorem matches_transferExit (rec : Bytes) :
    «matches» (.transferExit rec) q = specAccept q s (encodeResp (.transferExit rec)) := by split_req q hs hq <;> match_tac

theorem matches_rmba (rec : Bytes) :
    «matches» (.rmba rec) q = specAccept q s (encodeResp (.rmba rec)) := by split_req q hs hq <;> match_tac

theorem matches_dtcCount (sub mask fmt : UInt8) (count : Nat) :
    «matches» (.dtcCount sub mask fmt count) q = specAccept q s (encodeResp (.dtcCount sub mask fmt count)) := by
  split_req q hs hq <;> match_tac

theorem matches_dtcList (sub mask : UInt8) (recs : List (Nat × UInt8)) :
    «matches» (.dtcList sub mask recs) q = specAccept q s (encodeResp (.dtcList sub mask recs)) := by
  split_req q hs hq <;> match_tac

theorem matches_dtcExt (dtc : Nat) (st rn : UInt8) (data : Bytes) :
    «matches» (.dtcExt dtc st rn data) q = specAccept q s (encodeResp (.dtcExt dtc st rn data)) := by
  split_req q hs hq <;> match_tac

theorem matches_upDownload (rs lfid : UInt8) (mx : Nat) (hrs : rs = 0x74 ∨ rs = 0x75) :
    «matches» (.upDownload rs lfid mx) q = specAccept q s (encodeResp (.upDownload rs lfid mx)) := by
  rcases hrs with rfl | rfl <;> split_req q hs hq <;> match_tac

theorem matches_rdbi (did : Nat) (rec : Bytes) (hd : did < 0x10000) :
    «matches» (.rdbi did rec) q = specAccept q s (encodeResp (.rdbi did rec)) := by
  have hw := (wordAt_toBE2 0x62 0 did rec hd).1
  split_req q hs hq <;>
    simp [«matches», specAccept, isNegative, positiveOf, echoOK, byteAt, encodeResp, optAgree, hw] <;>
    try (first | done | grind | (rw [Bool.eq_iff_iff]; simp <;> grind))

theorem matches_wdbi (did : Nat) (hd : did < 0x10000) :
    «matches» (.wdbi did) q = specAccept q s (encodeResp (.wdbi did)) := by
  have hw := (wordAt_toBE2 0x6E 0 did [] hd).1
  simp only [List.append_nil] at hw
  split_req q hs hq <;>
    simp [«matches», specAccept, isNegative, positiveOf, echoOK, byteAt, encodeResp, optAgree, hw] <;>
    try (first | done | grind | (rw [Bool.eq_iff_iff]; simp <;> grind))

theorem matches_iocbi (did : Nat) (rec : Bytes) (hd : did < 0x10000) :
    «matches» (.iocbi did rec) q = specAccept q s (encodeResp (.iocbi did rec)) := by
  have hw := (wordAt_toBE2 0x6F 0 did rec hd).1
  split_req q hs hq <;>
    simp [«matches», specAccept, isNegative, positiveOf, echoOK, byteAt, encodeResp, optAgree, hw] <;>
    try (first | done | grind | (rw [Bool.eq_iff_iff]; simp <;> grind))

theorem matches_routine (sub : UInt8) (rid : Nat) (rec : Bytes) (hd : rid < 0x10000) :
    «matches» (.routine sub rid rec) q = specAccept q s (encodeResp (.routine sub rid rec)) := by
  have hw := (wordAt_toBE2 0x71 sub rid rec hd).2
  split_req q hs hq <;>
    simp [«matches», specAccept, isNegative, positiveOf, echoOK, byteAt, encodeResp, optAgree, hw] <;>
    try (first | done | grind | (rw [Bool.eq_iff_iff]; simp <;> grind))

theorem matches_dddi (sub : UInt8) (did : Option Nat) (hd : ∀ d, did = some d → d < 0x10000) :
    «matches» (.dddi sub did) q = specAccept q s (encodeResp (.dddi sub did)) := by
  cases did with
  | none =>
    have hw : wordAt [0x6C, sub] 2 = none := by simp [wordAt]
    split_req q hs hq <;>
      simp [«matches», specAccept, isNegative, positiveOf, echoOK, byteAt, encodeResp, optAgree, didAgree, hw] <;>
      try (first | done | grind | (rw [Bool.eq_iff_iff]; simp <;> grind))
  | some d =>
    have hw := (wordAt_toBE2 0x6C sub d [] (hd d rfl)).2
    simp only [List.append_nil] at hw
    split_req q hs hq <;>
      simp [«matches», specAccept, isNegative, positiveOf, echoOK, byteAt, encodeResp, optAgree, didAgree, hw] <;>
      try (first | done | grind | (rw [Bool.eq_iff_iff]; simp <;> grind))

theorem matches_wmba (alfid : UInt8) (addr size : Nat) (hq' : q.WF)
    (hx : addr < 256 ^ (alfid.toNat % 16) ∧ size < 256 ^ (alfid.toNat / 16)) :
    «matches» (.wmba alfid addr size) q = specAccept q s (encodeResp (.wmba alfid addr size)) := by
  cases q
  case wmba a sz f rec =>
    simp [sidLit] at hs; subst hs
    obtain ⟨hok, hfit, _⟩ := hq'
    simp only [«matches», specAccept, isNegative, positiveOf, echoOK, encodeResp, encAddrSize, alLen, slLen]
    simp only [List.head?_cons, List.drop_succ_cons, List.drop_zero]
    rw [Bool.eq_iff_iff]
    simp only [Bool.and_eq_true, beq_iff_eq, Bool.or_eq_true, List.cons.injEq]
    constructor
    · rintro ⟨⟨rfl, rfl⟩, rfl⟩
      simp
    · intro h
      have h := h.resolve_left (by simp)
      obtain ⟨_, hf, happ⟩ := h
      have hf' : f = alfid.toNat := by
        rw [hf]; exact (u8_toNat hok.1).symm
      rw [← hf'] at happ hx
      obtain ⟨h1, h2⟩ := List.append_inj happ (by simp)
      exact ⟨⟨hf', (toBE_inj hx.1 hfit.1 h1).symm⟩, (toBE_inj hx.2 hfit.2 h2).symm⟩
  all_goals (simp [sidLit, Req.isRaw] at hs hq <;> subst hs <;> match_tac)

end simple

/-! ### negative responses -/

theorem matches_neg (sid nrc : UInt8) (q : Req) (s : UInt8) (hs : sidLit q = some s) :
    «matches» (.neg sid nrc) q = specAccept q s [0x7F, sid, nrc] := by
  rw [show «matches» (.neg sid nrc) q = (UdsMatch.reqSid q == some sid) from rfl]
  unfold UdsMatch.reqSid
  rw [head_encode, hs]
  simp only [specAccept, isNegative, positiveOf]
  rw [Bool.eq_iff_iff]; simp
  exact eq_comm

/-! ### opaque positive replies (unknown service / unknown sub-function) against a typed request -/

theorem bySub_uniform : ∀ e ∈ registry, ∀ e' ∈ registry, e.rsid = e'.rsid → e.bySub = e'.bySub := by decide

theorem checkEntry_ne_raw (e : Entry) (b : Bytes) : checkEntry e b ≠ .ok .raw := by
  unfold checkEntry
  split
  · simp
  · split <;> simp

theorem dispatch_cons (b0 : UInt8) (t : Bytes) : dispatch (b0 :: t) =
    (match entriesFor b0.toNat with
     | [] => .ok none
     | e0 :: es =>
       if e0.bySub then
         match t with
         | [] => .error .noSubFunction
         | f :: _ => .ok ((e0 :: es).find? (fun e => e.sub == some (f.toNat % 0x80)))
       else .ok (some e0)) := rfl

theorem gate_raw_inv {b0 : UInt8} {t : Bytes} (h : UdsResp.gate (b0 :: t) = .ok .raw) :
    entriesFor b0.toNat = [] ∨ ∃ e0 es f t', entriesFor b0.toNat = e0 :: es ∧ e0.bySub = true ∧ t = f :: t' ∧
      (e0 :: es).find? (fun e => e.sub == some (f.toNat % 0x80)) = none := by
  unfold UdsResp.gate at h
  rw [dispatch_cons] at h
  cases hE : entriesFor b0.toNat with
  | nil => left; rfl
  | cons e0 es =>
    right
    rw [hE] at h; simp only at h
    by_cases hb : e0.bySub = true
    · simp only [hb, if_true] at h
      cases t with
      | nil => simp at h
      | cons f t' =>
        simp only at h
        cases hf : (e0 :: es).find? (fun e => e.sub == some (f.toNat % 0x80)) with
        | none => exact ⟨e0, es, f, t', rfl, hb, rfl, hf⟩
        | some e => rw [hf] at h; exact absurd h (checkEntry_ne_raw _ _)
    · simp only [hb] at h; exact absurd h (checkEntry_ne_raw _ _)

theorem gate_raw_plain {b0 : UInt8} {t : Bytes} (h : UdsResp.gate (b0 :: t) = .ok .raw) {e : Entry} (he : e ∈ registry)
    (hr : e.rsid = b0.toNat) (hb : e.bySub = false) : False := by
  have hmem : e ∈ entriesFor b0.toNat := by simp [entriesFor, he, hr]
  rcases gate_raw_inv h with hnil | ⟨e0, es, f, t', hcons, hb0, _, _⟩
  · rw [hnil] at hmem; cases hmem
  · have he0 : e0 ∈ entriesFor b0.toNat := by rw [hcons]; simp
    have := bySub_uniform e he e0 (mem_entriesFor he0).1 (by rw [hr, (mem_entriesFor he0).2])
    rw [hb, hb0] at this; cases this

theorem gate_raw_sub {b0 : UInt8} {t : Bytes} (h : UdsResp.gate (b0 :: t) = .ok .raw) {e : Entry} (he : e ∈ registry)
    (hr : e.rsid = b0.toNat) : ∃ f t', t = f :: t' ∧ e.sub ≠ some (f.toNat % 0x80) := by
  have hmem : e ∈ entriesFor b0.toNat := by simp [entriesFor, he, hr]
  rcases gate_raw_inv h with hnil | ⟨e0, es, f, t', hcons, _, ht, hfind⟩
  · rw [hnil] at hmem; cases hmem
  · refine ⟨f, t', ht, ?_⟩
    intro hsub
    have hnone := List.find?_eq_none.mp hfind e (by rw [← hcons]; exact hmem)
    simp [hsub] at hnone

theorem gate_nil_ne_raw : UdsResp.gate [] ≠ .ok .raw := by simp [UdsResp.gate, dispatch]

theorem reg_plain : ∀ k ∈ [0x50, 0x51, 0x54, 0x62, 0x63, 0x67, 0x68, 0x6E, 0x6F, 0x74, 0x75, 0x76, 0x77, 0x7D, 0x7E, 0xC5, 0x7F],
    ∃ e ∈ registry, e.rsid = k ∧ e.bySub = false := by decide
theorem reg_sub59 : ∀ sf ∈ dtcMaskSfs ++ dtcPlainSfs ++ [6], ∃ e ∈ registry, e.rsid = 0x59 ∧ e.sub = some sf := by decide
theorem reg_sub6C : ∀ sf ∈ [1, 2, 3], ∃ e ∈ registry, e.rsid = 0x6C ∧ e.sub = some sf := by decide
theorem reg_sub71 : ∀ sf ∈ routineSfs, ∃ e ∈ registry, e.rsid = 0x71 ∧ e.sub = some sf := by decide
theorem sfs_lt : ∀ sf ∈ dtcMaskSfs ++ dtcPlainSfs ++ [6] ++ routineSfs, sf < 128 := by decide

theorem rawpos_sub_false (b0 f : UInt8) (t' : Bytes) (q : Req) (s : UInt8) (sf : Nat) (sup : Bool) (rest : Bytes) (n : Nat)
    (henc : encode q = s :: sfByte sf sup :: rest) (hecho : echoLen s.toNat = some (n + 1)) (hsf : sf < 128)
    (hne : sf ≠ f.toNat % 128) : rawPosMatches (b0 :: f :: t') q = false := by
  unfold rawPosMatches
  rw [henc]
  simp only
  split
  · rw [hecho]
    simp only [List.take_succ_cons]
    simp only [BEq.beq, List.beq, Bool.and_eq_false_iff]
    left
    have := sfOf_sfByte hsf sup
    unfold sfOf at this
    simp only [decide_eq_false_iff_not]
    intro heq
    rw [heq] at this
    exact hne this.symm
  · rfl

theorem rawPos_typed (b : Bytes) (hg : UdsResp.gate b = .ok .raw) (q : Req) (s : UInt8) (hs : sidLit q = some s)
    (hq : q.isRaw = false) (hwf : q.WF) : rawPosMatches b q = false ∧ specAccept q s b = false := by
  cases b with
  | nil => exact absurd hg gate_nil_ne_raw
  | cons b0 t =>
    have hneg : b0 ≠ 0x7F := by
      rintro rfl
      obtain ⟨e, he, hr, hb⟩ := reg_plain 0x7F (by decide)
      exact gate_raw_plain hg he (by rw [hr]; rfl) hb
    by_cases hb : b0.toNat = s.toNat + 0x40
    · -- the reply claims to be of the request's service: then the service dispatches on a sub-function the reply does not carry
      have plain : ∀ k, k ∈ [0x50, 0x51, 0x54, 0x62, 0x63, 0x67, 0x68, 0x6E, 0x6F, 0x74, 0x75, 0x76, 0x77, 0x7D, 0x7E, 0xC5, 0x7F] →
          b0.toNat = k → False := by
        intro k hk hbk
        obtain ⟨e, he, hr, hb'⟩ := reg_plain k hk
        exact gate_raw_plain hg he (by rw [hr, hbk]) hb'
      have sub : ∀ k sf, (∃ e ∈ registry, e.rsid = k ∧ e.sub = some sf) → b0.toNat = k →
          ∃ f t', t = f :: t' ∧ sf ≠ f.toNat % 128 := by
        intro k sf ⟨e, he, hr, hsub⟩ hbk
        obtain ⟨f, t', ht, hne⟩ := gate_raw_sub hg he (by rw [hr, hbk])
        exact ⟨f, t', ht, by rw [hsub] at hne; simpa using hne⟩
      cases q <;> simp [sidLit, Req.isRaw] at hs hq <;> subst hs <;> simp at hb
      case dsc | ecuReset | requestSeed | sendKey | commCtrl | testerPresent | controlDTC | rdbi | rmba | wdbi | wmba | clearDTC |
          iocbi | reqDownload | reqUpload | transferData | transferExit => exact absurd hb (fun h => plain _ (by decide) h)
      case dtcByMask sf mask sup =>
        have hm : sf ∈ dtcMaskSfs ++ dtcPlainSfs ++ [6] := by simp [hwf.1]
        obtain ⟨f, t', rfl, hne⟩ := sub 0x59 sf (reg_sub59 sf hm) hb
        have hlt := sfs_lt sf (by simp [hwf.1])
        refine ⟨rawpos_sub_false _ _ _ _ 0x19 sf sup _ 0 rfl (by decide) hlt hne, ?_⟩
        simp [specAccept, isNegative, positiveOf, echoOK, byteAt, hneg]
        intro _ h; omega
      case dtcPlain sf sup =>
        have hm : sf ∈ dtcMaskSfs ++ dtcPlainSfs ++ [6] := by simp [show sf ∈ dtcPlainSfs from hwf]
        obtain ⟨f, t', rfl, hne⟩ := sub 0x59 sf (reg_sub59 sf hm) hb
        have hlt := sfs_lt sf (by simp [show sf ∈ dtcPlainSfs from hwf])
        refine ⟨rawpos_sub_false _ _ _ _ 0x19 sf sup _ 0 rfl (by decide) hlt hne, ?_⟩
        simp [specAccept, isNegative, positiveOf, echoOK, byteAt, hneg]
        intro _ h; omega
      case dtcExtByNumber dtc rn sup =>
        obtain ⟨f, t', rfl, hne⟩ := sub 0x59 6 (reg_sub59 6 (by decide)) hb
        refine ⟨rawpos_sub_false _ _ _ _ 0x19 6 sup _ 0 rfl (by decide) (by decide) hne, ?_⟩
        simp [specAccept, isNegative, positiveOf, echoOK, byteAt, hneg]
        intro _ h; omega
      case defineById ddid gs sup =>
        obtain ⟨f, t', rfl, hne⟩ := sub 0x6C 1 (reg_sub6C 1 (by decide)) hb
        refine ⟨rawpos_sub_false _ _ _ _ 0x2C 1 sup _ 2 rfl (by decide) (by decide) hne, ?_⟩
        simp [specAccept, isNegative, positiveOf, echoOK, byteAt, hneg]
        intro _ h; omega
      case defineByMem ddid alfid gs sup =>
        obtain ⟨f, t', rfl, hne⟩ := sub 0x6C 2 (reg_sub6C 2 (by decide)) hb
        refine ⟨rawpos_sub_false _ _ _ _ 0x2C 2 sup _ 2 rfl (by decide) (by decide) hne, ?_⟩
        simp [specAccept, isNegative, positiveOf, echoOK, byteAt, hneg]
        intro _ h; omega
      case clearDDDI od sup =>
        obtain ⟨f, t', rfl, hne⟩ := sub 0x6C 3 (reg_sub6C 3 (by decide)) hb
        refine ⟨?_, ?_⟩
        · cases od
          · exact rawpos_sub_false _ _ _ _ 0x2C 3 sup [] 2 rfl (by decide) (by decide) hne
          · exact rawpos_sub_false _ _ _ _ 0x2C 3 sup _ 2 rfl (by decide) (by decide) hne
        · simp [specAccept, isNegative, positiveOf, echoOK, byteAt, hneg]
          intro _ h; omega
      case routine sf rid rec sup =>
        obtain ⟨f, t', rfl, hne⟩ := sub 0x71 sf (reg_sub71 sf hwf.1) hb
        have hlt := sfs_lt sf (by simp [hwf.1])
        refine ⟨rawpos_sub_false _ _ _ _ 0x31 sf sup _ 2 rfl (by decide) hlt hne, ?_⟩
        simp [specAccept, isNegative, positiveOf, echoOK, byteAt, hneg]
        intro _ h; omega
    · have hE : ∃ st, encode q = s :: st := by
        have := head_encode q
        rw [hs] at this
        cases hq' : encode q with
        | nil => rw [hq'] at this; cases this
        | cons a st => rw [hq'] at this; simp at this; exact ⟨st, by rw [this]⟩
      obtain ⟨st, hE⟩ := hE
      refine ⟨?_, ?_⟩
      · unfold rawPosMatches; rw [hE]; simp [hb]
      · simp [specAccept, isNegative, positiveOf, hneg, hb]

/-! ### `matches` is the specification's acceptance test -/

theorem matches_spec (b : Bytes) (x : Resp) (hd : decodeResp b = .ok x) (q : Req) (s : UInt8) (hs : sidLit q = some s)
    (hwf : q.WF) (h : q.isRaw = false ∨ isNeg x = true) : «matches» x q = specAccept q s b := by
  have hb := enc_of_dec hd
  cases x with
  | neg sid nrc => rw [← hb]; exact matches_neg sid nrc q s hs
  | rawPos p =>
    have hq := h.resolve_right (by simp [isNeg])
    obtain ⟨rfl, hg⟩ := decodeResp_raw hd
    have := rawPos_typed p hg q s hs hq hwf
    rw [show «matches» (.rawPos p) q = rawPosMatches p q from rfl, this.1, this.2]
  | dsc ty rec => rw [← hb]; exact matches_dsc q s hs (h.resolve_right (by simp [isNeg])) ty rec
  | ecuReset ty p => rw [← hb]; exact matches_ecuReset q s hs (h.resolve_right (by simp [isNeg])) ty p
  | secAccess ty seed => rw [← hb]; exact matches_secAccess q s hs (h.resolve_right (by simp [isNeg])) ty seed
  | commCtrl ty => rw [← hb]; exact matches_commCtrl q s hs (h.resolve_right (by simp [isNeg])) ty
  | testerPresent => rw [← hb]; exact matches_testerPresent q s hs (h.resolve_right (by simp [isNeg]))
  | ctrlDTC ty => rw [← hb]; exact matches_ctrlDTC q s hs (h.resolve_right (by simp [isNeg])) ty
  | clearDTC => rw [← hb]; exact matches_clearDTC q s hs (h.resolve_right (by simp [isNeg]))
  | transferData c rec => rw [← hb]; exact matches_transferData q s hs (h.resolve_right (by simp [isNeg])) c rec
  | transferExit rec => rw [← hb]; exact matches_transferExit q s hs (h.resolve_right (by simp [isNeg])) rec
  | rmba rec => rw [← hb]; exact matches_rmba q s hs (h.resolve_right (by simp [isNeg])) rec
  | dtcCount sub m f c => rw [← hb]; exact matches_dtcCount q s hs (h.resolve_right (by simp [isNeg])) sub m f c
  | dtcList sub m l => rw [← hb]; exact matches_dtcList q s hs (h.resolve_right (by simp [isNeg])) sub m l
  | dtcExt d st rn data => rw [← hb]; exact matches_dtcExt q s hs (h.resolve_right (by simp [isNeg])) d st rn data
  | upDownload rs lfid mx =>
    have hp := decodeResp_parse hd rfl
    have := pUpDownload_wf hp
    rw [← hb]; exact matches_upDownload q s hs (h.resolve_right (by simp [isNeg])) rs lfid mx this.1
  | rdbi did rec =>
    have hp := decodeResp_parse hd rfl
    have := pRdbi_wf hp
    rw [← hb]; exact matches_rdbi q s hs (h.resolve_right (by simp [isNeg])) did rec this.1
  | wdbi did =>
    have hp := decodeResp_parse hd rfl
    have := pWdbi_wf hp
    rw [← hb]; exact matches_wdbi q s hs (h.resolve_right (by simp [isNeg])) did this
  | iocbi did rec =>
    have hp := decodeResp_parse hd rfl
    have := pIocbi_wf hp
    rw [← hb]; exact matches_iocbi q s hs (h.resolve_right (by simp [isNeg])) did rec this.1
  | routine sub rid rec =>
    have hp := decodeResp_parse hd rfl
    have := pRoutine_facts hp
    rw [← hb]; exact matches_routine q s hs (h.resolve_right (by simp [isNeg])) sub rid rec this
  | dddi sub did =>
    have hp := decodeResp_parse hd rfl
    rw [← hb]
    refine matches_dddi q s hs (h.resolve_right (by simp [isNeg])) sub did ?_
    rintro d rfl; exact pDddi_facts hp
  | wmba alfid addr size =>
    have hp := decodeResp_parse hd rfl
    have := pWmba_wf hp
    rw [← hb]; exact matches_wmba q s hs (h.resolve_right (by simp [isNeg])) alfid addr size hwf ⟨this.2.2.1, this.2.2.2⟩

/-- a decodable reply starts with 0x7F exactly when it decodes to a negative response, which is then `7F sid nrc` -/
theorem dec_head (b : Bytes) (x : Resp) (hd : decodeResp b = .ok x) :
    (isNeg x = true → ∃ sid nrc, b = [0x7F, sid, nrc]) ∧ (isNeg x = false → isNegative b = false) := by
  have hb := enc_of_dec hd
  refine ⟨?_, ?_⟩
  · intro hn; cases x <;> simp [isNeg] at hn
    exact ⟨_, _, hb.symm⟩
  · intro hn
    cases x <;> simp [isNeg] at hn <;> rw [← hb] <;> try (simp [isNegative, encodeResp]; done)
    case ecuReset ty p => cases p <;> simp [isNegative, encodeResp]
    case dddi sub d => cases d <;> simp [isNegative, encodeResp]
    case upDownload rs lfid mx =>
      have := pUpDownload_wf (decodeResp_parse hd rfl)
      rcases this.1 with rfl | rfl <;> simp [isNegative, encodeResp]
    case rawPos p =>
      obtain ⟨rfl, hg⟩ := decodeResp_raw hd
      cases p with
      | nil => exact absurd hg gate_nil_ne_raw
      | cons b0 t =>
        simp only [encodeResp, isNegative, List.head?_cons]
        by_cases h7 : b0 = 0x7F
        · subst h7
          obtain ⟨e, he, hr, hb'⟩ := reg_plain 0x7F (by decide)
          exact absurd (gate_raw_plain hg he (by rw [hr]; rfl) hb') id
        · simp [h7]

/-! ### the outcome of `parsePdu`, in the vocabulary of the specification -/

/-- the reply names / belongs to another service (decided on the first two bytes) -/
def foreignHead (s : UInt8) (b : Bytes) : Bool :=
  (isNegative b && (match b[1]? with | some n => n != s | none => false)) || (!b.isEmpty && !isNegative b && !positiveOf s b)

theorem echoOK_norm (r : Req) (b : Bytes) : echoOK (norm r) b = echoOK r b := by cases r <;> rfl

theorem sidLit_decode (r : Req) (s : UInt8) (hs : Reply.reqSid r = some s) : sidLit (decode (encode r)) = some s := by
  rw [← head_encode, enc_dec]; exact hs

/-- the request as `parse_pdu` sees it after re-parsing is the request as the specification views it -/
theorem echoOK_decode (r : Req) (hwf : r.WF) (b : Bytes) : echoOK (decode (encode r)) b = echoOK (view r) b := by
  by_cases hr : r.isRaw = true
  · cases r <;> simp [Req.isRaw] at hr
    rfl
  · have hr : r.isRaw = false := by simpa using hr
    rw [dec_enc r hwf hr, echoOK_norm]
    cases r <;> first | rfl | simp [Req.isRaw] at hr

theorem parsePdu_char (r : Req) (hwf : r.WF) (s : UInt8) (hs : Reply.reqSid r = some s) (b : Bytes) (hb : b ≠ []) :
    parsePdu b r =
      match decodeResp b with
      | .ok x => if specAccept (view r) s b then .accepted x else .mismatch
      | .error _ => if foreignHead s b then .mismatch else .malformed := by
  obtain ⟨st, hE⟩ : ∃ st, encode r = s :: st := by
    unfold Reply.reqSid at hs
    cases hq' : encode r with
    | nil => rw [hq'] at hs; cases hs
    | cons a st => rw [hq'] at hs; simp at hs; exact ⟨st, by rw [hs]⟩
  cases b with
  | nil => exact absurd rfl hb
  | cons b0 bt =>
    unfold parsePdu
    rw [hE]
    simp only
    cases hd : decodeResp (b0 :: bt) with
    | error e =>
      simp only
      by_cases h7 : b0 = 0x7F
      · subst h7
        cases bt with
        | nil => simp [foreignHead, isNegative, positiveOf]
        | cons n t =>
          by_cases hn : n = s
          · simp [foreignHead, isNegative, positiveOf, hn]
          · simp [foreignHead, isNegative, positiveOf, hn]
      · by_cases hp : b0.toNat = s.toNat + 0x40
        · simp [foreignHead, isNegative, positiveOf, h7, hp]
        · simp [foreignHead, isNegative, positiveOf, h7, hp]
    | ok x =>
      simp only
      have hq := sidLit_decode r s hs
      rw [hE] at hq
      have hqwf := dec_wf (s :: st)
      have hecho : specAccept (decode (s :: st)) s (b0 :: bt) = specAccept (view r) s (b0 :: bt) := by
        unfold specAccept; rw [← hE, echoOK_decode r hwf]
      obtain ⟨hneg, hpos⟩ := dec_head _ x hd
      by_cases hraw : (decode (s :: st)).isRaw = true ∧ isNeg x = false
      · -- raw request, positive reply: only the service ids are compared
        obtain ⟨h1, h2⟩ := hraw
        have hN := hpos h2
        have hE' : echoOK (view r) (b0 :: bt) = true := by
          rw [← echoOK_decode r hwf, hE]
          cases hv : decode (s :: st) <;> simp [hv, Req.isRaw] at h1
          rfl
        have h7 : b0 ≠ 0x7F := by simpa [isNegative] using hN
        simp only [h1, h2, Bool.not_false, Bool.and_self, if_true]
        by_cases hp : b0.toNat = s.toNat + 0x40
        · simp [specAccept, hN, hE', positiveOf, h7, hp]
        · simp [specAccept, hN, positiveOf, hp]
      · have hor : (decode (s :: st)).isRaw = false ∨ isNeg x = true := by
          cases h1 : (decode (s :: st)).isRaw
          · left; rfl
          · right
            cases h2 : isNeg x
            · exact absurd ⟨h1, h2⟩ hraw
            · rfl
        have hcond : ((decode (s :: st)).isRaw && !isNeg x) = false := by
          rcases hor with h | h <;> simp [h]
        rw [hcond]
        simp only [Bool.false_eq_true, if_false]
        rw [matches_spec _ x hd _ s hq hqwf hor, hecho]

theorem accepted_decoded {b : Bytes} {r : Req} {x : Resp} (h : parsePdu b r = .accepted x) : decodeResp b = .ok x := by
  unfold parsePdu at h
  split at h
  · split at h
    · repeat' split at h
      all_goals cases h
    · rename_i y hy
      simp only at h
      repeat' split at h
      all_goals first | (cases h; exact hy) | cases h
  · cases h

/-! ### small facts about the specification's tests -/

theorem reqSid_some {r : Req} {b : Bytes} (h : genuineB r b = true ∨ foreignB r b = true ∨ undecodableB r b = true) :
    ∃ s, Reply.reqSid r = some s := by
  cases hs : Reply.reqSid r with
  | some s => exact ⟨s, rfl⟩
  | none => simp [genuineB, foreignB, undecodableB, hs] at h

theorem decodable_iff (b : Bytes) : Decodable b = true ↔ ∃ x, decodeResp b = .ok x := by
  unfold Decodable; cases decodeResp b <;> simp

theorem decodable_ne_nil {b : Bytes} (h : Decodable b = true) : b ≠ [] := by
  rintro rfl; simp [Decodable, decodeResp, UdsResp.gate, dispatch] at h

