import Gallia.Model.SessionDb
/- helper lemmas about the `session_transition` table model (C09) -/
namespace Gallia.SessionScan

theorem storeRows_eq (t : Table) (run : Nat) (rows : List (Sess × List Sess)) :
    storeRows t run rows = t ++ rows.map (fun r => { run := run, dest := r.1, steps := r.2 : TRow }) := by
  unfold storeRows
  induction rows generalizing t with
  | nil => simp
  | cons r rs ih =>
    rw [List.foldl_cons, ih]
    simp [insertTransition]

theorem rowsOf_append (a b : Table) (run : Nat) : rowsOf (a ++ b) run = rowsOf a run ++ rowsOf b run := by
  simp [rowsOf]

theorem rowsOf_mk_self (run : Nat) (rows : List (Sess × List Sess)) :
    rowsOf (rows.map (fun r => { run := run, dest := r.1, steps := r.2 : TRow })) run = rows := by
  induction rows with
  | nil => simp [rowsOf]
  | cons r rs ih =>
    simp only [rowsOf] at ih
    simp [rowsOf, ih]

theorem rowsOf_mk_other (run run2 : Nat) (h : run2 ≠ run) (rows : List (Sess × List Sess)) :
    rowsOf (rows.map (fun r => { run := run, dest := r.1, steps := r.2 : TRow })) run2 = [] := by
  induction rows with
  | nil => simp [rowsOf]
  | cons r rs ih =>
    simp only [rowsOf] at ih
    simp [rowsOf, ih, Ne.symm h]

theorem rowsOf_fresh (t : Table) (run : Nat) (h : ∀ r ∈ t, r.run ≠ run) : rowsOf t run = [] := by
  induction t with
  | nil => simp [rowsOf]
  | cons r rs ih =>
    have h1 : r.run ≠ run := h r (by simp)
    have h2 := ih (fun x hx => h x (by simp [hx]))
    simp only [rowsOf] at h2
    simp [rowsOf, h1, h2]

theorem foldl_max_ge (t : Table) (m : Nat) :
    m ≤ t.foldl (fun m r => max m (r.run + 1)) m ∧ ∀ r ∈ t, r.run < t.foldl (fun m r => max m (r.run + 1)) m := by
  induction t generalizing m with
  | nil => simp
  | cons r rs ih =>
    simp only [List.foldl_cons, List.mem_cons]
    obtain ⟨h1, h2⟩ := ih (max m (r.run + 1))
    refine ⟨by omega, ?_⟩
    intro x hx
    rcases hx with rfl | hx
    · omega
    · exact h2 x hx

end Gallia.SessionScan
