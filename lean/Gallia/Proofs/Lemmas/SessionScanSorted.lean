import Gallia.Proofs.Lemmas.SessionScanReport
/-
  C09: the report is strictly ascending, hence equal *as a list* to the executable specification.
-/
namespace Gallia.SessionScan

theorem insertBy_sorted {α} (key : α → Nat) (x : α) (l : List α)
    (h : (l.map key).Pairwise (· ≤ ·)) : ((insertBy key x l).map key).Pairwise (· ≤ ·) := by
  induction l with
  | nil => simp [insertBy]
  | cons y ys ih =>
    simp only [List.map_cons, List.pairwise_cons] at h
    unfold insertBy
    split
    · rename_i hlt
      simp only [List.map_cons, List.pairwise_cons]
      refine ⟨?_, ih h.2⟩
      intro k hk
      simp only [List.mem_map] at hk
      obtain ⟨z, hz, rfl⟩ := hk
      rcases (mem_insertBy key x z ys).1 hz with h1 | h1
      · rw [h1]; omega
      · exact h.1 _ (List.mem_map.2 ⟨z, h1, rfl⟩)
    · rename_i hge
      simp only [List.map_cons, List.pairwise_cons]
      refine ⟨?_, h⟩
      intro k hk
      rcases List.mem_cons.1 hk with h1 | h1
      · rw [h1]; omega
      · have := h.1 k h1; omega

theorem foldl_insertBy_sorted {α} (key : α → Nat) (L init : List α)
    (h : (init.map key).Pairwise (· ≤ ·)) :
    ((L.foldl (fun acc x => insertBy key x acc) init).map key).Pairwise (· ≤ ·) := by
  induction L generalizing init with
  | nil => exact h
  | cons x L ih => rw [List.foldl_cons]; exact ih _ (insertBy_sorted key x init h)

theorem sortBy_sorted {α} (key : α → Nat) (l : List α) : ((sortBy key l).map key).Pairwise (· ≤ ·) := by
  unfold sortBy
  exact foldl_insertBy_sorted key _ [] (by simp)

theorem firstOfRuns_strict {α} (key : α → Nat) (prev : Option Nat) (l : List α)
    (hs : (l.map key).Pairwise (· ≤ ·)) (hp : ∀ p, prev = some p → ∀ k ∈ l.map key, p ≤ k) :
    ((firstOfRuns key prev l).map key).Pairwise (· < ·) ∧
    ∀ p, prev = some p → ∀ k ∈ (firstOfRuns key prev l).map key, p < k := by
  induction l generalizing prev with
  | nil => simp [firstOfRuns]
  | cons x xs ih =>
    simp only [List.map_cons, List.pairwise_cons] at hs
    unfold firstOfRuns
    split
    · rename_i heq
      exact ih prev hs.2 (fun p hp' k hk => hp p hp' k (by simp only [List.map_cons]; exact List.mem_cons_of_mem _ hk))
    · rename_i hne
      obtain ⟨i1, i2⟩ := ih (some (key x)) hs.2 (fun p hp' k hk => by
        have : p = key x := by simpa using hp'.symm
        rw [this]; exact hs.1 k hk)
      simp only [List.map_cons, List.pairwise_cons]
      refine ⟨⟨fun k hk => i2 (key x) rfl k hk, i1⟩, ?_⟩
      intro p hp' k hk
      rcases List.mem_cons.1 hk with h1 | h1
      · have hle := hp p hp' (key x) (by simp)
        have : p ≠ key x := by
          intro he; apply hne; rw [hp', he]
        rw [h1]; omega
      · have := i2 (key x) rfl k h1
        have hle := hp p hp' (key x) (by simp)
        omega

theorem result_strict (st : St) : (result st).Pairwise (· < ·) := by
  unfold result transitions
  split
  · simp
  · exact (firstOfRuns_strict (fun e : Sess × List Sess => e.1) none _ (sortBy_sorted _ _)
      (fun p hp => by cases hp)).1

theorem sessions_strict : sessions.Pairwise (· < ·) := by
  unfold sessions
  rw [List.pairwise_map]
  have : (List.range 0x7F).Pairwise (· < ·) := List.pairwise_lt_range
  exact this.imp (fun {a b} h => by show a + 1 < b + 1; omega)

theorem reachSet_strict (g : Sess → Sess → Ans) (skip : List Sess) (d : Nat) :
    (reachSet g skip d).Pairwise (· < ·) := by
  unfold reachSet
  exact sessions_strict.filter _

/-- two strictly ascending lists with the same members are equal -/
theorem eq_of_strict_of_mem_iff : ∀ (a b : List Nat), a.Pairwise (· < ·) → b.Pairwise (· < ·) →
    (∀ x, x ∈ a ↔ x ∈ b) → a = b
  | [], [], _, _, _ => rfl
  | [], y :: ys, _, _, h => by have := (h y).2 (List.mem_cons_self ..); cases this
  | x :: xs, [], _, _, h => by have := (h x).1 (List.mem_cons_self ..); cases this
  | x :: xs, y :: ys, ha, hb, h => by
    simp only [List.pairwise_cons] at ha hb
    have hxy : x = y := by
      have h1 := (h x).1 (List.mem_cons_self ..)
      have h2 := (h y).2 (List.mem_cons_self ..)
      rcases List.mem_cons.1 h1 with e | e
      · exact e
      · rcases List.mem_cons.1 h2 with e2 | e2
        · exact e2.symm
        · have := hb.1 x e; have := ha.1 y e2; omega
    subst hxy
    congr 1
    apply eq_of_strict_of_mem_iff xs ys ha.2 hb.2
    intro z
    constructor
    · intro hz
      rcases List.mem_cons.1 ((h z).1 (List.mem_cons_of_mem _ hz)) with e | e
      · have := ha.1 z hz; omega
      · exact e
    · intro hz
      rcases List.mem_cons.1 ((h z).2 (List.mem_cons_of_mem _ hz)) with e | e
      · have := hb.1 z hz; omega
      · exact e

end Gallia.SessionScan
