import Gallia.Model.SessionScanS
/-
  C09: simulation of the graph model `scan` by the stateful model `scanS` on every ECU that "has a session graph"
  (`GraphLike`), layer by layer.
-/
namespace Gallia.SessionScan

variable {σ : Type}

/-- after an accepted ECUReset: `n` pings stay unanswered, the next one is answered; the ECU is in session 1 -/
def Booting (L : Link σ) (Inv : σ → Prop) : Nat → σ → Prop
  | 0, e => L.sessionOf e = 1 ∧ ∀ i, ((L.send e i .ping).2.ans ≠ .silent ∧ (L.send e i .ping).2.ans.refused = false) ∧
      Inv (L.send e i .ping).1 ∧
      L.sessionOf (L.send e i .ping).1 = 1
  | n + 1, e => L.sessionOf e = 1 ∧ ∀ i, (L.send e i .ping).2.ans = .silent ∧ Booting L Inv n (L.send e i .ping).1

/-- **The ECU has a session graph** `E` (on the states `Inv`, which the requests of the scan do not leave): the reply to
    `10 u` and the session afterwards depend on the current session only, exactly as `E.g` says - whatever the inner
    state, the history and the time since the previous request; ECUReset is answered as `E.rst` says, an accepted one
    re-enters the default session and leaves `E.boot` pings unanswered (fewer than `wait_for_ecu` sends); replies come
    without ResponsePending.  Stated for the base ECU class (its session hooks send nothing). -/
structure GraphLike (L : Link σ) (c : CfgS) (E : Ecu) (Inv : σ → Prop) : Prop where
  base : c.preHook = [] ∧ c.postHook = []
  budget : ∀ p, E.boot p + 1 ≤ c.pingBudget
  dsc : ∀ e i u, Inv e →
    (L.send e i (.dsc u)).2 = outOf { fin := E.g (L.sessionOf e) u } ∧ Inv (L.send e i (.dsc u)).1 ∧
    L.sessionOf (L.send e i (.dsc u)).1 = (if (E.g (L.sessionOf e) u).moves = true then u else L.sessionOf e)
  reset : ∀ e i l, Inv e →
    (L.send e i (.reset l)).2 = outOf { fin := E.rst (L.sessionOf e) } ∧
    (E.rst (L.sessionOf e) ≠ .pos → Inv (L.send e i (.reset l)).1 ∧
      L.sessionOf (L.send e i (.reset l)).1 = (if (E.rst (L.sessionOf e)).moves = true then 1 else L.sessionOf e)) ∧
    (E.rst (L.sessionOf e) = .pos → Booting L Inv (E.boot (L.sessionOf e)) (L.send e i (.reset l)).1)

theorem outOf_retry_iff (a : Ans) : (outOf { fin := a }).retry = true ↔ (a = .silent ∨ a = .nrc NRC_BUSY) := by
  cases a with
  | pos => simp [outOf]
  | silent => simp [outOf]
  | illegal sw => simp [outOf]
  | nrc n =>
    by_cases h : n = NRC_BUSY
    · simp [outOf, h]
    · simp [outOf, h]

theorem outOf_ans (a : Ans) : (outOf { fin := a }).ans = a := by
  cases a with
  | pos => simp [outOf]
  | silent => simp [outOf]
  | illegal sw => simp [outOf]
  | nrc n =>
    by_cases h : n = NRC_BUSY
    · simp [outOf, h]
    · simp [outOf, h]

theorem repeats_eq (c : Cfg) (a : Ans) :
    repeats c a = if (outOf { fin := a }).retry = true then c.maxRetry + 1 else 1 := by
  cases a with
  | pos => simp [outOf, repeats]
  | silent => simp [outOf, repeats]
  | illegal sw => simp [outOf, repeats]
  | nrc n =>
    by_cases h : n = NRC_BUSY
    · simp [outOf, repeats, h]
    · simp [outOf, repeats, h]

/-- fields of the scanner state that a request does not touch -/
def SameBook (y x : StS σ) : Prop :=
  y.found = x.found ∧ y.pos = x.pos ∧ y.neg = x.neg ∧ y.searched = x.searched ∧ y.aborted = x.aborted ∧
    y.crashed = x.crashed

theorem SameBook.refl (x : StS σ) : SameBook x x := ⟨rfl, rfl, rfl, rfl, rfl, rfl⟩
theorem SameBook.trans {z y x : StS σ} (h1 : SameBook z y) (h2 : SameBook y x) : SameBook z x :=
  ⟨h1.1.trans h2.1, h1.2.1.trans h2.2.1, h1.2.2.1.trans h2.2.2.1, h1.2.2.2.1.trans h2.2.2.2.1,
   h1.2.2.2.2.1.trans h2.2.2.2.2.1, h1.2.2.2.2.2.trans h2.2.2.2.2.2⟩

/-- `request_unsafe` against a request that is answered with `a` from every state of `P` and, when `a` makes the
    client retransmit, leaves the ECU in `P` and in its session: the ECU sees it `repeats` times, the last of them from
    a state `e0` of `P` in the same session -/
theorem requestN_spec (c : CfgS) (L : Link σ) (k : Kind) (tp tgt : Nat) (w : Wire) (a : Ans) (P : σ → Prop)
    (h : ∀ e i, P e → (L.send e i w).2 = outOf { fin := a } ∧
      ((outOf { fin := a }).retry = true → P (L.send e i w).1 ∧ L.sessionOf (L.send e i w).1 = L.sessionOf e)) :
    ∀ n i (x : StS σ), P x.ecu →
      (requestN c L k tp tgt w i n x).2 = a ∧
      SameBook (requestN c L k tp tgt w i n x).1 x ∧
      (requestN c L k tp tgt w i n x).1.log =
        List.replicate (if (outOf { fin := a }).retry = true then n + 1 else 1) ⟨k, tgt, L.sessionOf x.ecu, tp⟩ ++ x.log ∧
      ∃ e0 i0, P e0 ∧ L.sessionOf e0 = L.sessionOf x.ecu ∧ (requestN c L k tp tgt w i n x).1.ecu = (L.send e0 i0 w).1 := by
  intro n
  induction n with
  | zero =>
    intro i x hx
    obtain ⟨h1, _⟩ := h x.ecu x.idle hx
    refine ⟨?_, ⟨rfl, rfl, rfl, rfl, rfl, rfl⟩, ?_, x.ecu, x.idle, hx, rfl, rfl⟩
    · simp only [requestN, xmit, h1, outOf_ans]
    · simp only [requestN, xmit]
      split <;> simp
  | succ n ih =>
    intro i x hx
    obtain ⟨h1, h2⟩ := h x.ecu x.idle hx
    by_cases hr : (outOf { fin := a }).retry = true
    · obtain ⟨hP, hs⟩ := h2 hr
      have hstep : requestN c L k tp tgt w i (n + 1) x =
          requestN c L k tp tgt w (i + 1) n
            { (xmit L c.timeoutMs k tp tgt w x).1 with
              idle := (xmit L c.timeoutMs k tp tgt w x).1.idle +
                (if (xmit L c.timeoutMs k tp tgt w x).2.backoff = true then c.retryWaitMs * 2 ^ i else 0) } := by
        rw [requestN]
        have : (xmit L c.timeoutMs k tp tgt w x).2.retry = true := by simp only [xmit, h1, hr]
        simp only [this, if_true]
      rw [hstep]
      generalize hy : ({ (xmit L c.timeoutMs k tp tgt w x).1 with
              idle := (xmit L c.timeoutMs k tp tgt w x).1.idle +
                (if (xmit L c.timeoutMs k tp tgt w x).2.backoff = true then c.retryWaitMs * 2 ^ i else 0) } : StS σ) = y
      have hye : y.ecu = (L.send x.ecu x.idle w).1 := by rw [← hy]; rfl
      have hyl : y.log = ⟨k, tgt, L.sessionOf x.ecu, tp⟩ :: x.log := by rw [← hy]; rfl
      have hyb : SameBook y x := by rw [← hy]; exact ⟨rfl, rfl, rfl, rfl, rfl, rfl⟩
      obtain ⟨r1, r2, r3, e0, i0, r4, r5, r6⟩ := ih (i + 1) y (by rw [hye]; exact hP)
      refine ⟨r1, r2.trans hyb, ?_, e0, i0, r4, ?_, r6⟩
      · rw [r3, hyl, hye, hs]
        simp only [hr, if_true]
        have hrep : ∀ (r : Req), List.replicate (n + 1 + 1) r = List.replicate (n + 1) r ++ [r] :=
          fun r => List.replicate_succ'
        rw [hrep]
        simp
      · rw [r5, hye, hs]
    · have hstep : requestN c L k tp tgt w i (n + 1) x =
          ((xmit L c.timeoutMs k tp tgt w x).1, (xmit L c.timeoutMs k tp tgt w x).2.ans) := by
        rw [requestN]
        have : (xmit L c.timeoutMs k tp tgt w x).2.retry = false := by
          simp only [xmit, h1]; simpa using hr
        simp [this]
      rw [hstep]
      refine ⟨?_, ⟨rfl, rfl, rfl, rfl, rfl, rfl⟩, ?_, x.ecu, x.idle, hx, rfl, rfl⟩
      · simp only [xmit, h1, outOf_ans]
      · simp only [xmit, hr, if_false]
        simp

theorem toSt_eq_of (L : Link σ) {y : StS σ} {st : St} (h1 : L.sessionOf y.ecu = st.cur) (h2 : y.log = st.reqs)
    (h3 : y.found = st.found) (h4 : y.pos = st.pos) (h5 : y.neg = st.neg) (h6 : y.searched = st.searched)
    (h7 : y.aborted = st.aborted) (h8 : y.crashed = st.crashed) : y.toSt L = st := by
  cases st; simp_all [StS.toSt]

/-- state and result of the stateful layer correspond to those of the graph layer; the ECU stays in `Inv` -/
def Sim2 {β : Type} (L : Link σ) (Inv : σ → Prop) (a : StS σ × β) (b : St × β) : Prop :=
  a.1.toSt L = b.1 ∧ a.2 = b.2 ∧ Inv a.1.ecu

section
variable {L : Link σ} {c : CfgS} {E : Ecu} {Inv : σ → Prop}

theorem dscOnceS_sim (G : GraphLike L c E Inv) (k : Kind) (tp : Nat) (s : Sess) (x : StS σ) (hx : Inv x.ecu) :
    Sim2 L Inv (dscOnceS c L k tp s x) (dscOnce c.toCfg E k tp s (x.toSt L)) := by
  have hspec := requestN_spec c L k tp s (.dsc s) (E.g (L.sessionOf x.ecu) s)
    (fun e => Inv e ∧ L.sessionOf e = L.sessionOf x.ecu)
    (by
      intro e i ⟨he, hs⟩
      obtain ⟨g1, g2, g3⟩ := G.dsc e i s he
      rw [hs] at g1 g3
      refine ⟨g1, fun hr => ?_⟩
      have hne : ¬ (E.g (L.sessionOf x.ecu) s).moves = true := by
        rcases (outOf_retry_iff _).1 hr with h | h <;> rw [h] <;> simp [Ans.moves]
      rw [if_neg hne] at g3
      exact ⟨⟨g2, g3⟩, g3.trans hs.symm⟩)
    c.maxRetry 0 x ⟨hx, rfl⟩
  obtain ⟨r1, r2, r3, e0, i0, ⟨he0, hs0⟩, _, r6⟩ := hspec
  obtain ⟨g1, g2, g3⟩ := G.dsc e0 i0 s he0
  rw [hs0] at g3
  have hreq : request c L k tp s (.dsc s) x = requestN c L k tp s (.dsc s) 0 c.maxRetry x := rfl
  unfold dscOnceS dscOnce
  rw [hreq]
  simp only [r1]
  generalize hy : (requestN c L k tp s (Wire.dsc s) 0 c.maxRetry x).1 = y at r2 r3 r6
  generalize ha : E.g (L.sessionOf x.ecu) s = a at r3 g3
  have hcur : (x.toSt L).cur = L.sessionOf x.ecu := rfl
  rw [hcur, ha]
  have hlog : y.log = (exchange c.toCfg k tp s a (x.toSt L)).reqs := by
    rw [r3]; simp only [exchange, repeats_eq]; rfl
  cases a with
  | pos =>
    refine ⟨toSt_eq_of L ?_ hlog r2.1 r2.2.1 r2.2.2.1 r2.2.2.2.1 r2.2.2.2.2.1 r2.2.2.2.2.2, rfl, ?_⟩
    · show L.sessionOf y.ecu = s
      rw [r6, g3]; simp [Ans.moves]
    · show Inv y.ecu
      rw [r6]; exact g2
  | silent =>
    refine ⟨toSt_eq_of L ?_ hlog r2.1 r2.2.1 r2.2.2.1 r2.2.2.2.1 r2.2.2.2.2.1 r2.2.2.2.2.2, rfl, ?_⟩
    · show L.sessionOf y.ecu = L.sessionOf x.ecu
      rw [r6, g3]; simp [Ans.moves]
    · show Inv y.ecu
      rw [r6]; exact g2
  | nrc n =>
    refine ⟨toSt_eq_of L ?_ hlog r2.1 r2.2.1 r2.2.2.1 r2.2.2.2.1 r2.2.2.2.2.1 r2.2.2.2.2.2, rfl, ?_⟩
    · show L.sessionOf y.ecu = L.sessionOf x.ecu
      rw [r6, g3]; simp [Ans.moves]
    · show Inv y.ecu
      rw [r6]; exact g2
  | illegal sw =>
    cases sw with
    | true =>
      refine ⟨toSt_eq_of L ?_ hlog r2.1 r2.2.1 r2.2.2.1 r2.2.2.2.1 r2.2.2.2.2.1 r2.2.2.2.2.2, rfl, ?_⟩
      · show L.sessionOf y.ecu = s
        rw [r6, g3]; simp [Ans.moves]
      · show Inv y.ecu
        rw [r6]; exact g2
    | false =>
      refine ⟨toSt_eq_of L ?_ hlog r2.1 r2.2.1 r2.2.2.1 r2.2.2.2.1 r2.2.2.2.2.1 r2.2.2.2.2.2, rfl, ?_⟩
      · show L.sessionOf y.ecu = L.sessionOf x.ecu
        rw [r6, g3]; simp [Ans.moves]
      · show Inv y.ecu
        rw [r6]; exact g2

theorem dscHooked_base (c : Cfg) (E : Ecu) (h : c.preHook = [] ∧ c.postHook = []) (k : Kind) (tp : Nat) (s : Sess)
    (st : St) : dscHooked c E k tp s st = dscOnce c E k tp s st := by
  unfold dscHooked dscOnce hookedAns hookReqs
  simp only [h.1, h.2, List.isEmpty_nil, if_true, List.map_nil, List.reverse_nil, List.nil_append]

theorem dscHookedS_base (L : Link σ) (c : CfgS) (h : c.preHook = [] ∧ c.postHook = []) (k : Kind) (tp : Nat) (s : Sess)
    (x : StS σ) : dscHookedS c L k tp s x = dscOnceS c L k tp s x := by
  unfold dscHookedS
  simp only [h.1, h.2, hookSeqS]
  generalize dscOnceS c L k tp s x = r
  obtain ⟨r1, r2⟩ := r
  cases r2 <;> simp

theorem dscS_sim (G : GraphLike L c E Inv) (k : Kind) (tp : Nat) (s : Sess) (x : StS σ) (hx : Inv x.ecu) :
    Sim2 L Inv (dscS c L k tp s x) (dsc c.toCfg E k tp s (x.toSt L)) := by
  simp only [dscS, dsc, dscHooked_base c.toCfg E G.base, dscHookedS_base L c G.base]
  obtain ⟨h1, h2, h3⟩ := dscOnceS_sim G k tp s x hx
  rw [← h2]
  by_cases hc : (dscOnceS c L k tp s x).2 = .nrc NRC_CNC ∧ c.hooks = true
  · rw [if_pos hc, if_pos hc]
    obtain ⟨g1, g2, g3⟩ := dscOnceS_sim G k tp s (dscOnceS c L k tp s x).1 h3
    rw [h1] at g1 g2
    rw [← g2]
    split
    · exact ⟨g1, g2, g3⟩
    · split
      · exact ⟨g1, g2, g3⟩
      · split
        · exact ⟨g1, g2, g3⟩
        · exact ⟨g1, rfl, g3⟩
  · rw [if_neg hc, if_neg hc]
    exact ⟨h1, h2, h3⟩

theorem recoverStackS_sim (G : GraphLike L c E Inv) (tp : Nat) (stack : List Sess) :
    ∀ (x : StS σ), Inv x.ecu →
      Sim2 L Inv (recoverStackS c L tp stack x) (recoverStack c.toCfg E tp stack (x.toSt L)) := by
  induction stack with
  | nil => intro x hx; exact ⟨rfl, rfl, hx⟩
  | cons s rest ih =>
    intro x hx
    obtain ⟨h1, h2, h3⟩ := dscS_sim G .recover tp s x hx
    unfold recoverStackS recoverStack
    simp only [← h2]
    split
    · rw [← h1]; exact ih _ h3
    · exact ⟨h1, rfl, h3⟩

/-- the pings of `wait_for_ecu` against a booting ECU -/
theorem waitS_boot (L : Link σ) (Inv : σ → Prop) (tp : Nat) :
    ∀ (n budget : Nat) (x : StS σ), n + 1 ≤ budget → Booting L Inv n x.ecu →
      (waitS L tp budget x).toSt L = pingReqs (n + 1) tp (x.toSt L) ∧ Inv (waitS L tp budget x).ecu ∧
      L.sessionOf (waitS L tp budget x).ecu = 1 := by
  intro n
  induction n with
  | zero =>
    intro budget x hb hx
    obtain ⟨b, rfl⟩ : ∃ b, budget = b + 1 := ⟨budget - 1, by omega⟩
    obtain ⟨h0, h⟩ := hx
    obtain ⟨h1, h2, h3⟩ := h (x.idle + 500)
    unfold waitS
    have : ¬ ((xmit L PING_TIMEOUT_MS .ping tp 0 .ping { x with idle := x.idle + 500 }).2.ans = .silent ∨
        (xmit L PING_TIMEOUT_MS .ping tp 0 .ping { x with idle := x.idle + 500 }).2.ans.refused = true) := by
      intro hh
      rcases hh with hh | hh
      · exact h1.1 hh
      · have := h1.2; simp only [xmit] at hh; rw [this] at hh; cases hh
    rw [if_neg this]
    refine ⟨toSt_eq_of L ?_ rfl rfl rfl rfl rfl rfl rfl, h2, h3⟩
    show L.sessionOf (L.send x.ecu (x.idle + 500) .ping).1 = L.sessionOf x.ecu
    rw [h3, h0]
  | succ n ih =>
    intro budget x hb hx
    obtain ⟨b, rfl⟩ : ∃ b, budget = b + 1 := ⟨budget - 1, by omega⟩
    obtain ⟨h0, h⟩ := hx
    obtain ⟨h1, h2⟩ := h (x.idle + 500)
    unfold waitS
    have : (xmit L PING_TIMEOUT_MS .ping tp 0 .ping { x with idle := x.idle + 500 }).2.ans = .silent := h1
    rw [if_pos (Or.inl this)]
    obtain ⟨r1, r2, r3⟩ := ih b (xmit L PING_TIMEOUT_MS .ping tp 0 .ping { x with idle := x.idle + 500 }).1
      (by omega) h2
    refine ⟨?_, r2, r3⟩
    rw [r1]
    have hs : L.sessionOf (L.send x.ecu (x.idle + 500) .ping).1 = L.sessionOf x.ecu := by
      cases n with
      | zero => exact h2.1.trans h0.symm
      | succ m => exact h2.1.trans h0.symm
    simp only [pingReqs, xmit, StS.toSt, hs]
    have hrep : ∀ (r : Req), List.replicate (n + 1 + 1) r = List.replicate (n + 1) r ++ [r] :=
      fun r => List.replicate_succ'
    rw [hrep]
    simp

theorem doResetS_sim (G : GraphLike L c E Inv) (tp lvl : Nat) (x : StS σ) (hx : Inv x.ecu) :
    (doResetS c L tp lvl x).toSt L = doReset c.toCfg E tp lvl (x.toSt L) ∧ Inv (doResetS c L tp lvl x).ecu := by
  have hspec := requestN_spec c L .reset tp lvl (.reset lvl) (E.rst (L.sessionOf x.ecu))
    (fun e => Inv e ∧ L.sessionOf e = L.sessionOf x.ecu)
    (by
      intro e i ⟨he, hs⟩
      obtain ⟨g1, g2, _⟩ := G.reset e i lvl he
      rw [hs] at g1 g2
      refine ⟨g1, fun hr => ?_⟩
      have hne : E.rst (L.sessionOf x.ecu) ≠ .pos := by
        rcases (outOf_retry_iff _).1 hr with h | h <;> rw [h] <;> simp
      have hnm : ¬ (E.rst (L.sessionOf x.ecu)).moves = true := by
        rcases (outOf_retry_iff _).1 hr with h | h <;> rw [h] <;> simp [Ans.moves]
      obtain ⟨q1, q2⟩ := g2 hne
      rw [if_neg hnm] at q2
      exact ⟨⟨q1, q2⟩, q2.trans hs.symm⟩)
    c.maxRetry 0 x ⟨hx, rfl⟩
  obtain ⟨r1, r2, r3, e0, i0, ⟨he0, hs0⟩, _, r6⟩ := hspec
  obtain ⟨_, g2, g3⟩ := G.reset e0 i0 lvl he0
  rw [hs0] at g2 g3
  have hreq : request c L .reset tp lvl (.reset lvl) x = requestN c L .reset tp lvl (.reset lvl) 0 c.maxRetry x := rfl
  unfold doResetS doReset
  rw [hreq]
  simp only [r1]
  generalize hy : (requestN c L .reset tp lvl (Wire.reset lvl) 0 c.maxRetry x).1 = y at r2 r3 r6
  have hcur : (x.toSt L).cur = L.sessionOf x.ecu := rfl
  rw [hcur]
  generalize ha : E.rst (L.sessionOf x.ecu) = a at r3 g2 g3
  have hlog : y.log = (exchange c.toCfg .reset tp lvl a (x.toSt L)).reqs := by
    rw [r3]; simp only [exchange, repeats_eq]; rfl
  cases a with
  | pos =>
    have hb := g3 rfl
    rw [← r6] at hb
    obtain ⟨w1, w2, w3⟩ := waitS_boot L Inv tp (E.boot (L.sessionOf x.ecu)) c.pingBudget { y with client := 1 }
      (G.budget _) hb
    refine ⟨?_, w2⟩
    show (waitS L tp c.pingBudget { y with client := 1 }).toSt L = _
    rw [w1]
    have h1 : L.sessionOf y.ecu = 1 := by
      cases hn : E.boot (L.sessionOf x.ecu) with
      | zero => rw [hn] at hb; exact hb.1
      | succ m => rw [hn] at hb; exact hb.1
    congr 1
    exact toSt_eq_of L h1 hlog r2.1 r2.2.1 r2.2.2.1 r2.2.2.2.1 r2.2.2.2.2.1 r2.2.2.2.2.2
  | silent =>
    obtain ⟨q1, q2⟩ := g2 (by simp)
    refine ⟨toSt_eq_of L ?_ hlog r2.1 r2.2.1 r2.2.2.1 r2.2.2.2.1 r2.2.2.2.2.1 r2.2.2.2.2.2, ?_⟩
    · show L.sessionOf y.ecu = L.sessionOf x.ecu
      rw [r6]; simpa [Ans.moves] using q2
    · show Inv y.ecu
      rw [r6]; exact q1
  | nrc n =>
    obtain ⟨q1, q2⟩ := g2 (by simp)
    refine ⟨toSt_eq_of L ?_ hlog r2.1 r2.2.1 r2.2.2.1 r2.2.2.2.1 r2.2.2.2.2.1 r2.2.2.2.2.2, ?_⟩
    · show L.sessionOf y.ecu = L.sessionOf x.ecu
      rw [r6]; simpa [Ans.moves] using q2
    · show Inv y.ecu
      rw [r6]; exact q1
  | illegal sw =>
    obtain ⟨q1, q2⟩ := g2 (by simp)
    refine ⟨toSt_eq_of L ?_ hlog r2.1 r2.2.1 r2.2.2.1 r2.2.2.2.1 r2.2.2.2.2.1 rfl, ?_⟩
    · show L.sessionOf y.ecu = (if sw = true then 1 else L.sessionOf x.ecu)
      rw [r6]; cases sw <;> simpa [Ans.moves] using q2
    · show Inv y.ecu
      rw [r6]; exact q1

theorem resetReqS_ans (G : GraphLike L c E Inv) (tp lvl : Nat) (x : StS σ) (hx : Inv x.ecu) :
    (request c L .reset tp lvl (.reset lvl) x).2 = E.rst (L.sessionOf x.ecu) := by
  have hspec := requestN_spec c L .reset tp lvl (.reset lvl) (E.rst (L.sessionOf x.ecu))
    (fun e => Inv e ∧ L.sessionOf e = L.sessionOf x.ecu)
    (by
      intro e i ⟨he, hs⟩
      obtain ⟨g1, g2, _⟩ := G.reset e i lvl he
      rw [hs] at g1 g2
      refine ⟨g1, fun hr => ?_⟩
      have hne : E.rst (L.sessionOf x.ecu) ≠ .pos := by
        rcases (outOf_retry_iff _).1 hr with h | h <;> rw [h] <;> simp
      have hnm : ¬ (E.rst (L.sessionOf x.ecu)).moves = true := by
        rcases (outOf_retry_iff _).1 hr with h | h <;> rw [h] <;> simp [Ans.moves]
      obtain ⟨q1, q2⟩ := g2 hne
      rw [if_neg hnm] at q2
      exact ⟨⟨q1, q2⟩, q2.trans hs.symm⟩)
    c.maxRetry 0 x ⟨hx, rfl⟩
  exact hspec.1

theorem prepareS_sim (G : GraphLike L c E Inv) (stack : List Sess) (a : StS σ × Bool) (b : St × Bool)
    (h : Sim2 L Inv a b) : Sim2 L Inv (prepareS c L stack a) (prepare c.toCfg E stack b) := by
  obtain ⟨h1, h2, h3⟩ := h
  unfold prepareS prepare
  cases hw : wantsReset c.toCfg with
  | none =>
    simp only [← h2]
    split
    · rw [← h1]; exact recoverStackS_sim G _ stack a.1 h3
    · exact ⟨h1, rfl, h3⟩
  | some l =>
    obtain ⟨q1, q2⟩ := doResetS_sim G (top stack) l a.1 h3
    have q3 := resetReqS_ans G (top stack) l a.1 h3
    have hcur : b.1.cur = L.sessionOf a.1.ecu := by rw [← h1]; rfl
    simp only [q3, hcur]
    rw [← h1, ← q1]
    split
    · exact ⟨rfl, rfl, q2⟩
    · exact recoverStackS_sim G _ stack _ q2

theorem classifyS_sim (stack : List Sess) (s : Sess) (a : StS σ × Ans) (b : St × Ans) (h : Sim2 L Inv a b) :
    Sim2 L Inv (classifyS c stack s a) (classify c.toCfg stack s b) := by
  obtain ⟨h1, h2, h3⟩ := h
  unfold classifyS classify
  rw [← h2, ← h1]
  cases a.2 with
  | silent => exact ⟨rfl, rfl, h3⟩
  | illegal sw => exact ⟨rfl, rfl, h3⟩
  | nrc code =>
    simp only
    split
    · exact ⟨rfl, rfl, h3⟩
    · exact ⟨rfl, rfl, h3⟩
  | pos =>
    simp only
    split
    · exact ⟨rfl, rfl, h3⟩
    · exact ⟨rfl, rfl, h3⟩

theorem probeOneS_sim (G : GraphLike L c E Inv) (stack : List Sess) (s : Sess) (a : StS σ × Bool) (b : St × Bool)
    (h : Sim2 L Inv a b) : Sim2 L Inv (probeOneS c L stack a s) (probeOne c.toCfg E stack b s) := by
  have hab : a.1.aborted = b.1.aborted := by rw [← h.1]; rfl
  unfold probeOneS probeOne
  rw [hab]
  split
  · exact h
  · split
    · exact h
    · obtain ⟨p1, p2, p3⟩ := prepareS_sim G stack a b h
      dsimp only
      rw [← p2]
      split
      · exact ⟨by rw [← p1]; rfl, rfl, p3⟩
      · rw [← p1]
        exact classifyS_sim stack s _ _ (dscS_sim G .probe (top stack) s _ p3)

theorem foldl_probeOneS_sim (G : GraphLike L c E Inv) (stack : List Sess) (l : List Sess) :
    ∀ (a : StS σ × Bool) (b : St × Bool), Sim2 L Inv a b →
      Sim2 L Inv (l.foldl (probeOneS c L stack) a) (l.foldl (probeOne c.toCfg E stack) b) := by
  induction l with
  | nil => intro a b h; exact h
  | cons s rest ih => intro a b h; exact ih _ _ (probeOneS_sim G stack s a b h)

/-- state correspondence without a result -/
def Sim1 (L : Link σ) (Inv : σ → Prop) (x : StS σ) (st : St) : Prop := x.toSt L = st ∧ Inv x.ecu

theorem processStackS_sim (G : GraphLike L c E Inv) (stack : List Sess) (x : StS σ) (st : St) (h : Sim1 L Inv x st) :
    Sim1 L Inv (processStackS c L x stack) (processStack c.toCfg E st stack) := by
  obtain ⟨h1, h2⟩ := h
  have hab : x.aborted = st.aborted := by rw [← h1]; rfl
  have hse : x.searched = st.searched := by rw [← h1]; rfl
  unfold processStackS processStack
  generalize sessions = l
  by_cases ha : st.aborted = true
  · rw [if_pos (by rw [hab]; exact ha), if_pos ha]; exact ⟨h1, h2⟩
  · rw [if_neg (by rw [hab]; exact ha), if_neg ha]
    by_cases hs : c.thorough = false ∧ top stack ∈ st.searched
    · rw [if_pos (by rw [hse]; exact hs), if_pos hs]; exact ⟨h1, h2⟩
    · rw [if_neg (by rw [hse]; exact hs), if_neg hs]
      have := foldl_probeOneS_sim G stack l ({ x with searched := x.searched ++ [top stack] }, true)
        ({ st with searched := st.searched ++ [top stack] }, true) ⟨by rw [← h1]; rfl, rfl, h2⟩
      exact ⟨this.1, this.2.2⟩

theorem foldl_processStackS_sim (G : GraphLike L c E Inv) (l : List (List Sess)) :
    ∀ (x : StS σ) (st : St), Sim1 L Inv x st →
      Sim1 L Inv (l.foldl (processStackS c L) x) (l.foldl (processStack c.toCfg E) st) := by
  induction l with
  | nil => intro x st h; exact h
  | cons s rest ih => intro x st h; exact ih _ _ (processStackS_sim G s x st h)

theorem levelS_sim (G : GraphLike L c E Inv) (x : StS σ) (st : St) (h : Sim1 L Inv x st) :
    Sim1 L Inv (levelS c L x) (level c.toCfg E st) := by
  obtain ⟨h1, h2⟩ := h
  have hf : x.found = st.found := by rw [← h1]; rfl
  unfold levelS level
  rw [hf]
  exact foldl_processStackS_sim G _ _ _ ⟨by rw [← h1]; rfl, h2⟩

theorem scanLoopS_sim (G : GraphLike L c E Inv) (n : Nat) :
    ∀ (x : StS σ) (st : St), Sim1 L Inv x st → Sim1 L Inv (scanLoopS c L n x) (scanLoop c.toCfg E n st) := by
  induction n with
  | zero => intro x st h; exact h
  | succ n ih =>
    intro x st h
    have hf : x.found = st.found := by rw [← h.1]; rfl
    unfold scanLoopS scanLoop
    rw [hf]
    split
    · exact h
    · exact ih _ _ (levelS_sim G x st h)

/-- the scan against a GraphLike ECU that starts in the default session is the scan of its graph -/
theorem scanS_sim (G : GraphLike L c E Inv) (e : σ) (he : Inv e) (h1 : L.sessionOf e = 1) :
    (scanS c L e).toSt L = scan c.toCfg E ∧ Inv (scanS c L e).ecu :=
  scanLoopS_sim G c.depth (initS e) initSt ⟨toSt_eq_of L h1 rfl rfl rfl rfl rfl rfl rfl, he⟩

end

end Gallia.SessionScan
