import Gallia.Proofs.Lemmas.UdsReqMk
/-
  C01: which request a successful construction yields, field by field (`mk a = .ok r → Shape a r`).
-/
namespace Gallia.UdsReq
open Gallia

/-- the request accepted arguments turn into: every field is the argument itself (integers as naturals, parallel lists
    zipped into groups, the format byte / size computed when left out) -/
def Shape : Args → Req → Prop
  | .dsc ty sup, r => r = .dsc ty.toNat sup
  | .ecuReset ty sup, r => r = .ecuReset ty.toNat sup
  | .requestSeed l rec sup, r => r = .requestSeed l.toNat rec sup
  | .sendKey l k sup, r => r = .sendKey l.toNat k sup
  | .commCtrl c m sup, r => r = .commCtrl c.toNat m.toNat sup
  | .testerPresent sup, r => r = .testerPresent sup
  | .controlDTC t rec sup, r => r = .controlDTC t.toNat rec sup
  | .rdbi ds, r => r = .rdbi (ds.map Int.toNat)
  | .rmba a s _, r => ∃ f, r = .rmba a.toNat s.toNat f
  | .defineById d ss ps ms sup, r =>
      r = .defineById d.toNat ((ss.map Int.toNat).zip ((ps.map Int.toNat).zip (ms.map Int.toNat))) sup
  | .defineByMem d as ss _ sup, r => ∃ f, r = .defineByMem d.toNat f ((as.map Int.toNat).zip (ss.map Int.toNat)) sup
  | .clearDDDI d sup, r => r = .clearDDDI (d.map Int.toNat) sup
  | .wdbi d rec, r => r = .wdbi d.toNat rec
  | .wmba a rec s _, r => ∃ f, r = .wmba a.toNat (s.getD rec.length).toNat f rec
  | .clearDTC g, r => r = .clearDTC g.toNat
  | .dtcByMask sf m sup, r => r = .dtcByMask sf m.toNat sup
  | .dtcPlain sf sup, r => r = .dtcPlain sf sup
  | .dtcExtByNumber d n sup, r => r = .dtcExtByNumber d.toNat n.toNat sup
  | .dtcExtByNumberB d n sup, r => r = .dtcExtByNumber (fromBE d) n.toNat sup
  | .iocbi d o m, r => r = .iocbi d.toNat o m
  | .iocbiConv p d m, r => r = .iocbi d.toNat [u8 p] m
  | .iocbiShortTerm d st m, r => r = .iocbi d.toNat (3 :: st) m
  | .routine sf rid rec sup, r => r = .routine sf rid.toNat rec sup
  | .reqDownload a s c e _, r => ∃ f, r = .reqDownload a.toNat s.toNat c.toNat e.toNat f
  | .reqUpload a s c e _, r => ∃ f, r = .reqUpload a.toNat s.toNat c.toNat e.toNat f
  | .transferData c rec, r => r = .transferData c.toNat rec
  | .transferExit rec, r => r = .transferExit rec
  | .raw b, r => r = .raw b

theorem ok_inj {α} {a b : α} (h : (Except.ok a : Except Err α) = .ok b) : a = b := by cases h; rfl

theorem mk_shape (a : Args) (r : Req) (hm : mk a = .ok r) : Shape a r := by
  have h : InRange a := by
    by_cases h : InRange a
    · exact h
    · rw [mk_refuses' a h] at hm; cases hm
  cases a with
  | dsc ty sup => simp only [InRange] at h; simp [mk, natIn_ok h, pure, Except.pure] at hm; exact hm.symm
  | ecuReset ty sup => simp only [InRange] at h; simp [mk, natIn_ok h, pure, Except.pure] at hm; exact hm.symm
  | controlDTC ty r sup => simp only [InRange] at h; simp [mk, natIn_ok h, pure, Except.pure] at hm; exact hm.symm
  | clearDTC g => simp only [InRange] at h; simp [mk, natIn_ok h, pure, Except.pure] at hm; exact hm.symm
  | transferData c r => simp only [InRange] at h; simp [mk, natIn_ok h, pure, Except.pure] at hm; exact hm.symm
  | testerPresent sup => simp [mk, pure, Except.pure] at hm; exact hm.symm
  | transferExit r => simp [mk, pure, Except.pure] at hm; exact hm.symm
  | raw b => simp [mk, pure, Except.pure] at hm; exact hm.symm
  | dtcPlain sf sup => simp only [InRange] at h; simp [mk, require_ok h, pure, Except.pure] at hm; exact hm.symm
  | rmba a s f =>
    simp only [InRange] at h
    obtain ⟨f', hf, -, -⟩ := mkMem_ok h
    simp [mk, hf, pure, Except.pure] at hm; exact ⟨f', hm.symm⟩
  | requestSeed l r sup =>
    simp only [InRange] at h
    simp [mk, natIn_ok h.1, require_ok h.2, pure, Except.pure] at hm; exact hm.symm
  | sendKey l k sup =>
    simp only [InRange] at h
    simp [mk, natIn_ok h.1, require_ok h.2.1, require_ok h.2.2, pure, Except.pure] at hm; exact hm.symm
  | commCtrl c m sup =>
    simp only [InRange] at h
    simp [mk, natIn_ok h.1, natIn_ok h.2, pure, Except.pure] at hm; exact hm.symm
  | rdbi ds =>
    simp only [InRange] at h
    simp [mk, require_ok h.1, natsIn_ok h.2, pure, Except.pure] at hm; exact hm.symm
  | wdbi d r =>
    simp only [InRange] at h
    simp [mk, natIn_ok h.1, require_ok h.2, pure, Except.pure] at hm; exact hm.symm
  | iocbi d o m =>
    simp only [InRange] at h
    simp [mk, natIn_ok h.1, require_ok h.2, pure, Except.pure] at hm; exact hm.symm
  | iocbiShortTerm d st m =>
    simp only [InRange] at h
    simp [mk, natIn_ok h.1, require_ok h.2, pure, Except.pure] at hm; exact hm.symm
  | iocbiConv p d m =>
    simp only [InRange] at h
    simp [mk, require_ok h.1, natIn_ok h.2, pure, Except.pure] at hm; exact hm.symm
  | dtcByMask sf m sup =>
    simp only [InRange] at h
    simp [mk, require_ok h.1, natIn_ok h.2, pure, Except.pure] at hm; exact hm.symm
  | routine sf r rec sup =>
    simp only [InRange] at h
    simp [mk, require_ok h.1, natIn_ok h.2, pure, Except.pure] at hm; exact hm.symm
  | dtcExtByNumber d n sup =>
    simp only [InRange] at h
    simp [mk, natIn_ok h.1, natIn_ok h.2, pure, Except.pure] at hm; exact hm.symm
  | dtcExtByNumberB d n sup =>
    simp only [InRange] at h
    simp [mk, require_ok h.1, natIn_ok h.2, pure, Except.pure] at hm; exact hm.symm
  | clearDDDI d sup =>
    cases d with
    | none => simp [mk, pure, Except.pure] at hm; exact hm.symm
    | some x =>
      simp only [InRange, Option.some.injEq, forall_eq'] at h
      simp [mk, natIn_ok h, pure, Except.pure] at hm; exact hm.symm
  | wmba a r s f =>
    simp only [InRange] at h
    obtain ⟨f', hf, -, -⟩ := mkMem_ok h.1
    simp [mk, hf, require_ok h.2, pure, Except.pure] at hm; exact ⟨f', hm.symm⟩
  | reqDownload a s c e f =>
    simp only [InRange] at h
    obtain ⟨f', hf, -, -⟩ := mkMem_ok h.2.2
    simp [mk, natIn_ok h.1, natIn_ok h.2.1, hf, pure, Except.pure] at hm; exact ⟨f', hm.symm⟩
  | reqUpload a s c e f =>
    simp only [InRange] at h
    obtain ⟨f', hf, -, -⟩ := mkMem_ok h.2.2
    simp [mk, natIn_ok h.1, natIn_ok h.2.1, hf, pure, Except.pure] at hm; exact ⟨f', hm.symm⟩
  | defineById d ss ps ms sup =>
    simp only [InRange] at h
    obtain ⟨h1, h2, h6, h3, h4, h5⟩ := h
    simp [mk, natIn_ok h1, require_ok h2, require_ok h6, natsIn_ok h3, natsIn_ok h4, natsIn_ok h5, pure, Except.pure] at hm
    exact hm.symm
  | defineByMem d as ss f sup =>
    simp only [InRange] at h
    obtain ⟨h1, h2, h5, h3, h4, h6⟩ := h
    cases f with
    | some f' =>
      obtain ⟨h7, h8, h9⟩ := h6 f' rfl
      simp only [mk, natIn_ok h1, require_ok h2, natsIn_ok h3, natsIn_ok h4, require_ok h5, natIn_ok h7, bind_ok] at hm
      rw [require_ok ⟨h8, h9⟩] at hm
      exact ⟨f'.toNat, (ok_inj hm).symm⟩
    | none =>
      simp only [mk, natIn_ok h1, require_ok h2, natsIn_ok h3, natsIn_ok h4, require_ok h5, bind_ok] at hm
      exact ⟨_, (ok_inj hm).symm⟩

end Gallia.UdsReq
