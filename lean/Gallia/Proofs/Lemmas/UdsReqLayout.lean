import Gallia.Proofs.Lemmas.UdsReqCodec
/-
  C01: layout accessors and lemmas, minimal address/length format
-/
namespace Gallia.UdsReq
open Gallia

/-! ### layout accessors (what the property names), written independently of `encode` -/

/-- sub-function and suppress flag of the kinds that carry a sub-function byte -/
def subfn : Req → Option (Nat × Bool)
  | .dsc ty sup => some (ty, sup)
  | .ecuReset ty sup => some (ty, sup)
  | .requestSeed l _ sup => some (l, sup)
  | .sendKey l _ sup => some (l, sup)
  | .commCtrl c _ sup => some (c, sup)
  | .testerPresent sup => some (0, sup)
  | .controlDTC t _ sup => some (t, sup)
  | .defineById _ _ sup => some (1, sup)
  | .defineByMem _ _ _ sup => some (2, sup)
  | .clearDDDI _ sup => some (3, sup)
  | .dtcByMask sf _ sup => some (sf, sup)
  | .dtcPlain sf sup => some (sf, sup)
  | .dtcExtByNumber _ _ sup => some (6, sup)
  | .routine sf _ _ sup => some (sf, sup)
  | _ => none

/-- (offset, value) of the leading 16-bit identifier -/
def didAt : Req → Option (Nat × Nat)
  | .rdbi (d :: _) => some (1, d)
  | .wdbi d _ => some (1, d)
  | .iocbi d _ _ => some (1, d)
  | .routine _ rid _ _ => some (2, rid)
  | .defineById d _ _ => some (2, d)
  | .defineByMem d _ _ _ => some (2, d)
  | .clearDDDI (some d) _ => some (2, d)
  | _ => none

/-- (offset of the format byte, format byte, address, size) of the memory-style requests -/
def memAt : Req → Option (Nat × Nat × Nat × Nat)
  | .rmba a s f => some (1, f, a, s)
  | .wmba a s f _ => some (1, f, a, s)
  | .reqDownload a s _ _ f => some (2, f, a, s)
  | .reqUpload a s _ _ f => some (2, f, a, s)
  | _ => none

theorem subfn_lt (r : Req) (h : r.WF) (sf : Nat) (sup : Bool) (hs : subfn r = some (sf, sup)) : sf < 128 := by
  cases r <;> simp only [subfn, Option.some.injEq, Prod.mk.injEq, reduceCtorEq] at hs <;> obtain ⟨rfl, rfl⟩ := hs <;>
    simp only [Req.WF] at h <;> first | omega | exact mem_sfs_lt (by simp [h])

theorem encode_byte1 (r : Req) (sf : Nat) (sup : Bool) (hs : subfn r = some (sf, sup)) :
    (encode r)[1]? = some (sfByte sf sup) := by
  cases r with
  | clearDDDI d s =>
    simp only [subfn, Option.some.injEq, Prod.mk.injEq] at hs; obtain ⟨rfl, rfl⟩ := hs
    cases d <;> simp [encode]
  | _ =>
    simp only [subfn, Option.some.injEq, Prod.mk.injEq, reduceCtorEq] at hs <;> obtain ⟨rfl, rfl⟩ := hs <;> simp [encode]

theorem keyOf_norm (r : Req) : keyOf (norm r) = keyOf r := by cases r <;> rfl
theorem encode_norm (r : Req) : encode (norm r) = encode r := by cases r <;> simp [norm, encode]

theorem encode_head (r : Req) (h : r.WF) (hr : r.isRaw = false) :
    ∃ e sid, regLookup (keyOf r).1 (keyOf r).2 = some e ∧ e.sid = some sid ∧ (encode r).head? = some (u8 sid) := by
  cases r with
  | raw b => simp [Req.isRaw] at hr
  | dtcByMask sf m sup =>
    simp only [Req.WF, dtcMaskSfs, List.mem_cons, List.not_mem_nil, or_false] at h
    rcases h.1 with rfl | rfl | rfl | rfl | rfl | rfl <;> simp [keyOf, regLookup, requestRegistry, encode, u8]
  | dtcPlain sf sup =>
    simp only [Req.WF, dtcPlainSfs, List.mem_cons, List.not_mem_nil, or_false] at h
    rcases h with rfl | rfl | rfl | rfl | rfl | rfl <;> simp [keyOf, regLookup, requestRegistry, encode, u8]
  | routine sf rid rec sup =>
    simp only [Req.WF, routineSfs, List.mem_cons, List.not_mem_nil, or_false] at h
    rcases h.1 with rfl | rfl | rfl <;> simp [keyOf, regLookup, requestRegistry, encode, u8]
  | clearDDDI d sup => cases d <;> simp [keyOf, regLookup, requestRegistry, encode, u8]
  | _ => simp [keyOf, regLookup, requestRegistry, encode, u8]


theorem hi_byte {d : Nat} (h : d < 65536) : d / 256 % 256 = d / 256 := Nat.mod_eq_of_lt (by omega)

theorem encode_did (r : Req) (h : r.WF) (off d : Nat) (hd : didAt r = some (off, d)) :
    d < 65536 ∧ (encode r)[off]? = some (UInt8.ofNat (d / 256)) ∧ (encode r)[off + 1]? = some (UInt8.ofNat (d % 256)) := by
  cases r with
  | rdbi ds =>
    cases ds with
    | nil => simp [didAt] at hd
    | cons x xs =>
      simp only [didAt, Option.some.injEq, Prod.mk.injEq] at hd; obtain ⟨rfl, rfl⟩ := hd
      simp only [Req.WF] at h
      have hx : x < 65536 := h.2 x (by simp)
      simp [encode, toBE_two, hi_byte hx, hx]
  | clearDDDI dd sup =>
    cases dd with
    | none => simp [didAt] at hd
    | some x =>
      simp only [didAt, Option.some.injEq, Prod.mk.injEq] at hd; obtain ⟨rfl, rfl⟩ := hd
      simp only [Req.WF] at h
      have hx : x < 65536 := h x rfl
      simp [encode, toBE_two, hi_byte hx, hx]
  | wdbi x rec =>
    simp only [didAt, Option.some.injEq, Prod.mk.injEq] at hd; obtain ⟨rfl, rfl⟩ := hd
    simp only [Req.WF] at h
    simp [encode, toBE_two, hi_byte h.1, h.1]
  | iocbi x o m =>
    simp only [didAt, Option.some.injEq, Prod.mk.injEq] at hd; obtain ⟨rfl, rfl⟩ := hd
    simp only [Req.WF] at h
    simp [encode, toBE_two, hi_byte h.1, h.1]
  | routine sf x rec sup =>
    simp only [didAt, Option.some.injEq, Prod.mk.injEq] at hd; obtain ⟨rfl, rfl⟩ := hd
    simp only [Req.WF] at h
    simp [encode, toBE_two, hi_byte h.2, h.2]
  | defineById x gs sup =>
    simp only [didAt, Option.some.injEq, Prod.mk.injEq] at hd; obtain ⟨rfl, rfl⟩ := hd
    simp only [Req.WF] at h
    simp [encode, toBE_two, hi_byte h.1, h.1]
  | defineByMem x f gs sup =>
    simp only [didAt, Option.some.injEq, Prod.mk.injEq] at hd; obtain ⟨rfl, rfl⟩ := hd
    simp only [Req.WF] at h
    simp [encode, toBE_two, hi_byte h.1, h.1]
  | _ => simp [didAt] at hd

theorem encode_mem (r : Req) (h : r.WF) (off f a s : Nat) (hm : memAt r = some (off, f, a, s)) :
    AlfidOk f ∧ Fits f a s ∧ (encode r)[off]? = some (UInt8.ofNat f) ∧
    ((encode r).drop (off + 1)).take (f % 16) = toBE a (f % 16) ∧
    ((encode r).drop (off + 1 + f % 16)).take (f / 16) = toBE s (f / 16) := by
  have key : ∀ (pre rest : Bytes), pre.length = off → 
      ((pre ++ u8 f :: (encAddrSize f (a, s) ++ rest))[off]? = some (UInt8.ofNat f) ∧
      ((pre ++ u8 f :: (encAddrSize f (a, s) ++ rest)).drop (off + 1)).take (f % 16) = toBE a (f % 16) ∧
      ((pre ++ u8 f :: (encAddrSize f (a, s) ++ rest)).drop (off + 1 + f % 16)).take (f / 16) = toBE s (f / 16)) := by
    intro pre rest hp
    subst hp
    refine ⟨by simp [u8], ?_, ?_⟩
    · rw [show pre.length + 1 = (pre ++ [u8 f]).length by simp,
          show pre ++ u8 f :: (encAddrSize f (a, s) ++ rest) = (pre ++ [u8 f]) ++ (encAddrSize f (a, s) ++ rest) by simp,
          List.drop_left]
      simp only [encAddrSize, alLen, slLen, List.append_assoc]
      exact List.take_left' (by simp)
    · rw [show pre.length + 1 + f % 16 = (pre ++ [u8 f] ++ toBE a (f % 16)).length by simp; omega,
          show pre ++ u8 f :: (encAddrSize f (a, s) ++ rest) = (pre ++ [u8 f] ++ toBE a (f % 16)) ++ (toBE s (f / 16) ++ rest) by
            simp [encAddrSize, alLen, slLen],
          List.drop_left]
      exact List.take_left' (by simp)
  cases r with
  | rmba a' s' f' =>
    simp only [memAt, Option.some.injEq, Prod.mk.injEq] at hm; obtain ⟨rfl, rfl, rfl, rfl⟩ := hm
    simp only [Req.WF] at h
    have := key [0x23] [] rfl
    exact ⟨h.1, h.2, by simpa [encode] using this⟩
  | wmba a' s' f' rec =>
    simp only [memAt, Option.some.injEq, Prod.mk.injEq] at hm; obtain ⟨rfl, rfl, rfl, rfl⟩ := hm
    simp only [Req.WF] at h
    have := key [0x3D] rec rfl
    exact ⟨h.1, h.2.1, by simpa [encode] using this⟩
  | reqDownload a' s' c e f' =>
    simp only [memAt, Option.some.injEq, Prod.mk.injEq] at hm; obtain ⟨rfl, rfl, rfl, rfl⟩ := hm
    simp only [Req.WF] at h
    have := key [0x34, u8 (c * 16 + e)] [] rfl
    exact ⟨h.2.2.1, h.2.2.2, by simpa [encode] using this⟩
  | reqUpload a' s' c e f' =>
    simp only [memAt, Option.some.injEq, Prod.mk.injEq] at hm; obtain ⟨rfl, rfl, rfl, rfl⟩ := hm
    simp only [Req.WF] at h
    have := key [0x35, u8 (c * 16 + e)] [] rfl
    exact ⟨h.2.2.1, h.2.2.2, by simpa [encode] using this⟩
  | _ => simp [memAt] at hm

/-! ### minimal widths -/

theorem minBytes_pos (n : Nat) : 0 < minBytes n := by
  rw [minBytes]; split <;> omega

theorem minBytes_spec (n : Nat) : n < 256 ^ minBytes n := by
  fun_induction minBytes n with
  | case1 n h => simpa using h
  | case2 n h ih => rw [Nat.pow_succ]; omega

theorem minBytes_min (n k : Nat) (hk : 0 < k) (h : n < 256 ^ k) : minBytes n ≤ k := by
  induction k generalizing n with
  | zero => omega
  | succ k ih =>
    rw [minBytes]
    split
    · omega
    · rename_i hn
      have h1 : n / 256 < 256 ^ k := by
        rw [Nat.pow_succ] at h; exact Nat.div_lt_of_lt_mul (by rw [Nat.mul_comm]; exact h)
      have hk0 : 0 < k := by
        rcases Nat.eq_zero_or_pos k with rfl | hk0
        · simp at h; omega
        · exact hk0
      have := ih (n / 256) hk0 h1
      omega

theorem alfidOf_fits (a s : Nat) (ha : minBytes a ≤ 15) (hs : minBytes s ≤ 15) :
    AlfidOk (alfidOf a s) ∧ Fits (alfidOf a s) a s := by
  have pa := minBytes_pos a
  have ps := minBytes_pos s
  have e1 : alfidOf a s % 16 = minBytes a := by unfold alfidOf; omega
  have e2 : alfidOf a s / 16 = minBytes s := by unfold alfidOf; omega
  refine ⟨⟨by unfold alfidOf; omega, by omega, by omega⟩, ?_, ?_⟩
  · unfold alLen; rw [e1]; exact minBytes_spec a
  · unfold slLen; rw [e2]; exact minBytes_spec s

theorem alfidOf_minimal (a s f : Nat) (hok : AlfidOk f) (hf : Fits f a s) :
    minBytes a ≤ alLen f ∧ minBytes s ≤ slLen f ∧ minBytes a ≤ 15 ∧ minBytes s ≤ 15 := by
  have hl := alfidOk_lens hok
  have h1 := minBytes_min a (alLen f) hl.1 hf.1
  have h2 := minBytes_min s (slLen f) hl.2.1 hf.2
  omega

end Gallia.UdsReq
