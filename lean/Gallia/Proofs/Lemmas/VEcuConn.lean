import Gallia.Model.VEcuConn
import Gallia.Proofs.Lemmas.Lines
/-
  Helper lemmas for the connection-level theorems of C14 (`Proofs/C14.lean`): the line layer on what `hexlify` emits,
  a loop that has ended stays ended.
-/
namespace Gallia.VEcuConn
open Gallia Gallia.Server Gallia.VEcu Gallia.Lines

theorem decodeLine_hexB (b : Bytes) : decodeLine (hexB b) = .msg b := by
  unfold decodeLine
  rw [strip_hexB, unhexB_hexB_append]

theorem decodeLine_cases (l : Bytes) : decodeLine l = .bad ∨ ∃ b, decodeLine l = .msg b := by
  unfold decodeLine
  cases unhexB (strip l) with
  | none => exact Or.inl rfl
  | some m => exact Or.inr ⟨m, rfl⟩

theorem cutLine_enc (b rest : Bytes) : cutLine (enc b ++ rest) = some (hexB b, rest) := by
  unfold enc
  rw [List.append_assoc]
  exact cutLine_line (hexB b) rest (nl_not_mem_hexB b)

theorem readLine_enc (b rest : Bytes) (eof : Bool) : readLine (enc b ++ rest) eof = (.msg b, rest) := by
  unfold readLine
  rw [cutLine_enc]
  simp only [decodeLine_hexB]

theorem hexDigit_lower : ∀ n, n < 16 → isLowerHex (hexDigitB n) = true := by decide

theorem hexB_lower (m : Bytes) : ∀ c ∈ hexB m, isLowerHex c = true := by
  intro c hc
  obtain ⟨n, hn, e⟩ := mem_hexB hc
  rw [e]; exact hexDigit_lower n hn

theorem hexB_length (m : Bytes) : (hexB m).length = 2 * m.length := by
  induction m with
  | nil => rfl
  | cons b t ih => simp only [hexB, List.length_cons, ih]; omega

theorem serveLine_dead (m : Model) (c : Conn) (e : EndCause) (h : c.ended = some e) (l : Bytes) (s t : Nat) (o : Orc) :
    serveLine m c l s t o = (c, []) := by
  unfold serveLine Conn.alive
  simp [h]

theorem serveLine_ok (m : Model) (c : Conn) (hc : c.ended = none) (l : Bytes) (hl : l.length ≤ c.limit) (s t : Nat) (o : Orc) (b : Bytes)
    (hmsg : decodeLine l = .msg b) (ts' : TState) (st' : SrvState) (reply : Option Server.Resp)
    (hh : vecuHandleSE allOn m c.ts ⟨s, t, b, o⟩ = (ts', .ok st' reply)) :
    serveLine m c l s t o = ({ c with ts := ts', served := c.served + 1 }, lineOf reply) := by
  unfold serveLine
  simp only [Conn.alive, hc, Option.isNone_none, Bool.not_true, Bool.false_eq_true, ↓reduceIte, hmsg, hh, Nat.not_lt.mpr hl]

theorem serveLine_crash (m : Model) (c : Conn) (hc : c.ended = none) (l : Bytes) (hl : l.length ≤ c.limit) (s t : Nat) (o : Orc) (b : Bytes)
    (hmsg : decodeLine l = .msg b) (ts' : TState) (cr : Crash)
    (hh : vecuHandleSE allOn m c.ts ⟨s, t, b, o⟩ = (ts', .crash cr)) :
    serveLine m c l s t o = ({ c with ts := ts', ended := some (.raised cr) }, []) := by
  unfold serveLine
  simp only [Conn.alive, hc, Option.isNone_none, Bool.not_true, Bool.false_eq_true, ↓reduceIte, hmsg, hh, Nat.not_lt.mpr hl]

theorem serveLine_bad (m : Model) (c : Conn) (hc : c.ended = none) (l : Bytes) (hl : l.length ≤ c.limit) (s t : Nat) (o : Orc)
    (hbad : decodeLine l = .bad) : serveLine m c l s t o = ({ c with ended := some .badLine }, []) := by
  unfold serveLine
  simp only [Conn.alive, hc, Option.isNone_none, Bool.not_true, Bool.false_eq_true, ↓reduceIte, hbad, Nat.not_lt.mpr hl]

theorem serveLine_long (m : Model) (c : Conn) (hc : c.ended = none) (l : Bytes) (hl : l.length > c.limit) (s t : Nat) (o : Orc) :
    serveLine m c l s t o = ({ c with ended := some .tooLong }, []) := by
  unfold serveLine
  simp only [Conn.alive, hc, Option.isNone_none, Bool.not_true, Bool.false_eq_true, ↓reduceIte, hl]

theorem stepConn_dead (m : Model) (c : Conn) (e : EndCause) (h : c.ended = some e) (ev : Event) :
    stepConn m c ev = (c, []) := by
  cases ev with
  | line l s t o => exact serveLine_dead m c e h l s t o
  | eof tail => simp [stepConn, serveEof, Conn.alive, h]

theorem runConn_dead (m : Model) (c : Conn) (e : EndCause) (h : c.ended = some e) (evs : List Event) :
    runConn m c evs = (c, []) := by
  induction evs with
  | nil => rfl
  | cons ev rest ih => simp only [runConn, stepConn_dead m c e h ev, ih, List.append_nil]

/-- a timed-out read leaves the stream as it is -/
theorem clientRead_empty (req : Bytes) : clientRead [] req = (.timeout, []) := by
  simp [clientRead, readLine, cutLine]

end Gallia.VEcuConn
