import Gallia.Model.SessionScan
/-
  C09: the final classification of the session scan (stable sort by session, first entry of every run) and the
  executable specification `reachSet`.
-/
namespace Gallia.SessionScan

theorem mem_insertBy {α} (key : α → Nat) (x y : α) (l : List α) : y ∈ insertBy key x l ↔ y = x ∨ y ∈ l := by
  induction l with
  | nil => simp [insertBy]
  | cons z zs ih =>
    unfold insertBy
    split
    · simp only [List.mem_cons, ih]
      constructor
      · rintro (h | h | h)
        · exact Or.inr (Or.inl h)
        · exact Or.inl h
        · exact Or.inr (Or.inr h)
      · rintro (h | h | h)
        · exact Or.inr (Or.inl h)
        · exact Or.inl h
        · exact Or.inr (Or.inr h)
    · simp only [List.mem_cons]

theorem mem_foldl_insertBy {α} (key : α → Nat) (y : α) (L init : List α) :
    y ∈ L.foldl (fun acc x => insertBy key x acc) init ↔ y ∈ L ∨ y ∈ init := by
  induction L generalizing init with
  | nil => simp
  | cons x L ih =>
    rw [List.foldl_cons, ih, mem_insertBy, List.mem_cons]
    constructor
    · rintro (h | h | h)
      · exact Or.inl (Or.inr h)
      · exact Or.inl (Or.inl h)
      · exact Or.inr h
    · rintro ((h | h) | h)
      · exact Or.inr (Or.inl h)
      · exact Or.inl h
      · exact Or.inr (Or.inr h)

theorem mem_sortBy {α} (key : α → Nat) (y : α) (l : List α) : y ∈ sortBy key l ↔ y ∈ l := by
  unfold sortBy
  rw [mem_foldl_insertBy]
  simp

theorem firstOfRuns_sub {α} (key : α → Nat) (prev : Option Nat) (l : List α) (y : α)
    (h : y ∈ firstOfRuns key prev l) : y ∈ l := by
  induction l generalizing prev with
  | nil => cases h
  | cons x xs ih =>
    unfold firstOfRuns at h
    split at h
    · exact List.mem_cons_of_mem _ (ih _ h)
    · rcases List.mem_cons.1 h with h | h
      · rw [h]; exact List.mem_cons_self ..
      · exact List.mem_cons_of_mem _ (ih _ h)

/-- no key is lost: every key of the input is the key of a kept entry (or the key already being skipped) -/
theorem firstOfRuns_keys {α} (key : α → Nat) (prev : Option Nat) (l : List α) (k : Nat)
    (h : ∃ x ∈ l, key x = k) : prev = some k ∨ ∃ y ∈ firstOfRuns key prev l, key y = k := by
  induction l generalizing prev with
  | nil => obtain ⟨x, hx, _⟩ := h; cases hx
  | cons x xs ih =>
    obtain ⟨w, hw, hk⟩ := h
    unfold firstOfRuns
    split
    · rename_i hp
      rcases List.mem_cons.1 hw with h1 | h1
      · left; rw [hp, ← h1, hk]
      · exact ih prev ⟨w, h1, hk⟩
    · rcases List.mem_cons.1 hw with h1 | h1
      · right; exact ⟨x, List.mem_cons_self .., by rw [← h1]; exact hk⟩
      · rcases ih (some (key x)) ⟨w, h1, hk⟩ with h2 | ⟨y, hy, hyk⟩
        · right
          refine ⟨x, List.mem_cons_self .., ?_⟩
          simpa using h2
        · right; exact ⟨y, List.mem_cons_of_mem _ hy, hyk⟩

theorem mem_transitions {st : St} {e : Sess × List Sess} (h : e ∈ transitions st) :
    st.aborted = false ∧ e ∈ st.pos := by
  unfold transitions at h
  split at h
  · cases h
  · rename_i hab
    exact ⟨by simpa using hab, (mem_sortBy _ _ _).1 (firstOfRuns_sub _ _ _ _ h)⟩

theorem mem_result_iff (st : St) (s : Sess) :
    s ∈ result st ↔ st.aborted = false ∧ ∃ σ, (s, σ) ∈ st.pos := by
  constructor
  · intro h
    simp only [result, List.mem_map] at h
    obtain ⟨e, he, rfl⟩ := h
    obtain ⟨a, b⟩ := mem_transitions he
    exact ⟨a, e.2, b⟩
  · rintro ⟨hab, σ, hσ⟩
    have : ∃ x ∈ sortBy (fun e : Sess × List Sess => e.1) st.pos, x.1 = s :=
      ⟨(s, σ), (mem_sortBy _ _ _).2 hσ, rfl⟩
    rcases firstOfRuns_keys (fun e : Sess × List Sess => e.1) none _ s this with h | ⟨y, hy, hk⟩
    · cases h
    · simp only [result, List.mem_map]
      refine ⟨y, ?_, hk⟩
      unfold transitions
      rw [if_neg (by simp [hab])]
      exact hy

/-! ### the executable specification -/

theorem mem_reachLevel (g : Sess → Sess → Ans) (skip : List Sess) (k : Nat) (u : Sess) :
    u ∈ reachLevel g skip k ↔ ReachIn g skip k u := by
  induction k generalizing u with
  | zero =>
    simp only [reachLevel, List.mem_singleton]
    constructor
    · rintro rfl; exact .zero
    · intro h; cases h; rfl
  | succ k ih =>
    simp only [reachLevel, List.mem_filter, Bool.and_eq_true, decide_eq_true_eq, List.any_eq_true, beq_iff_eq]
    constructor
    · rintro ⟨hs, hk, p, hp, hg⟩
      exact .step ((ih p).1 hp) hg hk hs
    · intro h
      cases h with
      | step hr hg hk hs => exact ⟨hs, hk, _, (ih _).2 hr, hg⟩

theorem reachIn_mem_sessions {g : Sess → Sess → Ans} {skip : List Sess} {k : Nat} {u : Sess}
    (h : ReachIn g skip (k + 1) u) : u ∈ sessions := by
  cases h with
  | step _ _ _ hs => exact hs

theorem mem_reachSet (g : Sess → Sess → Ans) (skip : List Sess) (d : Nat) (u : Sess) :
    u ∈ reachSet g skip d ↔ ReachWithin g skip u d := by
  simp only [reachSet, List.mem_filter, List.any_eq_true, List.mem_map, List.mem_range, List.contains_iff_mem]
  constructor
  · rintro ⟨_, l, ⟨k, hk, rfl⟩, hu⟩
    exact ⟨k + 1, by omega, by omega, (mem_reachLevel g skip (k + 1) u).1 hu⟩
  · rintro ⟨k, h1, h2, hr⟩
    obtain ⟨k', rfl⟩ : ∃ k', k = k' + 1 := ⟨k - 1, by omega⟩
    exact ⟨reachIn_mem_sessions hr, _, ⟨k', by omega, rfl⟩, (mem_reachLevel g skip (k' + 1) u).2 hr⟩

end Gallia.SessionScan
