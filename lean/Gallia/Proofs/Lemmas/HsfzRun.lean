import Gallia.Proofs.Lemmas.HsfzOrder
/-
  Helper lemmas for C07 (HSFZ): a write waiting for its ack over an arbitrary continuation of the execution
  (`ack_run`), on top of `settle_ackWait` (one `settle`, every schedule).
-/
namespace Gallia.Hsfz
open Gallia Gallia.Framing

variable (cfg : Cfg) (yields : Wire → Bool)

/-! ### the first item that decides an ack wait -/

/-- an item that ends a wait with acceptance test `m`: a frame passing the test, or a bare control word -/
def decides (m : Item → Bool) (x : Item) : Bool := !x.isFrame || m x

theorem scan_of_find_none (m : Item → Bool) (sk q : List Item) (h : q.find? (decides m) = none) :
    scan m sk q = .more (sk ++ q) := by
  apply scan_more
  intro y hy
  have := List.find?_eq_none.mp h y hy
  simp only [decides, Bool.or_eq_true, Bool.not_eq_true', not_or, Bool.not_eq_false, Bool.not_eq_true] at this
  exact this

theorem scan_of_find_some (m : Item → Bool) (sk q : List Item) (x : Item) (h : q.find? (decides m) = some x) :
    (∀ cw s t d, x = .frame cw s t d → ∃ rest sk', scan m sk q = .hit x rest sk') ∧
    (∀ cw, x = .word cw → ∃ rest sk', scan m sk q = .err cw rest sk') := by
  induction q generalizing sk with
  | nil => simp at h
  | cons y q ih =>
    rw [List.find?_cons] at h
    cases y with
    | word cw =>
      have hd : decides m (.word cw) = true := by simp [decides, Item.isFrame]
      rw [hd] at h
      simp only [Option.some.injEq] at h
      subst h
      refine ⟨fun cw' s t d e => (by cases e), fun cw' e => ?_⟩
      cases e
      exact ⟨q, sk, by simp [scan]⟩
    | frame cw s t d =>
      cases hm : m (.frame cw s t d) with
      | true =>
        have hd : decides m (.frame cw s t d) = true := by simp [decides, hm]
        rw [hd] at h
        simp only [Option.some.injEq] at h
        subst h
        refine ⟨fun cw' s' t' d' _ => ⟨q, sk, by simp [scan, hm]⟩, fun cw' e => by cases e⟩
      | false =>
        have hd : decides m (.frame cw s t d) = false := by simp [decides, Item.isFrame, hm]
        rw [hd] at h
        obtain ⟨i1, i2⟩ := ih (sk ++ [.frame cw s t d]) h
        refine ⟨fun cw' s' t' d' e => ?_, fun cw' e => ?_⟩
        · obtain ⟨rest, sk', e2⟩ := i1 cw' s' t' d' e
          exact ⟨rest, sk', by simp only [scan, hm]; exact e2⟩
        · obtain ⟨rest, sk', e2⟩ := i2 cw' e
          exact ⟨rest, sk', by simp only [scan, hm]; exact e2⟩

/-! ### what `settle` leaves alone -/

theorem settle_eof (s : Sys) : (settle cfg yields s).eof = s.eof := by
  generalize hn : s.buf.length = n
  induction n using Nat.strongRecOn generalizing s with
  | _ n ih =>
    by_cases ho : (s.closed || s.eof) = true
    · rw [settle_stopped cfg yields s ho]
    · have ho : (s.closed || s.eof) = false := by simpa using ho
      cases hc : cutWire s.buf with
      | none => rw [settle_none cfg yields s ho hc, clientRun_eof]
      | some p =>
        obtain ⟨w, rest⟩ := p
        have hl := cutWire_shrinks hc
        rw [settle_some cfg yields s ho hc]
        split
        · rw [ih _ (by rw [← hn]; exact hl) _ (by simp), clientRun_eof, deliver_eof]
        · rw [ih _ (by rw [← hn]; exact hl) _ (by simp), deliver_eof]

theorem settle_now (s : Sys) : (settle cfg yields s).now = s.now := by
  generalize hn : s.buf.length = n
  induction n using Nat.strongRecOn generalizing s with
  | _ n ih =>
    by_cases ho : (s.closed || s.eof) = true
    · rw [settle_stopped cfg yields s ho]
    · have ho : (s.closed || s.eof) = false := by simpa using ho
      cases hc : cutWire s.buf with
      | none => rw [settle_none cfg yields s ho hc, clientRun_now]
      | some p =>
        obtain ⟨w, rest⟩ := p
        have hl := cutWire_shrinks hc
        rw [settle_some cfg yields s ho hc]
        split
        · rw [ih _ (by rw [← hn]; exact hl) _ (by simp), clientRun_now, deliver_now]
        · rw [ih _ (by rw [← hn]; exact hl) _ (by simp), deliver_now]

/-- the consumer's run either ends the pending operation or leaves it blocked with the queue drained and the
    connection as open as before -/
theorem clientRun_shape (s : Sys) :
    (clientRun cfg s).client = .idle ∨
    ((clientRun cfg s).queue = [] ∧ (clientRun cfg s).closed = s.closed ∧ s.client ≠ .idle) := by
  cases hcl : s.client with
  | idle => left; rw [clientRun_idle cfg s hcl]; exact hcl
  | ackWait prev sk a c =>
    cases hs : scan (ackMatches cfg prev) sk s.queue with
    | more sk' => right; rw [clientRun_ack_more cfg hcl hs]; exact ⟨rfl, rfl, by simp⟩
    | hit x rest sk' => left; rw [clientRun_ack_hit cfg hcl hs]; rfl
    | err cw rest sk' => left; rw [clientRun_ack_err cfg hcl hs]; rfl
  | reading sk c =>
    cases hs : scan (dataMatches cfg) sk s.queue with
    | more sk' => right; rw [clientRun_read_more cfg hcl hs]; exact ⟨rfl, rfl, by simp⟩
    | hit x rest sk' => left; rw [clientRun_read_hit cfg hcl hs]; rfl
    | err cw rest sk' => left; rw [clientRun_read_err cfg hcl hs]; rfl

/-! ### state invariant -/

/-- between two events: an open connection whose stream has not ended has parsed every complete frame; a pending
    operation means the connection is open, the stream has not ended and the queue is drained -/
structure HInv (s : Sys) : Prop where
  quiet : (s.closed || s.eof) = false → cutWire s.buf = none
  busy : s.client ≠ .idle → (s.closed || s.eof) = false ∧ s.queue = []

theorem HInv_init : HInv ({} : Sys) := ⟨fun _ => rfl, fun h => absurd rfl h⟩

theorem settle_hinv (s : Sys) (hb : s.client ≠ .idle → (s.closed || s.eof) = false) : HInv (settle cfg yields s) := by
  generalize hn : s.buf.length = n
  induction n using Nat.strongRecOn generalizing s with
  | _ n ih =>
    by_cases ho : (s.closed || s.eof) = true
    · rw [settle_stopped cfg yields s ho]
      refine ⟨fun h => (by rw [ho] at h; cases h), fun h => ?_⟩
      have := hb h; rw [ho] at this; cases this
    · have ho : (s.closed || s.eof) = false := by simpa using ho
      cases hc : cutWire s.buf with
      | none =>
        rw [settle_none cfg yields s ho hc]
        refine ⟨fun _ => by rw [clientRun_buf']; exact hc, fun h => ?_⟩
        rcases clientRun_shape cfg s with hi | ⟨h1, h2, _⟩
        · exact absurd hi h
        · refine ⟨?_, h1⟩
          rw [h2, clientRun_eof]; exact ho
      | some p =>
        obtain ⟨w, rest⟩ := p
        have hl := cutWire_shrinks hc
        have ho1 : ((deliver cfg { s with buf := rest } w).closed || (deliver cfg { s with buf := rest } w).eof) = false := by
          simpa using ho
        rw [settle_some cfg yields s ho hc]
        split
        · apply ih _ (by rw [← hn]; exact hl) _ _ (by simp)
          intro h
          rcases clientRun_shape cfg (deliver cfg { s with buf := rest } w) with hi | ⟨_, h2, _⟩
          · exact absurd hi h
          · rw [h2, clientRun_eof]; exact ho1
        · exact ih _ (by rw [← hn]; exact hl) _ (fun _ => ho1) (by simp)

theorem wake_shape (s : Sys) : (s.eof = true → (wake s).client = .idle) ∧ (s.eof = false → wake s = s) := by
  refine ⟨fun h => ?_, fun h => wake_alive s h⟩
  unfold wake
  simp only [h, if_true]
  split
  · assumption
  · rfl
  · rfl

theorem start_hinv (s : Sys) (h : HInv s) (hc : s.closed = false) (cl : Client) (o : List (Nat × Bytes)) :
    HInv (wake (clientRun cfg { s with out := o, client := cl })) := by
  obtain ⟨s0, hs0⟩ : ∃ s0 : Sys, s0 = { s with out := o, client := cl } := ⟨_, rfl⟩
  rw [← hs0]
  have hb0 : s0.buf = s.buf := by rw [hs0]
  have hc0 : s0.closed = s.closed := by rw [hs0]
  have he0 : s0.eof = s.eof := by rw [hs0]
  cases he : s.eof with
  | true =>
    have h1 := (wake_shape (clientRun cfg s0)).1 (by rw [clientRun_eof, he0]; exact he)
    refine ⟨fun hq => ?_, fun hne => absurd h1 hne⟩
    rw [wake_eof, clientRun_eof, he0, he] at hq; simp at hq
  | false =>
    rw [(wake_shape (clientRun cfg s0)).2 (by rw [clientRun_eof, he0]; exact he)]
    refine ⟨fun hq => ?_, fun hne => ?_⟩
    · rw [clientRun_buf', hb0]
      apply h.quiet
      rw [hc, he]; rfl
    · rcases clientRun_shape cfg s0 with hi | ⟨h1, h2, _⟩
      · exact absurd hi hne
      · exact ⟨by rw [h2, clientRun_eof, hc0, he0, hc, he]; rfl, h1⟩

/-- a timer either does nothing or ends the pending operation; it never opens a closed connection again and touches
    neither the receive buffer nor the end-of-stream flag -/
theorem fire_cases (s : Sys) (target : Nat) :
    fire s target = s ∨
    ((fire s target).client = .idle ∧ (fire s target).buf = s.buf ∧ (fire s target).eof = s.eof ∧
      (s.closed = true → (fire s target).closed = true)) := by
  unfold fire
  cases hcl : s.client with
  | idle => exact Or.inl rfl
  | ackWait prev sk a c =>
    cases c with
    | none =>
      simp only
      split
      · exact Or.inr ⟨rfl, rfl, rfl, fun _ => rfl⟩
      · exact Or.inl rfl
    | some ct =>
      simp only
      split
      · exact Or.inr ⟨rfl, rfl, rfl, fun h => h⟩
      · split
        · exact Or.inr ⟨rfl, rfl, rfl, fun _ => rfl⟩
        · exact Or.inl rfl
  | reading sk c =>
    cases c with
    | none => exact Or.inl rfl
    | some ct =>
      simp only
      split
      · exact Or.inr ⟨rfl, rfl, rfl, fun h => h⟩
      · exact Or.inl rfl

theorem execOp_hinv (s : Sys) (op : Op) (h : HInv s) : HInv (execOp cfg yields s op) := by
  cases op with
  | feed chunk =>
    exact settle_hinv cfg yields _ (fun hne => (h.busy hne).1)
  | write data t =>
    simp only [execOp]
    split
    · exact ⟨h.quiet, h.busy⟩
    · split
      · exact ⟨h.quiet, h.busy⟩
      · rename_i hc
        exact start_hinv cfg s h (by simpa using hc) _ _
  | read t =>
    simp only [execOp]
    split
    · exact ⟨h.quiet, h.busy⟩
    · split
      · exact ⟨h.quiet, h.busy⟩
      · rename_i hc
        have := start_hinv cfg s h (by simpa using hc) (.reading [] (t.map (s.now + ·))) s.out
        exact this
  | advance dt =>
    simp only [execOp]
    rcases fire_cases s (s.now + dt) with e | ⟨hi, hb, he, hcm⟩
    · rw [e]; exact ⟨h.quiet, h.busy⟩
    · refine ⟨fun hq => ?_, fun hne => absurd hi hne⟩
      show cutWire (fire s (s.now + dt)).buf = none
      rw [hb]
      apply h.quiet
      have hq' : ((fire s (s.now + dt)).closed || (fire s (s.now + dt)).eof) = false := hq
      rw [he] at hq'
      cases hcs : s.closed with
      | false => simpa using (Bool.or_eq_false_iff.mp hq').2
      | true => rw [hcm hcs] at hq'; simp at hq'
  | eof =>
    simp only [execOp]
    have h1 := (wake_shape { s with eof := true }).1 rfl
    refine ⟨fun hq => ?_, fun hne => absurd h1 hne⟩
    rw [wake_eof] at hq; simp at hq

theorem exec_hinv (ops : List Op) (s : Sys) (h : HInv s) : HInv (exec cfg yields s ops) := by
  induction ops generalizing s with
  | nil => exact h
  | cons op ops ih =>
    have : exec cfg yields s (op :: ops) = exec cfg yields (execOp cfg yields s op) ops := by simp [exec]
    rw [this]; exact ih _ (execOp_hinv cfg yields s op h)

/-! ### results are only appended, closed is final -/

theorem clientRun_done_ext (s : Sys) : ∃ m, (clientRun cfg s).done = s.done ++ m := by
  unfold clientRun Sys.finish
  split
  · exact ⟨[], by simp⟩
  · split
    · exact ⟨[], by simp⟩
    · exact ⟨_, rfl⟩
    · exact ⟨_, rfl⟩
  · split
    · exact ⟨[], by simp⟩
    · exact ⟨_, rfl⟩
    · exact ⟨_, rfl⟩

theorem clientRun_closed_mono (s : Sys) (h : s.closed = true) : (clientRun cfg s).closed = true := by
  unfold clientRun Sys.finish
  split
  · exact h
  · split
    · exact h
    · exact h
    · rfl
  · split
    · exact h
    · exact h
    · rfl

theorem settle_done_ext (s : Sys) : ∃ m, (settle cfg yields s).done = s.done ++ m := by
  generalize hn : s.buf.length = n
  induction n using Nat.strongRecOn generalizing s with
  | _ n ih =>
    by_cases ho : (s.closed || s.eof) = true
    · rw [settle_stopped cfg yields s ho]; exact ⟨[], by simp⟩
    · have ho : (s.closed || s.eof) = false := by simpa using ho
      cases hc : cutWire s.buf with
      | none => rw [settle_none cfg yields s ho hc]; exact clientRun_done_ext cfg s
      | some p =>
        obtain ⟨w, rest⟩ := p
        have hl := cutWire_shrinks hc
        rw [settle_some cfg yields s ho hc]
        split
        · obtain ⟨m1, h1⟩ := clientRun_done_ext cfg (deliver cfg { s with buf := rest } w)
          obtain ⟨m2, h2⟩ := ih _ (by rw [← hn]; exact hl) (clientRun cfg (deliver cfg { s with buf := rest } w)) (by simp)
          exact ⟨m1 ++ m2, by rw [h2, h1]; simp⟩
        · obtain ⟨m2, h2⟩ := ih _ (by rw [← hn]; exact hl) (deliver cfg { s with buf := rest } w) (by simp)
          exact ⟨m2, by rw [h2]; simp⟩

theorem wake_done_ext (s : Sys) : ∃ m, (wake s).done = s.done ++ m := by
  unfold wake Sys.finish
  split
  · split
    · exact ⟨[], by simp⟩
    · exact ⟨_, rfl⟩
    · exact ⟨_, rfl⟩
  · exact ⟨[], by simp⟩

theorem fire_done_ext (s : Sys) (target : Nat) : ∃ m, (fire s target).done = s.done ++ m := by
  unfold fire Sys.finish
  cases s.client with
  | idle => exact ⟨[], by simp⟩
  | ackWait prev sk a c =>
    cases c with
    | none =>
      simp only
      split
      · exact ⟨_, rfl⟩
      · exact ⟨[], by simp⟩
    | some ct =>
      simp only
      split
      · exact ⟨_, rfl⟩
      · split
        · exact ⟨_, rfl⟩
        · exact ⟨[], by simp⟩
  | reading sk c =>
    cases c with
    | none => exact ⟨[], by simp⟩
    | some ct =>
      simp only
      split
      · exact ⟨_, rfl⟩
      · exact ⟨[], by simp⟩

theorem start_done_ext (s0 : Sys) : ∃ m, (wake (clientRun cfg s0)).done = s0.done ++ m := by
  obtain ⟨m1, h1⟩ := clientRun_done_ext cfg s0
  obtain ⟨m2, h2⟩ := wake_done_ext (clientRun cfg s0)
  exact ⟨m1 ++ m2, by rw [h2, h1]; simp⟩

theorem execOp_done_ext (s : Sys) (op : Op) : ∃ m, (execOp cfg yields s op).done = s.done ++ m := by
  cases op with
  | feed chunk => exact settle_done_ext cfg yields _
  | write data t =>
    simp only [execOp]
    split
    · exact ⟨_, rfl⟩
    · split
      · exact ⟨_, rfl⟩
      · exact start_done_ext cfg _
  | read t =>
    simp only [execOp]
    split
    · exact ⟨_, rfl⟩
    · split
      · exact ⟨_, rfl⟩
      · exact start_done_ext cfg _
  | advance dt =>
    obtain ⟨m, h⟩ := fire_done_ext s (s.now + dt)
    exact ⟨m, h⟩
  | eof =>
    obtain ⟨m, h⟩ := wake_done_ext { s with eof := true }
    exact ⟨m, h⟩

theorem exec_done_ext (ops : List Op) (s : Sys) : ∃ m, (exec cfg yields s ops).done = s.done ++ m := by
  induction ops generalizing s with
  | nil => exact ⟨[], by simp [exec]⟩
  | cons op ops ih =>
    have : exec cfg yields s (op :: ops) = exec cfg yields (execOp cfg yields s op) ops := by simp [exec]
    rw [this]
    obtain ⟨m1, h1⟩ := execOp_done_ext cfg yields s op
    obtain ⟨m2, h2⟩ := ih (execOp cfg yields s op)
    exact ⟨m1 ++ m2, by rw [h2, h1]; simp⟩

theorem execOp_closed_mono (s : Sys) (op : Op) (h : s.closed = true) : (execOp cfg yields s op).closed = true := by
  cases op with
  | feed chunk =>
    simp only [execOp]
    rw [settle_stopped]
    · exact h
    · simp [h]
  | write data t =>
    simp only [execOp, h, if_true]
    split <;> rfl
  | read t =>
    simp only [execOp, h, if_true]
    split <;> rfl
  | advance dt =>
    rcases fire_cases s (s.now + dt) with e | ⟨_, _, _, hcm⟩
    · show (fire s (s.now + dt)).closed = true
      rw [e]; exact h
    · exact hcm h
  | eof =>
    show (wake { s with eof := true }).closed = true
    rw [wake_closed]; exact h

theorem exec_closed_mono (ops : List Op) (s : Sys) (h : s.closed = true) : (exec cfg yields s ops).closed = true := by
  induction ops generalizing s with
  | nil => exact h
  | cons op ops ih =>
    have : exec cfg yields s (op :: ops) = exec cfg yields (execOp cfg yields s op) ops := by simp [exec]
    rw [this]; exact ih _ (execOp_closed_mono cfg yields s op h)

/-! ### a write waiting for its ack over an arbitrary continuation -/

/-- the items the reader task queues while `ops` happen, each with the instant it is queued - determined by the byte
    stream alone -/
def hlog (buf : Bytes) (now : Nat) : List Op → List (Nat × Item)
  | [] => []
  | .feed chunk :: ops =>
    (items (parseAll hsfzCutter (buf ++ chunk)).1).map (fun x => (now, x)) ++
      hlog (parseAll hsfzCutter (buf ++ chunk)).2 now ops
  | .advance dt :: ops => hlog buf (now + dt) ops
  | .write _ _ :: ops => hlog buf now ops
  | .read _ :: ops => hlog buf now ops
  | .eof :: ops => hlog buf now ops

/-- a continuation made of gateway bytes and passing time only: what can happen while the one client task is blocked
    in its write (the end of the stream is C08's subject) -/
def gatewayOnly : List Op → Prop
  | [] => True
  | .feed _ :: ops => gatewayOnly ops
  | .advance _ :: ops => gatewayOnly ops
  | .write _ _ :: _ => False
  | .read _ :: _ => False
  | .eof :: _ => False

def decGatewayOnly : (ops : List Op) → Decidable (gatewayOnly ops)
  | [] => isTrue trivial
  | .feed _ :: ops => decGatewayOnly ops
  | .advance _ :: ops => decGatewayOnly ops
  | .write _ _ :: _ => isFalse (fun h => h)
  | .read _ :: _ => isFalse (fun h => h)
  | .eof :: _ => isFalse (fun h => h)

instance (ops : List Op) : Decidable (gatewayOnly ops) := decGatewayOnly ops

def hnow (now : Nat) : List Op → Nat
  | [] => now
  | .advance dt :: ops => hnow (now + dt) ops
  | .feed _ :: ops => hnow now ops
  | .write _ _ :: ops => hnow now ops
  | .read _ :: ops => hnow now ops
  | .eof :: ops => hnow now ops

/-- which timer of a waiting write expires first: (absolute time, is it the caller's) - the caller's wins a tie -/
def ackExpiry (a : Nat) (c : Option Nat) : Nat × Bool :=
  match c with
  | some ct => if ct ≤ a then (ct, true) else (a, false)
  | none => (a, false)

/-- how a write ends when item `x` decides its wait: a matching ack completes it, a bare control word fails it -/
def ackResult (prev : Bytes) : Item → Res
  | .frame .. => .wrote prev.length
  | .word cw => .errWord cw

theorem hnow_ge (now : Nat) (ops : List Op) : now ≤ hnow now ops := by
  induction ops generalizing now with
  | nil => exact Nat.le_refl _
  | cons op ops ih =>
    cases op <;> simp only [hnow] <;> first | exact ih _ | exact Nat.le_trans (Nat.le_add_right _ _) (ih _)

theorem hlog_times (buf : Bytes) (now : Nat) (ops : List Op) : ∀ x ∈ hlog buf now ops, now ≤ x.1 := by
  induction ops generalizing buf now with
  | nil => intro x hx; simp [hlog] at hx
  | cons op ops ih =>
    cases op with
    | feed chunk =>
      intro x hx
      simp only [hlog, List.mem_append, List.mem_map] at hx
      rcases hx with ⟨f, _, rfl⟩ | hx
      · exact Nat.le_refl _
      · exact ih _ _ x hx
    | advance dt => intro x hx; exact Nat.le_trans (Nat.le_add_right _ _) (ih _ _ x hx)
    | write d t => intro x hx; exact ih _ _ x hx
    | read t => intro x hx; exact ih _ _ x hx
    | eof => intro x hx; exact ih _ _ x hx

theorem fire_ack {s : Sys} {prev : Bytes} {sk : List Item} {a : Nat} {c : Option Nat}
    (hcl : s.client = .ackWait prev sk a c) (target : Nat) :
    fire s target =
      if (ackExpiry a c).1 ≤ target then
        { s with now := (ackExpiry a c).1, queue := sk ++ s.queue, closed := s.closed || !(ackExpiry a c).2,
                 client := .idle,
                 done := s.done ++ [((ackExpiry a c).1, if (ackExpiry a c).2 then .timeout else .noAck)] }
      else s := by
  unfold fire
  rw [hcl]
  cases c with
  | none =>
    simp only [ackExpiry]
    by_cases h : a ≤ target <;> simp [h, Sys.finish]
  | some ct =>
    simp only [ackExpiry]
    by_cases h1 : ct ≤ a
    · by_cases h2 : ct ≤ target
      · simp [h1, h2, Sys.finish]
      · have h3 : ¬ a ≤ target := by omega
        simp [h1, h2, h3]
    · by_cases h2 : a ≤ target <;> simp [h1, h2, Sys.finish]

theorem settle_buf_open (s : Sys) (ho : (s.closed || s.eof) = false) (hc : (settle cfg yields s).closed = false) :
    (settle cfg yields s).buf = (parseAll hsfzCutter s.buf).2 := by
  generalize hn : s.buf.length = n
  induction n using Nat.strongRecOn generalizing s with
  | _ n ih =>
    cases hcut : cutWire s.buf with
    | none =>
      rw [settle_none cfg yields s ho hcut, clientRun_buf', parseAll_none hsfzCutter (by simpa [hsfzCutter] using hcut)]
    | some p =>
      obtain ⟨w, rest⟩ := p
      have hl := cutWire_shrinks hcut
      have ho1 : ((deliver cfg { s with buf := rest } w).closed || (deliver cfg { s with buf := rest } w).eof) = false := by
        simpa using ho
      rw [settle_some cfg yields s ho hcut] at hc ⊢
      rw [parseAll_some hsfzCutter (by simpa [hsfzCutter] using hcut)]
      split at hc
      · rename_i hy
        rw [if_pos hy]
        by_cases hst : ((clientRun cfg (deliver cfg { s with buf := rest } w)).closed ||
            (clientRun cfg (deliver cfg { s with buf := rest } w)).eof) = true
        · rw [settle_stopped cfg yields _ hst] at hc
          have he : s.eof = false := (Bool.or_eq_false_iff.mp ho).2
          have e1 : (clientRun cfg (deliver cfg { s with buf := rest } w)).eof = false := by
            rw [clientRun_eof, deliver_eof]; exact he
          rw [hc, e1] at hst
          cases hst
        · have := ih _ (by rw [← hn]; exact hl) (clientRun cfg (deliver cfg { s with buf := rest } w))
            (by simpa using hst) hc (by simp)
          simpa using this
      · rename_i hy
        rw [if_neg hy]
        have := ih _ (by rw [← hn]; exact hl) (deliver cfg { s with buf := rest } w) ho1 hc (by simp)
        simpa using this

/-- the state right after a write has put its request on the wire and before it looks at the queue -/
def writeStart (cfg : Cfg) (s : Sys) (data : Bytes) (tmo : Option Nat) : Sys :=
  { s with
    out := s.out ++ [(s.now, requestBytes cfg data)]
    client := .ackWait data [] (s.now + cfg.ackTimeout) (tmo.map (s.now + ·)) }

/-- **a write waiting for its ack over any continuation.**  `s`: any state between two events with a write blocked and
    its timers not yet due; `ops`: any continuation of gateway bytes (any segmentation) and passing time; `rest`:
    whatever happens afterwards.  For every schedule: the write ends with the first item that decides its wait - a
    matching ack, or a bare control word - among those the byte stream delivers strictly before its timers expire, at
    the instant that item is queued; if there is none it ends exactly at the expiry (caller's `TimeoutError`, or
    "no ack" with the connection closed for good); until then it is still blocked, holding everything that arrived. -/
theorem ack_run (ops : List Op) (s : Sys) (prev : Bytes) (sk : List Item) (a : Nat) (c : Option Nat)
    (hinv : HInv s) (hcl : s.client = .ackWait prev sk a c) (hlt : s.now < (ackExpiry a c).1)
    (hsafe : gatewayOnly ops) :
    (∀ t x, ((hlog s.buf s.now ops).filter (fun e => decide (e.1 < (ackExpiry a c).1))).find?
          (fun e => decides (ackMatches cfg prev) e.2) = some (t, x) →
        ∀ rest, ∃ more, (exec cfg yields (exec cfg yields s ops) rest).done = s.done ++ (t, ackResult prev x) :: more ∧
          (x.isFrame = false → (exec cfg yields (exec cfg yields s ops) rest).closed = true)) ∧
    (((hlog s.buf s.now ops).filter (fun e => decide (e.1 < (ackExpiry a c).1))).find?
          (fun e => decides (ackMatches cfg prev) e.2) = none → (ackExpiry a c).1 ≤ hnow s.now ops →
        ∀ rest, ∃ more, (exec cfg yields (exec cfg yields s ops) rest).done =
            s.done ++ ((ackExpiry a c).1, if (ackExpiry a c).2 then .timeout else .noAck) :: more ∧
          ((ackExpiry a c).2 = false → (exec cfg yields (exec cfg yields s ops) rest).closed = true)) ∧
    (((hlog s.buf s.now ops).filter (fun e => decide (e.1 < (ackExpiry a c).1))).find?
          (fun e => decides (ackMatches cfg prev) e.2) = none → hnow s.now ops < (ackExpiry a c).1 →
        (exec cfg yields s ops).client = .ackWait prev (sk ++ (hlog s.buf s.now ops).map (·.2)) a c ∧
        (exec cfg yields s ops).done = s.done ∧
        ((exec cfg yields s ops).closed || (exec cfg yields s ops).eof) = false) := by
  have excons : ∀ (s : Sys) (op : Op) (ops : List Op),
      exec cfg yields s (op :: ops) = exec cfg yields (execOp cfg yields s op) ops := by
    intro s op ops; simp [exec]
  induction ops generalizing s sk with
  | nil =>
    refine ⟨fun t x h => by simp [hlog] at h, fun _ hd => ?_, fun _ _ => ?_⟩
    · simp only [hnow] at hd; omega
    · have := hinv.busy (by rw [hcl]; simp)
      simp [exec, hlog, hcl, this.1]
  | cons op ops ih =>
    rw [excons]
    cases op with
    | write d t => exact hsafe.elim
    | read t => exact hsafe.elim
    | eof => exact hsafe.elim
    | feed chunk =>
      obtain ⟨ho, hq⟩ := hinv.busy (by rw [hcl]; simp)
      obtain ⟨s0, hs0⟩ : ∃ s0 : Sys, s0 = { s with buf := s.buf ++ chunk } := ⟨_, rfl⟩
      have ho0 : (s0.closed || s0.eof) = false := by rw [hs0]; exact ho
      have hcl0 : s0.client = .ackWait prev sk a c := by rw [hs0]; exact hcl
      have hS : execOp cfg yields s (.feed chunk) = settle cfg yields s0 := by rw [hs0]; rfl
      have key := settle_ackWait cfg yields s0 prev sk a c ho0 hcl0
      have hpend : pend s0 = items (parseAll hsfzCutter (s.buf ++ chunk)).1 := by
        rw [hs0]; simp [pend, hq]
      rw [hpend] at key
      have hd0 : s0.done = s.done := by rw [hs0]
      have hn0 : s0.now = s.now := by rw [hs0]
      rw [hd0, hn0] at key
      have hinv1 : HInv (settle cfg yields s0) := by rw [← hS]; exact execOp_hinv cfg yields s _ hinv
      rw [hS]
      simp only [hlog, hnow, List.filter_append, List.find?_append]
      have hvis : ((items (parseAll hsfzCutter (s.buf ++ chunk)).1).map (fun x => (s.now, x))).filter
            (fun e => decide (e.1 < (ackExpiry a c).1)) =
          (items (parseAll hsfzCutter (s.buf ++ chunk)).1).map (fun x => (s.now, x)) := by
        rw [List.filter_eq_self]
        intro x hx
        simp only [List.mem_map] at hx
        obtain ⟨f, _, rfl⟩ := hx
        simpa using hlt
      have hfind : ((items (parseAll hsfzCutter (s.buf ++ chunk)).1).map (fun x => (s.now, x))).find?
            (fun e => decides (ackMatches cfg prev) e.2) =
          ((items (parseAll hsfzCutter (s.buf ++ chunk)).1).find? (decides (ackMatches cfg prev))).map
            (fun x => (s.now, x)) := by
        rw [List.find?_map]; rfl
      rw [hvis, hfind]
      cases hf : (items (parseAll hsfzCutter (s.buf ++ chunk)).1).find? (decides (ackMatches cfg prev)) with
      | some x =>
        obtain ⟨f1, f2⟩ := scan_of_find_some (ackMatches cfg prev) sk _ x hf
        refine ⟨fun t x' h rest => ?_, fun h => by simp at h, fun h => by simp at h⟩
        simp at h
        obtain ⟨ht, hx⟩ := h
        subst ht hx
        obtain ⟨m1, hm1⟩ := exec_done_ext cfg yields ops (settle cfg yields s0)
        obtain ⟨m2, hm2⟩ := exec_done_ext cfg yields rest (exec cfg yields (settle cfg yields s0) ops)
        cases x with
        | frame cw s' t' d' =>
          obtain ⟨r, sk', hsc⟩ := f1 cw s' t' d' rfl
          rw [hsc] at key
          exact ⟨m1 ++ m2, by rw [hm2, hm1, key.2.1]; simp [ackResult], fun h => by simp [Item.isFrame] at h⟩
        | word cw =>
          obtain ⟨r, sk', hsc⟩ := f2 cw rfl
          rw [hsc] at key
          refine ⟨m1 ++ m2, by rw [hm2, hm1, key.2.1]; simp [ackResult], fun _ => ?_⟩
          exact exec_closed_mono cfg yields rest _ (exec_closed_mono cfg yields ops _ key.2.2)
      | none =>
        rw [scan_of_find_none _ sk _ hf] at key
        obtain ⟨k1, k2, k3, k4⟩ := key
        have he1 : (settle cfg yields s0).eof = false := by
          rw [settle_eof, hs0]; exact (Bool.or_eq_false_iff.mp ho).2
        have hb1 : (settle cfg yields s0).buf = (parseAll hsfzCutter (s.buf ++ chunk)).2 := by
          rw [settle_buf_open cfg yields s0 ho0 k4, hs0]
        have hn1 : (settle cfg yields s0).now = s.now := by rw [settle_now, hs0]
        have := ih (settle cfg yields s0) (sk ++ items (parseAll hsfzCutter (s.buf ++ chunk)).1) hinv1 k1
          (by rw [hn1]; exact hlt) hsafe
        rw [hb1, hn1, k3] at this
        simp only [Option.map_none, Option.none_or]
        obtain ⟨j1, j2, j3⟩ := this
        refine ⟨j1, j2, fun h hnd => ?_⟩
        obtain ⟨a1, a2, a3⟩ := j3 h hnd
        refine ⟨?_, a2, a3⟩
        rw [a1]
        simp [List.map_append, List.map_map, Function.comp_def, List.append_assoc]
    | advance dt =>
      have hS : execOp cfg yields s (.advance dt) = { fire s (s.now + dt) with now := s.now + dt } := rfl
      by_cases hdue : (ackExpiry a c).1 ≤ s.now + dt
      · obtain ⟨S1, hS1⟩ : ∃ S1 : Sys, S1 = execOp cfg yields s (.advance dt) := ⟨_, rfl⟩
        have hd1 : S1.done = s.done ++ [((ackExpiry a c).1, if (ackExpiry a c).2 then Res.timeout else Res.noAck)] := by
          rw [hS1, hS, fire_ack hcl, if_pos hdue]
        have hc1 : S1.closed = (s.closed || !(ackExpiry a c).2) := by
          rw [hS1, hS, fire_ack hcl, if_pos hdue]
        have hempty : ((hlog s.buf s.now (.advance dt :: ops)).filter
            (fun e => decide (e.1 < (ackExpiry a c).1))) = [] := by
          rw [List.filter_eq_nil_iff]
          intro x hx
          have := hlog_times s.buf (s.now + dt) ops x hx
          simp; omega
        rw [← hS1, hempty]
        refine ⟨fun t x h => by simp at h, fun _ _ rest => ?_, fun _ hnd => ?_⟩
        · obtain ⟨m1, hm1⟩ := exec_done_ext cfg yields ops S1
          obtain ⟨m2, hm2⟩ := exec_done_ext cfg yields rest (exec cfg yields S1 ops)
          refine ⟨m1 ++ m2, by rw [hm2, hm1, hd1]; simp, fun hb => ?_⟩
          apply exec_closed_mono cfg yields rest
          apply exec_closed_mono cfg yields ops
          rw [hc1, hb]; simp
        · have := hnow_ge (s.now + dt) ops
          simp only [hnow] at hnd
          omega
      · rw [hS, fire_ack hcl, if_neg hdue]
        have hinv2 : HInv { s with now := s.now + dt } := ⟨hinv.quiet, hinv.busy⟩
        have := ih { s with now := s.now + dt } sk hinv2 hcl (by show s.now + dt < _; omega) hsafe
        simpa only [hlog, hnow] using this

theorem write_start_eq (s : Sys) (data : Bytes) (tmo : Option Nat) (hidle : s.client = .idle)
    (hopen : s.closed = false) (hlive : s.eof = false) :
    execOp cfg yields s (.write data tmo) = clientRun cfg (writeStart cfg s data tmo) := by
  have e : execOp cfg yields s (.write data tmo) = wake (clientRun cfg (writeStart cfg s data tmo)) := by
    simp [execOp, hidle, isIdle, hopen, writeStart]
  rw [e, wake_alive]
  rw [clientRun_eof]; exact hlive

theorem ackExpiry_start (now T : Nat) (tmo : Option Nat) (hT : 0 < T) (htmo : tmo ≠ some 0) :
    now < (ackExpiry (now + T) (tmo.map (now + ·))).1 := by
  cases tmo with
  | none => simp [ackExpiry]; omega
  | some t =>
    have : t ≠ 0 := fun h => htmo (by rw [h])
    simp only [ackExpiry, Option.map_some]
    split <;> simp <;> omega

/-- **a write from its start over any continuation** (see `hsfz_write_outcomes`) -/
theorem write_run (s : Sys) (hinv : HInv s) (hidle : s.client = .idle) (hopen : s.closed = false)
    (hlive : s.eof = false) (data : Bytes) (tmo : Option Nat) (htmo : tmo ≠ some 0) (hack : 0 < cfg.ackTimeout)
    (ops : List Op) (hsafe : gatewayOnly ops) (d : Nat) (byC : Bool)
    (hd : (d, byC) = ackExpiry (s.now + cfg.ackTimeout) (tmo.map (s.now + ·))) :
    (∀ t x, (s.queue.map (fun x => (s.now, x)) ++ (hlog s.buf s.now ops).filter (fun e => decide (e.1 < d))).find?
          (fun e => decides (ackMatches cfg data) e.2) = some (t, x) →
        ∀ rest, ∃ more, (exec cfg yields (exec cfg yields (execOp cfg yields s (.write data tmo)) ops) rest).done =
            s.done ++ (t, ackResult data x) :: more ∧
          (x.isFrame = false →
            (exec cfg yields (exec cfg yields (execOp cfg yields s (.write data tmo)) ops) rest).closed = true)) ∧
    ((s.queue.map (fun x => (s.now, x)) ++ (hlog s.buf s.now ops).filter (fun e => decide (e.1 < d))).find?
          (fun e => decides (ackMatches cfg data) e.2) = none → d ≤ hnow s.now ops →
        ∀ rest, ∃ more, (exec cfg yields (exec cfg yields (execOp cfg yields s (.write data tmo)) ops) rest).done =
            s.done ++ (d, if byC then .timeout else .noAck) :: more ∧
          (byC = false →
            (exec cfg yields (exec cfg yields (execOp cfg yields s (.write data tmo)) ops) rest).closed = true)) ∧
    ((s.queue.map (fun x => (s.now, x)) ++ (hlog s.buf s.now ops).filter (fun e => decide (e.1 < d))).find?
          (fun e => decides (ackMatches cfg data) e.2) = none → hnow s.now ops < d →
        (exec cfg yields (execOp cfg yields s (.write data tmo)) ops).client =
          .ackWait data (s.queue ++ (hlog s.buf s.now ops).map (·.2)) (s.now + cfg.ackTimeout) (tmo.map (s.now + ·)) ∧
        (exec cfg yields (execOp cfg yields s (.write data tmo)) ops).done = s.done ∧
        ((exec cfg yields (execOp cfg yields s (.write data tmo)) ops).closed ||
          (exec cfg yields (execOp cfg yields s (.write data tmo)) ops).eof) = false) := by
  have hdd : d = (ackExpiry (s.now + cfg.ackTimeout) (tmo.map (s.now + ·))).1 := by rw [← hd]
  have hbb : byC = (ackExpiry (s.now + cfg.ackTimeout) (tmo.map (s.now + ·))).2 := by rw [← hd]
  have hlt : s.now < d := by rw [hdd]; exact ackExpiry_start s.now cfg.ackTimeout tmo hack htmo
  have hinv1 : HInv (execOp cfg yields s (.write data tmo)) := execOp_hinv cfg yields s _ hinv
  rw [write_start_eq cfg yields s data tmo hidle hopen hlive] at hinv1 ⊢
  obtain ⟨s0, hs0⟩ : ∃ s0 : Sys, s0 = writeStart cfg s data tmo := ⟨_, rfl⟩
  rw [← hs0] at hinv1 ⊢
  have hcl0 : s0.client = .ackWait data [] (s.now + cfg.ackTimeout) (tmo.map (s.now + ·)) := by rw [hs0]; rfl
  have hq0 : s0.queue = s.queue := by rw [hs0]; rfl
  have hd0 : s0.done = s.done := by rw [hs0]; rfl
  have hn0 : s0.now = s.now := by rw [hs0]; rfl
  have hb0 : s0.buf = s.buf := by rw [hs0]; rfl
  have hfm : (s.queue.map (fun x => (s.now, x))).find? (fun e => decides (ackMatches cfg data) e.2) =
      (s.queue.find? (decides (ackMatches cfg data))).map (fun x => (s.now, x)) := by
    rw [List.find?_map]; rfl
  rw [List.find?_append, hfm]
  cases hf : s.queue.find? (decides (ackMatches cfg data)) with
  | some x =>
    obtain ⟨f1, f2⟩ := scan_of_find_some (ackMatches cfg data) [] s.queue x hf
    refine ⟨fun t x' h rest => ?_, fun h => by simp at h, fun h => by simp at h⟩
    simp at h
    obtain ⟨ht, hx⟩ := h
    subst ht hx
    obtain ⟨m1, hm1⟩ := exec_done_ext cfg yields ops (clientRun cfg s0)
    obtain ⟨m2, hm2⟩ := exec_done_ext cfg yields rest (exec cfg yields (clientRun cfg s0) ops)
    cases x with
    | frame cw s' t' d' =>
      obtain ⟨r, sk', hsc⟩ := f1 cw s' t' d' rfl
      rw [← hq0] at hsc
      have hrun := clientRun_ack_hit cfg hcl0 hsc
      refine ⟨m1 ++ m2, ?_, fun h => by simp [Item.isFrame] at h⟩
      rw [hm2, hm1, hrun]; simp [Sys.finish, ackResult, hd0, hn0]
    | word cw =>
      obtain ⟨r, sk', hsc⟩ := f2 cw rfl
      rw [← hq0] at hsc
      have hrun := clientRun_ack_err cfg hcl0 hsc
      refine ⟨m1 ++ m2, ?_, fun _ => ?_⟩
      · rw [hm2, hm1, hrun]; simp [Sys.finish, ackResult, hd0, hn0]
      · apply exec_closed_mono cfg yields rest
        apply exec_closed_mono cfg yields ops
        rw [hrun]; rfl
  | none =>
    have hsc := scan_of_find_none (ackMatches cfg data) [] s.queue hf
    rw [← hq0] at hsc
    have hrun := clientRun_ack_more cfg hcl0 hsc
    have hcl1 : (clientRun cfg s0).client =
        .ackWait data s.queue (s.now + cfg.ackTimeout) (tmo.map (s.now + ·)) := by
      rw [hrun, hq0]; simp
    have e1 : (clientRun cfg s0).buf = s.buf := by rw [clientRun_buf', hb0]
    have e2 : (clientRun cfg s0).now = s.now := by rw [clientRun_now, hn0]
    have e3 : (clientRun cfg s0).done = s.done := by rw [hrun]; exact hd0
    have key := ack_run cfg yields ops (clientRun cfg s0) data s.queue _ _ hinv1 hcl1
      (by rw [e2, ← hdd]; exact hlt) hsafe
    rw [e1, e2, e3, ← hdd, ← hbb] at key
    simp only [Option.map_none, Option.none_or]
    exact key

end Gallia.Hsfz
