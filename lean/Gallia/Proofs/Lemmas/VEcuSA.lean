import Gallia.Proofs.Lemmas.VEcuAnswer
/-
  Helper lemma for C14: on SecurityAccess requests the typed handler is C13's `rndHandler` (seed / key sequencing of
  `RandomUDSServer.security_access`), the seed being the oracle's `random_payload()`.
-/
namespace Gallia.VEcu
open Gallia Gallia.Server Gallia.UdsReq Gallia.UdsResp

theorem vecuHandler_typed (o : Orc) (st : SrvState) (q : UdsReq.Req) (hq : q.WF) (hraw : q.isRaw = false)
    (hdec : decode (encode q) = q) :
    vecuHandler o st ⟨encode q, false⟩ =
      rndHandler (vecuHandler o) (fun _ _ => o.randomPayload 0) st ⟨encode q, false⟩ := by
  have hv : vecuHandler o st ⟨encode q, false⟩ = (typedHandler o st q).map coarse := by
    simp [vecuHandler, hdec]
  unfold rndHandler
  cases q with
  | raw b => simp [Req.isRaw] at hraw
  | requestSeed lvl rec sup =>
    obtain ⟨hl, hodd⟩ := hq
    have h1 := sfOf_sfByte hl sup
    have h2 := u8_toNat (show lvl < 256 by omega)
    unfold sfOf at h1
    rw [hv]
    simp [Server.Req.sid, Server.Req.subFn, encode, sidSA, typedHandler, coarse, h1, h2, hodd]
  | sendKey lvl key sup =>
    obtain ⟨hl, heven, _⟩ := hq
    have h1 := sfOf_sfByte hl sup
    have h2 := u8_toNat (show lvl < 256 by omega)
    unfold sfOf at h1
    rw [hv]
    simp only [Server.Req.sid, Server.Req.subFn, encode, sidSA, typedHandler, sendKey, neg, sidOf, h1, heven,
      Bool.not_false, Bool.true_and, List.cons_append, List.nil_append, List.headD_cons, List.getD_cons_succ,
      List.getD_cons_zero, List.drop_succ_cons, List.drop_zero]
    cases hsa : st.lastSA with
    | none => simp [coarse, nrcSequence, Server.nrcSequence]
    | some p =>
      obtain ⟨t0, seed⟩ := p
      by_cases ht : lvl = t0 + 1
      · subst ht
        by_cases hk : key = seed
        · simp [hk, coarse, h2]
        · simp [hk, coarse, nrcInvalidKey, Server.nrcInvalidKey]
      · simp [ht, coarse, nrcSequence, Server.nrcSequence]
  | clearDDDI d sup => cases d <;> simp [Server.Req.sid, encode, sidSA]
  | _ => simp [Server.Req.sid, encode, sidSA]

end Gallia.VEcu
