import Gallia.Model.SessionScanS
/-
  C09, wire-level facts about `scanS` that hold against EVERY link `L : Link σ` (any stateful ECU):
  every request on the wire is one the scanner is allowed to send (`ReqOk`), shown by invariants pushed through the
  layers of `SessionScanS` (`NewBy P x y`: `y` has the `found` of `x` and every request of `y.log` is one of `x.log` or
  satisfies `P`), and bounds on the number of requests per layer.
-/
namespace Gallia.SessionScan

variable {σ : Type}

/-- a stack the scanner works on: starts in the default session, continues with scanned, not skipped sessions -/
def GoodStack (c : CfgS) (stack : List Sess) : Prop :=
  stack.head? = some 1 ∧ ∀ x ∈ stack.tail, x ∈ sessions ∧ x ∉ c.skip

/-- a request the scanner may put on the wire -/
def ReqOk (c : CfgS) (r : Req) : Prop :=
  (r.kind = .probe → r.target ∈ sessions ∧ r.target ∉ c.skip) ∧
  (r.kind = .recover → r.target = 1 ∨ (r.target ∈ sessions ∧ r.target ∉ c.skip)) ∧
  (r.kind = .reset → wantsReset c.toCfg = some r.target) ∧
  (r.kind = .ping → (wantsReset c.toCfg).isSome) ∧
  (r.kind = .hook → c.hooks = true ∧ r.target ∈ c.preHook ++ c.postHook)

def WireInvS (c : CfgS) (x : StS σ) : Prop :=
  (∀ r ∈ x.log, ReqOk c r) ∧ (∀ st ∈ x.found, GoodStack c st)

/-- `y` comes from `x` by requests that satisfy `P`; `found` untouched -/
def NewBy (P : Req → Prop) (x y : StS σ) : Prop :=
  y.found = x.found ∧ ∀ r ∈ y.log, r ∈ x.log ∨ P r

theorem NewBy.refl (P : Req → Prop) (x : StS σ) : NewBy P x x := ⟨rfl, fun _ h => Or.inl h⟩

theorem NewBy.trans {P : Req → Prop} {x y z : StS σ} (h1 : NewBy P x y) (h2 : NewBy P y z) : NewBy P x z := by
  refine ⟨h2.1.trans h1.1, fun r hr => ?_⟩
  rcases h2.2 r hr with h | h
  · exact h1.2 r h
  · exact Or.inr h

theorem NewBy.mono {P Q : Req → Prop} {x y : StS σ} (h : NewBy P x y) (hpq : ∀ r, P r → Q r) : NewBy Q x y :=
  ⟨h.1, fun r hr => (h.2 r hr).imp id (hpq r)⟩

theorem NewBy.wire {c : CfgS} {x y : StS σ} (h : NewBy (ReqOk c) x y) (hx : WireInvS c x) : WireInvS c y := by
  refine ⟨fun r hr => ?_, fun st hst => hx.2 st (h.1 ▸ hst)⟩
  rcases h.2 r hr with h' | h'
  · exact hx.1 r h'
  · exact h'

/-! ### the layers below the probe loop -/

theorem xmit_new (L : Link σ) (tmo : Nat) (k : Kind) (tp tgt : Nat) (w : Wire) (x : StS σ) :
    NewBy (fun r => r.kind = k ∧ r.target = tgt) x (xmit L tmo k tp tgt w x).1 := by
  refine ⟨rfl, fun r hr => ?_⟩
  simp only [xmit, List.mem_cons] at hr
  rcases hr with h | h
  · right; subst h; exact ⟨rfl, rfl⟩
  · left; exact h

theorem requestN_new (c : CfgS) (L : Link σ) (k : Kind) (tp tgt : Nat) (w : Wire) :
    ∀ (n i : Nat) (x : StS σ),
      NewBy (fun r => r.kind = k ∧ r.target = tgt) x (requestN c L k tp tgt w i n x).1
  | 0, i, x => by simp only [requestN]; exact xmit_new ..
  | n + 1, i, x => by
    simp only [requestN]
    split
    · exact (xmit_new L c.timeoutMs k tp tgt w x).trans (requestN_new c L k tp tgt w n (i + 1) _)
    · exact xmit_new ..

theorem request_new (c : CfgS) (L : Link σ) (k : Kind) (tp tgt : Nat) (w : Wire) (x : StS σ) :
    NewBy (fun r => r.kind = k ∧ r.target = tgt) x (request c L k tp tgt w x).1 :=
  requestN_new c L k tp tgt w c.maxRetry 0 x

theorem dscOnceS_new (c : CfgS) (L : Link σ) (k : Kind) (tp : Nat) (s : Sess) (x : StS σ) :
    NewBy (fun r => r.kind = k ∧ r.target = s) x (dscOnceS c L k tp s x).1 := by
  have h := request_new c L k tp s (.dsc s) x
  simp only [dscOnceS]
  split
  · exact h
  · exact h

theorem hookSeqS_new (c : CfgS) (L : Link σ) (tp : Nat) :
    ∀ (codes : List Nat) (x : StS σ),
      NewBy (fun r => r.kind = .hook ∧ r.target ∈ codes) x (hookSeqS c L tp codes x).1
  | [], x => by simp only [hookSeqS]; exact NewBy.refl _ _
  | h :: t, x => by
    simp only [hookSeqS]
    have h1 : NewBy (fun r => r.kind = .hook ∧ r.target ∈ h :: t) x (request c L .hook tp h (.hook h) x).1 :=
      (request_new c L .hook tp h (.hook h) x).mono (fun r hr => ⟨hr.1, by simp [hr.2]⟩)
    split
    · exact h1
    · split
      · exact h1
      · exact h1.trans ((hookSeqS_new c L tp t _).mono (fun r hr => ⟨hr.1, List.mem_cons_of_mem _ hr.2⟩))

/-- a request of a session hook -/
def HookP (c : CfgS) (r : Req) : Prop := r.kind = .hook ∧ r.target ∈ c.preHook ++ c.postHook

theorem dscHookedS_new (c : CfgS) (L : Link σ) (k : Kind) (tp : Nat) (s : Sess) (x : StS σ) :
    NewBy (fun r => (r.kind = k ∧ r.target = s) ∨ HookP c r) x (dscHookedS c L k tp s x).1 := by
  have h1 : NewBy (fun r => (r.kind = k ∧ r.target = s) ∨ HookP c r) x (hookSeqS c L tp c.preHook x).1 :=
    (hookSeqS_new c L tp c.preHook x).mono (fun r hr => Or.inr ⟨hr.1, List.mem_append_left _ hr.2⟩)
  have h2 : NewBy (fun r => (r.kind = k ∧ r.target = s) ∨ HookP c r) (hookSeqS c L tp c.preHook x).1
      (dscOnceS c L k tp s (hookSeqS c L tp c.preHook x).1).1 :=
    (dscOnceS_new c L k tp s _).mono (fun r hr => Or.inl hr)
  have h3 : ∀ y : StS σ, NewBy (fun r => (r.kind = k ∧ r.target = s) ∨ HookP c r) y (hookSeqS c L tp c.postHook y).1 :=
    fun y => (hookSeqS_new c L tp c.postHook y).mono (fun r hr => Or.inr ⟨hr.1, List.mem_append_right _ hr.2⟩)
  simp only [dscHookedS]
  split
  · exact h1
  · split
    · exact (h1.trans h2).trans (h3 _)
    · exact h1.trans h2

theorem dscS_new (c : CfgS) (L : Link σ) (k : Kind) (tp : Nat) (s : Sess) (x : StS σ) :
    NewBy (fun r => (r.kind = k ∧ r.target = s) ∨ (c.hooks = true ∧ HookP c r)) x (dscS c L k tp s x).1 := by
  have h1 : NewBy (fun r => (r.kind = k ∧ r.target = s) ∨ (c.hooks = true ∧ HookP c r)) x (dscOnceS c L k tp s x).1 :=
    (dscOnceS_new c L k tp s x).mono (fun r hr => Or.inl hr)
  simp only [dscS]
  split
  · rename_i hc
    have h2 : NewBy (fun r => (r.kind = k ∧ r.target = s) ∨ (c.hooks = true ∧ HookP c r)) (dscOnceS c L k tp s x).1
        (dscHookedS c L k tp s (dscOnceS c L k tp s x).1).1 :=
      (dscHookedS_new c L k tp s _).mono (fun r hr => hr.imp id (fun h => ⟨hc.2, h⟩))
    split
    · exact h1.trans h2
    · split
      · exact h1.trans h2
      · split
        · exact h1.trans h2
        · exact h1.trans h2
  · exact h1

theorem recoverStackS_new (c : CfgS) (L : Link σ) (tp : Nat) :
    ∀ (stack : List Sess) (x : StS σ),
      NewBy (fun r => (r.kind = .recover ∧ r.target ∈ stack) ∨ (c.hooks = true ∧ HookP c r)) x
        (recoverStackS c L tp stack x).1
  | [], x => by simp only [recoverStackS]; exact NewBy.refl _ _
  | s :: rest, x => by
    simp only [recoverStackS]
    have h1 : NewBy (fun r => (r.kind = .recover ∧ r.target ∈ s :: rest) ∨ (c.hooks = true ∧ HookP c r)) x
        (dscS c L .recover tp s x).1 :=
      (dscS_new c L .recover tp s x).mono (fun r hr => hr.imp (fun h => ⟨h.1, by simp [h.2]⟩) id)
    split
    · exact h1.trans ((recoverStackS_new c L tp rest _).mono
        (fun r hr => hr.imp (fun h => ⟨h.1, List.mem_cons_of_mem _ h.2⟩) id))
    · exact h1

theorem waitS_new (L : Link σ) (tp : Nat) :
    ∀ (n : Nat) (x : StS σ), NewBy (fun r => r.kind = .ping) x (waitS L tp n x)
  | 0, x => by simp only [waitS]; exact NewBy.refl _ _
  | n + 1, x => by
    simp only [waitS]
    have h1 : NewBy (fun r => r.kind = .ping) x
        (xmit L PING_TIMEOUT_MS .ping tp 0 .ping { x with idle := x.idle + 500 }).1 :=
      (xmit_new L PING_TIMEOUT_MS .ping tp 0 .ping { x with idle := x.idle + 500 }).mono (fun r hr => hr.1)
    split
    · exact h1.trans (waitS_new L tp n _)
    · exact h1

theorem doResetS_new (c : CfgS) (L : Link σ) (tp lvl : Nat) (x : StS σ) :
    NewBy (fun r => (r.kind = .reset ∧ r.target = lvl) ∨ r.kind = .ping) x (doResetS c L tp lvl x) := by
  have h1 : NewBy (fun r => (r.kind = .reset ∧ r.target = lvl) ∨ r.kind = .ping) x
      (request c L .reset tp lvl (.reset lvl) x).1 :=
    (request_new c L .reset tp lvl (.reset lvl) x).mono (fun r hr => Or.inl hr)
  simp only [doResetS]
  split
  · have h2 : NewBy (fun r => (r.kind = .reset ∧ r.target = lvl) ∨ r.kind = .ping)
        (request c L .reset tp lvl (.reset lvl) x).1
        (waitS L tp c.pingBudget { (request c L .reset tp lvl (.reset lvl) x).1 with client := 1 }) :=
      (waitS_new L tp c.pingBudget { (request c L .reset tp lvl (.reset lvl) x).1 with client := 1 }).mono
        (fun r hr => Or.inr hr)
    exact h1.trans h2
  · exact h1
  · exact h1

/-! ### from "new requests have this kind and target" to `ReqOk` -/

theorem GoodStack.mem {c : CfgS} {stack : List Sess} (h : GoodStack c stack) :
    ∀ s ∈ stack, s = 1 ∨ (s ∈ sessions ∧ s ∉ c.skip) := by
  intro s hs
  rcases stack with _ | ⟨a, t⟩
  · cases hs
  · have ha : a = 1 := by simpa [GoodStack] using h.1
    rcases List.mem_cons.1 hs with h' | h'
    · left; rw [h', ha]
    · right; exact h.2 s h'

theorem GoodStack.snoc {c : CfgS} {stack : List Sess} {s : Sess} (h : GoodStack c stack) (hs : s ∈ sessions)
    (hk : s ∉ c.skip) : GoodStack c (stack ++ [s]) := by
  rcases stack with _ | ⟨a, t⟩
  · simp [GoodStack] at h
  · refine ⟨by simpa [GoodStack] using h.1, fun x hx => ?_⟩
    simp only [List.cons_append, List.tail_cons, List.mem_append, List.mem_singleton] at hx
    rcases hx with hx | hx
    · exact h.2 x hx
    · subst hx; exact ⟨hs, hk⟩

theorem reqOk_hook {c : CfgS} {r : Req} (hh : c.hooks = true) (h : HookP c r) : ReqOk c r := by
  obtain ⟨hk, ht⟩ := h
  refine ⟨?_, ?_, ?_, ?_, ?_⟩ <;> intro h' <;> first | exact ⟨hh, ht⟩ | (rw [hk] at h'; cases h')

theorem reqOk_probe {c : CfgS} {r : Req} {s : Sess} (hs : s ∈ sessions) (hk : s ∉ c.skip)
    (h : (r.kind = .probe ∧ r.target = s) ∨ (c.hooks = true ∧ HookP c r)) : ReqOk c r := by
  rcases h with ⟨h1, h2⟩ | ⟨h1, h2⟩
  · refine ⟨?_, ?_, ?_, ?_, ?_⟩ <;> intro h' <;> first | (rw [h2]; exact ⟨hs, hk⟩) | (rw [h1] at h'; cases h')
  · exact reqOk_hook h1 h2

theorem reqOk_recover {c : CfgS} {r : Req} {stack : List Sess} (hg : GoodStack c stack)
    (h : (r.kind = .recover ∧ r.target ∈ stack) ∨ (c.hooks = true ∧ HookP c r)) : ReqOk c r := by
  rcases h with ⟨h1, h2⟩ | ⟨h1, h2⟩
  · refine ⟨?_, ?_, ?_, ?_, ?_⟩ <;> intro h' <;> first | exact hg.mem _ h2 | (rw [h1] at h'; cases h')
  · exact reqOk_hook h1 h2

theorem reqOk_reset {c : CfgS} {r : Req} {l : Nat} (hw : wantsReset c.toCfg = some l)
    (h : (r.kind = .reset ∧ r.target = l) ∨ r.kind = .ping) : ReqOk c r := by
  rcases h with ⟨h1, h2⟩ | h1
  · refine ⟨?_, ?_, ?_, ?_, ?_⟩ <;> intro h' <;> first | (rw [h2]; exact hw) | (rw [h1] at h'; cases h')
  · refine ⟨?_, ?_, ?_, ?_, ?_⟩ <;> intro h' <;> first | (rw [hw]; rfl) | (rw [h1] at h'; cases h')

theorem prepareS_new (c : CfgS) (L : Link σ) (stack : List Sess) (acc : StS σ × Bool) (hg : GoodStack c stack) :
    NewBy (ReqOk c) acc.1 (prepareS c L stack acc).1 := by
  have hrec : ∀ y : StS σ, NewBy (ReqOk c) y (recoverStackS c L (top stack) stack y).1 :=
    fun y => (recoverStackS_new c L (top stack) stack y).mono (fun r hr => reqOk_recover hg hr)
  simp only [prepareS]
  split
  · rename_i l hw
    have h1 : NewBy (ReqOk c) acc.1 (doResetS c L (top stack) l acc.1) :=
      (doResetS_new c L (top stack) l acc.1).mono (fun r hr => reqOk_reset hw hr)
    split
    · exact h1
    · exact h1.trans (hrec _)
  · split
    · exact hrec _
    · exact NewBy.refl _ _

/-! ### the probe loop and above -/

theorem classifyS_wire (c : CfgS) (stack : List Sess) (s : Sess) (r : StS σ × Ans) (hg : GoodStack c stack)
    (hs : s ∈ sessions) (hk : s ∉ c.skip) (h : WireInvS c r.1) : WireInvS c (classifyS c stack s r).1 := by
  simp only [classifyS]
  split
  · exact h
  · exact h
  · split
    · exact h
    · exact h
  · split
    · refine ⟨h.1, fun st hst => ?_⟩
      simp only [List.mem_append, List.mem_singleton] at hst
      rcases hst with hst | hst
      · exact h.2 st hst
      · subst hst; exact hg.snoc hs hk
    · exact h

theorem probeOneS_wire (c : CfgS) (L : Link σ) (stack : List Sess) (acc : StS σ × Bool) (s : Sess)
    (hg : GoodStack c stack) (hs : s ∈ sessions) (h : WireInvS c acc.1) :
    WireInvS c (probeOneS c L stack acc s).1 := by
  simp only [probeOneS]
  split
  · exact h
  · split
    · exact h
    · rename_i hk
      have h2 : WireInvS c (prepareS c L stack acc).1 := (prepareS_new c L stack acc hg).wire h
      split
      · exact h2
      · refine classifyS_wire c stack s _ hg hs hk ?_
        exact ((dscS_new c L .probe (top stack) s _).mono (fun r hr => reqOk_probe hs hk hr)).wire h2

theorem foldl_probeOneS_wire (c : CfgS) (L : Link σ) (stack : List Sess) (hg : GoodStack c stack) :
    ∀ (l : List Sess) (acc : StS σ × Bool), (∀ s ∈ l, s ∈ sessions) → WireInvS c acc.1 →
      WireInvS c (l.foldl (probeOneS c L stack) acc).1
  | [], _, _, h => h
  | s :: t, acc, hl, h => by
    simp only [List.foldl_cons]
    exact foldl_probeOneS_wire c L stack hg t _ (fun x hx => hl x (List.mem_cons_of_mem _ hx))
      (probeOneS_wire c L stack acc s hg (hl s List.mem_cons_self) h)

theorem processStackS_wire (c : CfgS) (L : Link σ) (x : StS σ) (stack : List Sess) (hg : GoodStack c stack)
    (h : WireInvS c x) : WireInvS c (processStackS c L x stack) := by
  simp only [processStackS]
  split
  · exact h
  · split
    · exact h
    · exact foldl_probeOneS_wire c L stack hg sessions _ (fun _ hs => hs) h

theorem foldl_processStackS_wire (c : CfgS) (L : Link σ) :
    ∀ (l : List (List Sess)) (x : StS σ), (∀ st ∈ l, GoodStack c st) → WireInvS c x →
      WireInvS c (l.foldl (processStackS c L) x)
  | [], _, _, h => h
  | st :: t, x, hl, h => by
    simp only [List.foldl_cons]
    exact foldl_processStackS_wire c L t _ (fun y hy => hl y (List.mem_cons_of_mem _ hy))
      (processStackS_wire c L x st (hl st List.mem_cons_self) h)

theorem levelS_wire (c : CfgS) (L : Link σ) (x : StS σ) (h : WireInvS c x) : WireInvS c (levelS c L x) := by
  simp only [levelS]
  exact foldl_processStackS_wire c L x.found _ h.2 ⟨h.1, fun st hst => by cases hst⟩

theorem scanLoopS_wire (c : CfgS) (L : Link σ) :
    ∀ (n : Nat) (x : StS σ), WireInvS c x → WireInvS c (scanLoopS c L n x)
  | 0, _, h => h
  | n + 1, x, h => by
    simp only [scanLoopS]
    split
    · exact h
    · exact scanLoopS_wire c L n _ (levelS_wire c L x h)

theorem initS_wire (c : CfgS) (e : σ) : WireInvS c (initS e) := by
  refine ⟨fun r hr => (by cases hr), fun st hst => ?_⟩
  simp only [initS, List.mem_singleton] at hst
  subst hst
  exact ⟨rfl, fun x hx => by cases hx⟩

theorem scanS_wireInv (c : CfgS) (L : Link σ) (e : σ) : WireInvS c (scanS c L e) :=
  scanLoopS_wire c L c.depth _ (initS_wire c e)

/-- against every link, every request of the scan is one the scanner may send -/
theorem scanS_wire (c : CfgS) (L : Link σ) (e : σ) : ∀ r ∈ (scanS c L e).log, ReqOk c r :=
  (scanS_wireInv c L e).1

/-- ... and every stack left in `found` starts in the default session and continues with scanned, not skipped
    sessions -/
theorem scanS_found (c : CfgS) (L : Link σ) (e : σ) : ∀ st ∈ (scanS c L e).found, GoodStack c st :=
  (scanS_wireInv c L e).2

/-! ### how many requests a layer puts on the wire -/

/-- `y.log` is at most `n` requests longer than `x.log` -/
def LenLe (n : Nat) (x y : StS σ) : Prop := y.log.length ≤ x.log.length + n

theorem LenLe.refl (x : StS σ) : LenLe 0 x x := Nat.le_refl _

theorem LenLe.trans {a b : Nat} {x y z : StS σ} (h1 : LenLe a x y) (h2 : LenLe b y z) : LenLe (a + b) x z := by
  unfold LenLe at *; omega

theorem LenLe.mono {a b : Nat} {x y : StS σ} (h : LenLe a x y) (hab : a ≤ b) : LenLe b x y := by
  unfold LenLe at *; omega

theorem xmit_len (L : Link σ) (tmo : Nat) (k : Kind) (tp tgt : Nat) (w : Wire) (x : StS σ) :
    LenLe 1 x (xmit L tmo k tp tgt w x).1 := by
  simp [LenLe, xmit]

theorem requestN_len (c : CfgS) (L : Link σ) (k : Kind) (tp tgt : Nat) (w : Wire) :
    ∀ (n i : Nat) (x : StS σ), LenLe (n + 1) x (requestN c L k tp tgt w i n x).1
  | 0, i, x => by simp only [requestN]; exact (xmit_len ..).mono (by omega)
  | n + 1, i, x => by
    simp only [requestN]
    split
    · refine LenLe.mono (a := 1 + (n + 1)) ?_ (by omega)
      exact (xmit_len L c.timeoutMs k tp tgt w x).trans (requestN_len c L k tp tgt w n (i + 1) _)
    · exact (xmit_len ..).mono (by omega)

theorem request_len (c : CfgS) (L : Link σ) (k : Kind) (tp tgt : Nat) (w : Wire) (x : StS σ) :
    LenLe (c.maxRetry + 1) x (request c L k tp tgt w x).1 :=
  requestN_len c L k tp tgt w c.maxRetry 0 x

theorem dscOnceS_len (c : CfgS) (L : Link σ) (k : Kind) (tp : Nat) (s : Sess) (x : StS σ) :
    LenLe (c.maxRetry + 1) x (dscOnceS c L k tp s x).1 := by
  have h := request_len c L k tp s (.dsc s) x
  simp only [dscOnceS]
  split
  · exact h
  · exact h

theorem hookSeqS_len (c : CfgS) (L : Link σ) (tp : Nat) :
    ∀ (codes : List Nat) (x : StS σ), LenLe ((c.maxRetry + 1) * codes.length) x (hookSeqS c L tp codes x).1
  | [], x => by simp only [hookSeqS]; exact (LenLe.refl x).mono (Nat.zero_le _)
  | h :: t, x => by
    simp only [hookSeqS]
    have h1 := request_len c L .hook tp h (.hook h) x
    split
    · exact h1.mono (by simp only [List.length_cons, Nat.mul_succ]; omega)
    · split
      · exact h1.mono (by simp only [List.length_cons, Nat.mul_succ]; omega)
      · exact (h1.trans (hookSeqS_len c L tp t _)).mono (by simp only [List.length_cons, Nat.mul_succ]; omega)

theorem dscHookedS_len (c : CfgS) (L : Link σ) (k : Kind) (tp : Nat) (s : Sess) (x : StS σ) :
    LenLe ((c.maxRetry + 1) * (1 + c.preHook.length + c.postHook.length)) x (dscHookedS c L k tp s x).1 := by
  have h1 := hookSeqS_len c L tp c.preHook x
  have h2 := dscOnceS_len c L k tp s (hookSeqS c L tp c.preHook x).1
  have h3 := fun y : StS σ => hookSeqS_len c L tp c.postHook y
  simp only [dscHookedS]
  split
  · exact h1.mono (by simp only [Nat.mul_add, Nat.mul_one]; omega)
  · split
    · exact ((h1.trans h2).trans (h3 _)).mono (by simp only [Nat.mul_add, Nat.mul_one]; omega)
    · exact (h1.trans h2).mono (by simp only [Nat.mul_add, Nat.mul_one]; omega)

/-- bound on the transmissions of one `set_session_with_hooks_handling` -/
def dscCost (c : CfgS) : Nat := (c.maxRetry + 1) * (2 + c.preHook.length + c.postHook.length)

theorem dscS_len (c : CfgS) (L : Link σ) (k : Kind) (tp : Nat) (s : Sess) (x : StS σ) :
    LenLe (dscCost c) x (dscS c L k tp s x).1 := by
  have h1 := dscOnceS_len c L k tp s x
  have h2 := dscHookedS_len c L k tp s (dscOnceS c L k tp s x).1
  have e : c.maxRetry + 1 + (c.maxRetry + 1) * (1 + c.preHook.length + c.postHook.length) ≤ dscCost c := by
    simp only [dscCost, Nat.mul_add, Nat.mul_one]; omega
  have e1 : c.maxRetry + 1 ≤ dscCost c := by
    simp only [dscCost, Nat.mul_add]; omega
  simp only [dscS]
  split
  · split
    · exact (h1.trans h2).mono e
    · split
      · exact (h1.trans h2).mono e
      · split
        · exact (h1.trans h2).mono e
        · exact (h1.trans h2).mono e
  · exact h1.mono e1

theorem recoverStackS_len (c : CfgS) (L : Link σ) (tp : Nat) :
    ∀ (stack : List Sess) (x : StS σ), LenLe (stack.length * dscCost c) x (recoverStackS c L tp stack x).1
  | [], x => by simp only [recoverStackS]; exact (LenLe.refl x).mono (Nat.zero_le _)
  | s :: rest, x => by
    simp only [recoverStackS]
    have h1 := dscS_len c L .recover tp s x
    split
    · exact (h1.trans (recoverStackS_len c L tp rest _)).mono
        (by simp only [List.length_cons, Nat.succ_mul]; omega)
    · exact h1.mono (by simp only [List.length_cons, Nat.succ_mul]; omega)

theorem waitS_len (L : Link σ) (tp : Nat) : ∀ (n : Nat) (x : StS σ), LenLe n x (waitS L tp n x)
  | 0, x => by simp only [waitS]; exact LenLe.refl x
  | n + 1, x => by
    simp only [waitS]
    have h1 : LenLe 1 x (xmit L PING_TIMEOUT_MS .ping tp 0 .ping { x with idle := x.idle + 500 }).1 :=
      xmit_len L PING_TIMEOUT_MS .ping tp 0 .ping { x with idle := x.idle + 500 }
    split
    · exact (h1.trans (waitS_len L tp n _)).mono (by omega)
    · exact h1.mono (by omega)

theorem doResetS_len (c : CfgS) (L : Link σ) (tp lvl : Nat) (x : StS σ) :
    LenLe ((c.maxRetry + 1) + c.pingBudget) x (doResetS c L tp lvl x) := by
  have h1 := request_len c L .reset tp lvl (.reset lvl) x
  simp only [doResetS]
  split
  · have h2 : LenLe c.pingBudget (request c L .reset tp lvl (.reset lvl) x).1
        (waitS L tp c.pingBudget { (request c L .reset tp lvl (.reset lvl) x).1 with client := 1 }) :=
      waitS_len L tp c.pingBudget { (request c L .reset tp lvl (.reset lvl) x).1 with client := 1 }
    exact h1.trans h2
  · exact h1.mono (by omega)
  · exact h1.mono (by omega)

theorem prepareS_len (c : CfgS) (L : Link σ) (stack : List Sess) (acc : StS σ × Bool) :
    LenLe (((c.maxRetry + 1) + c.pingBudget) + stack.length * dscCost c) acc.1 (prepareS c L stack acc).1 := by
  have hrec := fun y : StS σ => recoverStackS_len c L (top stack) stack y
  simp only [prepareS]
  split
  · rename_i l hw
    split
    · exact (doResetS_len c L (top stack) l acc.1).mono (by omega)
    · exact (doResetS_len c L (top stack) l acc.1).trans (hrec _)
  · split
    · exact (hrec _).mono (by omega)
    · exact (LenLe.refl _).mono (Nat.zero_le _)

theorem classifyS_log (c : CfgS) (stack : List Sess) (s : Sess) (r : StS σ × Ans) :
    (classifyS c stack s r).1.log = r.1.log := by
  simp only [classifyS]
  split
  · rfl
  · rfl
  · split <;> rfl
  · split <;> rfl

/-- bound on the transmissions of one pass of the probe loop for a stack of `n` sessions -/
def perProbe (c : CfgS) (n : Nat) : Nat :=
  ((c.maxRetry + 1) + c.pingBudget) + (n + 1) * ((c.maxRetry + 1) * (2 + c.preHook.length + c.postHook.length))

theorem probeOneS_len (c : CfgS) (L : Link σ) (stack : List Sess) (acc : StS σ × Bool) (s : Sess) :
    LenLe (perProbe c stack.length) acc.1 (probeOneS c L stack acc s).1 := by
  have h2 := prepareS_len c L stack acc
  have e : ((c.maxRetry + 1) + c.pingBudget) + stack.length * dscCost c + dscCost c = perProbe c stack.length := by
    simp only [perProbe, dscCost, Nat.succ_mul]; omega
  simp only [probeOneS]
  split
  · exact (LenLe.refl _).mono (Nat.zero_le _)
  · split
    · exact (LenLe.refl _).mono (Nat.zero_le _)
    · split
      · exact h2.mono (by omega)
      · have h3 := dscS_len c L .probe (top stack) s (prepareS c L stack acc).1
        have h4 := h2.trans h3
        rw [e] at h4
        unfold LenLe at *
        rw [classifyS_log]
        exact h4

theorem foldl_probeOneS_len (c : CfgS) (L : Link σ) (stack : List Sess) :
    ∀ (l : List Sess) (acc : StS σ × Bool),
      LenLe (l.length * perProbe c stack.length) acc.1 (l.foldl (probeOneS c L stack) acc).1
  | [], acc => (LenLe.refl _).mono (Nat.zero_le _)
  | s :: t, acc => by
    simp only [List.foldl_cons]
    exact ((probeOneS_len c L stack acc s).trans (foldl_probeOneS_len c L stack t _)).mono
      (by simp only [List.length_cons, Nat.succ_mul]; omega)

theorem sessions_length : sessions.length = 127 := by simp [sessions]

theorem processStackS_len (c : CfgS) (L : Link σ) (x : StS σ) (stack : List Sess) :
    LenLe (127 * perProbe c stack.length) x (processStackS c L x stack) := by
  simp only [processStackS]
  split
  · exact (LenLe.refl _).mono (Nat.zero_le _)
  · split
    · exact (LenLe.refl _).mono (Nat.zero_le _)
    · have h := foldl_probeOneS_len c L stack sessions ({ x with searched := x.searched ++ [top stack] }, true)
      rw [sessions_length] at h
      exact h

/-! the bounds, spelled out -/

theorem request_log_le (c : CfgS) (L : Link σ) (k : Kind) (tp tgt : Nat) (w : Wire) (x : StS σ) :
    (request c L k tp tgt w x).1.log.length ≤ x.log.length + (c.maxRetry + 1) :=
  request_len c L k tp tgt w x

theorem dscS_log_le (c : CfgS) (L : Link σ) (k : Kind) (tp : Nat) (s : Sess) (x : StS σ) :
    (dscS c L k tp s x).1.log.length ≤
      x.log.length + (c.maxRetry + 1) * (2 + c.preHook.length + c.postHook.length) :=
  dscS_len c L k tp s x

theorem recoverStackS_log_le (c : CfgS) (L : Link σ) (tp : Nat) (stack : List Sess) (x : StS σ) :
    (recoverStackS c L tp stack x).1.log.length ≤
      x.log.length + stack.length * ((c.maxRetry + 1) * (2 + c.preHook.length + c.postHook.length)) :=
  recoverStackS_len c L tp stack x

theorem doResetS_log_le (c : CfgS) (L : Link σ) (tp lvl : Nat) (x : StS σ) :
    (doResetS c L tp lvl x).log.length ≤ x.log.length + ((c.maxRetry + 1) + c.pingBudget) :=
  doResetS_len c L tp lvl x

theorem probeOneS_log_le (c : CfgS) (L : Link σ) (stack : List Sess) (acc : StS σ × Bool) (s : Sess) :
    (probeOneS c L stack acc s).1.log.length ≤ acc.1.log.length + perProbe c stack.length :=
  probeOneS_len c L stack acc s

theorem processStackS_log_le (c : CfgS) (L : Link σ) (x : StS σ) (stack : List Sess) :
    (processStackS c L x stack).log.length ≤ x.log.length + 127 * perProbe c stack.length :=
  processStackS_len c L x stack

/-! ### the whole scan: stacks per level, requests in total -/

/-- `y.found` is `x.found` followed by at most `k` stacks of length `d` -/
def FoundExt (d k : Nat) (x y : StS σ) : Prop :=
  ∃ ext : List (List Sess), y.found = x.found ++ ext ∧ (∀ st ∈ ext, st.length = d) ∧ ext.length ≤ k

theorem FoundExt.of_eq {d : Nat} {x y : StS σ} (h : y.found = x.found) : FoundExt d 0 x y :=
  ⟨[], by simp [h], fun _ h => (by cases h), Nat.le_refl _⟩

theorem FoundExt.trans {d a b : Nat} {x y z : StS σ} (h1 : FoundExt d a x y) (h2 : FoundExt d b y z) :
    FoundExt d (a + b) x z := by
  obtain ⟨e1, he1, hl1, hn1⟩ := h1
  obtain ⟨e2, he2, hl2, hn2⟩ := h2
  refine ⟨e1 ++ e2, by rw [he2, he1, List.append_assoc], fun st hst => ?_, by rw [List.length_append]; omega⟩
  rcases List.mem_append.1 hst with h | h
  · exact hl1 st h
  · exact hl2 st h

theorem FoundExt.mono {d a b : Nat} {x y : StS σ} (h : FoundExt d a x y) (hab : a ≤ b) : FoundExt d b x y := by
  obtain ⟨e1, he1, hl1, hn1⟩ := h
  exact ⟨e1, he1, hl1, Nat.le_trans hn1 hab⟩

theorem prepareS_found (c : CfgS) (L : Link σ) (stack : List Sess) (acc : StS σ × Bool) :
    (prepareS c L stack acc).1.found = acc.1.found := by
  simp only [prepareS]
  split
  · split
    · exact (doResetS_new c L (top stack) _ acc.1).1
    · exact (recoverStackS_new c L (top stack) stack _).1.trans (doResetS_new c L (top stack) _ acc.1).1
  · split
    · exact (recoverStackS_new c L (top stack) stack _).1
    · rfl

theorem classifyS_found (c : CfgS) (stack : List Sess) (s : Sess) (r : StS σ × Ans) :
    FoundExt (stack.length + 1) 1 r.1 (classifyS c stack s r).1 := by
  simp only [classifyS]
  split
  · exact (FoundExt.of_eq rfl).mono (Nat.zero_le _)
  · exact (FoundExt.of_eq rfl).mono (Nat.zero_le _)
  · split
    · exact (FoundExt.of_eq rfl).mono (Nat.zero_le _)
    · exact (FoundExt.of_eq rfl).mono (Nat.zero_le _)
  · split
    · refine ⟨[stack ++ [s]], rfl, fun st hst => ?_, Nat.le_refl _⟩
      rw [List.mem_singleton.1 hst, List.length_append]; rfl
    · exact (FoundExt.of_eq rfl).mono (Nat.zero_le _)

theorem probeOneS_found (c : CfgS) (L : Link σ) (stack : List Sess) (acc : StS σ × Bool) (s : Sess) :
    FoundExt (stack.length + 1) 1 acc.1 (probeOneS c L stack acc s).1 := by
  simp only [probeOneS]
  split
  · exact (FoundExt.of_eq rfl).mono (Nat.zero_le _)
  · split
    · exact (FoundExt.of_eq rfl).mono (Nat.zero_le _)
    · have h2 : FoundExt (stack.length + 1) 0 acc.1 (prepareS c L stack acc).1 :=
        FoundExt.of_eq (prepareS_found c L stack acc)
      split
      · exact h2.mono (Nat.zero_le _)
      · have h3 : FoundExt (stack.length + 1) 0 (prepareS c L stack acc).1
            (dscS c L .probe (top stack) s (prepareS c L stack acc).1).1 :=
          FoundExt.of_eq (dscS_new c L .probe (top stack) s _).1
        exact ((h2.trans h3).trans (classifyS_found c stack s _)).mono (by omega)

theorem foldl_probeOneS_found (c : CfgS) (L : Link σ) (stack : List Sess) :
    ∀ (l : List Sess) (acc : StS σ × Bool),
      FoundExt (stack.length + 1) l.length acc.1 (l.foldl (probeOneS c L stack) acc).1
  | [], acc => FoundExt.of_eq rfl
  | s :: t, acc => by
    simp only [List.foldl_cons]
    exact ((probeOneS_found c L stack acc s).trans (foldl_probeOneS_found c L stack t _)).mono
      (by simp only [List.length_cons]; omega)

theorem processStackS_found (c : CfgS) (L : Link σ) (x : StS σ) (stack : List Sess) :
    FoundExt (stack.length + 1) 127 x (processStackS c L x stack) := by
  simp only [processStackS]
  split
  · exact (FoundExt.of_eq rfl).mono (Nat.zero_le _)
  · split
    · exact (FoundExt.of_eq rfl).mono (Nat.zero_le _)
    · have h := foldl_probeOneS_found c L stack sessions ({ x with searched := x.searched ++ [top stack] }, true)
      rw [sessions_length] at h
      exact h

theorem foldl_processStackS_len (c : CfgS) (L : Link σ) (d : Nat) :
    ∀ (l : List (List Sess)) (x : StS σ), (∀ st ∈ l, st.length = d) →
      FoundExt (d + 1) (127 * l.length) x (l.foldl (processStackS c L) x) ∧
      LenLe (l.length * (127 * perProbe c d)) x (l.foldl (processStackS c L) x)
  | [], x, _ => ⟨FoundExt.of_eq rfl, (LenLe.refl x).mono (Nat.zero_le _)⟩
  | st :: t, x, hl => by
    simp only [List.foldl_cons]
    have hd : st.length = d := hl st List.mem_cons_self
    have h1 := processStackS_found c L x st
    have h2 := processStackS_len c L x st
    rw [hd] at h1 h2
    obtain ⟨i1, i2⟩ := foldl_processStackS_len c L d t (processStackS c L x st)
      (fun y hy => hl y (List.mem_cons_of_mem _ hy))
    exact ⟨(h1.trans i1).mono (by simp only [List.length_cons]; omega),
      (h2.trans i2).mono (by simp only [List.length_cons, Nat.succ_mul]; omega)⟩

/-- one level: the new stacks are one longer, at most 127 per old stack; the requests -/
theorem levelS_len (c : CfgS) (L : Link σ) (d : Nat) (x : StS σ) (hx : ∀ st ∈ x.found, st.length = d) :
    (∀ st ∈ (levelS c L x).found, st.length = d + 1) ∧ (levelS c L x).found.length ≤ 127 * x.found.length ∧
    LenLe (x.found.length * (127 * perProbe c d)) x (levelS c L x) := by
  obtain ⟨⟨ext, he, hl, hn⟩, h2⟩ := foldl_processStackS_len c L d x.found { x with found := [] } hx
  simp only [List.nil_append] at he
  refine ⟨?_, ?_, h2⟩
  · intro st hst
    simp only [levelS] at hst
    rw [he] at hst
    exact hl st hst
  · simp only [levelS]
    rw [he]
    exact hn

/-- bound on the requests of `scanLoopS` with `n` levels to go, stacks of length `d`, at most `m` of them -/
def scanBound (c : CfgS) : Nat → Nat → Nat → Nat
  | 0, _, _ => 0
  | n + 1, d, m => m * (127 * perProbe c d) + scanBound c n (d + 1) (127 * m)

theorem scanLoopS_len (c : CfgS) (L : Link σ) :
    ∀ (n d m : Nat) (x : StS σ), (∀ st ∈ x.found, st.length = d) → x.found.length ≤ m →
      LenLe (scanBound c n d m) x (scanLoopS c L n x)
  | 0, _, _, x, _, _ => LenLe.refl x
  | n + 1, d, m, x, hx, hm => by
    simp only [scanLoopS, scanBound]
    obtain ⟨l1, l2, l3⟩ := levelS_len c L d x hx
    split
    · exact (LenLe.refl x).mono (Nat.zero_le _)
    · have ih := scanLoopS_len c L n (d + 1) (127 * m) (levelS c L x) l1
        (Nat.le_trans l2 (Nat.mul_le_mul_left _ hm))
      exact (l3.mono (Nat.mul_le_mul_right _ hm)).trans ih

/-- the number of requests of the whole scan, against every link -/
theorem scanS_log_le (c : CfgS) (L : Link σ) (e : σ) : (scanS c L e).log.length ≤ scanBound c c.depth 1 1 := by
  have h := scanLoopS_len c L c.depth 1 1 (initS e)
    (fun st hst => by simp only [initS, List.mem_singleton] at hst; rw [hst]; rfl) (Nat.le_refl _)
  have h0 : (initS e).log.length = 0 := rfl
  unfold LenLe at h
  rw [h0, Nat.zero_add] at h
  exact h

end Gallia.SessionScan
