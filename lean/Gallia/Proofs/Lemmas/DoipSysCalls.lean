import Gallia.Proofs.Lemmas.DoipSysWait
/-
  Helper lemmas for C06 (DoIP, whole executions): a client call from its start over an arbitrary continuation
  (`call_run`), and what a closed connection does (`closed_run`, `settle_fatal`).
-/
namespace Gallia.DoipSys
open Gallia Gallia.Framing Gallia.Doip Gallia.DoipFifo

variable (c : Cfg) (yields : Raw → Bool)

theorem limit_pos (w : Want) (l : Nat) (h : w.limit = some l) : 0 < l := by
  cases w <;> simp [Want.limit, ackTimeoutMs, raTimeoutMs] at h <;> omega

theorem notDue_start (w : Want) (timeout : Option Nat) (ht : timeout ≠ some 0) (now : Nat) :
    notDue (expiry (w.limit.map (now + ·)) (timeout.map (now + ·))) now = true := by
  cases hl : w.limit with
  | none =>
    cases timeout with
    | none => simp [expiry, notDue]
    | some t =>
      have : t ≠ 0 := fun h => ht (by rw [h])
      simp [expiry, notDue]; omega
  | some l =>
    have hl' := limit_pos w l hl
    cases timeout with
    | none => simp [expiry, notDue]; omega
    | some t =>
      have : t ≠ 0 := fun h => ht (by rw [h])
      simp only [expiry, Option.map_some]
      split <;> simp [notDue] <;> omega

/-- **a client call from its start over any continuation.**  `s` is any state between two events with an idle client
    on an open connection; the call `w` (write / read / routing activation) starts now with the caller's `timeout`;
    `ops` is any continuation during which the reader task survives.  `seen` = the frames queued at the start followed
    by those the byte stream delivers strictly before the call's timers expire. -/
theorem call_run (s : Sys) (hinv : Inv c s) (hidle : s.client = .idle) (hopen : s.closed = false) (w : Want)
    (bytes : Option Bytes) (timeout : Option Nat) (ht : timeout ≠ some 0) (ops : List Op) (hsafe : rsafe s.buf ops) :
    (∀ t f, (s.queue.map (fun f => (s.now, f)) ++ (rlog s.buf s.now ops).filter
          (fun x => notDue (expiry (w.limit.map (s.now + ·)) (timeout.map (s.now + ·))) x.1)).find?
          (fun x => w.pred c x.2) = some (t, f) →
        ∃ more, (exec c yields (startCall c s w bytes timeout) ops).done = s.done ++ ⟨t, w, w.result f⟩ :: more) ∧
    ((s.queue.map (fun f => (s.now, f)) ++ (rlog s.buf s.now ops).filter
          (fun x => notDue (expiry (w.limit.map (s.now + ·)) (timeout.map (s.now + ·))) x.1)).find?
          (fun x => w.pred c x.2) = none →
        ∀ d byC, expiry (w.limit.map (s.now + ·)) (timeout.map (s.now + ·)) = some (d, byC) → d ≤ rnow s.now ops →
          (∃ more, (exec c yields (startCall c s w bytes timeout) ops).done =
              s.done ++ ⟨d, w, if byC then .timeout else .conn⟩ :: more) ∧
          (byC = false → (exec c yields (startCall c s w bytes timeout) ops).closed = true)) ∧
    ((s.queue.map (fun f => (s.now, f)) ++ (rlog s.buf s.now ops).filter
          (fun x => notDue (expiry (w.limit.map (s.now + ·)) (timeout.map (s.now + ·))) x.1)).find?
          (fun x => w.pred c x.2) = none →
        notDue (expiry (w.limit.map (s.now + ·)) (timeout.map (s.now + ·))) (rnow s.now ops) = true →
          (exec c yields (startCall c s w bytes timeout) ops).client =
            .waiting w (s.queue ++ (rlog s.buf s.now ops).map (·.2)) (w.limit.map (s.now + ·)) (timeout.map (s.now + ·)) ∧
          (exec c yields (startCall c s w bytes timeout) ops).done = s.done ∧
          (exec c yields (startCall c s w bytes timeout) ops).closed = false) := by
  have hinv1 : Inv c (startCall c s w bytes timeout) := startCall_inv c s w bytes timeout hinv
  rw [startCall_eq c s w bytes timeout hidle hopen] at hinv1 ⊢
  obtain ⟨b, hb⟩ : ∃ b : Sys, b = begun s w bytes timeout := ⟨_, rfl⟩
  rw [← hb] at hinv1 ⊢
  have hbcl : b.client = .waiting w [] (w.limit.map (s.now + ·)) (timeout.map (s.now + ·)) := by rw [hb]; rfl
  have hbo : b.closed = false := by rw [hb]; exact hopen
  have hrun : clientRun c b = scanOpen c w [] (w.limit.map (s.now + ·)) (timeout.map (s.now + ·)) b :=
    clientRun_open c hbcl hbo
  have hbq : b.queue = s.queue := by rw [hb]; rfl
  have hbd : b.done = s.done := by rw [hb]; rfl
  have hbn : b.now = s.now := by rw [hb]; rfl
  have hbb : b.buf = s.buf := by rw [hb]; rfl
  have hfm : (s.queue.map (fun f => (s.now, f))).find? (fun x => w.pred c x.2) =
      (s.queue.find? (w.pred c)).map (fun f => (s.now, f)) := by
    rw [List.find?_map]; rfl
  rw [List.find?_append, hfm]
  cases hf : s.queue.find? (w.pred c) with
  | some f =>
    obtain ⟨i1, i2⟩ := scanOpen_found c (s := b) (sk := []) (p := w.limit.map (s.now + ·))
      (cl := timeout.map (s.now + ·)) (by rw [hbq]; exact hf)
    obtain ⟨more, hm⟩ := exec_done_ext c yields ops _ hinv1
    refine ⟨fun t f' h => ?_, fun h => by simp at h, fun h => by simp at h⟩
    simp at h
    obtain ⟨rfl, rfl⟩ := h
    exact ⟨more, by rw [hm, hrun, i2, hbd, hbn, List.append_assoc]; rfl⟩
  | none =>
    have hnf := scanOpen_notfound c (s := b) (sk := []) (p := w.limit.map (s.now + ·))
      (cl := timeout.map (s.now + ·)) (by rw [hbq]; exact hf)
    rw [← hrun] at hnf
    have hcl1 : (clientRun c b).client =
        .waiting w s.queue (w.limit.map (s.now + ·)) (timeout.map (s.now + ·)) := by rw [hnf, hbq]; rfl
    have key := pending_run c yields ops (clientRun c b) w s.queue _ _ hinv1 hcl1
      (by rw [clientRun_now, hbn]; exact notDue_start w timeout ht s.now)
      (by rw [clientRun_buf', hbb]; exact hsafe)
    have e3 : (clientRun c b).done = s.done := by rw [hnf]; exact hbd
    rw [clientRun_buf', hbb, clientRun_now, hbn, e3] at key
    simp only [Option.map_none, Option.none_or]
    obtain ⟨k1, k2, k3⟩ := key
    refine ⟨k1, k2, fun h hnd => ?_⟩
    obtain ⟨a1, a2, _, a4⟩ := k3 h hnd
    exact ⟨a1, a2, a4⟩

/-- the request of a call on an open connection goes out the moment the call starts -/
theorem call_out (s : Sys) (hinv : Inv c s) (hidle : s.client = .idle) (hopen : s.closed = false) (w : Want)
    (b : Bytes) (timeout : Option Nat) (ops : List Op) :
    ∃ more, (exec c yields (startCall c s w (some b) timeout) ops).out = s.out ++ (s.now, b) :: more := by
  have hinv1 : Inv c (startCall c s w (some b) timeout) := startCall_inv c s w _ timeout hinv
  obtain ⟨more, hm⟩ := exec_stable c yields (outExt_stable c (startCall c s w (some b) timeout).out) ops _ hinv1.wf
    ⟨[], by simp⟩
  refine ⟨more, ?_⟩
  rw [hm, startCall_eq c s w _ timeout hidle hopen, clientRun_out]
  simp [begun, List.append_assoc]

/-! ### a closed connection -/

/-- every client call in `ops`, in order -/
def callsOf : List Op → List Want
  | [] => []
  | .activate _ _ :: ops => .rar :: callsOf ops
  | .write d _ :: ops => .ack d :: callsOf ops
  | .read _ :: ops => .diag :: callsOf ops
  | .feed _ :: ops => callsOf ops
  | .close :: ops => callsOf ops
  | .eof :: ops => callsOf ops
  | .advance _ :: ops => callsOf ops

/-- on a closed connection nothing is read, nothing is written, nothing is taken from the queue, no call blocks:
    every later call fails at once with a connection error -/
theorem closed_run (ops : List Op) (s : Sys) (hi : s.client = .idle) (hc : s.closed = true) :
    (exec c yields s ops).closed = true ∧ (exec c yields s ops).client = .idle ∧
    (exec c yields s ops).out = s.out ∧ (exec c yields s ops).queue = s.queue ∧
    (exec c yields s ops).tr = s.tr ∧ (exec c yields s ops).buf = s.buf ++ fedBytes ops ∧
    (∃ more, (exec c yields s ops).done = s.done ++ more ∧ more.map (·.w) = callsOf ops ∧
      ∀ e ∈ more, e.res = .conn) := by
  induction ops generalizing s with
  | nil => exact ⟨hc, hi, rfl, rfl, rfl, by simp [exec, fedBytes], [], by simp [exec, callsOf]⟩
  | cons op ops ih =>
    rw [exec_cons]
    have call : ∀ (w : Want) (bytes : Option Bytes) (t : Option Nat), startCall c s w bytes t = s.finish w .conn := by
      intro w bytes t; unfold startCall; rw [hi]; simp [hc]
    have viaCall : ∀ (w : Want) (s1 : Sys), s1 = s.finish w .conn → callsOf (op :: ops) = w :: callsOf ops →
        fedBytes (op :: ops) = fedBytes ops →
        (exec c yields s1 ops).closed = true ∧ (exec c yields s1 ops).client = .idle ∧
        (exec c yields s1 ops).out = s.out ∧ (exec c yields s1 ops).queue = s.queue ∧
        (exec c yields s1 ops).tr = s.tr ∧ (exec c yields s1 ops).buf = s.buf ++ fedBytes (op :: ops) ∧
        (∃ more, (exec c yields s1 ops).done = s.done ++ more ∧ more.map (·.w) = callsOf (op :: ops) ∧
          ∀ e ∈ more, e.res = .conn) := by
      intro w s1 e1 e2 e3
      obtain ⟨a1, a2, a3, a4, a5, a6, more, m1, m2, m3⟩ := ih s1 (by rw [e1]; rfl) (by rw [e1]; exact hc)
      refine ⟨a1, a2, by rw [a3, e1]; rfl, by rw [a4, e1]; rfl, by rw [a5, e1]; rfl, by rw [a6, e1, e3]; rfl,
        ⟨s.now, w, .conn⟩ :: more, ?_, ?_, ?_⟩
      · rw [m1, e1]; simp [Sys.finish]
      · rw [e2]; simp [m2]
      · intro e he
        rcases List.mem_cons.mp he with rfl | he
        · rfl
        · exact m3 e he
    have viaSame : ∀ (s1 : Sys), s1.client = .idle → s1.closed = true → s1.out = s.out → s1.queue = s.queue →
        s1.tr = s.tr → s1.done = s.done → s1.buf = s.buf ++ op.chunk → callsOf (op :: ops) = callsOf ops →
        (exec c yields s1 ops).closed = true ∧ (exec c yields s1 ops).client = .idle ∧
        (exec c yields s1 ops).out = s.out ∧ (exec c yields s1 ops).queue = s.queue ∧
        (exec c yields s1 ops).tr = s.tr ∧ (exec c yields s1 ops).buf = s.buf ++ fedBytes (op :: ops) ∧
        (∃ more, (exec c yields s1 ops).done = s.done ++ more ∧ more.map (·.w) = callsOf (op :: ops) ∧
          ∀ e ∈ more, e.res = .conn) := by
      intro s1 h1 h2 h3 h4 h5 h6 h7 h8
      obtain ⟨a1, a2, a3, a4, a5, a6, more, m1, m2, m3⟩ := ih s1 h1 h2
      refine ⟨a1, a2, by rw [a3, h3], by rw [a4, h4], by rw [a5, h5], ?_, more, by rw [m1, h6], by rw [h8, m2], m3⟩
      rw [a6, h7]; simp [fedBytes, List.append_assoc]
    cases op with
    | feed chunk =>
      have e : execOp c yields s (.feed chunk) = { s with buf := s.buf ++ chunk } := by
        simp only [execOp]; rw [settle_closed]; exact hc
      rw [e]
      exact viaSame _ hi hc rfl rfl rfl rfl rfl rfl
    | activate a t =>
      exact viaCall .rar _ (by simp only [execOp]; exact call .rar _ t) rfl (by simp [fedBytes, Op.chunk])
    | write d t =>
      exact viaCall (.ack d) _ (by simp only [execOp]; exact call (.ack d) _ t) rfl (by simp [fedBytes, Op.chunk])
    | read t =>
      exact viaCall .diag _ (by simp only [execOp]; exact call .diag _ t) rfl (by simp [fedBytes, Op.chunk])
    | close =>
      have e : execOp c yields s .close = { s with closed := true } := by simp [execOp, hi]
      rw [e]
      exact viaSame _ hi rfl rfl rfl rfl rfl (by simp [Op.chunk]) rfl
    | eof =>
      have e : execOp c yields s .eof = s := by simp [execOp, hc]
      rw [e]
      exact viaSame _ hi hc rfl rfl rfl rfl (by simp [Op.chunk]) rfl
    | advance dt =>
      have e : execOp c yields s (.advance dt) = { s with now := s.now + dt } := by
        simp only [execOp]
        have : fire s (s.now + dt) = s := by unfold fire; rw [hi]
        rw [this]
      rw [e]
      exact viaSame _ hi hc rfl rfl rfl rfl (by simp [Op.chunk]) rfl

/-- a frame that cannot be unpacked, complete in the receive buffer of an open connection, ends the reader task: the
    connection is closed when the loop comes to rest -/
theorem settle_fatal (s : Sys) (ho : s.closed = false) (hf : Item.fatal ∈ pendItems s.buf []) :
    (settle c yields s).closed = true := by
  generalize hn : s.buf.length = n
  induction n using Nat.strongRecOn generalizing s with
  | _ n ih =>
    cases hc : cut s.buf with
    | none => rw [pendItems_none hc] at hf; cases hf
    | some r =>
      obtain ⟨raw, rest⟩ := r
      have hl := cut_shrinks hc
      rw [pendItems_cut hc [], List.mem_cons] at hf
      rw [settle_some c yields s ho hc]
      split
      · rename_i h1; rw [clientRun_closed]; exact h1
      · rename_i h1
        have h1 : (deliver c { s with buf := rest } raw).closed = false := by simpa using h1
        have hnot : classify raw ≠ .fatal := by
          intro hcf
          rw [deliver_closed, hcf] at h1
          simp [Item.isFatal] at h1
        have hf' : Item.fatal ∈ pendItems rest [] := by
          rcases hf with hf | hf
          · exact absurd hf.symm hnot
          · exact hf
        split
        · exact ih _ (by rw [← hn]; exact hl) (clientRun c (deliver c { s with buf := rest } raw))
            (by rw [clientRun_closed]; exact h1) (by simpa using hf') (by simp)
        · exact ih _ (by rw [← hn]; exact hl) (deliver c { s with buf := rest } raw) h1 (by simpa using hf') (by simp)

end Gallia.DoipSys
