import Gallia.Proofs.Lemmas.ParseRange
import Gallia.Proofs.Lemmas.ParseQuote
/-! C20 helper lemmas: host:port strings and target URIs -/
namespace Gallia.Parse

/-! ### decimal port text -/

theorem digitChar_dec : ∀ d, d < 10 → isDigit (digitChar false d) = true ∧ (digitChar false d).toNat - 48 = d := by decide

theorem decVal_map (ds : List Nat) (h : ∀ d ∈ ds, d < 10) (acc : Nat) :
    (ds.map (digitChar false)).foldl (fun a c => a * 10 + (c.toNat - 48)) acc = valMSB 10 acc ds := by
  induction ds generalizing acc with
  | nil => rfl
  | cons d ds ih =>
    have hd := (digitChar_dec d (h d (by simp))).2
    simp only [List.map_cons, List.foldl_cons, hd, valMSB]
    exact ih (fun x hx => h x (by simp [hx])) _

theorem decVal_decStr (p : Nat) : decVal (decStr p) = p := by
  unfold decVal decStr
  rw [decVal_map _ (fun d hd => digitsLE_lt (by omega) p d (by simpa using hd))]
  unfold valMSB
  rw [List.foldl_reverse]
  exact foldr_digitsLE (by omega) p

theorem decStr_isDigit (p : Nat) : ∀ c ∈ decStr p, isDigit c = true := by
  intro c hc
  unfold decStr at hc
  simp only [List.mem_map, List.mem_reverse] at hc
  obtain ⟨d, hd, rfl⟩ := hc
  exact (digitChar_dec d (digitsLE_lt (by omega) p d hd)).1

theorem decStr_ne_nil (p : Nat) : decStr p ≠ [] := by
  unfold decStr; simp [digitsLE_ne_nil]

theorem parsePort_decStr (p : Nat) (hp : p ≤ 65535) : parsePort (decStr p) = some (some p) := by
  unfold parsePort
  have hall : (decStr p).all isDigit = true := List.all_eq_true.mpr (decStr_isDigit p)
  simp [decStr_ne_nil, hall, decVal_decStr, hp]

/-! ### host alphabet -/

/-- lower-case letters, digits, `.`, `-`, `_`, `:` (IPv6) and `%` (zone) -/
def hostChar (c : Char) : Bool :=
  isLowerCh c || isDigit c || c == '.' || c == '-' || c == '_' || c == ':' || c == '%'

structure HostOK (h : Str) : Prop where
  ne : h ≠ []
  chars : ∀ c ∈ h, hostChar c = true

theorem hostChar_excl : ∀ x ∈ ['[', ']', '/', '?', '#', '&', '=', '@'], hostChar x = false := by decide

theorem hostChar_not {c : Char} (h : hostChar c = true) {x : Char} (hx : x ∈ ['[', ']', '/', '?', '#', '&', '=', '@']) :
    c ≠ x := by
  intro e; subst e; have := hostChar_excl c hx; simp_all

theorem isDigit_not_upper {c : Char} (h : isDigit c = true) : isUpperCh c = false := by
  simp only [isDigit, isUpperCh, Bool.and_eq_true, decide_eq_true_eq] at h ⊢
  simp only [Bool.and_eq_false_iff, decide_eq_false_iff_not]
  omega

theorem hostChar_lower {c : Char} (h : hostChar c = true) : lowerCh c = c := by
  have hu : isUpperCh c = false := by
    simp only [hostChar, Bool.or_eq_true, beq_iff_eq] at h
    rcases h with (((((h | h) | h) | h) | h) | h) | h
    · simp only [isLowerCh, isUpperCh, Bool.and_eq_true, decide_eq_true_eq] at h ⊢
      simp only [Bool.and_eq_false_iff, decide_eq_false_iff_not]; omega
    · exact isDigit_not_upper h
    all_goals (subst h; decide)
  simp [lowerCh, hu]

theorem lower_host {h : Str} (hok : HostOK h) : lower h = h := by
  unfold lower
  have : ∀ c ∈ h, lowerCh c = c := fun c hc => hostChar_lower (hok.chars c hc)
  clear hok
  induction h with
  | nil => rfl
  | cons a t ih =>
    simp only [List.map_cons, this a (by simp)]
    rw [ih (fun c hc => this c (by simp [hc]))]


/-! ### scanning up to a delimiter -/

theorem takeWhile_stop (p : Char → Bool) (a : Str) (c : Char) (rest : Str) (ha : ∀ x ∈ a, p x = true)
    (hc : p c = false) : (a ++ c :: rest).takeWhile p = a := by
  induction a with
  | nil => simp [List.takeWhile, hc]
  | cons x xs ih =>
    simp only [List.cons_append, List.takeWhile_cons, ha x (by simp), if_true]
    rw [ih (fun y hy => ha y (by simp [hy]))]

theorem dropWhile_stop (p : Char → Bool) (a : Str) (c : Char) (rest : Str) (ha : ∀ x ∈ a, p x = true)
    (hc : p c = false) : (a ++ c :: rest).dropWhile p = c :: rest := by
  rw [dropWhile_all_append a _ ha]
  simp [List.dropWhile, hc]

theorem takeWhile_all (p : Char → Bool) (a : Str) (ha : ∀ x ∈ a, p x = true) : a.takeWhile p = a := by
  induction a with
  | nil => rfl
  | cons x xs ih =>
    simp only [List.takeWhile_cons, ha x (by simp), if_true]
    rw [ih (fun y hy => ha y (by simp [hy]))]

theorem dropWhile_all (p : Char → Bool) (a : Str) (ha : ∀ x ∈ a, p x = true) : a.dropWhile p = [] := by
  have := dropWhile_all_append a [] ha
  simpa using this

theorem splitFirst_stop (c : Char) (a rest : Str) (ha : c ∉ a) : splitFirst c (a ++ c :: rest) = (a, some rest) := by
  have hp : ∀ x ∈ a, (decide (x ≠ c)) = true := by
    intro x hx; simp only [decide_eq_true_eq]; intro e; subst e; exact ha hx
  unfold splitFirst
  rw [dropWhile_stop _ a c rest hp (by simp)]
  simp only
  rw [takeWhile_stop _ a c rest hp (by simp)]

theorem splitFirst_none (c : Char) (a : Str) (ha : c ∉ a) : splitFirst c a = (a, none) := by
  have hp : ∀ x ∈ a, (decide (x ≠ c)) = true := by
    intro x hx; simp only [decide_eq_true_eq]; intro e; subst e; exact ha hx
  unfold splitFirst
  rw [dropWhile_all _ a hp]

/-! ### host:port -/

theorem isDigit_props : ∀ x ∈ [':', '[', ']', '/', '?', '#', '&', '=', '@'], isDigit x = false := by decide

theorem not_mem_decStr (p : Nat) {x : Char} (hx : x ∈ [':', '[', ']', '/', '?', '#', '&', '=', '@']) : x ∉ decStr p := by
  intro hm
  have := decStr_isDigit p x hm
  have := isDigit_props x hx
  simp_all

def portOK (p : Option Nat) : Prop := ∀ q, p = some q → q ≤ 65535

theorem hostInfo_netloc (h : Str) (hok : HostOK h) (p : Option Nat) (hp : portOK p) :
    hostInfo (netlocOf h p) = some (h, p) := by
  have hl := lower_host hok
  have hnb : ∀ x ∈ h, (decide (x ≠ ']')) = true := by
    intro x hx; simp only [decide_eq_true_eq]; exact hostChar_not (hok.chars x hx) (by simp)
  by_cases hc : ':' ∈ h
  · unfold netlocOf
    simp only [hc, if_true]
    cases p with
    | none =>
      simp only [List.append_nil, List.cons_append]
      unfold hostInfo
      simp only
      rw [dropWhile_stop _ h ']' [] hnb (by simp), takeWhile_stop _ h ']' [] hnb (by simp)]
      simp [hl]
    | some q =>
      simp only [List.cons_append, List.append_assoc, List.nil_append]
      unfold hostInfo
      simp only
      rw [dropWhile_stop _ h ']' _ hnb (by simp), takeWhile_stop _ h ']' _ hnb (by simp)]
      simp [hl, parsePort_decStr q (hp q rfl)]
  · unfold netlocOf
    simp only [hc, if_false]
    cases hh : h with
    | nil => exact absurd hh hok.ne
    | cons a t =>
      have ha : a ≠ '[' := hostChar_not (hok.chars a (by simp [hh])) (by simp)
      have hc' : ':' ∉ a :: t := hh ▸ hc
      cases p with
      | none =>
        have hs : splitOnC ':' (a :: t) = [a :: t] := by
          have := splitOnC_joinC ':' [a :: t] (by simp) (by simpa using hc')
          simpa [joinC] using this
        unfold hostInfo
        split
        · rename_i heq; simp at heq; exact absurd heq.1 ha
        · simp only [List.append_nil] at *
          rw [hs]; simp [← hh, hl]
      | some q =>
        have hs : splitOnC ':' (a :: t ++ ':' :: decStr q) = [a :: t, decStr q] := by
          have := splitOnC_joinC ':' [a :: t, decStr q] (by simp) (by
            intro r hr; simp at hr; rcases hr with rfl | rfl
            · exact hc'
            · exact not_mem_decStr q (by simp))
          simpa [joinC] using this
        unfold hostInfo
        split
        · rename_i heq; simp at heq; exact absurd heq.1 ha
        · rw [hs]; simp [← hh, hl, parsePort_decStr q (hp q rfl)]

theorem splitHostPort_join (h : Str) (hok : HostOK h) (p : Nat) (hp : p ≤ 65535) (d : Option Nat) :
    splitHostPort (joinHostPort h p) d = some (h, some p) := by
  have hi := hostInfo_netloc h hok (some p) (fun q hq => by cases hq; exact hp)
  unfold splitHostPort joinHostPort
  have hcond : ¬ ((netlocOf h (some p)).head? ≠ some '[' ∧ (netlocOf h (some p)).count ':' ≥ 2) := by
    by_cases hc : ':' ∈ h
    · unfold netlocOf; simp [hc]
    · unfold netlocOf
      simp only [hc, if_false]
      intro hcon
      have h1 : h.count ':' = 0 := List.count_eq_zero.mpr hc
      have h2 : (decStr p).count ':' = 0 := List.count_eq_zero.mpr (not_mem_decStr p (by simp))
      have := hcon.2
      simp [List.count_append, List.count_cons, h1, h2] at this
  rw [if_neg hcond, hi]
  rfl


/-! ### target URIs -/

def schemeCh (c : Char) : Bool := isLowerCh c || isDigit c || c == '+' || c == '-' || c == '.'

structure SchemeOK (s : Str) : Prop where
  head : ∃ c t, s = c :: t ∧ isLowerCh c = true
  chars : ∀ c ∈ s, schemeCh c = true

/-- what `from_parts` can write and `qs_flat` gives back unchanged: distinct names (a `dict` has them anyway), no blank value -/
structure ArgsOK (args : Args) : Prop where
  vals : ∀ kv ∈ args, kv.2 ≠ []
  nodup : (args.map (·.1)).Nodup

theorem schemeCh_isSchemeChar {c : Char} (h : schemeCh c = true) : isSchemeChar c = true := by
  simp only [schemeCh, isSchemeChar, isAlphaCh, Bool.or_eq_true] at h ⊢
  grind

theorem schemeCh_ne_colon {c : Char} (h : schemeCh c = true) : c ≠ ':' := by
  intro e; subst e; revert h; decide

theorem schemeCh_lower {c : Char} (h : schemeCh c = true) : lowerCh c = c := by
  have hu : isUpperCh c = false := by
    simp only [schemeCh, Bool.or_eq_true, beq_iff_eq] at h
    rcases h with (((h | h) | h) | h) | h
    · simp only [isLowerCh, isUpperCh, Bool.and_eq_true, decide_eq_true_eq] at h ⊢
      simp only [Bool.and_eq_false_iff, decide_eq_false_iff_not]; omega
    · exact isDigit_not_upper h
    all_goals (subst h; decide)
  simp [lowerCh, hu]

theorem lower_scheme {s : Str} (h : SchemeOK s) : lower s = s := by
  unfold lower
  have : ∀ c ∈ s, lowerCh c = c := fun c hc => schemeCh_lower (h.chars c hc)
  clear h
  induction s with
  | nil => rfl
  | cons a t ih =>
    simp only [List.map_cons, this a (by simp)]
    rw [ih (fun c hc => this c (by simp [hc]))]

/-! #### the query: `urlencode` then `parse_qs` / `qs_flat` -/

def pieceOf (kv : Str × Str) : Str := quotePlus kv.1 ++ '=' :: quotePlus kv.2

theorem pieceOf_chars (kv : Str × Str) : ∀ c ∈ pieceOf kv, qpChar c = true ∨ c = '=' := by
  intro c hc
  simp only [pieceOf, List.mem_append, List.mem_cons] at hc
  rcases hc with h | h | h
  · exact Or.inl (quotePlus_chars _ c h)
  · exact Or.inr h
  · exact Or.inl (quotePlus_chars _ c h)

theorem not_mem_pieceOf (kv : Str × Str) {x : Char} (hx : x ∈ ['&', '#', '?']) : x ∉ pieceOf kv := by
  intro hm
  rcases pieceOf_chars kv x hm with h | h
  · have : x ∈ ['&', '=', '#', '?', '/', ' ', ':', '[', ']', '@'] := by
      simp only [List.mem_cons, List.not_mem_nil, or_false] at hx ⊢; grind
    exact qpChar_not h this rfl
  · subst h; simp at hx

theorem quotePlus_nil : quotePlus [] = [] := by simp [quotePlus, utf8Str, quotePlusB]

theorem quotePlus_eq_nil {s : Str} : quotePlus s = [] ↔ s = [] := by
  constructor
  · intro h; by_cases hs : s = []
    · exact hs
    · exact absurd h (quotePlus_ne_nil hs)
  · intro h; subst h; exact quotePlus_nil

/-- one `k=v` piece read back: dropped when the value is blank, unquoted otherwise -/
theorem readPiece (kv : Str × Str) :
    (match splitFirst '=' (pieceOf kv) with
      | (k, some v) => if v = [] then none else some (unquotePlus k, unquotePlus v)
      | (_, none) => none) = if kv.2 = [] then none else some kv := by
  have hk : '=' ∉ quotePlus kv.1 := fun hm => qpChar_not (quotePlus_chars _ _ hm) (by simp) rfl
  unfold pieceOf
  rw [splitFirst_stop '=' _ _ hk]
  simp only [quotePlus_eq_nil, unquotePlus_quotePlus]

theorem qsPairs_pieces (args : Args) :
    (args.map pieceOf).filterMap (fun piece =>
      match splitFirst '=' piece with
      | (k, some v) => if v = [] then none else some (unquotePlus k, unquotePlus v)
      | (_, none) => none) = args.filter (fun kv => kv.2 ≠ []) := by
  induction args with
  | nil => rfl
  | cons kv rest ih =>
    simp only [List.map_cons, List.filterMap_cons, readPiece kv, List.filter_cons]
    by_cases hv : kv.2 = []
    · simp [hv, ih]
    · simp [hv, ih]

/-- `parse_qsl(urlencode(args))` is `args` without the entries whose value is blank -/
theorem qsPairs_queryOf (args : Args) : qsPairs (queryOf args) = args.filter (fun kv => kv.2 ≠ []) := by
  cases hargs : args with
  | nil => decide
  | cons kv rest =>
    rw [← hargs]
    have hq : queryOf args = joinC '&' (args.map pieceOf) := rfl
    unfold qsPairs
    rw [hq, splitOnC_joinC '&' _ (by simp [hargs])]
    · exact qsPairs_pieces args
    · intro p hp
      simp only [List.mem_map] at hp
      obtain ⟨x, _, rfl⟩ := hp
      exact not_mem_pieceOf x (by simp)

theorem firstWins_nodup (args : Args) (h : (args.map (·.1)).Nodup) : firstWins args = args := by
  induction args with
  | nil => rfl
  | cons kv rest ih =>
    have hn : kv.1 ∉ rest.map (·.1) ∧ (rest.map (·.1)).Nodup := by
      rw [List.map_cons] at h; exact List.nodup_cons.mp h
    simp only [firstWins]
    rw [ih hn.2]
    congr 1
    apply List.filter_eq_self.mpr
    intro x hx
    simp only [ne_eq, decide_eq_true_eq]
    intro e
    exact hn.1 (by rw [← e]; exact List.mem_map_of_mem hx)

/-- `qs_flat` of a written query, for *every* parameter list: blank values are dropped, the first of several values of
    one name is kept -/
theorem qsFlat_queryOf_any (args : Args) : qsFlat (queryOf args) = firstWins (args.filter (fun kv => kv.2 ≠ [])) := by
  unfold qsFlat; rw [qsPairs_queryOf]

theorem qsFlat_queryOf (args : Args) (h : ArgsOK args) : qsFlat (queryOf args) = args := by
  rw [qsFlat_queryOf_any]
  have hf : args.filter (fun kv => kv.2 ≠ []) = args :=
    List.filter_eq_self.mpr (fun kv hkv => by simpa using h.vals kv hkv)
  rw [hf, firstWins_nodup args h.nodup]

theorem not_mem_queryOf (args : Args) : '#' ∉ queryOf args := by
  intro hm
  have hq : queryOf args = joinC '&' (args.map pieceOf) := rfl
  rw [hq] at hm
  rcases mem_joinC _ _ _ hm with e | ⟨p, hp, hx⟩
  · exact absurd e (by decide)
  · simp only [List.mem_map] at hp
    obtain ⟨x, _, rfl⟩ := hp
    exact not_mem_pieceOf x (by simp) hx

theorem netloc_no_delim (h : Str) (hok : HostOK h) (p : Option Nat) :
    ∀ x ∈ netlocOf h p, (!isDelim x) = true := by
  have hd : ∀ x, x ∈ h ∨ x = '[' ∨ x = ']' ∨ x = ':' ∨ (∃ q, x ∈ decStr q) → (!isDelim x) = true := by
    intro x hx
    rcases hx with hx | rfl | rfl | rfl | ⟨q, hx⟩
    · have h1 := hostChar_not (hok.chars x hx) (x := '/') (by simp)
      have h2 := hostChar_not (hok.chars x hx) (x := '?') (by simp)
      have h3 := hostChar_not (hok.chars x hx) (x := '#') (by simp)
      simp [isDelim, h1, h2, h3]
    · decide
    · decide
    · decide
    · have h1 : x ≠ '/' := fun e => not_mem_decStr q (x := '/') (by simp) (e ▸ hx)
      have h2 : x ≠ '?' := fun e => not_mem_decStr q (x := '?') (by simp) (e ▸ hx)
      have h3 : x ≠ '#' := fun e => not_mem_decStr q (x := '#') (by simp) (e ▸ hx)
      simp [isDelim, h1, h2, h3]
  intro x hx
  apply hd
  unfold netlocOf at hx
  cases p with
  | none => split at hx <;> simp at hx <;> grind
  | some q =>
    split at hx <;> simp at hx
    · rcases hx with rfl | hx | rfl | rfl | hx
      · simp
      · simp [hx]
      · simp
      · simp
      · right; right; right; right; exact ⟨q, hx⟩
    · rcases hx with hx | rfl | hx
      · simp [hx]
      · simp
      · right; right; right; right; exact ⟨q, hx⟩

theorem hostPortOf_netloc (h : Str) (hok : HostOK h) (p : Option Nat) (hp : portOK p) :
    hostPortOf (netlocOf h p) = (some h, some p) := by
  have hl := lower_host hok
  by_cases hc : ':' ∈ h
  · have hi := hostInfo_netloc h hok p hp
    obtain ⟨r, hform⟩ : ∃ r, netlocOf h p = '[' :: r := by
      unfold netlocOf; simp [hc]
    unfold hostPortOf
    rw [hform] at hi ⊢
    simp only [hi]
    simp [hok.ne]
  · cases hh : h with
    | nil => exact absurd hh hok.ne
    | cons a t =>
      have ha : a ≠ '[' := hostChar_not (hok.chars a (by simp [hh])) (by simp)
      have hc' : ':' ∉ a :: t := hh ▸ hc
      have hl' : lower (a :: t) = a :: t := hh ▸ hl
      unfold netlocOf hostPortOf
      simp only [hc', if_false]
      cases p with
      | none =>
        simp only [List.append_nil]
        split
        · rename_i heq; simp at heq; exact absurd heq.1 ha
        · rw [splitFirst_none ':' _ hc']; simp [hl']
      | some q =>
        split
        · rename_i heq; simp at heq; exact absurd heq.1 ha
        · rw [splitFirst_stop ':' _ _ hc']; simp [hl', parsePort_decStr q (hp q rfl)]


def qpartOf (args : Args) : Str := if args = [] then [] else '?' :: queryOf args

theorem splitNetloc_eq (h : Str) (hok : HostOK h) (p : Option Nat) (args : Args) :
    splitNetloc ('/' :: '/' :: (netlocOf h p ++ qpartOf args)) = (netlocOf h p, qpartOf args) := by
  have hnd := netloc_no_delim h hok p
  unfold splitNetloc
  simp only
  unfold qpartOf
  split
  · simp only [List.append_nil]
    rw [takeWhile_all _ _ hnd, dropWhile_all _ _ hnd]
  · rw [takeWhile_stop _ _ '?' _ hnd (by decide), dropWhile_stop _ _ '?' _ hnd (by decide)]

theorem pathPart_qpartOf (args : Args) : pathPart (qpartOf args) = [] := by
  unfold qpartOf pathPart
  split
  · rfl
  · simp [List.takeWhile]

theorem queryPart_qpartOf (args : Args) : queryPart (qpartOf args) = queryOf args := by
  unfold qpartOf
  split
  · rename_i he; subst he; decide
  · unfold queryPart
    have : (('?' :: queryOf args).dropWhile (fun c => decide (c ≠ '?' ∧ c ≠ '#'))) = '?' :: queryOf args := by
      simp [List.dropWhile]
    rw [this]
    simp only
    apply takeWhile_all
    intro x hx
    simp only [decide_eq_true_eq]
    intro e; subst e
    exact not_mem_queryOf args hx

/-! #### `urlsplit`'s cleaning leaves a written URI alone -/

def visible (c : Char) : Bool := 32 < c.toNat

theorem cleanUrl_visible (s : Str) (h : ∀ c ∈ s, visible c = true) : cleanUrl s = s := by
  unfold cleanUrl
  have h1 : s.dropWhile (fun c => decide (c.toNat ≤ 32)) = s := by
    cases s with
    | nil => rfl
    | cons a t =>
      have := h a (by simp)
      simp only [visible, decide_eq_true_eq] at this
      have hn : ¬ a.toNat ≤ 32 := by omega
      simp [List.dropWhile, hn]
  rw [h1]
  apply List.filter_eq_self.mpr
  intro c hc
  have hv := h c hc
  simp only [visible, decide_eq_true_eq] at hv
  simp only [ne_eq, decide_eq_true_eq]
  refine ⟨?_, ?_, ?_⟩ <;> (intro e; subst e; simp at hv)

theorem visible_of_range {c : Char} (h : 33 ≤ c.toNat) : visible c = true := by simp [visible]; omega

theorem schemeCh_visible {c : Char} (h : schemeCh c = true) : visible c = true := by
  simp only [schemeCh, isLowerCh, isDigit, Bool.or_eq_true, Bool.and_eq_true, decide_eq_true_eq, beq_iff_eq] at h
  rcases h with (((h | h) | h) | h) | h
  · exact visible_of_range (by omega)
  · exact visible_of_range (by omega)
  all_goals (subst h; decide)

theorem hostChar_visible {c : Char} (h : hostChar c = true) : visible c = true := by
  simp only [hostChar, isLowerCh, isDigit, Bool.or_eq_true, Bool.and_eq_true, decide_eq_true_eq, beq_iff_eq] at h
  rcases h with (((((h | h) | h) | h) | h) | h) | h
  · exact visible_of_range (by omega)
  · exact visible_of_range (by omega)
  all_goals (subst h; decide)

theorem qpChar_visible {c : Char} (h : qpChar c = true) : visible c = true := by
  simp only [qpChar, Bool.or_eq_true, Bool.and_eq_true, decide_eq_true_eq, beq_iff_eq] at h
  exact visible_of_range (by omega)

theorem decStr_visible (p : Nat) : ∀ c ∈ decStr p, visible c = true := by
  intro c hc
  have := decStr_isDigit p c hc
  simp only [isDigit, Bool.and_eq_true, decide_eq_true_eq] at this
  exact visible_of_range (by omega)

theorem netlocOf_visible (h : Str) (hok : HostOK h) (p : Option Nat) : ∀ c ∈ netlocOf h p, visible c = true := by
  intro c hc
  unfold netlocOf at hc
  simp only [List.mem_append] at hc
  rcases hc with hc | hc
  · split at hc
    · simp only [List.mem_cons, List.mem_append, List.not_mem_nil, or_false] at hc
      rcases hc with (rfl | hc) | rfl
      · decide
      · exact hostChar_visible (hok.chars c hc)
      · decide
    · exact hostChar_visible (hok.chars c hc)
  · cases p with
    | none => simp at hc
    | some q =>
      simp only [List.mem_cons] at hc
      rcases hc with rfl | hc
      · decide
      · exact decStr_visible q c hc

theorem queryOf_visible (args : Args) : ∀ c ∈ queryOf args, visible c = true := by
  intro c hm
  have hq : queryOf args = joinC '&' (args.map pieceOf) := rfl
  rw [hq] at hm
  rcases mem_joinC _ _ _ hm with e | ⟨p, hp, hx⟩
  · subst e; decide
  · simp only [List.mem_map] at hp
    obtain ⟨x, _, rfl⟩ := hp
    rcases pieceOf_chars x c hx with h | h
    · exact qpChar_visible h
    · subst h; decide

theorem fromParts_visible (sch h : Str) (p : Option Nat) (args : Args) (hs : SchemeOK sch) (hok : HostOK h) :
    ∀ c ∈ fromParts sch h p args, visible c = true := by
  intro c hc
  unfold fromParts at hc
  simp only [List.mem_append, List.mem_cons, List.not_mem_nil, or_false] at hc
  rcases hc with ((hc | hc) | hc) | hc
  · exact schemeCh_visible (hs.chars c hc)
  · rcases hc with rfl | rfl | rfl <;> decide
  · exact netlocOf_visible h hok p c hc
  · split at hc
    · simp at hc
    · simp only [List.mem_cons] at hc
      rcases hc with rfl | hc
      · decide
      · exact queryOf_visible args c hc

theorem parseUri_fromParts (sch h : Str) (p : Option Nat) (args : Args) (hs : SchemeOK sch) (hok : HostOK h)
    (hp : portOK p) (ha : ArgsOK args) :
    parseUri (fromParts sch h p args) = some ⟨sch, some h, some p, [], args⟩ := by
  have hform : fromParts sch h p args = sch ++ ':' :: ('/' :: '/' :: (netlocOf h p ++ qpartOf args)) := by
    unfold fromParts qpartOf; simp
  have hcolon : ':' ∉ sch := fun hm => schemeCh_ne_colon (hs.chars _ hm) rfl
  obtain ⟨c, t, hct, hlow⟩ := hs.head
  have hne : sch ≠ [] := by simp [hct]
  have hall : sch.all isSchemeChar = true :=
    List.all_eq_true.mpr (fun x hx => schemeCh_isSchemeChar (hs.chars x hx))
  have hhead : sch.head?.any isAlphaCh = true := by simp [hct, isAlphaCh, hlow]
  unfold parseUri
  rw [cleanUrl_visible _ (fromParts_visible sch h p args hs hok)]
  simp only
  rw [hform, splitFirst_stop ':' sch _ hcolon]
  simp only [hne, hall, hhead, Bool.not_true, Bool.false_eq_true, or_self, if_false]
  rw [splitNetloc_eq h hok p args]
  simp only [hostPortOf_netloc h hok p hp, queryPart_qpartOf args, pathPart_qpartOf args, qsFlat_queryOf args ha, lower_scheme hs]

theorem find_filter_ne (k k2 : Str) (hk : k2 ≠ k) (l : Args) :
    (l.filter (fun x => x.1 ≠ k2)).find? (fun x => x.1 = k) = l.find? (fun x => x.1 = k) := by
  induction l with
  | nil => rfl
  | cons x xs ih =>
    by_cases hxk : x.1 = k2
    · have h1 : (decide (x.1 ≠ k2)) = false := by simp [hxk]
      have h2 : decide (x.1 = k) = false := by rw [hxk]; simpa using hk
      rw [List.filter_cons, h1]
      simp only [Bool.false_eq_true, if_false]
      rw [List.find?_cons, h2]
      exact ih
    · have h1 : (decide (x.1 ≠ k2)) = true := by simp [hxk]
      rw [List.filter_cons, h1]
      simp only [if_true]
      rw [List.find?_cons, List.find?_cons, ih]

theorem cleanUrl_keep (sch rest : Str) (hs : SchemeOK sch) (hr : ∀ c ∈ rest, c ≠ '\t' ∧ c ≠ '\r' ∧ c ≠ '\n') :
    cleanUrl (sch ++ rest) = sch ++ rest := by
  obtain ⟨c, t, hct, _⟩ := hs.head
  have hv : ∀ x ∈ sch, visible x = true := fun x hx => schemeCh_visible (hs.chars x hx)
  unfold cleanUrl
  have h1 : (sch ++ rest).dropWhile (fun c => decide (c.toNat ≤ 32)) = sch ++ rest := by
    have := hv c (by simp [hct])
    simp only [visible, decide_eq_true_eq] at this
    have hn : ¬ c.toNat ≤ 32 := by omega
    simp [hct, List.dropWhile, hn]
  rw [h1]
  apply List.filter_eq_self.mpr
  intro x hx
  simp only [ne_eq, decide_eq_true_eq]
  rcases List.mem_append.mp hx with hx | hx
  · have := hv x hx
    simp only [visible, decide_eq_true_eq] at this
    refine ⟨?_, ?_, ?_⟩ <;> (intro e; subst e; simp at this)
  · exact hr x hx

end Gallia.Parse
