import Gallia.Model.Scans
/-
  Frame lemmas for the scanner model: which requests a scanner function can put on the wire at all, stated as
  "every state predicate that is preserved by those requests is preserved by the function" (for runs that end
  normally and for runs that end in an exception alike, since the state survives `raised`).  Instantiated with
  "the log grew by allowed requests only" they give the wire-level theorems, with "the ECU is in session k" the
  session-tracking ones.
-/
namespace Gallia.Scans
open Gallia

variable {σ : Type}

/-- the requests `set_session(k)` sends: the session change and the hook requests of `k` -/
def SetReq (h : Hooks) (k : Nat) (p : Bytes) : Prop := p = dscPdu k ∨ p ∈ h.pre k ∨ p ∈ h.post k

/-- the requests `check_and_set_session(k)` sends: the read-back, and what `set_session(k)` sends -/
def MaintReq (h : Hooks) (k : Nat) (p : Bytes) : Prop := p = readSessionPdu ∨ SetReq h k p

theorem runHook_inv (e : Ecu σ) (I : σ → Prop) (ps : List Bytes)
    (hI : ∀ s p, p ∈ ps → I s → I (e.step s p).1) (s : σ) (h : I s) : I (runHook e ps s).1 := by
  induction ps generalizing s with
  | nil => simpa [runHook] using h
  | cons p ps ih =>
    have h1 : I (e.step s p).1 := hI s p (by simp) h
    simp only [runHook]
    split
    · exact h1
    · exact ih (fun s q hq => hI s q (by simp [hq])) _ h1

theorem setSession_inv (e : Ecu σ) (I : σ → Prop) (hk : Hooks) (k : Nat)
    (hI : ∀ s p, SetReq hk k p → I s → I (e.step s p).1) (s : σ) (h : I s) : I (setSession e hk k s).1 := by
  have h0 : I (runHook e (hk.pre k) s).1 :=
    runHook_inv e I _ (fun s p hp => hI s p (Or.inr (Or.inl hp))) s h
  simp only [setSession]
  cases hr : runHook e (hk.pre k) s with
  | mk s0 r0 =>
    rw [hr] at h0
    cases r0 with
    | raised w => exact h0
    | ok u =>
      have h1 : I (e.step s0 (dscPdu k)).1 := hI s0 _ (Or.inl rfl) h0
      simp only []
      cases hd : e.step s0 (dscPdu k) with
      | mk s1 a =>
        rw [hd] at h1
        cases a with
        | pos p =>
          simp only []
          have h2 : I (runHook e (hk.post k) s1).1 :=
            runHook_inv e I _ (fun s p hp => hI s p (Or.inr (Or.inr hp))) s1 h1
          cases hp : runHook e (hk.post k) s1 with
          | mk s2 r2 =>
            rw [hp] at h2
            cases r2 <;> exact h2
        | neg c => exact h1
        | timeout => exact h1
        | illegal => exact h1
        | stuck => exact h1

theorem readSession_inv (e : Ecu σ) (I : σ → Prop)
    (hI : ∀ s, I s → I (e.step s readSessionPdu).1) (s : σ) (h : I s) : I (readSession e s).1 := by
  have h1 := hI s h
  simp only [readSession]
  cases hd : e.step s readSessionPdu with
  | mk s1 a =>
    rw [hd] at h1
    cases a <;> exact h1

theorem checkRetry_inv (e : Ecu σ) (I : σ → Prop) (hk : Hooks) (k : Nat)
    (hI : ∀ s p, MaintReq hk k p → I s → I (e.step s p).1) (n : Nat) (s : σ) (h : I s) :
    I (checkRetry e hk k n s).1 := by
  induction n generalizing s with
  | zero => simpa [checkRetry] using h
  | succ n ih =>
    have h1 : I (setSession e hk k s).1 := setSession_inv e I hk k (fun s p hp => hI s p (Or.inr hp)) s h
    simp only [checkRetry]
    cases hs : setSession e hk k s with
    | mk s1 r1 =>
      rw [hs] at h1
      cases r1 with
      | raised w => exact h1
      | ok a =>
        simp only []
        have h2 : I (readSession e s1).1 := readSession_inv e I (fun s => hI s _ (Or.inl rfl)) s1 h1
        cases hr : readSession e s1 with
        | mk s2 r2 =>
          rw [hr] at h2
          cases r2 with
          | is cur =>
            simp only []
            split
            · exact h2
            · exact ih s2 h2
          | skipCheck => exact h2
          | raise w => exact h2

theorem checkAndSetSession_inv (e : Ecu σ) (I : σ → Prop) (hk : Hooks) (k retries : Nat)
    (hI : ∀ s p, MaintReq hk k p → I s → I (e.step s p).1) (s : σ) (h : I s) :
    I (checkAndSetSession e hk k retries s).1 := by
  have h2 : I (readSession e s).1 := readSession_inv e I (fun s => hI s _ (Or.inl rfl)) s h
  simp only [checkAndSetSession]
  cases hr : readSession e s with
  | mk s2 r2 =>
    rw [hr] at h2
    cases r2 with
    | is cur =>
      simp only []
      split
      · exact h2
      · exact checkRetry_inv e I hk k hI _ s2 h2
    | skipCheck => exact h2
    | raise w => exact h2

theorem waitForEcu_inv (e : Ecu σ) (I : σ → Prop)
    (hI : ∀ s, I s → I (e.step s pingPdu).1) (n : Nat) (s : σ) (h : I s) : I (waitForEcu e n s).1 := by
  induction n using Nat.strongRecOn generalizing s with
  | _ n ih =>
    match n with
    | 0 => simpa [waitForEcu] using h
    | 1 => simpa [waitForEcu] using h
    | n+2 =>
      have h1 := hI s h
      simp only [waitForEcu]
      cases hd : e.step s pingPdu with
      | mk s1 a =>
        rw [hd] at h1
        cases a with
        | pos p => exact h1
        | neg c => exact h1
        | illegal => exact ih (n+1) (by omega) s1 h1
        | timeout => exact ih n (by omega) s1 h1
        | stuck => exact h1

theorem probeLens_inv (e : Ecu σ) (I : σ → Prop) (sid : Nat) (ls : List Nat)
    (hI : ∀ s l, l ∈ ls → I s → I (e.step s (probePdu sid l)).1) (s : σ) (h : I s) :
    I (probeLens e sid ls s).1 := by
  induction ls generalizing s with
  | nil => simpa [probeLens] using h
  | cons l ls ih =>
    have h1 := hI s l (by simp) h
    have ih' := fun s hs => ih (fun s l hl => hI s l (by simp [hl])) s hs
    simp only [probeLens]
    cases hd : e.step s (probePdu sid l) with
    | mk s1 a =>
      rw [hd] at h1
      cases a with
      | pos p => exact h1
      | timeout => exact ih' s1 h1
      | stuck => exact h1
      | illegal =>
        simp only []
        have := ih' s1 h1
        cases hp : probeLens e sid ls s1 with
        | mk s2 r2 =>
          rw [hp] at this
          cases r2 with
          | ok v => exact this
          | raised w => exact this
      | neg c =>
        simp only []
        split
        · exact h1
        · split
          · exact ih' s1 h1
          · exact h1

/-- the requests the scan of one session may send: probes of selected service ids and, with `--check-session`,
    what `check_and_set_session` sends -/
def SvcReq (cfg : SvcCfg) (session : Option Nat) (p : Bytes) : Prop :=
  (∃ sid, sid < 256 ∧ sidSelected cfg session sid = true ∧ ∃ l ∈ probeLengths, p = probePdu sid l) ∨
  (cfg.checkSession = true ∧ ∃ k, session = some k ∧ MaintReq cfg.hooks k p)

theorem sessionCheck_inv (e : Ecu σ) (I : σ → Prop) (cfg : SvcCfg) (session : Option Nat)
    (hI : ∀ s p, SvcReq cfg session p → I s → I (e.step s p).1) (s : σ) (h : I s) :
    I (sessionCheck e cfg session s).1 := by
  unfold sessionCheck
  cases session with
  | none => exact h
  | some k =>
    simp only []
    by_cases hc : cfg.checkSession = true
    · simp only [hc, if_true]
      exact checkAndSetSession_inv e I _ k checkRetries (fun s p hp => hI s p (Or.inr ⟨hc, k, rfl, hp⟩)) s h
    · simp only [hc]
      exact h

theorem performScanFrom_inv (e : Ecu σ) (I : σ → Prop) (cfg : SvcCfg) (session : Option Nat) (sids : List Nat)
    (hs : ∀ sid ∈ sids, sid < 256)
    (hI : ∀ s p, SvcReq cfg session p → I s → I (e.step s p).1) (s : σ) (h : I s) :
    I (performScanFrom e cfg session sids s).1 := by
  induction sids generalizing s with
  | nil => simpa [performScanFrom] using h
  | cons sid rest ih =>
    have ih' := ih (fun x hx => hs x (by simp [hx]))
    simp only [performScanFrom]
    split
    · exact ih' s h
    · rename_i hsel
      have hsel' : sidSelected cfg session sid = true := by simpa using hsel
      have h0 := sessionCheck_inv e I cfg session hI s h
      cases hc : sessionCheck e cfg session s with
      | mk s0 r0 =>
        rw [hc] at h0
        cases r0 with
        | raised w => exact h0
        | ok ok =>
          cases ok with
          | false => exact h0
          | true =>
            simp only []
            have h1 : I (probeLens e sid probeLengths s0).1 :=
              probeLens_inv e I sid _ (fun s l hl => hI s _ (Or.inl ⟨sid, hs sid (by simp), hsel', l, hl, rfl⟩)) s0 h0
            cases hp : probeLens e sid probeLengths s0 with
            | mk s1 r1 =>
              rw [hp] at h1
              cases r1 with
              | raised w => exact h1
              | ok v =>
                obtain ⟨r, c⟩ := v
                simp only []
                have h2 := ih' s1 h1
                cases hq : performScanFrom e cfg session rest s1 with
                | mk s2 r2 =>
                  rw [hq] at h2
                  cases r2 <;> exact h2

theorem resetAfter_inv (e : Ecu σ) (I : σ → Prop) (level : Option Nat)
    (hI : ∀ s p, (p = pingPdu ∨ ∃ l, level = some l ∧ p = resetPdu l) → I s → I (e.step s p).1) (s : σ) (h : I s) :
    I (resetAfter e level s).1 := by
  cases level with
  | none => simpa [resetAfter] using h
  | some l =>
    have h1 := hI s (resetPdu l) (Or.inr ⟨l, rfl, rfl⟩) h
    simp only [resetAfter]
    cases hd : e.step s (resetPdu l) with
    | mk s1 a =>
      rw [hd] at h1
      cases a with
      | neg c => exact h1
      | timeout => exact h1
      | illegal => exact h1
      | stuck => exact h1
      | pos p =>
        simp only []
        have h2 := waitForEcu_inv e I (fun s => hI s _ (Or.inl rfl)) waitBudget s1 h1
        cases hw : waitForEcu e waitBudget s1 with
        | mk s2 r2 =>
          rw [hw] at h2
          cases r2 <;> exact h2

/-- the requests the whole service scan over the session list `ks` may send -/
def ScanReq (cfg : SvcCfg) (ks : List Nat) (p : Bytes) : Prop :=
  (∃ k ∈ ks, SetReq cfg.hooks k p ∨ SvcReq cfg (some k) p) ∨ p = pingPdu ∨ (∃ l, cfg.reset = some l ∧ p = resetPdu l)

theorem svcSessions_inv (e : Ecu σ) (I : σ → Prop) (cfg : SvcCfg) (ks : List Nat)
    (hI : ∀ s p, ScanReq cfg ks p → I s → I (e.step s p).1) (s : σ) (h : I s) :
    I (svcSessions e cfg ks s).1 := by
  induction ks generalizing s with
  | nil => simpa [svcSessions] using h
  | cons k rest ih =>
    have hI' : ∀ s p, ScanReq cfg rest p → I s → I (e.step s p).1 := by
      intro s p hp
      apply hI
      rcases hp with ⟨k', hk', hp⟩ | hp
      · exact Or.inl ⟨k', by simp [hk'], hp⟩
      · exact Or.inr hp
    have ih' := ih hI'
    have h1 : I (setSession e cfg.hooks k s).1 :=
      setSession_inv e I _ k (fun s p hp => hI s p (Or.inl ⟨k, by simp, Or.inl hp⟩)) s h
    have hskip : ∀ s1, I s1 → I (match svcSessions e cfg rest s1 with
        | (s4, .raised w) => (s4, R.raised w)
        | (s4, .ok r) => (s4, R.ok (⟨r.result, false, r.aborted⟩ : SvcResult))).1 := by
      intro s1 hs1
      have := ih' s1 hs1
      cases hq : svcSessions e cfg rest s1 with
      | mk s4 r4 =>
        rw [hq] at this
        cases r4 <;> exact this
    simp only [svcSessions]
    cases hs : setSession e cfg.hooks k s with
    | mk s1 r1 =>
      rw [hs] at h1
      cases r1 with
      | raised w => exact hskip s1 h1
      | ok a =>
        cases a with
        | neg c => exact hskip s1 h1
        | timeout => exact hskip s1 h1
        | illegal => exact hskip s1 h1
        | stuck => exact hskip s1 h1
        | pos p =>
          simp only []
          have h2 : I (performScan e cfg (some k) s1).1 :=
            performScanFrom_inv e I cfg (some k) allSids (by intro sid hsid; simpa [allSids] using hsid)
              (fun s p hp => hI s p (Or.inl ⟨k, by simp, Or.inr hp⟩)) s1 h1
          cases hp : performScan e cfg (some k) s1 with
          | mk s2 r2 =>
            rw [hp] at h2
            cases r2 with
            | raised w => exact h2
            | ok out =>
              simp only []
              have h3 : I (resetAfter e cfg.reset s2).1 :=
                resetAfter_inv e I cfg.reset (fun s p hp => hI s p (Or.inr hp)) s2 h2
              cases hr : resetAfter e cfg.reset s2 with
              | mk s3 r3 =>
                rw [hr] at h3
                cases r3 with
                | raised w => exact h3
                | ok u =>
                  simp only []
                  have h4 := ih' s3 h3
                  cases hq : svcSessions e cfg rest s3 with
                  | mk s4 r4 =>
                    rw [hq] at h4
                    cases r4 <;> exact h4

end Gallia.Scans
