import Gallia.Proofs.Lemmas.DoipSys
/-
  Helper lemmas for C06 (DoIP, whole executions): quantities that are conserved by every event of an execution.

  A measure `M s extra` looks at a state and at the bytes `extra` that are still to arrive.  `Conserved M` lists what
  has to be checked locally (one reader step, one move of the consumer, the bookkeeping steps); `exec_conserved` lifts
  it to every schedule and every event list:  `M (exec s ops) extra = M s (fedBytes ops ++ extra)`.
-/
namespace Gallia.DoipSys
open Gallia Gallia.Framing Gallia.Doip Gallia.DoipFifo

/-- what the reader task will make of the bytes in `buf` once `extra` has arrived too -/
def pendItems (buf extra : Bytes) : List Item := (parseAll doipCutter (buf ++ extra)).1.map classify

/-- the frames a list of items puts on the read queue (a frame that cannot be unpacked contributes none) -/
def qAll (items : List Item) : List Frame := items.flatMap Item.toQ

def pendQ (s : Sys) (extra : Bytes) : List Frame := qAll (pendItems s.buf extra)

/-- bytes an event adds to the stream -/
def Op.chunk : Op → Bytes
  | .feed ch => ch
  | _ => []

def fedBytes (ops : List Op) : Bytes := (ops.map Op.chunk).flatten

@[simp] theorem qAll_nil : qAll [] = [] := rfl
theorem qAll_cons (i : Item) (is : List Item) : qAll (i :: is) = i.toQ ++ qAll is := by simp [qAll]
theorem qAll_append (a b : List Item) : qAll (a ++ b) = qAll a ++ qAll b := by simp [qAll]

theorem pendItems_cut {buf : Bytes} {raw : Raw} {rest : Bytes} (hc : cut buf = some (raw, rest)) (extra : Bytes) :
    pendItems buf extra = classify raw :: pendItems rest extra := by
  have hm : doipCutter.cut (buf ++ extra) = some (raw, rest ++ extra) := cut_mono extra hc
  unfold pendItems
  rw [parseAll_some doipCutter hm]; rfl

theorem pendItems_none {buf : Bytes} (hc : cut buf = none) : pendItems buf [] = [] := by
  unfold pendItems
  rw [List.append_nil, parseAll_none doipCutter (by simpa [doipCutter] using hc)]; rfl

/-- the state right after a call has written its request and before it looks at the queue -/
def begun (s : Sys) (w : Want) (bytes : Option Bytes) (timeout : Option Nat) : Sys :=
  { s with
    out := s.out ++ (match bytes with | some b => [(s.now, b)] | none => [])
    client := .waiting w [] (w.limit.map (s.now + ·)) (timeout.map (s.now + ·)) }

variable (c : Cfg) (yields : Raw → Bool)

theorem diagReq_ne_alive (data : Bytes) : diagReq c data ≠ aliveResp c := by
  intro h
  have := congrArg (fun l => l[2]?) h
  simp [diagReq, aliveResp, header, ptDiag, ptAliveRes, toBE] at this

theorem raReq_ne_alive (atype : UInt8) : raReq c atype ≠ aliveResp c := by
  intro h
  have := congrArg (fun l => l[3]?) h
  simp [raReq, aliveResp, header, ptRaReq, ptAliveRes, toBE] at this

structure Conserved {β : Type} (M : Sys → Bytes → β) : Prop where
  move : ∀ s s', WF c s → Move c s s' → ∀ extra, M s' extra = M s extra
  deliver : ∀ (s : Sys) raw rest, cut s.buf = some (raw, rest) →
    ∀ extra, M (deliver c { s with buf := rest } raw) extra = M s extra
  feed : ∀ (s : Sys) chunk extra, M { s with buf := s.buf ++ chunk } extra = M s (chunk ++ extra)
  begin : ∀ (s : Sys) w bytes timeout, s.client = .idle → (∀ b, bytes = some b → b ≠ aliveResp c) →
    ∀ extra, M (begun s w bytes timeout) extra = M s extra
  failFast : ∀ (s : Sys) w, s.client = .idle → ∀ extra, M (s.finish w .conn) extra = M s extra
  flag : ∀ (s : Sys) b extra, M { s with closed := b } extra = M s extra
  tick : ∀ (s : Sys) t extra, M { s with now := t } extra = M s extra

variable {β : Type} {M : Sys → Bytes → β}

theorem deliver_WF (s : Sys) (raw : Raw) (h : WF c s) : WF c (deliver c s raw) := by
  intro w sk p cl hcl
  exact h w sk p cl (by simpa using hcl)

theorem clientRun_conserved (hM : Conserved c M) (s : Sys) (hwf : WF c s) :
    ∀ extra, M (clientRun c s) extra = M s extra := by
  cases hcl : s.client with
  | idle => rw [clientRun_idle c s hcl]; intro _; rfl
  | waiting w sk p cl => exact hM.move _ _ hwf (clientRun_move c s w sk p cl hcl)

theorem settle_conserved (hM : Conserved c M) (s : Sys) (hwf : WF c s) :
    WF c (settle c yields s) ∧ ∀ extra, M (settle c yields s) extra = M s extra := by
  generalize hn : s.buf.length = n
  induction n using Nat.strongRecOn generalizing s with
  | _ n ih =>
    cases ho : s.closed with
    | true => rw [settle_closed c yields s ho]; exact ⟨hwf, fun _ => rfl⟩
    | false =>
      cases hc : cut s.buf with
      | none =>
        rw [settle_none c yields s ho hc]
        exact ⟨clientRun_WF c s hwf, clientRun_conserved c hM s hwf⟩
      | some r =>
        obtain ⟨raw, rest⟩ := r
        have hl := cut_shrinks hc
        have hwf1 : WF c (deliver c { s with buf := rest } raw) := deliver_WF c _ raw (fun w sk p cl h => hwf w sk p cl h)
        have ha1 := hM.deliver s raw rest hc
        rw [settle_some c yields s ho hc]
        split
        · exact ⟨clientRun_WF c _ hwf1, fun extra => by rw [clientRun_conserved c hM _ hwf1, ha1]⟩
        · split
          · have hwf2 := clientRun_WF c _ hwf1
            obtain ⟨h3, a3⟩ := ih _ (by rw [← hn]; exact hl) (clientRun c (deliver c { s with buf := rest } raw)) hwf2
              (by simp)
            exact ⟨h3, fun extra => by rw [a3, clientRun_conserved c hM _ hwf1, ha1]⟩
          · obtain ⟨h3, a3⟩ := ih _ (by rw [← hn]; exact hl) (deliver c { s with buf := rest } raw) hwf1 (by simp)
            exact ⟨h3, fun extra => by rw [a3, ha1]⟩

theorem startCall_eq (s : Sys) (w : Want) (bytes : Option Bytes) (timeout : Option Nat) (hi : s.client = .idle)
    (ho : s.closed = false) :
    startCall c s w bytes timeout = clientRun c (begun s w bytes timeout) := by
  have e : clientRun c (begun s w bytes timeout) =
      scanOpen c w [] (w.limit.map (s.now + ·)) (timeout.map (s.now + ·)) (begun s w bytes timeout) :=
    clientRun_open c rfl ho
  rw [e]
  unfold startCall
  split
  · rename_i h; rw [hi] at h; cases h
  · rw [if_neg (by simp [ho])]
    cases bytes <;>
    · unfold scanOpen begun
      simp only [List.append_nil]
      split <;> rfl

theorem startCall_conserved (hM : Conserved c M) (s : Sys) (w : Want) (bytes : Option Bytes) (timeout : Option Nat)
    (hb : ∀ b, bytes = some b → b ≠ aliveResp c) (hwf : WF c s) :
    WF c (startCall c s w bytes timeout) ∧ ∀ extra, M (startCall c s w bytes timeout) extra = M s extra := by
  cases hi : s.client with
  | waiting w' sk p cl =>
    have : startCall c s w bytes timeout = s := by unfold startCall; rw [hi]
    rw [this]; exact ⟨hwf, fun _ => rfl⟩
  | idle =>
    cases ho : s.closed with
    | true =>
      have : startCall c s w bytes timeout = s.finish w .conn := by unfold startCall; rw [hi]; simp [ho]
      rw [this]
      exact ⟨WF_idle c _ rfl, hM.failFast s w hi⟩
    | false =>
      rw [startCall_eq c s w bytes timeout hi ho]
      have hwf0 : WF c (begun s w bytes timeout) := by
        intro w2 sk2 p2 cl2 h2
        simp only [begun, Client.waiting.injEq] at h2
        obtain ⟨_, rfl, _, _⟩ := h2
        simp
      exact ⟨clientRun_WF c _ hwf0, fun extra => by rw [clientRun_conserved c hM _ hwf0]; exact hM.begin s w _ _ hi hb extra⟩

theorem fire_conserved (hM : Conserved c M) (s : Sys) (target : Nat) (hwf : WF c s) :
    WF c (fire s target) ∧ ∀ extra, M (fire s target) extra = M s extra := by
  rcases fire_move c s target with h | h
  · rw [h]; exact ⟨hwf, fun _ => rfl⟩
  · exact ⟨h.WF c hwf, hM.move _ _ hwf h⟩

theorem execOp_conserved (hM : Conserved c M) (s : Sys) (op : Op) (hwf : WF c s) :
    WF c (execOp c yields s op) ∧ ∀ extra, M (execOp c yields s op) extra = M s (op.chunk ++ extra) := by
  cases op with
  | feed chunk =>
    have hwf0 : WF c { s with buf := s.buf ++ chunk } := fun w sk p cl h => hwf w sk p cl h
    obtain ⟨h1, h2⟩ := settle_conserved c yields hM _ hwf0
    exact ⟨h1, fun extra => by simp only [execOp, Op.chunk]; rw [h2, hM.feed]⟩
  | activate atype t =>
    simpa [execOp, Op.chunk] using startCall_conserved c hM s .rar _ t
      (by intro b hb; cases hb; exact raReq_ne_alive c atype) hwf
  | write data t =>
    simpa [execOp, Op.chunk] using startCall_conserved c hM s (.ack data) _ t
      (by intro b hb; cases hb; exact diagReq_ne_alive c data) hwf
  | read t => simpa [execOp, Op.chunk] using startCall_conserved c hM s .diag none t (by intro b hb; cases hb) hwf
  | close =>
    simp only [execOp, Op.chunk, List.nil_append]
    split
    · rename_i hi; exact ⟨WF_idle c _ hi, hM.flag s true⟩
    · exact ⟨hwf, fun _ => rfl⟩
  | eof =>
    simp only [execOp, Op.chunk, List.nil_append]
    split
    · exact ⟨hwf, fun _ => rfl⟩
    · have hwf0 : WF c { s with closed := true } := fun w sk p cl h => hwf w sk p cl h
      exact ⟨clientRun_WF c _ hwf0, fun extra => by rw [clientRun_conserved c hM _ hwf0, hM.flag]⟩
  | advance dt =>
    simp only [execOp, Op.chunk, List.nil_append]
    obtain ⟨h1, h2⟩ := fire_conserved c hM s (s.now + dt) hwf
    exact ⟨fun w sk p cl h => h1 w sk p cl h, fun extra => by rw [hM.tick, h2]⟩

theorem exec_cons (s : Sys) (op : Op) (ops : List Op) :
    exec c yields s (op :: ops) = exec c yields (execOp c yields s op) ops := by simp [exec]

theorem exec_append (s : Sys) (a b : List Op) :
    exec c yields s (a ++ b) = exec c yields (exec c yields s a) b := by simp [exec]

theorem exec_conserved (hM : Conserved c M) (ops : List Op) (s : Sys) (hwf : WF c s) :
    WF c (exec c yields s ops) ∧ ∀ extra, M (exec c yields s ops) extra = M s (fedBytes ops ++ extra) := by
  induction ops generalizing s with
  | nil => exact ⟨hwf, fun extra => by simp [exec, fedBytes]⟩
  | cons op ops ih =>
    obtain ⟨h1, h2⟩ := execOp_conserved c yields hM s op hwf
    obtain ⟨h3, h4⟩ := ih (execOp c yields s op) h1
    rw [exec_cons]
    refine ⟨h3, fun extra => ?_⟩
    rw [h4, h2]
    simp [fedBytes, List.append_assoc]


/-! ### predicates that every event preserves -/

structure Stable (P : Sys → Prop) : Prop where
  move : ∀ s s', WF c s → Move c s s' → P s → P s'
  deliver : ∀ (s : Sys) raw rest, cut s.buf = some (raw, rest) → s.closed = false → P s →
    P (deliver c { s with buf := rest } raw)
  feed : ∀ (s : Sys) chunk, P s → P { s with buf := s.buf ++ chunk }
  begin : ∀ (s : Sys) w bytes timeout, s.client = .idle → (∀ b, bytes = some b → b ≠ aliveResp c) → P s →
    P (begun s w bytes timeout)
  failFast : ∀ (s : Sys) w, s.client = .idle → P s → P (s.finish w .conn)
  close : ∀ (s : Sys), P s → P { s with closed := true }
  tick : ∀ (s : Sys) t, P s → P { s with now := t }

variable {P : Sys → Prop}

theorem clientRun_stable (hP : Stable c P) (s : Sys) (hwf : WF c s) (h : P s) : P (clientRun c s) := by
  cases hcl : s.client with
  | idle => rw [clientRun_idle c s hcl]; exact h
  | waiting w sk p cl => exact hP.move _ _ hwf (clientRun_move c s w sk p cl hcl) h

theorem settle_stable (hP : Stable c P) (s : Sys) (hwf : WF c s) (h : P s) : P (settle c yields s) := by
  generalize hn : s.buf.length = n
  induction n using Nat.strongRecOn generalizing s with
  | _ n ih =>
    cases ho : s.closed with
    | true => rw [settle_closed c yields s ho]; exact h
    | false =>
      cases hc : cut s.buf with
      | none => rw [settle_none c yields s ho hc]; exact clientRun_stable c hP s hwf h
      | some r =>
        obtain ⟨raw, rest⟩ := r
        have hl := cut_shrinks hc
        have hwf1 : WF c (deliver c { s with buf := rest } raw) := deliver_WF c _ raw (fun w sk p cl h => hwf w sk p cl h)
        have h1 := hP.deliver s raw rest hc ho h
        rw [settle_some c yields s ho hc]
        split
        · exact clientRun_stable c hP _ hwf1 h1
        · split
          · exact ih _ (by rw [← hn]; exact hl) (clientRun c (deliver c { s with buf := rest } raw))
              (clientRun_WF c _ hwf1) (clientRun_stable c hP _ hwf1 h1) (by simp)
          · exact ih _ (by rw [← hn]; exact hl) (deliver c { s with buf := rest } raw) hwf1 h1 (by simp)

theorem startCall_stable (hP : Stable c P) (s : Sys) (w : Want) (bytes : Option Bytes) (timeout : Option Nat)
    (hb : ∀ b, bytes = some b → b ≠ aliveResp c) (_hwf : WF c s) (h : P s) : P (startCall c s w bytes timeout) := by
  cases hi : s.client with
  | waiting w' sk p cl =>
    have : startCall c s w bytes timeout = s := by unfold startCall; rw [hi]
    rw [this]; exact h
  | idle =>
    cases ho : s.closed with
    | true =>
      have : startCall c s w bytes timeout = s.finish w .conn := by unfold startCall; rw [hi]; simp [ho]
      rw [this]
      exact hP.failFast s w hi h
    | false =>
      rw [startCall_eq c s w bytes timeout hi ho]
      have hwf0 : WF c (begun s w bytes timeout) := by
        intro w2 sk2 p2 cl2 h2
        simp only [begun, Client.waiting.injEq] at h2
        obtain ⟨_, rfl, _, _⟩ := h2
        simp
      exact clientRun_stable c hP _ hwf0 (hP.begin s w _ _ hi hb h)

theorem execOp_stable (hP : Stable c P) (s : Sys) (op : Op) (hwf : WF c s) (h : P s) : P (execOp c yields s op) := by
  cases op with
  | feed chunk =>
    exact settle_stable c yields hP _ (fun w sk p cl h => hwf w sk p cl h) (hP.feed s chunk h)
  | activate atype t =>
    exact startCall_stable c hP s .rar (some (raReq c atype)) t
      (by intro b hb; cases hb; exact raReq_ne_alive c atype) hwf h
  | write data t =>
    exact startCall_stable c hP s (.ack data) (some (diagReq c data)) t
      (by intro b hb; cases hb; exact diagReq_ne_alive c data) hwf h
  | read t => exact startCall_stable c hP s .diag none t (by intro b hb; cases hb) hwf h
  | close =>
    simp only [execOp]
    split
    · exact hP.close s h
    · exact h
  | eof =>
    simp only [execOp]
    split
    · exact h
    · exact clientRun_stable c hP _ (fun w sk p cl h => hwf w sk p cl h) (hP.close s h)
  | advance dt =>
    simp only [execOp]
    apply hP.tick
    rcases fire_move c s (s.now + dt) with e | m
    · rw [e]; exact h
    · exact hP.move _ _ hwf m h

theorem exec_stable (hP : Stable c P) (ops : List Op) (s : Sys) (hwf : WF c s) (h : P s) :
    P (exec c yields s ops) := by
  induction ops generalizing s with
  | nil => exact h
  | cons op ops ih =>
    rw [exec_cons]
    exact ih _ (execOp_conserved c yields (M := fun _ _ => ()) ⟨by intros; rfl, by intros; rfl, by intros; rfl,
      by intros; rfl, by intros; rfl, by intros; rfl, by intros; rfl⟩ s op hwf).1 (execOp_stable c yields hP s op hwf h)

end Gallia.DoipSys
