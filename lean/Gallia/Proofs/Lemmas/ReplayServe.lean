import Gallia.Model.ReplayServe
import Gallia.Proofs.Lemmas.Replay
import Gallia.Proofs.Lemmas.UdsResp
import Gallia.Proofs.Lemmas.UdsReqCodec
/-
  C12 — the server-level model (`serveStep`) against the row-level model (`replayStep`):
    * the bytes served are the recorded bytes (C02: `encodeResp (decodeResp b) = b`; raw fallback otherwise),
    * the lookup key is the request as received (C01: `encode (decode q) = q`),
    * the class `update_state` sees on the parsed object is `classify` of the recorded bytes,
    * with `DBUDSServer.Behavior` no default rule is consulted,
  hence `serveDb = replayDb` reply for reply.
-/
namespace Gallia.Replay
open Gallia Gallia.UdsResp

/-! ### the two codec facts the replay relies on, as hypotheses with their discharge -/

/-- what C12 needs of C02: an accepted reply re-serialises to the received bytes -/
def RespLossless : Prop := ∀ (b : Bytes) (r : Resp), decodeResp b = .ok r → encodeResp r = b

/-- what C12 needs of C01: the dynamically parsed request carries the received bytes -/
def ReqLossless : Prop := ∀ q : Bytes, UdsReq.encode (UdsReq.decode q) = q

/-- C02's theorem `Gallia.C02.encodeResp_decodeResp` (same statement, same proof from C02's lemma `parseKind_ok`; taken from the
    lemma file so that C12's proof module does not depend on C02's regenerated tables) -/
theorem respLossless : RespLossless := by
  intro b r h
  unfold decodeResp at h
  split at h
  · cases h
  · cases h; rfl
  · exact parseKind_ok h

/-- C01's theorem `Gallia.C01.encode_decode` (same statement, from C01's lemma `parseTyped_sound`) -/
theorem reqLossless : ReqLossless := by
  intro b
  unfold UdsReq.decode
  split
  · rename_i r hp
    split
    · exact (UdsReq.parseTyped_sound b r hp).1
    · rfl
  · rfl

theorem parseRecorded_pdu (hC02 : RespLossless) (b : Bytes) : (parseRecorded b).pdu = b := by
  unfold parseRecorded
  cases h : decodeResp b with
  | ok r => exact hC02 b r h
  | error e => rfl

theorem reqKey_eq (hC01 : ReqLossless) (q : Bytes) : reqKey q = q := hC01 q

/-! ### the class `update_state` sees = `classify` of the recorded bytes -/

theorem ef50 : entriesFor (0x50 : UInt8).toNat =
    [⟨"DiagnosticSessionControlResponse", .dsc, 0x50, false, none, true, 2, none⟩] := by rfl
theorem ef51 : entriesFor (0x51 : UInt8).toNat = [⟨"ECUResetResponse", .ecuReset, 0x51, false, none, true, 2, some 3⟩] := by rfl
theorem ef67 : entriesFor (0x67 : UInt8).toNat = [⟨"SecurityAccessResponse", .secAccess, 0x67, false, none, true, 2, none⟩] := by rfl
theorem ef62 : entriesFor (0x62 : UInt8).toNat = [⟨"ReadDataByIdentifierResponse", .rdbi, 0x62, false, none, false, 4, none⟩] := by rfl

theorem decode50 (t : UInt8) (rest : Bytes) :
    decodeResp (0x50 :: t :: rest) = if t.toNat ≥ 0x80 then .error .subFunction else .ok (.dsc t rest) := by
  have hl : ¬ (rest.length + 1 + 1 < 2) := by omega
  simp only [decodeResp, gate, dispatch, ef50, checkEntry, lenGate, subGate, List.length_cons]
  by_cases h : t.toNat ≥ 0x80
  · simp [h, hl]
  · simp [h, hl, parseKind, pDsc]

theorem decode67 (t : UInt8) (rest : Bytes) :
    decodeResp (0x67 :: t :: rest) = if t.toNat ≥ 0x80 then .error .subFunction else .ok (.secAccess t rest) := by
  have hl : ¬ (rest.length + 1 + 1 < 2) := by omega
  simp only [decodeResp, gate, dispatch, ef67, checkEntry, lenGate, subGate, List.length_cons]
  by_cases h : t.toNat ≥ 0x80
  · simp [h, hl]
  · simp [h, hl, parseKind, pSecAccess]

theorem decode51_2 (t : UInt8) :
    decodeResp [0x51, t] = if t.toNat ≥ 0x80 then .error .subFunction else .ok (.ecuReset t none) := by
  simp only [decodeResp, gate, dispatch, ef51, checkEntry, lenGate, subGate, List.length_cons, List.length_nil]
  by_cases h : t.toNat ≥ 0x80
  · simp [h]
  · simp [h, parseKind, pEcuReset]

theorem decode51_3 (t p : UInt8) :
    decodeResp [0x51, t, p] = if t.toNat ≥ 0x80 then .error .subFunction else .ok (.ecuReset t (some p)) := by
  simp only [decodeResp, gate, dispatch, ef51, checkEntry, lenGate, subGate, List.length_cons, List.length_nil]
  by_cases h : t.toNat ≥ 0x80
  · simp [h]
  · simp [h, parseKind, pEcuReset]

theorem decode51_long (t p q : UInt8) (rest : Bytes) : decodeResp (0x51 :: t :: p :: q :: rest) = .error .tooLong := by
  have hl : 3 < rest.length + 1 + 1 + 1 + 1 := by omega
  have hl2 : ¬ (rest.length + 1 + 1 + 1 + 1 < 2) := by omega
  simp only [decodeResp, gate, dispatch, ef51, checkEntry, lenGate, List.length_cons]
  simp [hl, hl2]

theorem decode62 (a c r : UInt8) (rest : Bytes) :
    decodeResp (0x62 :: a :: c :: r :: rest) = .ok (.rdbi (fromBE [a, c]) (r :: rest)) := by
  have hl : ¬ (rest.length + 1 + 1 + 1 + 1 < 4) := by omega
  simp only [decodeResp, gate, dispatch, ef62, checkEntry, lenGate, subGate, List.length_cons]
  simp [hl, parseKind, pRdbi]

theorem decode62_short (tl : Bytes) (h : tl.length < 3) : decodeResp (0x62 :: tl) = .error .tooShort := by
  have hl : tl.length + 1 < 4 := by omega
  simp only [decodeResp, gate, dispatch, ef62, checkEntry, lenGate, List.length_cons]
  simp [hl]

theorem classify_other_head (s : UInt8) (tl : Bytes) (h50 : s ≠ 0x50) (h51 : s ≠ 0x51) (h67 : s ≠ 0x67) (h62 : s ≠ 0x62) :
    classify (s :: tl) = .other := by
  unfold classify
  split <;> simp_all

theorem kind_other_head (s : UInt8) (tl : Bytes) (h50 : s ≠ 0x50) (h51 : s ≠ 0x51) (h67 : s ≠ 0x67) (h62 : s ≠ 0x62) :
    (parseRecorded (s :: tl)).kind = .other := by
  unfold parseRecorded
  cases h : decodeResp (s :: tl) with
  | error e => rfl
  | ok r =>
    have hrt := respLossless _ r h
    cases r with
    | dsc ty rec => simp only [encodeResp] at hrt; injection hrt with h1 _; exact absurd h1.symm h50
    | secAccess ty seed => simp only [encodeResp] at hrt; injection hrt with h1 _; exact absurd h1.symm h67
    | ecuReset ty pdt =>
      cases pdt <;> (simp only [encodeResp] at hrt; injection hrt with h1 _; exact absurd h1.symm h51)
    | rdbi did rec => simp only [encodeResp] at hrt; injection hrt with h1 _; exact absurd h1.symm h62
    | _ => rfl

/-- **the class `update_state` sees on the object `parse_dynamic` returns (or on the raw fallback) is `classify` of the recorded
    bytes** - for every byte string.  (`classify` is therefore no separate assumption: it is C02's decoder, read off.) -/
theorem kind_parseRecorded (b : Bytes) : (parseRecorded b).kind = classify b := by
  cases b with
  | nil => rfl
  | cons s tl =>
    by_cases h50 : s = 0x50
    · subst h50
      cases tl with
      | nil => rfl
      | cons t rest =>
        unfold parseRecorded
        rw [decode50]
        by_cases ht : t.toNat ≥ 0x80
        · have : ¬ t.toNat ≤ 0x7F := by omega
          simp [ht, classify, this, Reply.kind]
        · have : t.toNat ≤ 0x7F := by omega
          simp [ht, classify, this, Reply.kind]
    · by_cases h67 : s = 0x67
      · subst h67
        cases tl with
        | nil => rfl
        | cons t rest =>
          unfold parseRecorded
          rw [decode67]
          by_cases ht : t.toNat ≥ 0x80
          · have : ¬ t.toNat ≤ 0x7F := by omega
            simp [ht, classify, this, Reply.kind]
          · have : t.toNat ≤ 0x7F := by omega
            simp [ht, classify, this, Reply.kind]
      · by_cases h51 : s = 0x51
        · subst h51
          match tl with
          | [] => rfl
          | [t] =>
            unfold parseRecorded
            rw [decode51_2]
            by_cases ht : t.toNat ≥ 0x80
            · have : ¬ t.toNat ≤ 0x7F := by omega
              simp [ht, classify, this, Reply.kind]
            · have : t.toNat ≤ 0x7F := by omega
              simp [ht, classify, this, Reply.kind]
          | [t, p] =>
            unfold parseRecorded
            rw [decode51_3]
            by_cases ht : t.toNat ≥ 0x80
            · have : ¬ t.toNat ≤ 0x7F := by omega
              simp [ht, classify, this, Reply.kind]
            · have : t.toNat ≤ 0x7F := by omega
              simp [ht, classify, this, Reply.kind]
          | t :: p :: q :: rest =>
            unfold parseRecorded
            rw [decode51_long]
            simp [classify, Reply.kind]
        · by_cases h62 : s = 0x62
          · subst h62
            match tl with
            | [] => rfl
            | [x] =>
              unfold parseRecorded
              rw [decode62_short _ (by simp)]
              unfold classify
              split <;> simp_all [Reply.kind]
            | [x, y] =>
              unfold parseRecorded
              rw [decode62_short _ (by simp)]
              unfold classify
              split <;> simp_all [Reply.kind]
            | a :: c :: r :: rest =>
              unfold parseRecorded
              rw [decode62]
              simp only [Reply.kind, fromBE2_eq]
              by_cases hac : a = 0xF1 ∧ c = 0x86
              · obtain ⟨rfl, rfl⟩ := hac
                simp [classify]
              · rw [if_neg hac]
                unfold classify
                split <;> simp_all
          · rw [kind_other_head s tl h50 h51 h67 h62, classify_other_head s tl h50 h51 h67 h62]


/-! ### the server-level step is the row-level step -/

def outOf : Option Bytes → Out
  | none => .silence
  | some b => .reply b

theorem serverUpdate_eq (st : St) (b : Bytes) : serverUpdate st b = serverUpdateK st (classify b) := by
  unfold serverUpdate serverUpdateK
  cases classify b <;> rfl

theorem matchesDb_view (sel : Selector) (st : St) (key : Bytes) (d : DbRow) :
    matchesDb sel [] st key d = matchesQ st key (DbRow.view sel d) := by
  unfold matchesDb matchesQ DbRow.view
  rw [List.append_nil, stateMatch_toJson]
  cases h : decodeSt d.state with
  | none => simp
  | some st' => simp

theorem minDbRow_congr {p q : DbRow → Bool} (h : ∀ d, p d = q d) (db : List DbRow) : minDbRow p db = minDbRow q db := by
  have : p = q := funext h
  rw [this]

theorem minDbRow_view (sel : Selector) (p : Row → Bool) (db : List DbRow) :
    (minDbRow (fun d => p (DbRow.view sel d)) db).map (DbRow.view sel) = minRow p (db.map (DbRow.view sel)) := by
  induction db with
  | nil => rfl
  | cons d ds ih =>
    simp only [minDbRow, List.map_cons, minRow]
    rw [← ih]
    cases hm : minDbRow (fun d => p (DbRow.view sel d)) ds with
    | none => simp only [Option.map_none]; split <;> simp_all
    | some m => simp only [Option.map_some, view_id]; split <;> simp_all

/-- the row the two queries of `replayStep` pick -/
def pickRow (rows : List Row) (s : Srv) (req : Bytes) : Option Row :=
  match minRow (fun r => matchesQ s.st req r && afterLast s.last r.id) rows with
  | some r => some r
  | none => minRow (fun r => matchesQ s.st req r && uptoLast s.last r.id) rows

theorem replayStep_pick (rows : List Row) (s : Srv) (req : Bytes) :
    replayStep rows s req =
      (match pickRow rows s req with
        | none => (s, none)
        | some r => (⟨srvNext s.st r.resp, some r.id⟩, r.resp)) := by
  unfold replayStep pickRow
  rfl

theorem lookupDb_view (sel : Selector) (db : List DbRow) (s : Srv) (key : Bytes) :
    (lookupDb sel [] db s key).map (DbRow.view sel) = pickRow (db.map (DbRow.view sel)) s key := by
  unfold lookupDb pickRow
  have h1 := minDbRow_view sel (fun r => matchesQ s.st key r && afterLast s.last r.id) db
  have h2 := minDbRow_view sel (fun r => matchesQ s.st key r && uptoLast s.last r.id) db
  have e1 : minDbRow (fun r => matchesDb sel [] s.st key r && afterLast s.last r.id) db =
      minDbRow (fun d => matchesQ s.st key (DbRow.view sel d) && afterLast s.last (DbRow.view sel d).id) db :=
    minDbRow_congr (fun d => by rw [matchesDb_view, view_id]) db
  have e2 : minDbRow (fun r => matchesDb sel [] s.st key r && uptoLast s.last r.id) db =
      minDbRow (fun d => matchesQ s.st key (DbRow.view sel d) && uptoLast s.last (DbRow.view sel d).id) db :=
    minDbRow_congr (fun d => by rw [matchesDb_view, view_id]) db
  rw [e1, e2, ← h1, ← h2]
  cases minDbRow (fun d => matchesQ s.st key (DbRow.view sel d) && afterLast s.last (DbRow.view sel d).id) db with
  | some r => rfl
  | none => rfl

theorem minDbRow_mem {p : DbRow → Bool} {db : List DbRow} {r : DbRow} (h : minDbRow p db = some r) : r ∈ db := by
  induction db generalizing r with
  | nil => simp [minDbRow] at h
  | cons d ds ih =>
    simp only [minDbRow] at h
    cases hm : minDbRow p ds with
    | none =>
      rw [hm] at h; simp only at h
      split at h
      · injection h with h; subst h; simp
      · cases h
    | some m =>
      rw [hm] at h; simp only at h
      split at h
      · injection h with h; subst h; simp
      · injection h with h; subst h; exact List.mem_cons_of_mem _ (ih hm)

theorem lookupDb_mem {sel : Selector} {xs : JObj} {db : List DbRow} {s : Srv} {key : Bytes} {r : DbRow}
    (h : lookupDb sel xs db s key = some r) : r ∈ db := by
  unfold lookupDb at h
  split at h
  · rename_i r' h1
    injection h with h; subst h
    exact minDbRow_mem h1
  · exact minDbRow_mem h

theorem preChain_db (d : Defaults) (st : St) (req : Bytes) : preChain Behavior.db d st req = none := by
  simp [preChain, Behavior.db]

/-- **`handle_request` of a `DBUDSServer` is the row-level step.**  With `DBUDSServer.Behavior` (all nine rules off), a plain
    `ECUState`, no pause beyond the inactivity limit, and the two codec facts (C01, C02): the server-level step over the database as
    it is on disk - JSON state objects matched key by key, request and reply parsed and re-serialised, `update_state` on the parsed
    object - does what `replayStep` does on the rows as `DbRow.view` presents them. -/
theorem serveStep_eq (hC01 : ReqLossless) (hC02 : RespLossless) (d : Defaults) (sel : Selector) (db : List DbRow) (s : Srv)
    (gap : Nat) (hgap : gap ≤ idleLimitMs) (q : Bytes) :
    serveStep Behavior.db d sel [] db s gap q =
      ((replayStep (db.map (DbRow.view sel)) s q).1, outOf (replayStep (db.map (DbRow.view sel)) s q).2) := by
  have hg : ¬ gap > idleLimitMs := by omega
  have hl := lookupDb_view sel db s q
  rw [replayStep_pick, ← hl]
  unfold serveStep
  simp only [hg, if_false, preChain_db, reqKey_eq hC01]
  cases hlk : lookupDb sel [] db s q with
  | none => simp [Behavior.db, outOf]
  | some row =>
    simp only [Option.map_some, view_id, view_resp]
    cases hr : row.resp with
    | none => simp [Behavior.db, outOf, srvNext]
    | some b =>
      simp only [finishResp, Behavior.db, Bool.false_and, srvNext, outOf, kind_parseRecorded, parseRecorded_pdu hC02,
        serverUpdate_eq]
      rfl


theorem serveAll_eq (hC01 : ReqLossless) (hC02 : RespLossless) (d : Defaults) (sel : Selector) (db : List DbRow) (s : Srv)
    (reqs : List (Nat × Bytes)) (hgap : ∀ g ∈ reqs, g.1 ≤ idleLimitMs) :
    serveAll Behavior.db d sel [] db s reqs = (replayAll (db.map (DbRow.view sel)) s (reqs.map (·.2))).map outOf := by
  induction reqs generalizing s with
  | nil => rfl
  | cons g gs ih =>
    obtain ⟨gap, q⟩ := g
    have h1 := serveStep_eq hC01 hC02 d sel db s gap (hgap (gap, q) (by simp)) q
    simp only [serveAll, List.map_cons, replayAll, h1, List.cons.injEq, true_and]
    exact ih _ (fun g hg => hgap g (List.mem_cons_of_mem _ hg))

/-- with the switches of `DBUDSServer.Behavior` the default rules are never consulted -/
theorem serveStep_defaults_irrelevant (d d' : Defaults) (sel : Selector) (xs : JObj) (db : List DbRow) (s : Srv) (gap : Nat)
    (q : Bytes) : serveStep Behavior.db d sel xs db s gap q = serveStep Behavior.db d' sel xs db s gap q := by
  unfold serveStep
  simp only [preChain_db]
  simp [Behavior.db, finishResp]

/-- a pause beyond the inactivity limit resets the state and keeps the cursor -/
theorem serveStep_idle (b : Behavior) (d : Defaults) (sel : Selector) (xs : JObj) (db : List DbRow) (s : Srv) (gap : Nat)
    (hgap : gap > idleLimitMs) (q : Bytes) :
    serveStep b d sel xs db s gap q = serveStep b d sel xs db ⟨St.default, s.last⟩ 0 q := by
  have h0 : ¬ (0 > idleLimitMs) := by simp
  unfold serveStep
  simp only [hgap, if_true, h0, if_false]

end Gallia.Replay
