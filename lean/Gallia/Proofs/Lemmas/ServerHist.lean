import Gallia.Model.VEcuHist
import Gallia.Proofs.Lemmas.Server
import Gallia.Proofs.Lemmas.UdsMatch
/-
  Helper lemmas for C13 / C14: histories of the virtual ECU (`Model/VEcuHist.lean`).
    * `lastEff_*`, `specState_*`   - "the last event with an effect decides" is a left fold of the single effects;
    * `handleSE_state`, `runH_state` - the state after a history is `specState` of the history's events;
    * `runChain_fire`               - an answer of the rule chain comes from an enabled rule that fired;
    * `evalRule_fire_kind`          - which rule can give which class of answer;
    * `typedHandler_sa` / `vecuHandler_sa` - when the concrete handlers answer SecurityAccess positively.
-/
namespace Gallia.Server
open Gallia

/-! ### last effective event -/

theorem lastEff_nil {α : Type} (eff : Ev → Option α) (init : α) : lastEff eff init [] = init := rfl

theorem lastEff_cons {α : Type} (eff : Ev → Option α) (init : α) (e : Ev) (evs : List Ev) :
    lastEff eff init (e :: evs) = lastEff eff ((eff e).getD init) evs := by
  unfold lastEff
  rw [List.reverse_cons, List.findSome?_append]
  cases h : evs.reverse.findSome? eff with
  | some v => simp
  | none => cases he : eff e <;> simp [he]

theorem lastEff_append {α : Type} (eff : Ev → Option α) (init : α) (a b : List Ev) :
    lastEff eff init (a ++ b) = lastEff eff (lastEff eff init a) b := by
  induction a generalizing init with
  | nil => rfl
  | cons e a ih => simp only [List.cons_append, lastEff_cons, ih]

/-- the value is `v` exactly when some event sets it to `v` and no later event has an effect - or no event has an
    effect and it is the initial value -/
theorem lastEff_eq_iff {α : Type} (eff : Ev → Option α) (init : α) (evs : List Ev) (v : α) :
    lastEff eff init evs = v ↔
      (∃ pre e post, evs = pre ++ e :: post ∧ eff e = some v ∧ ∀ x ∈ post, eff x = none) ∨
      ((∀ x ∈ evs, eff x = none) ∧ init = v) := by
  have key : ∀ pre e post w, evs = pre ++ e :: post → eff e = some w → (∀ x ∈ post, eff x = none) →
      evs.reverse.findSome? eff = some w := by
    intro pre e post w hs he hp
    rw [List.findSome?_eq_some_iff]
    refine ⟨post.reverse, e, pre.reverse, by simp [hs], he, ?_⟩
    intro x hx; exact hp x (by simpa using hx)
  unfold lastEff
  cases h : evs.reverse.findSome? eff with
  | none =>
    simp only [Option.getD_none]
    have hall : ∀ x ∈ evs, eff x = none := by
      intro x hx
      exact (List.findSome?_eq_none_iff.1 h) x (by simpa using hx)
    constructor
    · intro hi; exact Or.inr ⟨hall, hi⟩
    · rintro (⟨pre, e, post, hs, he, _⟩ | ⟨_, hi⟩)
      · have := hall e (by simp [hs]); rw [he] at this; cases this
      · exact hi
  | some w =>
    simp only [Option.getD_some]
    obtain ⟨l1, a, l2, hs, ha, hl1⟩ := List.findSome?_eq_some_iff.1 h
    have hev : evs = l2.reverse ++ a :: l1.reverse := by
      have := congrArg List.reverse hs
      simpa using this
    constructor
    · intro hw
      refine Or.inl ⟨l2.reverse, a, l1.reverse, hev, by rw [ha, hw], ?_⟩
      intro x hx; exact hl1 x (by simpa using hx)
    · rintro (⟨pre, e, post, hs2, he, hp⟩ | ⟨hall, _⟩)
      · have := key pre e post v hs2 he hp
        rw [h] at this; exact Option.some.inj this
      · have := hall a (by simp [hev]); rw [ha] at this; cases this

/-- one event applied to the state, as the code does it: `state.reset()` / `update_state` -/
def applyEv (st : SrvState) : Ev → SrvState
  | .idle => st.reset
  | .ans x => updateState st x

theorem applyEv_spec (st : SrvState) (e : Ev) :
    applyEv st e = ⟨(sessEff e).getD st.session, (levelEff e).getD st.level, (seedEff e).getD st.lastSA⟩ := by
  cases e with
  | idle => rfl
  | ans x =>
    cases x with
    | sa t s => by_cases ht : t % 2 = 0 <;> simp [applyEv, updateState, sessEff, levelEff, seedEff, ht]
    | _ => simp [applyEv, updateState, sessEff, levelEff, seedEff, SrvState.reset]

theorem specState_nil (st : SrvState) : specState st [] = st := by
  cases st; rfl

theorem specState_cons (st : SrvState) (e : Ev) (evs : List Ev) :
    specState st (e :: evs) = specState (applyEv st e) evs := by
  simp only [specState, lastEff_cons, applyEv_spec]

theorem specState_append (st : SrvState) (a b : List Ev) :
    specState st (a ++ b) = specState (specState st a) b := by
  simp only [specState, lastEff_append]

theorem specState_foldl (st : SrvState) (evs : List Ev) : specState st evs = evs.foldl applyEv st := by
  induction evs generalizing st with
  | nil => exact specState_nil st
  | cons e evs ih => rw [specState_cons, ih]; rfl

/-! ### one request, a history -/

theorem handleSE_same (b : Behavior) (m : Model) (h : Handler) (ts : TState) (now : Nat) (r : Req) :
    handleSE b m h ts now now r = handleAt b m h ts now r := rfl

theorem handleSE_state (b : Behavior) (m : Model) (ts : TState) (i : HItem) :
    (handleSE b m i.h ts i.start i.stop i.req).1.st = specState ts.st (stepOf b m ts i).events := by
  rw [specState_foldl]
  unfold handleSE stepOf Step.events respond respondWith respondNoState
  by_cases hi : i.start - ts.lastActive > idleLimit
  · simp only [hi, if_true, decide_true]
    cases hp : respondNoStateWith chain b m i.h ts.st.reset i.req <;> simp [hp, applyEv]
  · simp only [hi, if_false, decide_false]
    cases hp : respondNoStateWith chain b m i.h ts.st i.req <;> simp [hp, applyEv]

theorem runH_state (b : Behavior) (m : Model) : ∀ (hist : List HItem) (ts : TState),
    (runH b m ts hist).st = specState ts.st ((traceH b m ts hist).flatMap Step.events)
  | [], ts => by simp [runH, traceH, specState_nil]
  | i :: rest, ts => by
    simp only [runH, traceH, List.flatMap_cons]
    rw [runH_state b m rest, specState_append, handleSE_state]

/-! ### where an answer of the chain comes from -/

theorem runChain_fire (b : Behavior) (m : Model) (st : SrvState) (r : Req) (x : Resp) :
    ∀ ch : List Sw, runChain b m st r ch = .fire x → ∃ i ∈ ch, b i = true ∧ evalRule i m st r = .fire x
  | [], h => by simp [runChain] at h
  | i :: rest, h => by
    unfold runChain at h
    by_cases hb : b i = true
    · simp only [hb, if_true] at h
      cases he : evalRule i m st r with
      | pass =>
        rw [he] at h
        obtain ⟨j, hj, h1, h2⟩ := runChain_fire b m st r x rest h
        exact ⟨j, by simp [hj], h1, h2⟩
      | fire y => rw [he] at h; simp at h; subst h; exact ⟨i, by simp, hb, he⟩
      | crash c => rw [he] at h; simp at h
    · simp only [hb] at h
      obtain ⟨j, hj, h1, h2⟩ := runChain_fire b m st r x rest (by simpa using h)
      exact ⟨j, by simp [hj], h1, h2⟩

/-- the default rules answer negatively, except session change (a DiagnosticSessionControl reply), session read (a
    ReadDataByIdentifier reply) and tester present -/
theorem evalRule_fire_kind (i : Sw) (m : Model) (st : SrvState) (r : Req) (x : Resp) (h : evalRule i m st r = .fire x) :
    (x.isNeg = true ∧ i ∈ [Sw.sns, .missingSub, .sfns, .format]) ∨
    (i = .sessChange ∧ r.raw = false ∧ r.sid = sidDSC ∧ x = .dsc r.subFn []) ∨
    (i = .sessRead ∧ r.raw = false ∧ r.sid = sidRDBI ∧ r.pdu.getD 1 0 = 0xF1 ∧ r.pdu.getD 2 0 = 0x86 ∧
      x = .other [0x62, 0xF1, 0x86, UInt8.ofNat st.session]) ∨
    (i = .testerPresent ∧ r.raw = false ∧ r.sid = sidTP ∧ x = .tp) := by
  cases i with
  | sns =>
    left
    simp only [evalRule, ruleSNS] at h
    split at h
    · cases h
    · split at h
      · split at h <;> (cases h; simp [Resp.isNeg])
      · cases h
  | missingSub =>
    left
    simp only [evalRule, ruleMissingSub] at h
    split at h
    · cases h; simp [Resp.isNeg]
    · cases h
  | sfns =>
    left
    simp only [evalRule, ruleSFNS] at h
    split at h
    · cases h
    · split at h
      · split at h
        · cases h
        · split at h
          · split at h <;> (cases h; simp [Resp.isNeg])
          · cases h
      · cases h
  | format =>
    left
    simp only [evalRule, ruleFormat] at h
    split at h
    · cases h; simp [Resp.isNeg]
    · cases h
  | sessChange =>
    right; left
    simp only [evalRule, ruleSessChange] at h
    split at h
    · rename_i hg
      cases h
      simp only [Bool.and_eq_true, Bool.not_eq_true', beq_iff_eq] at hg
      exact ⟨rfl, hg.1, hg.2, rfl⟩
    · cases h
  | sessRead =>
    right; right; left
    simp only [evalRule, ruleSessRead] at h
    split at h
    · rename_i hg
      cases h
      simp only [Bool.and_eq_true, Bool.not_eq_true', beq_iff_eq] at hg
      exact ⟨rfl, hg.1.1.1, hg.1.1.2, hg.1.2, hg.2, rfl⟩
    · cases h
  | testerPresent =>
    right; right; right
    simp only [evalRule, ruleTP] at h
    split at h
    · rename_i hg
      cases h
      simp only [Bool.and_eq_true, Bool.not_eq_true', beq_iff_eq] at hg
      exact ⟨rfl, hg.1, hg.2, rfl⟩
    · cases h
  | none_ => simp [evalRule] at h
  | suppress => simp [evalRule] at h

/-- what `respond_without_state_change` returns, by where it came from (every switch subset) -/
theorem respondNoState_cases (b : Behavior) (m : Model) (h : Handler) (st : SrvState) (r : Req) (x : Resp)
    (hx : respondNoState b m h st r = .resp x) :
    r.pdu ≠ [] ∧
    ((∃ i ∈ chain, b i = true ∧ evalRule i m st r = .fire x) ∨
     (runChain b m st r chain = .pass ∧ h st r = some x) ∨
     (runChain b m st r chain = .pass ∧ h st r = none ∧ b .none_ = true ∧ x = .neg r.sid nrcGeneralReject)) := by
  unfold respondNoState respondNoStateWith at hx
  cases hp : r.pdu.isEmpty with
  | true => simp [hp] at hx
  | false =>
    simp only [hp, Bool.false_eq_true, if_false] at hx
    refine ⟨by intro h0; simp [h0] at hp, ?_⟩
    cases hc : runChain b m st r chain with
    | fire y =>
      rw [hc] at hx; simp only [finish, Pre.resp.injEq] at hx; subst hx
      exact Or.inl (runChain_fire b m st r y chain hc)
    | crash c => rw [hc] at hx; simp [finish] at hx
    | pass =>
      rw [hc] at hx
      simp only [finish] at hx
      cases hh : h st r with
      | some y => rw [hh] at hx; simp at hx; subst hx; exact Or.inr (Or.inl ⟨rfl, rfl⟩)
      | none =>
        rw [hh] at hx
        by_cases hn : b .none_ = true
        · simp [hn] at hx; subst hx; exact Or.inr (Or.inr ⟨rfl, rfl, hn, rfl⟩)
        · simp [hn] at hx

/-- a positive SecurityAccess answer is never made up by a default rule: it is the handler's, reached with every
    enabled rule passing -/
theorem sa_answer_iff (b : Behavior) (m : Model) (h : Handler) (st : SrvState) (r : Req) (t : Nat) (seed : Bytes) :
    respondNoState b m h st r = .resp (.sa t seed) ↔
      (r.pdu ≠ [] ∧ runChain b m st r chain = .pass ∧ h st r = some (.sa t seed)) := by
  constructor
  · intro hx
    obtain ⟨hne, hc⟩ := respondNoState_cases b m h st r _ hx
    refine ⟨hne, ?_⟩
    rcases hc with ⟨i, _, _, he⟩ | ⟨hp, hh⟩ | ⟨_, _, _, he⟩
    · rcases evalRule_fire_kind i m st r _ he with ⟨hn, _⟩ | ⟨_, _, _, e⟩ | ⟨_, _, _, _, _, e⟩ | ⟨_, _, _, e⟩ <;>
        simp [Resp.isNeg] at *
    · exact ⟨hp, hh⟩
    · cases he
  · rintro ⟨hne, hp, hh⟩
    unfold respondNoState respondNoStateWith
    have : r.pdu.isEmpty = false := by cases hr : r.pdu <;> simp_all
    simp [this, hp, finish, hh]

/-- a positive DiagnosticSessionControl answer comes from the session-change rule or from the handler -/
theorem dsc_answer_cases (b : Behavior) (m : Model) (h : Handler) (st : SrvState) (r : Req) (t : Nat) (rec : Bytes)
    (hx : respondNoState b m h st r = .resp (.dsc t rec)) :
    (b .sessChange = true ∧ r.raw = false ∧ r.sid = sidDSC ∧ t = r.subFn ∧ rec = []) ∨ h st r = some (.dsc t rec) := by
  obtain ⟨_, hc⟩ := respondNoState_cases b m h st r _ hx
  rcases hc with ⟨i, _, hb, he⟩ | ⟨_, hh⟩ | ⟨_, _, _, he⟩
  · rcases evalRule_fire_kind i m st r _ he with ⟨hn, _⟩ | ⟨hi, h1, h2, e⟩ | ⟨_, _, _, _, _, e⟩ | ⟨_, _, _, e⟩
    · simp [Resp.isNeg] at hn
    · subst hi
      simp only [Resp.dsc.injEq] at e
      exact Or.inl ⟨hb, h1, h2, e.1, e.2⟩
    · cases e
    · cases e
  · exact Or.inr hh
  · cases he

end Gallia.Server

namespace Gallia.VEcu
open Gallia Gallia.Server Gallia.UdsReq

/-- the typed handlers answer SecurityAccess positively in exactly two situations: a seed request (fresh seed from the
    oracle), and a key request that names the level after the pending seed's and carries that seed as key -/
theorem typedHandler_sa (o : Orc) (st : SrvState) (q : UdsReq.Req) (t : UInt8) (seed : Bytes) :
    typedHandler o st q = some (.secAccess t seed) ↔
      ((∃ lvl rec sup, q = .requestSeed lvl rec sup ∧ t = u8 lvl ∧ seed = o.randomPayload 0) ∨
       (∃ lvl key sup t0, q = .sendKey lvl key sup ∧ st.lastSA = some (t0, key) ∧ lvl = t0 + 1 ∧ t = u8 lvl ∧ seed = [])) := by
  cases q with
  | requestSeed lvl rec sup =>
    simp only [typedHandler, Option.some.injEq, UdsResp.Resp.secAccess.injEq]
    constructor
    · rintro ⟨h1, h2⟩; exact Or.inl ⟨lvl, rec, sup, rfl, h1.symm, h2.symm⟩
    · rintro (⟨l, r, s, hq, h1, h2⟩ | ⟨l, k, s, t0, hq, _⟩)
      · cases hq; exact ⟨h1.symm, h2.symm⟩
      · cases hq
  | sendKey lvl key sup =>
    simp only [typedHandler, sendKey]
    constructor
    · intro h
      cases hsa : st.lastSA with
      | none => rw [hsa] at h; simp [neg] at h
      | some p =>
        obtain ⟨t0, sd⟩ := p
        rw [hsa] at h
        simp only at h
        by_cases h1 : lvl = t0 + 1
        · by_cases h2 : key = sd
          · simp [h1, h2] at h
            refine Or.inr ⟨lvl, key, sup, t0, rfl, by rw [h2], h1, ?_, h.2⟩
            rw [h1]; exact h.1.symm
          · simp [h1, h2, neg] at h
        · simp [h1, neg] at h
    · rintro (⟨l, r, s, hq, _⟩ | ⟨l, k, s, t0, hq, hsa, h1, h2, h3⟩)
      · cases hq
      · cases hq
        rw [hsa]
        simp [h1, h2, h3]
  | raw bs =>
    simp only [typedHandler]
    constructor
    · intro h; split at h <;> simp [neg] at h
    · rintro (⟨_, _, _, hq, _⟩ | ⟨_, _, _, _, hq, _⟩) <;> cases hq
  | _ =>
    simp only [typedHandler]
    constructor
    · intro h
      first
        | (simp [neg] at h; done)
        | (repeat' split at h) <;> simp [neg] at h
    · rintro (⟨_, _, _, hq, _⟩ | ⟨_, _, _, _, hq, _⟩) <;> cases hq

theorem coarse_eq_sa (x : UdsResp.Resp) (t : Nat) (seed : Bytes) :
    coarse x = .sa t seed ↔ ∃ t8 : UInt8, x = .secAccess t8 seed ∧ t8.toNat = t := by
  cases x with
  | secAccess ty sd =>
    simp only [coarse, Resp.sa.injEq, UdsResp.Resp.secAccess.injEq]
    constructor
    · rintro ⟨h1, h2⟩; exact ⟨ty, ⟨rfl, h2⟩, h1⟩
    · rintro ⟨t8, ⟨h0, h2⟩, h1⟩; subst h0; exact ⟨h1, h2⟩
  | _ => simp [coarse]

/-- the same through C13's handler interface, on request bytes -/
theorem vecuHandler_sa (o : Orc) (st : SrvState) (r : Server.Req) (t : Nat) (seed : Bytes) :
    vecuHandler o st r = some (.sa t seed) ↔
      ((∃ lvl rec sup, decode r.pdu = .requestSeed lvl rec sup ∧ t = lvl ∧ seed = o.randomPayload 0) ∨
       (∃ key sup t0, decode r.pdu = .sendKey (t0 + 1) key sup ∧ st.lastSA = some (t0, key) ∧ t = t0 + 1 ∧ seed = [])) := by
  have hwf := UdsMatch.dec_wf r.pdu
  unfold vecuHandler
  generalize decode r.pdu = q at hwf
  constructor
  · intro h
    cases hq : typedHandler o st q with
    | none => simp [hq] at h
    | some x =>
      simp only [hq, Option.map_some, Option.some.injEq] at h
      obtain ⟨t8, hx, ht⟩ := (coarse_eq_sa x t seed).1 h
      subst hx
      rcases (typedHandler_sa o st q t8 seed).1 hq with ⟨lvl, rec, sup, e, h1, h2⟩ | ⟨lvl, key, sup, t0, e, hsa, h1, h2, h3⟩
      · subst e
        have hl : lvl < 256 := by have := hwf.1; omega
        refine Or.inl ⟨lvl, rec, sup, rfl, ?_, h2⟩
        rw [← ht, h1, u8_toNat hl]
      · subst e
        have hl : lvl < 256 := by have := hwf.1; omega
        subst h1
        refine Or.inr ⟨key, sup, t0, rfl, hsa, ?_, h3⟩
        rw [← ht, h2, u8_toNat hl]
  · rintro (⟨lvl, rec, sup, e, h1, h2⟩ | ⟨key, sup, t0, e, hsa, h1, h2⟩)
    · subst e
      have hl : lvl < 256 := by have := hwf.1; omega
      have := (typedHandler_sa o st (.requestSeed lvl rec sup) (u8 lvl) seed).2 (Or.inl ⟨lvl, rec, sup, rfl, rfl, h2⟩)
      rw [this]
      simp [coarse, u8_toNat hl, h1]
    · subst e
      have hl : t0 + 1 < 256 := by have := hwf.1; omega
      have := (typedHandler_sa o st (.sendKey (t0 + 1) key sup) (u8 (t0 + 1)) seed).2
        (Or.inr ⟨t0 + 1, key, sup, t0, rfl, hsa, rfl, rfl, h2⟩)
      rw [this]
      simp [coarse, u8_toNat hl, h1]

/-- the concrete handlers never fabricate a DiagnosticSessionControl reply -/
theorem vecuHandler_no_dsc (o : Orc) (st : SrvState) (r : Server.Req) (t : Nat) (rec : Bytes) :
    vecuHandler o st r ≠ some (.dsc t rec) := by
  intro h
  unfold vecuHandler at h
  cases hq : typedHandler o st (decode r.pdu) with
  | none => simp [hq] at h
  | some x =>
    simp only [hq, Option.map_some, Option.some.injEq] at h
    cases x <;> simp [coarse] at h
    rename_i ty rc
    unfold typedHandler at hq
    split at hq <;> (try unfold sendKey at hq) <;> (try unfold neg at hq) <;> (repeat' split at hq) <;> simp at hq

end Gallia.VEcu
