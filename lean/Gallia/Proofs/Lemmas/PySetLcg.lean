/-
  C16 / PySet — the recurrence `i ↦ (5 i + 1) mod 2^k` of CPython's open-addressing tables visits every residue
  (Hull–Dobell for the modulus 2^k, proved from scratch): `lcg_full_period`.
  This is what makes the unbounded probe loops of `set_lookkey` / `set_add_entry` / `set_insert_clean` terminate on a
  table with an unused entry once `perturb` has been shifted to zero.
-/
namespace Gallia.PySet

def lcg (n x : Nat) : Nat := (5 * x + 1) % n

def lcgN (n : Nat) : Nat → Nat → Nat
  | 0, x => x
  | r + 1, x => lcgN n r (lcg n x)

/-- `1 + 5 + … + 5^(r-1)` -/
def geo : Nat → Nat
  | 0 => 0
  | r + 1 => geo r + 5 ^ r

theorem lcgN_add (n r s x : Nat) : lcgN n (r + s) x = lcgN n s (lcgN n r x) := by
  induction r generalizing x with
  | zero => simp [lcgN]
  | succ r ih => rw [Nat.add_right_comm]; simp [lcgN, ih]

theorem lcgN_lt {n : Nat} (hn : 0 < n) {x : Nat} (hx : x < n) (r : Nat) : lcgN n r x < n := by
  induction r generalizing x with
  | zero => simpa [lcgN]
  | succ r ih => exact ih (Nat.mod_lt _ hn)

theorem lcgN_closed (n r x : Nat) : lcgN n r x % n = (5 ^ r * x + geo r) % n := by
  induction r generalizing x with
  | zero => simp [lcgN, geo]
  | succ r ih =>
    simp only [lcgN, geo]
    rw [ih, lcg]
    have : 5 ^ (r + 1) * x + (geo r + 5 ^ r) = 5 ^ r * (5 * x + 1) + geo r := by grind
    rw [this, Nat.add_mod, Nat.mul_mod, Nat.mod_mod, ← Nat.mul_mod, ← Nat.add_mod]

theorem geo_add (r s : Nat) : geo (r + s) = geo r + 5 ^ r * geo s := by
  induction s with
  | zero => simp [geo]
  | succ s ih => rw [← Nat.add_assoc]; simp only [geo, ih, Nat.pow_add]; grind

/-- `5^(2^k) = 1 + 2^(k+2) a` -/
theorem five_pow_two_pow (k : Nat) : ∃ a, 5 ^ (2 ^ k) = 1 + 2 ^ (k + 2) * a := by
  induction k with
  | zero => exact ⟨1, by decide⟩
  | succ k ih =>
    obtain ⟨a, ha⟩ := ih
    refine ⟨a + 2 ^ (k + 1) * a * a, ?_⟩
    rw [Nat.pow_succ 2 k, Nat.pow_mul, ha, Nat.pow_two]
    have e1 : (2 : Nat) ^ (k + 2) = 4 * 2 ^ k := by rw [Nat.pow_add]; grind
    have e2 : (2 : Nat) ^ (k + 1 + 2) = 8 * 2 ^ k := by rw [Nat.pow_add, Nat.pow_add]; grind
    rw [e1, e2]
    grind

/-- `1 + 5 + … + 5^(2^k - 1) = 2^k · odd` -/
theorem geo_two_pow (k : Nat) : ∃ b, geo (2 ^ k) = 2 ^ k * (1 + 2 * b) := by
  induction k with
  | zero => exact ⟨0, by decide⟩
  | succ k ih =>
    obtain ⟨b, hb⟩ := ih
    obtain ⟨a, ha⟩ := five_pow_two_pow k
    have h2 : (2 : Nat) ^ (k + 1) = 2 ^ k + 2 ^ k := by rw [Nat.pow_succ]; omega
    have e1 : (2 : Nat) ^ (k + 2) = 4 * 2 ^ k := by rw [Nat.pow_add]; grind
    refine ⟨b + 2 ^ k * a + 2 * b * (2 ^ k * a), ?_⟩
    rw [h2, geo_add, ha, hb, e1]
    grind

/-- half a period shifts by half the modulus -/
theorem lcgN_half (k y : Nat) (hy : y < 2 ^ (k + 1)) : lcgN (2 ^ (k + 1)) (2 ^ k) y = (y + 2 ^ k) % 2 ^ (k + 1) := by
  have hpos : 0 < 2 ^ (k + 1) := Nat.two_pow_pos _
  have hlt := lcgN_lt hpos hy (2 ^ k)
  rw [← Nat.mod_eq_of_lt hlt, lcgN_closed]
  obtain ⟨a, ha⟩ := five_pow_two_pow k
  obtain ⟨b, hb⟩ := geo_two_pow k
  have e1 : (2 : Nat) ^ (k + 2) = 2 ^ (k + 1) * 2 := by rw [Nat.pow_succ]
  have e0 : (2 : Nat) ^ (k + 1) = 2 ^ k * 2 := by rw [Nat.pow_succ]
  have : 5 ^ 2 ^ k * y + geo (2 ^ k) = (y + 2 ^ k) + 2 ^ (k + 1) * (2 * a * y + b) := by
    rw [ha, hb, e1, e0]; grind
  rw [this, Nat.add_mul_mod_self_left]

/-- reduction modulo the smaller power commutes with the walk -/
theorem lcgN_mod (k r x : Nat) : lcgN (2 ^ (k + 1)) r x % 2 ^ k = lcgN (2 ^ k) r (x % 2 ^ k) % 2 ^ k := by
  have hd : 2 ^ k ∣ 2 ^ (k + 1) := ⟨2, by rw [Nat.pow_succ]⟩
  rw [lcgN_closed (2 ^ k), ← Nat.mod_mod_of_dvd (lcgN (2 ^ (k + 1)) r x) hd, lcgN_closed, Nat.mod_mod_of_dvd _ hd]
  conv => rhs; rw [Nat.add_mod, Nat.mul_mod, Nat.mod_mod, ← Nat.mul_mod, ← Nat.add_mod]

/-- from any start, every residue of `2^k` is reached in fewer than `2^k` steps -/
theorem lcg_full_period (k x j : Nat) (hx : x < 2 ^ k) (hj : j < 2 ^ k) : ∃ r, r < 2 ^ k ∧ lcgN (2 ^ k) r x = j := by
  induction k generalizing x j with
  | zero => exact ⟨0, by simp, by simp [lcgN]; omega⟩
  | succ k ih =>
    have hpos : 0 < 2 ^ k := Nat.two_pow_pos _
    have hpos1 : 0 < 2 ^ (k + 1) := Nat.two_pow_pos _
    have e0 : (2 : Nat) ^ (k + 1) = 2 ^ k + 2 ^ k := by rw [Nat.pow_succ]; omega
    obtain ⟨r, hr, hrj⟩ := ih (x % 2 ^ k) (j % 2 ^ k) (Nat.mod_lt _ hpos) (Nat.mod_lt _ hpos)
    have hy := lcgN_lt hpos1 hx r
    have hmod : lcgN (2 ^ (k + 1)) r x % 2 ^ k = j % 2 ^ k := by
      rw [lcgN_mod, hrj, Nat.mod_mod]
    by_cases heq : lcgN (2 ^ (k + 1)) r x = j
    · exact ⟨r, by omega, heq⟩
    · refine ⟨r + 2 ^ k, by omega, ?_⟩
      rw [lcgN_add, lcgN_half k _ hy]
      generalize lcgN (2 ^ (k + 1)) r x = y at *
      -- y ≡ j (mod 2^k), y ≠ j, both below 2^(k+1)
      have h1 : y % 2 ^ k = if y < 2 ^ k then y else y - 2 ^ k := by
        split
        · exact Nat.mod_eq_of_lt ‹_›
        · rw [Nat.mod_eq_sub_mod (by omega)]; exact Nat.mod_eq_of_lt (by omega)
      have h2 : j % 2 ^ k = if j < 2 ^ k then j else j - 2 ^ k := by
        split
        · exact Nat.mod_eq_of_lt ‹_›
        · rw [Nat.mod_eq_sub_mod (by omega)]; exact Nat.mod_eq_of_lt (by omega)
      rw [h1, h2] at hmod
      by_cases hlt : y + 2 ^ k < 2 ^ (k + 1)
      · rw [Nat.mod_eq_of_lt hlt]; split at hmod <;> split at hmod <;> omega
      · rw [Nat.mod_eq_sub_mod (by omega), Nat.mod_eq_of_lt (by omega)]
        split at hmod <;> split at hmod <;> omega

end Gallia.PySet
