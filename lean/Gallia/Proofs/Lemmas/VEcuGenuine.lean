import Gallia.Proofs.Lemmas.VEcuAnswer
/-
  Helper lemmas for C14, part 3: every answer of the typed virtual ECU is a well-formed typed response and genuine
  (C03's specification of "the answer to exactly that request") for the parsed request - for every oracle and state.
-/
namespace Gallia.VEcu
open Gallia Gallia.Server Gallia.UdsReq Gallia.UdsResp Gallia.Reply Gallia.UdsMatch

theorem sidOf_eq {q : UdsReq.Req} {s : UInt8} (hs : Reply.reqSid q = some s) : sidOf q = s := by
  unfold Reply.reqSid at hs
  unfold sidOf
  cases h : encode q with
  | nil => rw [h] at hs; cases hs
  | cons a t => rw [h] at hs; simpa using hs

/-- a well-formed typed response that is negative for the request's service or positive with the right echo is
    genuine -/
theorem genuine_of (q : UdsReq.Req) (s : UInt8) (hs : Reply.reqSid q = some s) (x : UdsResp.Resp) (hx : x.WF)
    (h : ((isNegative (encodeResp x) && (encodeResp x)[1]? == some s) ||
          (positiveOf s (encodeResp x) && echoOK (view q) (encodeResp x))) = true) :
    Genuine q (encodeResp x) := by
  unfold Genuine genuineB
  rw [hs]
  have hd : Decodable (encodeResp x) = true := (decodable_iff _).2 ⟨x, C02.decodeResp_encodeResp x hx⟩
  simp only [hd, Bool.true_and]
  exact h

theorem genuine_neg (q : UdsReq.Req) (s : UInt8) (hs : Reply.reqSid q = some s) (n : UInt8) (hn : n.toNat ∈ nrcTable) :
    (UdsResp.Resp.neg (sidOf q) n).WF ∧ Genuine q (encodeResp (.neg (sidOf q) n)) := by
  refine ⟨hn, genuine_of q s hs _ hn ?_⟩
  rw [sidOf_eq hs]
  simp [encodeResp, isNegative]

theorem nrcs_listed : ∀ n ∈ [(0x10 : UInt8), nrcSFNS, nrcLength, nrcSequence, nrcOutOfRange, nrcInvalidKey], n.toNat ∈ nrcTable := by
  decide

macro "neg_tac" hs:ident : tactic => `(tactic|
  (first
    | exact genuine_neg _ _ $hs 0x10 (by decide)
    | exact genuine_neg _ _ $hs nrcSFNS (by decide)
    | exact genuine_neg _ _ $hs nrcLength (by decide)
    | exact genuine_neg _ _ $hs nrcSequence (by decide)
    | exact genuine_neg _ _ $hs nrcOutOfRange (by decide)
    | exact genuine_neg _ _ $hs nrcInvalidKey (by decide)))

theorem typedAnswer_ok (o : Orc) (st : SrvState) (q : UdsReq.Req) (hq : q.WF) (hraw : q.isRaw = false) :
    (typedAnswer o st q).WF ∧ Genuine q (encodeResp (typedAnswer o st q)) := by
  cases q with
  | raw b => simp [Req.isRaw] at hraw
  | dsc ty sup =>
    have hs : Reply.reqSid (.dsc ty sup) = some 0x10 := rfl
    have hty : ty < 128 := hq
    have h2 := u8_toNat (show ty < 256 by omega)
    have hwf : (UdsResp.Resp.dsc (u8 ty) []).WF := by show (u8 ty).toNat < 0x80; omega
    simp only [typedAnswer]
    exact ⟨hwf, genuine_of _ _ hs _ hwf (by simp [encodeResp, isNegative, positiveOf, echoOK, view, byteAt, h2])⟩
  | testerPresent sup =>
    have hs : Reply.reqSid (.testerPresent sup) = some 0x3E := rfl
    have hwf : (UdsResp.Resp.testerPresent).WF := trivial
    simp only [typedAnswer]
    exact ⟨hwf, genuine_of _ _ hs _ hwf (by simp [encodeResp, isNegative, positiveOf, echoOK, view, byteAt])⟩
  | ecuReset ty sup =>
    have hs : Reply.reqSid (.ecuReset ty sup) = some 0x11 := rfl
    have hty : ty < 128 := hq
    have h2 := u8_toNat (show ty < 256 by omega)
    simp only [typedAnswer, typedHandler, Option.getD_some]
    have hwf : ∀ p, (UdsResp.Resp.ecuReset (u8 ty) p).WF := by intro p; show (u8 ty).toNat < 0x80; omega
    refine ⟨hwf _, genuine_of _ _ hs _ (hwf _) ?_⟩
    split <;> simp [encodeResp, isNegative, positiveOf, echoOK, view, byteAt, h2]
  | requestSeed lvl rec sup =>
    have hs : Reply.reqSid (.requestSeed lvl rec sup) = some 0x27 := rfl
    have hl : lvl < 128 := hq.1
    have h2 := u8_toNat (show lvl < 256 by omega)
    simp only [typedAnswer, typedHandler, Option.getD_some]
    have hwf : ∀ p, (UdsResp.Resp.secAccess (u8 lvl) p).WF := by intro p; show (u8 lvl).toNat < 0x80; omega
    exact ⟨hwf _, genuine_of _ _ hs _ (hwf _) (by simp [encodeResp, isNegative, positiveOf, echoOK, view, byteAt, h2])⟩
  | sendKey lvl key sup =>
    have hs : Reply.reqSid (.sendKey lvl key sup) = some 0x27 := rfl
    have hl : lvl < 128 := hq.1
    have h2 := u8_toNat (show lvl < 256 by omega)
    have hwf : ∀ p, (UdsResp.Resp.secAccess (u8 lvl) p).WF := by intro p; show (u8 lvl).toNat < 0x80; omega
    simp only [typedAnswer, typedHandler, sendKey, neg]
    split
    · simp only [Option.getD_some]; neg_tac hs
    · split
      · simp only [Option.getD_some]; neg_tac hs
      · split
        · simp only [Option.getD_some]
          exact ⟨hwf _, genuine_of _ _ hs _ (hwf _) (by simp [encodeResp, isNegative, positiveOf, echoOK, view, byteAt, h2])⟩
        · simp only [Option.getD_some]; neg_tac hs
  | routine sf rid rec sup =>
    have hs : Reply.reqSid (.routine sf rid rec sup) = some 0x31 := rfl
    obtain ⟨hsf, hrid⟩ := hq
    have hsf' : sf = 1 ∨ sf = 2 ∨ sf = 3 := by simpa [routineSfs] using hsf
    have h2 := u8_toNat (show sf < 256 by omega)
    have hw := (wordAt_toBE2 0x71 (u8 sf) rid (o.randomPayload 0) hrid).2
    have hwf : (UdsResp.Resp.routine (u8 sf) rid (o.randomPayload 0)).WF := ⟨by rw [h2]; exact hsf', hrid⟩
    simp only [typedAnswer, typedHandler, neg]
    split
    · simp only [Option.getD_some]; neg_tac hs
    · split
      · simp only [Option.getD_some]; neg_tac hs
      · split
        · simp only [Option.getD_some]; neg_tac hs
        · simp only [Option.getD_some]
          exact ⟨hwf, genuine_of _ _ hs _ hwf (by simp [encodeResp, isNegative, positiveOf, echoOK, view, byteAt, h2, hw])⟩
  | wdbi did rec =>
    have hs : Reply.reqSid (.wdbi did rec) = some 0x2E := rfl
    have hd : did < 65536 := hq.1
    have hw := (wordAt_toBE2 0x6E 0 did [] hd).1
    simp only [List.append_nil] at hw
    have hwf : (UdsResp.Resp.wdbi did).WF := hd
    simp only [typedAnswer, typedHandler, neg]
    split
    · simp only [Option.getD_some]; neg_tac hs
    · split
      · simp only [Option.getD_some]; neg_tac hs
      · simp only [Option.getD_some]
        exact ⟨hwf, genuine_of _ _ hs _ hwf (by simp [encodeResp, isNegative, positiveOf, echoOK, view, hw])⟩
  | iocbi did opt mask =>
    have hs : Reply.reqSid (.iocbi did opt mask) = some 0x2F := rfl
    have hd : did < 65536 := hq.1
    have hw := (wordAt_toBE2 0x6F 0 did (o.randomPayload 1) hd).1
    have hwf : (UdsResp.Resp.iocbi did (o.randomPayload 1)).WF := ⟨hd, randomPayload_ne_nil o⟩
    simp only [typedAnswer, typedHandler, neg]
    split
    · simp only [Option.getD_some]; neg_tac hs
    · split
      · simp only [Option.getD_some]; neg_tac hs
      · simp only [Option.getD_some]
        exact ⟨hwf, genuine_of _ _ hs _ hwf (by simp [encodeResp, isNegative, positiveOf, echoOK, view, hw])⟩
  | clearDTC g =>
    have hs : Reply.reqSid (.clearDTC g) = some 0x14 := rfl
    have hwf : (UdsResp.Resp.clearDTC).WF := trivial
    simp only [typedAnswer, typedHandler, neg]
    split
    · simp only [Option.getD_some]; neg_tac hs
    · simp only [Option.getD_some]
      exact ⟨hwf, genuine_of _ _ hs _ hwf (by simp [encodeResp, isNegative, positiveOf, echoOK, view])⟩
  | rdbi dids =>
    have hs : Reply.reqSid (.rdbi dids) = some 0x22 := rfl
    obtain ⟨hne, hlt⟩ := hq
    cases dids with
    | nil => exact absurd rfl hne
    | cons d ds =>
      have hd : d < 65536 := hlt d (by simp)
      simp only [typedAnswer, typedHandler, neg, List.head?_cons, List.headD_cons]
      by_cases hF : d = 0xF186
      · subst hF
        simp only [if_true]
        have hwf : (UdsResp.Resp.rdbi 0xF186 [UInt8.ofNat st.session]).WF := ⟨by decide, by simp⟩
        have hw := (wordAt_toBE2 0x62 0 0xF186 [UInt8.ofNat st.session] (by decide)).1
        exact ⟨hwf, genuine_of _ _ hs _ hwf (by simp [encodeResp, isNegative, positiveOf, echoOK, view, hw])⟩
      · have hF' : ¬ (some d = some 0xF186) := by simpa using hF
        simp only [hF', if_false]
        cases hb : o.bool 0
        · simp only [Bool.not_false, if_true, Option.getD_some]; neg_tac hs
        · simp only [Bool.not_true, Bool.false_eq_true, if_false, Option.getD_some]
          have hwf : (UdsResp.Resp.rdbi d (o.randomPayload 1)).WF := ⟨hd, randomPayload_ne_nil o⟩
          have hw := (wordAt_toBE2 0x62 0 d (o.randomPayload 1) hd).1
          exact ⟨hwf, genuine_of _ _ hs _ hwf (by simp [encodeResp, isNegative, positiveOf, echoOK, view, hw])⟩
  | dtcByMask sf mask sup =>
    have hs : Reply.reqSid (.dtcByMask sf mask sup) = some 0x19 := rfl
    simp only [typedAnswer, typedHandler, neg]
    split
    · rename_i hsf
      subst hsf
      simp only [Option.getD_some]
      obtain ⟨h1, h2⟩ := dtcRecords_ok o
      have hwf : (UdsResp.Resp.dtcList (u8 dtcByStatusMask) o.byte o.dtcRecords).WF :=
        ⟨Or.inl (by decide), h2, h1⟩
      exact ⟨hwf, genuine_of _ _ hs _ hwf (by
        simp [encodeResp, isNegative, positiveOf, echoOK, view, byteAt, dtcByStatusMask, u8])⟩
    · simp only [Option.getD_some]; neg_tac hs
  | dtcPlain sf sup =>
    have hs : Reply.reqSid (.dtcPlain sf sup) = some 0x19 := rfl
    simp only [typedAnswer, typedHandler, neg, Option.getD_some]; neg_tac hs
  | dtcExtByNumber dtc recno sup =>
    have hs : Reply.reqSid (.dtcExtByNumber dtc recno sup) = some 0x19 := rfl
    simp only [typedAnswer, typedHandler, neg, Option.getD_some]; neg_tac hs
  | clearDDDI d sup =>
    cases d with
    | none =>
      have hs : Reply.reqSid (.clearDDDI none sup) = some 0x2C := rfl
      simp only [typedAnswer, typedHandler, Option.getD_none]; neg_tac hs
    | some d =>
      have hs : Reply.reqSid (.clearDDDI (some d) sup) = some 0x2C := rfl
      simp only [typedAnswer, typedHandler, Option.getD_none]; neg_tac hs
  | commCtrl ct comm sup =>
    have hs : Reply.reqSid (.commCtrl ct comm sup) = some 0x28 := rfl
    simp only [typedAnswer, typedHandler, Option.getD_none]; neg_tac hs
  | controlDTC ty rec sup =>
    have hs : Reply.reqSid (.controlDTC ty rec sup) = some 0x85 := rfl
    simp only [typedAnswer, typedHandler, Option.getD_none]; neg_tac hs
  | rmba a sz f =>
    have hs : Reply.reqSid (.rmba a sz f) = some 0x23 := rfl
    simp only [typedAnswer, typedHandler, Option.getD_none]; neg_tac hs
  | defineById ddid gs sup =>
    have hs : Reply.reqSid (.defineById ddid gs sup) = some 0x2C := rfl
    simp only [typedAnswer, typedHandler, Option.getD_none]; neg_tac hs
  | defineByMem ddid f gs sup =>
    have hs : Reply.reqSid (.defineByMem ddid f gs sup) = some 0x2C := rfl
    simp only [typedAnswer, typedHandler, Option.getD_none]; neg_tac hs
  | wmba a sz f rec =>
    have hs : Reply.reqSid (.wmba a sz f rec) = some 0x3D := rfl
    simp only [typedAnswer, typedHandler, Option.getD_none]; neg_tac hs
  | reqDownload a sz c e f =>
    have hs : Reply.reqSid (.reqDownload a sz c e f) = some 0x34 := rfl
    simp only [typedAnswer, typedHandler, Option.getD_none]; neg_tac hs
  | reqUpload a sz c e f =>
    have hs : Reply.reqSid (.reqUpload a sz c e f) = some 0x35 := rfl
    simp only [typedAnswer, typedHandler, Option.getD_none]; neg_tac hs
  | transferData c rec =>
    have hs : Reply.reqSid (.transferData c rec) = some 0x36 := rfl
    simp only [typedAnswer, typedHandler, Option.getD_none]; neg_tac hs
  | transferExit rec =>
    have hs : Reply.reqSid (.transferExit rec) = some 0x37 := rfl
    simp only [typedAnswer, typedHandler, Option.getD_none]; neg_tac hs

end Gallia.VEcu
