import Gallia.Model.UdsReq
/-
  helper lemmas for C01 (UDS request codec)
-/
namespace Gallia.UdsReq
open Gallia

/-! ### bytes -/

theorem u8_toNat {n : Nat} (h : n < 256) : (u8 n).toNat = n := by
  simp [u8, Nat.mod_eq_of_lt h]

@[simp] theorem u8_of_toNat (b : UInt8) : u8 b.toNat = b := by
  simp [u8]

theorem sfByte_toNat {sf : Nat} (h : sf < 128) (sup : Bool) :
    (sfByte sf sup).toNat = sf + (if sup then 128 else 0) := by
  unfold sfByte
  cases sup <;> simp <;> omega

theorem sfOf_sfByte {sf : Nat} (h : sf < 128) (sup : Bool) : sfOf (sfByte sf sup) = sf := by
  unfold sfOf; rw [sfByte_toNat h]; cases sup <;> simp <;> omega

theorem supOf_sfByte {sf : Nat} (h : sf < 128) (sup : Bool) : supOf (sfByte sf sup) = sup := by
  unfold supOf; rw [sfByte_toNat h]; cases sup <;> simp <;> omega

@[simp] theorem sfByte_sfOf_supOf (b : UInt8) : sfByte (sfOf b) (supOf b) = b := by
  unfold sfByte sfOf supOf
  have hb := b.toNat_lt
  have : b.toNat % 128 + (if decide (128 ≤ b.toNat) = true then 128 else 0) = b.toNat := by
    by_cases h : 128 ≤ b.toNat <;> simp [h] <;> omega
  rw [this]; simp

theorem sfOf_lt (b : UInt8) : sfOf b < 128 := by unfold sfOf; omega

theorem sfByte_parity {sf : Nat} (h : sf < 128) (sup : Bool) : (sfByte sf sup).toNat % 2 = sf % 2 := by
  rw [sfByte_toNat h]; cases sup <;> simp <;> omega

theorem sfOf_parity (b : UInt8) : sfOf b % 2 = b.toNat % 2 := by unfold sfOf; omega

/-! ### big-endian pairs / triples -/

theorem toBE_two (n : Nat) : toBE n 2 = [UInt8.ofNat (n / 256 % 256), UInt8.ofNat (n % 256)] := by
  simp [toBE]

theorem toBE_three (n : Nat) :
    toBE n 3 = [UInt8.ofNat (n / 256 / 256 % 256), UInt8.ofNat (n / 256 % 256), UInt8.ofNat (n % 256)] := by
  simp [toBE]

theorem toBE_fromBE_two (a b : UInt8) : toBE (fromBE [a, b]) 2 = [a, b] := toBE_fromBE' [a, b] 2 rfl
theorem toBE_fromBE_three (a b c : UInt8) : toBE (fromBE [a, b, c]) 3 = [a, b, c] := toBE_fromBE' [a, b, c] 3 rfl

theorem fromBE_two_lt (a b : UInt8) : fromBE [a, b] < 65536 := by
  have := fromBE_lt [a, b]; simpa using this
theorem fromBE_three_lt (a b c : UInt8) : fromBE [a, b, c] < 256 ^ 3 := by
  have := fromBE_lt [a, b, c]; simpa using this

/-! ### fixed-width records -/

@[simp] theorem chunksOf_nil (k : Nat) : chunksOf k [] = some [] := by
  rw [chunksOf]; simp

theorem chunksOf_append (k : Nat) (hk : 0 < k) (c rest : Bytes) (hc : c.length = k) :
    chunksOf k (c ++ rest) = (chunksOf k rest).map (c :: ·) := by
  rw [chunksOf]
  have hne : c ++ rest ≠ [] := by
    intro h
    have hc0 : c = [] := (List.append_eq_nil_iff.mp h).1
    rw [hc0] at hc; simp at hc; omega
  have h2 : ¬ (k = 0 ∨ (c ++ rest).length < k) := by simp; omega
  rw [dif_neg hne, dif_neg h2]
  have ht : (c ++ rest).take k = c := by rw [← hc]; simp
  have hd : (c ++ rest).drop k = rest := by rw [← hc]; simp
  rw [ht, hd]

theorem chunksOf_flatten (k : Nat) (hk : 0 < k) (cs : List Bytes) (h : ∀ c ∈ cs, c.length = k) :
    chunksOf k cs.flatten = some cs := by
  induction cs with
  | nil => simp
  | cons c cs ih =>
    rw [List.flatten_cons, chunksOf_append k hk c _ (h c (by simp)), ih (fun c hc => h c (by simp [hc]))]
    rfl

theorem chunksOf_some (k : Nat) (bs : Bytes) (cs : List Bytes) (h : chunksOf k bs = some cs) :
    cs.flatten = bs ∧ ∀ c ∈ cs, c.length = k := by
  fun_induction chunksOf k bs generalizing cs with
  | case1 => simp at h; subst h; simp
  | case2 bs hne hk => simp at h
  | case3 bs hne hk ih =>
    simp only [Option.map_eq_some_iff] at h
    obtain ⟨cs', hcs', rfl⟩ := h
    obtain ⟨hf, hl⟩ := ih cs' hcs'
    have hk' : ¬ (k = 0) ∧ ¬ (bs.length < k) := by
      constructor <;> intro h' <;> exact hk (by simp [h'])
    constructor
    · rw [List.flatten_cons, hf, List.take_append_drop]
    · intro c hc
      simp only [List.mem_cons] at hc
      rcases hc with rfl | hc
      · simp; omega
      · exact hl c hc

/-! ### address / size groups -/

@[simp] theorem encAddrSize_length (alfid : Nat) (g : Nat × Nat) :
    (encAddrSize alfid g).length = alLen alfid + slLen alfid := by simp [encAddrSize]

theorem decAddrSize_enc (alfid : Nat) (g : Nat × Nat) (h : Fits alfid g.1 g.2) :
    decAddrSize alfid (encAddrSize alfid g) = g := by
  unfold decAddrSize encAddrSize
  rw [List.take_left' (by simp), List.drop_left' (by simp), fromBE_toBE _ _ h.1, fromBE_toBE _ _ h.2]

theorem encAddrSize_dec (alfid : Nat) (c : Bytes) (h : c.length = alLen alfid + slLen alfid) :
    encAddrSize alfid (decAddrSize alfid c) = c ∧ Fits alfid (decAddrSize alfid c).1 (decAddrSize alfid c).2 := by
  unfold decAddrSize encAddrSize Fits
  have h1 : (c.take (alLen alfid)).length = alLen alfid := by simp; omega
  have h2 : (c.drop (alLen alfid)).length = slLen alfid := by simp; omega
  refine ⟨?_, ?_, ?_⟩
  · simp only
    rw [toBE_fromBE' _ _ h1, toBE_fromBE' _ _ h2, List.take_append_drop]
  · have := fromBE_lt (c.take (alLen alfid)); rwa [h1] at this
  · have := fromBE_lt (c.drop (alLen alfid)); rwa [h2] at this

theorem alfidOk_lens {alfid : Nat} (h : AlfidOk alfid) : 0 < alLen alfid ∧ 0 < slLen alfid ∧ alLen alfid ≤ 15 ∧ slLen alfid ≤ 15 := by
  unfold AlfidOk at h; unfold alLen slLen; omega

theorem parseMem_enc (alfid a s : Nat) (rest : Bytes) (hok : AlfidOk alfid) (hf : Fits alfid a s) :
    parseMem (u8 alfid :: (encAddrSize alfid (a, s) ++ rest)) = some (alfid, a, s, rest) := by
  have hl := alfidOk_lens hok
  have hn : (u8 alfid).toNat = alfid := u8_toNat hok.1
  simp only [parseMem, hn]
  have hc : ¬ (alLen alfid = 0 ∨ slLen alfid = 0 ∨
      (encAddrSize alfid (a, s) ++ rest).length < alLen alfid + slLen alfid) := by
    simp; omega
  rw [if_neg hc]
  rw [List.take_left' (by simp), List.drop_left' (by simp), decAddrSize_enc alfid (a, s) hf]

theorem parseMem_some (body : Bytes) (alfid a s : Nat) (rec : Bytes) (h : parseMem body = some (alfid, a, s, rec)) :
    body = u8 alfid :: (encAddrSize alfid (a, s) ++ rec) ∧ AlfidOk alfid ∧ Fits alfid a s := by
  unfold parseMem at h
  split at h
  · simp at h
  · rename_i f rest
    simp only at h
    split at h
    · simp at h
    · rename_i hc
      simp only [Option.some.injEq, Prod.mk.injEq] at h
      obtain ⟨rfl, rfl, rfl, rfl⟩ := h
      have hlen : (rest.take (alLen f.toNat + slLen f.toNat)).length = alLen f.toNat + slLen f.toNat := by
        simp; omega
      obtain ⟨he, hfit⟩ := encAddrSize_dec f.toNat _ hlen
      refine ⟨?_, ?_, hfit⟩
      · simp only [u8_of_toNat]
        rw [show ((decAddrSize f.toNat (List.take (alLen f.toNat + slLen f.toNat) rest)).1,
              (decAddrSize f.toNat (List.take (alLen f.toNat + slLen f.toNat) rest)).2) =
              decAddrSize f.toNat (List.take (alLen f.toNat + slLen f.toNat) rest) from rfl, he,
            List.take_append_drop]
      · have := f.toNat_lt
        unfold AlfidOk; unfold alLen slLen at hc; omega

end Gallia.UdsReq
