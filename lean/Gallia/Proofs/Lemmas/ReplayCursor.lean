import Gallia.Proofs.Lemmas.Replay
/-
  C12 — the cursor semantics of `replayStep` in general (`smallest matching id above the cursor, else smallest matching id`),
  and replaying along a path of rows some of which are skipped (rows of calls that were never transmitted).
-/
namespace Gallia.Replay
open Gallia

theorem uptoLast_eq (last : Option Nat) (id : Nat) : uptoLast last id = !afterLast last id := by
  cases last with
  | none => rfl
  | some l => simp only [uptoLast, afterLast]; by_cases h : l < id <;> simp [h] <;> omega

/-- no matching row: silence, nothing changes -/
theorem replayStep_nomatch (rows : List Row) (s : Srv) (req : Bytes)
    (h : ∀ r ∈ rows, matchesQ s.st req r = false) : replayStep rows s req = (s, none) := by
  have h1 : minRow (fun r => matchesQ s.st req r && afterLast s.last r.id) rows = none := by
    cases hm : minRow (fun r => matchesQ s.st req r && afterLast s.last r.id) rows with
    | none => rfl
    | some m => obtain ⟨a, b, _⟩ := minRow_some hm; simp [h m a] at b
  have h2 : minRow (fun r => matchesQ s.st req r && uptoLast s.last r.id) rows = none := by
    cases hm : minRow (fun r => matchesQ s.st req r && uptoLast s.last r.id) rows with
    | none => rfl
    | some m => obtain ⟨a, b, _⟩ := minRow_some hm; simp [h m a] at b
  simp only [replayStep, h1, h2]

/-- a matching row above the cursor with the smallest id among those is the one served -/
theorem replayStep_after (rows : List Row) (huniq : ∀ r ∈ rows, ∀ r' ∈ rows, r.id = r'.id → r = r')
    (s : Srv) (req : Bytes) (r : Row) (hr : r ∈ rows) (hm : matchesQ s.st req r = true) (ha : afterLast s.last r.id = true)
    (hmin : ∀ r' ∈ rows, matchesQ s.st req r' = true → afterLast s.last r'.id = true → r.id ≤ r'.id) :
    replayStep rows s req = (⟨srvNext s.st r.resp, some r.id⟩, r.resp) := by
  have hpick : minRow (fun r => matchesQ s.st req r && afterLast s.last r.id) rows = some r := by
    apply minRow_unique hr
    · simp [hm, ha]
    · intro r' hr' hp
      simp only [Bool.and_eq_true] at hp
      exact hmin r' hr' hp.1 hp.2
    · intro r' hr' hid; exact huniq r' hr' r hr hid
  simp only [replayStep, hpick]

/-- no matching row above the cursor: the query wraps around to the matching row with the smallest id -/
theorem replayStep_wrapAround (rows : List Row) (huniq : ∀ r ∈ rows, ∀ r' ∈ rows, r.id = r'.id → r = r')
    (s : Srv) (req : Bytes) (r : Row) (hr : r ∈ rows) (hm : matchesQ s.st req r = true)
    (hnone : ∀ r' ∈ rows, matchesQ s.st req r' = true → afterLast s.last r'.id = false)
    (hmin : ∀ r' ∈ rows, matchesQ s.st req r' = true → r.id ≤ r'.id) :
    replayStep rows s req = (⟨srvNext s.st r.resp, some r.id⟩, r.resp) := by
  have h1 : minRow (fun r => matchesQ s.st req r && afterLast s.last r.id) rows = none := by
    cases hq : minRow (fun r => matchesQ s.st req r && afterLast s.last r.id) rows with
    | none => rfl
    | some m =>
      obtain ⟨a, b, _⟩ := minRow_some hq
      simp only [Bool.and_eq_true] at b
      rw [hnone m a b.1] at b
      exact absurd b.2 (by simp)
  have h2 : minRow (fun r => matchesQ s.st req r && uptoLast s.last r.id) rows = some r := by
    apply minRow_unique hr
    · simp [hm, uptoLast_eq, hnone r hr hm]
    · intro r' hr' hp
      simp only [Bool.and_eq_true] at hp
      exact hmin r' hr' hp.1
    · intro r' hr' hid; exact huniq r' hr' r hr hid
  simp only [replayStep, h1, h2]

/-- **the cursor semantics, complete.**  Whatever the table holds: either no row matches (selector, logged state = server state,
    request bytes) and the server stays silent and unchanged; or the server serves a matching row, moves the cursor onto it and takes
    the state its reply leads to (a reset for a row without reply) - and that row is the matching row with the smallest id above the
    cursor, or, when no matching row lies above the cursor, the matching row with the smallest id of all. -/
theorem replayStep_cases (rows : List Row) (s : Srv) (req : Bytes) :
    ((∀ r ∈ rows, matchesQ s.st req r = false) ∧ replayStep rows s req = (s, none)) ∨
    ∃ r ∈ rows, matchesQ s.st req r = true ∧ replayStep rows s req = (⟨srvNext s.st r.resp, some r.id⟩, r.resp) ∧
      ((afterLast s.last r.id = true ∧
          ∀ r' ∈ rows, matchesQ s.st req r' = true → afterLast s.last r'.id = true → r.id ≤ r'.id) ∨
       ((∀ r' ∈ rows, matchesQ s.st req r' = true → afterLast s.last r'.id = false) ∧
          ∀ r' ∈ rows, matchesQ s.st req r' = true → r.id ≤ r'.id)) := by
  cases h1 : minRow (fun r => matchesQ s.st req r && afterLast s.last r.id) rows with
  | some m =>
    right
    obtain ⟨a, b, c⟩ := minRow_some h1
    simp only [Bool.and_eq_true] at b
    refine ⟨m, a, b.1, by simp only [replayStep, h1], Or.inl ⟨b.2, ?_⟩⟩
    intro r' hr' hm' ha'
    exact c r' hr' (by simp [hm', ha'])
  | none =>
    have hn := minRow_none h1
    have hnone : ∀ r' ∈ rows, matchesQ s.st req r' = true → afterLast s.last r'.id = false := by
      intro r' hr' hm'
      have := hn r' hr'
      simpa [hm'] using this
    cases h2 : minRow (fun r => matchesQ s.st req r && uptoLast s.last r.id) rows with
    | some m =>
      right
      obtain ⟨a, b, c⟩ := minRow_some h2
      simp only [Bool.and_eq_true] at b
      refine ⟨m, a, b.1, by simp only [replayStep, h1, h2], Or.inr ⟨hnone, ?_⟩⟩
      intro r' hr' hm'
      exact c r' hr' (by simp [hm', uptoLast_eq, hnone r' hr' hm'])
    | none =>
      left
      have hn2 := minRow_none h2
      have hall : ∀ r ∈ rows, matchesQ s.st req r = false := by
        intro r hr
        cases hm : matchesQ s.st req r with
        | false => rfl
        | true =>
          have := hn2 r hr
          simp [hm, uptoLast_eq, hnone r hr hm] at this
      exact ⟨hall, replayStep_nomatch rows s req hall⟩


/-! ### calls that were never transmitted

A call of `ECU.request` that is cancelled while it waits for the client mutex runs its `finally`: it leaves a row - the client's
state, the request, no reply, no exception - although nothing was put on the wire (C11: `cancelled_waiter_row`).  `cs` is the
sequence of completed calls with a flag "was transmitted".  Replaying what *was* transmitted: -/

/-- the transmitted exchanges -/
def sentOf (cs : List (Exch × Bool)) : List Exch := (cs.filter (·.2)).map (·.1)

/-- a never-transmitted call has no reply; along the transmitted ones client and server derive the same state -/
def AgreeSent : St → List (Exch × Bool) → Prop
  | _, [] => True
  | st, (x, false) :: cs => x.resp = none ∧ AgreeSent st cs
  | st, (x, true) :: cs => clientUpdate st x.resp = srvNext st x.resp ∧ AgreeSent (clientUpdate st x.resp) cs

/-- no never-transmitted request is directly followed - as the next transmitted request - by the same bytes
    (`pend`: the never-transmitted requests since the last transmitted one) -/
def NoShadow : List Bytes → List (Exch × Bool) → Prop
  | _, [] => True
  | pend, (x, false) :: cs => NoShadow (x.req :: pend) cs
  | pend, (x, true) :: cs => x.req ∉ pend ∧ NoShadow [] cs

theorem sentOf_cons_false (x : Exch) (cs : List (Exch × Bool)) : sentOf ((x, false) :: cs) = sentOf cs := by
  simp [sentOf]

theorem sentOf_cons_true (x : Exch) (cs : List (Exch × Bool)) : sentOf ((x, true) :: cs) = x :: sentOf cs := by
  simp [sentOf]

theorem clientUpdate_none (st : St) : clientUpdate st none = st := rfl

/-- invariant form of `replay_sent_only` -/
theorem replay_sent_suffix (rows : List Row) (huniq : ∀ r ∈ rows, ∀ r' ∈ rows, r.id = r'.id → r = r')
    (cs : List (Exch × Bool)) (k : Nat) (st : St) (last : Option Nat) (pend : List Bytes)
    (hrec : ∀ r ∈ record k st (cs.map (·.1)), r ∈ rows)
    (hlow : ∀ r ∈ rows, r.selected = true → r.id < k →
      (∃ l, last = some l ∧ r.id ≤ l) ∨ (r.state = st ∧ r.req ∈ pend))
    (hlast : ∀ l, last = some l → l < k)
    (hhigh : ∀ r ∈ rows, r.selected = true → k ≤ r.id → r ∈ record k st (cs.map (·.1)) ∨ k + cs.length ≤ r.id)
    (hagree : AgreeSent st cs) (hns : NoShadow pend cs) :
    replayAll rows ⟨st, last⟩ ((sentOf cs).map (·.req)) = (sentOf cs).map (·.resp) := by
  induction cs generalizing k st last pend with
  | nil => rfl
  | cons c cs ih =>
    obtain ⟨x, sent⟩ := c
    have hrow0 : (⟨k, true, st, x.req, x.resp⟩ : Row) ∈ rows := hrec _ (by simp [record])
    cases sent with
    | false =>
      obtain ⟨hnone, hag⟩ := hagree
      rw [sentOf_cons_false]
      have hst : clientUpdate st x.resp = st := by rw [hnone]; rfl
      apply ih (k + 1) st last (x.req :: pend)
      · intro r hr; exact hrec r (by simp only [List.map_cons, record_cons, hst]; exact List.mem_cons_of_mem _ hr)
      · intro r hr hsel hlt
        by_cases hk : r.id < k
        · rcases hlow r hr hsel hk with h | ⟨h1, h2⟩
          · exact Or.inl h
          · exact Or.inr ⟨h1, List.mem_cons_of_mem _ h2⟩
        · have hid : r.id = k := by omega
          have := huniq r hr _ hrow0 hid
          subst this
          exact Or.inr ⟨rfl, by simp⟩
      · intro l hl; have := hlast l hl; omega
      · intro r hr hsel hge
        rcases hhigh r hr hsel (by omega) with hm | hb
        · simp only [List.map_cons, record_cons, List.mem_cons, hst] at hm
          rcases hm with rfl | hm
          · exact absurd hge (by simp)
          · exact Or.inl hm
        · right; simp only [List.length_cons] at hb; omega
      · exact hag
      · exact hns
    | true =>
      obtain ⟨hst, hag⟩ := hagree
      obtain ⟨hnp, hns'⟩ := hns
      rw [sentOf_cons_true]
      have hstep : replayStep rows ⟨st, last⟩ x.req = (⟨srvNext st x.resp, some k⟩, x.resp) := by
        apply replayStep_after rows huniq ⟨st, last⟩ x.req ⟨k, true, st, x.req, x.resp⟩ hrow0
        · simp [matchesQ]
        · cases hl : last with
          | none => rfl
          | some l => simpa [afterLast] using hlast l hl
        · intro r' hr' hm' ha'
          simp only [matchesQ, Bool.and_eq_true, beq_iff_eq] at hm'
          obtain ⟨⟨hsel, hstate⟩, hreq⟩ := hm'
          show k ≤ r'.id
          by_cases hk : r'.id < k
          · rcases hlow r' hr' hsel hk with ⟨l, hl, hle⟩ | ⟨_, h2⟩
            · rw [hl] at ha'; simp only [afterLast, decide_eq_true_eq] at ha'; omega
            · rw [hreq] at h2; exact absurd h2 hnp
          · omega
      simp only [List.map_cons, replayAll, hstep]
      congr 1
      rw [← hst]
      apply ih (k + 1) (clientUpdate st x.resp) (some k) []
      · intro r hr; exact hrec r (by simp only [List.map_cons, record_cons]; exact List.mem_cons_of_mem _ hr)
      · intro r _ _ hlt; exact Or.inl ⟨k, rfl, by omega⟩
      · intro l hl; injection hl with hl; omega
      · intro r hr hsel hge
        rcases hhigh r hr hsel (by omega) with hm | hb
        · simp only [List.map_cons, record_cons, List.mem_cons] at hm
          rcases hm with rfl | hm
          · exact absurd hge (by simp)
          · exact Or.inl hm
        · right; simp only [List.length_cons] at hb; omega
      · exact hag
      · exact hns'

end Gallia.Replay
