import Gallia.Model.ConfigFile
/-
  Helper lemmas for C18's file layer: tables (`get?` / `setKey`), dotted paths (`getPath` / `setPath`), the template
  document, splitting of keys, first-match search.
-/
namespace Gallia.Config

/-! ### tables -/

theorem Tree.get_setKey_same (k : Str) (f : Option Tree → Tree) (t : Tree) :
    (t.setKey k f).get? k = some (f (t.get? k)) := by
  induction t with
  | leaf v => simp [Tree.setKey, Tree.get?]
  | nil => simp [Tree.setKey, Tree.get?]
  | cons k' v rest _ ih =>
    by_cases h : k' = k
    · subst h; simp [Tree.setKey, Tree.get?]
    · have h' : (k' == k) = false := by simpa using h
      simp [Tree.setKey, Tree.get?, h', ih]

theorem Tree.get_setKey_other (k x : Str) (f : Option Tree → Tree) (t : Tree) (hx : k ≠ x) :
    (t.setKey k f).get? x = t.get? x := by
  induction t with
  | leaf v =>
    have : (k == x) = false := by simpa using hx
    simp [Tree.setKey, Tree.get?, this]
  | nil =>
    have : (k == x) = false := by simpa using hx
    simp [Tree.setKey, Tree.get?, this]
  | cons k' v rest _ ih =>
    by_cases h : k' = k
    · subst h
      have : (k' == x) = false := by simpa using hx
      simp [Tree.setKey, Tree.get?, this]
    · have h' : (k' == k) = false := by simpa using h
      by_cases h2 : k' = x
      · subst h2; simp [Tree.setKey, Tree.get?, h']
      · have h2' : (k' == x) = false := by simpa using h2
        simp [Tree.setKey, Tree.get?, h', h2', ih]

theorem Tree.isTbl_setKey (k : Str) (f : Option Tree → Tree) (t : Tree) : (t.setKey k f).isTbl = true := by
  cases t with
  | leaf v => rfl
  | nil => rfl
  | cons k' v rest => simp only [Tree.setKey]; split <;> rfl

/-! ### dotted paths: `get_value` as a structural lookup -/

/-- the value at a non-empty path: every step but the last must lead to a table -/
def lookup (d : Tree) : List Str → Option Tree
  | [] => none
  | [p] => d.get? p
  | p :: q :: ps =>
    match d.get? p with
    | some t => if t.isTbl then lookup t (q :: ps) else none
    | none => none

theorem walk_none (ps : List Str) (hps : ps ≠ []) (v : Option Tree) : walk ps none v = none := by
  cases ps with
  | nil => exact absurd rfl hps
  | cons p ps => rfl

/-- `Config.get_value` is this lookup -/
theorem getPath_eq_lookup (d : Tree) (ps : List Str) (hps : ps ≠ []) : getPath d ps = lookup d ps := by
  induction ps generalizing d with
  | nil => exact absurd rfl hps
  | cons p ps ih =>
    cases ps with
    | nil => simp [getPath, walk, lookup]
    | cons q qs =>
      have ih' := fun d' => ih d' (by simp)
      simp only [getPath] at ih' ⊢
      simp only [walk, lookup]
      cases hg : d.get? p with
      | none => simp
      | some t =>
        by_cases ht : t.isTbl = true
        · simp only [ht, if_true]
          have := ih' t
          simp only [walk] at this
          exact this
        · have ht' : t.isTbl = false := by simpa using ht
          simp [ht']

theorem isTbl_setPath (p : List Str) (hp : p ≠ []) (v t : Tree) : (setPath p v t).isTbl = true := by
  cases p with
  | nil => exact absurd rfl hp
  | cons k ks =>
    cases ks with
    | nil => simp [setPath, Tree.isTbl_setKey]
    | cons k2 ks => simp [setPath, Tree.isTbl_setKey]

theorem setPath_cons2 (k k2 : Str) (ks : List Str) (v t : Tree) :
    setPath (k :: k2 :: ks) v t = t.setKey k (fun old => setPath (k2 :: ks) v (childTbl old)) := by
  simp only [setPath]

theorem lookup_nil_tbl (q : List Str) : lookup .nil q = none := by
  cases q with
  | nil => rfl
  | cons a q => cases q <;> simp [lookup, Tree.get?]

theorem lookup_childTbl (old : Option Tree) (q : List Str) (_hq : q ≠ []) :
    lookup (childTbl old) q = (match old with | some c => if c.isTbl then lookup c q else none | none => none) := by
  cases old with
  | none => simp [childTbl, lookup_nil_tbl]
  | some c =>
    by_cases hc : c.isTbl = true
    · simp [childTbl, hc]
    · have : c.isTbl = false := by simpa using hc
      simp [childTbl, this, lookup_nil_tbl]

/-- what was written at a path is read back from it -/
theorem lookup_setPath_same (p : List Str) (hp : p ≠ []) (v t : Tree) : lookup (setPath p v t) p = some v := by
  induction p generalizing t with
  | nil => exact absurd rfl hp
  | cons k ks ih =>
    cases ks with
    | nil => simp [setPath, lookup, Tree.get_setKey_same]
    | cons k2 ks =>
      rw [setPath_cons2]
      simp only [lookup, Tree.get_setKey_same]
      rw [isTbl_setPath _ (by simp)]
      simp only [if_true]
      exact ih (by simp) _

/-- writing at a path leaves every path that is neither a prefix nor an extension of it as it was -/
theorem lookup_setPath_other (p q : List Str) (hq : q ≠ []) (v t : Tree)
    (h1 : isPrefix p q = false) (h2 : isPrefix q p = false) : lookup (setPath p v t) q = lookup t q := by
  induction p generalizing q t with
  | nil => simp [isPrefix] at h1
  | cons k ks ih =>
    cases q with
    | nil => exact absurd rfl hq
    | cons x qs =>
      by_cases hk : k = x
      · subst hk
        -- same first step: both continue below it
        cases ks with
        | nil => simp [isPrefix] at h1
        | cons k2 ks =>
          cases qs with
          | nil => simp [isPrefix] at h2
          | cons x2 qs =>
            rw [setPath_cons2]
            simp only [lookup, Tree.get_setKey_same]
            rw [isTbl_setPath _ (by simp)]
            simp only [if_true]
            have h1' : isPrefix (k2 :: ks) (x2 :: qs) = false := by simpa [isPrefix] using h1
            have h2' : isPrefix (x2 :: qs) (k2 :: ks) = false := by simpa [isPrefix] using h2
            rw [ih (x2 :: qs) (by simp) _ h1' h2', lookup_childTbl _ _ (by simp)]
      · -- different first step: the entry looked at is untouched
        have hset : ∀ f, (t.setKey k f).get? x = t.get? x := fun f => Tree.get_setKey_other k x f t hk
        cases ks with
        | nil =>
          cases qs with
          | nil => simp [setPath, lookup, hset]
          | cons x2 qs => simp [setPath, lookup, hset]
        | cons k2 ks =>
          rw [setPath_cons2]
          cases qs with
          | nil => simp [lookup, hset]
          | cons x2 qs => simp [lookup, hset]

/-! ### the template document -/

def tmplStep (t : Tree) (e : List Str × Option Tree) : Tree :=
  match e.2 with
  | some d => setPath e.1 d t
  | none => t

theorem templateDoc_eq (reg : List (List Str × Option Tree)) : templateDoc reg = reg.foldl tmplStep .nil := rfl

theorem foldl_tmpl_preserves (es : List (List Str × Option Tree)) (t : Tree) (q : List Str) (hq : q ≠ [])
    (h : ∀ e ∈ es, isPrefix e.1 q = false ∧ isPrefix q e.1 = false) :
    lookup (es.foldl tmplStep t) q = lookup t q := by
  induction es generalizing t with
  | nil => rfl
  | cons e es ih =>
    simp only [List.foldl_cons]
    rw [ih _ (fun e' he' => h e' (List.mem_cons_of_mem _ he'))]
    obtain ⟨h1, h2⟩ := h e (List.mem_cons_self ..)
    unfold tmplStep
    split
    · exact lookup_setPath_other _ _ hq _ _ h1 h2
    · rfl

theorem isPrefix_refl (p : List Str) : isPrefix p p = true := by
  induction p with
  | nil => rfl
  | cons a p ih => simp [isPrefix, ih]

theorem prefixFree_mem {ps : List (List Str)} (h : prefixFree ps = true) {p : List Str} (hp : p ∈ ps) : p ≠ [] := by
  induction ps with
  | nil => cases hp
  | cons a ps ih =>
    simp only [prefixFree, Bool.and_eq_true] at h
    rcases List.mem_cons.mp hp with rfl | hp
    · intro hnil; subst hnil; simp at h
    · exact ih h.2 hp

/-- in the template document of a prefix-free registry every key with a default holds that default ... -/
theorem lookup_templateDoc (reg : List (List Str × Option Tree)) (t : Tree) (h : prefixFree (reg.map (·.1)) = true)
    (k : List Str) (v : Tree) (hk : (k, some v) ∈ reg) : lookup (reg.foldl tmplStep t) k = some v := by
  induction reg generalizing t with
  | nil => cases hk
  | cons e es ih =>
    simp only [List.map_cons, prefixFree, Bool.and_eq_true] at h
    obtain ⟨⟨hne, hall⟩, hrest⟩ := h
    simp only [List.foldl_cons]
    rcases List.mem_cons.mp hk with rfl | hk
    · -- the entry itself: written now, untouched by the later ones
      have hkne : k ≠ [] := by intro hnil; subst hnil; simp at hne
      rw [foldl_tmpl_preserves es _ k hkne]
      · simp [tmplStep, lookup_setPath_same k hkne]
      · intro e' he'
        have := List.all_eq_true.mp hall e'.1 (List.mem_map_of_mem he')
        simp only [Bool.and_eq_true, Bool.not_eq_true'] at this
        exact ⟨this.2, this.1⟩
    · exact ih _ hrest hk

/-- ... and a key that is only listed in a comment is absent (unless the start document had it) -/
theorem lookup_templateDoc_commented (reg : List (List Str × Option Tree)) (t : Tree) (h : prefixFree (reg.map (·.1)) = true)
    (k : List Str) (hk : (k, none) ∈ reg) : lookup (reg.foldl tmplStep t) k = lookup t k := by
  induction reg generalizing t with
  | nil => cases hk
  | cons e es ih =>
    simp only [List.map_cons, prefixFree, Bool.and_eq_true] at h
    obtain ⟨⟨hne, hall⟩, hrest⟩ := h
    simp only [List.foldl_cons]
    rcases List.mem_cons.mp hk with rfl | hk
    · have hkne : k ≠ [] := by intro hnil; subst hnil; simp at hne
      rw [foldl_tmpl_preserves es _ k hkne]
      · simp [tmplStep]
      · intro e' he'
        have := List.all_eq_true.mp hall e'.1 (List.mem_map_of_mem he')
        simp only [Bool.and_eq_true, Bool.not_eq_true'] at this
        exact ⟨this.2, this.1⟩
    · rw [ih _ hrest hk]
      have hkne : k ≠ [] := prefixFree_mem hrest (List.mem_map_of_mem (f := (·.1)) hk)
      have := List.all_eq_true.mp hall k (List.mem_map_of_mem (f := (·.1)) hk)
      simp only [Bool.and_eq_true, Bool.not_eq_true'] at this
      unfold tmplStep
      split
      · exact lookup_setPath_other _ _ hkne _ _ this.1 this.2
      · rfl

/-! ### splitting keys at the dots -/

theorem splitOn_cons (sep c : Char) (r : Str) :
    splitOn sep (c :: r) = if c == sep then [] :: splitOn sep r else
      match splitOn sep r with
      | h :: t => (c :: h) :: t
      | [] => [[c]] := by
  simp only [splitOn, List.foldr_cons]
  split <;> simp_all

theorem splitOn_ne_nil (sep : Char) (s : Str) : splitOn sep s ≠ [] := by
  simp [splitOn]

/-- a key built as `section + "." + name` splits into the parts of the section followed by the parts of the name -/
theorem splitOn_append_sep (sep : Char) (a b : Str) :
    splitOn sep (a ++ sep :: b) = (match splitOn sep a with | [] => [] | l => l) ++ splitOn sep b := by
  induction a with
  | nil =>
    rw [List.nil_append, splitOn_cons]
    simp [splitOn]
  | cons c a ih =>
    rw [List.cons_append, splitOn_cons, splitOn_cons, ih]
    by_cases hc : c == sep
    · simp only [hc, if_true]
      cases h : splitOn sep a with
      | nil => exact absurd h (splitOn_ne_nil _ _)
      | cons x xs => simp
    · simp only [hc]
      cases h : splitOn sep a with
      | nil => exact absurd h (splitOn_ne_nil _ _)
      | cons x xs => simp

theorem splitOn_no_sep (sep : Char) (s : Str) (h : ∀ c ∈ s, (c == sep) = false) : splitOn sep s = [s] := by
  induction s with
  | nil => rfl
  | cons c s ih =>
    rw [splitOn_cons, h c (by simp), ih (fun x hx => h x (by simp [hx]))]
    simp

/-! ### first match -/

theorem find_congr {α} (p q : α → Bool) (l : List α) (h : ∀ x ∈ l, p x = q x) : l.find? p = l.find? q := by
  induction l with
  | nil => rfl
  | cons a l ih =>
    simp only [List.find?_cons, h a (by simp)]
    rw [ih (fun x hx => h x (by simp [hx]))]

theorem find_first {α} (p : α → Bool) (pre post : List α) (x : α) (hx : p x = true) (hpre : ∀ y ∈ pre, p y = false) :
    (pre ++ x :: post).find? p = some x := by
  induction pre with
  | nil => simp [hx]
  | cons a pre ih =>
    simp only [List.cons_append, List.find?_cons, hpre a (by simp)]
    exact ih (fun y hy => hpre y (by simp [hy]))

theorem find_split {α} (p : α → Bool) (l : List α) (x : α) (h : l.find? p = some x) :
    ∃ pre post, l = pre ++ x :: post ∧ p x = true ∧ ∀ y ∈ pre, p y = false := by
  induction l with
  | nil => cases h
  | cons a l ih =>
    simp only [List.find?_cons] at h
    cases ha : p a with
    | true =>
      simp only [ha] at h
      cases h
      exact ⟨[], l, rfl, ha, by simp⟩
    | false =>
      simp only [ha] at h
      obtain ⟨pre, post, e, hx, hpre⟩ := ih h
      refine ⟨a :: pre, post, by simp [e], hx, ?_⟩
      intro y hy
      rcases List.mem_cons.mp hy with rfl | hy
      · exact ha
      · exact hpre y hy

theorem gitRootFrom_spec (ds : List Dir) (n m : Nat) (h : gitRootFrom n ds = some m) :
    ∃ i, m = n + i ∧ (∃ d, ds[i]? = some d ∧ d.hasGit = true) ∧ ∀ j, j < i → ∀ d, ds[j]? = some d → d.hasGit = false := by
  induction ds generalizing n with
  | nil => cases h
  | cons d ds ih =>
    simp only [gitRootFrom] at h
    by_cases hg : d.hasGit = true
    · simp only [hg, if_true] at h
      cases h
      exact ⟨0, rfl, ⟨d, rfl, hg⟩, by intro j hj; omega⟩
    · have hg' : d.hasGit = false := by simpa using hg
      simp only [hg'] at h
      obtain ⟨i, e, hd, hlt⟩ := ih (n + 1) (by simpa using h)
      refine ⟨i + 1, by omega, by simpa using hd, ?_⟩
      intro j hj d' hd'
      cases j with
      | zero => simp at hd'; subst hd'; exact hg'
      | succ j => exact hlt j (by omega) d' (by simpa using hd')

end Gallia.Config
