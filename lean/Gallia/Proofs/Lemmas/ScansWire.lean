import Gallia.Proofs.Lemmas.ScansLog
/-
  The client's retry / ResponsePending loop (`clientEcu`) between the scanners and the wire.
-/
namespace Gallia.Scans
open Gallia

variable {σ : Type}

/-- the same wire ECU, remembering every transmission (newest first) -/
def wlogged (w : WireEcu σ) : WireEcu (σ × List Bytes) where
  wstep s p := (((w.wstep s.1 p).1, p :: s.2), (w.wstep s.1 p).2)

/-- one exchange with `n` transmissions allowed puts the request on the wire at least once and at most `n` times,
    and nothing else -/
theorem exchangeLoop_log (w : WireEcu σ) (pdu : Bytes) (n : Nat) (s : σ × List Bytes) :
    ∃ m, (0 < n → 0 < m) ∧ m ≤ n ∧ (exchangeLoop (wlogged w) pdu n s).1.2 = List.replicate m pdu ++ s.2 := by
  induction n generalizing s with
  | zero => exact ⟨0, by omega, by omega, by simp [exchangeLoop]⟩
  | succ n ih =>
    have hlog : ((wlogged w).wstep s pdu).1.2 = pdu :: s.2 := rfl
    have one : ∃ m, (0 < n + 1 → 0 < m) ∧ m ≤ n + 1 ∧ ((wlogged w).wstep s pdu).1.2 = List.replicate m pdu ++ s.2 :=
      ⟨1, by omega, by omega, by rw [hlog]; rfl⟩
    have more : ∃ m, (0 < n + 1 → 0 < m) ∧ m ≤ n + 1 ∧
        (exchangeLoop (wlogged w) pdu n ((wlogged w).wstep s pdu).1).1.2 = List.replicate m pdu ++ s.2 := by
      obtain ⟨m, _, h2, h3⟩ := ih ((wlogged w).wstep s pdu).1
      refine ⟨m + 1, by omega, by omega, ?_⟩
      rw [h3, hlog, List.replicate_succ']
      simp
    simp only [exchangeLoop]
    split
    · exact one
    · cases (wlogged w).wstep s pdu |>.2.final with
      | pos p => exact one
      | garbage => exact one
      | silent =>
        simp only []
        split
        · exact one
        · exact more
      | neg c =>
        simp only []
        split
        · exact more
        · exact one

/-- the real client over a logging wire ECU is an ECU with a request log: every exchange of `p` shows up as between
    one and `max_retry + 1` transmissions of `p` -/
theorem client_logs (w : WireEcu σ) (retry : Bytes → Nat) (M : Nat) (hM : ∀ p, retry p ≤ M) :
    Logs (clientEcu (wlogged w) retry) (·.2) (M + 1) := by
  refine ⟨fun s p => ?_⟩
  obtain ⟨m, h1, h2, h3⟩ := exchangeLoop_log w p (retry p + 1) s
  exact ⟨m, h1 (by omega), by have := hM p; omega, h3⟩

/-- logging does not change what the client sees -/
theorem exchangeLoop_wlogged (w : WireEcu σ) (pdu : Bytes) (n : Nat) (s : σ × List Bytes) :
    (exchangeLoop (wlogged w) pdu n s).2 = (exchangeLoop w pdu n s.1).2 ∧
    (exchangeLoop (wlogged w) pdu n s).1.1 = (exchangeLoop w pdu n s.1).1 := by
  induction n generalizing s with
  | zero => exact ⟨rfl, rfl⟩
  | succ n ih =>
    have h1 : ((wlogged w).wstep s pdu).2 = (w.wstep s.1 pdu).2 := rfl
    have h2 : ((wlogged w).wstep s pdu).1.1 = (w.wstep s.1 pdu).1 := rfl
    have ih1 := ih ((wlogged w).wstep s pdu).1
    rw [h2] at ih1
    simp only [exchangeLoop, h1]
    split
    · exact ⟨rfl, h2⟩
    · cases (w.wstep s.1 pdu).2.final with
      | pos p => exact ⟨rfl, h2⟩
      | garbage => exact ⟨rfl, h2⟩
      | silent =>
        simp only []
        split
        · exact ⟨rfl, h2⟩
        · exact ih1
      | neg c =>
        simp only []
        split
        · exact ih1
        · exact ⟨rfl, h2⟩

/-- the same wire ECU without its ResponsePending frames -/
def stripPending (w : WireEcu σ) : WireEcu σ where
  wstep s p := ((w.wstep s p).1, ⟨0, (w.wstep s p).2.final⟩)

/-- fewer than `MAX_N_PENDING` ResponsePending frames in front of a final message are invisible above the client,
    except that a busyRepeatRequest behind them is returned instead of retried -/
theorem exchangeLoop_strip (w : WireEcu σ) (hlt : ∀ s p, (w.wstep s p).2.pendings < maxPending)
    (hb : ∀ s p, (w.wstep s p).2.pendings ≠ 0 → (w.wstep s p).2.final ≠ .neg BRR)
    (pdu : Bytes) (n : Nat) (s : σ) : exchangeLoop w pdu n s = exchangeLoop (stripPending w) pdu n s := by
  induction n generalizing s with
  | zero => rfl
  | succ n ih =>
    have h1 := hlt s pdu
    have h2 := hb s pdu
    have a1 : ((stripPending w).wstep s pdu).1 = (w.wstep s pdu).1 := rfl
    have a2 : ((stripPending w).wstep s pdu).2.final = (w.wstep s pdu).2.final := rfl
    have a3 : ((stripPending w).wstep s pdu).2.pendings = 0 := rfl
    have hk : ¬ maxPending ≤ (w.wstep s pdu).2.pendings := by omega
    have h0 : ¬ maxPending ≤ 0 := by decide
    simp only [exchangeLoop, a1, a2, a3, hk, h0, if_false]
    cases hf : (w.wstep s pdu).2.final with
    | pos p => rfl
    | garbage => rfl
    | silent =>
      simp only []
      split
      · rfl
      · exact ih _
    | neg c =>
      simp only []
      by_cases hc : c = BRR
      · subst hc
        by_cases hk0 : (w.wstep s pdu).2.pendings = 0
        · simp only [hk0, true_and]
          split
          · exact ih _
          · rfl
        · exact absurd hf (h2 hk0)
      · simp [hc]

theorem client_strip (w : WireEcu σ) (hlt : ∀ s p, (w.wstep s p).2.pendings < maxPending)
    (hb : ∀ s p, (w.wstep s p).2.pendings ≠ 0 → (w.wstep s p).2.final ≠ .neg BRR) (retry : Bytes → Nat) :
    clientEcu w retry = clientEcu (stripPending w) retry := by
  unfold clientEcu
  congr 1
  funext s pdu
  exact exchangeLoop_strip w hlt hb pdu _ s

/-- an exchange ends with `RuntimeError` only if some transmission was answered with `MAX_N_PENDING` ResponsePending frames -/
theorem exchangeLoop_stuck (w : WireEcu σ) (pdu : Bytes) (n : Nat) (s : σ)
    (h : (exchangeLoop w pdu n s).2 = .stuck) : ∃ s', maxPending ≤ (w.wstep s' pdu).2.pendings := by
  induction n generalizing s with
  | zero => simp [exchangeLoop] at h
  | succ n ih =>
    simp only [exchangeLoop] at h
    split at h
    · rename_i hk
      exact ⟨s, hk⟩
    · cases hf : (w.wstep s pdu).2.final with
      | pos p => rw [hf] at h; simp at h
      | garbage => rw [hf] at h; simp at h
      | silent =>
        rw [hf] at h
        simp only [] at h
        split at h
        · simp at h
        · exact ih _ h
      | neg c =>
        rw [hf] at h
        simp only [] at h
        split at h
        · exact ih _ h
        · simp at h

end Gallia.Scans
