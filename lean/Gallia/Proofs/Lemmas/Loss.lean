import Gallia.Model.Loss
import Gallia.Proofs.Lemmas.Lines
import Gallia.Proofs.Lemmas.DoipFifo
import Gallia.Proofs.Lemmas.Hsfz
import Gallia.Proofs.Lemmas.HsfzOrder
/-
  C08 — helper lemmas for `Proofs/C08.lean`: what the two transport operations of the loss machine can return and
  when, the "nothing but received messages" laws of the three protocol instances, the listener / reconnect window.
-/
namespace Gallia.Loss
open Gallia Gallia.Framing

variable {Q : Type}

/-- the results the property allows for a pending operation -/
def PRes.allowed : PRes → Prop
  | .data _ | .timeout | .connErr | .eos => True
  | _ => False

/-! ### what the protocol instances hand out -/

/-- a protocol hands out nothing but payloads of completely received messages -/
structure Laws (P : Proto Q) : Prop where
  data_sound : ∀ q d q', P.takeData q = .hit d q' → d ∈ P.payloads q
  ack_keeps : ∀ req q q', P.takeAck req q = .hit () q' → ∀ d ∈ P.payloads q', d ∈ P.payloads q
  never_bad_ack : ∀ req q q', P.takeAck req q ≠ .bad q'

theorem cutLine_sound {buf l rest : Bytes} (h : Lines.cutLine buf = some (l, rest)) :
    buf = l ++ Lines.NL :: rest ∧ Lines.NL ∉ l := by
  induction buf generalizing l with
  | nil => simp [Lines.cutLine] at h
  | cons b t ih =>
    simp only [Lines.cutLine] at h
    split at h
    · rename_i hb
      injection h with h; injection h with h1 h2
      subst h1 h2
      simp [hb]
    · rename_i hb
      split at h
      · cases h
      · rename_i l' r' hc
        injection h with h; injection h with h1 h2
        subst h1 h2
        obtain ⟨e, hn⟩ := ih hc
        refine ⟨by rw [e]; simp, ?_⟩
        intro hm
        rcases List.mem_cons.mp hm with hm | hm
        · exact hb hm.symm
        · exact hn hm

/-- a line transport's `read()` returns a message only for a newline-terminated line of the buffer that decodes to it -/
theorem lines_hit_line {buf m rest : Bytes} (h : linesProto.takeData buf = .hit m rest) :
    ∃ l, buf = l ++ Lines.NL :: rest ∧ Lines.NL ∉ l ∧ Lines.decodeLine l = .msg m := by
  simp only [linesProto, Lines.readLine] at h
  cases hc : Lines.cutLine buf with
  | none => rw [hc] at h; simp at h
  | some p =>
    obtain ⟨l, r⟩ := p
    rw [hc] at h
    simp only at h
    cases hd : Lines.decodeLine l with
    | msg m' =>
      rw [hd] at h
      simp only [Take.hit.injEq] at h
      obtain ⟨rfl, rfl⟩ := h
      obtain ⟨e, hn⟩ := cutLine_sound hc
      exact ⟨l, e, hn, hd⟩
    | eos => rw [hd] at h; cases h
    | pending => rw [hd] at h; cases h
    | bad => rw [hd] at h; cases h

theorem linesLaws : Laws linesProto where
  data_sound := by
    intro q d q' h
    obtain ⟨l, e, hn, hd⟩ := lines_hit_line h
    have hc : Lines.cutLine q = some (l, q') := by rw [e]; exact Lines.cutLine_line l q' hn
    simp only [linesProto, linePayloads, hc, hd]
    simp
  ack_keeps := by
    intro req q q' h d hd
    simp only [linesProto, Take.hit.injEq, true_and] at h
    subst h; exact hd
  never_bad_ack := by intro req q q' h; simp [linesProto] at h

theorem doipLaws (cfg : Doip.Cfg) : Laws (doipProto cfg) where
  data_sound := by
    intro q d q' h
    simp only [doipProto] at h
    cases hs : DoipFifo.findSplit (Doip.isDiagFor cfg) q with
    | none => rw [hs] at h; cases h
    | some r =>
      obtain ⟨pre, f, post⟩ := r
      rw [hs] at h
      simp only [Take.hit.injEq] at h
      obtain ⟨rfl, _⟩ := h
      obtain ⟨e, hf, _⟩ := DoipFifo.findSplit_sound _ hs
      simp only [doipProto, List.mem_map, List.mem_filter]
      exact ⟨f, ⟨by rw [e]; simp, hf⟩, rfl⟩
  ack_keeps := by
    intro req q q' h d hd
    simp only [doipProto] at h hd ⊢
    cases hs : DoipFifo.findSplit (Doip.ackMatch cfg req) q with
    | none => rw [hs] at h; cases h
    | some r =>
      obtain ⟨pre, f, post⟩ := r
      obtain ⟨e, _, _⟩ := DoipFifo.findSplit_sound _ hs
      rw [hs] at h
      have hq' : q' = pre ++ post := by
        cases f <;> simp only [DoipFifo.requeueFront] at h
        all_goals first
          | (simp only [Take.hit.injEq, true_and] at h; exact h.symm)
          | (split at h <;> first | (simp only [Take.hit.injEq, true_and] at h; exact h.symm) | cases h)
      subst hq'
      simp only [List.mem_map, List.mem_filter, List.mem_append] at hd ⊢
      obtain ⟨g, ⟨hg, hp⟩, rfl⟩ := hd
      refine ⟨g, ⟨?_, hp⟩, rfl⟩
      rw [e]; simp only [List.mem_append, List.mem_cons]
      rcases hg with hg | hg
      · exact .inl hg
      · exact .inr (.inr hg)
  never_bad_ack := by
    intro req q q' h
    simp only [doipProto] at h
    split at h
    · cases h
    · split at h <;> cases h
    · cases h

theorem hsfzLaws (cfg : Hsfz.Cfg) : Laws (hsfzProto cfg) where
  data_sound := by
    intro q d q' h
    simp only [hsfzProto] at h
    cases hs : Hsfz.scan (Hsfz.dataMatches cfg) [] q with
    | more sk => rw [hs] at h; cases h
    | err cw rest sk => rw [hs] at h; cases h
    | hit x rest sk =>
      rw [hs] at h
      simp only [Take.hit.injEq] at h
      obtain ⟨rfl, _⟩ := h
      obtain ⟨pre, e, _, _, _, hm⟩ := Hsfz.scan_hit_inv hs
      simp only [hsfzProto, Hsfz.dataOf, List.mem_map, List.mem_filter]
      exact ⟨x, ⟨by rw [e]; simp, hm⟩, rfl⟩
  ack_keeps := by
    intro req q q' h d hd
    simp only [hsfzProto] at h hd ⊢
    cases hs : Hsfz.scan (Hsfz.ackMatches cfg req) [] q with
    | more sk => rw [hs] at h; cases h
    | err cw rest sk => rw [hs] at h; cases h
    | hit x rest sk =>
      rw [hs] at h
      simp only [Take.hit.injEq, true_and] at h
      obtain ⟨pre, e, hsk, _, _, _⟩ := Hsfz.scan_hit_inv hs
      subst h
      simp only [Hsfz.dataOf, List.mem_map, List.mem_filter, List.mem_append] at hd ⊢
      obtain ⟨g, ⟨hg, hp⟩, rfl⟩ := hd
      refine ⟨g, ⟨?_, hp⟩, rfl⟩
      rw [e]; simp only [List.mem_append, List.mem_cons]
      rw [hsk] at hg; simp only [List.nil_append] at hg
      rcases hg with hg | hg
      · exact .inl hg
      · exact .inr (.inr hg)
  never_bad_ack := by
    intro req q q' h
    simp only [hsfzProto] at h
    split at h <;> cases h

/-- the two ack-based protocols never report a malformed line -/
theorem doip_never_bad (cfg : Doip.Cfg) (q q' : List Doip.Frame) : (doipProto cfg).takeData q ≠ .bad q' := by
  intro h; simp only [doipProto] at h; split at h <;> cases h

theorem hsfz_never_bad (cfg : Hsfz.Cfg) (q q' : List Hsfz.Item) : (hsfzProto cfg).takeData q ≠ .bad q' := by
  intro h; simp only [hsfzProto] at h; split at h <;> cases h

/-- a malformed-line result of a line transport stems from a complete, newline-terminated line - never from a cut -/
theorem lines_bad_complete {buf rest : Bytes} (h : linesProto.takeData buf = .bad rest) :
    ∃ l, buf = l ++ Lines.NL :: rest ∧ Lines.NL ∉ l ∧ Lines.decodeLine l = .bad := by
  simp only [linesProto, Lines.readLine] at h
  cases hc : Lines.cutLine buf with
  | none => rw [hc] at h; simp at h
  | some p =>
    obtain ⟨l, r⟩ := p
    rw [hc] at h
    simp only at h
    cases hd : Lines.decodeLine l with
    | bad =>
      rw [hd] at h
      simp only [Take.bad.injEq] at h
      subst h
      obtain ⟨e, hn⟩ := cutLine_sound hc
      exact ⟨l, e, hn, hd⟩
    | eos => rw [hd] at h; cases h
    | pending => rw [hd] at h; cases h
    | msg m => rw [hd] at h; cases h

/-! ### the queue an operation starts from -/

/-- connection state an operation that starts at `now` works on -/
def startW (P : Proto Q) (sc : Scn) (c : Conn Q) (now : Nat) : Conn Q :=
  if c.fresh then arm P sc c now else sync P sc c now

/-- … its queue is what was queued before, or - for the first request on the connection - the reader side's view of the
    delivered prefix -/
theorem startW_q (P : Proto Q) (sc : Scn) (c : Conn Q) (now : Nat) :
    (startW P sc c now).q = c.q ∨ (startW P sc c now).q = P.parse sc.pre := by
  unfold startW arm sync Conn.finishEnd
  split
  · split
    · exact .inl rfl
    · exact .inr rfl
  · split <;> exact .inl rfl

theorem sync_q (P : Proto Q) (sc : Scn) (c : Conn Q) (now : Nat) : (sync P sc c now).q = c.q := by
  unfold sync Conn.finishEnd; split <;> rfl

theorem sync_te (P : Proto Q) (sc : Scn) (c : Conn Q) (now : Nat) : (sync P sc c now).te = c.te := by
  unfold sync Conn.finishEnd; split <;> rfl

theorem sync_closed (P : Proto Q) (sc : Scn) (c : Conn Q) (now : Nat) (h : (sync P sc c now).closed = true) :
    c.closed = true ∨ P.kind = .doip := by
  unfold sync Conn.finishEnd at h
  split at h
  · simp only [Bool.or_eq_true, beq_iff_eq] at h; exact h
  · exact .inl h

set_option linter.unusedSimpArgs false

@[simp] theorem arm_fresh (P : Proto Q) (sc : Scn) (c : Conn Q) (now : Nat) : (arm P sc c now).fresh = false := by
  unfold arm; split <;> rfl

@[simp] theorem sync_fresh (P : Proto Q) (sc : Scn) (c : Conn Q) (now : Nat) : (sync P sc c now).fresh = c.fresh := by
  unfold sync Conn.finishEnd; split <;> rfl

/-- everything the proofs need to know about one `write` -/
theorem opWrite_spec (P : Proto Q) (sc : Scn) (c : Conn Q) (now : Nat) (req : Bytes) (tmo : Option Nat) :
    let r := opWrite P sc c now req tmo
    (r.1 = .wrote ∨ r.1 = .connErr ∨ (r.1 = .timeout ∧ ∃ t, tmo = some t)) ∧
    now ≤ r.2.1 ∧
    (∀ t, tmo = some t → r.2.1 ≤ now + t) ∧
    r.2.1 ≤ now + P.ackTime ∧
    (r.1 = .wrote → r.2.1 = now ∧ r.2.2.closed = false ∧ r.2.2.fresh = false ∧ r.2.2.te = (startW P sc c now).te ∧
      (r.2.2.q = (startW P sc c now).q ∨ P.takeAck req (startW P sc c now).q = .hit () r.2.2.q)) := by
  unfold opWrite startW
  dsimp only
  repeat' split
  all_goals (simp only [Bool.and_eq_true, Bool.or_eq_true, Bool.not_eq_true', bne_iff_ne, beq_iff_eq, decide_eq_true_eq, sync_fresh, arm_fresh, ne_eq, Bool.not_eq_false] at *)
  all_goals grind

/-- … and about one `read` -/
theorem opRead_spec (P : Proto Q) (sc : Scn) (c : Conn Q) (now : Nat) (tmo : Option Nat) :
    let r := opRead P sc c now tmo
    now ≤ r.2.1 ∧
    (∀ t, tmo = some t → r.2.1 ≤ now + t ∧ r.1 ≠ .blocked) ∧
    r.1 ≠ .wrote ∧
    (r.1 = .badFd → c.closed = true ∧ P.kind = .hsfz) ∧
    (∀ d, r.1 = .data d → ∃ q', P.takeData c.q = .hit d q') ∧
    (r.1 = .badLine → ∃ q', P.takeData c.q = .bad q') ∧
    (r.1 = .blocked → tmo = none ∧ (c.fresh = true ∨ sc.cut = .silence ∨ sc.delta.isSome = false)) ∧
    (tmo = none → r.2.1 = now ∨ r.2.1 = c.te) := by
  have hq := sync_q P sc c now
  have hte := sync_te P sc c now
  have hcl := sync_closed P sc c now
  cases tmo with
  | none =>
    unfold opRead endRes willEnd
    dsimp only
    repeat' split
    all_goals (simp only [Bool.and_eq_true, Bool.or_eq_true, Bool.not_eq_true', bne_iff_ne, beq_iff_eq, decide_eq_true_eq, sync_fresh, arm_fresh, ne_eq, Bool.not_eq_false] at *)
    all_goals grind
  | some t =>
    unfold opRead endRes willEnd
    dsimp only
    repeat' split
    all_goals (simp only [Bool.and_eq_true, Bool.or_eq_true, Bool.not_eq_true', bne_iff_ne, beq_iff_eq, decide_eq_true_eq, sync_fresh, arm_fresh, ne_eq, Bool.not_eq_false] at *)
    all_goals grind

end Gallia.Loss
